#!/bin/sh
# Build the framework from files on disk only (offline).
set -e
cd "$(dirname "$0")"
export CARGO_NET_OFFLINE=true
[ -f harness/Cargo.lock ] || cp /repo/Cargo.lock harness/Cargo.lock
(cd lean && lake build QV qvdriver)
(cd harness && cargo build --release --offline)
