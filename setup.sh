#!/bin/sh
# Build the framework from files on disk only (offline). A property whose build fails does not
# stop the others; its own check will report it.
cd "$(dirname "$0")"
export CARGO_NET_OFFLINE=true
export CARGO_TARGET_DIR="$(pwd)/harness/target"
[ -f harness/Cargo.lock ] || cp /repo/Cargo.lock harness/Cargo.lock
IDS=$(python3 -c "import json;print(' '.join(c['property_id'] for c in json.load(open('MANIFEST.json'))['checks']))")
(cd lean && lake build QV.Wire)
for id in $IDS; do
  lid=$(echo "$id" | tr 'A-Z' 'a-z')
  (cd lean && lake build "QV.$id.Props" "qv_$lid") || echo "setup: lean build failed for $id"
done
(cd harness && cargo build --release --offline --lib) || echo "setup: harness lib build failed"
for id in $IDS; do
  lid=$(echo "$id" | tr 'A-Z' 'a-z')
  (cd harness && cargo build --release --offline --bin "$lid") || echo "setup: harness build failed for $id"
done
exit 0
