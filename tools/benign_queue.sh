#!/bin/bash
# tools/benign_queue.sh <queue-file>: drain lines "<dir> <patch-file> <name> <prop>..." through benign_run.sh sequentially.
Q="$1"; touch "$Q"; N=0
while true; do
  LINE=$(sed -n "$((N+1))p" "$Q")
  if [ -z "$LINE" ]; then sleep 20; continue; fi
  N=$((N+1))
  [ "$LINE" = END ] && break
  echo "=== $LINE $(date -u +%H:%M:%S)" >> "$Q.log"
  /verif/tools/benign_run.sh $LINE >> "$Q.log" 2>&1
  echo "=== done rc=$? $(date -u +%H:%M:%S)" >> "$Q.log"
done
