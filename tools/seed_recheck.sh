#!/bin/bash
# re-run only the check step for already-confirmed seeds: fresh worktree + patch, QV_REPO route
cd /verif
for NAME in "$@"; do
  PROP=$(python3 -c "import json;print(json.load(open('seeded/$NAME/meta.json'))['property'])")
  WT=/tmp/confirm-$NAME
  git -C /repo worktree remove --force "$WT" 2>/dev/null
  git -C /repo worktree add --detach "$WT" HEAD >/dev/null 2>&1
  ( cd "$WT" && git apply /verif/seeded/$NAME/patch.diff ) || { echo "$NAME: patch does not apply"; continue; }
  TAG=$(python3 -c "import hashlib,sys;print(hashlib.sha1(sys.argv[1].encode()).hexdigest()[:10])" "$WT")
  QV_REPO="$WT" ./check "$PROP" --tier quick > /tmp/confirm-$NAME.check 2>&1; RC=$?
  python3 - "$NAME" "$RC" <<'PY'
import json,sys
name,rc=sys.argv[1:3]
p=f"/verif/seeded/{name}/meta.json"; m=json.load(open(p))
chk=open(f"/tmp/confirm-{name}.check").read().strip().splitlines()
m["detected_by_quick_check"]=(rc=="1" and any(l.startswith("VIOLATION") for l in chk))
m["check_output"]=chk[-3:]
json.dump(m,open(p,"w"),indent=1)
print(name, "detected" if m["detected_by_quick_check"] else "MISSED", chk[-2:] )
PY
  git -C /repo worktree remove --force "$WT" >/dev/null 2>&1; rm -rf "/tmp/qvh-$TAG"
done
