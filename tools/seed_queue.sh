#!/bin/bash
# tools/seed_queue.sh <queue-file> : drain a queue of seed names (one "Cxx-k" per line, appended by hand),
# confirming each sequentially with seed_confirm.sh; seeds come from /tmp/seed-<name>. Stops on a line "END".
# Usage: SEED_TARGET=/tmp/seed-target2 tools/seed_queue.sh /tmp/confirm-queue-a &
Q="$1"; touch "$Q"; N=0
while true; do
  LINE=$(sed -n "$((N+1))p" "$Q")
  if [ -z "$LINE" ]; then sleep 20; continue; fi
  N=$((N+1))
  [ "$LINE" = END ] && break
  PROP=${LINE%%-*}
  echo "=== $LINE $(date -u +%H:%M:%S)" >> "$Q.log"
  /verif/tools/seed_confirm.sh /tmp/seed-$LINE "$PROP" "$LINE" >> "$Q.log" 2>&1
  echo "=== done $LINE rc=$? $(date -u +%H:%M:%S)" >> "$Q.log"
  git -C /repo worktree remove --force /tmp/seed-$LINE >/dev/null 2>&1
done
