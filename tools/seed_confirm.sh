#!/bin/bash
# tools/seed_confirm.sh <seed-dir> <property> <name>
# Confirm a seeded breaking change independently of its author, in a fresh scratch worktree of /repo's HEAD:
#   1. patch applies and the workspace test suite still passes with it;
#   2. the demonstration FAILS with the change and PASSES without it;
#   3. run this framework's check for the property against the changed tree (QV_REPO route) and record the verdict.
# Result: /verif/seeded/<name>/{patch.diff, seed_demo.rs, meta.json}. The worktree is removed afterwards.
set -u
SRC="$1"; PROP="$2"; NAME="$3"
WT=/tmp/confirm-$NAME
export CARGO_NET_OFFLINE=true CARGO_TARGET_DIR="${SEED_TARGET:-/tmp/seed-target}"
cd /verif
git -C /repo worktree remove --force "$WT" 2>/dev/null
git -C /repo worktree add --detach "$WT" HEAD >/dev/null 2>&1 || { echo "worktree failed"; exit 2; }
TAG=$(python3 -c "import hashlib,sys;print(hashlib.sha1(sys.argv[1].encode()).hexdigest()[:10])" "$WT")
cleanup() { git -C /repo worktree remove --force "$WT" >/dev/null 2>&1; rm -rf "/tmp/qvh-$TAG"; }
trap cleanup EXIT
cp "$SRC/seed_demo.rs" "$WT/quil-rs/examples/seed_demo.rs"
# --- without the change
( cd "$WT" && cargo run --offline -q --example seed_demo ) > /tmp/confirm-$NAME.without 2>&1; RC_WITHOUT=$?
# --- with the change
( cd "$WT" && git apply "$SRC/patch.diff" ) || { echo "patch does not apply to HEAD"; exit 3; }
( cd "$WT" && cargo run --offline -q --example seed_demo ) > /tmp/confirm-$NAME.with 2>&1; RC_WITH=$?
( cd "$WT" && cargo test --workspace --no-fail-fast --offline 2>&1 | grep -E "^test result|FAILED|failed" ) > /tmp/confirm-$NAME.tests 2>&1
FAILS=$(grep -E "^test result" /tmp/confirm-$NAME.tests | grep -vc " 0 failed")
NRES=$(grep -cE "^test result" /tmp/confirm-$NAME.tests)
echo "demo without change: rc=$RC_WITHOUT; with change: rc=$RC_WITH; test-result lines=$NRES with failures=$FAILS"
if [ "$RC_WITHOUT" -ne 0 ] || [ "$RC_WITH" -eq 0 ] || [ "$FAILS" -ne 0 ] || [ "$NRES" -lt 3 ]; then
  echo "NOT CONFIRMED"; tail -n 5 /tmp/confirm-$NAME.without /tmp/confirm-$NAME.with /tmp/confirm-$NAME.tests; exit 4
fi
rm -f "$WT/quil-rs/examples/seed_demo.rs"
# --- our check against the changed tree
QV_REPO="$WT" ./check "$PROP" --tier quick > /tmp/confirm-$NAME.check 2>&1; RC_CHECK=$?
tail -3 /tmp/confirm-$NAME.check
mkdir -p seeded/$NAME
cp "$SRC/patch.diff" "$SRC/seed_demo.rs" seeded/$NAME/
python3 - "$SRC" "$PROP" "$NAME" "$RC_CHECK" <<'PY'
import json, sys, subprocess
src, prop, name, rc = sys.argv[1:5]
try:
    m = json.load(open(f"{src}/meta.json"))
except Exception as e:
    m = {"author_meta_unreadable": str(e)}
m["property"] = prop
m["confirmed"] = {
  "base": subprocess.run(["git","-C","/repo","rev-parse","--short","HEAD"],capture_output=True,text=True).stdout.strip(),
  "what_was_run": "tools/seed_confirm.sh: fresh worktree of /repo HEAD; demo without change (exit 0), git apply patch.diff, demo with change (exit != 0), cargo test --workspace --no-fail-fast --offline (all result lines 0 failed), then QV_REPO=<worktree> ./check %s --tier quick" % prop,
  "tests": open(f"/tmp/confirm-{name}.tests").read().strip().splitlines(),
  "demo_without": open(f"/tmp/confirm-{name}.without").read().strip()[-400:],
  "demo_with": open(f"/tmp/confirm-{name}.with").read().strip()[-400:],
}
chk = open(f"/tmp/confirm-{name}.check").read().strip().splitlines()
m["detected_by_quick_check"] = (rc == "1" and any(l.startswith("VIOLATION") for l in chk))
m["check_output"] = chk[-3:]
json.dump(m, open(f"/verif/seeded/{name}/meta.json","w"), indent=1)
print("detected" if m["detected_by_quick_check"] else "MISSED")
PY
