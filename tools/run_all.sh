#!/bin/bash
# tools/run_all.sh [tier] [ids...] — run every claimed check (or the given ids), print one summary line each
cd "$(dirname "$0")/.."
TIER="${1:-quick}"; shift
IDS="$@"
[ -z "$IDS" ] && IDS=$(python3 -c "import json;print(' '.join(c['property_id'] for c in json.load(open('MANIFEST.json'))['checks']))")
for id in $IDS; do
  out=$(./check "$id" --tier "$TIER" 2>&1); rc=$?
  echo "[$rc] $(echo "$out" | tail -n 1 | cut -c1-260)"
  echo "$out" | grep -E "^(VIOLATION|KNOWN-FINDING)" | cut -c1-200
done
