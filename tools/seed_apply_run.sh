#!/bin/bash
# tools/seed_apply_run.sh <name> [tier]   — the official route: apply a seeded change to /repo itself, run the
# registered check for its property, and undo the change straight afterwards. Only use when nothing else is
# building against /repo.
set -u
NAME="$1"; TIER="${2:-quick}"
cd /verif
PROP=$(python3 -c "import json;print(json.load(open('seeded/$NAME/meta.json'))['property'])")
git -C /repo diff --quiet || { echo "/repo working tree is not clean"; exit 2; }
git -C /repo apply "/verif/seeded/$NAME/patch.diff" || { echo "patch does not apply"; exit 3; }
cp evidence/$PROP.json /tmp/evidence-$PROP.keep 2>/dev/null
./check "$PROP" --tier "$TIER"; RC=$?
git -C /repo checkout -- .
cp /tmp/evidence-$PROP.keep evidence/$PROP.json 2>/dev/null
echo "seed $NAME property $PROP tier $TIER: check exit $RC"
exit $RC
