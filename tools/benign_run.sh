#!/bin/bash
# tools/benign_run.sh <dir> <patch-file> <name> <prop>... : false-alarm test. Apply a HARMLESS change (written by a
# sub-agent that saw only property texts) in a fresh scratch worktree of /repo HEAD, confirm the whole test suite passes,
# then run the quick check of each listed property against the changed tree (QV_REPO route). Every check must exit 0.
# Result: /verif/benign/<name>/{patch.diff, meta.json}.
set -u
DIR="$1"; PATCH="$2"; NAME="$3"; shift 3
WT=/tmp/bconfirm-$NAME
export CARGO_NET_OFFLINE=true CARGO_TARGET_DIR="${SEED_TARGET:-/tmp/seed-target}"
cd /verif
git -C /repo worktree remove --force "$WT" 2>/dev/null
git -C /repo worktree add --detach "$WT" HEAD >/dev/null 2>&1 || { echo "worktree failed"; exit 2; }
TAG=$(python3 -c "import hashlib,sys;print(hashlib.sha1(sys.argv[1].encode()).hexdigest()[:10])" "$WT")
cleanup() { git -C /repo worktree remove --force "$WT" >/dev/null 2>&1; rm -rf "/tmp/qvh-$TAG"; }
trap cleanup EXIT
( cd "$WT" && git apply "$DIR/$PATCH" ) || { echo "patch does not apply"; exit 3; }
( cd "$WT" && cargo test --workspace --no-fail-fast --offline 2>&1 | grep -E "^test result|FAILED|failed" ) > /tmp/bconfirm-$NAME.tests 2>&1
FAILS=$(grep -E "^test result" /tmp/bconfirm-$NAME.tests | grep -vc " 0 failed"); NRES=$(grep -cE "^test result" /tmp/bconfirm-$NAME.tests)
if [ "$FAILS" -ne 0 ] || [ "$NRES" -lt 3 ]; then echo "SUITE FAILS with $NAME"; cat /tmp/bconfirm-$NAME.tests | tail -5; exit 4; fi
mkdir -p benign/$NAME; cp "$DIR/$PATCH" benign/$NAME/patch.diff
RES=""
for P in "$@"; do
  QV_REPO="$WT" ./check "$P" --tier quick > /tmp/bconfirm-$NAME.$P 2>&1; RC=$?
  LAST=$(tail -1 /tmp/bconfirm-$NAME.$P | tr '"' "'")
  VIO=$(grep -c "^VIOLATION" /tmp/bconfirm-$NAME.$P)
  echo "$NAME $P rc=$RC violations=$VIO :: $LAST"
  RES="$RES{\"property\":\"$P\",\"exit\":$RC,\"violation_lines\":$VIO,\"last\":\"$LAST\"},"
done
python3 - "$DIR" "$PATCH" "$NAME" "[${RES%,}]" <<'PY'
import json,sys
d,patch,name,res=sys.argv[1:5]
meta={}
import os
prev=f"/verif/benign/{name}/meta.json"
if os.path.exists(prev):
    try:
        meta=json.load(open(prev))
        if "checks" in meta and "first_run_checks" not in meta and not meta.get("quiet", True):
            meta["first_run_checks"]=meta["checks"]
            meta.setdefault("resolution","alarm removed by canonicalising the correspondence (see DESIGN.md 11.7 and the property's docs); re-run below")
    except Exception: meta={}
if not meta:
  try:
    m=json.load(open(f"{d}/meta.json"))
    for p in m.get("patches",[]):
        if p.get("file")==patch: meta=p
  except Exception as e: meta={"note":"agent meta unreadable: %s"%e}
meta["checks"]=json.loads(res)
meta["quiet"]=all(c["exit"]==0 and c["violation_lines"]==0 for c in meta["checks"])
meta["what_was_run"]="tools/benign_run.sh: fresh worktree of /repo HEAD, git apply, cargo test --workspace (0 failed), QV_REPO=<worktree> ./check <prop> --tier quick for each listed property"
json.dump(meta,open(f"/verif/benign/{name}/meta.json","w"),indent=1)
print(name,"QUIET" if meta["quiet"] else "ALARM")
PY
