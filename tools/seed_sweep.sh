#!/bin/bash
# tools/seed_sweep.sh [names...] — final regression over the seeded changes through the OFFICIAL route: for each seed,
# apply it to /repo itself, run the registered quick check of its property, undo. Writes seeded/SWEEP.md.
# Only use when nothing else is building against /repo.
cd /verif
NAMES="$@"; [ -z "$NAMES" ] && NAMES=$(ls seeded | grep -E '^C[0-9]+-[0-9]+$' | sort -V)
OUT=seeded/SWEEP.md
echo "# Sweep of all seeded changes through the official route (apply to /repo, ./check <prop> --tier quick, undo)" > $OUT
echo "" >> $OUT; echo "Run at $(date -u +%Y-%m-%dT%H:%MZ), /repo HEAD $(git -C /repo rev-parse --short HEAD), /verif HEAD $(git rev-parse --short HEAD)." >> $OUT; echo "" >> $OUT
echo "| Seed | Property | Check exit | Verdict line |" >> $OUT; echo "|---|---|---|---|" >> $OUT
for s in $NAMES; do
  res=$(tools/seed_apply_run.sh $s quick 2>&1); rc=$?
  line=$(echo "$res" | grep -E "quick seed=" | tail -1 | cut -c1-160)
  vio=$(echo "$res" | grep -c "^VIOLATION")
  prop=$(echo "$res" | grep -oE "property C[0-9]+" | tail -1 | cut -d' ' -f2)
  echo "| $s | $prop | $rc | $( [ $vio -gt 0 ] && echo "VIOLATION — " )$line |" >> $OUT
  echo "$s rc=$rc vio=$vio"
  git -C /repo diff --quiet || { echo "REPO DIRTY after $s"; git -C /repo checkout -- .; }
done
