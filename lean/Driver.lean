import QV.Wire
import QV.C07.Run
open QV

def handlers : List (String × (Sexp → Sexp → CaseResult)) := [
  ("C07", QV.C07.handle)
]

def main (args : List String) : IO UInt32 := do
  match args with
  | [prop] =>
    match handlers.lookup prop with
    | some h =>
      let stdin ← IO.getStdin
      let stdout ← IO.getStdout
      runLoop h stdin stdout
      return 0
    | none => IO.eprintln s!"unknown property {prop}"; return 2
  | _ => IO.eprintln "usage: qvdriver <property-id> < cases"; return 2
