import QV.Shared.Program
/-
C09 — what the property SAYS about the listing of a program built from an instruction history
`is`, written without reference to how the builder works (no `upsert`, no fold):

* the listing is its per-kind sub-listings laid out in the fixed order
  extern, DECLARE, DEFFRAME, DEFWAVEFORM, DEFCAL, DEFCAL MEASURE, DEFGATE, DEFCIRCUIT, body;
* the body part is the body instructions of the history, in insertion order;
* per definition kind, the keys appear once each, in the order of their first definition;
* every listed definition is the LAST one in the history with its kind and key.
-/
namespace QV.C09
open QV.Prog

structure ListingSpec (is out : List Instr) : Prop where
  kindOrder : out = Kind.all.flatMap (fun k => ofKind k out)
  body : ofKind .body out = ofKind .body is
  keyOrder : ∀ k, k ≠ .body → keys (ofKind k out) = firstOcc (keys (ofKind k is))
  lastValue : ∀ x ∈ out, x.kind ≠ .body → lookupLast (ofKind x.kind is) x.key = some x

/-- Bool form, evaluated by the driver on the IMPLEMENTATION's listing -/
def checkListing (is out : List Instr) : Bool :=
  decide (out = Kind.all.flatMap (fun k => ofKind k out)) &&
  decide (ofKind .body out = ofKind .body is) &&
  Kind.defs.all (fun k => decide (keys (ofKind k out) = firstOcc (keys (ofKind k is)))) &&
  out.all (fun x => decide (x.kind = .body) || decide (lookupLast (ofKind x.kind is) x.key = some x))

/-- the views of one program: copying listing, consuming listing, listing and text of the rebuilt
program, `rebuilt == original` -/
structure Views where
  toL : List Instr
  intoL : List Instr
  rebuiltL : List Instr
  text : String
  rebuiltText : String
  eq : Bool

/-- the clauses of C09 that relate the views to each other -/
def viewsAgree (v : Views) : Bool :=
  decide (v.intoL = v.toL) && decide (v.rebuiltL = v.toL) && decide (v.rebuiltText = v.text)

end QV.C09
