import QV.Shared.ProgramLemmas
import QV.C09.Spec
/-
C09 — All instruction views of a program agree.

"For every program, the copying and consuming instruction listings return the same sequence.
Rebuilding a program from that sequence gives an equal program with identical serialization. The
body keeps the order in which instructions were added, and each keyed definition keeps only its
last value."

All theorems are unbounded (any history, any program satisfying the reachability invariant `WF`,
which is itself proved for every history). Model: `QV/Shared/Program.lean`.
-/
namespace QV.C09
open QV.Prog

/-! #### the invariant of the insertion history -/

/-- every program built by adding instructions keeps each container homogeneous in kind and
duplicate-free in keys -/
theorem C09_wf_history (is : List Instr) : WF (fromInstructions is) := wf_fromInstructions is

/-- … and adding to a well-formed program keeps it so (the inductive step) -/
theorem C09_wf_step {p : Program} (h : WF p) (is : List Instr) : WF (addMany p is) := wf_addMany h is

/-! #### clause 1: copying and consuming listings coincide -/

theorem C09_views_agree (p : Program) : intoInstructions p = toInstructions p :=
  intoInstructions_eq p

/-! #### clause 2: rebuilding from the listing -/

/-- Rebuilding restores every container and the body exactly; only the cache is recomputed from
the listing. -/
theorem C09_rebuild {p : Program} (h : WF p) :
    fromInstructions (toInstructions p) = { p with used := qubitsOf (toInstructions p) } :=
  fromInstructions_toInstructions h

theorem C09_rebuild_listing {p : Program} (h : WF p) :
    toInstructions (fromInstructions (toInstructions p)) = toInstructions p := by
  rw [fromInstructions_toInstructions h, toInstructions_rebuildUsed]

theorem C09_rebuild_print {p : Program} (h : WF p) :
    print (fromInstructions (toInstructions p)) = print p := by
  simp only [print, C09_rebuild_listing h]

/-- for histories: rebuild of a built program -/
theorem C09_rebuild_history (is : List Instr) :
    let p := fromInstructions is
    toInstructions (fromInstructions (toInstructions p)) = toInstructions p ∧
    print (fromInstructions (toInstructions p)) = print p ∧
    intoInstructions p = toInstructions p :=
  ⟨C09_rebuild_listing (wf_fromInstructions is), C09_rebuild_print (wf_fromInstructions is),
   intoInstructions_eq _⟩

/-- "gives an equal program": the rebuilt program compares equal (derived `PartialEq`, which also
compares the cache) exactly when the original's cache is the qubit set of its listing — the C10
invariant. FULL statement `∀ is, progEq (rebuilt) (fromInstructions is)` is false of the code
(see `C09_rebuild_equal_counterexample`); this is the part that holds. -/
theorem C09_rebuild_equal_partial {p : Program} (h : WF p) :
    progEq (fromInstructions (toInstructions p)) p = true ↔ Inv p := by
  constructor
  · intro he q
    have := progEq_used he q
    rw [fromInstructions_toInstructions h] at this
    simpa [rebuildUsed] using this.symm
  · intro hi
    rw [fromInstructions_toInstructions h]
    apply progEq_of_containers (wf_rebuildUsed h)
    · intro k; cases k <;> rfl
    · intro q; simpa [rebuildUsed] using (hi q).symm

/-- histories that never redefine a key satisfy the invariant, hence rebuild to an equal program -/
theorem C09_rebuild_equal_of_distinct_keys (is : List Instr)
    (hd : ∀ k, k ≠ .body → (keys (ofKind k is)).Nodup) :
    progEq (fromInstructions (toInstructions (fromInstructions is))) (fromInstructions is) = true := by
  rw [C09_rebuild_equal_partial (wf_fromInstructions is)]
  -- without redefinition the listing is a rearrangement of the history
  intro q
  have hu : (fromInstructions is).used = qubitsOf is := by
    simp [fromInstructions, used_addMany, empty]
  rw [hu]
  simp only [qubitsOf, List.mem_flatMap]
  constructor
  · rintro ⟨x, hx, hq⟩
    refine ⟨x, ?_, hq⟩
    rw [mem_toInstructions]
    refine ⟨x.kind, ?_⟩
    rw [fromInstructions, container_addMany]
    have he : empty.container x.kind = [] := by cases x.kind <;> rfl
    by_cases hb : x.kind = .body
    · simp [hb, he, hx]
    · simp only [hb, if_false, he]
      rw [foldl_upsert_of_nodup _ _ (by simpa [ofKind] using hd x.kind hb)]
      simp [hx]
  · rintro ⟨x, hx, hq⟩
    refine ⟨x, ?_, hq⟩
    rw [mem_toInstructions] at hx
    obtain ⟨k, hx⟩ := hx
    rw [fromInstructions, container_addMany] at hx
    have he : empty.container k = [] := by cases k <;> rfl
    by_cases hb : k = .body
    · subst hb
      simp only [if_true, he, List.nil_append, List.mem_filter] at hx; exact hx.1
    · simp only [hb, if_false, he] at hx
      rw [foldl_upsert_of_nodup _ _ (by simpa [ofKind] using hd k hb)] at hx
      simp only [List.nil_append, List.mem_filter] at hx; exact hx.1

private def calA : Instr := ⟨.cal, "X 0", 0, "DEFCAL X 0:\n\tY 7", [.fixed 0, .fixed 7]⟩
private def calB : Instr := ⟨.cal, "X 0", 1, "DEFCAL X 0:\n\tY 13", [.fixed 0, .fixed 13]⟩

/-- `DEFCAL X 0: Y 7; DEFCAL X 0: Y 13`: the rebuilt program is NOT equal to the original (cache
{0,7,13} against {0,13}); known finding C09/rebuilt-unequal-after-redefined-calibration, the same
root cause as C10/redefined-calibration-leaves-stale-qubits. -/
theorem C09_rebuild_equal_counterexample :
    ¬ (∀ is : List Instr,
        progEq (fromInstructions (toInstructions (fromInstructions is))) (fromInstructions is) = true) := by
  intro h
  have := h [calA, calB]
  revert this
  decide

/-! #### clause 3: the body keeps insertion order -/

theorem C09_body_order (is : List Instr) : (fromInstructions is).body = ofKind .body is := by
  have := container_addMany empty is .body
  simpa [fromInstructions, Program.container, empty, ofKind] using this

theorem C09_body_order_step (p : Program) (is : List Instr) :
    (addMany p is).body = p.body ++ ofKind .body is := by
  have := container_addMany p is .body
  simpa [Program.container, ofKind] using this

/-! #### clause 4 (and the whole shape of the listing): `ListingSpec` -/

/-- the listing of the program built from ANY history satisfies the declarative specification:
kinds in the fixed order, body in insertion order, each key once at its first-definition position,
carrying its last value -/
theorem C09_listing_spec (is : List Instr) : ListingSpec is (toInstructions (fromInstructions is)) := by
  have hw := wf_fromInstructions is
  have hc : ∀ k, ofKind k (toInstructions (fromInstructions is)) = (fromInstructions is).container k :=
    fun k => filter_toInstructions hw k
  have hd : ∀ k, k ≠ .body → (fromInstructions is).container k = (ofKind k is).foldl upsert [] := by
    intro k hb
    have he : empty.container k = [] := by cases k <;> rfl
    rw [fromInstructions, container_addMany]; simp [hb, he, ofKind]
  constructor
  · conv => lhs; rw [toInstructions_eq_flatMap]
    congr 1; funext k; exact (hc k).symm
  · rw [hc, ← C09_body_order]; rfl
  · intro k hb
    rw [hc, hd k hb, keys_foldl_upsert_nil]
  · intro x hx hb
    rw [mem_toInstructions] at hx
    obtain ⟨k, hx⟩ := hx
    have hk : x.kind = k := hw.kinds k x hx
    subst hk
    have h1 := lookup_of_mem_nodup hx (hw.nodup _ hb)
    rw [hd _ hb, lookup_foldl_upsert] at h1
    simpa [lookup] using h1

/-- the Bool checker run by the driver on the implementation's listing decides the specification -/
theorem C09_checkListing_iff (is out : List Instr) : checkListing is out = true ↔ ListingSpec is out := by
  constructor
  · intro h
    simp only [checkListing, Bool.and_eq_true, decide_eq_true_eq, List.all_eq_true, Bool.or_eq_true] at h
    obtain ⟨⟨⟨h1, h2⟩, h3⟩, h4⟩ := h
    refine ⟨h1, h2, ?_, ?_⟩
    · intro k hb; apply h3; cases k <;> simp [Kind.defs] at hb ⊢
    · intro x hx hb
      rcases h4 x hx with h | h
      · exact absurd h hb
      · exact h
  · intro h
    simp only [checkListing, Bool.and_eq_true, decide_eq_true_eq, List.all_eq_true, Bool.or_eq_true]
    refine ⟨⟨⟨h.kindOrder, h.body⟩, ?_⟩, ?_⟩
    · intro k hk; apply h.keyOrder; intro e; subst e; simp [Kind.defs] at hk
    · intro x hx
      by_cases hb : x.kind = .body
      · exact Or.inl hb
      · exact Or.inr (h.lastValue x hx hb)

private theorem eq_of_map_lookup {S l m : List Instr}
    (hl : ∀ x ∈ l, lookupLast S x.key = some x) (hm : ∀ x ∈ m, lookupLast S x.key = some x)
    (hk : keys l = keys m) : l = m := by
  induction l generalizing m with
  | nil => cases m with
    | nil => rfl
    | cons _ _ => simp at hk
  | cons x xs ih =>
    cases m with
    | nil => simp at hk
    | cons y ys =>
      simp only [keys_cons, List.cons.injEq] at hk
      have h1 := hl x (by simp)
      have h2 := hm y (by simp)
      rw [hk.1, h2] at h1
      have : y = x := by simpa using h1
      subst this
      congr 1
      exact ih (fun z hz => hl z (List.mem_cons_of_mem _ hz)) (fun z hz => hm z (List.mem_cons_of_mem _ hz)) hk.2

/-- the specification pins the listing down completely: it is not merely necessary, it
characterises `to_instructions ∘ from_instructions` -/
theorem C09_spec_unique {is o₁ o₂ : List Instr} (h₁ : ListingSpec is o₁) (h₂ : ListingSpec is o₂) :
    o₁ = o₂ := by
  rw [h₁.kindOrder, h₂.kindOrder]
  congr 1
  funext k
  by_cases hb : k = .body
  · subst hb; rw [h₁.body, h₂.body]
  · apply eq_of_map_lookup (S := ofKind k is)
    · intro x hx
      simp only [ofKind, List.mem_filter, decide_eq_true_eq] at hx
      have := h₁.lastValue x hx.1 (hx.2 ▸ hb)
      rwa [hx.2] at this
    · intro x hx
      simp only [ofKind, List.mem_filter, decide_eq_true_eq] at hx
      have := h₂.lastValue x hx.1 (hx.2 ▸ hb)
      rwa [hx.2] at this
    · rw [h₁.keyOrder k hb, h₂.keyOrder k hb]

theorem C09_spec_characterises (is out : List Instr) :
    ListingSpec is out ↔ out = toInstructions (fromInstructions is) :=
  ⟨fun h => C09_spec_unique h (C09_listing_spec is), fun h => h ▸ C09_listing_spec is⟩

/-! #### non-vacuity -/

private def dA : Instr := ⟨.decl, "ro", 10, "DECLARE ro BIT[2]", []⟩
private def dB : Instr := ⟨.decl, "th", 11, "DECLARE th REAL[1]", []⟩
private def dA' : Instr := ⟨.decl, "ro", 12, "DECLARE ro BIT[4]", []⟩
private def eN : Instr := ⟨.extern, "N", 13, "PRAGMA EXTERN \"x\"", []⟩
private def g0 : Instr := ⟨.body, "", 14, "X 0", [.fixed 0]⟩
private def g1 : Instr := ⟨.body, "", 15, "H 1", [.fixed 1]⟩

/-- a history with a redefinition, an extern pragma added late and interleaved body instructions:
the redefined DECLARE keeps its first position and takes its last value; the extern goes first -/
example : toInstructions (fromInstructions [dA, g0, dB, calA, dA', g1, eN]) = [eN, dA', dB, calA, g0, g1] := by
  decide
example : checkListing [dA, g0, dB, calA, dA', g1, eN] [eN, dA', dB, calA, g0, g1] = true := by decide
/-- the checker rejects the listing that keeps the FIRST value -/
example : checkListing [dA, g0, dB, calA, dA', g1, eN] [eN, dA, dB, calA, g0, g1] = false := by decide
/-- … and the one that moves the redefined key to the end -/
example : checkListing [dA, g0, dB, calA, dA', g1, eN] [eN, dB, dA', calA, g0, g1] = false := by decide
/-- … and the one with the extern pragma last (the repaired into_instructions defect) -/
example : checkListing [dA, g0, dB, calA, dA', g1, eN] [dA', dB, calA, g0, g1, eN] = false := by decide
example : WF (fromInstructions [dA, g0, dB, calA, dA', g1, eN]) := C09_wf_history _
example : Inv (fromInstructions [dA, g0, dB, calA, dA', g1, eN]) := by
  rw [← invB_iff]; decide

end QV.C09
