import QV.Wire
import QV.Shared.ProgramWire
import QV.C09.Spec
/-! Driver side of the C09 correspondence check. -/
namespace QV.C09
open QV QV.Prog

structure Out where
  /-- how often the harness' independent key and the implementation's key equality disagreed -/
  keymm : Nat
  fresh : List Instr
  v : Views
  used : List Qubit
  rused : List Qubit

def decOut (tbl : List Instr) : Sexp → Option Out
  | .list [.atom "views", .list (.atom "new" :: nw), .list [.atom "to", a], .list [.atom "into", b],
           .list [.atom "rebuilt", c], .list [.atom "text", .str t], .list [.atom "rtext", .str rt],
           .list [.atom "eq", e], .list [.atom "used", u], .list [.atom "rused", ru],
           .list [.atom "keymm", km]] => do
    let keymm ← km.asNat?
    let fresh ← nw.mapM decInstr
    let tbl := tbl ++ fresh
    let toL ← decPids tbl a
    let intoL ← decPids tbl b
    let rebuiltL ← decPids tbl c
    let eq ← decBool e
    let used ← decQubits u
    let rused ← decQubits ru
    pure { keymm, fresh, v := { toL, intoL, rebuiltL, text := t, rebuiltText := rt, eq }, used, rused }
  | _ => none

/-- calibrations of the history that are later replaced (not the last with their kind and key) -/
def replacedCals (is : List Instr) : List Instr :=
  let rec go : List Instr → List Instr
    | [] => []
    | x :: rest =>
      if (x.kind == .cal || x.kind == .mcal) && rest.any (fun y => y.kind == x.kind && y.key == x.key)
      then x :: go rest else go rest
  go is

def handle (inp out : Sexp) : CaseResult :=
  match inp with
  | .list [.atom "hist", .atom path, isx] =>
    match decInstrs isx with
    | none => .bad "undecodable history"
    | some is =>
    match decOut is out with
    | none =>
      { agree := false, specOk := true, nontrivial := false, tags := ["undecodable-output"],
        detail := s!"impl={out}" }
    | some o =>
      let p := fromInstructions is
      let mTo := toInstructions p
      let r := fromInstructions mTo
      let mv : Views := { toL := mTo, intoL := intoInstructions p, rebuiltL := toInstructions r,
                          text := print p, rebuiltText := print r, eq := progEq r p }
      let projOk := is.all Instr.projOk
      let agree := projOk && o.keymm == 0 && o.fresh.isEmpty && decide (mv.toL = o.v.toL) && decide (mv.intoL = o.v.intoL) &&
        decide (mv.rebuiltL = o.v.rebuiltL) && mv.text == o.v.text && mv.rebuiltText == o.v.rebuiltText &&
        mv.eq == o.v.eq && setEq p.used o.used && setEq r.used o.rused
      let listingOk := checkListing is o.v.toL
      let viewsOk := viewsAgree o.v
      let specOk := listingOk && viewsOk && o.v.eq && o.keymm == 0
      -- known finding: everything but `==` holds, and every qubit the original has beyond the rebuilt
      -- program belongs to a calibration that a later one with the same signature replaced
      let stale := o.used.filter (fun q => !o.rused.contains q)
      let kf := o.keymm == 0 && listingOk && viewsOk && !o.v.eq && subset o.rused o.used && !stale.isEmpty &&
        stale.all (fun q => (qubitsOf (replacedCals is)).contains q)
      let nontrivial := decide (mTo ≠ is)
      let tags := s!"path-{path}" :: histTags is ++
        (if mv.eq then ["eq"] else ["neq"]) ++ (if o.keymm == 0 then [] else ["key-mismatch"]) ++
        (if kf then ["kf:C09/rebuilt-unequal-after-redefined-calibration"] else [])
      { agree, specOk, nontrivial, tags,
        detail := s!"history={showListing is} | model: to={showListing mv.toL} into={showListing mv.intoL} " ++
          s!"rebuilt={showListing mv.rebuiltL} eq={mv.eq} used={showQubits p.used} rused={showQubits r.used} | " ++
          s!"impl: to={showListing o.v.toL} into={showListing o.v.intoL} rebuilt={showListing o.v.rebuiltL} " ++
          s!"eq={o.v.eq} used={showQubits o.used} rused={showQubits o.rused} new={showListing o.fresh} " ++
          s!"textEq={mv.text == o.v.text} rtextEq={o.v.rebuiltText == o.v.text} | listingOk={listingOk} viewsOk={viewsOk} projOk={projOk} keyMismatches={o.keymm}" }
  | _ => .bad s!"undecodable input {inp}"

end QV.C09

def main : IO UInt32 := QV.runMain QV.C09.handle
