import QV.Wire
import QV.Shared.ProgramWire
import QV.C09.Spec
/-! Driver side of the C09 correspondence check. -/
namespace QV.C09
open QV QV.Prog

/-- further views: body, calibrations, frames, extern pragmas, `filter_instructions(|_| true)`, `len`,
`is_empty`, and the names of sibling-entry-point relations that FAILED in the harness -/
structure Aux where
  body : List Instr
  cals : List Instr
  frames : List Instr
  exts : List Instr
  filt : List Instr
  len : Nat
  empty : Bool
  sib : List String

structure Out where
  aux : Aux
  /-- how often the harness' independent key and the implementation's key equality disagreed -/
  keymm : Nat
  fresh : List Instr
  v : Views
  used : List Qubit
  rused : List Qubit

def decOut (tbl : List Instr) : Sexp → Option Out
  | .list [.atom "views", .list (.atom "new" :: nw), .list [.atom "to", a], .list [.atom "into", b],
           .list [.atom "rebuilt", c], .list [.atom "text", .str t], .list [.atom "rtext", .str rt],
           .list [.atom "eq", e], .list [.atom "used", u], .list [.atom "rused", ru],
           .list [.atom "keymm", km],
           .list [.atom "aux", .list [.atom "body", ab], .list [.atom "cals", ac], .list [.atom "frames", af],
             .list [.atom "exts", ae], .list [.atom "filt", afl], .list [.atom "len", al],
             .list [.atom "empty", aem], .list (.atom "sib" :: sibs)]] => do
    let keymm ← km.asNat?
    let fresh ← nw.mapM decInstr
    let tbl := tbl ++ fresh
    let toL ← decPids tbl a
    let intoL ← decPids tbl b
    let rebuiltL ← decPids tbl c
    let eq ← decBool e
    let used ← decQubits u
    let rused ← decQubits ru
    let aux : Aux := { body := ← decPids tbl ab, cals := ← decPids tbl ac, frames := ← decPids tbl af,
                       exts := ← decPids tbl ae, filt := ← decPids tbl afl, len := ← al.asNat?,
                       empty := ← decBool aem, sib := ← sibs.mapM Sexp.asStr? }
    pure { aux, keymm, fresh, v := { toL, intoL, rebuiltL, text := t, rebuiltText := rt, eq }, used, rused }
  | _ => none

/-- calibrations of the history that are later replaced (not the last with their kind and key) -/
def replacedCals (is : List Instr) : List Instr :=
  let rec go : List Instr → List Instr
    | [] => []
    | x :: rest =>
      if (x.kind == .cal || x.kind == .mcal) && rest.any (fun y => y.kind == x.kind && y.key == x.key)
      then x :: go rest else go rest
  go is

def handle (inp out : Sexp) : CaseResult :=
  match inp with
  | .list [.atom "hist", .atom path, isx] =>
    match decInstrs isx with
    | none => .bad "undecodable history"
    | some is =>
    match decOut is out with
    | none =>
      { agree := false, specOk := true, nontrivial := false, tags := ["undecodable-output"],
        detail := s!"impl={out}" }
    | some o =>
      let p := fromInstructions is
      let mTo := toInstructions p
      let r := fromInstructions mTo
      let mv : Views := { toL := mTo, intoL := intoInstructions p, rebuiltL := toInstructions r,
                          text := print p, rebuiltText := print r, eq := progEq r p }
      let projOk := is.all Instr.projOk
      let agree := projOk && o.keymm == 0 && o.fresh.isEmpty && decide (mv.toL = o.v.toL) && decide (mv.intoL = o.v.intoL) &&
        decide (mv.rebuiltL = o.v.rebuiltL) && mv.text == o.v.text && mv.rebuiltText == o.v.rebuiltText &&
        mv.eq == o.v.eq && setEq p.used o.used && setEq r.used o.rused &&
        decide (p.body = o.aux.body) && decide (p.cals ++ p.mcals = o.aux.cals) &&
        decide (p.frames = o.aux.frames) && decide (p.externs = o.aux.exts) &&
        decide (toInstructions r = o.aux.filt) && p.len == o.aux.len && p.isEmpty == o.aux.empty &&
        o.aux.sib.isEmpty
      let listingOk := checkListing is o.v.toL
      let viewsOk := viewsAgree o.v
      -- the partial views are the corresponding parts of the copying listing, filtering with a constant-true
      -- predicate changes nothing, and every sibling-entry-point relation held
      let auxOk := decide (o.aux.body = ofKind .body o.v.toL) &&
        decide (o.aux.cals = ofKind .cal o.v.toL ++ ofKind .mcal o.v.toL) &&
        decide (o.aux.frames = ofKind .frame o.v.toL) && decide (o.aux.exts = ofKind .extern o.v.toL) &&
        decide (o.aux.filt = o.v.toL) && o.aux.sib.isEmpty
      let specOk := listingOk && viewsOk && o.v.eq && o.keymm == 0 && auxOk
      -- known finding: everything but `==` holds, and every qubit the original has beyond the rebuilt
      -- program belongs to a calibration that a later one with the same signature replaced
      let stale := o.used.filter (fun q => !o.rused.contains q)
      let kf := auxOk && o.keymm == 0 && listingOk && viewsOk && !o.v.eq && subset o.rused o.used && !stale.isEmpty &&
        stale.all (fun q => (qubitsOf (replacedCals is)).contains q)
      let nontrivial := decide (mTo ≠ is)
      let flavour : List String :=
        if is.isEmpty then ["flavour-empty"]
        else if mTo.all (fun i => i.kind == .mcal) then ["flavour-only-mcal"]
        else if mTo.all (fun i => i.kind == .cal) then ["flavour-only-cal"]
        else if mTo.all (fun i => i.kind == .cal || i.kind == .mcal) then ["flavour-only-calibrations"]
        else if mTo.all (fun i => i.kind == .extern) then ["flavour-only-extern"]
        else if mTo.all (fun i => i.kind != .body) then ["flavour-only-definitions"]
        else if mTo.all (fun i => i.kind == .body) then ["flavour-only-body"] else []
      let tags := s!"path-{path}" :: histTags is ++ flavour ++
        (if mv.eq then ["eq"] else ["neq"]) ++ (if o.keymm == 0 then [] else ["key-mismatch"]) ++
        (if kf then ["kf:C09/rebuilt-unequal-after-redefined-calibration"] else [])
      { agree, specOk, nontrivial, tags,
        detail := s!"history={showListing is} | model: to={showListing mv.toL} into={showListing mv.intoL} " ++
          s!"rebuilt={showListing mv.rebuiltL} eq={mv.eq} used={showQubits p.used} rused={showQubits r.used} | " ++
          s!"impl: to={showListing o.v.toL} into={showListing o.v.intoL} rebuilt={showListing o.v.rebuiltL} " ++
          s!"eq={o.v.eq} used={showQubits o.used} rused={showQubits o.rused} new={showListing o.fresh} " ++
          s!"textEq={mv.text == o.v.text} rtextEq={o.v.rebuiltText == o.v.text} | listingOk={listingOk} viewsOk={viewsOk} projOk={projOk} keyMismatches={o.keymm} auxOk={auxOk} failedSiblingRelations={o.aux.sib} len={o.aux.len}/{p.len} empty={o.aux.empty}/{p.isEmpty}" }
  | _ => .bad s!"undecodable input {inp}"

end QV.C09

def main : IO UInt32 := QV.runMain QV.C09.handle
