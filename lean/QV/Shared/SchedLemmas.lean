import QV.Shared.Sched
/-!
Lemmas shared by C22–C25 about the dependency-queue model in `QV.Shared.Sched`.

The core is `QInv`, the invariant of a map of dependency queues relative to the *log* of accesses that were
recorded so far and to a preorder `R` ("is ordered before, by the edges emitted so far"):
  * every earlier write reaches the queue's current writer,
  * every earlier read is still pending in `reads` or reaches the current writer,
  * every two conflicting accesses of the log on the same resource are ordered by `R`,
  * whatever sits in a queue is justified by an access in the log (or is the initial writer),
and `QInv.step`: recording one more access preserves it, provided the emitted dependencies are honoured.
-/
namespace QV.Sched

/-! ### Reach -/

theorem Reach.mono {E E' : List Edge} {C : Label → Bool} {u v : Node}
    (h : Reach E C u v) (hs : ∀ e ∈ E, e ∈ E') : Reach E' C u v := by
  induction h with
  | refl => exact .refl _
  | step _ he hc ih => exact .step ih (hs _ he) hc

theorem Reach.trans {E : List Edge} {C : Label → Bool} {u v w : Node}
    (h1 : Reach E C u v) (h2 : Reach E C v w) : Reach E C u w := by
  induction h2 with
  | refl => exact h1
  | step _ he hc ih => exact .step ih he hc

theorem Reach.edge {E : List Edge} {C : Label → Bool} {u v : Node} {l : Label}
    (he : ⟨u, v, l⟩ ∈ E) (hc : C l = true) : Reach E C u v :=
  .step (.refl u) he hc

/-- weakening the label class -/
theorem Reach.weaken {E : List Edge} {C C' : Label → Bool} {u v : Node}
    (h : Reach E C u v) (hs : ∀ l, C l = true → C' l = true) : Reach E C' u v := by
  induction h with
  | refl => exact .refl _
  | step _ he hc ih => exact .step ih he (hs _ hc)

/-- if every edge strictly increases a measure, reachability is monotone in it -/
theorem Reach.measure_le {E : List Edge} {C : Label → Bool} (μ : Node → Nat)
    (hμ : ∀ e ∈ E, μ e.src < μ e.dst) {u v : Node} (h : Reach E C u v) :
    u = v ∨ μ u < μ v := by
  induction h with
  | refl => exact .inl rfl
  | step _ he _ ih =>
    have := hμ _ he
    rcases ih with rfl | ih
    · exact .inr this
    · exact .inr (Nat.lt_trans ih this)

/-- a non-trivial path has a first edge -/
theorem Reach.head {E : List Edge} {C : Label → Bool} {u v : Node} (h : Reach E C u v) :
    u = v ∨ ∃ x l, ⟨u, x, l⟩ ∈ E ∧ C l = true ∧ Reach E C x v := by
  induction h with
  | refl => exact .inl rfl
  | step hr he hc ih =>
    rcases ih with rfl | ⟨x, l', hx, hcx, hxv⟩
    · exact .inr ⟨_, _, he, hc, .refl _⟩
    · exact .inr ⟨x, l', hx, hcx, .step hxv he hc⟩

theorem reachB_sound {E : List Edge} {C : Label → Bool} :
    ∀ (fuel : Nat) (u v : Node), reachB E C fuel u v = true → Reach E C u v := by
  intro fuel
  induction fuel with
  | zero =>
    intro u v h
    simp [reachB] at h
    subst h; exact .refl _
  | succ k ih =>
    intro u v h
    simp only [reachB, Bool.or_eq_true, decide_eq_true_eq, List.any_eq_true, Bool.and_eq_true] at h
    rcases h with rfl | ⟨e, he, ⟨hsrc, hc⟩, hr⟩
    · exact .refl _
    · have h2 := ih _ _ hr
      have h1 : Reach E C u e.dst := by
        subst hsrc
        exact Reach.edge (l := e.label) he hc
      exact h1.trans h2

theorem reachPass_sound {E : List Edge} {C : Label → Bool} {u : Node} :
    ∀ (es : List Edge) (vis : List Node), (∀ e ∈ es, e ∈ E) → (∀ y ∈ vis, Reach E C u y) →
      ∀ x ∈ reachPass C es vis, Reach E C u x := by
  intro es
  induction es with
  | nil => intro vis _ hv x hx; exact hv x hx
  | cons e rest ih =>
    intro vis hsub hv x hx
    simp only [reachPass] at hx
    refine ih _ (fun e' he' => hsub e' (List.mem_cons_of_mem _ he')) ?_ x hx
    intro y hy
    split at hy
    · rename_i hc
      simp only [Bool.and_eq_true, List.contains_eq_mem, decide_eq_true_eq] at hc
      rcases List.mem_cons.1 hy with rfl | hy
      · exact .step (hv _ hc.1.2) (hsub e List.mem_cons_self) hc.1.1
      · exact hv y hy
    · exact hv y hy

theorem reachFrom_sound {E : List Edge} {C : Label → Bool} {u x : Node} (h : x ∈ reachFrom E C u) :
    Reach E C u x := by
  unfold reachFrom at h
  refine reachPass_sound E _ (fun _ h => h) ?_ x h
  intro y hy
  refine reachPass_sound E _ (fun _ h => h) ?_ y hy
  intro z hz
  simp only [List.mem_singleton] at hz
  subst hz; exact .refl _

/-! ### QMap -/

@[simp] theorem QMap.get_set (m : QMap) (r x : Nat) (q : Queue) :
    (m.set r q).get x = if x = r then q else m.get x := rfl

@[simp] theorem QMap.mem_keys_set (m : QMap) (r x : Nat) (q : Queue) :
    x ∈ (m.set r q).keys ↔ x ∈ m.keys ∨ x = r := by
  unfold QMap.set
  by_cases h : r ∈ m.keys
  · simp only [h, if_true]
    constructor
    · exact .inl
    · rintro (h' | rfl) <;> assumption
  · simp [h]

@[simp] theorem QMap.record_get (m : QMap) (r x : Nat) (n : Node) (k : Kind) :
    (m.record r n k).1.get x = if x = r then ((m.get r).record n k).1 else m.get x := rfl

@[simp] theorem QMap.record_deps (m : QMap) (r : Nat) (n : Node) (k : Kind) :
    (m.record r n k).2 = ((m.get r).record n k).2 := rfl

@[simp] theorem QMap.mem_keys_record (m : QMap) (r x : Nat) (n : Node) (k : Kind) :
    x ∈ (m.record r n k).1.keys ↔ x ∈ m.keys ∨ x = r := by
  simp [QMap.record]

/-! ### The queue invariant -/

structure QInv (init : Queue) (m : QMap) (R : Node → Node → Prop) (log : List Access) : Prop where
  /-- every logged write reaches the current writer of its resource -/
  wr : ∀ a ∈ log, a.kind.isWrite = true → ∃ w, (m.get a.res).write = some w ∧ R a.node w.node
  /-- every logged read is pending or reaches the current writer -/
  rd : ∀ a ∈ log, a.kind = .read →
    a.node ∈ (m.get a.res).reads ∨ ∃ w, (m.get a.res).write = some w ∧ R a.node w.node
  /-- conflicting accesses of the same resource are ordered -/
  pw : log.Pairwise fun a b => a.res = b.res → Conflict a.kind b.kind → R a.node b.node
  /-- the current writer is a logged write, or the initial writer -/
  jw : ∀ r w, (m.get r).write = some w →
    w.kind.isWrite = true ∧ ((⟨w.node, r, w.kind⟩ : Access) ∈ log ∨ init.write = some w)
  /-- pending reads are logged reads -/
  jr : ∀ r n, n ∈ (m.get r).reads → (⟨n, r, .read⟩ : Access) ∈ log
  /-- the touched keys are the logged resources -/
  ks : ∀ r, r ∈ m.keys ↔ ∃ a ∈ log, a.res = r
  /-- everything logged is ordered after the initial writer, if there is one -/
  ini : ∀ w, init.write = some w → ∀ a ∈ log, R w.node a.node
  /-- a queue never loses its writer -/
  keep : ∀ w, init.write = some w → ∀ r, ∃ w', (m.get r).write = some w'

theorem QInv.empty (init : Queue) (hi : init.reads = []) (hw : ∀ w, init.write = some w → w.kind.isWrite = true)
    (R : Node → Node → Prop) : QInv init (QMap.empty init) R [] where
  wr := by simp
  rd := by simp
  pw := .nil
  jw := by
    intro r w h
    simp only [QMap.empty] at h
    exact ⟨hw _ h, .inr h⟩
  jr := by
    intro r n h
    simp [QMap.empty, hi] at h
  ks := by simp [QMap.empty]
  ini := by simp
  keep := by
    intro w h r
    exact ⟨w, by simpa [QMap.empty] using h⟩

theorem QInv.mono {init : Queue} {m : QMap} {R R' : Node → Node → Prop} {log : List Access}
    (h : QInv init m R log) (hs : ∀ u v, R u v → R' u v) : QInv init m R' log where
  wr := fun a ha hk => let ⟨w, h1, h2⟩ := h.wr a ha hk; ⟨w, h1, hs _ _ h2⟩
  rd := fun a ha hk => (h.rd a ha hk).imp id fun ⟨w, h1, h2⟩ => ⟨w, h1, hs _ _ h2⟩
  pw := h.pw.imp fun hab hr hc => hs _ _ (hab hr hc)
  jw := h.jw
  jr := h.jr
  ks := h.ks
  ini := fun w hw a ha => hs _ _ (h.ini w hw a ha)
  keep := h.keep

/-- what a queue reports: its writer always, its pending reads when the new access is a write -/
theorem Queue.mem_record_deps (q : Queue) (n : Node) (k : Kind) (d : Dep) :
    d ∈ (q.record n k).2 ↔ q.write = some d ∨ (k.isWrite = true ∧ d.kind = .read ∧ d.node ∈ q.reads) := by
  cases k <;> simp [Queue.record, Kind.isWrite, Option.mem_toList] <;>
  · constructor
    · rintro (h | ⟨x, hx, rfl⟩)
      · exact .inl h
      · exact .inr ⟨rfl, hx⟩
    · rintro (h | ⟨h1, h2⟩)
      · exact .inl h
      · exact .inr ⟨d.node, h2, by cases d; simp_all⟩

/-- **Dependencies are justified**: whatever `record` reports for an access of kind `k` to `r` is a logged
access to the same resource that conflicts with it — or the initial writer. -/
theorem QInv.deps_justified {init : Queue} {m : QMap} {R : Node → Node → Prop} {log : List Access}
    (h : QInv init m R log) (r : Nat) (n : Node) (k : Kind) (d : Dep) (hd : d ∈ (m.record r n k).2) :
    Conflict d.kind k ∧ ((⟨d.node, r, d.kind⟩ : Access) ∈ log ∨ init.write = some d) := by
  rw [QMap.record_deps, Queue.mem_record_deps] at hd
  rcases hd with hw | ⟨hk, hdk, hdr⟩
  · have := h.jw r d hw
    exact ⟨.inl this.1, this.2⟩
  · refine ⟨.inr hk, .inl ?_⟩
    have := h.jr r d.node hdr
    rw [hdk]; exact this

/-- **One step of the queue preserves the invariant**, for any preorder `R'` that extends `R` and honours the
reported dependencies. -/
theorem QInv.step {init : Queue} {m : QMap} {R R' : Node → Node → Prop} {log : List Access}
    (h : QInv init m R log) (r : Nat) (n : Node) (k : Kind)
    (hrefl : ∀ u, R' u u) (htrans : ∀ u v w, R' u v → R' v w → R' u w)
    (hs : ∀ u v, R u v → R' u v)
    (hd : ∀ d ∈ (m.record r n k).2, R' d.node n) :
    QInv init (m.record r n k).1 R' (log ++ [⟨n, r, k⟩]) := by
  have h' := h.mono hs
  -- facts about reported dependencies
  have hdw : ∀ w, (m.get r).write = some w → R' w.node n := fun w hw =>
    hd w (by rw [QMap.record_deps, Queue.mem_record_deps]; exact .inl hw)
  have hdr : k.isWrite = true → ∀ x ∈ (m.get r).reads, R' x n := fun hk x hx =>
    hd ⟨.read, x⟩ (by rw [QMap.record_deps, Queue.mem_record_deps]; exact .inr ⟨hk, rfl, hx⟩)
  -- every logged access on `r` that conflicts with the new one reaches `n`
  have hreach : ∀ a ∈ log, a.res = r → Conflict a.kind k → R' a.node n := by
    intro a ha har hc
    by_cases hak : a.kind.isWrite = true
    · obtain ⟨w, hw, hrw⟩ := h'.wr a ha hak
      rw [har] at hw
      exact htrans _ _ _ hrw (hdw w hw)
    · have hkr : a.kind = .read := by cases hk : a.kind <;> simp_all [Kind.isWrite]
      have hkw : k.isWrite = true := by
        rcases hc with hc | hc
        · exact absurd hc hak
        · exact hc
      rcases h'.rd a ha hkr with hin | ⟨w, hw, hrw⟩
      · rw [har] at hin; exact hdr hkw _ hin
      · rw [har] at hw; exact htrans _ _ _ hrw (hdw w hw)
  constructor
  · -- wr
    intro a ha0 hak
    rcases List.mem_append.1 ha0 with ha | ha
    · by_cases har : a.res = r
      · by_cases hk : k.isWrite = true
        · refine ⟨⟨k, n⟩, ?_, hreach a ha har (.inl hak)⟩
          rw [QMap.record_get, if_pos har]
          cases k <;> simp_all [Queue.record, Kind.isWrite]
        · obtain ⟨w, hw, hrw⟩ := h'.wr a ha hak
          refine ⟨w, ?_, hrw⟩
          rw [QMap.record_get, if_pos har]
          rw [har] at hw
          cases k <;> simp_all [Queue.record, Kind.isWrite]
      · obtain ⟨w, hw, hrw⟩ := h'.wr a ha hak
        exact ⟨w, by rw [QMap.record_get, if_neg har]; exact hw, hrw⟩
    · simp only [List.mem_singleton] at ha
      subst ha
      refine ⟨⟨k, n⟩, ?_, hrefl _⟩
      simp only [QMap.record_get, if_true]
      cases k <;> simp_all [Queue.record, Kind.isWrite]
  · -- rd
    intro a ha0 hak
    rcases List.mem_append.1 ha0 with ha | ha
    · by_cases har : a.res = r
      · by_cases hk : k.isWrite = true
        · right
          refine ⟨⟨k, n⟩, ?_, hreach a ha har (.inr hk)⟩
          rw [QMap.record_get, if_pos har]
          cases k <;> simp_all [Queue.record, Kind.isWrite]
        · have hkr : k = .read := by cases k <;> simp_all [Kind.isWrite]
          subst hkr
          rcases h'.rd a ha hak with hin | ⟨w, hw, hrw⟩
          · left
            rw [QMap.record_get, if_pos har]
            rw [har] at hin
            simp only [Queue.record]
            split
            · exact hin
            · exact List.mem_append_left _ hin
          · right
            refine ⟨w, ?_, hrw⟩
            rw [QMap.record_get, if_pos har]
            rw [har] at hw
            simpa [Queue.record] using hw
      · rw [QMap.record_get, if_neg har]
        exact h'.rd a ha hak
    · simp only [List.mem_singleton] at ha
      subst ha
      simp only at hak
      subst hak
      left
      simp only [QMap.record_get, if_true, Queue.record]
      split
      · assumption
      · simp
  · -- pw
    rw [List.pairwise_append]
    refine ⟨h'.pw, List.pairwise_singleton _ _, ?_⟩
    intro a ha b hb
    simp only [List.mem_singleton] at hb
    subst hb
    exact fun har hc => hreach a ha har hc
  · -- jw
    intro x w hw
    rw [QMap.record_get] at hw
    by_cases hx : x = r
    · rw [if_pos hx] at hw
      by_cases hk : k.isWrite = true
      · have : w = ⟨k, n⟩ := by cases k <;> simp_all [Queue.record, Kind.isWrite]
        subst this
        exact ⟨hk, .inl (by simp [hx])⟩
      · have hkr : k = .read := by cases k <;> simp_all [Kind.isWrite]
        subst hkr
        simp only [Queue.record] at hw
        have := h.jw r w hw
        subst hx
        exact ⟨this.1, this.2.imp (fun h => List.mem_append_left _ h) id⟩
    · rw [if_neg hx] at hw
      have := h.jw x w hw
      exact ⟨this.1, this.2.imp (fun h => List.mem_append_left _ h) id⟩
  · -- jr
    intro x y hy
    rw [QMap.record_get] at hy
    by_cases hx : x = r
    · rw [if_pos hx] at hy
      subst hx
      cases k with
      | read =>
        simp only [Queue.record] at hy
        split at hy
        · exact List.mem_append_left _ (h.jr _ _ hy)
        · rcases List.mem_append.1 hy with hy | hy
          · exact List.mem_append_left _ (h.jr _ _ hy)
          · simp only [List.mem_singleton] at hy
            subst hy
            simp
      | write => simp [Queue.record] at hy
      | capture => simp [Queue.record] at hy
    · rw [if_neg hx] at hy
      exact List.mem_append_left _ (h.jr _ _ hy)
  · -- ks
    intro x
    rw [QMap.mem_keys_record, h.ks]
    constructor
    · rintro (⟨a, ha, rfl⟩ | rfl)
      · exact ⟨a, List.mem_append_left _ ha, rfl⟩
      · exact ⟨⟨n, x, k⟩, by simp, rfl⟩
    · rintro ⟨a, ha, rfl⟩
      rcases List.mem_append.1 ha with ha | ha
      · exact .inl ⟨a, ha, rfl⟩
      · simp only [List.mem_singleton] at ha
        subst ha
        exact .inr rfl
  · -- ini
    intro w hw a ha0
    rcases List.mem_append.1 ha0 with ha | ha
    · exact h'.ini w hw a ha
    · simp only [List.mem_singleton] at ha
      subst ha
      obtain ⟨w', hw'⟩ := h.keep w hw r
      have h1 := hdw w' hw'
      rcases (h.jw r w' hw').2 with hin | hin
      · exact htrans _ _ _ (h'.ini w hw _ hin) h1
      · rw [hw] at hin
        cases hin
        exact h1
  · -- keep
    intro w hw x
    rw [QMap.record_get]
    by_cases hx : x = r
    · rw [if_pos hx]
      cases k <;> simp [Queue.record]
      exact h.keep w hw r
    · rw [if_neg hx]
      exact h.keep w hw x

end QV.Sched

namespace QV.Sched

/-! ### Histories driven directly through a queue map -/

theorem runHistory_fst_nil (m : QMap) : (runHistory m []).1 = m := rfl

/-- the invariant holds along any history, relative to the edges the history induces -/
theorem history_inv (init : Queue) :
    ∀ (h : List Access) (m : QMap) (E0 : List Edge) (log : List Access),
      QInv init m (Reach E0 anyLabel) log →
      QInv init (runHistory m h).1 (Reach (E0 ++ historyEdges m h) anyLabel) (log ++ h) := by
  intro h
  induction h with
  | nil => intro m E0 log hq; simpa [runHistory, historyEdges] using hq
  | cons a rest ih =>
    intro m E0 log hq
    let new := ((m.record a.res a.node a.kind).2.filter (fun d => d.node ≠ a.node)).map
      (fun d => (⟨d.node, a.node, .await d.kind⟩ : Edge))
    have hstep : QInv init (m.record a.res a.node a.kind).1 (Reach (E0 ++ new) anyLabel)
        (log ++ [⟨a.node, a.res, a.kind⟩]) := by
      apply hq.step (R' := Reach (E0 ++ new) anyLabel) a.res a.node a.kind (fun u => .refl u) (fun _ _ _ => Reach.trans)
      · intro u v huv
        exact huv.mono (fun e he => List.mem_append_left _ he)
      · intro d hd
        by_cases hdn : d.node = a.node
        · rw [hdn]; exact .refl _
        · apply Reach.edge (l := .await d.kind) _ rfl
          apply List.mem_append_right
          simp only [new, List.mem_map, List.mem_filter]
          exact ⟨d, ⟨hd, by simpa using hdn⟩, rfl⟩
    have := ih (m.record a.res a.node a.kind).1 (E0 ++ new) (log ++ [⟨a.node, a.res, a.kind⟩]) hstep
    simpa [runHistory, historyEdges, new, List.append_assoc] using this

/-! ### `recordAll`: all accesses of one instruction to one map -/

theorem recordAll_inv {init : Queue} {E : List Edge} {C : Label → Bool} (n : Node) :
    ∀ (accs : List (Nat × Kind)) (m : QMap) (log : List Access),
      QInv init m (Reach E C) log →
      (∀ d ∈ (recordAll m n accs).2, Reach E C d.node n) →
      QInv init (recordAll m n accs).1 (Reach E C) (log ++ accs.map fun a => ⟨n, a.1, a.2⟩) := by
  intro accs
  induction accs with
  | nil => intro m log hq _; simpa [recordAll] using hq
  | cons a rest ih =>
    intro m log hq hd
    have hstep : QInv init (m.record a.1 n a.2).1 (Reach E C) (log ++ [⟨n, a.1, a.2⟩]) :=
      hq.step (R' := Reach E C) a.1 n a.2 (fun u => .refl u) (fun _ _ _ => Reach.trans) (fun _ _ h => h)
        (fun d hd' => hd d (by simp only [recordAll]; exact List.mem_append_left _ hd'))
    have := ih (m.record a.1 n a.2).1 (log ++ [⟨n, a.1, a.2⟩]) hstep
      (fun d hd' => hd d (by simp only [recordAll]; exact List.mem_append_right _ hd'))
    simpa [recordAll, List.append_assoc] using this

/-- every dependency reported while recording the accesses `accs` of node `n` is a logged (or earlier in
`accs`) conflicting access to the same resource, or the initial writer -/
theorem recordAll_deps_justified {init : Queue} (n : Node) :
    ∀ (accs : List (Nat × Kind)) (m : QMap) (log : List Access),
      QInv init m (fun _ _ => True) log →
      ∀ d ∈ (recordAll m n accs).2, ∃ a ∈ accs, Conflict d.kind a.2 ∧
        ((⟨d.node, a.1, d.kind⟩ : Access) ∈ log ++ accs.map (fun a => ⟨n, a.1, a.2⟩) ∨ init.write = some d) := by
  intro accs
  induction accs with
  | nil => intro m log _ d hd; simp [recordAll] at hd
  | cons a rest ih =>
    intro m log hq d hd
    simp only [recordAll] at hd
    rcases List.mem_append.1 hd with hd | hd
    · have := hq.deps_justified a.1 n a.2 d hd
      refine ⟨a, List.mem_cons_self, this.1, this.2.imp (fun h => List.mem_append_left _ h) id⟩
    · have hstep : QInv init (m.record a.1 n a.2).1 (fun _ _ => True) (log ++ [⟨n, a.1, a.2⟩]) :=
        hq.step (R' := fun _ _ => True) a.1 n a.2 (fun _ => trivial) (fun _ _ _ _ _ => trivial) (fun _ _ _ => trivial)
          (fun _ _ => trivial)
      obtain ⟨a', ha', hc, hj⟩ := ih (m.record a.1 n a.2).1 _ hstep d hd
      refine ⟨a', List.mem_cons_of_mem _ ha', hc, hj.imp (fun h => ?_) id⟩
      simpa [List.append_assoc] using h

/-! ### Structure of one `build` iteration -/

theorem frameLoop_mem (s : Bool) (n : Node) (k : Kind) :
    ∀ (fs : List Nat) (st : St), (frameLoop s n k fs st).mem = st.mem ∧
      (frameLoop s n k fs st).trailing = st.trailing := by
  intro fs
  induction fs with
  | nil => intro st; exact ⟨rfl, rfl⟩
  | cons f fs ih =>
    intro st
    simp only [frameLoop]
    rw [(ih _).1, (ih _).2]
    cases s <;> simp

theorem frameLoop_edges_sub (s : Bool) (n : Node) (k : Kind) :
    ∀ (fs : List Nat) (st : St), ∀ e ∈ st.edges, e ∈ (frameLoop s n k fs st).edges := by
  intro fs
  induction fs with
  | nil => intro st e he; exact he
  | cons f fs ih =>
    intro st e he
    simp only [frameLoop]
    apply ih
    cases s <;> simp [he]

theorem frameLoop_edges_new (s : Bool) (n : Node) (k : Kind) :
    ∀ (fs : List Nat) (st : St), ∀ e ∈ (frameLoop s n k fs st).edges,
      e ∈ st.edges ∨ (e.dst = n ∧ (e.label = .scheduled ∨ e.label = .stable)) := by
  intro fs
  induction fs with
  | nil => intro st e he; exact .inl he
  | cons f fs ih =>
    intro st e he
    simp only [frameLoop] at he
    rcases ih _ e he with h | h
    · cases s
      · simp only [Bool.false_eq_true, if_false, List.mem_append, List.mem_map] at h
        rcases h with h | ⟨d, _, rfl⟩
        · exact .inl h
        · exact .inr ⟨rfl, .inr rfl⟩
      · simp only [if_true, List.mem_append, List.mem_map] at h
        rcases h with (h | ⟨d, _, rfl⟩) | ⟨d, _, rfl⟩
        · exact .inl h
        · exact .inr ⟨rfl, .inl rfl⟩
        · exact .inr ⟨rfl, .inr rfl⟩
    · exact .inr h

/-- the memory edges emitted for one instruction (graph.rs:251-267) -/
def memEdgesOf (n : Node) (ins : Instr) (st : St) : List Edge :=
  ((recordAll st.mem n (memAccesses ins)).2.filter fun d => d.node ≠ n).map
    fun d => ⟨d.node, n, .await d.kind⟩

theorem memStep_fst (n : Node) (ins : Instr) (st : St) :
    (memStep n ins st).1.mem = (recordAll st.mem n (memAccesses ins)).1 ∧
    (memStep n ins st).1.edges = st.edges ++ memEdgesOf n ins st ∧
    (memStep n ins st).1.ord = st.ord ∧ (memStep n ins st).1.timed = st.timed := by
  simp [memStep, memEdgesOf]

/-- what a successful iteration does to the memory queues and to the `AwaitMemoryAccess` edges -/
theorem stepInstr_mem {n : Node} {ins : Instr} {st st' : St} (h : stepInstr n ins st = .ok st') :
    st'.mem = (recordAll st.mem n (memAccesses ins)).1 ∧
    (∀ e ∈ st.edges ++ memEdgesOf n ins st, e ∈ st'.edges) ∧
    (∀ e ∈ st'.edges, isAwait e.label = true → e ∈ st.edges ++ memEdgesOf n ins st) := by
  unfold stepInstr at h
  obtain ⟨hm, he, -, -⟩ := memStep_fst n ins st
  split at h
  · cases h
  · simp only at h
    split at h
    · cases h
      refine ⟨hm, ?_, ?_⟩
      · intro e hin
        simp only [List.mem_append]
        exact .inl (by rw [he]; exact hin)
      · intro e hin hl
        simp only [List.mem_append] at hin
        rcases hin with hin | hin
        · rw [he] at hin; exact hin
        · split at hin
          · simp only [List.mem_singleton] at hin
            subst hin
            simp [isAwait] at hl
          · simp at hin
    · split at h
      · cases h
        exact ⟨hm, fun e hin => by rw [he]; exact hin, fun e hin _ => by rw [he] at hin; exact hin⟩
      · cases h
        refine ⟨?_, ?_, ?_⟩
        · rw [(frameLoop_mem _ _ _ _ _).1, (frameLoop_mem _ _ _ _ _).1, hm]
        · intro e hin
          apply frameLoop_edges_sub
          apply frameLoop_edges_sub
          rw [he]; exact hin
        · intro e hin hl
          rcases frameLoop_edges_new _ _ _ _ _ e hin with hin | ⟨_, h1 | h1⟩
          · rcases frameLoop_edges_new _ _ _ _ _ e hin with hin | ⟨_, h1 | h1⟩
            · rw [he] at hin; exact hin
            · rw [h1] at hl; simp [isAwait] at hl
            · rw [h1] at hl; simp [isAwait] at hl
          · rw [h1] at hl; simp [isAwait] at hl
          · rw [h1] at hl; simp [isAwait] at hl
    · split at h
      · cases h
        exact ⟨hm, fun e hin => by rw [he]; exact hin, fun e hin _ => by rw [he] at hin; exact hin⟩
      · cases h
    · cases h

/-- reachability only looks at the edges of its label class -/
theorem Reach.congr_class {E E' : List Edge} {C : Label → Bool} {u v : Node}
    (h : Reach E C u v) (hs : ∀ e ∈ E, C e.label = true → e ∈ E') : Reach E' C u v := by
  induction h with
  | refl => exact .refl _
  | step _ he hc ih => exact .step ih (hs _ he hc) hc

/-- the memory accesses of a list of processed items, in processing order -/
def memLog (P : List (Node × Instr)) : List Access :=
  P.flatMap fun p => (memAccesses p.2).map fun a => ⟨p.1, a.1, a.2⟩

/-- every `AwaitMemoryAccess(k)` edge joins two logged accesses of one region, the source's of kind `k`,
that conflict, and goes upwards in the measure `μ` (the position in the block) -/
def MemEdgesJustified (μ : Node → Nat) (E : List Edge) (log : List Access) : Prop :=
  ∀ e ∈ E, ∀ k, e.label = .await k → μ e.src < μ e.dst ∧
    ∃ r k2, (⟨e.src, r, k⟩ : Access) ∈ log ∧ (⟨e.dst, r, k2⟩ : Access) ∈ log ∧ Conflict k k2

theorem stepInstr_memInv {μ : Node → Nat} {n : Node} {ins : Instr} {st st' : St} {log : List Access}
    (h : stepInstr n ins st = .ok st')
    (hq : QInv Queue.memInit st.mem (Reach st.edges isAwait) log)
    (hj : MemEdgesJustified μ st.edges log)
    (hμ : ∀ a ∈ log, μ a.node < μ n) :
    QInv Queue.memInit st'.mem (Reach st'.edges isAwait)
      (log ++ (memAccesses ins).map fun a => ⟨n, a.1, a.2⟩) ∧
    MemEdgesJustified μ st'.edges (log ++ (memAccesses ins).map fun a => ⟨n, a.1, a.2⟩) := by
  obtain ⟨hm, hsub, hnew⟩ := stepInstr_mem h
  constructor
  · rw [hm]
    apply recordAll_inv
    · exact hq.mono fun u v huv => huv.mono fun e he => hsub e (List.mem_append_left _ he)
    · intro d hd
      by_cases hdn : d.node = n
      · rw [hdn]; exact .refl _
      · apply Reach.edge (l := .await d.kind) _ rfl
        apply hsub
        apply List.mem_append_right
        simp only [memEdgesOf, List.mem_map, List.mem_filter]
        exact ⟨d, ⟨hd, by simpa using hdn⟩, rfl⟩
  · intro e he k hk
    have := hnew e he (by rw [hk]; rfl)
    rcases List.mem_append.1 this with hin | hin
    · obtain ⟨h1, r, k2, h2, h3, h4⟩ := hj e hin k hk
      exact ⟨h1, r, k2, List.mem_append_left _ h2, List.mem_append_left _ h3, h4⟩
    · simp only [memEdgesOf, List.mem_map, List.mem_filter] at hin
      obtain ⟨d, ⟨hd, hdn⟩, rfl⟩ := hin
      simp only [Label.await.injEq] at hk
      subst hk
      have hdn' : d.node ≠ n := by simpa using hdn
      obtain ⟨a, ha, hc, hin⟩ := recordAll_deps_justified (init := Queue.memInit) n (memAccesses ins) st.mem log
        (hq.mono fun _ _ _ => trivial) d hd
      have hin' : (⟨d.node, a.1, d.kind⟩ : Access) ∈ log := by
        rcases hin with hin | hin
        · rcases List.mem_append.1 hin with hin | hin
          · exact hin
          · simp only [List.mem_map] at hin
            obtain ⟨a', _, ha'⟩ := hin
            have : n = d.node := by injection ha'
            exact absurd this.symm hdn'
        · simp [Queue.memInit] at hin
      refine ⟨hμ _ hin', a.1, a.2, List.mem_append_left _ hin', ?_, hc⟩
      apply List.mem_append_right
      simp only [List.mem_map]
      exact ⟨a, ha, rfl⟩

theorem runItems_memInv {μ : Node → Nat} :
    ∀ (P : List (Node × Instr)) (st st' : St) (log : List Access),
      runItems P st = .ok st' →
      QInv Queue.memInit st.mem (Reach st.edges isAwait) log →
      MemEdgesJustified μ st.edges log →
      P.Pairwise (fun p q => μ p.1 < μ q.1) →
      (∀ a ∈ log, ∀ p ∈ P, μ a.node < μ p.1) →
      QInv Queue.memInit st'.mem (Reach st'.edges isAwait) (log ++ memLog P) ∧
      MemEdgesJustified μ st'.edges (log ++ memLog P) := by
  intro P
  induction P with
  | nil =>
    intro st st' log h hq hj _ _
    simp only [runItems] at h
    cases h
    simpa [memLog] using ⟨hq, hj⟩
  | cons p rest ih =>
    intro st st' log h hq hj hsorted hlog
    obtain ⟨n, ins⟩ := p
    simp only [runItems] at h
    split at h
    · rename_i st1 hst1
      obtain ⟨hq1, hj1⟩ := stepInstr_memInv hst1 hq hj (fun a ha => hlog a ha _ List.mem_cons_self)
      rw [List.pairwise_cons] at hsorted
      have := ih st1 st' _ h hq1 hj1 hsorted.2 (by
        intro a ha q hq'
        rcases List.mem_append.1 ha with ha | ha
        · exact hlog a ha q (List.mem_cons_of_mem _ hq')
        · simp only [List.mem_map] at ha
          obtain ⟨a', _, rfl⟩ := ha
          exact hsorted.1 q hq')
      simpa [memLog, List.append_assoc] using this
    · cases h

/-! ### Positions of the items of a block -/

theorem mem_enumFrom : ∀ (is : List Instr) (k : Nat) (p : Node × Instr),
    p ∈ enumFrom k is → ∃ i, p.1 = .instr i ∧ k ≤ i ∧ i < k + is.length ∧ is[i - k]? = some p.2 := by
  intro is
  induction is with
  | nil => intro k p h; simp [enumFrom] at h
  | cons x xs ih =>
    intro k p h
    simp only [enumFrom, List.mem_cons] at h
    rcases h with rfl | h
    · exact ⟨k, rfl, Nat.le_refl _, by simp, by simp⟩
    · obtain ⟨i, h1, h2, h3, h4⟩ := ih (k + 1) p h
      refine ⟨i, h1, by omega, by simp only [List.length_cons]; omega, ?_⟩
      have : i - k = (i - (k + 1)) + 1 := by omega
      rw [this, List.getElem?_cons_succ]; exact h4

theorem enumFrom_sorted (L : Nat) : ∀ (is : List Instr) (k : Nat),
    (enumFrom k is).Pairwise fun p q => p.1.pos L < q.1.pos L := by
  intro is
  induction is with
  | nil => intro k; simp [enumFrom]
  | cons x xs ih =>
    intro k
    simp only [enumFrom, List.pairwise_cons]
    refine ⟨?_, ih (k + 1)⟩
    intro q hq
    obtain ⟨i, h1, h2, _, _⟩ := mem_enumFrom xs (k + 1) q hq
    rw [h1]; simp only [Node.pos]; omega

theorem items_sorted (b : Block) :
    b.items.Pairwise fun p q => p.1.pos b.instrs.length < q.1.pos b.instrs.length := by
  unfold Block.items
  rw [List.pairwise_append]
  refine ⟨enumFrom_sorted _ _ _, ?_, ?_⟩
  · cases b.term <;> simp
  · intro p hp q hq
    obtain ⟨i, h1, _, h3, _⟩ := mem_enumFrom _ _ p hp
    cases ht : b.term with
    | none => simp [ht] at hq
    | some t =>
      simp only [ht, List.mem_singleton] at hq
      subst hq
      rw [h1]; simp only [Node.pos]; omega

theorem items_pos (b : Block) : ∀ p ∈ b.items, 0 < p.1.pos b.instrs.length := by
  intro p hp
  unfold Block.items at hp
  rcases List.mem_append.1 hp with hp | hp
  · obtain ⟨i, h1, _, _, _⟩ := mem_enumFrom _ _ p hp
    rw [h1]; simp [Node.pos]
  · cases ht : b.term with
    | none => simp [ht] at hp
    | some t =>
      simp only [ht, List.mem_singleton] at hp
      subst hp
      simp [Node.pos]

end QV.Sched
