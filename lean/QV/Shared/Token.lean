/-
Shared token model (import-free).  Mirrors quil-rs/src/parser/token.rs (`Token`, `KeywordToken`) and
quil-rs/src/parser/lexer/mod.rs (`Command`, `DataType`, `Modifier`, `Operator`).

Conventions
* strings are `List Char` (as in QV.C07.Model);
* `Float` tokens carry the IEEE-754 bits of the f64 as a `Nat` (< 2^64), never a Lean `Float`;
* `Integer` tokens carry the u64 as a `Nat` (the lexer model guarantees < 2^64).

The spellings accepted by the `strum::EnumString` derives are given by the `…ofString?` functions:
strum matching is case-sensitive and, when a variant has a `to_string`/`serialize` attribute, ONLY that
spelling is accepted (checked against the real lexer: `DEFCAL` is a command, `DEF-CAL` and `defcal`
are identifiers; `mut` is the keyword, `MUT` an identifier; `PAULI-SUM`, `NONBLOCKING`).
-/
namespace QV.Tok

/-- `Command` (lexer/mod.rs:41-100), `#[strum(serialize_all = "SCREAMING-KEBAB-CASE")]` with the five
`DEF…` overrides. -/
inductive Command where
  | add | and | ashr | call | capture | convert | declare
  | defCal | defCircuit | defFrame | defGate | defWaveform
  | delay | div | eq | exchange | fence | ge | gt | halt | include | ior
  | jump | jumpUnless | jumpWhen | label | le | load | lt | measure | move | mul
  | neg | nop | not | pragma | pulse | rawCapture | reset
  | setFrequency | setPhase | setScale | shiftFrequency | shiftPhase
  | shl | shr | store | sub | swapPhases | wait | xor
  deriving DecidableEq, Repr, BEq, Inhabited

/-- every command, in declaration order -/
def Command.all : List Command :=
  [.add, .and, .ashr, .call, .capture, .convert, .declare, .defCal, .defCircuit, .defFrame, .defGate,
   .defWaveform, .delay, .div, .eq, .exchange, .fence, .ge, .gt, .halt, .include, .ior, .jump,
   .jumpUnless, .jumpWhen, .label, .le, .load, .lt, .measure, .move, .mul, .neg, .nop, .not, .pragma,
   .pulse, .rawCapture, .reset, .setFrequency, .setPhase, .setScale, .shiftFrequency, .shiftPhase,
   .shl, .shr, .store, .sub, .swapPhases, .wait, .xor]

/-- `Command`'s `Display` = the only spelling `FromStr` accepts. -/
def Command.spelling : Command → String
  | .add => "ADD" | .and => "AND" | .ashr => "ASHR" | .call => "CALL" | .capture => "CAPTURE"
  | .convert => "CONVERT" | .declare => "DECLARE" | .defCal => "DEFCAL" | .defCircuit => "DEFCIRCUIT"
  | .defFrame => "DEFFRAME" | .defGate => "DEFGATE" | .defWaveform => "DEFWAVEFORM" | .delay => "DELAY"
  | .div => "DIV" | .eq => "EQ" | .exchange => "EXCHANGE" | .fence => "FENCE" | .ge => "GE" | .gt => "GT"
  | .halt => "HALT" | .include => "INCLUDE" | .ior => "IOR" | .jump => "JUMP"
  | .jumpUnless => "JUMP-UNLESS" | .jumpWhen => "JUMP-WHEN" | .label => "LABEL" | .le => "LE"
  | .load => "LOAD" | .lt => "LT" | .measure => "MEASURE" | .move => "MOVE" | .mul => "MUL"
  | .neg => "NEG" | .nop => "NOP" | .not => "NOT" | .pragma => "PRAGMA" | .pulse => "PULSE"
  | .rawCapture => "RAW-CAPTURE" | .reset => "RESET" | .setFrequency => "SET-FREQUENCY"
  | .setPhase => "SET-PHASE" | .setScale => "SET-SCALE" | .shiftFrequency => "SHIFT-FREQUENCY"
  | .shiftPhase => "SHIFT-PHASE" | .shl => "SHL" | .shr => "SHR" | .store => "STORE" | .sub => "SUB"
  | .swapPhases => "SWAP-PHASES" | .wait => "WAIT" | .xor => "XOR"

/-- `DataType` (lexer/mod.rs:102-109), `serialize_all = "UPPERCASE"`. -/
inductive DataType where
  | bit | octet | real | integer
  deriving DecidableEq, Repr, BEq, Inhabited

def DataType.all : List DataType := [.bit, .octet, .real, .integer]

def DataType.spelling : DataType → String
  | .bit => "BIT" | .octet => "OCTET" | .real => "REAL" | .integer => "INTEGER"

/-- `Modifier` (lexer/mod.rs:111-117), `serialize_all = "UPPERCASE"`. -/
inductive Modifier where
  | controlled | dagger | forked
  deriving DecidableEq, Repr, BEq, Inhabited

def Modifier.all : List Modifier := [.controlled, .dagger, .forked]

def Modifier.spelling : Modifier → String
  | .controlled => "CONTROLLED" | .dagger => "DAGGER" | .forked => "FORKED"

/-- `Operator` (lexer/mod.rs:119-131). -/
inductive Operator where
  | caret | minus | plus | slash | star
  deriving DecidableEq, Repr, BEq, Inhabited

def Operator.spelling : Operator → String
  | .caret => "^" | .minus => "-" | .plus => "+" | .slash => "/" | .star => "*"

/-- `KeywordToken` (token.rs:74-90), `SCREAMING-KEBAB-CASE` with `mut` and `NONBLOCKING` overrides. -/
inductive KeywordToken where
  | as | matrix | mutable | nonBlocking | offset | pauliSum | permutation | sequence | sharing
  deriving DecidableEq, Repr, BEq, Inhabited

def KeywordToken.all : List KeywordToken :=
  [.as, .matrix, .mutable, .nonBlocking, .offset, .pauliSum, .permutation, .sequence, .sharing]

def KeywordToken.spelling : KeywordToken → String
  | .as => "AS" | .matrix => "MATRIX" | .mutable => "mut" | .nonBlocking => "NONBLOCKING"
  | .offset => "OFFSET" | .pauliSum => "PAULI-SUM" | .permutation => "PERMUTATION"
  | .sequence => "SEQUENCE" | .sharing => "SHARING"

/-- `Token` (token.rs:146-177).  Constructor order as in the Rust enum. -/
inductive Token where
  | as | bang | colon | comma
  | command (c : Command)
  | comment (s : List Char)
  | dataType (t : DataType)
  | float (bits : Nat)
  | identifier (s : List Char)
  | indentation
  | integer (n : Nat)
  | target (s : List Char)
  | lBracket | lParenthesis | nonBlocking | matrix
  | modifier (m : Modifier)
  | mutable | newLine
  | operator (o : Operator)
  | offset | pauliSum | permutation | rBracket | rParenthesis | semicolon | sequence | sharing
  | string (s : List Char)
  | variable (s : List Char)
  deriving DecidableEq, Repr, BEq, Inhabited

/-- `impl From<KeywordToken> for Token` (token.rs:92-106). -/
def KeywordToken.toToken : KeywordToken → Token
  | .as => .as | .matrix => .matrix | .mutable => .mutable | .nonBlocking => .nonBlocking
  | .offset => .offset | .pauliSum => .pauliSum | .permutation => .permutation
  | .sequence => .sequence | .sharing => .sharing

/-- first element of `all` whose spelling is `s` (models the derived `FromStr`: exact, case-sensitive) -/
def findSpelling {α : Type} (all : List α) (spelling : α → String) (s : List Char) : Option α :=
  all.find? fun a => (spelling a).toList == s

def KeywordToken.ofString? (s : List Char) : Option KeywordToken :=
  findSpelling KeywordToken.all KeywordToken.spelling s
def Command.ofString? (s : List Char) : Option Command :=
  findSpelling Command.all Command.spelling s
def DataType.ofString? (s : List Char) : Option DataType :=
  findSpelling DataType.all DataType.spelling s
def Modifier.ofString? (s : List Char) : Option Modifier :=
  findSpelling Modifier.all Modifier.spelling s

/-- `keyword_or_identifier` (lexer/mod.rs:190-200): KeywordToken → Command → DataType → Modifier →
Identifier, case-sensitive; the identifier keeps the spelling it was given. -/
def keywordOrIdentifier (s : List Char) : Token :=
  match KeywordToken.ofString? s with
  | some k => k.toToken
  | none =>
    match Command.ofString? s with
    | some c => .command c
    | none =>
      match DataType.ofString? s with
      | some t => .dataType t
      | none =>
        match Modifier.ofString? s with
        | some m => .modifier m
        | none => .identifier s

/-- is the spelling one of the reserved words of the lexer (i.e. does NOT lex as an `Identifier`)? -/
def isReservedWord (s : List Char) : Bool :=
  (KeywordToken.ofString? s).isSome || (Command.ofString? s).isSome ||
  (DataType.ofString? s).isSome || (Modifier.ofString? s).isSome

end QV.Tok
