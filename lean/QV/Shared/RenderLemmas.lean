import QV.Shared.Render
import QV.C05.PropsReal
import QV.C06.PropsSound
import QV.C07.Props
/-!
Lemmas and THE THEOREM for the char-level bridge (`QV/Shared/Render.lean`): lexing a rendered token list
gives the token list back — `lex_renderGaps` (explicit gaps), `lex_renderWith` (adjacent-pair policy),
`lex_render` (canonical layout).  See docs/Render.md for the exact hypotheses and excluded adjacencies.
Builds on C05 (integer and real literals), C06 (identifiers, targets, variables) and C07 (strings).
-/
namespace QV.Render
open QV.Tok QV.Lex

/-! ### decimal spelling of integers -/

theorem digitChar_spec : ∀ d, d < 10 → QV.C05.Spec.digitVal (digitChar d) = d ∧ digitChar d ≠ '_' := by
  decide

theorem posValue_snoc (r : Nat) (ds : List Nat) (d : Nat) :
    QV.C05.Spec.posValue r (ds ++ [d]) = QV.C05.Spec.posValue r ds * r + d := by
  rw [← QV.C05.horner_eq_posValue, ← QV.C05.horner_eq_posValue]
  simp [horner]

theorem digitsOf_snoc (a : List Char) (c : Char) (hc : c ≠ '_') :
    QV.C05.Spec.digitsOf (a ++ [c]) = QV.C05.Spec.digitsOf a ++ [QV.C05.Spec.digitVal c] := by
  simp [QV.C05.Spec.digitsOf, List.filter_append, hc]

theorem natToDecAux_spec (f : Nat) : ∀ n, n ≤ f →
    (∀ c ∈ natToDecAux f n, QV.C05.Spec.digitVal c < 10) ∧ natToDecAux f n ≠ [] ∧
    QV.C05.Spec.posValue 10 (QV.C05.Spec.digitsOf (natToDecAux f n)) = n := by
  induction f with
  | zero =>
    intro n hn
    have : n = 0 := by omega
    subst this
    have ⟨h1, h2⟩ := digitChar_spec 0 (by omega)
    refine ⟨by intro c hc; simp [natToDecAux] at hc; subst hc; omega, by simp [natToDecAux], ?_⟩
    simp [natToDecAux, QV.C05.Spec.digitsOf, h2, h1, QV.C05.Spec.posValue]
  | succ f ih =>
    intro n hn
    simp only [natToDecAux]
    split
    · rename_i h
      have ⟨h1, h2⟩ := digitChar_spec n h
      refine ⟨by intro c hc; simp at hc; subst hc; omega, by simp, ?_⟩
      simp [QV.C05.Spec.digitsOf, h2, h1, QV.C05.Spec.posValue]
    · rename_i h
      obtain ⟨i1, i2, i3⟩ := ih (n / 10) (by omega)
      have hm : n % 10 < 10 := by omega
      have ⟨h1, h2⟩ := digitChar_spec (n % 10) hm
      refine ⟨?_, by simp, ?_⟩
      · intro c hc
        simp only [List.mem_append, List.mem_singleton] at hc
        rcases hc with hc | hc
        · exact i1 c hc
        · subst hc; omega
      · rw [digitsOf_snoc _ _ h2, posValue_snoc, i3, h1]; omega

theorem natToDec_spec (n : Nat) :
    (∀ c ∈ natToDec n, QV.C05.Spec.digitVal c < 10) ∧ natToDec n ≠ [] ∧
    QV.C05.Spec.posValue 10 (QV.C05.Spec.digitsOf (natToDec n)) = n :=
  natToDecAux_spec n n (Nat.le_refl n)

theorem natToDec_digitString (n : Nat) : QV.C05.Spec.isDigitString 10 (natToDec n) = true := by
  obtain ⟨h1, h2, _⟩ := natToDec_spec n
  cases h : natToDec n with
  | nil => exact absurd h h2
  | cons c cs =>
    rw [h] at h1
    simp only [QV.C05.Spec.isDigitString, Bool.and_eq_true, decide_eq_true_eq, List.all_eq_true,
      Bool.or_eq_true, beq_iff_eq]
    exact ⟨h1 c (by simp), fun d hd => Or.inr (h1 d hd)⟩


/-! ### reserved words -/

theorem lexToken_word (s rest : List Char) (hs : QV.C06.Spec.validIdent s = true)
    (hr : QV.C06.Spec.stopsIdent rest = true) :
    lexToken (s ++ rest) = .ok (keywordOrIdentifier s) rest := by
  have hraw := QV.C06.lexIdentifierRaw_valid s rest hs hr
  obtain ⟨c, cs, rfl, hc, _, _⟩ := QV.C06.validIdent_parts s hs
  obtain ⟨a1, a2, a3, a4, a5, a6⟩ := QV.C06.leading_head_alts c (cs ++ rest) hc
  simp only [List.cons_append] at hraw a1 a2 a3 a4 a5 a6 ⊢
  simp [lexToken, Res.orElse, a1, a2, a3, a4, a5, a6, lexKeywordOrIdentifier, hraw, Res.map]

theorem command_word (c : Command) :
    QV.C06.Spec.validIdent c.spelling.toList = true ∧ keywordOrIdentifier c.spelling.toList = .command c := by
  cases c <;> decide

theorem wordSpelling_spec (t : Token) (s : List Char) (h : wordSpelling t = some s) :
    QV.C06.Spec.validIdent s = true ∧ keywordOrIdentifier s = t := by
  cases t with
  | command c => simp [wordSpelling] at h; subst h; exact command_word c
  | dataType d => simp [wordSpelling] at h; subst h; cases d <;> decide
  | modifier m => simp [wordSpelling] at h; subst h; cases m <;> decide
  | as => simp [wordSpelling] at h; subst h; decide
  | matrix => simp [wordSpelling] at h; subst h; decide
  | mutable => simp [wordSpelling] at h; subst h; decide
  | nonBlocking => simp [wordSpelling] at h; subst h; decide
  | offset => simp [wordSpelling] at h; subst h; decide
  | pauliSum => simp [wordSpelling] at h; subst h; decide
  | permutation => simp [wordSpelling] at h; subst h; decide
  | sequence => simp [wordSpelling] at h; subst h; decide
  | sharing => simp [wordSpelling] at h; subst h; decide
  | _ => simp [wordSpelling] at h


/-! ### one token -/

theorem numStopB_eq (rest : List Char) : numStopB rest = QV.C05.numStop rest := by
  cases rest <;> simp [numStopB, QV.C05.numStop, stops]

/-- every token's spelling, followed by text that stops it, lexes (through `lex_token`) to that token and
leaves exactly that text -/
theorem lexToken_render (st : Style) (t : Token) (rest : List Char) (hok : tokOk t = true)
    (hf : ∀ b, t = .float b → FmtOk st.fmt b) (hstop : stopOk t rest = true) :
    lexToken (renderToken st t ++ rest) = .ok t rest := by
  cases hw : wordSpelling t with
  | some s =>
    obtain ⟨hv, hk⟩ := wordSpelling_spec t s hw
    have hwl : isWordLike t = true := by
      cases t <;> simp [isWordLike, hw] <;> simp [wordSpelling] at hw
    have hs : QV.C06.Spec.stopsIdent rest = true := by
      cases t <;> simp [stopOk, hwl] at hstop <;> first | exact hstop | simp [wordSpelling] at hw
    simp only [renderToken, hw]
    rw [lexToken_word s rest hv hs, hk]
  | none =>
    cases t with
    | identifier s =>
      simp only [tokOk, Bool.and_eq_true, Bool.not_eq_true'] at hok
      have hs : QV.C06.Spec.stopsIdent rest = true := by simpa [stopOk, isWordLike] using hstop
      simp only [renderToken, wordSpelling]
      exact QV.C06.C06_lexToken_identifier s rest hok.1 hok.2 hs
    | target s =>
      have hs : QV.C06.Spec.stopsIdent rest = true := by simpa [stopOk, isWordLike] using hstop
      simp only [renderToken, wordSpelling]
      exact QV.C06.C06_lexToken_target s rest (by simpa [tokOk] using hok) hs
    | «variable» s =>
      have hs : QV.C06.Spec.stopsIdent rest = true := by simpa [stopOk, isWordLike] using hstop
      simp only [renderToken, wordSpelling]
      exact QV.C06.C06_lexToken_variable s rest (by simpa [tokOk] using hok) hs
    | integer n =>
      have hn : n < 2 ^ 64 := by
        have h1 : decide (n < two64) = true := hok
        have := of_decide_eq_true h1
        simp only [two64] at this
        omega
      have hd : QV.C05.numStop rest = true := by rw [← numStopB_eq]; simpa [stopOk] using hstop
      simp only [renderToken, wordSpelling]
      rw [QV.C05.C05_lexToken_decimal _ rest (natToDec_digitString n) hd, (natToDec_spec n).2.2]
      simp [hn]
    | float b =>
      have hd : numStopB rest = true := by simpa [stopOk] using hstop
      simp only [renderToken, wordSpelling]
      exact (hf b rfl).lex rest hd
    | string s =>
      simp only [renderToken, wordSpelling]
      have h := QV.C07.C07_lex_quote s rest
      have e1 : lexComment (QV.C07.quote s ++ rest) = .error := rfl
      have e2 : lexPunctuation (QV.C07.quote s ++ rest) = .error := rfl
      have e3 : lexTarget (QV.C07.quote s ++ rest) = .error := rfl
      simp [lexToken, Res.orElse, e1, e2, e3, lexString, h]
    | newLine =>
      simp only [renderToken, wordSpelling]
      have hne : rest.dropWhile (· == '\n') = rest := by
        cases rest with
        | nil => rfl
        | cons c r =>
          have : c ≠ '\n' := by simpa [stopOk] using hstop
          have hb : (c == '\n') = false := by simp [this]
          simp [List.dropWhile, hb]
      have e1 : lexComment ('\n' :: rest) = .error := rfl
      have e2 : lexPunctuation ('\n' :: rest) = .ok .newLine (rest.dropWhile (· == '\n')) := rfl
      simp [lexToken, Res.orElse, e1, e2, hne]
    | indentation =>
      simp only [renderToken, wordSpelling]
      cases st.tabIndent <;> rfl
    | operator o => simp only [renderToken, wordSpelling]; cases o <;> rfl
    | comment s => simp [tokOk] at hok
    | bang => rfl
    | colon => rfl
    | comma => rfl
    | lBracket => rfl
    | lParenthesis => rfl
    | rBracket => rfl
    | rParenthesis => rfl
    | semicolon => rfl
    | _ => simp [wordSpelling] at hw


/-! ### heads, items, gaps -/

theorem leading_not_ws (c : Char) (h : isLeading c = true) : c ≠ ' ' ∧ c ≠ '\t' := by
  constructor <;> (intro e; subst e; simp [isLeading, isAsciiAlpha] at h)

/-- the spelling of every token other than `Indentation` starts with a character that is neither a space
nor a tab -/
theorem renderToken_head (st : Style) (t : Token) (hok : tokOk t = true)
    (hf : ∀ b, t = .float b → FmtOk st.fmt b) (hni : t ≠ .indentation) :
    ∃ c r, renderToken st t = c :: r ∧ c ≠ ' ' ∧ c ≠ '\t' := by
  cases hw : wordSpelling t with
  | some s =>
    obtain ⟨hv, _⟩ := wordSpelling_spec t s hw
    obtain ⟨c, cs, rfl, hc, _, _⟩ := QV.C06.validIdent_parts s hv
    exact ⟨c, cs, by simp [renderToken, hw], leading_not_ws c hc⟩
  | none =>
    cases t with
    | identifier s =>
      simp only [tokOk, Bool.and_eq_true] at hok
      obtain ⟨c, cs, rfl, hc, _, _⟩ := QV.C06.validIdent_parts s hok.1
      exact ⟨c, cs, by simp [renderToken, wordSpelling], leading_not_ws c hc⟩
    | target s => exact ⟨'@', s, by simp [renderToken, wordSpelling], by decide, by decide⟩
    | «variable» s => exact ⟨'%', s, by simp [renderToken, wordSpelling], by decide, by decide⟩
    | integer n =>
      obtain ⟨h1, h2, _⟩ := natToDec_spec n
      cases h : natToDec n with
      | nil => exact absurd h h2
      | cons c cs =>
        rw [h] at h1
        have hc := h1 c (by simp)
        refine ⟨c, cs, by simp [renderToken, wordSpelling, h], ?_, ?_⟩ <;>
          (intro e; subst e; simp [QV.C05.Spec.digitVal] at hc)
    | float b =>
      obtain ⟨c, r, h, h1, h2⟩ := (hf b rfl).head
      exact ⟨c, r, by simp [renderToken, wordSpelling, h], h1, h2⟩
    | string s => exact ⟨'"', QV.C07.escape s ++ ['"'], by simp [renderToken, wordSpelling, QV.C07.quote], by decide, by decide⟩
    | newLine => exact ⟨'\n', [], by simp [renderToken, wordSpelling], by decide, by decide⟩
    | indentation => exact absurd rfl hni
    | operator o => cases o <;> exact ⟨_, [], by simp [renderToken, wordSpelling, Operator.spelling]; rfl, by decide, by decide⟩
    | comment s => simp [tokOk] at hok
    | bang => exact ⟨'!', [], by simp [renderToken, wordSpelling], by decide, by decide⟩
    | colon => exact ⟨':', [], by simp [renderToken, wordSpelling], by decide, by decide⟩
    | comma => exact ⟨',', [], by simp [renderToken, wordSpelling], by decide, by decide⟩
    | lBracket => exact ⟨'[', [], by simp [renderToken, wordSpelling], by decide, by decide⟩
    | lParenthesis => exact ⟨'(', [], by simp [renderToken, wordSpelling], by decide, by decide⟩
    | rBracket => exact ⟨']', [], by simp [renderToken, wordSpelling], by decide, by decide⟩
    | rParenthesis => exact ⟨')', [], by simp [renderToken, wordSpelling], by decide, by decide⟩
    | semicolon => exact ⟨';', [], by simp [renderToken, wordSpelling], by decide, by decide⟩
    | _ => simp [wordSpelling] at hw

theorem lexItem_of_head (c : Char) (r : List Char) (h1 : c ≠ ' ') (h2 : c ≠ '\t') :
    lexItem (c :: r) = lexToken (c :: r) ∧ lexItem (' ' :: c :: r) = lexToken (c :: r) := by
  have hb : (c == ' ') = false := by simp [h1]
  have e1 : lexIndent (c :: r) = .error := by unfold lexIndent; split <;> simp_all
  have e2 : lexIndent (' ' :: c :: r) = .error := by unfold lexIndent; split <;> simp_all
  constructor
  · simp [lexItem, e1, Res.orElse, List.dropWhile, hb]
  · simp [lexItem, e2, Res.orElse, List.dropWhile, hb]

theorem lexItem_indentation (st : Style) (rest : List Char) :
    lexItem (renderToken st .indentation ++ rest) = .ok .indentation rest := by
  simp only [renderToken, wordSpelling]
  cases st.tabIndent <;> rfl

theorem stopOk_nil (t : Token) : stopOk t [] = true := by
  cases t <;> simp [stopOk, numStopB, QV.C06.Spec.stopsIdent]

def headGap (gs : List Bool) : Bool := gs.head?.getD false

theorem renderGaps_cons2 (st : Style) (t u : Token) (ts : List Token) (gs : List Bool) :
    renderGaps st (t :: u :: ts) gs =
      renderToken st t ++ (gapText (headGap gs) ++ renderGaps st (u :: ts) gs.tail) := by
  cases gs with
  | nil => simp [renderGaps, headGap, gapText]
  | cons g gs => cases g <;> simp [renderGaps, headGap, gapText]

theorem renderable_cons2 (st : Style) (t u : Token) (ts : List Token) (gs : List Bool) :
    renderable st (t :: u :: ts) gs =
      (tokOk t && gapAllowed t u (headGap gs) &&
        stopOk t (gapText (headGap gs) ++ renderGaps st (u :: ts) gs.tail) &&
        renderable st (u :: ts) gs.tail) := by
  cases gs with
  | nil => simp [renderable, headGap, gapText, gapAllowed]
  | cons g gs => cases g <;> simp [renderable, headGap, gapText, gapAllowed]

/-- one item of the layout: an optional leading gap, the token's spelling, then text that stops it -/
theorem lexItem_render (st : Style) (t : Token) (pre : Bool) (rest : List Char) (hok : tokOk t = true)
    (hf : ∀ b, t = .float b → FmtOk st.fmt b) (hstop : stopOk t rest = true)
    (hpre : pre = true → t ≠ .indentation) :
    lexItem (gapText pre ++ (renderToken st t ++ rest)) = .ok t rest := by
  by_cases hi : t = .indentation
  · subst hi
    have : pre = false := by cases pre <;> simp_all
    subst this
    simpa [gapText] using lexItem_indentation st rest
  · obtain ⟨c, r, hh, h1, h2⟩ := renderToken_head st t hok hf hi
    have hl := lexToken_render st t rest hok hf hstop
    rw [hh] at hl ⊢
    obtain ⟨e1, e2⟩ := lexItem_of_head c (r ++ rest) h1 h2
    cases pre
    · simpa [gapText, e1] using hl
    · simpa [gapText, e2] using hl


/-! ### the theorem -/

theorem renderToken_ne_nil (st : Style) (t : Token) (hok : tokOk t = true)
    (hf : ∀ b, t = .float b → FmtOk st.fmt b) : renderToken st t ≠ [] := by
  by_cases hi : t = .indentation
  · subst hi; simp only [renderToken, wordSpelling]; cases st.tabIndent <;> simp
  · obtain ⟨c, r, hh, _, _⟩ := renderToken_head st t hok hf hi
    rw [hh]; simp

theorem lexMany_step (f : Nat) (inp rest : List Char) (t : Token) (ts : List Token) (r : List Char)
    (h1 : lexItem inp = .ok t rest) (h2 : rest.length < inp.length) (h3 : lexMany f rest = .ok ts r) :
    lexMany (f + 1) inp = .ok (t :: ts) r := by
  simp only [lexMany, h1, h2, if_true, h3]

theorem lexMany_render (st : Style) : ∀ (ts : List Token) (gs : List Bool) (pre : Bool) (fuel : Nat),
    ts ≠ [] → renderable st ts gs = true → (∀ b, Token.float b ∈ ts → FmtOk st.fmt b) →
    (pre = true → ts.head? ≠ some .indentation) →
    (gapText pre ++ renderGaps st ts gs).length ≤ fuel →
    lexMany fuel (gapText pre ++ renderGaps st ts gs) = .ok ts [] := by
  intro ts
  induction ts with
  | nil => intro _ _ _ h; exact absurd rfl h
  | cons t ts ih =>
    intro gs pre fuel _ hren hfl hpre hfuel
    have hft : ∀ b, t = .float b → FmtOk st.fmt b := fun b e => hfl b (by simp [e])
    cases ts with
    | nil =>
      have hok : tokOk t = true := by simpa [renderable] using hren
      have hne := renderToken_ne_nil st t hok hft
      have hitem := lexItem_render st t pre [] hok hft (stopOk_nil t)
        (fun hp e => hpre hp (by simp [e]))
      simp only [List.append_nil] at hitem
      simp only [renderGaps] at hfuel ⊢
      cases fuel with
      | zero =>
        cases hr : renderToken st t with
        | nil => exact absurd hr hne
        | cons c r => simp [hr] at hfuel
      | succ f =>
        refine lexMany_step f _ [] t [] [] hitem ?_ (lexMany_nil f)
        cases hr : renderToken st t with
        | nil => exact absurd hr hne
        | cons c r => simp; omega
    | cons u ts' =>
      rw [renderable_cons2] at hren
      simp only [Bool.and_eq_true] at hren
      obtain ⟨⟨⟨hok, hgap⟩, hstop⟩, hrest⟩ := hren
      have hne := renderToken_ne_nil st t hok hft
      rw [renderGaps_cons2] at hfuel ⊢
      have hitem := lexItem_render st t pre (gapText (headGap gs) ++ renderGaps st (u :: ts') gs.tail)
        hok hft hstop (fun hp e => hpre hp (by simp [e]))
      have hpre' : headGap gs = true → (u :: ts').head? ≠ some .indentation := by
        intro hg
        simp only [gapAllowed, hg, Bool.not_true, Bool.false_or, Bool.and_eq_true] at hgap
        have := hgap.2
        intro e
        simp only [List.head?_cons, Option.some.injEq] at e
        subst e
        simp at this
      cases fuel with
      | zero =>
        cases hr : renderToken st t with
        | nil => exact absurd hr hne
        | cons c r => simp [hr] at hfuel
      | succ f =>
        have hlen : (gapText (headGap gs) ++ renderGaps st (u :: ts') gs.tail).length <
            (gapText pre ++ (renderToken st t ++ (gapText (headGap gs) ++ renderGaps st (u :: ts') gs.tail))).length := by
          cases hr : renderToken st t with
          | nil => exact absurd hr hne
          | cons c r => simp; omega
        have hrec := ih gs.tail (headGap gs) f (by simp) hrest
          (fun b hb => hfl b (by simp [hb])) hpre' (by omega)
        exact lexMany_step f _ _ t (u :: ts') [] hitem hlen hrec

/-- **THE THEOREM (explicit gaps)**: for every token list of any length, laid out with any gap list,
satisfying the decidable predicate `renderable` (and the NumTok hypothesis for the floats it contains),
lexing the text gives back exactly the token list. -/
theorem lex_renderGaps (st : Style) (ts : List Token) (gs : List Bool)
    (hren : renderable st ts gs = true) (hfl : ∀ b, Token.float b ∈ ts → FmtOk st.fmt b) :
    lex (renderGaps st ts gs) = some ts := by
  cases ts with
  | nil => rfl
  | cons t ts' =>
    have h := lexMany_render st (t :: ts') gs false (renderGaps st (t :: ts') gs).length (by simp) hren hfl
      (by simp) (by simp [gapText])
    simp only [gapText, Bool.false_eq_true, if_false, List.nil_append] at h
    simp [lex, h]


/-! ### adjacent-pair policies -/

/-- first character of a spelling, classified -/
theorem renderToken_first (st : Style) (u : Token) (hok : tokOk u = true)
    (hf : ∀ b, u = .float b → FmtOk st.fmt b) (hni : u ≠ .indentation) :
    ∃ c r, renderToken st u = c :: r ∧
      (startsWordOrNumber u = false → isEnd c = false ∧ c ≠ '.') ∧
      (startsWordOrNumber u = false → u ≠ .operator .minus → c ≠ '-') ∧
      (u ≠ .newLine → c ≠ '\n') := by
  cases hw : wordSpelling u with
  | some s =>
    obtain ⟨hv, _⟩ := wordSpelling_spec u s hw
    obtain ⟨c, cs, rfl, hc, _, _⟩ := QV.C06.validIdent_parts s hv
    have hsw : startsWordOrNumber u = true := by
      cases u <;> simp [startsWordOrNumber, hw] <;> simp [wordSpelling] at hw
    refine ⟨c, cs, by simp [renderToken, hw], by simp [hsw], by simp [hsw], ?_⟩
    intro _ e; subst e; simp [isLeading, isAsciiAlpha] at hc
  | none =>
    cases u with
    | identifier s =>
      simp only [tokOk, Bool.and_eq_true] at hok
      obtain ⟨c, cs, rfl, hc, _, _⟩ := QV.C06.validIdent_parts s hok.1
      refine ⟨c, cs, by simp [renderToken, wordSpelling], by simp [startsWordOrNumber],
        by simp [startsWordOrNumber], ?_⟩
      intro _ e; subst e; simp [isLeading, isAsciiAlpha] at hc
    | target s => exact ⟨'@', s, by simp [renderToken, wordSpelling], fun _ => by decide, fun _ _ => by decide, fun _ => by decide⟩
    | «variable» s => exact ⟨'%', s, by simp [renderToken, wordSpelling], fun _ => by decide, fun _ _ => by decide, fun _ => by decide⟩
    | integer n =>
      obtain ⟨h1, h2, _⟩ := natToDec_spec n
      cases h : natToDec n with
      | nil => exact absurd h h2
      | cons c cs =>
        rw [h] at h1
        have hc := h1 c (by simp)
        refine ⟨c, cs, by simp [renderToken, wordSpelling, h], by simp [startsWordOrNumber],
          by simp [startsWordOrNumber], ?_⟩
        intro _ e; subst e; simp [QV.C05.Spec.digitVal] at hc
    | float b =>
      obtain ⟨c, r, h, _, _⟩ := (hf b rfl).head
      refine ⟨c, r, by simp [renderToken, wordSpelling, h], by simp [startsWordOrNumber],
        by simp [startsWordOrNumber], ?_⟩
      intro _ e
      subst e
      have hl := (hf b rfl).lex [] rfl
      rw [h] at hl
      have e1 : lexComment ('\n' :: r) = .error := rfl
      have e2 : lexPunctuation ('\n' :: r) = .ok .newLine (r.dropWhile (· == '\n')) := rfl
      simp [lexToken, Res.orElse, e1, e2] at hl
    | string s => exact ⟨'"', QV.C07.escape s ++ ['"'], by simp [renderToken, wordSpelling, QV.C07.quote], fun _ => by decide, fun _ _ => by decide, fun _ => by decide⟩
    | newLine => exact ⟨'\n', [], by simp [renderToken, wordSpelling], fun _ => by decide, fun _ _ => by decide, fun h => absurd rfl h⟩
    | indentation => exact absurd rfl hni
    | operator o =>
      cases o
      · exact ⟨'^', [], by simp [renderToken, wordSpelling, Operator.spelling], fun _ => by decide, fun _ _ => by decide, fun _ => by decide⟩
      · exact ⟨'-', [], by simp [renderToken, wordSpelling, Operator.spelling], fun _ => by decide, fun _ h => absurd rfl h, fun _ => by decide⟩
      · exact ⟨'+', [], by simp [renderToken, wordSpelling, Operator.spelling], fun _ => by decide, fun _ _ => by decide, fun _ => by decide⟩
      · exact ⟨'/', [], by simp [renderToken, wordSpelling, Operator.spelling], fun _ => by decide, fun _ _ => by decide, fun _ => by decide⟩
      · exact ⟨'*', [], by simp [renderToken, wordSpelling, Operator.spelling], fun _ => by decide, fun _ _ => by decide, fun _ => by decide⟩
    | comment s => simp [tokOk] at hok
    | bang => exact ⟨'!', [], by simp [renderToken, wordSpelling], fun _ => by decide, fun _ _ => by decide, fun _ => by decide⟩
    | colon => exact ⟨':', [], by simp [renderToken, wordSpelling], fun _ => by decide, fun _ _ => by decide, fun _ => by decide⟩
    | comma => exact ⟨',', [], by simp [renderToken, wordSpelling], fun _ => by decide, fun _ _ => by decide, fun _ => by decide⟩
    | lBracket => exact ⟨'[', [], by simp [renderToken, wordSpelling], fun _ => by decide, fun _ _ => by decide, fun _ => by decide⟩
    | lParenthesis => exact ⟨'(', [], by simp [renderToken, wordSpelling], fun _ => by decide, fun _ _ => by decide, fun _ => by decide⟩
    | rBracket => exact ⟨']', [], by simp [renderToken, wordSpelling], fun _ => by decide, fun _ _ => by decide, fun _ => by decide⟩
    | rParenthesis => exact ⟨')', [], by simp [renderToken, wordSpelling], fun _ => by decide, fun _ _ => by decide, fun _ => by decide⟩
    | semicolon => exact ⟨';', [], by simp [renderToken, wordSpelling], fun _ => by decide, fun _ _ => by decide, fun _ => by decide⟩
    | _ => simp [wordSpelling] at hw


theorem stopOk_space (t : Token) (r : List Char) : stopOk t (' ' :: r) = true := by
  cases t <;> simp [stopOk, numStopB, QV.C06.Spec.stopsIdent, QV.C06.Spec.isWordChar, QV.C06.Spec.isLetter,
    QV.C06.Spec.isDigit, isEnd, isLeading, isAsciiAlpha, isAsciiDigit, isNumChar, isDigitIn, digitOf, lowerAscii] <;>
    (try split) <;> simp

theorem stopOk_tab (t : Token) (r : List Char) : stopOk t ('\t' :: r) = true := by
  cases t <;> simp [stopOk, numStopB, QV.C06.Spec.stopsIdent, QV.C06.Spec.isWordChar, QV.C06.Spec.isLetter,
    QV.C06.Spec.isDigit, isEnd, isLeading, isAsciiAlpha, isAsciiDigit, isNumChar, isDigitIn, digitOf, lowerAscii] <;>
    (try split) <;> simp

/-- if the policy did not have to separate `t` from `u`, the first character of `u`'s spelling stops `t` -/
theorem stopOk_of_not_mustSep (st : Style) (t u : Token) (more : List Char)
    (hoku : tokOk u = true) (hfu : ∀ b, u = .float b → FmtOk st.fmt b)
    (hms : mustSep t u = false) : stopOk t (renderToken st u ++ more) = true := by
  by_cases hi : u = .indentation
  · subst hi
    simp only [renderToken, wordSpelling]
    cases st.tabIndent
    · simpa using stopOk_space t _
    · simpa using stopOk_tab t _
  · obtain ⟨c, r, hh, hb, hc, hd⟩ := renderToken_first st u hoku hfu hi
    rw [hh]
    by_cases hti : t = .indentation
    · subst hti; simp [stopOk, isWordLike, wordSpelling]
    · -- classify t
      cases hwl : isWordLike t with
      | true =>
        have hsw : startsWordOrNumber u = false ∧ u ≠ .operator .minus := by
          cases hs : startsWordOrNumber u with
          | true =>
            exfalso
            cases t <;> cases u <;> simp_all [mustSep, isWordLike, startsWordOrNumber, wordSpelling]
          | false =>
            refine ⟨rfl, ?_⟩
            intro e; subst e
            cases t <;> simp_all [mustSep, isWordLike, wordSpelling]
        obtain ⟨h1, _⟩ := hb hsw.1
        have h2 := hc hsw.1 hsw.2
        have hbq : (c == '-') = false := by simp [h2]
        have hst : QV.C06.Spec.stopsIdent (c :: (r ++ more)) = true := by
          simp [QV.C06.Spec.stopsIdent, hbq, ← QV.C06.isEnd_eq, h1]
        cases t <;> simp_all [stopOk, isWordLike, wordSpelling]
      | false =>
        cases t with
        | integer n =>
          have hs : startsWordOrNumber u = false := by
            cases u <;> simp_all [mustSep]
          obtain ⟨h1, h2⟩ := hb hs
          have hdl : QV.C05.delim (c :: (r ++ more)) = true := by simp [QV.C05.delim, stops, h1, h2]
          have := QV.C05.delim_numStop _ hdl
          rw [← numStopB_eq] at this
          simpa [stopOk] using this
        | float b =>
          have hs : startsWordOrNumber u = false := by
            cases u <;> simp_all [mustSep]
          obtain ⟨h1, h2⟩ := hb hs
          have hdl : QV.C05.delim (c :: (r ++ more)) = true := by simp [QV.C05.delim, stops, h1, h2]
          have := QV.C05.delim_numStop _ hdl
          rw [← numStopB_eq] at this
          simpa [stopOk] using this
        | newLine =>
          have hn : u ≠ .newLine := by intro e; subst e; simp [mustSep] at hms
          simp [stopOk, hd hn]
        | _ => simp_all [stopOk, isWordLike, wordSpelling]

/-- a policy is safe if it separates every pair in `mustSep` and never touches an `Indentation` -/
def SafePolicy (sp : Token → Token → Bool) : Prop :=
  (∀ a b, mustSep a b = true → sp a b = true) ∧
  (∀ a b, (a = .indentation ∨ b = .indentation) → sp a b = false)

theorem renderable_of_policy (st : Style) (sp : Token → Token → Bool) (hsp : SafePolicy sp) :
    ∀ ts : List Token, allTokOk ts = true → (∀ b, Token.float b ∈ ts → FmtOk st.fmt b) →
      renderable st ts (gapsOf sp ts) = true := by
  intro ts
  induction ts with
  | nil => intro _ _; rfl
  | cons t ts ih =>
    intro hall hfl
    simp only [allTokOk, List.all_cons, Bool.and_eq_true] at hall
    cases ts with
    | nil => simpa [renderable] using hall.1
    | cons u ts' =>
      have hall' : allTokOk (u :: ts') = true := hall.2
      have hoku : tokOk u = true := by
        simp only [allTokOk, List.all_cons, Bool.and_eq_true] at hall'; exact hall'.1
      have hfu : ∀ b, u = .float b → FmtOk st.fmt b := fun b e => hfl b (by simp [e])
      have ihr := ih hall' (fun b hb => hfl b (by simp [hb]))
      rw [renderable_cons2]
      simp only [gapsOf, headGap, List.head?_cons, Option.getD_some, List.tail_cons, Bool.and_eq_true]
      refine ⟨⟨⟨hall.1, ?_⟩, ?_⟩, ihr⟩
      · cases hg : sp t u with
        | false => simp [gapAllowed]
        | true =>
          have h1 : t ≠ .indentation := fun e => by simp [hsp.2 t u (Or.inl e)] at hg
          have h2 : u ≠ .indentation := fun e => by simp [hsp.2 t u (Or.inr e)] at hg
          simp [gapAllowed, h1, h2]
      · cases hg : sp t u with
        | true => simpa [gapText] using stopOk_space t _
        | false =>
          have hms : mustSep t u = false := by
            cases h : mustSep t u with
            | false => rfl
            | true => simp [hsp.1 t u h] at hg
          cases ts' with
          | nil => simpa [gapText, renderGaps] using stopOk_of_not_mustSep st t u [] hoku hfu hms
          | cons v ts'' =>
            rw [renderGaps_cons2]
            simpa [gapText] using stopOk_of_not_mustSep st t u _ hoku hfu hms

/-- **THE THEOREM (adjacent-pair policy)**: for every token list of any length whose tokens are `tokOk`
(valid, non-reserved identifiers; valid targets and variables; integers below 2^64; no comments) and whose
floats satisfy the NumTok hypothesis, and every spacing policy that separates at least the `mustSep`
pairs and leaves `Indentation` tokens alone, lexing the laid-out text gives back the token list. -/
theorem lex_renderWith (st : Style) (sp : Token → Token → Bool) (hsp : SafePolicy sp) (ts : List Token)
    (hall : allTokOk ts = true) (hfl : ∀ b, Token.float b ∈ ts → FmtOk st.fmt b) :
    lex (renderWith st sp ts) = some ts :=
  lex_renderGaps st ts (gapsOf sp ts) (renderable_of_policy st sp hsp ts hall hfl) hfl

theorem mustSep_safe : SafePolicy mustSep := by
  refine ⟨fun _ _ h => h, ?_⟩
  intro a b h
  rcases h with h | h
  · subst h; cases b <;> rfl
  · subst h; cases a <;> rfl

/-- **THE THEOREM (canonical layout)**: `lex (render ts) = ts`. -/
theorem lex_render (st : Style) (ts : List Token) (hall : allTokOk ts = true)
    (hfl : ∀ b, Token.float b ∈ ts → FmtOk st.fmt b) : lex (render st ts) = some ts :=
  lex_renderWith st mustSep mustSep_safe ts hall hfl


/-! ### general layouts (`renderForms`): spelling variants for `NewLine` and `Indentation` -/

theorem renderTokenV_other (st : Style) (a : Nat) (t : Token) (h1 : t ≠ .newLine) (h2 : t ≠ .indentation) :
    renderTokenV st a t = renderToken st t := by
  cases t <;> first | rfl | exact absurd rfl h1 | exact absurd rfl h2

theorem dropWhile_replicate_nl (k : Nat) (rest : List Char) (h : rest.head? ≠ some '\n') :
    (List.replicate k '\n' ++ rest).dropWhile (· == '\n') = rest := by
  induction k with
  | zero =>
    cases rest with
    | nil => rfl
    | cons c r =>
      have : c ≠ '\n' := by simpa using h
      have hb : (c == '\n') = false := by simp [this]
      simp [List.dropWhile, hb]
  | succ k ih => simp [List.replicate_succ, List.dropWhile, ih]

theorem lexToken_renderV (st : Style) (a : Nat) (t : Token) (rest : List Char) (hok : tokOk t = true)
    (hf : ∀ b, t = .float b → FmtOk st.fmt b) (hstop : stopOk t rest = true) :
    lexToken (renderTokenV st a t ++ rest) = .ok t rest := by
  by_cases h1 : t = .newLine
  · subst h1
    have hh : rest.head? ≠ some '\n' := by simpa [stopOk] using hstop
    simp only [renderTokenV, List.replicate_succ, List.cons_append]
    have e1 : lexComment ('\n' :: (List.replicate a '\n' ++ rest)) = .error := rfl
    have e2 : lexPunctuation ('\n' :: (List.replicate a '\n' ++ rest)) =
        .ok .newLine ((List.replicate a '\n' ++ rest).dropWhile (· == '\n')) := rfl
    simp [lexToken, Res.orElse, e1, e2, dropWhile_replicate_nl a rest hh]
  · by_cases h2 : t = .indentation
    · subst h2
      simp only [renderTokenV]
      split <;> rfl
    · rw [renderTokenV_other st a t h1 h2]
      exact lexToken_render st t rest hok hf hstop

theorem renderTokenV_first (st : Style) (a : Nat) (u : Token) (hok : tokOk u = true)
    (hf : ∀ b, u = .float b → FmtOk st.fmt b) (hni : u ≠ .indentation) :
    ∃ c r, renderTokenV st a u = c :: r ∧ c ≠ ' ' ∧ c ≠ '\t' ∧
      (startsWordOrNumber u = false → isEnd c = false ∧ c ≠ '.') ∧
      (startsWordOrNumber u = false → u ≠ .operator .minus → c ≠ '-') ∧
      (u ≠ .newLine → c ≠ '\n') := by
  by_cases h1 : u = .newLine
  · subst h1
    exact ⟨'\n', List.replicate a '\n', by simp [renderTokenV, List.replicate_succ], by decide, by decide,
      fun _ => by decide, fun _ _ => by decide, fun h => absurd rfl h⟩
  · rw [renderTokenV_other st a u h1 hni]
    obtain ⟨c, r, hh, hb, hc, hd⟩ := renderToken_first st u hok hf hni
    obtain ⟨c', r', hh', h1', h2'⟩ := renderToken_head st u hok hf hni
    rw [hh] at hh'
    injection hh' with e1 e2
    subst e1
    exact ⟨c, r, hh, h1', h2', hb, hc, hd⟩

theorem lexItem_indentationV (st : Style) (a : Nat) (rest : List Char) :
    lexItem (renderTokenV st a .indentation ++ rest) = .ok .indentation rest := by
  simp only [renderTokenV]
  split <;> rfl

theorem renderTokenV_ne_nil (st : Style) (a : Nat) (t : Token) (hok : tokOk t = true)
    (hf : ∀ b, t = .float b → FmtOk st.fmt b) : renderTokenV st a t ≠ [] := by
  by_cases hi : t = .indentation
  · subst hi; simp only [renderTokenV]; split <;> simp
  · obtain ⟨c, r, hh, _⟩ := renderTokenV_first st a t hok hf hi
    rw [hh]; simp

theorem lexItem_renderV (st : Style) (a : Nat) (t : Token) (pre : Bool) (rest : List Char)
    (hok : tokOk t = true) (hf : ∀ b, t = .float b → FmtOk st.fmt b) (hstop : stopOk t rest = true)
    (hpre : pre = true → t ≠ .indentation) :
    lexItem (gapText pre ++ (renderTokenV st a t ++ rest)) = .ok t rest := by
  by_cases hi : t = .indentation
  · subst hi
    have : pre = false := by cases pre <;> simp_all
    subst this
    simpa [gapText] using lexItem_indentationV st a rest
  · obtain ⟨c, r, hh, h1, h2, _⟩ := renderTokenV_first st a t hok hf hi
    have hl := lexToken_renderV st a t rest hok hf hstop
    rw [hh] at hl ⊢
    obtain ⟨e1, e2⟩ := lexItem_of_head c (r ++ rest) h1 h2
    cases pre
    · simpa [gapText, e1] using hl
    · simpa [gapText, e2] using hl

theorem lexMany_renderForms (st : Style) : ∀ (ts : List Token) (fs : List Form) (fuel : Nat),
    renderableF st ts fs = true → (∀ b, Token.float b ∈ ts → FmtOk st.fmt b) →
    (renderForms st ts fs).length ≤ fuel →
    lexMany fuel (renderForms st ts fs) = .ok ts [] := by
  intro ts
  induction ts with
  | nil => intro fs fuel _ _ _; simp [renderForms, lexMany_nil]
  | cons t ts ih =>
    intro fs fuel hren hfl hfuel
    have hft : ∀ b, t = .float b → FmtOk st.fmt b := fun b e => hfl b (by simp [e])
    simp only [renderableF, Bool.and_eq_true] at hren
    obtain ⟨⟨⟨hok, hgap⟩, hstop⟩, hrest⟩ := hren
    have hne := renderTokenV_ne_nil st (headForm fs).alt t hok hft
    have hpre : (headForm fs).gap = true → t ≠ .indentation := by
      intro hg
      simpa [hg] using hgap
    have hitem := lexItem_renderV st (headForm fs).alt t (headForm fs).gap (renderForms st ts fs.tail)
      hok hft hstop hpre
    simp only [renderForms] at hfuel ⊢
    have hlen : (renderForms st ts fs.tail).length <
        (gapText (headForm fs).gap ++
          (renderTokenV st (headForm fs).alt t ++ renderForms st ts fs.tail)).length := by
      cases hr : renderTokenV st (headForm fs).alt t with
      | nil => exact absurd hr hne
      | cons c r => simp; omega
    cases fuel with
    | zero => omega
    | succ f =>
      have hrec := ih fs.tail f hrest (fun b hb => hfl b (by simp [hb])) (by omega)
      exact lexMany_step f _ _ t ts [] hitem hlen hrec

/-- **THE THEOREM (general layout)**: for every token list of any length and every layout (a gap or not
before each token, blank lines, tab or four-space indentation) satisfying the decidable predicate
`renderableF`, with the NumTok hypothesis for the floats it contains, lexing the text gives back exactly
the token list. -/
theorem lex_renderForms (st : Style) (ts : List Token) (fs : List Form)
    (hren : renderableF st ts fs = true) (hfl : ∀ b, Token.float b ∈ ts → FmtOk st.fmt b) :
    lex (renderForms st ts fs) = some ts := by
  have h := lexMany_renderForms st ts fs (renderForms st ts fs).length hren hfl (Nat.le_refl _)
  simp [lex, h]


/-! ### non-vacuity -/

/-- the NumTok hypothesis is satisfiable: `1.5` is a spelling of the double 0x3FF8000000000000 -/
example : FmtOk (fun _ => "1.5".toList) 0x3FF8000000000000 := by
  refine ⟨⟨'1', ".5".toList, rfl, by decide, by decide⟩, ?_⟩
  intro rest hr
  have hd : QV.C05.numStop rest = true := by rw [← numStopB_eq]; exact hr
  have h := QV.C05.C05_real_literal "1".toList "5".toList true none rest (by decide) (by decide) (by simp)
    (by decide) (by simp) (Or.inl rfl) hd
  have e : QV.C05.realSpelling "1".toList true "5".toList none = "1.5".toList := by decide
  have hv : ¬ (2 ^ 64 ≤ QV.C05.Spec.posValue 10 (QV.C05.Spec.digitsOf "1".toList)) := by decide
  have hb : QV.DecF64.roundDec (QV.C05.realMantissa "1".toList "5".toList)
      (QV.C05.realExponent "5".toList none) = some 0x3FF8000000000000 := by decide
  rw [e] at h
  simp only [hv, if_false, hb] at h
  exact h

example : render ⟨fun _ => [], true⟩
    [.command .declare, .identifier "ro".toList, .dataType .bit, .lBracket, .integer 1, .rBracket, .newLine,
     .identifier "RX".toList, .lParenthesis, .operator .minus, .identifier "pi".toList, .operator .slash,
     .integer 2, .rParenthesis, .integer 0, .newLine, .indentation, .identifier "a".toList, .operator .minus,
     .variable "b".toList, .string "x\"y".toList] =
    "DECLARE ro BIT[1]\nRX(-pi/2)0\n\ta -%b\"x\\\"y\"".toList := by decide

end QV.Render
