/-
Shared (import-free): exact decimal → IEEE-754 binary64 rounding, as a *definition* of
"the real number m · 10^e rounded to the nearest double, ties to even", computed with exact `Nat`
arithmetic.  The result is the 64-bit pattern of the (non-negative) double, `none` when the rounded
value is not finite (overflow to +∞).

This is what the property texts mean by "reals rounded to nearest"; quil-rs obtains the same bits from
the `lexical` crate (Eisel–Lemire + big-integer fallback) and the harness additionally reports what
Rust's `str::parse::<f64>` returns: three independent implementations are compared bit-for-bit by the
correspondence checks (C05 and the lexer stream).
-/
namespace QV.DecF64

def two64 : Nat := 18446744073709551616
def two63 : Nat := 9223372036854775808
def two52 : Nat := 4503599627370496
def two53 : Nat := 9007199254740992

/-- number of decimal digits of `n` (0 for 0) -/
def decLen (n : Nat) : Nat := if n = 0 then 0 else (Nat.toDigits 10 n).length

/-- Round the exact rational `num / den` (`num > 0`, `den > 0`) to binary64, ties to even.
`q · 2^k` is the candidate with `2^52 ≤ q < 2^53` (normal) or `k = -1074` (subnormal). -/
def roundRat (num den : Nat) : Option Nat :=
  -- ⌊log2 (num/den)⌋ ∈ {lb - 1, lb}
  let lb : Int := (Nat.log2 num : Int) - (Nat.log2 den : Int)
  let quot (k : Int) : Nat × Nat × Nat :=      -- (⌊v / 2^k⌋, remainder, divisor)
    if k ≥ 0 then
      let d := den * 2 ^ k.toNat
      (num / d, num % d, d)
    else
      let n := num * 2 ^ (-k).toNat
      (n / den, n % den, den)
  let k0 : Int := lb - 52
  let k1 : Int := if (quot k0).1 < two52 then k0 - 1 else k0
  let k : Int := if k1 < -1074 then -1074 else k1
  let (q, r, d) := quot k
  let q' := if 2 * r > d ∨ (2 * r = d ∧ q % 2 = 1) then q + 1 else q
  -- a carry out of the 53-bit significand
  let (q'', k') : Nat × Int := if q' = two53 then (two52, k + 1) else (q', k)
  if q'' < two52 then some q''                       -- subnormal (or zero): biased exponent 0
  else
    let be : Int := k' + 1075                          -- biased exponent
    if be ≥ 2047 then none
    else some (be.toNat * two52 + (q'' - two52))

/-- bits of the double nearest to `m · 10^e` (ties to even); `none` = overflows to infinity. -/
def roundDec (m : Nat) (e : Int) : Option Nat :=
  if m = 0 then some 0
  else
    let d : Int := decLen m
    -- 10^(d-1) ≤ m < 10^d.  Shortcuts that keep the big-number arithmetic bounded:
    if d + e > 310 then none            -- value ≥ 10^310 > f64::MAX
    else if d + e < -330 then some 0    -- value < 10^-330 < 2^-1075 rounds to +0
    else if e ≥ 0 then roundRat (m * 10 ^ e.toNat) 1
    else roundRat m (10 ^ (-e).toNat)

/-- `u64 as f64` (round to nearest, ties to even) -/
def ofNat (n : Nat) : Nat := (roundDec n 0).getD 0

/-- `-x` on bit patterns (toggle the sign bit) -/
def negBits (b : Nat) : Nat := if b < two63 then b + two63 else b - two63

end QV.DecF64
