import QV.Shared.Expr
import QV.Shared.Token
/-
QV.Shared.Ast — the shared model of `quil_rs::instruction::Instruction` and ALL its payload types
(import-free apart from `QV.Shared.Expr` and `QV.Shared.Token`).  Built for C01 (parser model) and meant
to be reused by C02/C04 (print → re-parse round trip) and anything else that needs the full AST.

Conventions
* names are `String` (as in `QV.MemRef` / `QV.Expr.var`); the token model uses `List Char`, the parser
  model converts with `String.ofList`;
* `u64` fields are `Nat` (the producers guarantee `< 2^64`), `i64` fields are `Int`;
* `f64` values are the `Nat` of their IEEE-754 bits (`< 2^64`), never a Lean `Float`: structural equality
  of ASTs is then bit equality of numbers, decidable and usable in proofs;
* a `Complex64` is `CBits` = the two bit patterns; expressions inside instructions are the SHARED
  `QV.Expr` instantiated at `CBits`: `PExpr := Expr CBits`;
* `IndexMap<String, V>` (`WaveformParameters`, `FrameAttributes`) is an ordered association list
  `List (String × V)` with pairwise distinct keys (`IndexMap::from_iter` semantics are `indexMapCollect`:
  a later duplicate key overwrites the value and keeps the first position);
* `QubitPlaceholder` (an `Arc<()>` identity) and `TargetPlaceholder` (an `Arc<String>` identity) are
  numbered by first occurrence in the encoded value (harness/src/ast.rs), as DESIGN.md 2.2 prescribes;
  the parser never produces them, the API-built programs of C04 do;
* the three payload structs that contain `Vec<Instruction>` (`CalibrationDefinition`,
  `MeasureCalibrationDefinition`, `CircuitDefinition`) are NOT separate Lean structures: Lean structures
  cannot be mutually recursive with an inductive type, so their fields are the arguments of the
  corresponding `Instruction` constructors (`identifier`, `instructions`, …, in the Rust field order).
  The identifiers (`CalibrationIdentifier`, `MeasureCalibrationIdentifier`) are ordinary structures.

Rust type ↔ Lean type (file under quil-rs/src/instruction/):
  qubit.rs        Qubit{Fixed,Placeholder,Variable}            Qubit
  control_flow.rs Target{Fixed,Placeholder}, Label, Jump, JumpWhen, JumpUnless
  declaration.rs  ScalarType, Vector, Offset, Sharing, Declaration, MemoryReference (= QV.MemRef), Load, Store
  classical.rs    Arithmetic(+Operand,+Operator), BinaryLogic(+BinaryOperand,+BinaryOperator), Comparison(+…),
                  Convert, Exchange, Move, UnaryLogic(+UnaryOperator)
  frame.rs        AttributeValue, FrameIdentifier, FrameDefinition, Capture, Pulse, RawCapture, SetFrequency,
                  SetPhase, SetScale, ShiftFrequency, ShiftPhase, SwapPhases
  waveform.rs     Waveform, WaveformDefinition, WaveformInvocation
  gate.rs         Gate, GateModifier, PauliGate, PauliTerm, PauliSum, GateSpecification, GateDefinition, GateType
  gate_sequence.rs DefGateSequence
  calibration.rs  CalibrationIdentifier, MeasureCalibrationIdentifier (+ the two definitions, see above)
  circuit.rs      CircuitDefinition (see above)
  measurement.rs  Measurement      reset.rs Reset      timing.rs Delay, Fence
  pragma.rs       Pragma, PragmaArgument, Include
  extern_call.rs  Call, UnresolvedCallArgument, ExternSignature, ExternParameter, ExternParameterType
  mod.rs:146      Instruction (42 variants, same order)
-/
namespace QV.Ast
open QV

/-- `num_complex::Complex64` as the IEEE-754 bit patterns of its two `f64` components. -/
structure CBits where
  re : Nat
  im : Nat
  deriving DecidableEq, Repr, Inhabited, Hashable

/-- bits of `0.0_f64` -/
def zeroBits : Nat := 0
/-- bits of `1.0_f64` -/
def oneBits : Nat := 0x3FF0000000000000

/-- `real!(x)` = `Complex64::new(x, 0.0)` -/
def CBits.real (x : Nat) : CBits := ⟨x, zeroBits⟩
/-- `imag!(x)` = `Complex64::new(0.0, x)` -/
def CBits.imag (x : Nat) : CBits := ⟨zeroBits, x⟩

/-- expressions as the parser produces them and the printer consumes them -/
abbrev PExpr := Expr CBits

/-! Decidable equality for the shared expression type at any scalar with decidable equality
(`QV.Shared.Expr` derives only `Repr`/`Inhabited`). -/
deriving instance DecidableEq for QV.Expr

/-- `Qubit` (qubit.rs:21).  `placeholder k`: the k-th distinct placeholder of the enclosing value. -/
inductive Qubit where
  | fixed (index : Nat)
  | placeholder (k : Nat)
  | variable (name : String)
  deriving DecidableEq, Repr, Inhabited

/-- `Target` (control_flow.rs:55).  `placeholder k base`: the k-th distinct target placeholder, with its
`base_label`. -/
inductive Target where
  | fixed (name : String)
  | placeholder (k : Nat) (baseLabel : String)
  deriving DecidableEq, Repr, Inhabited

/-- `ScalarType` (declaration.rs:30) -/
inductive ScalarType where
  | bit | integer | octet | real
  deriving DecidableEq, Repr, Inhabited

/-- `Vector` (declaration.rs:72) -/
structure Vector where
  dataType : ScalarType
  length : Nat
  deriving DecidableEq, Repr, Inhabited

/-- `Offset` (declaration.rs:131) -/
structure Offset where
  offset : Nat
  dataType : ScalarType
  deriving DecidableEq, Repr, Inhabited

/-- `Sharing` (declaration.rs:107) -/
structure Sharing where
  name : String
  offsets : List Offset
  deriving DecidableEq, Repr, Inhabited

/-- `Declaration` (declaration.rs:167) -/
structure Declaration where
  name : String
  size : Vector
  sharing : Option Sharing
  deriving DecidableEq, Repr, Inhabited

/-- `Load` (declaration.rs:320) -/
structure Load where
  destination : MemRef
  source : String
  offset : MemRef
  deriving DecidableEq, Repr, Inhabited

/-- `ArithmeticOperand` (classical.rs:67): `LiteralInteger(i64)`, `LiteralReal(f64)` (bits). -/
inductive ArithmeticOperand where
  | literalInteger (v : Int)
  | literalReal (bits : Nat)
  | memoryReference (r : MemRef)
  deriving DecidableEq, Repr, Inhabited

/-- `Store` (declaration.rs:360) -/
structure Store where
  destination : String
  offset : MemRef
  source : ArithmeticOperand
  deriving DecidableEq, Repr, Inhabited

/-- `ArithmeticOperator` (classical.rs:133) -/
inductive ArithmeticOperator where
  | add | subtract | divide | multiply
  deriving DecidableEq, Repr, Inhabited

/-- `Arithmetic` (classical.rs:24) -/
structure Arithmetic where
  operator : ArithmeticOperator
  destination : MemRef
  source : ArithmeticOperand
  deriving DecidableEq, Repr, Inhabited

/-- `BinaryOperand` (classical.rs:169) -/
inductive BinaryOperand where
  | literalInteger (v : Int)
  | memoryReference (r : MemRef)
  deriving DecidableEq, Repr, Inhabited

/-- `BinaryOperator` (classical.rs:202) -/
inductive BinaryOperator where
  | and | ior | xor | shl | shr | ashr
  deriving DecidableEq, Repr, Inhabited

/-- `BinaryLogic` (classical.rs:267) -/
structure BinaryLogic where
  operator : BinaryOperator
  destination : MemRef
  source : BinaryOperand
  deriving DecidableEq, Repr, Inhabited

/-- `Convert` (classical.rs:312) -/
structure Convert where
  destination : MemRef
  source : MemRef
  deriving DecidableEq, Repr, Inhabited

/-- `Move` (classical.rs:351) -/
structure Move where
  destination : MemRef
  source : ArithmeticOperand
  deriving DecidableEq, Repr, Inhabited

/-- `Exchange` (classical.rs:390) -/
structure Exchange where
  left : MemRef
  right : MemRef
  deriving DecidableEq, Repr, Inhabited

/-- `ComparisonOperand` (classical.rs:477) -/
inductive ComparisonOperand where
  | literalInteger (v : Int)
  | literalReal (bits : Nat)
  | memoryReference (r : MemRef)
  deriving DecidableEq, Repr, Inhabited

/-- `ComparisonOperator` (classical.rs:561) -/
inductive ComparisonOperator where
  | equal | greaterThanOrEqual | greaterThan | lessThanOrEqual | lessThan
  deriving DecidableEq, Repr, Inhabited

/-- `Comparison` (classical.rs:429) -/
structure Comparison where
  operator : ComparisonOperator
  destination : MemRef
  lhs : MemRef
  rhs : ComparisonOperand
  deriving DecidableEq, Repr, Inhabited

/-- `UnaryOperator` (classical.rs:637) -/
inductive UnaryOperator where
  | neg | not
  deriving DecidableEq, Repr, Inhabited

/-- `UnaryLogic` (classical.rs:600) -/
structure UnaryLogic where
  operator : UnaryOperator
  operand : MemRef
  deriving DecidableEq, Repr, Inhabited

/-- `AttributeValue` (frame.rs:31) -/
inductive AttributeValue where
  | string (s : String)
  | expression (e : PExpr)
  deriving DecidableEq, Repr, Inhabited

/-- `FrameIdentifier` (frame.rs:108) -/
structure FrameIdentifier where
  name : String
  qubits : List Qubit
  deriving DecidableEq, Repr, Inhabited

/-- `FrameDefinition` (frame.rs:65); `attributes : FrameAttributes = IndexMap<String, AttributeValue>`. -/
structure FrameDefinition where
  identifier : FrameIdentifier
  attributes : List (String × AttributeValue)
  deriving DecidableEq, Repr, Inhabited

/-- `WaveformInvocation` (waveform.rs:132); `parameters : WaveformParameters = IndexMap<String, Expression>`. -/
structure WaveformInvocation where
  name : String
  parameters : List (String × PExpr)
  deriving DecidableEq, Repr, Inhabited

/-- `Capture` (frame.rs:158) -/
structure Capture where
  blocking : Bool
  frame : FrameIdentifier
  memoryReference : MemRef
  waveform : WaveformInvocation
  deriving DecidableEq, Repr, Inhabited

/-- `Pulse` (frame.rs:212) -/
structure Pulse where
  blocking : Bool
  frame : FrameIdentifier
  waveform : WaveformInvocation
  deriving DecidableEq, Repr, Inhabited

/-- `RawCapture` (frame.rs:258) -/
structure RawCapture where
  blocking : Bool
  frame : FrameIdentifier
  duration : PExpr
  memoryReference : MemRef
  deriving DecidableEq, Repr, Inhabited

/-- `SetFrequency` (frame.rs:312) -/
structure SetFrequency where
  frame : FrameIdentifier
  frequency : PExpr
  deriving DecidableEq, Repr, Inhabited

/-- `SetPhase` (frame.rs:351) -/
structure SetPhase where
  frame : FrameIdentifier
  phase : PExpr
  deriving DecidableEq, Repr, Inhabited

/-- `SetScale` (frame.rs:390) -/
structure SetScale where
  frame : FrameIdentifier
  scale : PExpr
  deriving DecidableEq, Repr, Inhabited

/-- `ShiftFrequency` (frame.rs:429) -/
structure ShiftFrequency where
  frame : FrameIdentifier
  frequency : PExpr
  deriving DecidableEq, Repr, Inhabited

/-- `ShiftPhase` (frame.rs:468) -/
structure ShiftPhase where
  frame : FrameIdentifier
  phase : PExpr
  deriving DecidableEq, Repr, Inhabited

/-- `SwapPhases` (frame.rs:507) -/
structure SwapPhases where
  frame1 : FrameIdentifier
  frame2 : FrameIdentifier
  deriving DecidableEq, Repr, Inhabited

/-- `Waveform` (waveform.rs:30) -/
structure Waveform where
  matrix : List PExpr
  parameters : List String
  deriving DecidableEq, Repr, Inhabited

/-- `WaveformDefinition` (waveform.rs:59) -/
structure WaveformDefinition where
  name : String
  definition : Waveform
  deriving DecidableEq, Repr, Inhabited

/-- `GateModifier` (gate.rs:64) -/
inductive GateModifier where
  | controlled | dagger | forked
  deriving DecidableEq, Repr, Inhabited

/-- `Gate` (gate.rs:43) -/
structure Gate where
  name : String
  parameters : List PExpr
  qubits : List Qubit
  modifiers : List GateModifier
  deriving DecidableEq, Repr, Inhabited

/-- `PauliGate` (gate.rs:856) -/
inductive PauliGate where
  | i | x | y | z
  deriving DecidableEq, Repr, Inhabited

/-- `PauliTerm` (gate.rs:877) -/
structure PauliTerm where
  arguments : List (PauliGate × String)
  expression : PExpr
  deriving DecidableEq, Repr, Inhabited

/-- `PauliSum` (gate.rs:915) -/
structure PauliSum where
  arguments : List String
  terms : List PauliTerm
  deriving DecidableEq, Repr, Inhabited

/-- `DefGateSequence` (gate_sequence.rs:57) -/
structure DefGateSequence where
  qubits : List String
  gates : List Gate
  deriving DecidableEq, Repr, Inhabited

/-- `GateSpecification` (gate.rs:950) -/
inductive GateSpecification where
  | matrix (rows : List (List PExpr))
  | permutation (p : List Nat)
  | pauliSum (s : PauliSum)
  | sequence (s : DefGateSequence)
  deriving DecidableEq, Repr, Inhabited

/-- `GateType` (gate.rs:1296) -/
inductive GateType where
  | matrix | permutation | pauliSum | sequence
  deriving DecidableEq, Repr, Inhabited

/-- `GateDefinition` (gate.rs:1028) -/
structure GateDefinition where
  name : String
  parameters : List String
  specification : GateSpecification
  deriving DecidableEq, Repr, Inhabited

/-- `CalibrationIdentifier` (calibration.rs:99), Rust field order. -/
structure CalibrationIdentifier where
  modifiers : List GateModifier
  name : String
  parameters : List PExpr
  qubits : List Qubit
  deriving DecidableEq, Repr, Inhabited

/-- `MeasureCalibrationIdentifier` (calibration.rs:292) -/
structure MeasureCalibrationIdentifier where
  name : Option String
  qubit : Qubit
  target : Option String
  deriving DecidableEq, Repr, Inhabited

/-- `Measurement` (measurement.rs:22) -/
structure Measurement where
  name : Option String
  qubit : Qubit
  target : Option MemRef
  deriving DecidableEq, Repr, Inhabited

/-- `Reset` (reset.rs:22) -/
structure Reset where
  qubit : Option Qubit
  deriving DecidableEq, Repr, Inhabited

/-- `Delay` (timing.rs:21) -/
structure Delay where
  duration : PExpr
  frameNames : List String
  qubits : List Qubit
  deriving DecidableEq, Repr, Inhabited

/-- `Fence` (timing.rs:66) -/
structure Fence where
  qubits : List Qubit
  deriving DecidableEq, Repr, Inhabited

/-- `PragmaArgument` (pragma.rs:58) -/
inductive PragmaArgument where
  | identifier (s : String)
  | integer (n : Nat)
  deriving DecidableEq, Repr, Inhabited

/-- `Pragma` (pragma.rs:22) -/
structure Pragma where
  name : String
  arguments : List PragmaArgument
  data : Option String
  deriving DecidableEq, Repr, Inhabited

/-- `Include` (pragma.rs:91) -/
structure Include where
  filename : String
  deriving DecidableEq, Repr, Inhabited

/-- `UnresolvedCallArgument` (extern_call.rs:461) -/
inductive UnresolvedCallArgument where
  | identifier (s : String)
  | memoryReference (r : MemRef)
  | immediate (z : CBits)
  deriving DecidableEq, Repr, Inhabited

/-- `Call` (extern_call.rs:832) -/
structure Call where
  name : String
  arguments : List UnresolvedCallArgument
  deriving DecidableEq, Repr, Inhabited

/-- `ExternParameterType` (extern_call.rs:39) -/
inductive ExternParameterType where
  | scalar (t : ScalarType)
  | fixedLengthVector (v : Vector)
  | variableLengthVector (t : ScalarType)
  deriving DecidableEq, Repr, Inhabited

/-- `ExternParameter` (extern_call.rs:88) -/
structure ExternParameter where
  name : String
  mutable : Bool
  dataType : ExternParameterType
  deriving DecidableEq, Repr, Inhabited

/-- `ExternSignature` (extern_call.rs:164) -/
structure ExternSignature where
  returnType : Option ScalarType
  parameters : List ExternParameter
  deriving DecidableEq, Repr, Inhabited

/-- `Label` / `Jump` / `JumpWhen` / `JumpUnless` (control_flow.rs:28, 170, 205, 242) -/
structure Label where
  target : Target
  deriving DecidableEq, Repr, Inhabited
structure Jump where
  target : Target
  deriving DecidableEq, Repr, Inhabited
structure JumpWhen where
  target : Target
  condition : MemRef
  deriving DecidableEq, Repr, Inhabited
structure JumpUnless where
  target : Target
  condition : MemRef
  deriving DecidableEq, Repr, Inhabited

/-- `Instruction` (instruction/mod.rs:146-192), the 42 variants in source order.  The three variants with a
body carry the fields of their payload struct directly (see the file header). -/
inductive Instruction where
  | arithmetic (a : Arithmetic)
  | binaryLogic (b : BinaryLogic)
  /-- `CalibrationDefinition { identifier, instructions }` (calibration.rs:41) -/
  | calibrationDefinition (identifier : CalibrationIdentifier) (instructions : List Instruction)
  | call (c : Call)
  | capture (c : Capture)
  /-- `CircuitDefinition { name, parameters, qubit_variables, instructions }` (circuit.rs:24) -/
  | circuitDefinition (name : String) (parameters : List String) (qubitVariables : List String)
      (instructions : List Instruction)
  | convert (c : Convert)
  | comparison (c : Comparison)
  | declaration (d : Declaration)
  | delay (d : Delay)
  | exchange (e : Exchange)
  | fence (f : Fence)
  | frameDefinition (f : FrameDefinition)
  | gate (g : Gate)
  | gateDefinition (g : GateDefinition)
  | halt
  | include (i : Include)
  | jump (j : Jump)
  | jumpUnless (j : JumpUnless)
  | jumpWhen (j : JumpWhen)
  | label (l : Label)
  | load (l : Load)
  /-- `MeasureCalibrationDefinition { identifier, instructions }` (calibration.rs:240) -/
  | measureCalibrationDefinition (identifier : MeasureCalibrationIdentifier)
      (instructions : List Instruction)
  | measurement (m : Measurement)
  | move (m : Move)
  | nop
  | pragma (p : Pragma)
  | pulse (p : Pulse)
  | rawCapture (r : RawCapture)
  | reset (r : Reset)
  | setFrequency (s : SetFrequency)
  | setPhase (s : SetPhase)
  | setScale (s : SetScale)
  | shiftFrequency (s : ShiftFrequency)
  | shiftPhase (s : ShiftPhase)
  | store (s : Store)
  | swapPhases (s : SwapPhases)
  | unaryLogic (u : UnaryLogic)
  | waveformDefinition (w : WaveformDefinition)
  | wait
  deriving Repr, Inhabited

/- Boolean structural equality (`DecidableEq` cannot be derived for a type nested through `List`; every
payload type has `DecidableEq`).  Not proved lawful: use it in drivers and `#eval`s, state theorems with `=`. -/
deriving instance BEq for Instruction

/-- the variant's name as in the Rust enum (distribution tags, `instrgen::variant_name`) -/
def Instruction.variantName : Instruction → String
  | .arithmetic _ => "Arithmetic" | .binaryLogic _ => "BinaryLogic"
  | .calibrationDefinition _ _ => "CalibrationDefinition" | .call _ => "Call" | .capture _ => "Capture"
  | .circuitDefinition _ _ _ _ => "CircuitDefinition" | .convert _ => "Convert"
  | .comparison _ => "Comparison" | .declaration _ => "Declaration" | .delay _ => "Delay"
  | .exchange _ => "Exchange" | .fence _ => "Fence" | .frameDefinition _ => "FrameDefinition"
  | .gate _ => "Gate" | .gateDefinition _ => "GateDefinition" | .halt => "Halt" | .include _ => "Include"
  | .jump _ => "Jump" | .jumpUnless _ => "JumpUnless" | .jumpWhen _ => "JumpWhen" | .label _ => "Label"
  | .load _ => "Load" | .measureCalibrationDefinition _ _ => "MeasureCalibrationDefinition"
  | .measurement _ => "Measurement" | .move _ => "Move" | .nop => "Nop" | .pragma _ => "Pragma"
  | .pulse _ => "Pulse" | .rawCapture _ => "RawCapture" | .reset _ => "Reset"
  | .setFrequency _ => "SetFrequency" | .setPhase _ => "SetPhase" | .setScale _ => "SetScale"
  | .shiftFrequency _ => "ShiftFrequency" | .shiftPhase _ => "ShiftPhase" | .store _ => "Store"
  | .swapPhases _ => "SwapPhases" | .unaryLogic _ => "UnaryLogic"
  | .waveformDefinition _ => "WaveformDefinition" | .wait => "Wait"

/-- `IndexMap::insert` on an ordered association list: replace the value in place when the key is
present, append otherwise. -/
def indexMapInsert {V : Type} (m : List (String × V)) (k : String) (v : V) : List (String × V) :=
  match m with
  | [] => [(k, v)]
  | (k', v') :: rest => if k' = k then (k, v) :: rest else (k', v') :: indexMapInsert rest k v

/-- `iter.collect::<IndexMap<_, _>>()`: insert the pairs left to right. -/
def indexMapCollect {V : Type} (pairs : List (String × V)) : List (String × V) :=
  pairs.foldl (fun m kv => indexMapInsert m kv.1 kv.2) []

end QV.Ast
