import QV.Wire
import QV.Shared.Ast
/-
QV.Shared.AstWire — wire format of the full quil-rs AST (`QV.Shared.Ast`), both directions:
`encode… : Ast → Sexp` (model output → comparable with the implementation's output) and
`decode… : Sexp → Option Ast` (implementation values → model input, for C02/C04).
The Rust side is `harness/src/ast.rs`; the grammar is documented there and repeated here:

  qubit        (f N) | (ph K) | (v "name")
  target       (tf "name") | (tp K "base_label")
  memref       (ref "name" N)
  expr         (addr "n" N) | (call fn e) | (infix op l r) | (num xRE xIM) | (pi) | (prefix op e) | (var "n")
  scalar       BIT | INTEGER | OCTET | REAL
  vector       (vec scalar N)          offset (off N scalar)       sharing (sharing "name" (offset…))
  option       (none) | (some x)       bool  true | false
  operand      (int Z) | (real xBITS) | memref
  frame        (frame "name" (qubit…))
  invocation   (wf "name" (("key" expr)…))
  attribute    ("key" (s "string")) | ("key" (e expr))
  modifier     controlled | dagger | forked        gate (g "name" (expr…) (qubit…) (modifier…))
  pauli term   (term ((I|X|Y|Z "arg")…) expr)
  spec         (matrix ((expr…)…)) | (permutation (N…)) | (paulisum ("arg"…) (term…)) | (sequence ("q"…) (gate…))
  call arg     (id "x") | memref | (imm xRE xIM)    pragma arg (id "x") | (int N)
  extern       (sig option<scalar> (param…))   param (param "name" bool type)
               type (scalar scalar) | (fixed vector) | (variable scalar)
  instruction  (VariantName field…)

Numbers never pass through a Lean `Float`: `xBITS` ↔ `Nat` directly, so NaN payloads and signed zeros
survive.  `decode (encode x) = some x` and `encode <$> decode s = some s` on well-formed `s` (checked by
the C01 driver on every AST the implementation returns).
-/
namespace QV.AstWire
open QV QV.Ast

/-! ## atoms -/

private def hexDigit (n : Nat) : Char :=
  if n < 10 then Char.ofNat (48 + n) else Char.ofNat (87 + n)

private def hexVal (c : Char) : Option Nat :=
  if '0' ≤ c ∧ c ≤ '9' then some (c.toNat - 48)
  else if 'a' ≤ c ∧ c ≤ 'f' then some (c.toNat - 87)
  else if 'A' ≤ c ∧ c ≤ 'F' then some (c.toNat - 55)
  else none

/-- `x` followed by exactly 16 lower-case hex digits -/
def encodeBits (n : Nat) : Sexp :=
  let rec go : Nat → Nat → List Char → List Char
    | 0, _, acc => acc
    | k + 1, m, acc => go k (m / 16) (hexDigit (m % 16) :: acc)
  .atom (String.ofList ('x' :: go 16 n []))

def decodeBits : Sexp → Option Nat
  | .atom a =>
    match a.toList with
    | 'x' :: ds =>
      if ds.length != 16 then none
      else ds.foldl (fun acc c => match acc, hexVal c with
          | some v, some d => some (v * 16 + d)
          | _, _ => none) (some 0)
    | _ => none
  | _ => none

def encodeNat (n : Nat) : Sexp := .atom (toString n)
def encodeInt (z : Int) : Sexp := .atom (toString z)
def encodeBool (b : Bool) : Sexp := .atom (if b then "true" else "false")
def decodeBool : Sexp → Option Bool
  | .atom "true" => some true
  | .atom "false" => some false
  | _ => none

def encodeOpt {α : Type} (f : α → Sexp) : Option α → Sexp
  | none => .list [.atom "none"]
  | some x => .list [.atom "some", f x]
def decodeOpt {α : Type} (f : Sexp → Option α) : Sexp → Option (Option α)
  | .list [.atom "none"] => some none
  | .list [.atom "some", x] => (f x).map some
  | _ => none

/-- decode every element, failing if one fails -/
def decodeAll {α : Type} (f : Sexp → Option α) : List Sexp → Option (List α)
  | [] => some []
  | x :: xs =>
    match f x, decodeAll f xs with
    | some a, some as => some (a :: as)
    | _, _ => none

def decodeList {α : Type} (f : Sexp → Option α) : Sexp → Option (List α)
  | .list xs => decodeAll f xs
  | _ => none

def encodeStrings (xs : List String) : Sexp := .list (xs.map .str)
def decodeStrings : Sexp → Option (List String) := decodeList Sexp.asStr?

/-! ## expressions over `CBits` -/

def encodeFn : ExprFn → String
  | .cis => "cis" | .cos => "cos" | .exp => "exp" | .sin => "sin" | .sqrt => "sqrt"
def decodeFn : String → Option ExprFn
  | "cis" => some .cis | "cos" => some .cos | "exp" => some .exp | "sin" => some .sin | "sqrt" => some .sqrt
  | _ => none
def encodePrefixOp : PrefixOp → String
  | .plus => "plus" | .minus => "minus"
def decodePrefixOp : String → Option PrefixOp
  | "plus" => some .plus | "minus" => some .minus | _ => none
def encodeInfixOp : InfixOp → String
  | .caret => "caret" | .plus => "plus" | .minus => "minus" | .slash => "slash" | .star => "star"
def decodeInfixOp : String → Option InfixOp
  | "caret" => some .caret | "plus" => some .plus | "minus" => some .minus
  | "slash" => some .slash | "star" => some .star | _ => none

def encodeMemRef (r : MemRef) : Sexp := .list [.atom "ref", .str r.name, encodeNat r.index]
def decodeMemRef : Sexp → Option MemRef
  | .list [.atom "ref", .str n, .atom i] => i.toNat?.map fun i => ⟨n, i⟩
  | _ => none

def encodeExpr : PExpr → Sexp
  | .address r => .list [.atom "addr", .str r.name, encodeNat r.index]
  | .call f e => .list [.atom "call", .atom (encodeFn f), encodeExpr e]
  | .bin l o r => .list [.atom "infix", .atom (encodeInfixOp o), encodeExpr l, encodeExpr r]
  | .number z => .list [.atom "num", encodeBits z.re, encodeBits z.im]
  | .pi => .list [.atom "pi"]
  | .pre o e => .list [.atom "prefix", .atom (encodePrefixOp o), encodeExpr e]
  | .var x => .list [.atom "var", .str x]

def decodeExpr : Sexp → Option PExpr
  | .list [.atom "addr", .str n, .atom i] => i.toNat?.map fun i => .address ⟨n, i⟩
  | .list [.atom "call", .atom f, e] =>
    match decodeFn f, decodeExpr e with
    | some f, some e => some (.call f e)
    | _, _ => none
  | .list [.atom "infix", .atom o, l, r] =>
    match decodeInfixOp o, decodeExpr l, decodeExpr r with
    | some o, some l, some r => some (.bin l o r)
    | _, _, _ => none
  | .list [.atom "num", r, i] =>
    match decodeBits r, decodeBits i with
    | some r, some i => some (.number ⟨r, i⟩)
    | _, _ => none
  | .list [.atom "pi"] => some .pi
  | .list [.atom "prefix", .atom o, e] =>
    match decodePrefixOp o, decodeExpr e with
    | some o, some e => some (.pre o e)
    | _, _ => none
  | .list [.atom "var", .str x] => some (.var x)
  | _ => none

def encodeExprs (es : List PExpr) : Sexp := .list (es.map encodeExpr)
def decodeExprs : Sexp → Option (List PExpr) := decodeList decodeExpr

/-! ## leaves -/

def encodeQubit : Qubit → Sexp
  | .fixed n => .list [.atom "f", encodeNat n]
  | .placeholder k => .list [.atom "ph", encodeNat k]
  | .variable v => .list [.atom "v", .str v]
def decodeQubit : Sexp → Option Qubit
  | .list [.atom "f", .atom n] => n.toNat?.map .fixed
  | .list [.atom "ph", .atom k] => k.toNat?.map .placeholder
  | .list [.atom "v", .str v] => some (.variable v)
  | _ => none
def encodeQubits (qs : List Qubit) : Sexp := .list (qs.map encodeQubit)
def decodeQubits : Sexp → Option (List Qubit) := decodeList decodeQubit

def encodeTarget : Target → Sexp
  | .fixed n => .list [.atom "tf", .str n]
  | .placeholder k b => .list [.atom "tp", encodeNat k, .str b]
def decodeTarget : Sexp → Option Target
  | .list [.atom "tf", .str n] => some (.fixed n)
  | .list [.atom "tp", .atom k, .str b] => k.toNat?.map fun k => .placeholder k b
  | _ => none

def encodeScalar : ScalarType → Sexp
  | .bit => .atom "BIT" | .integer => .atom "INTEGER" | .octet => .atom "OCTET" | .real => .atom "REAL"
def decodeScalar : Sexp → Option ScalarType
  | .atom "BIT" => some .bit | .atom "INTEGER" => some .integer | .atom "OCTET" => some .octet
  | .atom "REAL" => some .real | _ => none

def encodeVector (v : Vector) : Sexp := .list [.atom "vec", encodeScalar v.dataType, encodeNat v.length]
def decodeVector : Sexp → Option Vector
  | .list [.atom "vec", t, .atom n] =>
    match decodeScalar t, n.toNat? with
    | some t, some n => some ⟨t, n⟩
    | _, _ => none
  | _ => none

def encodeOffset (o : Offset) : Sexp := .list [.atom "off", encodeNat o.offset, encodeScalar o.dataType]
def decodeOffset : Sexp → Option Offset
  | .list [.atom "off", .atom n, t] =>
    match n.toNat?, decodeScalar t with
    | some n, some t => some ⟨n, t⟩
    | _, _ => none
  | _ => none

def encodeSharing (s : Sharing) : Sexp :=
  .list [.atom "sharing", .str s.name, .list (s.offsets.map encodeOffset)]
def decodeSharing : Sexp → Option Sharing
  | .list [.atom "sharing", .str n, os] => (decodeList decodeOffset os).map fun os => ⟨n, os⟩
  | _ => none

def encodeArithmeticOperand : ArithmeticOperand → Sexp
  | .literalInteger v => .list [.atom "int", encodeInt v]
  | .literalReal b => .list [.atom "real", encodeBits b]
  | .memoryReference r => encodeMemRef r
def decodeArithmeticOperand : Sexp → Option ArithmeticOperand
  | .list [.atom "int", .atom v] => v.toInt?.map .literalInteger
  | .list [.atom "real", b] => (decodeBits b).map .literalReal
  | s => (decodeMemRef s).map .memoryReference

def encodeComparisonOperand : ComparisonOperand → Sexp
  | .literalInteger v => .list [.atom "int", encodeInt v]
  | .literalReal b => .list [.atom "real", encodeBits b]
  | .memoryReference r => encodeMemRef r
def decodeComparisonOperand : Sexp → Option ComparisonOperand
  | .list [.atom "int", .atom v] => v.toInt?.map .literalInteger
  | .list [.atom "real", b] => (decodeBits b).map .literalReal
  | s => (decodeMemRef s).map .memoryReference

def encodeBinaryOperand : BinaryOperand → Sexp
  | .literalInteger v => .list [.atom "int", encodeInt v]
  | .memoryReference r => encodeMemRef r
def decodeBinaryOperand : Sexp → Option BinaryOperand
  | .list [.atom "int", .atom v] => v.toInt?.map .literalInteger
  | s => (decodeMemRef s).map .memoryReference

def encodeArithmeticOperator : ArithmeticOperator → Sexp
  | .add => .atom "add" | .subtract => .atom "subtract" | .divide => .atom "divide"
  | .multiply => .atom "multiply"
def decodeArithmeticOperator : Sexp → Option ArithmeticOperator
  | .atom "add" => some .add | .atom "subtract" => some .subtract | .atom "divide" => some .divide
  | .atom "multiply" => some .multiply | _ => none

def encodeBinaryOperator : BinaryOperator → Sexp
  | .and => .atom "and" | .ior => .atom "ior" | .xor => .atom "xor" | .shl => .atom "shl"
  | .shr => .atom "shr" | .ashr => .atom "ashr"
def decodeBinaryOperator : Sexp → Option BinaryOperator
  | .atom "and" => some .and | .atom "ior" => some .ior | .atom "xor" => some .xor
  | .atom "shl" => some .shl | .atom "shr" => some .shr | .atom "ashr" => some .ashr | _ => none

def encodeComparisonOperator : ComparisonOperator → Sexp
  | .equal => .atom "equal" | .greaterThanOrEqual => .atom "greaterThanOrEqual"
  | .greaterThan => .atom "greaterThan" | .lessThanOrEqual => .atom "lessThanOrEqual"
  | .lessThan => .atom "lessThan"
def decodeComparisonOperator : Sexp → Option ComparisonOperator
  | .atom "equal" => some .equal | .atom "greaterThanOrEqual" => some .greaterThanOrEqual
  | .atom "greaterThan" => some .greaterThan | .atom "lessThanOrEqual" => some .lessThanOrEqual
  | .atom "lessThan" => some .lessThan | _ => none

def encodeUnaryOperator : UnaryOperator → Sexp
  | .neg => .atom "neg" | .not => .atom "not"
def decodeUnaryOperator : Sexp → Option UnaryOperator
  | .atom "neg" => some .neg | .atom "not" => some .not | _ => none

def encodeFrame (f : FrameIdentifier) : Sexp := .list [.atom "frame", .str f.name, encodeQubits f.qubits]
def decodeFrame : Sexp → Option FrameIdentifier
  | .list [.atom "frame", .str n, qs] => (decodeQubits qs).map fun qs => ⟨n, qs⟩
  | _ => none

def encodeInvocation (w : WaveformInvocation) : Sexp :=
  .list [.atom "wf", .str w.name, .list (w.parameters.map fun kv => .list [.str kv.1, encodeExpr kv.2])]
def decodeInvocation : Sexp → Option WaveformInvocation
  | .list [.atom "wf", .str n, ps] =>
    (decodeList (fun
      | .list [.str k, e] => (decodeExpr e).map fun e => (k, e)
      | _ => none) ps).map fun ps => ⟨n, ps⟩
  | _ => none

def encodeAttribute (kv : String × AttributeValue) : Sexp :=
  .list [.str kv.1, match kv.2 with
    | .string s => .list [.atom "s", .str s]
    | .expression e => .list [.atom "e", encodeExpr e]]
def decodeAttribute : Sexp → Option (String × AttributeValue)
  | .list [.str k, .list [.atom "s", .str s]] => some (k, .string s)
  | .list [.str k, .list [.atom "e", e]] => (decodeExpr e).map fun e => (k, .expression e)
  | _ => none

def encodeModifier : GateModifier → Sexp
  | .controlled => .atom "controlled" | .dagger => .atom "dagger" | .forked => .atom "forked"
def decodeModifier : Sexp → Option GateModifier
  | .atom "controlled" => some .controlled | .atom "dagger" => some .dagger
  | .atom "forked" => some .forked | _ => none
def encodeModifiers (ms : List GateModifier) : Sexp := .list (ms.map encodeModifier)
def decodeModifiers : Sexp → Option (List GateModifier) := decodeList decodeModifier

def encodeGate (g : Gate) : Sexp :=
  .list [.atom "g", .str g.name, encodeExprs g.parameters, encodeQubits g.qubits, encodeModifiers g.modifiers]
def decodeGate : Sexp → Option Gate
  | .list [.atom "g", .str n, ps, qs, ms] =>
    match decodeExprs ps, decodeQubits qs, decodeModifiers ms with
    | some ps, some qs, some ms => some ⟨n, ps, qs, ms⟩
    | _, _, _ => none
  | _ => none

def encodePauliGate : PauliGate → String
  | .i => "I" | .x => "X" | .y => "Y" | .z => "Z"
def decodePauliGate : String → Option PauliGate
  | "I" => some .i | "X" => some .x | "Y" => some .y | "Z" => some .z | _ => none

def encodePauliTerm (t : PauliTerm) : Sexp :=
  .list [.atom "term", .list (t.arguments.map fun ga => .list [.atom (encodePauliGate ga.1), .str ga.2]),
    encodeExpr t.expression]
def decodePauliTerm : Sexp → Option PauliTerm
  | .list [.atom "term", as, e] =>
    match decodeList (fun
        | .list [.atom g, .str a] => (decodePauliGate g).map fun g => (g, a)
        | _ => none) as, decodeExpr e with
    | some as, some e => some ⟨as, e⟩
    | _, _ => none
  | _ => none

def encodeSpecification : GateSpecification → Sexp
  | .matrix rows => .list [.atom "matrix", .list (rows.map encodeExprs)]
  | .permutation p => .list [.atom "permutation", .list (p.map encodeNat)]
  | .pauliSum s => .list [.atom "paulisum", encodeStrings s.arguments, .list (s.terms.map encodePauliTerm)]
  | .sequence s => .list [.atom "sequence", encodeStrings s.qubits, .list (s.gates.map encodeGate)]
def decodeSpecification : Sexp → Option GateSpecification
  | .list [.atom "matrix", rows] => (decodeList decodeExprs rows).map .matrix
  | .list [.atom "permutation", p] => (decodeList Sexp.asNat? p).map .permutation
  | .list [.atom "paulisum", as, ts] =>
    match decodeStrings as, decodeList decodePauliTerm ts with
    | some as, some ts => some (.pauliSum ⟨as, ts⟩)
    | _, _ => none
  | .list [.atom "sequence", qs, gs] =>
    match decodeStrings qs, decodeList decodeGate gs with
    | some qs, some gs => some (.sequence ⟨qs, gs⟩)
    | _, _ => none
  | _ => none

def encodeCallArgument : UnresolvedCallArgument → Sexp
  | .identifier s => .list [.atom "id", .str s]
  | .memoryReference r => encodeMemRef r
  | .immediate z => .list [.atom "imm", encodeBits z.re, encodeBits z.im]
def decodeCallArgument : Sexp → Option UnresolvedCallArgument
  | .list [.atom "id", .str s] => some (.identifier s)
  | .list [.atom "imm", r, i] =>
    match decodeBits r, decodeBits i with
    | some r, some i => some (.immediate ⟨r, i⟩)
    | _, _ => none
  | s => (decodeMemRef s).map .memoryReference

def encodePragmaArgument : PragmaArgument → Sexp
  | .identifier s => .list [.atom "id", .str s]
  | .integer n => .list [.atom "int", encodeNat n]
def decodePragmaArgument : Sexp → Option PragmaArgument
  | .list [.atom "id", .str s] => some (.identifier s)
  | .list [.atom "int", .atom n] => n.toNat?.map .integer
  | _ => none

def encodeExternParameterType : ExternParameterType → Sexp
  | .scalar t => .list [.atom "scalar", encodeScalar t]
  | .fixedLengthVector v => .list [.atom "fixed", encodeVector v]
  | .variableLengthVector t => .list [.atom "variable", encodeScalar t]
def decodeExternParameterType : Sexp → Option ExternParameterType
  | .list [.atom "scalar", t] => (decodeScalar t).map .scalar
  | .list [.atom "fixed", v] => (decodeVector v).map .fixedLengthVector
  | .list [.atom "variable", t] => (decodeScalar t).map .variableLengthVector
  | _ => none

def encodeExternSignature (s : ExternSignature) : Sexp :=
  .list [.atom "sig", encodeOpt encodeScalar s.returnType,
    .list (s.parameters.map fun p =>
      .list [.atom "param", .str p.name, encodeBool p.mutable, encodeExternParameterType p.dataType])]
def decodeExternSignature : Sexp → Option ExternSignature
  | .list [.atom "sig", r, ps] =>
    match decodeOpt decodeScalar r, decodeList (fun
        | .list [.atom "param", .str n, m, t] =>
          match decodeBool m, decodeExternParameterType t with
          | some m, some t => some (⟨n, m, t⟩ : ExternParameter)
          | _, _ => none
        | _ => none) ps with
    | some r, some ps => some ⟨r, ps⟩
    | _, _ => none
  | _ => none

def encodeCalId (c : CalibrationIdentifier) : Sexp :=
  .list [.atom "calid", encodeModifiers c.modifiers, .str c.name, encodeExprs c.parameters,
    encodeQubits c.qubits]
def decodeCalId : Sexp → Option CalibrationIdentifier
  | .list [.atom "calid", ms, .str n, ps, qs] =>
    match decodeModifiers ms, decodeExprs ps, decodeQubits qs with
    | some ms, some ps, some qs => some ⟨ms, n, ps, qs⟩
    | _, _, _ => none
  | _ => none

def encodeMCalId (c : MeasureCalibrationIdentifier) : Sexp :=
  .list [.atom "mcalid", encodeOpt .str c.name, encodeQubit c.qubit, encodeOpt .str c.target]
def decodeMCalId : Sexp → Option MeasureCalibrationIdentifier
  | .list [.atom "mcalid", n, q, t] =>
    match decodeOpt Sexp.asStr? n, decodeQubit q, decodeOpt Sexp.asStr? t with
    | some n, some q, some t => some ⟨n, q, t⟩
    | _, _, _ => none
  | _ => none

/-! ## instructions -/

mutual
def encodeInstruction : Instruction → Sexp
  | .arithmetic a => .list [.atom "Arithmetic", encodeArithmeticOperator a.operator,
      encodeMemRef a.destination, encodeArithmeticOperand a.source]
  | .binaryLogic b => .list [.atom "BinaryLogic", encodeBinaryOperator b.operator,
      encodeMemRef b.destination, encodeBinaryOperand b.source]
  | .calibrationDefinition id is => .list [.atom "CalibrationDefinition", encodeCalId id,
      .list (encodeInstructions is)]
  | .call c => .list [.atom "Call", .str c.name, .list (c.arguments.map encodeCallArgument)]
  | .capture c => .list [.atom "Capture", encodeBool c.blocking, encodeFrame c.frame,
      encodeMemRef c.memoryReference, encodeInvocation c.waveform]
  | .circuitDefinition n ps qs is => .list [.atom "CircuitDefinition", .str n, encodeStrings ps,
      encodeStrings qs, .list (encodeInstructions is)]
  | .convert c => .list [.atom "Convert", encodeMemRef c.destination, encodeMemRef c.source]
  | .comparison c => .list [.atom "Comparison", encodeComparisonOperator c.operator,
      encodeMemRef c.destination, encodeMemRef c.lhs, encodeComparisonOperand c.rhs]
  | .declaration d => .list [.atom "Declaration", .str d.name, encodeVector d.size,
      encodeOpt encodeSharing d.sharing]
  | .delay d => .list [.atom "Delay", encodeExpr d.duration, encodeStrings d.frameNames,
      encodeQubits d.qubits]
  | .exchange e => .list [.atom "Exchange", encodeMemRef e.left, encodeMemRef e.right]
  | .fence f => .list [.atom "Fence", encodeQubits f.qubits]
  | .frameDefinition f => .list [.atom "FrameDefinition", encodeFrame f.identifier,
      .list (f.attributes.map encodeAttribute)]
  | .gate g => .list [.atom "Gate", encodeGate g]
  | .gateDefinition g => .list [.atom "GateDefinition", .str g.name, encodeStrings g.parameters,
      encodeSpecification g.specification]
  | .halt => .list [.atom "Halt"]
  | .include i => .list [.atom "Include", .str i.filename]
  | .jump j => .list [.atom "Jump", encodeTarget j.target]
  | .jumpUnless j => .list [.atom "JumpUnless", encodeTarget j.target, encodeMemRef j.condition]
  | .jumpWhen j => .list [.atom "JumpWhen", encodeTarget j.target, encodeMemRef j.condition]
  | .label l => .list [.atom "Label", encodeTarget l.target]
  | .load l => .list [.atom "Load", encodeMemRef l.destination, .str l.source, encodeMemRef l.offset]
  | .measureCalibrationDefinition id is => .list [.atom "MeasureCalibrationDefinition", encodeMCalId id,
      .list (encodeInstructions is)]
  | .measurement m => .list [.atom "Measurement", encodeOpt .str m.name, encodeQubit m.qubit,
      encodeOpt encodeMemRef m.target]
  | .move m => .list [.atom "Move", encodeMemRef m.destination, encodeArithmeticOperand m.source]
  | .nop => .list [.atom "Nop"]
  | .pragma p => .list [.atom "Pragma", .str p.name, .list (p.arguments.map encodePragmaArgument),
      encodeOpt .str p.data]
  | .pulse p => .list [.atom "Pulse", encodeBool p.blocking, encodeFrame p.frame,
      encodeInvocation p.waveform]
  | .rawCapture r => .list [.atom "RawCapture", encodeBool r.blocking, encodeFrame r.frame,
      encodeExpr r.duration, encodeMemRef r.memoryReference]
  | .reset r => .list [.atom "Reset", encodeOpt encodeQubit r.qubit]
  | .setFrequency s => .list [.atom "SetFrequency", encodeFrame s.frame, encodeExpr s.frequency]
  | .setPhase s => .list [.atom "SetPhase", encodeFrame s.frame, encodeExpr s.phase]
  | .setScale s => .list [.atom "SetScale", encodeFrame s.frame, encodeExpr s.scale]
  | .shiftFrequency s => .list [.atom "ShiftFrequency", encodeFrame s.frame, encodeExpr s.frequency]
  | .shiftPhase s => .list [.atom "ShiftPhase", encodeFrame s.frame, encodeExpr s.phase]
  | .store s => .list [.atom "Store", .str s.destination, encodeMemRef s.offset,
      encodeArithmeticOperand s.source]
  | .swapPhases s => .list [.atom "SwapPhases", encodeFrame s.frame1, encodeFrame s.frame2]
  | .unaryLogic u => .list [.atom "UnaryLogic", encodeUnaryOperator u.operator, encodeMemRef u.operand]
  | .waveformDefinition w => .list [.atom "WaveformDefinition", .str w.name,
      encodeExprs w.definition.matrix, encodeStrings w.definition.parameters]
  | .wait => .list [.atom "Wait"]
def encodeInstructions : List Instruction → List Sexp
  | [] => []
  | i :: is => encodeInstruction i :: encodeInstructions is
end

/-- the fields of a non-recursive instruction, `none` for the three block-bearing variants and on
malformed input -/
def decodeFlat (tag : String) (fields : List Sexp) : Option Instruction :=
  match tag, fields with
  | "Arithmetic", [o, d, s] =>
    match decodeArithmeticOperator o, decodeMemRef d, decodeArithmeticOperand s with
    | some o, some d, some s => some (.arithmetic ⟨o, d, s⟩)
    | _, _, _ => none
  | "BinaryLogic", [o, d, s] =>
    match decodeBinaryOperator o, decodeMemRef d, decodeBinaryOperand s with
    | some o, some d, some s => some (.binaryLogic ⟨o, d, s⟩)
    | _, _, _ => none
  | "Call", [.str n, as] => (decodeList decodeCallArgument as).map fun as => .call ⟨n, as⟩
  | "Capture", [b, f, m, w] =>
    match decodeBool b, decodeFrame f, decodeMemRef m, decodeInvocation w with
    | some b, some f, some m, some w => some (.capture ⟨b, f, m, w⟩)
    | _, _, _, _ => none
  | "Convert", [d, s] =>
    match decodeMemRef d, decodeMemRef s with
    | some d, some s => some (.convert ⟨d, s⟩)
    | _, _ => none
  | "Comparison", [o, d, l, r] =>
    match decodeComparisonOperator o, decodeMemRef d, decodeMemRef l, decodeComparisonOperand r with
    | some o, some d, some l, some r => some (.comparison ⟨o, d, l, r⟩)
    | _, _, _, _ => none
  | "Declaration", [.str n, v, s] =>
    match decodeVector v, decodeOpt decodeSharing s with
    | some v, some s => some (.declaration ⟨n, v, s⟩)
    | _, _ => none
  | "Delay", [e, fs, qs] =>
    match decodeExpr e, decodeStrings fs, decodeQubits qs with
    | some e, some fs, some qs => some (.delay ⟨e, fs, qs⟩)
    | _, _, _ => none
  | "Exchange", [l, r] =>
    match decodeMemRef l, decodeMemRef r with
    | some l, some r => some (.exchange ⟨l, r⟩)
    | _, _ => none
  | "Fence", [qs] => (decodeQubits qs).map fun qs => .fence ⟨qs⟩
  | "FrameDefinition", [f, as] =>
    match decodeFrame f, decodeList decodeAttribute as with
    | some f, some as => some (.frameDefinition ⟨f, as⟩)
    | _, _ => none
  | "Gate", [g] => (decodeGate g).map .gate
  | "GateDefinition", [.str n, ps, s] =>
    match decodeStrings ps, decodeSpecification s with
    | some ps, some s => some (.gateDefinition ⟨n, ps, s⟩)
    | _, _ => none
  | "Halt", [] => some .halt
  | "Include", [.str f] => some (.include ⟨f⟩)
  | "Jump", [t] => (decodeTarget t).map fun t => .jump ⟨t⟩
  | "JumpUnless", [t, c] =>
    match decodeTarget t, decodeMemRef c with
    | some t, some c => some (.jumpUnless ⟨t, c⟩)
    | _, _ => none
  | "JumpWhen", [t, c] =>
    match decodeTarget t, decodeMemRef c with
    | some t, some c => some (.jumpWhen ⟨t, c⟩)
    | _, _ => none
  | "Label", [t] => (decodeTarget t).map fun t => .label ⟨t⟩
  | "Load", [d, .str s, o] =>
    match decodeMemRef d, decodeMemRef o with
    | some d, some o => some (.load ⟨d, s, o⟩)
    | _, _ => none
  | "Measurement", [n, q, t] =>
    match decodeOpt Sexp.asStr? n, decodeQubit q, decodeOpt decodeMemRef t with
    | some n, some q, some t => some (.measurement ⟨n, q, t⟩)
    | _, _, _ => none
  | "Move", [d, s] =>
    match decodeMemRef d, decodeArithmeticOperand s with
    | some d, some s => some (.move ⟨d, s⟩)
    | _, _ => none
  | "Nop", [] => some .nop
  | "Pragma", [.str n, as, d] =>
    match decodeList decodePragmaArgument as, decodeOpt Sexp.asStr? d with
    | some as, some d => some (.pragma ⟨n, as, d⟩)
    | _, _ => none
  | "Pulse", [b, f, w] =>
    match decodeBool b, decodeFrame f, decodeInvocation w with
    | some b, some f, some w => some (.pulse ⟨b, f, w⟩)
    | _, _, _ => none
  | "RawCapture", [b, f, e, m] =>
    match decodeBool b, decodeFrame f, decodeExpr e, decodeMemRef m with
    | some b, some f, some e, some m => some (.rawCapture ⟨b, f, e, m⟩)
    | _, _, _, _ => none
  | "Reset", [q] => (decodeOpt decodeQubit q).map fun q => .reset ⟨q⟩
  | "SetFrequency", [f, e] =>
    match decodeFrame f, decodeExpr e with
    | some f, some e => some (.setFrequency ⟨f, e⟩)
    | _, _ => none
  | "SetPhase", [f, e] =>
    match decodeFrame f, decodeExpr e with
    | some f, some e => some (.setPhase ⟨f, e⟩)
    | _, _ => none
  | "SetScale", [f, e] =>
    match decodeFrame f, decodeExpr e with
    | some f, some e => some (.setScale ⟨f, e⟩)
    | _, _ => none
  | "ShiftFrequency", [f, e] =>
    match decodeFrame f, decodeExpr e with
    | some f, some e => some (.shiftFrequency ⟨f, e⟩)
    | _, _ => none
  | "ShiftPhase", [f, e] =>
    match decodeFrame f, decodeExpr e with
    | some f, some e => some (.shiftPhase ⟨f, e⟩)
    | _, _ => none
  | "Store", [.str d, o, s] =>
    match decodeMemRef o, decodeArithmeticOperand s with
    | some o, some s => some (.store ⟨d, o, s⟩)
    | _, _ => none
  | "SwapPhases", [a, b] =>
    match decodeFrame a, decodeFrame b with
    | some a, some b => some (.swapPhases ⟨a, b⟩)
    | _, _ => none
  | "UnaryLogic", [o, m] =>
    match decodeUnaryOperator o, decodeMemRef m with
    | some o, some m => some (.unaryLogic ⟨o, m⟩)
    | _, _ => none
  | "WaveformDefinition", [.str n, m, ps] =>
    match decodeExprs m, decodeStrings ps with
    | some m, some ps => some (.waveformDefinition ⟨n, ⟨m, ps⟩⟩)
    | _, _ => none
  | "Wait", [] => some .wait
  | _, _ => none

mutual
def decodeInstruction : Sexp → Option Instruction
  | .list [.atom "CalibrationDefinition", id, .list body] =>
    match decodeCalId id, decodeInstructions body with
    | some id, some body => some (.calibrationDefinition id body)
    | _, _ => none
  | .list [.atom "MeasureCalibrationDefinition", id, .list body] =>
    match decodeMCalId id, decodeInstructions body with
    | some id, some body => some (.measureCalibrationDefinition id body)
    | _, _ => none
  | .list [.atom "CircuitDefinition", .str n, ps, qs, .list body] =>
    match decodeStrings ps, decodeStrings qs, decodeInstructions body with
    | some ps, some qs, some body => some (.circuitDefinition n ps qs body)
    | _, _, _ => none
  | .list (.atom tag :: fields) => decodeFlat tag fields
  | _ => none
def decodeInstructions : List Sexp → Option (List Instruction)
  | [] => some []
  | x :: xs =>
    match decodeInstruction x, decodeInstructions xs with
    | some i, some is => some (i :: is)
    | _, _ => none
end

def encodeInstructionList (is : List Instruction) : Sexp := .list (encodeInstructions is)
def decodeInstructionList : Sexp → Option (List Instruction)
  | .list xs => decodeInstructions xs
  | _ => none

end QV.AstWire
