import QV.C07.Model
import QV.Shared.Token
import QV.Shared.DecF64
/-
Shared lexer model (no Mathlib; imports only other QV model files).  Mirrors
quil-rs/src/parser/lexer/mod.rs function by function, same order of alternatives, over `List Char`.

nom's error discipline is modelled by `Res`: `error` is `nom::Err::Error` (recoverable: `alt`,
`many0`, `opt`, `peek` backtrack over it), `failure` is `nom::Err::Failure` (made by `cut` or
explicitly; it aborts the whole lex).  The distinction decides what is accepted, e.g. `0xg`, `1e`,
`18446744073709551616` are failures of the *whole input* rather than being re-lexed some other way.

The `lexical` crate (lexical-core 1.0.6, features `format`, `power-of-two`) is a dependency, not
quil-rs code; what is modelled is `parse_partial_with_options` for the four formats built by
`number_format` (lexer/mod.rs:250-278), derived by reading lexical-util/src/skip.rs,
lexical-parse-integer/src/algorithm.rs and lexical-parse-float/src/parse.rs:

* digit separators: integer and fraction digits use the "internal + trailing + consecutive" iterator
  (`peek_itc`), exponent digits the "all positions" iterator (`peek_iltc`).  `is_itc!(@internal)` is
  `true` once the component has produced a digit, and `is_itc!(@first)` is `true` when the nearest
  preceding non-separator byte exists and is not a digit.  In every context quil-rs reaches
  (decimal integer starting with a digit; after a `0x`/`0o`/`0b` prefix, whose leading `0` has already
  been counted by `skip_zeros`; after a decimal point; after `e`/`E` and the optional sign) this means:
  **a digit component is the maximal run of radix digits and `_`** (`numRun`), the cursor being
  left after trailing separators.  Consequences visible in quil-rs and mirrored here: `0x_` and `0b__`
  lex as `Integer 0`; `1._5` would be consumed by lexical as `1.5` (hence quil-rs's work-arounds: since c330f06 lexical is
  only shown the text up to the dot of a `._`, see `lexicalView`).
* the value of an integer is Horner's rule over the digits with `_` removed; a value ≥ 2^64 is
  `Error::Overflow` (which quil-rs turns into a Failure);
* the float grammar is  int-run? ( '.' frac-run )? ( [eE] [+-]? exp-run )?  with at least one mantissa
  digit (else `EmptyMantissa`) and, if the exponent marker is present, at least one exponent digit (else
  `EmptyExponent`); the decimal-to-binary rounding itself is NOT modelled from lexical's code: the model
  uses the exact definition `QV.DecF64.roundDec` and the correspondence check compares bits.
-/
namespace QV.Lex
open QV.Tok

/-- nom's `IResult` with the `Error`/`Failure` distinction (no `Incomplete`: complete parsers only). -/
inductive Res (α : Type) where
  | ok (v : α) (rest : List Char)
  | error
  | failure
  deriving Repr, DecidableEq, BEq

def Res.map {α β : Type} (f : α → β) : Res α → Res β
  | .ok v r => .ok (f v) r
  | .error => .error
  | .failure => .failure

/-- `nom::combinator::cut`: a recoverable error becomes a failure. -/
def Res.cut {α : Type} : Res α → Res α
  | .error => .failure
  | r => r

/-- `alt` over two parsers: only an `error` of the first lets the second run. -/
def Res.orElse {α : Type} (a : Res α) (b : Unit → Res α) : Res α :=
  match a with
  | .error => b ()
  | r => r

/-! ## character classes (lexer/mod.rs:202-212) -/

/-- `char::is_ascii_alphabetic` -/
def isAsciiAlpha (c : Char) : Bool :=
  (97 ≤ c.toNat && c.toNat ≤ 122) || (65 ≤ c.toNat && c.toNat ≤ 90)
/-- `char::is_ascii_digit` -/
def isAsciiDigit (c : Char) : Bool := 48 ≤ c.toNat && c.toNat ≤ 57
/-- `is_valid_identifier_leading_character` -/
def isLeading (c : Char) : Bool := isAsciiAlpha c || c == '_'
/-- `is_valid_identifier_end_character` -/
def isEnd (c : Char) : Bool := isLeading c || isAsciiDigit c
/-- `is_dash` -/
def isDash (c : Char) : Bool := c == '-'

/-- `take_while(p)` / `take_till(!p)` / `is_a`: the maximal prefix satisfying `p`, and the rest
(`List.span`, written structurally so that proofs can follow it). -/
def span (p : Char → Bool) : List Char → List Char × List Char
  | [] => ([], [])
  | c :: cs =>
    if p c then
      let (a, r) := span p cs
      (c :: a, r)
    else ([], c :: cs)

/-- `take_while1(p)`: the maximal non-empty prefix satisfying `p`. -/
def takeWhile1 (p : Char → Bool) (inp : List Char) : Option (List Char × List Char) :=
  match span p inp with
  | ([], _) => none
  | (a, r) => some (a, r)

/-! ## identifiers (lexer/mod.rs:214-243) -/

/-- `many0(pair(take_while1(is_dash), take_while1(is_valid_identifier_end_character)))`, recognised.
`fuel` bounds the number of groups (each consumes ≥ 2 characters; callers pass the input length). -/
def dashGroups : Nat → List Char → List Char × List Char
  | 0, inp => ([], inp)
  | fuel + 1, inp =>
    match takeWhile1 isDash inp with
    | none => ([], inp)
    | some (d, r1) =>
      match takeWhile1 isEnd r1 with
      | none => ([], inp)
      | some (w, r2) =>
        let (g, r3) := dashGroups fuel r2
        (d ++ w ++ g, r3)

/-- `lex_identifier_raw`: leading, middle, dash groups; the result is their concatenation. -/
def lexIdentifierRaw (inp : List Char) : Res (List Char) :=
  match takeWhile1 isLeading inp with
  | none => .error
  | some (leading, r1) =>
    let (middle, r2) := span isEnd r1
    let (groups, r3) := dashGroups r2.length r2
    .ok (leading ++ middle ++ groups) r3

/-- `lex_keyword_or_identifier` -/
def lexKeywordOrIdentifier (inp : List Char) : Res Token :=
  (lexIdentifierRaw inp).map keywordOrIdentifier

/-- `lex_target`: `@` then an identifier. -/
def lexTarget : List Char → Res Token
  | '@' :: r => (lexIdentifierRaw r).map Token.target
  | _ => .error

/-- `lex_variable`: `%` then an identifier. -/
def lexVariable : List Char → Res Token
  | '%' :: r => (lexIdentifierRaw r).map Token.variable
  | _ => .error

/-! ## comments, punctuation, operators, strings -/

/-- `lex_comment`: `#` then everything up to (not including) the next `\n`. -/
def lexComment : List Char → Res Token
  | '#' :: r => let (c, r') := span (· != '\n') r; .ok (.comment c) r'
  | _ => .error

/-- `recognize_newlines`: `alt((is_a("\n"), is_a("\r\n")))` — a run of `\n`, or else a run of
characters from `{\r, \n}` (so `\r` alone is a newline, and `\n\r\n` is two newline tokens). -/
def recognizeNewlines : List Char → Option (List Char)
  | '\n' :: r => some (r.dropWhile (· == '\n'))
  | '\r' :: r => some (r.dropWhile fun c => c == '\r' || c == '\n')
  | _ => none

/-- `lex_punctuation` (the four-space alternative cannot fire from `_lex`, which strips spaces first,
but it is part of the function). -/
def lexPunctuation (inp : List Char) : Res Token :=
  match inp with
  | '!' :: r => .ok .bang r
  | ':' :: r => .ok .colon r
  | ',' :: r => .ok .comma r
  | ' ' :: ' ' :: ' ' :: ' ' :: r => .ok .indentation r
  | '\t' :: r => .ok .indentation r
  | '[' :: r => .ok .lBracket r
  | '(' :: r => .ok .lParenthesis r
  | ']' :: r => .ok .rBracket r
  | ')' :: r => .ok .rParenthesis r
  | ';' :: r => .ok .semicolon r
  | _ =>
    match recognizeNewlines inp with
    | some r => .ok .newLine r
    | none => .error

/-- `lex_operator` -/
def lexOperator : List Char → Res Token
  | '^' :: r => .ok (.operator .caret) r
  | '-' :: r => .ok (.operator .minus) r
  | '+' :: r => .ok (.operator .plus) r
  | '/' :: r => .ok (.operator .slash) r
  | '*' :: r => .ok (.operator .star) r
  | _ => .error

/-- `lex_string` = `unescaped_quoted_string` (C07's model). -/
def lexString (inp : List Char) : Res Token :=
  match QV.C07.lexString inp with
  | some (s, r) => .ok (.string s) r
  | none => .error

/-! ## numbers (lexer/mod.rs:245-415) -/

/-- `char_to_valid_digit_const` for radices > 10 (and equal to it on digits for radices ≤ 10) -/
def digitOf (c : Char) : Nat :=
  let n := c.toNat
  if 48 ≤ n ∧ n ≤ 57 then n - 48            -- '0'..='9'
  else if 65 ≤ n ∧ n ≤ 90 then n - 65 + 10   -- 'A'..='Z'
  else if 97 ≤ n ∧ n ≤ 122 then n - 97 + 10  -- 'a'..='z'
  else 255

/-- `char_is_digit_const(c, radix)` for the radices 2, 8, 10, 16 -/
def isDigitIn (radix : Nat) (c : Char) : Bool := digitOf c < radix

/-- a character of a digit component: a digit of the radix or the separator `_` -/
def isNumChar (radix : Nat) (c : Char) : Bool := c == '_' || isDigitIn radix c

/-- the digit component at the head of the input: maximal run of digits and `_` (see file header) -/
def numRun (radix : Nat) (inp : List Char) : List Char × List Char := span (isNumChar radix) inp

/-- the digits of a run, separators removed, most significant first -/
def runDigits (run : List Char) : List Nat := (run.filter (· != '_')).map digitOf

/-- Horner's rule, as `lexical` accumulates: `value = value * radix + digit`. -/
def horner (radix : Nat) (ds : List Nat) : Nat := ds.foldl (fun acc d => acc * radix + d) 0

def two64 : Nat := 18446744073709551616

/-- `u64` range check of lexical's checked accumulation: `Error::Overflow` ⇒ quil-rs `Failure`. -/
def u64OrFailure (n : Nat) (rest : List Char) : Res Nat :=
  if n < two64 then .ok n rest else .failure

/-- ASCII lower-casing of the prefix letter (`tag_no_case`, `case_sensitive_base_prefix(false)`) -/
def lowerAscii (c : Char) : Char :=
  if 65 ≤ c.toNat ∧ c.toNat ≤ 90 then Char.ofNat (c.toNat + 32) else c

/-- `raw_lex_integer::<PREFIX, FORMAT>` for `PREFIX ≠ 0`: `peek(tag_no_case("0p"))` (recoverable), then
`cut(lex_and_parse_number)`: after the prefix at least one character of the digit run is required
(lexical's `Empty`, or quil-rs's `len == 2` work-around), overflow is a failure. -/
def lexRadixInteger (radix : Nat) (p : Char) : List Char → Res Nat
  | '0' :: c :: r =>
    if lowerAscii c = p then
      match numRun radix r with
      | ([], _) => .failure
      | (run, rest) => u64OrFailure (horner radix (runDigits run)) rest
    else .error
  | _ => .error

def lexBinaryInteger := lexRadixInteger 2 'b'
def lexOctalInteger := lexRadixInteger 8 'o'
def lexHexadecimalInteger := lexRadixInteger 16 'x'

/-- `lex_decimal_integer` = `raw_lex_integer::<0, …>`: no `cut`; not starting with a digit is a
recoverable error (lexical `Empty`), overflow is a failure. -/
def lexDecimalInteger : List Char → Res Nat
  | c :: r =>
    if isAsciiDigit c then
      let (run, rest) := numRun 10 (c :: r)
      u64OrFailure (horner 10 (runDigits run)) rest
    else .error
  | [] => .error

/-- The three components lexical's float parser consumes, as spelled. -/
structure FloatParts where
  intRun : List Char
  hasDot : Bool
  fracRun : List Char
  hasExp : Bool
  expNeg : Bool
  expRun : List Char
  deriving Repr, DecidableEq

/-- integer component of lexical's float parser: the digit run at the head when the input starts with a
digit (the only other way quil-rs calls it is on an input starting with `.`: empty integer part) -/
def floatIntPart (inp : List Char) : List Char × List Char :=
  match inp with
  | c :: _ => if isAsciiDigit c then numRun 10 inp else ([], inp)
  | [] => ([], inp)

/-- decimal point and fraction component: (has a point, fraction run, rest) -/
def floatFracPart (r1 : List Char) : Bool × List Char × List Char :=
  match r1 with
  | '.' :: r2 => (true, (numRun 10 r2).1, (numRun 10 r2).2)
  | _ => (false, [], r1)

/-- `parse_exponent_sign`: an optional `+` or `-` (the raw next byte, no separator skipping) -/
def expSign (r4 : List Char) : Bool × List Char :=
  match r4 with
  | '+' :: r5 => (false, r5)
  | '-' :: r5 => (true, r5)
  | _ => (false, r4)

/-- exponent component: `none` = `EmptyExponent` error; `some (none, r)` = no exponent marker;
`some (some (negative, run), r)` = marker, optional sign, digit run with at least one digit -/
def floatExpPart (r3 : List Char) : Option (Option (Bool × List Char) × List Char) :=
  match r3 with
  | e :: r4 =>
    if e = 'e' ∨ e = 'E' then
      let sgn := expSign r4
      let run := numRun 10 sgn.2
      if runDigits run.1 = [] then none                   -- EmptyExponent
      else some (some (sgn.1, run.1), run.2)
    else some (none, r3)
  | [] => some (none, r3)

/-- lexical `parse_partial::<f64, number_format(10, None)>` on an input that starts with a digit or `.`:
which characters are consumed and into which components.  `none` = lexical returns an error
(`EmptyMantissa`, `EmptyExponent`). -/
def floatExtent (inp : List Char) : Option (FloatParts × List Char) :=
  let ipr := floatIntPart inp
  let fr := floatFracPart ipr.2
  if runDigits ipr.1 ++ runDigits fr.2.1 = [] then none       -- EmptyMantissa
  else
    match floatExpPart fr.2.2 with
    | none => none
    | some (none, r) => some (⟨ipr.1, fr.1, fr.2.1, false, false, []⟩, r)
    | some (some (neg, ep), r) => some (⟨ipr.1, fr.1, fr.2.1, true, neg, ep⟩, r)

/-- mantissa (all integer and fraction digits) and decimal exponent denoted by the parts -/
def FloatParts.mantissa (p : FloatParts) : Nat := horner 10 (runDigits p.intRun ++ runDigits p.fracRun)
def FloatParts.exponent (p : FloatParts) : Int :=
  let e : Int := horner 10 (runDigits p.expRun)
  (if p.expNeg then -e else e) - ((runDigits p.fracRun).length : Int)

/-- bits of the f64 the parts denote (nearest, ties to even); `none` = not finite -/
def FloatParts.bits (p : FloatParts) : Option Nat := QV.DecF64.roundDec p.mantissa p.exponent

/-- a character of the "candidate" text of `lex_and_parse_number::parse` (since /repo commit c330f06):
`c.is_ascii_alphanumeric() || matches!(c, '_' | '.' | '+' | '-')` -/
def isCandChar (c : Char) : Bool :=
  isAsciiAlpha c || isAsciiDigit c || c == '_' || c == '.' || c == '+' || c == '-'

/-- length of the text shown to lexical when it is truncated: scanning the candidate (the maximal prefix of
candidate characters) from the left, the first `._` ends the visible text right after its dot.
`none` = no `._` in the candidate: lexical sees the whole input. -/
def viewLen? : List Char → Option Nat
  | '.' :: '_' :: _ => some 1
  | c :: cs => if isCandChar c then (viewLen? cs).map (· + 1) else none
  | [] => none

/-- the text `lex_and_parse_number::parse` hands to lexical (c330f06): "a digit separator may not lead the
fraction, so a number ends at the dot of a `._`" -/
def lexicalView (inp : List Char) : List Char :=
  match viewLen? inp with
  | some n => inp.take n
  | none => inp

/-- `lex_and_parse_number::<f64, …>`: lexical sees `lexicalView inp`; the consumed length is applied to the
original input.  The older work-around (lexer/mod.rs: when the consumed text contains `._` the literal is
re-parsed as the text up to and including the decimal point) is still in the code and kept here, although
the view makes it unreachable.  (The integer parsers go through the same function; a digit run never
contains `.`, so cutting the text right after a `.` cannot change what they consume — they are modelled
on the untruncated input.) -/
def lexAndParseFloat (inp : List Char) : Res FloatParts :=
  let v := lexicalView inp
  match floatExtent v with
  | none => .error
  | some (p, restV) =>
    match p.hasDot, p.fracRun with
    | true, '_' :: _ =>
      if runDigits p.intRun = [] then .error
      else .ok ⟨p.intRun, true, [], false, false, []⟩ (inp.drop (p.intRun.length + 1))
    | _, _ => .ok p (inp.drop (v.length - restV.length))

/-- the `parse_float` closure of `lex_decimal_number`: `cut`, then the finiteness check. -/
def parseFloatTok (inp : List Char) : Res Token :=
  match (lexAndParseFloat inp).cut with
  | .ok p rest =>
    match p.bits with
    | some b => .ok (.float b) rest
    | none => .failure
  | .error => .error
  | .failure => .failure

/-- `lex_decimal_number` -/
def lexDecimalNumber (inp : List Char) : Res Token :=
  match inp with
  | '.' :: _ => parseFloatTok inp
  | _ =>
    match lexDecimalInteger inp with
    | .ok n rest =>
      match rest with
      | c :: _ => if c = '.' ∨ c = 'e' ∨ c = 'E' then parseFloatTok inp else .ok (.integer n) rest
      | [] => .ok (.integer n) rest
    | .error => .error
    | .failure => .failure

/-- `lex_number`: binary | octal | hexadecimal | decimal -/
def lexNumber (inp : List Char) : Res Token :=
  ((lexBinaryInteger inp).map Token.integer).orElse fun _ =>
  ((lexOctalInteger inp).map Token.integer).orElse fun _ =>
  ((lexHexadecimalInteger inp).map Token.integer).orElse fun _ =>
  lexDecimalNumber inp

/-! ## tokens and the token stream (lexer/mod.rs:138-182) -/

/-- `lex_indent`: exactly four spaces, or a tab. -/
def lexIndent : List Char → Res Token
  | ' ' :: ' ' :: ' ' :: ' ' :: r => .ok .indentation r
  | '\t' :: r => .ok .indentation r
  | _ => .error

/-- `lex_token`: the eight alternatives in source order. -/
def lexToken (inp : List Char) : Res Token :=
  (lexComment inp).orElse fun _ =>
  (lexPunctuation inp).orElse fun _ =>
  (lexTarget inp).orElse fun _ =>
  (lexString inp).orElse fun _ =>
  (lexOperator inp).orElse fun _ =>
  (lexVariable inp).orElse fun _ =>
  (lexKeywordOrIdentifier inp).orElse fun _ =>
  lexNumber inp

/-- one iteration of the outer `many0`: `alt((lex_indent, preceded(many0(tag(" ")), lex_token)))` -/
def lexItem (inp : List Char) : Res Token :=
  (lexIndent inp).orElse fun _ => lexToken (inp.dropWhile (· == ' '))

/-- `many0(item)`: stop (successfully, un-consuming the failed attempt) at the first recoverable error,
propagate a failure; nom's guard against a parser that consumes nothing is kept, which also gives the
decreasing measure.  `fuel ≥ inp.length` is always enough (`lexMany_fuel`, C05/C06 props). -/
def lexMany : Nat → List Char → Res (List Token)
  | 0, inp => .ok [] inp
  | fuel + 1, inp =>
    match lexItem inp with
    | .ok t rest =>
      if rest.length < inp.length then
        match lexMany fuel rest with
        | .ok ts r => .ok (t :: ts) r
        | .error => .error
        | .failure => .failure
      else .error
    | .error => .ok [] inp
    | .failure => .failure

/-- `many0(one_of("\n\t "))` -/
def isTrailingWs (c : Char) : Bool := c == '\n' || c == '\t' || c == ' '

/-- `lex` = `all_consuming(_lex)`: `some tokens`, or `none` for any lexing error. -/
def lex (inp : List Char) : Option (List Token) :=
  match lexMany inp.length inp with
  | .ok ts rest => if rest.dropWhile isTrailingWs = [] then some ts else none
  | _ => none

end QV.Lex
