import QV.Wire
import QV.Shared.Lex
/-!
Shared driver-side helpers for the lexer correspondence: the wire encoding of `Token`s (must match
`harness/src/lexwire.rs`) and the generic handler for `(lex "text")` cases.
-/
namespace QV.LexWire
open QV QV.Tok

private def hexDigit (n : Nat) : Char :=
  if n < 10 then Char.ofNat (48 + n) else Char.ofNat (87 + n)

/-- `x` followed by exactly 16 lower-case hex digits -/
def hex64 (n : Nat) : String :=
  let rec go : Nat → Nat → List Char → List Char
    | 0, _, acc => acc
    | k + 1, m, acc => go k (m / 16) (hexDigit (m % 16) :: acc)
  String.ofList ('x' :: go 16 n [])

def tokenSexp : Token → Sexp
  | .as => .atom "As" | .bang => .atom "Bang" | .colon => .atom "Colon" | .comma => .atom "Comma"
  | .command c => .list [.atom "Command", .str c.spelling]
  | .comment s => .list [.atom "Comment", .str (String.ofList s)]
  | .dataType t => .list [.atom "DataType", .str t.spelling]
  | .float b => .list [.atom "Float", .atom (hex64 b)]
  | .identifier s => .list [.atom "Identifier", .str (String.ofList s)]
  | .indentation => .atom "Indentation"
  | .integer n => .list [.atom "Integer", .atom (toString n)]
  | .target s => .list [.atom "Target", .str (String.ofList s)]
  | .lBracket => .atom "LBracket" | .lParenthesis => .atom "LParenthesis"
  | .nonBlocking => .atom "NonBlocking" | .matrix => .atom "Matrix"
  | .modifier m => .list [.atom "Modifier", .str m.spelling]
  | .mutable => .atom "Mutable" | .newLine => .atom "NewLine"
  | .operator o => .list [.atom "Operator", .str o.spelling]
  | .offset => .atom "Offset" | .pauliSum => .atom "PauliSum" | .permutation => .atom "Permutation"
  | .rBracket => .atom "RBracket" | .rParenthesis => .atom "RParenthesis"
  | .semicolon => .atom "Semicolon" | .sequence => .atom "Sequence" | .sharing => .atom "Sharing"
  | .string s => .list [.atom "String", .str (String.ofList s)]
  | .variable s => .list [.atom "Variable", .str (String.ofList s)]

/-- constructor name, for distribution tags -/
def tokenKind : Token → String
  | .command _ => "Command" | .comment _ => "Comment" | .dataType _ => "DataType" | .float _ => "Float"
  | .identifier _ => "Identifier" | .integer _ => "Integer" | .target _ => "Target"
  | .modifier _ => "Modifier" | .operator _ => "Operator" | .string _ => "String"
  | .variable _ => "Variable" | .indentation => "Indentation" | .newLine => "NewLine"
  | .as | .matrix | .mutable | .nonBlocking | .offset | .pauliSum | .permutation | .sequence
  | .sharing => "Keyword"
  | _ => "Punct"

def lexOutSexp : Option (List Token) → Sexp
  | some ts => .list (.atom "ok" :: ts.map tokenSexp)
  | none => .list [.atom "err"]

/-- the implementation panicked (`(crash "message")`): never acceptable for a lexer / parser -/
def isCrash (out : Sexp) : Bool :=
  match out with
  | .list [.atom "crash", .str _] => true
  | _ => false

/-- Handler for a `(lex "text")` case whose implementation output is `(ok tok…)` / `(err)`:
full token list (or error) compared with the model's.  `nontriv` decides non-triviality from the
text and the model's tokens. -/
def handleLex (text : String) (out : Sexp) (nontriv : String → Option (List Token) → Bool)
    (extraTags : List String := []) : CaseResult :=
  let m := QV.Lex.lex text.toList
  let mOut := lexOutSexp m
  let kinds := match m with
    | some ts => (ts.map tokenKind).eraseDups.map (fun k => s!"tok-{k}")
    | none => ["lex-err"]
  if isCrash out then
    { agree := false, specOk := false, nontrivial := true, tags := ["lex", "crash"],
      detail := s!"the lexer panicked: text={repr text} model={mOut} impl={out}" }
  else
  { agree := mOut == out, specOk := true, nontrivial := nontriv text m,
    tags := "lex" :: (kinds ++ extraTags), detail := s!"text={repr text} model={mOut} impl={out}" }

end QV.LexWire
