import QV.Shared.HandlerFromAst
import QV.Shared.SchedFrames
import QV.C26.Props
import QV.C27.Props
/-!
Composition of C26/C27 (what the default handler answers, PROVED against their specifications) with the
scheduling model: facts about `HandlerFromAst.answersOf` that let C22–C25 state their theorems with the access
and frame sets given by the C27 / C26 SPECIFICATIONS of the AST instruction instead of opaque handler answers.
-/
namespace QV.HandlerFromAst
open QV QV.Ast QV.Sched

/-! ### numbering -/

theorem indexIn_inj {α : Type} [DecidableEq α] : ∀ (l : List α) (a b : α), a ∈ l → b ∈ l →
    indexIn l a = indexIn l b → a = b := by
  intro l
  induction l with
  | nil => intro a b ha; simp at ha
  | cons x xs ih =>
    intro a b ha hb h
    simp only [indexIn] at h
    by_cases h1 : x = a
    · by_cases h2 : x = b
      · rw [← h1, ← h2]
      · simp [h1, h2] at h
        exact h
    · by_cases h2 : x = b
      · simp [h1, h2] at h
        exact h.symm
      · simp only [h1, h2, if_false, Nat.add_right_cancel_iff] at h
        rcases List.mem_cons.1 ha with rfl | ha
        · exact absurd rfl h1
        · rcases List.mem_cons.1 hb with rfl | hb
          · exact absurd rfl h2
          · exact ih a b ha hb h

/-! ### memory: the answers are C27's specification sets -/

/-- the signature map the handler is given (`unwrap_or_default` when the conversion failed: `build` then fails
with `Extern` before any instruction is looked at) -/
def sigsOf (p : AProgram) : C27.Sigs := p.sigs.getD []

/-- "instruction `i` performs an access of kind `k` to the region NAMED `r`", by C27's specification -/
def AccessesA (p : AProgram) (i : Ast.Instruction) (r : String) : Kind → Prop
  | .read => C27.Reads (sigsOf p) (toC27 i) r
  | .write => C27.Writes (sigsOf p) (toC27 i) r
  | .capture => C27.Captures (toC27 i) r

theorem accessNames_none (p : AProgram) (i : Ast.Instruction) :
    accessNames p i = none ↔ ¬ C27.Resolvable (sigsOf p) (toC27 i) := by
  have h := C27.C27_memoryAccesses_correct (sigsOf p) (toC27 i)
  unfold accessNames
  cases hm : C27.memoryAccesses (p.sigs.getD []) (toC27 i) with
  | error e =>
    have : C27.memoryAccesses (sigsOf p) (toC27 i) = .error e := hm
    rw [this] at h
    simpa [C27.Correct] using h
  | ok a =>
    have : C27.memoryAccesses (sigsOf p) (toC27 i) = .ok a := hm
    rw [this] at h
    simp only [C27.Correct] at h
    simp [h.1]

/-- when the handler succeeds, its three name lists are exactly C27's `Reads` / `Writes` / `Captures` -/
theorem accessNames_some (p : AProgram) (i : Ast.Instruction) (rs ws cs : List String)
    (h : accessNames p i = some (rs, ws, cs)) :
    ∀ r k, AccessesA p i r k ↔ r ∈ (match k with | .read => rs | .write => ws | .capture => cs) := by
  have hc := C27.C27_memoryAccesses_correct (sigsOf p) (toC27 i)
  unfold accessNames at h
  cases hm : C27.memoryAccesses (p.sigs.getD []) (toC27 i) with
  | error e => simp [hm] at h
  | ok a =>
    have hm' : C27.memoryAccesses (sigsOf p) (toC27 i) = .ok a := hm
    rw [hm'] at hc
    simp only [C27.Correct] at hc
    simp only [hm, Option.some.injEq, Prod.mk.injEq] at h
    obtain ⟨rfl, rfl, rfl⟩ := h
    intro r k
    cases k
    · simp only [AccessesA, C26.mem_dedup]; exact (hc.2.1 r).symm
    · simp only [AccessesA, C26.mem_dedup]; exact (hc.2.2.1 r).symm
    · simp only [AccessesA, C26.mem_dedup]; exact (hc.2.2.2 r).symm

/-- the memory accesses of the answer record, in terms of names -/
theorem mem_memAccesses_answers (p : AProgram) (i : Ast.Instruction) (x : Nat × Kind) :
    x ∈ memAccesses (answersOf p i) ↔
      ∃ rs ws cs, accessNames p i = some (rs, ws, cs) ∧
        ∃ r, x.1 = regionId p r ∧ r ∈ (match x.2 with | .read => rs | .write => ws | .capture => cs) := by
  obtain ⟨n, k⟩ := x
  cases ha : accessNames p i with
  | none => simp [memAccesses, answersOf, answersWith, ha]
  | some t =>
    obtain ⟨rs, ws, cs⟩ := t
    simp only [memAccesses, answersOf, answersWith, ha, Option.map_some, Option.getD_some, List.mem_append, List.mem_map,
      Prod.mk.injEq, Option.some.injEq, exists_and_left]
    constructor
    · rintro ((⟨a, ⟨r, hr, rfl⟩, rfl, rfl⟩ | ⟨a, ⟨r, hr, rfl⟩, rfl, rfl⟩) | ⟨a, ⟨r, hr, rfl⟩, rfl, rfl⟩)
      · exact ⟨rs, ws, cs, ⟨rfl, rfl, rfl⟩, r, rfl, hr⟩
      · exact ⟨rs, ws, cs, ⟨rfl, rfl, rfl⟩, r, rfl, hr⟩
      · exact ⟨rs, ws, cs, ⟨rfl, rfl, rfl⟩, r, rfl, hr⟩
    · rintro ⟨rs', ws', cs', ⟨rfl, rfl, rfl⟩, r, hn, hr⟩
      subst hn
      cases k
      · exact .inl (.inl ⟨_, ⟨r, hr, rfl⟩, rfl, rfl⟩)
      · exact .inl (.inr ⟨_, ⟨r, hr, rfl⟩, rfl, rfl⟩)
      · exact .inr ⟨_, ⟨r, hr, rfl⟩, rfl, rfl⟩

/-- every name an instruction of a block accesses is in the universe the numbering is taken from -/
theorem mem_universe (p : AProgram) (ab : ABlock) (hab : ab ∈ astBlocks p) (i : Ast.Instruction)
    (hi : i ∈ ab.all) (rs ws cs : List String) (h : accessNames p i = some (rs, ws, cs)) (r : String)
    (hr : r ∈ rs ∨ r ∈ ws ∨ r ∈ cs) : r ∈ regionUniverse p := by
  simp only [regionUniverse, List.mem_flatMap]
  refine ⟨ab, hab, i, hi, ?_⟩
  rw [h]
  simp only [List.mem_append]
  rcases hr with hr | hr | hr
  · exact .inl (.inl hr)
  · exact .inl (.inr hr)
  · exact .inr hr

/-! ### frames: the answers are C26's specification sets -/

/-- "`i` uses the DEFINED frame `f`" / "`i` blocks the defined frame `f`", by C26's specification -/
def FrameAccessA (p : AProgram) (i : Ast.Instruction) (f : C26.Frame) : Kind → Prop
  | .write => f ∈ definedFrames p ∧ C26.UsedBy (C26.usedQubits (c26Prog p)) (toC26 i) f
  | .read => f ∈ definedFrames p ∧ C26.BlockedBy (C26.usedQubits (c26Prog p)) (toC26 i) f
  | .capture => False

theorem definedFrames_nodup (p : AProgram) : (definedFrames p).Nodup := C26.nodup_dedup _

theorem role_rf_iff (i : Ast.Instruction) : role i = .rf ↔ C26.IsFrameInstr (toC26 i) := by
  cases i <;> simp [role, toC26, C26.IsFrameInstr]

/-- the frame accesses of the answer record are exactly C26's `UsedBy` (as uses) and `BlockedBy` (as blocks) of
defined frames -/
theorem mem_frameAccesses_answersWith (rid : String → Nat) (p : AProgram) (i : Ast.Instruction) (x : Nat × Kind) :
    x ∈ frameAccesses (answersWith rid p i) ↔ ∃ f, x.1 = frameId p f ∧ FrameAccessA p i f x.2 := by
  have hc := C26.C26_matchingFrames_correct (c26Prog p) (toC26 i)
  obtain ⟨n, k⟩ := x
  by_cases hr : role i = .rf
  · have hsome : (matchedFrames p i).isSome := hc.some_iff.2 ((role_rf_iff i).1 hr)
    obtain ⟨m, hm⟩ := Option.isSome_iff_exists.1 hsome
    have hu := hc.used m hm
    have hb := hc.blocked m hm
    simp only [frameAccesses, answersOf, answersWith, hr, hm, Option.map_some, List.mem_append, List.mem_map, Prod.mk.injEq,
      exists_and_left]
    constructor
    · rintro (⟨a, ⟨f, hf, rfl⟩, rfl, rfl⟩ | ⟨a, ⟨f, hf, rfl⟩, rfl, rfl⟩)
      · exact ⟨f, rfl, (hu f).1 hf⟩
      · exact ⟨f, rfl, (hb f).1 hf⟩
    · rintro ⟨f, hn, hf⟩
      subst hn
      cases k
      · exact .inr ⟨_, ⟨f, (hb f).2 hf, rfl⟩, rfl, rfl⟩
      · exact .inl ⟨_, ⟨f, (hu f).2 hf, rfl⟩, rfl, rfl⟩
      · exact absurd hf (by simp [FrameAccessA])
  · have hnone : matchedFrames p i = none := by
      cases hm : matchedFrames p i with
      | none => rfl
      | some m =>
        exfalso
        exact hr ((role_rf_iff i).2 (hc.some_iff.1 (by unfold matchedFrames at hm; simp [hm])))
    have hfa : frameAccesses (answersWith rid p i) = [] := by
      unfold frameAccesses
      split
      · rename_i h1 _
        simp only [answersOf, answersWith] at h1
        exact absurd h1 hr
      · rfl
    rw [hfa]
    simp only [List.not_mem_nil, false_iff]
    rintro ⟨f, _, hf⟩
    -- a non-RF instruction neither uses nor blocks anything
    have hni : ¬ C26.IsFrameInstr (toC26 i) := fun h => hr ((role_rf_iff i).2 h)
    have hall : ∀ avail g, ¬ C26.UsedBy avail (toC26 i) g ∧ ¬ C26.BlockedBy avail (toC26 i) g := by
      intro avail g
      cases hi : toC26 i <;> simp_all [C26.IsFrameInstr, C26.UsedBy, C26.BlockedBy]
    cases k
    · exact (hall _ f).2 hf.2
    · exact (hall _ f).1 hf.2
    · exact hf

theorem mem_frameAccesses_answers (p : AProgram) (i : Ast.Instruction) (x : Nat × Kind) :
    x ∈ frameAccesses (answersOf p i) ↔ ∃ f, x.1 = frameId p f ∧ FrameAccessA p i f x.2 :=
  mem_frameAccesses_answersWith _ p i x

/-- **C24's / C22's hypothesis is a theorem for the default handler**: the frames an instruction uses and blocks
are pairwise distinct after numbering -/
theorem answersWith_framesNodup (rid : String → Nat) (p : AProgram) (i : Ast.Instruction) :
    FramesNodup (answersWith rid p i) := by
  unfold FramesNodup frameAccesses
  split
  · rename_i fr _ hfr
    simp only [answersOf, answersWith] at hfr
    cases hm : matchedFrames p i with
    | none => simp [hm] at hfr
    | some m =>
      simp only [hm, Option.map_some, Option.some.injEq] at hfr
      subst hfr
      have hm' : C26.matchingFrames (c26Prog p) (toC26 i) = some m := hm
      obtain ⟨hnu, hnb⟩ := C26.C26_reported_nodup (c26Prog p) (toC26 i) m (definedFrames_nodup p) hm'
      have hdef : ∀ f, f ∈ m.used ∨ f ∈ m.blocked → f ∈ definedFrames p :=
        fun f hf => C26.C26_reported_frames_defined (c26Prog p) (toC26 i) m hm' f hf
      have hdis := C26.C26_used_blocked_disjoint (c26Prog p) (toC26 i) m hm'
      simp only [List.map_append, List.map_map]
      have hinj : ∀ (l : List C26.Frame), l.Nodup → (∀ f ∈ l, f ∈ definedFrames p) →
          (l.map (frameId p)).Nodup := by
        intro l hl hd
        induction l with
        | nil => simp
        | cons a as ih =>
          simp only [List.map_cons, List.nodup_cons] at hl ⊢
          refine ⟨?_, ih hl.2 (fun f hf => hd f (List.mem_cons_of_mem _ hf))⟩
          intro hin
          obtain ⟨b, hb, hab⟩ := List.mem_map.1 hin
          have := indexIn_inj _ b a (hd b (List.mem_cons_of_mem _ hb)) (hd a List.mem_cons_self) hab
          subst this
          exact hl.1 hb
      rw [List.nodup_append]
      refine ⟨?_, ?_, ?_⟩
      · have := hinj m.used hnu (fun f hf => hdef f (.inl hf))
        simpa [Function.comp_def] using this
      · have := hinj m.blocked hnb (fun f hf => hdef f (.inr hf))
        simpa [Function.comp_def] using this
      · intro a ha b hb hab
        simp only [List.mem_map, Function.comp] at ha hb
        obtain ⟨f, hf, rfl⟩ := ha
        obtain ⟨g, hg, rfl⟩ := hb
        have := indexIn_inj _ f g (hdef f (.inl hf)) (hdef g (.inr hg)) hab
        subst this
        exact hdis f ⟨hf, hg⟩
  · simp

theorem answers_framesNodup (p : AProgram) (i : Ast.Instruction) : FramesNodup (answersOf p i) :=
  answersWith_framesNodup _ p i

/-- the terminator instruction of a block is a control-flow instruction -/
theorem term_role (p : AProgram) (ab : ABlock) (hab : ab ∈ astBlocks p) (t : Ast.Instruction)
    (ht : ab.term = some t) : role t = .controlFlow := by
  simp only [astBlocks, List.mem_map] at hab
  obtain ⟨b, _, rfl⟩ := hab
  simp only at ht
  cases hb : b.term with
  | «continue» => simp [hb, termInstr] at ht
  | jump l => simp only [hb, termInstr, Option.some.injEq] at ht; subst ht; rfl
  | cond l c z => cases z <;> (simp only [hb, termInstr, Option.some.injEq] at ht; subst ht; rfl)
  | halt => simp only [hb, termInstr, Option.some.injEq] at ht; subst ht; rfl

/-! ### items -/

def enumFromA (k : Nat) : List Ast.Instruction → List (Node × Ast.Instruction)
  | [] => []
  | i :: is => (.instr k, i) :: enumFromA (k + 1) is

/-- the nodes of a block with their AST instruction -/
def ABlock.items (b : ABlock) : List (Node × Ast.Instruction) :=
  enumFromA 0 b.instrs ++ (match b.term with | some t => [(.stop, t)] | none => [])

theorem enumFrom_map (p : AProgram) : ∀ (is : List Ast.Instruction) (k : Nat),
    enumFrom k (is.map (answersOf p)) = (enumFromA k is).map fun x => (x.1, answersOf p x.2) := by
  intro is
  induction is with
  | nil => intro k; rfl
  | cons i is ih => intro k; simp [enumFrom, enumFromA, ih]

theorem schedBlock_items (p : AProgram) (ab : ABlock) :
    (schedBlock p ab).items = ab.items.map fun x => (x.1, answersOf p x.2) := by
  unfold Block.items ABlock.items schedBlock
  simp only [enumFrom_map, List.map_append]
  cases ab.term <;> simp

theorem mem_items_all {ab : ABlock} {x : Node × Ast.Instruction} (h : x ∈ ab.items) : x.2 ∈ ab.all := by
  unfold ABlock.items at h
  unfold ABlock.all
  rcases List.mem_append.1 h with h | h
  · apply List.mem_append_left
    have : ∀ (is : List Ast.Instruction) (k : Nat), x ∈ enumFromA k is → x.2 ∈ is := by
      intro is
      induction is with
      | nil => intro k h; simp [enumFromA] at h
      | cons i is ih =>
        intro k h
        simp only [enumFromA, List.mem_cons] at h
        rcases h with rfl | h
        · simp
        · exact List.mem_cons_of_mem _ (ih _ h)
    exact this _ _ h
  · apply List.mem_append_right
    cases ht : ab.term with
    | none => simp [ht] at h
    | some t => simp only [ht, List.mem_singleton] at h; subst h; simp

/-- C24/C22's `Hyp` holds of every block computed from an AST program -/
theorem schedBlock_hyp (p : AProgram) (ab : ABlock) (hab : ab ∈ astBlocks p) :
    (∀ q ∈ (schedBlock p ab).items, FramesNodup q.2) ∧
    (∀ t, (schedBlock p ab).term = some t → t.role = .controlFlow) := by
  constructor
  · intro q hq
    rw [schedBlock_items] at hq
    obtain ⟨x, _, rfl⟩ := List.mem_map.1 hq
    exact answers_framesNodup p x.2
  · intro t ht
    simp only [schedBlock, Option.map_eq_some_iff] at ht
    obtain ⟨t0, ht0, rfl⟩ := ht
    simp only [answersOf, answersWith]
    exact term_role p ab hab t0 ht0

/-- on success no instruction of the block had a failing `memory_accesses` -/
theorem runItems_noMemErr : ∀ (P : List (Node × Instr)) (st st' : St), runItems P st = .ok st' →
    ∀ q ∈ P, q.2.memErr = false := by
  intro P
  induction P with
  | nil => intro _ _ _ q hq; simp at hq
  | cons a rest ih =>
    intro st st' h q hq
    obtain ⟨n, ins⟩ := a
    simp only [runItems] at h
    split at h
    · rename_i st1 hst1
      rcases List.mem_cons.1 hq with rfl | hq
      · unfold stepInstr at hst1
        split at hst1
        · cases hst1
        · rename_i hne
          simpa using hne
      · exact ih st1 st' h q hq
    · cases h

theorem build_noMemErr (b : Block) (es : List Edge) (h : buildBlock b = .ok es) :
    ∀ q ∈ b.items, q.2.memErr = false := by
  unfold buildBlock at h
  split at h
  · rename_i st hst
    exact runItems_noMemErr _ _ _ hst
  · cases h

end QV.HandlerFromAst
