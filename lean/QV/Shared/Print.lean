import QV.Shared.Token
import QV.Shared.Ast
import QV.Shared.ExprPrint
/-
QV.Shared.Print — the TOKEN-LEVEL model of quil-rs's instruction / program printer (`Quil::write`), no
Mathlib, imports only other QV model files.  Built for C02 / C04 (print → re-parse round trips).

A printed text is modelled by the sequence of TOKENS the real lexer produces from it (the correspondence
checks C02 / C04 compare `verif_hooks::lex_tokens(x.to_quil())` with this model on every case), in two
steps that mirror how the text is put together:

* `toks F i` — the RAW tokens of `i.write(f, _)`: every `"\n"` the writers emit is one `newLine` token, every
  `INDENT` (four spaces) or `"\t"` one `indentation` token.  Raw token lists are what the writers
  concatenate.
* `collapseNL` — the lexer turns a RUN of `'\n'` characters into ONE `NewLine` token (`recognize_newlines`,
  lexer/mod.rs); the writers produce such runs where a text that itself ends in `"\n"` (DEFGATE, DEFCIRCUIT,
  DEFCAL MEASURE) is followed by `Program::write`'s own `writeln!`.  `printProgramTokens` is
  `collapseNL` of the concatenated raw tokens.  (Adjacent raw `newLine` tokens are always adjacent `'\n'`
  characters: no writer emits blanks between two newlines.)

Rust ↔ Lean (quil-rs/src/instruction/*.rs, program/mod.rs):
  qubit.rs:40 Qubit                      qubitToks          control_flow.rs:73 Target          targetToks
  declaration.rs:278 MemoryReference     memRefToks         classical.rs:100/176/485 operands  arithOperandToks …
  frame.rs:119 FrameIdentifier           frameToks          waveform.rs:143 WaveformInvocation invocationToks (SORTED by key)
  mod.rs:343 write_expression_parameter_string  paramsToks  mod.rs:358 write_parameter_string  varParamsToks
  gate.rs:628 Gate                       gateToks           gate.rs:962 GateSpecification      specToks
  gate.rs:1137 GateSignature             inside `.gateDefinition`
  calibration.rs:69/214/268/339          `.calibrationDefinition`, `.measureCalibrationDefinition`
  circuit.rs:43 CircuitDefinition        `.circuitDefinition` (INDENT, the instruction, newline — fix b8ed6d0)
  timing.rs:37 Delay (parenthesises an ambiguous duration)   extern_call.rs:1062 Call (the `0` before `-2.0i`)
  mod.rs:377 Instruction                 toks               program/mod.rs:1123 Program        printProgramTokens

## Placeholders and the two serializers

`Qubit::Placeholder` and `Target::Placeholder` cannot be written as Quil: `write(f, false)` returns
`ToQuilError::UnresolvedQubitPlaceholder` / `UnresolvedLabelPlaceholder` at that point (and `to_quil` drops
the buffer), `write(f, true)` writes the `Debug` text of the value instead and carries on.  One Rust function
runs in both modes; the model factors it into
  `toks`     — what mode `true` writes (the debug text of a placeholder contains a pointer; the harness
               replaces it by `PH`, here it is the token `identifier "PH"` / `target "PH"`), and
  `firstErr` — the first error mode `false` meets, scanning in exactly the order the writers write.
`printInstrTokens i = error e` if `firstErr i = some e`, else `ok (toks i)`; `printDebugTokens i = toks i`.
(`WaveformInvocation::write` serializes its expressions with `to_quil_or_debug` in both modes, and
`CircuitDefinition::write` serializes nested instructions with `to_quil` / `to_quil_or_debug` according to the
mode: both are mirrored — expressions contain no placeholders, nested instructions are scanned.)

## Numbers

* expression leaves (gate / DEFCAL parameters, durations, CALL immediates, matrix entries …) go through
  `QV.ExprPrint` (`printTop F`, `complexToks F`) with its `NumFmt` abstraction `F` and NumTok hypothesis;
* `u64` / `i64` operands are written with `{}`: the decimal digits (a leading `-` lexes as `Operator Minus`);
* `f64` literal operands (`LiteralReal`) are written with `{:?}` since fix 8e284d8: always with a `.` or an
  exponent, so a finite value lexes as a `Float` carrying the same bits; the model says so directly
  (`realLitToks`) — this is the NumTok assumption for `{:?}` and is validated on every generated operand.
  Non-finite values are written `NaN` / `inf` / `-inf`, which lex as identifiers.
-/
namespace QV.Print
open QV QV.Tok QV.Ast QV.ExprPrint

/-- `ToQuilError` (quil.rs:41) minus `FormatError` (writing to a `String` never fails) -/
inductive PrintError where
  | unresolvedLabelPlaceholder
  | unresolvedQubitPlaceholder
  deriving DecidableEq, Repr, Inhabited

/-! ## small pieces -/

def identTok (s : String) : Token := .identifier s.toList
def strTok (s : String) : Token := .string s.toList
def cmd (c : Command) : Token := .command c

/-- `join(sep)` of token groups -/
def sepBy (sep : List Token) : List (List Token) → List Token
  | [] => []
  | [x] => x
  | x :: y :: rest => x ++ sep ++ sepBy sep (y :: rest)

/-- `{value}` of an `i64` -/
def intToks (v : Int) : List Token :=
  if v < 0 then [.operator .minus, .integer v.natAbs] else [.integer v.toNat]

/-- `{value:?}` of an `f64` given by its bits -/
def realLitToks (b : Nat) : List Token :=
  if b % two63 > infBits then [identTok "NaN"]
  else if b % two63 = infBits then
    (if fSign b then [.operator .minus, identTok "inf"] else [identTok "inf"])
  else if fSign b then [.operator .minus, .float (b - two63)] else [.float b]

/-- `MemoryReference` (declaration.rs:278): `name[index]` -/
def memRefToks (r : MemRef) : List Token := [identTok r.name, .lBracket, .integer r.index, .rBracket]

/-- the marker the harness substitutes for the `Debug` text of a placeholder -/
def phName : List Char := ['P', 'H']

/-- a name written raw (`{name}`) that did not necessarily come from an `Identifier` token: qubit variables
may have been written `%name` (a `Variable` token, whose name may be a reserved word such as `%NOT`), and are
printed without the `%`: the lexer then classifies the word again (`keyword_or_identifier`) -/
def nameTok (s : String) : Token := keywordOrIdentifier s.toList

/-- `Qubit` (qubit.rs:40) in debug mode -/
def qubitToks : Qubit → List Token
  | .fixed n => [.integer n]
  | .placeholder _ => [.identifier phName]
  | .variable s => [nameTok s]

def qubitErr : Qubit → Option PrintError
  | .placeholder _ => some .unresolvedQubitPlaceholder
  | _ => none

/-- `Target` (control_flow.rs:73) in debug mode -/
def targetToks : Target → List Token
  | .fixed s => [.target s.toList]
  | .placeholder _ _ => [.target phName]

def targetErr : Target → Option PrintError
  | .placeholder _ _ => some .unresolvedLabelPlaceholder
  | _ => none

/-- first error of a list of pieces, in order -/
def firstSome {α : Type} : List (Option α) → Option α
  | [] => none
  | some e :: _ => some e
  | none :: rest => firstSome rest

def qubitsToks (qs : List Qubit) : List Token := qs.flatMap qubitToks
def qubitsErr (qs : List Qubit) : Option PrintError := firstSome (qs.map qubitErr)

def scalarTok : ScalarType → Token
  | .bit => .dataType .bit | .integer => .dataType .integer | .octet => .dataType .octet
  | .real => .dataType .real

/-- `Vector` (declaration.rs:83): `TYPE[length]` -/
def vectorToks (v : Vector) : List Token := [scalarTok v.dataType, .lBracket, .integer v.length, .rBracket]

def arithOperandToks : ArithmeticOperand → List Token
  | .literalInteger v => intToks v
  | .literalReal b => realLitToks b
  | .memoryReference r => memRefToks r

def compOperandToks : ComparisonOperand → List Token
  | .literalInteger v => intToks v
  | .literalReal b => realLitToks b
  | .memoryReference r => memRefToks r

def binOperandToks : BinaryOperand → List Token
  | .literalInteger v => intToks v
  | .memoryReference r => memRefToks r

def arithCmd : ArithmeticOperator → Command
  | .add => .add | .subtract => .sub | .divide => .div | .multiply => .mul
def binCmd : BinaryOperator → Command
  | .and => .and | .ior => .ior | .xor => .xor | .shl => .shl | .shr => .shr | .ashr => .ashr
def compCmd : ComparisonOperator → Command
  | .equal => .eq | .greaterThanOrEqual => .ge | .greaterThan => .gt | .lessThanOrEqual => .le
  | .lessThan => .lt
def unaryCmd : UnaryOperator → Command
  | .neg => .neg | .not => .not

def modifierTok : GateModifier → Token
  | .controlled => .modifier .controlled | .dagger => .modifier .dagger | .forked => .modifier .forked

/-- `write_expression_parameter_string` (mod.rs:343): nothing when empty, else `(e1, e2, …)` -/
def paramsToks (F : NumFmt) (ps : List PExpr) : List Token :=
  if ps.isEmpty then [] else .lParenthesis :: (sepBy [.comma] (ps.map (printTop F)) ++ [.rParenthesis])

/-- `write_parameter_string` (mod.rs:358): nothing when empty, else `(%a, %b, …)` -/
def varParamsToks (ps : List String) : List Token :=
  if ps.isEmpty then []
  else .lParenthesis :: (sepBy [.comma] (ps.map fun p => [Token.variable p.toList]) ++ [.rParenthesis])

/-- `FrameIdentifier` (frame.rs:119): the qubits, then the quoted name -/
def frameToks (f : FrameIdentifier) : List Token := qubitsToks f.qubits ++ [strTok f.name]
def frameErr (f : FrameIdentifier) : Option PrintError := qubitsErr f.qubits

/-- a name written raw that may contain `/` (waveform names `name/extension`): the lexer splits it at every
`/` into identifiers and `Operator Slash` tokens -/
def slashNameAux : List Char → List Char → List Token
  | acc, [] => [.identifier acc.reverse]
  | acc, c :: cs =>
    if c = '/' then .identifier acc.reverse :: .operator .slash :: slashNameAux [] cs
    else slashNameAux (c :: acc) cs

def slashNameToks (s : String) : List Token := slashNameAux [] s.toList

/-- insertion into a list sorted by key (`sort_by_key` on `(&String, &Expression)` pairs; keys of an
`IndexMap` are distinct, so stability is immaterial) -/
def insertKV (x : String × PExpr) : List (String × PExpr) → List (String × PExpr)
  | [] => [x]
  | y :: ys => if x.1 < y.1 then x :: y :: ys else y :: insertKV x ys

def sortKV : List (String × PExpr) → List (String × PExpr)
  | [] => []
  | x :: xs => insertKV x (sortKV xs)

/-- `WaveformInvocation` (waveform.rs:143): the parameters are written SORTED BY KEY -/
def invocationToks (F : NumFmt) (w : WaveformInvocation) : List Token :=
  slashNameToks w.name ++
    (if w.parameters.isEmpty then []
     else .lParenthesis ::
       (sepBy [.comma] ((sortKV w.parameters).map fun kv => identTok kv.1 :: .colon :: printTop F kv.2) ++
         [.rParenthesis]))

/-- `Gate` (gate.rs:628) -/
def gateToks (F : NumFmt) (g : Gate) : List Token :=
  g.modifiers.map modifierTok ++ identTok g.name :: (paramsToks F g.parameters ++ qubitsToks g.qubits)
def gateErr (g : Gate) : Option PrintError := qubitsErr g.qubits

/-- is the duration of a DELAY without frame names parenthesised? (timing.rs:55) -/
def delayAmbiguous (d : Delay) : Bool :=
  d.frameNames.isEmpty &&
    match d.duration with
    | .call _ _ => true
    | .bin _ _ _ => true
    | .number z => isPrintedAsInfix z
    | .pre .plus _ => true
    | _ => false

/-- `Delay` (timing.rs:37) -/
def delayToks (F : NumFmt) (d : Delay) : List Token :=
  cmd .delay :: (qubitsToks d.qubits ++ d.frameNames.map strTok ++
    wrapIf (delayAmbiguous d) (printTop F d.duration))

/-- the `0` written before a purely imaginary negative immediate that follows a real immediate
(extern_call.rs:1073) -/
def callZeroPrefix (previous : Option UnresolvedCallArgument) (a : UnresolvedCallArgument) : List Token :=
  match previous, a with
  | some (.immediate p), .immediate v =>
    if fZero p.im && fZero v.re && fLtZero v.im then [.integer 0] else []
  | _, _ => []

def callArgToks (F : NumFmt) : UnresolvedCallArgument → List Token
  | .identifier s => [identTok s]
  | .memoryReference r => memRefToks r
  | .immediate z => complexToks F z

def callArgsToks (F : NumFmt) : Option UnresolvedCallArgument → List UnresolvedCallArgument → List Token
  | _, [] => []
  | prev, a :: rest => callZeroPrefix prev a ++ callArgToks F a ++ callArgsToks F (some a) rest

def pragmaArgTok : PragmaArgument → Token
  | .identifier s => identTok s
  | .integer n => .integer n

def attributeToks (F : NumFmt) : AttributeValue → List Token
  | .string s => [strTok s]
  | .expression e => printTop F e

def pauliGateChar : PauliGate → Char
  | .i => 'I' | .x => 'X' | .y => 'Y' | .z => 'Z'

/-- one line of `GateSpecification::PauliSum`: `INDENT WORD(expr) arg…\n` -/
def pauliTermToks (F : NumFmt) (t : PauliTerm) : List Token :=
  .indentation :: .identifier (t.arguments.map fun ga => pauliGateChar ga.1) :: .lParenthesis ::
    (printTop F t.expression ++ .rParenthesis :: (t.arguments.map fun ga => identTok ga.2) ++ [.newLine])

/-- `GateSpecification` (gate.rs:962): every line is `INDENT … \n` -/
def specToks (F : NumFmt) : GateSpecification → List Token
  | .matrix rows => rows.flatMap fun row => .indentation :: (sepBy [.comma] (row.map (printTop F)) ++ [.newLine])
  | .permutation p => .indentation :: (sepBy [.comma] (p.map fun n => [Token.integer n]) ++ [.newLine])
  | .pauliSum s => s.terms.flatMap (pauliTermToks F)
  | .sequence s => s.gates.flatMap fun g => .indentation :: (gateToks F g ++ [.newLine])

def specErr : GateSpecification → Option PrintError
  | .sequence s => firstSome (s.gates.map gateErr)
  | _ => none

def gateTypeTok : GateSpecification → Token
  | .matrix _ => .matrix | .permutation _ => .permutation | .pauliSum _ => .pauliSum
  | .sequence _ => .sequence

/-- the qubit parameters of a `GateSignature` (gate.rs:1056) -/
def specQubitParams : GateSpecification → List String
  | .pauliSum s => s.arguments
  | .sequence s => s.qubits
  | _ => []

/-- `GateDefinition` (gate.rs:1076) = `GateSignature` (gate.rs:1137), `":\n"`, the specification -/
def gateDefToks (F : NumFmt) (g : GateDefinition) : List Token :=
  cmd .defGate :: identTok g.name :: (varParamsToks g.parameters ++
    (specQubitParams g.specification).map identTok ++
    .as :: gateTypeTok g.specification :: .colon :: .newLine :: specToks F g.specification)

def measureNameToks : Option String → List Token
  | some n => [.bang, identTok n]
  | none => []

/-! ## instructions -/

mutual
/-- `impl Quil for Instruction` (mod.rs:377) and every payload writer, debug mode, raw tokens -/
def toks (F : NumFmt) : Instruction → List Token
  | .arithmetic a => cmd (arithCmd a.operator) :: (memRefToks a.destination ++ arithOperandToks a.source)
  | .binaryLogic b => cmd (binCmd b.operator) :: (memRefToks b.destination ++ binOperandToks b.source)
  | .calibrationDefinition id body =>
    -- calibration.rs:69, 214: `DEFCAL mods name(params) qubits:` then `\n INDENT instr` for each
    cmd .defCal :: (id.modifiers.map modifierTok ++ identTok id.name ::
      (paramsToks F id.parameters ++ qubitsToks id.qubits ++ .colon :: calBodyToks F body))
  | .call c => cmd .call :: identTok c.name :: callArgsToks F none c.arguments
  | .capture c =>
    (if c.blocking then [cmd .capture] else [.nonBlocking, cmd .capture]) ++ frameToks c.frame ++
      invocationToks F c.waveform ++ memRefToks c.memoryReference
  | .circuitDefinition name ps qvs body =>
    -- circuit.rs:43
    cmd .defCircuit :: identTok name :: (varParamsToks ps ++ qvs.map nameTok ++
      .colon :: .newLine :: circuitBodyToks F body)
  | .convert c => cmd .convert :: (memRefToks c.destination ++ memRefToks c.source)
  | .comparison c =>
    cmd (compCmd c.operator) :: (memRefToks c.destination ++ memRefToks c.lhs ++ compOperandToks c.rhs)
  | .declaration d =>
    cmd .declare :: identTok d.name :: (vectorToks d.size ++
      match d.sharing with
      | none => []
      | some s => .sharing :: identTok s.name ::
        (if s.offsets.isEmpty then []
         else .offset :: s.offsets.flatMap fun o => [Token.integer o.offset, scalarTok o.dataType]))
  | .delay d => delayToks F d
  | .exchange e => cmd .exchange :: (memRefToks e.left ++ memRefToks e.right)
  | .fence f => cmd .fence :: qubitsToks f.qubits
  | .frameDefinition f =>
    cmd .defFrame :: (frameToks f.identifier ++ .colon ::
      f.attributes.flatMap fun kv => .newLine :: .indentation :: identTok kv.1 :: .colon :: attributeToks F kv.2)
  | .gate g => gateToks F g
  | .gateDefinition g => gateDefToks F g
  | .halt => [cmd .halt]
  | .include i => [cmd .include, strTok i.filename]
  | .jump j => cmd .jump :: targetToks j.target
  | .jumpUnless j => cmd .jumpUnless :: (targetToks j.target ++ memRefToks j.condition)
  | .jumpWhen j => cmd .jumpWhen :: (targetToks j.target ++ memRefToks j.condition)
  | .label l => cmd .label :: targetToks l.target
  | .load l => cmd .load :: (memRefToks l.destination ++ identTok l.source :: memRefToks l.offset)
  | .measureCalibrationDefinition id body =>
    -- calibration.rs:268, 339: `DEFCAL MEASURE!name qubit target:\n`, the block joined by "\n" with "\t"
    -- before each instruction, "\n"
    cmd .defCal :: cmd .measure :: (measureNameToks id.name ++ qubitToks id.qubit ++
      (match id.target with | some t => [identTok t] | none => []) ++
      .colon :: .newLine :: (mcalBodyToks F body ++ [.newLine]))
  | .measurement m =>
    cmd .measure :: (measureNameToks m.name ++ qubitToks m.qubit ++
      match m.target with | some t => memRefToks t | none => [])
  | .move m => cmd .move :: (memRefToks m.destination ++ arithOperandToks m.source)
  | .nop => [cmd .nop]
  | .pragma p =>
    cmd .pragma :: identTok p.name :: (p.arguments.map pragmaArgTok ++
      match p.data with | some d => [strTok d] | none => [])
  | .pulse p =>
    (if p.blocking then [cmd .pulse] else [.nonBlocking, cmd .pulse]) ++ frameToks p.frame ++
      invocationToks F p.waveform
  | .rawCapture r =>
    (if r.blocking then [cmd .rawCapture] else [.nonBlocking, cmd .rawCapture]) ++ frameToks r.frame ++
      printTop F r.duration ++ memRefToks r.memoryReference
  | .reset r => cmd .reset :: (match r.qubit with | some q => qubitToks q | none => [])
  | .setFrequency s => cmd .setFrequency :: (frameToks s.frame ++ printTop F s.frequency)
  | .setPhase s => cmd .setPhase :: (frameToks s.frame ++ printTop F s.phase)
  | .setScale s => cmd .setScale :: (frameToks s.frame ++ printTop F s.scale)
  | .shiftFrequency s => cmd .shiftFrequency :: (frameToks s.frame ++ printTop F s.frequency)
  | .shiftPhase s => cmd .shiftPhase :: (frameToks s.frame ++ printTop F s.phase)
  | .store s =>
    cmd .store :: identTok s.destination :: (memRefToks s.offset ++ arithOperandToks s.source)
  | .swapPhases s => cmd .swapPhases :: (frameToks s.frame1 ++ frameToks s.frame2)
  | .unaryLogic u => cmd (unaryCmd u.operator) :: memRefToks u.operand
  | .waveformDefinition w =>
    -- waveform.rs:70: `DEFWAVEFORM name(%params):\n INDENT e1, e2, …`
    cmd .defWaveform :: (slashNameToks w.name ++ varParamsToks w.definition.parameters ++
      .colon :: .newLine :: .indentation :: sepBy [.comma] (w.definition.matrix.map (printTop F)))
  | .wait => [cmd .wait]

/-- `for instruction in &self.instructions { write!(f, "\n{INDENT}")?; instruction.write(..)?; }` -/
def calBodyToks (F : NumFmt) : List Instruction → List Token
  | [] => []
  | i :: rest => .newLine :: .indentation :: (toks F i ++ calBodyToks F rest)

/-- `write_instruction_block` = `write_join_quil(.., "\n", "\t")` (mod.rs:280) -/
def mcalBodyToks (F : NumFmt) : List Instruction → List Token
  | [] => []
  | [i] => .indentation :: toks F i
  | i :: j :: rest => .indentation :: (toks F i ++ .newLine :: mcalBodyToks F (j :: rest))

/-- `write!("{INDENT}"); instruction.write(..); writeln!()` for every instruction of a DEFCIRCUIT body
(circuit.rs, since fix b8ed6d0: the instruction is indented once, its text is not split into lines) -/
def circuitBodyToks (F : NumFmt) : List Instruction → List Token
  | [] => []
  | i :: rest => .indentation :: (toks F i ++ .newLine :: circuitBodyToks F rest)
end

mutual
/-- the first `ToQuilError` that `write(f, false)` meets, in writing order -/
def firstErr : Instruction → Option PrintError
  | .calibrationDefinition id body => firstSome [qubitsErr id.qubits, firstErrList body]
  | .capture c => frameErr c.frame
  | .circuitDefinition _ _ _ body => firstErrList body
  | .delay d => qubitsErr d.qubits
  | .fence f => qubitsErr f.qubits
  | .frameDefinition f => frameErr f.identifier
  | .gate g => gateErr g
  | .gateDefinition g => specErr g.specification
  | .jump j => targetErr j.target
  | .jumpUnless j => targetErr j.target
  | .jumpWhen j => targetErr j.target
  | .label l => targetErr l.target
  | .measureCalibrationDefinition id body => firstSome [qubitErr id.qubit, firstErrList body]
  | .measurement m => qubitErr m.qubit
  | .pulse p => frameErr p.frame
  | .rawCapture r => frameErr r.frame
  | .reset r => (match r.qubit with | some q => qubitErr q | none => none)
  | .setFrequency s => frameErr s.frame
  | .setPhase s => frameErr s.frame
  | .setScale s => frameErr s.frame
  | .shiftFrequency s => frameErr s.frame
  | .shiftPhase s => frameErr s.frame
  | .swapPhases s => firstSome [frameErr s.frame1, frameErr s.frame2]
  | _ => none

def firstErrList : List Instruction → Option PrintError
  | [] => none
  | i :: rest => firstSome [firstErr i, firstErrList rest]
end

/-- `Quil::to_quil` (quil.rs:8) of an instruction, as raw tokens -/
def printInstrRaw (F : NumFmt) (i : Instruction) : Except PrintError (List Token) :=
  match firstErr i with
  | some e => .error e
  | none => .ok (toks F i)

/-! ## the lexer's view: runs of newlines are one token -/

/-- `recognize_newlines`: adjacent `'\n'` characters are ONE `NewLine` token -/
def collapseNL : List Token → List Token
  | [] => []
  | [t] => [t]
  | t :: u :: rest =>
    if t = .newLine ∧ u = .newLine then collapseNL (u :: rest) else t :: collapseNL (u :: rest)

/-- `Quil::to_quil` of an instruction: the tokens its text lexes to.  (`lex` ends with
`many0(one_of("\n\t "))`-insensitive `all_consuming`: trailing newline tokens ARE produced by the token
loop, so nothing is trimmed here.) -/
def printInstrTokens (F : NumFmt) (i : Instruction) : Except PrintError (List Token) :=
  match printInstrRaw F i with
  | .error e => .error e
  | .ok ts => .ok (collapseNL ts)

/-- `Quil::to_quil_or_debug` of an instruction (never fails) -/
def printDebugTokens (F : NumFmt) (i : Instruction) : List Token := collapseNL (toks F i)

/-- raw tokens of `Quil::write for Program` (program/mod.rs:1123) on the listing `to_instructions()`:
every instruction followed by `"\n"` -/
def programRaw (F : NumFmt) (listing : List Instruction) : List Token :=
  listing.flatMap fun i => toks F i ++ [.newLine]

/-- `Program::to_quil` given `to_instructions()` -/
def printProgramTokens (F : NumFmt) (listing : List Instruction) : Except PrintError (List Token) :=
  match firstErrList listing with
  | some e => .error e
  | none => .ok (collapseNL (programRaw F listing))

/-- `Program::to_quil_or_debug` given `to_instructions()` -/
def printProgramDebugTokens (F : NumFmt) (listing : List Instruction) : List Token :=
  collapseNL (programRaw F listing)

end QV.Print
