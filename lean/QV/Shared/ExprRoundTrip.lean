import QV.Shared.Parse
import QV.Shared.ExprPrint
/-
QV.Shared.ExprRoundTrip — the token-level round trip "print an expression, parse it back" (core Lean only,
no Mathlib), about the SHARED parser model `QV.Parse` (Pratt parser of parser/expression.rs) and the shared
printer model `QV.ExprPrint`.  For C03; meant to be reused by C02 / C04.

Main results (all for EVERY expression tree, by structural induction — no depth bound):

* `parse_printTop`   : `parse (d+1) (printTop F e ++ rest) Prec.lowest = .ok (norm e) rest`
                        whenever `(printTop F e).length ≤ d` and `endOk rest`
* `parse_inner`      : the same for an operand `inner F e` at ANY precedence `p`, when `rest` does not begin
                        with an operator binding tighter than `p`
* `parseExpression_printTop` : `parseExpression (printTop F e) = .ok (norm e) []`
* `eval_norm`        : under `LitLaws`, `norm e` evaluates to what `e` evaluates to, for all assignments
* `norm_eq_self`, `norm_parserShaped`, `norm_norm` : trees of the parser's shape are fixed points of `norm`

Hypotheses: `finiteLits e` (finite literals without `-0.0` components) and the NumTok hypothesis
`numTokOk F e` (see `QV.ExprPrint`).  `printTop` takes region names to be `Identifier` tokens; what the real
lexer returns is `printExprTokens` (= `printTop stdFmt` with names classified by `keyword_or_identifier`),
equal to `printTop stdFmt e` when `plainNames e` (`printExprTokens_eq`).
-/
namespace QV.ExprRoundTrip
open QV QV.Tok QV.Ast QV.Parse QV.ExprPrint

/-! ## side conditions on what follows the printed tokens -/

/-- what may follow a printed OPERAND: anything but the identifier `i` (a real literal would swallow it:
`parse_immediate_value` runs `opt(parse_i)`) and `[` (`pi` followed by `[` would be tried as a memory
reference). -/
def tailOk : List Token → Bool
  | [] => true
  | .identifier s :: _ => s != ['i']
  | .lBracket :: _ => false
  | _ => true

/-- the `while get_precedence(input) > precedence` loop stops at `rest`: `rest` does not begin with an
operator binding tighter than `p` -/
def stopsAt (p : Prec) : List Token → Bool
  | .operator o :: _ => decide (precOfOperator o ≤ p)
  | _ => true

/-- what may follow a printed EXPRESSION parsed by `parse_expression`: `tailOk` and not an operator -/
def endOk : List Token → Bool
  | [] => true
  | .operator _ :: _ => false
  | .identifier s :: _ => s != ['i']
  | .lBracket :: _ => false
  | _ => true

theorem endOk_tailOk {rest : List Token} (h : endOk rest = true) : tailOk rest = true := by
  unfold endOk at h; unfold tailOk; split at h <;> simp_all

theorem endOk_stopsAt {rest : List Token} (p : Prec) (h : endOk rest = true) : stopsAt p rest = true := by
  unfold endOk at h; unfold stopsAt; split at h <;> simp_all

/-! ## the part of `parse` between the prefix operator and the operator loop -/

/-- `parse` (expression.rs:80-96) after `opt(parse_prefix)`: an immediate value, a variable, an identifier
form, or a parenthesised expression -/
def primary (rec : ExprRec) (input : List Token) : Outcome PExpr :=
  match opt parseImmediateValue input with
  | .ok imm input =>
    match imm with
    | some n => .ok (.number n) input
    | none =>
      match input with
      | [] => .err
      | .variable name :: remainder => .ok (.var (str name)) remainder
      | .identifier _ :: _ => parseExpressionIdentifier rec input
      | .lParenthesis :: remainder => parseGroupedExpression rec remainder
      | _ :: _ => .err
  | .err => .err | .fail => .fail | .crash w => .crash w

theorem parseBody_eq (rec : ExprRec) (input : List Token) (prec : Prec) :
    parseBody rec input prec =
      match opt parsePrefix input with
      | .ok pfx input =>
        match primary rec input with
        | .ok left input =>
          parseLoop rec prec (input.length + 1) input (match pfx with | some op => .pre op left | none => left)
        | .err => .err | .fail => .fail | .crash w => .crash w
      | .err => .err | .fail => .fail | .crash w => .crash w := by
  unfold parseBody primary
  cases opt parsePrefix input with
  | ok pfx i1 =>
    simp only
    cases opt parseImmediateValue i1 with
    | ok imm i2 => cases imm <;> rfl
    | err => rfl
    | fail => rfl
    | crash w => rfl
  | err => rfl
  | fail => rfl
  | crash w => rfl

/-! ## elementary facts about the parser on given token heads -/

theorem optPrefix_minus (r : List Token) :
    opt parsePrefix (.operator .minus :: r) = .ok (some .minus) r := rfl

theorem optPrefix_other (t : Token) (r : List Token) (h : t ≠ .operator .minus) :
    opt parsePrefix (t :: r) = .ok none (t :: r) := by
  unfold opt parsePrefix
  split <;> simp_all
  all_goals (rename_i heq; split at heq <;> simp_all)


theorem optParseI_i (r : List Token) : opt parseI (tokI :: r) = .ok (some ()) r := rfl

theorem optParseI_other {r : List Token} (h : tailOk r = true) : opt parseI r = .ok none r := by
  unfold opt parseI
  cases r with
  | nil => rfl
  | cons t r =>
    cases t <;> simp_all [tailOk]

theorem opt_ok {α : Type} {p : Parser α} {i r : List Token} {v : α} (h : p i = .ok v r) :
    opt p i = .ok (some v) r := by simp [opt, h]

theorem opt_err {α : Type} {p : Parser α} {i : List Token} (h : p i = .err) :
    opt p i = .ok none i := by simp [opt, h]

theorem immediate_integer (n : Nat) (r : List Token) :
    parseImmediateValue (.integer n :: r) =
      match opt parseI r with
      | .ok none r' => .ok (CBits.real (u64ToF64 n)) r'
      | .ok (some _) r' => .ok (CBits.imag (u64ToF64 n)) r'
      | .err => .err | .fail => .fail | .crash w => .crash w := rfl

theorem immediate_float (b : Nat) (r : List Token) :
    parseImmediateValue (.float b :: r) =
      match opt parseI r with
      | .ok none r' => .ok (CBits.real b) r'
      | .ok (some _) r' => .ok (CBits.imag b) r'
      | .err => .err | .fail => .fail | .crash w => .crash w := rfl

/-- a real literal: the numeric token, not followed by `i` -/
theorem optImmediate_real {t : Token} {m : Nat} {r : List Token} (ht : tokBits t = some m)
    (hr : tailOk r = true) : opt parseImmediateValue (t :: r) = .ok (some (CBits.real m)) r := by
  apply opt_ok
  cases t <;> simp [tokBits] at ht
  · subst ht; rw [immediate_float, optParseI_other hr]
  · subst ht; rw [immediate_integer, optParseI_other hr]; rfl

/-- an imaginary literal: the numeric token followed by `i` -/
theorem optImmediate_imag {t : Token} {m : Nat} {r : List Token} (ht : tokBits t = some m) :
    opt parseImmediateValue (t :: tokI :: r) = .ok (some (CBits.imag m)) r := by
  apply opt_ok
  cases t <;> simp [tokBits] at ht
  · subst ht; rw [immediate_float, optParseI_i]
  · subst ht; rw [immediate_integer, optParseI_i]; rfl

/-- a real literal followed by an operator (the real part of a complex literal) -/
theorem optImmediate_real_op {t : Token} {m : Nat} (o : Operator) {r : List Token} (ht : tokBits t = some m) :
    opt parseImmediateValue (t :: .operator o :: r) = .ok (some (CBits.real m)) (.operator o :: r) :=
  optImmediate_real ht rfl

theorem optImmediate_none (t : Token) (r : List Token) (h1 : ∀ n, t ≠ .integer n) (h2 : ∀ b, t ≠ .float b) :
    opt parseImmediateValue (t :: r) = .ok none (t :: r) := by
  cases t <;> simp_all [opt, parseImmediateValue]

/-- the operator loop stops at once -/
theorem parseLoop_stop (rec : ExprRec) (p : Prec) (k : Nat) (rest : List Token) (left : PExpr)
    (h : stopsAt p rest = true) : parseLoop rec p (k + 1) rest left = .ok left rest := by
  unfold parseLoop
  cases rest with
  | nil => simp [getPrecedence, Prec.lowest]
  | cons t r =>
    cases t <;> simp_all [stopsAt, getPrecedence, precOfToken]
    rename_i o
    intro h'
    exact absurd h' (Nat.not_lt.mpr h)


/-! ## `primary` on each printed form -/

theorem primary_address (rec : ExprRec) (name : List Char) (idx : Nat) (rest : List Token) :
    primary rec (.identifier name :: .lBracket :: .integer idx :: .rBracket :: rest) =
      .ok (.address ⟨str name, idx⟩) rest := by
  rfl

theorem primary_var (rec : ExprRec) (x : List Char) (rest : List Token) :
    primary rec (.variable x :: rest) = .ok (.var (str x)) rest := by
  rfl

theorem memRefBrackets_err (name : List Char) (rest : List Token)
    (h : ∀ r, rest ≠ .lBracket :: r) :
    parseMemoryReferenceWithBrackets (.identifier name :: rest) = .err := by
  cases rest with
  | nil => rfl
  | cons t r =>
    cases t <;> first | rfl | exact absurd rfl (h r)

theorem primary_pi (rec : ExprRec) (rest : List Token) (h : tailOk rest = true) :
    primary rec (tokPi :: rest) = .ok .pi rest := by
  have hb : ∀ r, rest ≠ .lBracket :: r := by
    intro r hr; subst hr; simp [tailOk] at h
  have h1 : opt parseImmediateValue (tokPi :: rest) = .ok none (tokPi :: rest) :=
    optImmediate_none _ _ (by intro n; simp [tokPi]) (by intro b; simp [tokPi])
  unfold primary
  rw [h1]
  simp only [tokPi]
  unfold parseExpressionIdentifier
  rw [opt_err (memRefBrackets_err _ _ hb)]
  rfl


theorem exprIdent_fn (rec : ExprRec) (f : ExprFn) (ts : List Token) :
    parseExpressionIdentifier rec (.identifier (fnName f) :: .lParenthesis :: ts) =
      parseFunctionCall rec f (.lParenthesis :: ts) := by
  cases f <;> rfl

theorem functionCall_ok (rec : ExprRec) (f : ExprFn) (ts r : List Token) (e : PExpr)
    (h : rec ts Prec.lowest = .ok e (.rParenthesis :: r)) :
    parseFunctionCall rec f (.lParenthesis :: ts) = .ok (.call f e) r := by
  simp [parseFunctionCall, bind, Parser.bind, tok, h, pure, Parser.pure]

theorem primary_call (rec : ExprRec) (f : ExprFn) (ts r : List Token) (e : PExpr)
    (h : rec ts Prec.lowest = .ok e (.rParenthesis :: r)) :
    primary rec (.identifier (fnName f) :: .lParenthesis :: ts) = .ok (.call f e) r := by
  have h1 : opt parseImmediateValue (.identifier (fnName f) :: .lParenthesis :: ts) =
      .ok none (.identifier (fnName f) :: .lParenthesis :: ts) :=
    optImmediate_none _ _ (by intro n; simp) (by intro b; simp)
  unfold primary
  rw [h1]
  simp only
  rw [exprIdent_fn, functionCall_ok rec f ts r e h]

theorem primary_grouped (rec : ExprRec) (ts r : List Token) (e : PExpr)
    (h : rec ts Prec.lowest = .ok e (.rParenthesis :: r)) :
    primary rec (.lParenthesis :: ts) = .ok e r := by
  have h1 : opt parseImmediateValue (.lParenthesis :: ts) = .ok none (.lParenthesis :: ts) :=
    optImmediate_none _ _ (by intro n; simp) (by intro b; simp)
  unfold primary
  rw [h1]
  simp [parseGroupedExpression, h]


theorem tokBits_ne_minus {t : Token} {m : Nat} (h : tokBits t = some m) : t ≠ .operator .minus := by
  intro ht; subst ht; simp [tokBits] at h

theorem tokBits_not_num {t : Token} {m : Nat} (h : tokBits t = some m) :
    (∃ n, t = .integer n) ∨ (∃ b, t = .float b) := by
  cases t <;> simp [tokBits] at h <;> simp

theorem primary_real (rec : ExprRec) {t : Token} {m : Nat} {rest : List Token}
    (ht : tokBits t = some m) (hr : tailOk rest = true) :
    primary rec (t :: rest) = .ok (.number (CBits.real m)) rest := by
  unfold primary; rw [optImmediate_real ht hr]

theorem primary_imag (rec : ExprRec) {t : Token} {m : Nat} {rest : List Token}
    (ht : tokBits t = some m) :
    primary rec (t :: tokI :: rest) = .ok (.number (CBits.imag m)) rest := by
  unfold primary; rw [optImmediate_imag ht]

/-! ## one step of the operator loop -/

theorem parseLoop_stop' (rec : ExprRec) (p : Prec) (k : Nat) (rest : List Token) (left : PExpr)
    (hk : 0 < k) (h : stopsAt p rest = true) : parseLoop rec p k rest left = .ok left rest := by
  cases k with
  | zero => omega
  | succ k => exact parseLoop_stop rec p k rest left h

theorem parseLoop_step (rec : ExprRec) (p : Prec) (k : Nat) (o : Operator) (ts rest : List Token)
    (left right : PExpr) (hp : p < precOfOperator o)
    (h : rec ts (precOfOperator o) = .ok right rest) :
    parseLoop rec p (k + 1) (.operator o :: ts) left =
      parseLoop rec p k rest (.bin left (infixOfOperator o) right) := by
  conv => lhs; unfold parseLoop
  simp [getPrecedence, precOfToken, hp, parseInfix, h]

theorem infixOfOperator_opOf (o : InfixOp) : infixOfOperator (opOf o) = o := by cases o <;> rfl

theorem lowest_lt_prec (o : Operator) : Prec.lowest < precOfOperator o := by
  cases o <;> decide


/-! ## the induction: what is proved of every expression -/

/-- the operand (as written by `format_inner_expression`) read by the part of `parse` between the prefix
operator and the operator loop: either it does not begin with a minus sign and is read as `norm e`, or it
is a minus sign followed by something read as `e0` with `norm e = -e0` -/
structure Prims (F : NumFmt) (e : PExpr) : Prop where
  unsigned : startsWithMinus e = false →
    (∃ t ts, inner F e = t :: ts ∧ t ≠ .operator .minus) ∧
    ∀ d rest, (inner F e).length ≤ d → tailOk rest = true →
      primary (parse d) (inner F e ++ rest) = .ok (norm e) rest
  signed : startsWithMinus e = true →
    ∃ body e0, inner F e = .operator .minus :: body ∧ norm e = .pre .minus e0 ∧
      ∀ d rest, (inner F e).length ≤ d → tailOk rest = true →
        primary (parse d) (body ++ rest) = .ok e0 rest

/-- the expression as written by `Expression::write`, read by `parse_expression` -/
def Top (F : NumFmt) (e : PExpr) : Prop :=
  ∀ d rest, (printTop F e).length ≤ d → endOk rest = true →
    parse (d + 1) (printTop F e ++ rest) Prec.lowest = .ok (norm e) rest

/-- an operand followed by anything `tailOk`: `parse` reads exactly the operand, then enters the operator
loop with `norm e` on its left -/
theorem Prims.operand {F : NumFmt} {e : PExpr} (h : Prims F e) (d : Nat) (rest : List Token) (p : Prec)
    (hd : (inner F e).length ≤ d) (ht : tailOk rest = true) :
    parse (d + 1) (inner F e ++ rest) p = parseLoop (parse d) p (rest.length + 1) rest (norm e) := by
  show parseBody (parse d) (inner F e ++ rest) p = _
  rw [parseBody_eq]
  cases hs : startsWithMinus e with
  | false =>
    obtain ⟨⟨t, ts, hts, hne⟩, hp⟩ := h.unsigned hs
    have h2 := hp d rest hd ht
    rw [hts] at h2 ⊢
    simp only [List.cons_append] at h2 ⊢
    rw [optPrefix_other _ _ hne]
    simp only
    rw [h2]
  | true =>
    obtain ⟨body, e0, hb, hn, hp⟩ := h.signed hs
    have h2 := hp d rest hd ht
    rw [hb]
    simp only [List.cons_append]
    rw [optPrefix_minus]
    simp only
    rw [h2, hn]

/-- the operand form at any precedence `p`: exactly the operand is consumed when the rest does not begin
with an operator binding tighter than `p` -/
theorem Prims.parse_inner {F : NumFmt} {e : PExpr} (h : Prims F e) (d : Nat) (rest : List Token) (p : Prec)
    (hd : (inner F e).length ≤ d) (ht : tailOk rest = true) (hs : stopsAt p rest = true) :
    parse (d + 1) (inner F e ++ rest) p = .ok (norm e) rest := by
  rw [h.operand d rest p hd ht, parseLoop_stop _ _ _ _ _ hs]

theorem inner_of_not_needsParens (F : NumFmt) {e : PExpr} (h : needsParens e = false) :
    inner F e = printTop F e := by
  simp [inner, wrapIf, h]

theorem inner_of_needsParens (F : NumFmt) {e : PExpr} (h : needsParens e = true) :
    inner F e = .lParenthesis :: (printTop F e ++ [.rParenthesis]) := by
  simp [inner, wrapIf, h]

theorem Prims.top {F : NumFmt} {e : PExpr} (h : Prims F e) (hn : needsParens e = false) : Top F e := by
  intro d rest hd he
  rw [← inner_of_not_needsParens F hn] at hd ⊢
  exact h.parse_inner d rest _ hd (endOk_tailOk he) (endOk_stopsAt _ he)

/-- a parenthesised operand -/
theorem Top.prims {F : NumFmt} {e : PExpr} (h : Top F e) (hn : needsParens e = true)
    (hs : startsWithMinus e = false) : Prims F e := by
  have hi := inner_of_needsParens F hn
  constructor
  · intro _
    refine ⟨⟨_, _, hi, by simp⟩, ?_⟩
    intro d rest hd ht
    rw [hi] at hd ⊢
    simp only [List.length_cons, List.length_append, List.length_nil] at hd
    obtain ⟨d', rfl⟩ : ∃ d', d = d' + 1 := ⟨d - 1, by omega⟩
    have h2 := h d' (.rParenthesis :: rest) (by omega) rfl
    simp only [List.cons_append, List.append_assoc, List.nil_append]
    exact primary_grouped _ _ _ _ h2
  · intro h'; rw [hs] at h'; cases h'


/-! ## the constructors without numbers -/

theorem str_toList (x : String) : str x.toList = x := by simp [str]

theorem prims_address (F : NumFmt) (r : MemRef) : Prims F (.address r) := by
  constructor
  · intro _
    refine ⟨⟨_, _, rfl, by simp⟩, ?_⟩
    intro d rest _ _
    show primary _ (.identifier r.name.toList :: .lBracket :: .integer r.index :: .rBracket :: rest) = _
    rw [primary_address, str_toList]; rfl
  · intro h; cases h

theorem prims_pi (F : NumFmt) : Prims F .pi := by
  constructor
  · intro _
    refine ⟨⟨_, _, rfl, by simp [tokPi]⟩, ?_⟩
    intro d rest _ ht
    show primary _ (tokPi :: rest) = _
    rw [primary_pi _ _ ht]; rfl
  · intro h; cases h

theorem prims_var (F : NumFmt) (x : String) : Prims F (.var x) := by
  constructor
  · intro _
    refine ⟨⟨_, _, rfl, by simp⟩, ?_⟩
    intro d rest _ _
    show primary _ (.variable x.toList :: rest) = _
    rw [primary_var, str_toList]; rfl
  · intro h; cases h

theorem prims_call (F : NumFmt) (f : ExprFn) (x : PExpr) (hx : Top F x) : Prims F (.call f x) := by
  have hi : inner F (.call f x) = .identifier (fnName f) :: .lParenthesis :: (printTop F x ++ [.rParenthesis]) := rfl
  constructor
  · intro _
    refine ⟨⟨_, _, hi, by simp⟩, ?_⟩
    intro d rest hd _
    rw [hi] at hd ⊢
    simp only [List.length_cons, List.length_append, List.length_nil] at hd
    obtain ⟨d', rfl⟩ : ∃ d', d = d' + 1 := ⟨d - 1, by omega⟩
    have h2 := hx d' (.rParenthesis :: rest) (by omega) rfl
    simp only [List.cons_append, List.append_assoc, List.nil_append]
    exact primary_call _ _ _ _ _ h2
  · intro h; cases h

theorem top_bin (F : NumFmt) (l : PExpr) (o : InfixOp) (r : PExpr) (hl : Prims F l) (hr : Prims F r) :
    Top F (.bin l o r) := by
  intro d rest hd he
  have hp : printTop F (.bin l o r) = inner F l ++ .operator (opOf o) :: inner F r := rfl
  rw [hp] at hd ⊢
  simp only [List.length_cons, List.length_append] at hd
  simp only [List.append_assoc, List.cons_append]
  rw [hl.operand d _ _ (by omega) rfl]
  obtain ⟨d', rfl⟩ : ∃ d', d = d' + 1 := ⟨d - 1, by omega⟩
  have h2 := hr.parse_inner d' rest (precOfOperator (opOf o)) (by omega) (endOk_tailOk he)
    (endOk_stopsAt _ he)
  simp only [List.length_cons]
  rw [parseLoop_step _ _ _ _ _ _ _ _ (lowest_lt_prec _) h2, infixOfOperator_opOf]
  exact parseLoop_stop' _ _ _ _ _ (by simp) (endOk_stopsAt _ he)


theorem wrapIf_true (ts : List Token) : wrapIf true ts = .lParenthesis :: (ts ++ [.rParenthesis]) := rfl
theorem wrapIf_false (ts : List Token) : wrapIf false ts = ts := rfl

theorem inner_prePlus (F : NumFmt) (x : PExpr) : inner F (.pre .plus x) = inner F x := by
  simp [inner, needsParens, printTop, prefixToks, wrapIf]

theorem inner_preMinus (F : NumFmt) (x : PExpr) :
    inner F (.pre .minus x) = .operator .minus :: wrapIf (startsWithMinus x) (inner F x) := by
  simp [inner, needsParens, printTop, prefixToks, wrapIf]

theorem prims_prePlus (F : NumFmt) (x : PExpr) (hx : Prims F x) : Prims F (.pre .plus x) := by
  have hn : norm (.pre .plus x) = norm x := by simp [norm]
  have hs' : startsWithMinus (.pre .plus x) = startsWithMinus x := by simp [startsWithMinus]
  constructor
  · intro hs
    rw [hs'] at hs
    rw [inner_prePlus, hn]
    exact hx.unsigned hs
  · intro hs
    rw [hs'] at hs
    rw [inner_prePlus, hn]
    exact hx.signed hs

theorem prims_preMinus (F : NumFmt) (x : PExpr) (hx : Prims F x) : Prims F (.pre .minus x) := by
  constructor
  · intro hs; simp [startsWithMinus] at hs
  · intro _
    refine ⟨_, norm x, inner_preMinus F x, by simp [norm], ?_⟩
    intro d rest hd ht
    rw [inner_preMinus] at hd
    cases hs : startsWithMinus x with
    | false =>
      simp only [hs, wrapIf_false, List.length_cons] at hd ⊢
      exact (hx.unsigned hs).2 d rest (by omega) ht
    | true =>
      simp only [hs, wrapIf_true, List.length_cons, List.length_append, List.length_nil] at hd ⊢
      obtain ⟨d', rfl⟩ : ∃ d', d = d' + 1 := ⟨d - 1, by omega⟩
      have h2 := hx.parse_inner d' (.rParenthesis :: rest) Prec.lowest (by omega) rfl rfl
      simp only [List.cons_append, List.append_assoc, List.nil_append]
      exact primary_grouped _ _ _ _ h2


/-! ## numbers -/

/-- a plain double (finite, not `-0.0`) is `+0.0`, positive or negative; what each test of
`format_complex` / `starts_with_minus` answers in each case -/
theorem plain_cases (b : Nat) (h : plainBits b = true) :
    (b = 0 ∧ fZero b = true ∧ fSign b = false ∧ fLtZero b = false ∧ fAbs b = 0) ∨
    (fZero b = false ∧ fSign b = false ∧ fGtZero b = true ∧ fLtZero b = false ∧ fAbs b = b) ∨
    (fZero b = false ∧ fSign b = true ∧ fGtZero b = false ∧ fLtZero b = true ∧ fAbs b = b - two63) := by
  have h63 : two63 = 9223372036854775808 := rfl
  have h64 : two64 = 18446744073709551616 := rfl
  have hi : infBits = 9218868437227405312 := rfl
  have hn : negInfBits = 18442240474082181120 := rfl
  simp [plainBits, fZero, fSign, fGtZero, fLtZero, fAbs] at h ⊢
  simp only [h63, h64, hi, hn] at h ⊢
  by_cases h0 : b = 0
  · left; subst h0; simp
  · by_cases hs : 9223372036854775808 ≤ b
    · right; right
      simp only [hs]
      and_intros <;> first | trivial | omega | (intro h'; first | cases h' | omega)
    · right; left
      simp only [hs]
      and_intros <;> first | trivial | omega | (intro h'; first | cases h' | omega)

theorem ofNat_zero : QV.DecF64.ofNat 0 = 0 := by decide

/-- a literal that is not printed as a sum: zero, real only, imaginary only -/
theorem prims_number_simple (F : NumFmt) (z : CBits)
    (hre : plainBits z.re = true) (him : plainBits z.im = true) (hn : numTokOkAt F z = true)
    (hs : isPrintedAsInfix z = false) : Prims F (.number z) := by
  obtain ⟨re, im⟩ := z
  simp only [numTokOkAt, Bool.and_eq_true, beq_iff_eq] at hn
  obtain ⟨hR, hI⟩ := hn
  simp only at hre him hR hI
  rcases plain_cases re hre with ⟨rfl, r1, r2, r3, r4⟩ | ⟨r1, r2, r3, r4, r5⟩ | ⟨r1, r2, r3, r4, r5⟩ <;>
  rcases plain_cases im him with ⟨rfl, i1, i2, i3, i4⟩ | ⟨i1, i2, i3, i4, i5⟩ | ⟨i1, i2, i3, i4, i5⟩ <;>
  simp only [isPrintedAsInfix, r1, i1, Bool.not_true, Bool.not_false, Bool.and_self, Bool.and_false,
    Bool.false_and, reduceCtorEq] at hs
  · -- zero
    have hin : inner F (.number ⟨0, 0⟩) = [.integer 0] := by
      simp [inner, needsParens, isPrintedAsInfix, printTop, complexToks, wrapIf, r1]
    have hno : norm (.number ⟨0, 0⟩) = .number ⟨0, 0⟩ := by simp [norm, numTree, r1]
    have hsw : startsWithMinus (.number ⟨0, 0⟩) = false := by
      simp [startsWithMinus, isPrintedAsInfix, r1, r3]
    constructor
    · intro _
      rw [hin, hno]
      refine ⟨⟨_, _, rfl, by simp⟩, ?_⟩
      intro d rest _ ht
      have h1 : tokBits (.integer 0) = some 0 := by simp [tokBits, ofNat_zero]
      exact primary_real _ h1 ht
    · intro h; rw [hsw] at h; cases h
  · -- imaginary only, positive
    have hin : inner F (.number ⟨0, im⟩) = [F.imag im, tokI] := by
      simp [inner, needsParens, isPrintedAsInfix, printTop, complexToks, signedToks, wrapIf, r1, i1, i2]
    have hno : norm (.number ⟨0, im⟩) = .number ⟨0, im⟩ := by simp [norm, numTree, r1, i1, i2]
    have hsw : startsWithMinus (.number ⟨0, im⟩) = false := by
      simp [startsWithMinus, isPrintedAsInfix, r1, i1, i4]
    rw [i5] at hI
    constructor
    · intro _
      rw [hin, hno]
      refine ⟨⟨_, _, rfl, tokBits_ne_minus hI⟩, ?_⟩
      intro d rest _ _
      exact primary_imag _ hI
    · intro h; rw [hsw] at h; cases h
  · -- imaginary only, negative
    have hin : inner F (.number ⟨0, im⟩) = [.operator .minus, F.imag (im - two63), tokI] := by
      simp [inner, needsParens, isPrintedAsInfix, printTop, complexToks, signedToks, wrapIf, r1, i1, i2]
    have hno : norm (.number ⟨0, im⟩) = .pre .minus (.number ⟨0, im - two63⟩) := by
      simp [norm, numTree, r1, i1, i2]
    rw [i5] at hI
    constructor
    · intro h; simp [startsWithMinus, isPrintedAsInfix, r1, i1, i4] at h
    · intro _
      refine ⟨_, _, hin, hno, ?_⟩
      intro d rest _ _
      exact primary_imag _ hI
  · -- real only, positive
    have hin : inner F (.number ⟨re, 0⟩) = [F.real re] := by
      simp [inner, needsParens, isPrintedAsInfix, printTop, complexToks, signedToks, wrapIf, r1, i1, r2]
    have hno : norm (.number ⟨re, 0⟩) = .number ⟨re, 0⟩ := by simp [norm, numTree, r1, i1, r2]
    have hsw : startsWithMinus (.number ⟨re, 0⟩) = false := by
      simp [startsWithMinus, isPrintedAsInfix, r1, i1, r4]
    rw [r5] at hR
    constructor
    · intro _
      rw [hin, hno]
      refine ⟨⟨_, _, rfl, tokBits_ne_minus hR⟩, ?_⟩
      intro d rest _ ht
      exact primary_real _ hR ht
    · intro h; rw [hsw] at h; cases h
  · -- real only, negative
    have hin : inner F (.number ⟨re, 0⟩) = [.operator .minus, F.real (re - two63)] := by
      simp [inner, needsParens, isPrintedAsInfix, printTop, complexToks, signedToks, wrapIf, r1, i1, r2]
    have hno : norm (.number ⟨re, 0⟩) = .pre .minus (.number ⟨re - two63, 0⟩) := by
      simp [norm, numTree, r1, i1, r2]
    rw [r5] at hR
    constructor
    · intro h; simp [startsWithMinus, isPrintedAsInfix, r1, i1, r4] at h
    · intro _
      refine ⟨_, _, hin, hno, ?_⟩
      intro d rest _ ht
      exact primary_real _ hR ht


/-- the operator loop on `(+|-) IMAG i`: the imaginary part of a literal printed as a sum -/
theorem parseLoop_opImag (d k : Nat) (o : Operator) (I : Token) (m : Nat) (rest : List Token) (left : PExpr)
    (hI : tokBits I = some m) (hk : 0 < k) (he : endOk rest = true) :
    parseLoop (parse (d + 1)) Prec.lowest (k + 1) (.operator o :: I :: tokI :: rest) left =
      .ok (.bin left (infixOfOperator o) (.number (CBits.imag m))) rest := by
  have h2 : parse (d + 1) (I :: tokI :: rest) (precOfOperator o) = .ok (.number (CBits.imag m)) rest := by
    show parseBody (parse d) _ _ = _
    rw [parseBody_eq, optPrefix_other _ _ (tokBits_ne_minus hI)]
    simp only
    rw [primary_imag _ hI]
    simp only
    exact parseLoop_stop _ _ _ _ _ (endOk_stopsAt _ he)
  rw [parseLoop_step _ _ _ _ _ _ _ _ (lowest_lt_prec o) h2]
  exact parseLoop_stop' _ _ _ _ _ hk (endOk_stopsAt _ he)

/-- `[-] REAL (+|-) IMAG i` read by `parse_expression` -/
theorem parse_complex_sum (d : Nat) (neg : Bool) (R I : Token) (mr mi : Nat) (o : Operator) (rest : List Token)
    (hR : tokBits R = some mr) (hI : tokBits I = some mi) (he : endOk rest = true) :
    parse (d + 2) ((if neg then [.operator .minus] else []) ++ R :: .operator o :: I :: tokI :: rest)
        Prec.lowest =
      .ok (.bin (if neg then .pre .minus (.number (CBits.real mr)) else .number (CBits.real mr))
        (infixOfOperator o) (.number (CBits.imag mi))) rest := by
  show parseBody (parse (d + 1)) _ _ = _
  rw [parseBody_eq]
  cases neg with
  | false =>
    simp only [Bool.false_eq_true, if_false, List.nil_append]
    rw [optPrefix_other _ _ (tokBits_ne_minus hR)]
    simp only
    rw [primary_real _ hR rfl]
    simp only [List.length_cons]
    exact parseLoop_opImag d _ o I mi rest _ hI (by omega) he
  | true =>
    simp only [if_true, List.cons_append, List.nil_append]
    rw [optPrefix_minus]
    simp only
    rw [primary_real _ hR rfl]
    simp only [List.length_cons]
    exact parseLoop_opImag d _ o I mi rest _ hI (by omega) he


/-- a literal printed as a sum or difference of its parts -/
theorem top_number_infix (F : NumFmt) (z : CBits)
    (hre : plainBits z.re = true) (him : plainBits z.im = true) (hn : numTokOkAt F z = true)
    (hs : isPrintedAsInfix z = true) : Top F (.number z) := by
  obtain ⟨re, im⟩ := z
  simp only [numTokOkAt, Bool.and_eq_true, beq_iff_eq] at hn
  obtain ⟨hR, hI⟩ := hn
  simp only at hre him hR hI
  rcases plain_cases re hre with ⟨rfl, r1, r2, r3, r4⟩ | ⟨r1, r2, r3, r4, r5⟩ | ⟨r1, r2, r3, r4, r5⟩ <;>
  rcases plain_cases im him with ⟨rfl, i1, i2, i3, i4⟩ | ⟨i1, i2, i3, i4, i5⟩ | ⟨i1, i2, i3, i4, i5⟩ <;>
  simp only [isPrintedAsInfix, r1, i1, Bool.not_true, Bool.not_false, Bool.and_self, Bool.and_false,
    Bool.false_and, reduceCtorEq] at hs
  all_goals (rw [r5] at hR; rw [i5] at hI; intro d rest hd he)
  · have hp : printTop F (.number ⟨re, im⟩) = [F.real re, .operator .plus, F.imag im, tokI] := by
      simp [printTop, complexToks, signedToks, r1, i1, r2, i2, i3]
    have hno : norm (.number ⟨re, im⟩) = .bin (.number ⟨re, 0⟩) .plus (.number ⟨0, im⟩) := by
      simp [norm, numTree, r1, i1, r2, i3]
    rw [hp] at hd ⊢; rw [hno]
    simp only [List.length_cons, List.length_nil] at hd
    obtain ⟨d', rfl⟩ : ∃ d', d = d' + 1 := ⟨d - 1, by omega⟩
    exact parse_complex_sum d' false _ _ _ _ .plus rest hR hI he
  · have hp : printTop F (.number ⟨re, im⟩) = [F.real re, .operator .minus, F.imag (im - two63), tokI] := by
      simp [printTop, complexToks, signedToks, r1, i1, r2, i2, i3]
    have hno : norm (.number ⟨re, im⟩) = .bin (.number ⟨re, 0⟩) .minus (.number ⟨0, im - two63⟩) := by
      simp [norm, numTree, r1, i1, r2, i3, i5]
    rw [hp] at hd ⊢; rw [hno]
    simp only [List.length_cons, List.length_nil] at hd
    obtain ⟨d', rfl⟩ : ∃ d', d = d' + 1 := ⟨d - 1, by omega⟩
    exact parse_complex_sum d' false _ _ _ _ .minus rest hR hI he
  · have hp : printTop F (.number ⟨re, im⟩) =
        [.operator .minus, F.real (re - two63), .operator .plus, F.imag im, tokI] := by
      simp [printTop, complexToks, signedToks, r1, i1, r2, i2, i3]
    have hno : norm (.number ⟨re, im⟩) =
        .bin (.pre .minus (.number ⟨re - two63, 0⟩)) .plus (.number ⟨0, im⟩) := by
      simp [norm, numTree, r1, i1, r2, i3]
    rw [hp] at hd ⊢; rw [hno]
    simp only [List.length_cons, List.length_nil] at hd
    obtain ⟨d', rfl⟩ : ∃ d', d = d' + 1 := ⟨d - 1, by omega⟩
    exact parse_complex_sum d' true _ _ _ _ .plus rest hR hI he
  · have hp : printTop F (.number ⟨re, im⟩) =
        [.operator .minus, F.real (re - two63), .operator .minus, F.imag (im - two63), tokI] := by
      simp [printTop, complexToks, signedToks, r1, i1, r2, i2, i3]
    have hno : norm (.number ⟨re, im⟩) =
        .bin (.pre .minus (.number ⟨re - two63, 0⟩)) .minus (.number ⟨0, im - two63⟩) := by
      simp [norm, numTree, r1, i1, r2, i3, i5]
    rw [hp] at hd ⊢; rw [hno]
    simp only [List.length_cons, List.length_nil] at hd
    obtain ⟨d', rfl⟩ : ∃ d', d = d' + 1 := ⟨d - 1, by omega⟩
    exact parse_complex_sum d' true _ _ _ _ .minus rest hR hI he


/-! ## the induction -/

theorem roundtrip (F : NumFmt) : ∀ e : PExpr, finiteLits e = true → numTokOk F e = true →
    Prims F e ∧ Top F e := by
  intro e
  induction e with
  | address r => intro _ _; exact ⟨prims_address F r, (prims_address F r).top rfl⟩
  | call f x ih =>
    intro hf hn
    have hx := ih (by simpa [finiteLits, allLits] using hf) (by simpa [numTokOk, allLits] using hn)
    have hp := prims_call F f x hx.2
    exact ⟨hp, hp.top rfl⟩
  | bin l o r ihl ihr =>
    intro hf hn
    simp only [finiteLits, numTokOk, allLits, Bool.and_eq_true] at hf hn
    have hl := ihl hf.1 hn.1
    have hr := ihr hf.2 hn.2
    have ht := top_bin F l o r hl.1 hr.1
    exact ⟨ht.prims rfl rfl, ht⟩
  | number z =>
    intro hf hn
    simp only [finiteLits, numTokOk, allLits, Bool.and_eq_true] at hf hn
    cases hs : isPrintedAsInfix z with
    | false =>
      have hp := prims_number_simple F z hf.1 hf.2 hn hs
      exact ⟨hp, hp.top (by simp [needsParens, hs])⟩
    | true =>
      have ht := top_number_infix F z hf.1 hf.2 hn hs
      exact ⟨ht.prims (by simp [needsParens, hs]) (by simp [startsWithMinus, hs]), ht⟩
  | pi => intro _ _; exact ⟨prims_pi F, (prims_pi F).top rfl⟩
  | pre op x ih =>
    intro hf hn
    have hx := ih (by simpa [finiteLits, allLits] using hf) (by simpa [numTokOk, allLits] using hn)
    cases op with
    | plus => have hp := prims_prePlus F x hx.1; exact ⟨hp, hp.top rfl⟩
    | minus => have hp := prims_preMinus F x hx.1; exact ⟨hp, hp.top rfl⟩
  | var x => intro _ _; exact ⟨prims_var F x, (prims_var F x).top rfl⟩

/-! ## the round-trip theorems (every expression tree, any depth) -/

/-- **Print, then `parse_expression`, with a tail.**  The tokens `Expression::write` produces for `e`,
followed by any `rest` that `endOk` (not an operator, not the identifier `i`, not `[`), parse back — at any
depth budget exceeding the number of printed tokens — to exactly `norm e`, leaving exactly `rest`. -/
theorem parse_printTop (F : NumFmt) (e : PExpr) (hf : finiteLits e = true) (hn : numTokOk F e = true)
    (d : Nat) (rest : List Token) (hd : (printTop F e).length ≤ d) (he : endOk rest = true) :
    parse (d + 1) (printTop F e ++ rest) Prec.lowest = .ok (norm e) rest :=
  (roundtrip F e hf hn).2 d rest hd he

/-- the same for `parseExpressionAt` (`parse_expression`) -/
theorem parseExpressionAt_printTop (F : NumFmt) (e : PExpr) (hf : finiteLits e = true)
    (hn : numTokOk F e = true) (d : Nat) (rest : List Token) (hd : (printTop F e).length < d)
    (he : endOk rest = true) :
    parseExpressionAt d (printTop F e ++ rest) = .ok (norm e) rest := by
  obtain ⟨d', rfl⟩ : ∃ d', d = d' + 1 := ⟨d - 1, by omega⟩
  exact parse_printTop F e hf hn d' rest (by omega) he

/-- **Operand form, any precedence.**  What `format_inner_expression` writes for `e`, followed by a `rest`
that is `tailOk` and does not begin with an operator binding tighter than `p`, is read by `parse` at
precedence `p` as exactly `norm e`, leaving exactly `rest`. -/
theorem parse_inner (F : NumFmt) (e : PExpr) (hf : finiteLits e = true) (hn : numTokOk F e = true)
    (d : Nat) (rest : List Token) (p : Prec) (hd : (inner F e).length ≤ d) (ht : tailOk rest = true)
    (hs : stopsAt p rest = true) :
    parse (d + 1) (inner F e ++ rest) p = .ok (norm e) rest :=
  (roundtrip F e hf hn).1.parse_inner d rest p hd ht hs

/-- the entry point `parse_expression` with the budget the `FromStr` impl uses, nothing following -/
theorem parseExpression_printTop (F : NumFmt) (e : PExpr) (hf : finiteLits e = true)
    (hn : numTokOk F e = true) : parseExpression (printTop F e) = .ok (norm e) [] := by
  have h := parse_printTop F e hf hn (printTop F e).length [] (Nat.le_refl _) rfl
  simpa [parseExpression, parseExpressionAt, budget] using h

/-- `Expression::from_str` after lexing: no left-over tokens, so `disallow_leftover` passes -/
theorem parseExpressionStr_printTop (F : NumFmt) (e : PExpr) (hf : finiteLits e = true)
    (hn : numTokOk F e = true) : parseExpressionStr (printTop F e) = .ok (norm e) [] := by
  simp [parseExpressionStr, parseExpression_printTop F e hf hn, disallowLeftover]


/-! ## values: the re-parsed tree denotes what the original denotes

Expressions carry bit patterns; their value in a scalar type `K` is given through a denotation
`den : CBits → K` of literals.  The only places where `norm e` differs from `e` in a way that matters for
evaluation are literals (`numTree`); the few facts relating the denotation of a literal to the denotations
of its parts are the `LitLaws`.  They hold in exact arithmetic (`QV.C03`: an instance over the Gaussian
integers) and, bit for bit, for IEEE doubles with `negate(x) = 0 - x` (checked by the C03 driver on every
literal of every generated case). -/

/-- evaluation of a bit-pattern expression through a denotation of its literals -/
def evalP {K : Type} [Scalar K] (den : CBits → K) (ρ : VarEnv K) (μ : MemEnv K) (e : PExpr) :
    Except EvalError K :=
  eval ρ μ (e.mapNum den)

/-- how the denotation of a literal relates to the denotations of its parts (`x`, `y` range over plain
doubles: finite, not `-0.0`) -/
structure LitLaws (K : Type) [Scalar K] (den : CBits → K) : Prop where
  /-- `-x` is `negate(x)`: a negative real literal -/
  negRe : ∀ b, plainBits b = true → two63 < b → den ⟨b, 0⟩ = Scalar.neg (den ⟨b - two63, 0⟩)
  /-- a negative imaginary literal -/
  negIm : ∀ b, plainBits b = true → two63 < b → den ⟨0, b⟩ = Scalar.neg (den ⟨0, b - two63⟩)
  /-- `x+yi` is `x + (yi)` -/
  addIm : ∀ re im, plainBits re = true → plainBits im = true → re ≠ 0 → 0 < im → im < two63 →
    den ⟨re, im⟩ = Scalar.add (den ⟨re, 0⟩) (den ⟨0, im⟩)
  /-- `x-yi` is `x - (yi)` -/
  subIm : ∀ re im, plainBits re = true → plainBits im = true → re ≠ 0 → two63 < im →
    den ⟨re, im⟩ = Scalar.sub (den ⟨re, 0⟩) (den ⟨0, im - two63⟩)

theorem plain_pos_or_neg (b : Nat) (h : plainBits b = true) (h0 : b ≠ 0) :
    (0 < b ∧ b < two63 ∧ fSign b = false) ∨ (two63 < b ∧ fSign b = true) := by
  have h63 : two63 = 9223372036854775808 := rfl
  simp [plainBits, fSign] at h ⊢
  simp only [h63] at h ⊢
  omega

section Values
variable {K : Type} [Scalar K] {den : CBits → K}

/-- the tree a literal parses back to evaluates to the literal -/
theorem eval_numTree (L : LitLaws K den) (ρ : VarEnv K) (μ : MemEnv K) (z : CBits)
    (hre : plainBits z.re = true) (him : plainBits z.im = true) :
    evalP den ρ μ (numTree z) = .ok (den z) := by
  obtain ⟨re, im⟩ := z
  simp only at hre him
  have hreT : evalP den ρ μ (if fSign re then .pre .minus (.number ⟨re - two63, 0⟩) else .number ⟨re, 0⟩)
      = .ok (den ⟨re, 0⟩) := by
    by_cases h0 : re = 0
    · subst h0; rfl
    · rcases plain_pos_or_neg re hre h0 with ⟨_, _, hs⟩ | ⟨hlt, hs⟩
      · simp [hs, evalP, Expr.mapNum, eval]
      · simp [hs, evalP, Expr.mapNum, eval, L.negRe re hre hlt]
  rcases plain_cases re hre with ⟨rfl, r1, r2, r3, r4⟩ | ⟨r1, r2, r3, r4, r5⟩ | ⟨r1, r2, r3, r4, r5⟩ <;>
  rcases plain_cases im him with ⟨rfl, i1, i2, i3, i4⟩ | ⟨i1, i2, i3, i4, i5⟩ | ⟨i1, i2, i3, i4, i5⟩
  all_goals simp only [numTree, r1, i1, r2, i2, Bool.and_self, Bool.and_false, Bool.false_and, if_true,
    if_false, Bool.false_eq_true]
  · rfl
  · rfl
  · have hlt : two63 < im := by
      rcases plain_pos_or_neg im him (by intro h; subst h; simp [fZero] at i1) with ⟨_, _, hs⟩ | ⟨h, _⟩
      · rw [hs] at i2; cases i2
      · exact h
    simp [evalP, Expr.mapNum, eval, L.negIm im him hlt]
  · rfl
  all_goals
    have hre0 : re ≠ 0 := by intro h; subst h; simp [fZero] at r1
  · -- x + yi
    have him0 : im ≠ 0 := by intro h; subst h; simp [fZero] at i1
    rcases plain_pos_or_neg im him him0 with ⟨hp, hlt, _⟩ | ⟨_, hs⟩
    · simp [i3, evalP, Expr.mapNum, eval, calcInfix, L.addIm re im hre him hre0 hp hlt]
    · rw [hs] at i2; cases i2
  · -- x - yi
    have him0 : im ≠ 0 := by intro h; subst h; simp [fZero] at i1
    rcases plain_pos_or_neg im him him0 with ⟨_, _, hs⟩ | ⟨hlt, _⟩
    · rw [hs] at i2; cases i2
    · simp [i3, i5, evalP, Expr.mapNum, eval, calcInfix, L.subIm re im hre him hre0 hlt]
  · -- -x
    rcases plain_pos_or_neg re hre hre0 with ⟨_, _, hs⟩ | ⟨hlt, _⟩
    · rw [hs] at r2; cases r2
    · simp [evalP, Expr.mapNum, eval, L.negRe re hre hlt]
  · -- -x + yi
    have him0 : im ≠ 0 := by intro h; subst h; simp [fZero] at i1
    rcases plain_pos_or_neg im him him0 with ⟨hp, hlt, _⟩ | ⟨_, hs⟩
    · rcases plain_pos_or_neg re hre hre0 with ⟨_, _, hs⟩ | ⟨hlr, _⟩
      · rw [hs] at r2; cases r2
      · simp [i3, evalP, Expr.mapNum, eval, calcInfix, L.addIm re im hre him hre0 hp hlt, L.negRe re hre hlr]
    · rw [hs] at i2; cases i2
  · -- -x - yi
    have him0 : im ≠ 0 := by intro h; subst h; simp [fZero] at i1
    rcases plain_pos_or_neg im him him0 with ⟨_, _, hs⟩ | ⟨hlt, _⟩
    · rw [hs] at i2; cases i2
    · rcases plain_pos_or_neg re hre hre0 with ⟨_, _, hs⟩ | ⟨hlr, _⟩
      · rw [hs] at r2; cases r2
      · simp [i3, i5, evalP, Expr.mapNum, eval, calcInfix, L.subIm re im hre him hre0 hlt, L.negRe re hre hlr]

/-- **The re-parsed tree denotes the same value** under every assignment of variables and memory. -/
theorem eval_norm (L : LitLaws K den) (ρ : VarEnv K) (μ : MemEnv K) :
    ∀ e : PExpr, finiteLits e = true → evalP den ρ μ (norm e) = evalP den ρ μ e := by
  intro e
  induction e with
  | address r => intro _; rfl
  | call f x ih =>
    intro hf
    have hx := ih (by simpa [finiteLits, allLits] using hf)
    simp only [evalP, norm, Expr.mapNum, eval] at hx ⊢
    rw [hx]
  | bin l o r ihl ihr =>
    intro hf
    simp only [finiteLits, allLits, Bool.and_eq_true] at hf
    have hl := ihl hf.1
    have hr := ihr hf.2
    simp only [evalP, norm, Expr.mapNum, eval] at hl hr ⊢
    rw [hl, hr]
  | number z =>
    intro hf
    simp only [finiteLits, allLits, Bool.and_eq_true] at hf
    simp only [norm]
    rw [eval_numTree L ρ μ z hf.1 hf.2]
    rfl
  | pi => intro _; rfl
  | pre op x ih =>
    intro hf
    have hx := ih (by simpa [finiteLits, allLits] using hf)
    cases op with
    | plus =>
      simp only [evalP, norm, Expr.mapNum, eval] at hx ⊢
      rw [hx]
      cases eval ρ μ (Expr.mapNum den x) <;> rfl
    | minus =>
      simp only [evalP, norm, Expr.mapNum, eval] at hx ⊢
      rw [hx]
  | var x => intro _; rfl

end Values

/-! ## `norm` is a normal form: trees of the shape the parser produces are fixed points -/

/-- the shape of the trees `parse_expression` produces from printed text: no prefix plus; every literal is
a non-negative real `⟨x, +0⟩` or a non-negative imaginary `⟨+0, y⟩` -/
def parserShaped : PExpr → Bool
  | .call _ e => parserShaped e
  | .bin l _ r => parserShaped l && parserShaped r
  | .number z => (z.im == 0 && decide (z.re < two63)) || (z.re == 0 && decide (z.im < two63))
  | .pre .plus _ => false
  | .pre .minus e => parserShaped e
  | _ => true

theorem numTree_eq_self (z : CBits)
    (h : ((z.im == 0 && decide (z.re < two63)) || (z.re == 0 && decide (z.im < two63))) = true) :
    numTree z = .number z := by
  obtain ⟨re, im⟩ := z
  have h63 : two63 = 9223372036854775808 := rfl
  have hz0 : fZero 0 = true := rfl
  have hs0 : fSign 0 = false := rfl
  simp only [Bool.or_eq_true, Bool.and_eq_true, beq_iff_eq, decide_eq_true_eq] at h
  rcases h with ⟨rfl, hlt⟩ | ⟨rfl, hlt⟩
  · by_cases h0 : re = 0
    · subst h0; simp [numTree, hz0]
    · have hz : fZero re = false := by simp [fZero, h63]; omega
      have hs : fSign re = false := by simp [fSign, h63]; omega
      simp [numTree, hz, hs, hz0]
  · by_cases h0 : im = 0
    · subst h0; simp [numTree, hz0]
    · have hz : fZero im = false := by simp [fZero, h63]; omega
      have hs : fSign im = false := by simp [fSign, h63]; omega
      simp [numTree, hz, hs, hz0]

/-- a tree of the parser's shape is its own normal form (so a parsed program's expressions print to
tokens that parse back to the very same trees) -/
theorem norm_eq_self : ∀ e : PExpr, parserShaped e = true → norm e = e := by
  intro e
  induction e with
  | address r => intro _; rfl
  | call f x ih => intro h; simp only [parserShaped] at h; simp [norm, ih h]
  | bin l o r ihl ihr =>
    intro h; simp only [parserShaped, Bool.and_eq_true] at h; simp [norm, ihl h.1, ihr h.2]
  | number z => intro h; simp only [parserShaped] at h; simp [norm, numTree_eq_self z h]
  | pi => intro _; rfl
  | pre op x ih =>
    intro h
    cases op with
    | plus => simp [parserShaped] at h
    | minus => simp only [parserShaped] at h; simp [norm, ih h]
  | var x => intro _; rfl


theorem sub_lt_of_plain (b : Nat) (h : plainBits b = true) : b - two63 < two63 := by
  have h63 : two63 = 9223372036854775808 := rfl
  have h64 : two64 = 18446744073709551616 := rfl
  simp [plainBits] at h
  omega

theorem lt_of_not_sign (b : Nat) (h : fSign b = false) : b < two63 := by
  simpa [fSign] using h

theorem numTree_parserShaped (z : CBits) (hre : plainBits z.re = true) (him : plainBits z.im = true) :
    parserShaped (numTree z) = true := by
  obtain ⟨re, im⟩ := z
  simp only at hre him
  have a1 := sub_lt_of_plain re hre
  have a2 := sub_lt_of_plain im him
  have hz0 : (0:Nat) < two63 := by decide
  rcases plain_cases re hre with ⟨rfl, r1, r2, r3, r4⟩ | ⟨r1, r2, r3, r4, r5⟩ | ⟨r1, r2, r3, r4, r5⟩ <;>
  rcases plain_cases im him with ⟨rfl, i1, i2, i3, i4⟩ | ⟨i1, i2, i3, i4, i5⟩ | ⟨i1, i2, i3, i4, i5⟩
  all_goals
    try have b1 := lt_of_not_sign _ r2
    try have b2 := lt_of_not_sign _ i2
    simp [numTree, parserShaped, *]

/-- the re-parsed tree has the parser's shape -/
theorem norm_parserShaped : ∀ e : PExpr, finiteLits e = true → parserShaped (norm e) = true := by
  intro e
  induction e with
  | address r => intro _; rfl
  | call f x ih => intro h; exact ih (by simpa [finiteLits, allLits] using h)
  | bin l o r ihl ihr =>
    intro h
    simp only [finiteLits, allLits, Bool.and_eq_true] at h
    simp [norm, parserShaped, ihl h.1, ihr h.2]
  | number z =>
    intro h
    simp only [finiteLits, allLits, Bool.and_eq_true] at h
    exact numTree_parserShaped z h.1 h.2
  | pi => intro _; rfl
  | pre op x ih =>
    intro h
    have hx := ih (by simpa [finiteLits, allLits] using h)
    cases op with
    | plus => simpa [norm] using hx
    | minus => simpa [norm, parserShaped] using hx
  | var x => intro _; rfl

/-- `norm` is idempotent: a second print → parse round changes nothing -/
theorem norm_norm (e : PExpr) (h : finiteLits e = true) : norm (norm e) = norm e :=
  norm_eq_self _ (norm_parserShaped e h)

/-! ## names: the lexer's classification changes nothing unless a region is named like a reserved word -/

theorem keywordOrIdentifier_plain (s : List Char) (h : isReservedWord s = false) :
    keywordOrIdentifier s = .identifier s := by
  simp only [isReservedWord, Bool.or_eq_false_iff, Option.isSome_eq_false_iff, Option.isNone_iff_eq_none] at h
  obtain ⟨⟨⟨h1, h2⟩, h3⟩, h4⟩ := h
  simp [keywordOrIdentifier, h1, h2, h3, h4]

theorem relex_operator (o : Operator) : relex (.operator o) = .operator o := rfl
theorem relex_integer (n : Nat) : relex (.integer n) = .integer n := rfl
theorem relex_float (b : Nat) : relex (.float b) = .float b := rfl
theorem relex_variable (x : List Char) : relex (.variable x) = .variable x := rfl
theorem relex_lParenthesis : relex .lParenthesis = .lParenthesis := rfl
theorem relex_rParenthesis : relex .rParenthesis = .rParenthesis := rfl
theorem relex_lBracket : relex .lBracket = .lBracket := rfl
theorem relex_rBracket : relex .rBracket = .rBracket := rfl
theorem relex_tokI : relex tokI = tokI := by decide
theorem relex_tokPi : relex tokPi = tokPi := by decide
theorem relex_fnName (f : ExprFn) : relex (.identifier (fnName f)) = .identifier (fnName f) := by
  cases f <;> decide

theorem relex_stdReal (b : Nat) : relex (stdFmt.real b) = stdFmt.real b := by
  simp only [stdFmt]
  cases intValue? b with
  | none => rfl
  | some n => simp only; split <;> rfl

theorem relex_stdImag (b : Nat) : relex (stdFmt.imag b) = stdFmt.imag b := rfl

theorem map_relex_signedReal (b : Nat) :
    (signedToks stdFmt.real b).map relex = signedToks stdFmt.real b := by
  simp only [signedToks]; split <;> simp [relex_operator, relex_stdReal]

theorem map_relex_signedImag (b : Nat) :
    (signedToks stdFmt.imag b).map relex = signedToks stdFmt.imag b := by
  simp only [signedToks]; split <;> simp [relex_operator, relex_stdImag]

theorem map_relex_complexToks (z : CBits) : (complexToks stdFmt z).map relex = complexToks stdFmt z := by
  simp only [complexToks]
  split
  · rfl
  · split
    · exact map_relex_signedReal _
    · split
      · simp [map_relex_signedImag, relex_tokI]
      · split <;> simp [map_relex_signedReal, map_relex_signedImag, relex_tokI, relex_operator]

theorem map_relex_wrapIf (b : Bool) (ts : List Token) :
    (wrapIf b ts).map relex = wrapIf b (ts.map relex) := by
  cases b <;> simp [wrapIf, relex_lParenthesis, relex_rParenthesis]

/-- under `plainNames` the tokens the real lexer returns are the tokens of the idealised printer -/
theorem printExprTokens_eq : ∀ e : PExpr, plainNames e = true → printExprTokens e = printTop stdFmt e := by
  intro e
  unfold printExprTokens
  induction e with
  | address r =>
    intro h
    have hr : isReservedWord r.name.toList = false := by simpa [plainNames, allAddrs] using h
    have h1 : relex (.identifier r.name.toList) = .identifier r.name.toList := keywordOrIdentifier_plain _ hr
    simp [printTop, h1, relex_lBracket, relex_rBracket, relex_integer]
  | call f x ih =>
    intro h
    have hx := ih (by simpa [plainNames, allAddrs] using h)
    simp [printTop, hx, relex_fnName, relex_lParenthesis, relex_rParenthesis]
  | bin l o r ihl ihr =>
    intro h
    simp only [plainNames, allAddrs, Bool.and_eq_true] at h
    have hl := ihl h.1
    have hr := ihr h.2
    simp [printTop, map_relex_wrapIf, hl, hr, relex_operator]
  | number z => intro _; exact map_relex_complexToks z
  | pi => intro _; simp [printTop, relex_tokPi]
  | pre op x ih =>
    intro h
    have hx := ih (by simpa [plainNames, allAddrs] using h)
    cases op <;> simp [printTop, prefixToks, map_relex_wrapIf, hx, relex_operator]
  | var x => intro _; rfl

end QV.ExprRoundTrip
