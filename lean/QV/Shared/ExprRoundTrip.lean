import QV.Shared.Parse
import QV.Shared.ExprPrint
/-
QV.Shared.ExprRoundTrip — the token-level round trip "print an expression, parse it back" (core Lean only,
no Mathlib), about the SHARED parser model `QV.Parse` (Pratt parser of parser/expression.rs) and the shared
printer model `QV.ExprPrint`.  For C03; meant to be reused by C02 / C04.

Main results (all for EVERY expression tree, by structural induction — no depth bound):

* `parse_printTop`   : `parse (d+1) (printTop F e ++ rest) Prec.lowest = .ok (norm e) rest`
                        whenever `(printTop F e).length ≤ d` and `endOk rest`
* `parse_inner`      : the same for an operand `inner F e` at ANY precedence `p`, when `rest` does not begin
                        with an operator binding tighter than `p`
* `parseExpression_printTop` : `parseExpression (printTop F e) = .ok (norm e) []`

Hypotheses: `finiteLits e` (finite literals without `-0.0` components) and the NumTok hypothesis
`numTokOk F e` (see `QV.ExprPrint`).
-/
namespace QV.ExprRoundTrip
open QV QV.Tok QV.Ast QV.Parse QV.ExprPrint

/-! ## side conditions on what follows the printed tokens -/

/-- what may follow a printed OPERAND: anything but the identifier `i` (a real literal would swallow it:
`parse_immediate_value` runs `opt(parse_i)`) and `[` (`pi` followed by `[` would be tried as a memory
reference). -/
def tailOk : List Token → Bool
  | [] => true
  | .identifier s :: _ => s != ['i']
  | .lBracket :: _ => false
  | _ => true

/-- the `while get_precedence(input) > precedence` loop stops at `rest`: `rest` does not begin with an
operator binding tighter than `p` -/
def stopsAt (p : Prec) : List Token → Bool
  | .operator o :: _ => decide (precOfOperator o ≤ p)
  | _ => true

/-- what may follow a printed EXPRESSION parsed by `parse_expression`: `tailOk` and not an operator -/
def endOk : List Token → Bool
  | [] => true
  | .operator _ :: _ => false
  | .identifier s :: _ => s != ['i']
  | .lBracket :: _ => false
  | _ => true

theorem endOk_tailOk {rest : List Token} (h : endOk rest = true) : tailOk rest = true := by
  unfold endOk at h; unfold tailOk; split at h <;> simp_all

theorem endOk_stopsAt {rest : List Token} (p : Prec) (h : endOk rest = true) : stopsAt p rest = true := by
  unfold endOk at h; unfold stopsAt; split at h <;> simp_all

/-! ## the part of `parse` between the prefix operator and the operator loop -/

/-- `parse` (expression.rs:80-96) after `opt(parse_prefix)`: an immediate value, a variable, an identifier
form, or a parenthesised expression -/
def primary (rec : ExprRec) (input : List Token) : Outcome PExpr :=
  match opt parseImmediateValue input with
  | .ok imm input =>
    match imm with
    | some n => .ok (.number n) input
    | none =>
      match input with
      | [] => .err
      | .variable name :: remainder => .ok (.var (str name)) remainder
      | .identifier _ :: _ => parseExpressionIdentifier rec input
      | .lParenthesis :: remainder => parseGroupedExpression rec remainder
      | _ :: _ => .err
  | .err => .err | .fail => .fail | .crash w => .crash w

theorem parseBody_eq (rec : ExprRec) (input : List Token) (prec : Prec) :
    parseBody rec input prec =
      match opt parsePrefix input with
      | .ok pfx input =>
        match primary rec input with
        | .ok left input =>
          parseLoop rec prec (input.length + 1) input (match pfx with | some op => .pre op left | none => left)
        | .err => .err | .fail => .fail | .crash w => .crash w
      | .err => .err | .fail => .fail | .crash w => .crash w := by
  unfold parseBody primary
  cases opt parsePrefix input with
  | ok pfx i1 =>
    simp only
    cases opt parseImmediateValue i1 with
    | ok imm i2 => cases imm <;> rfl
    | err => rfl
    | fail => rfl
    | crash w => rfl
  | err => rfl
  | fail => rfl
  | crash w => rfl

/-! ## elementary facts about the parser on given token heads -/

theorem optPrefix_minus (r : List Token) :
    opt parsePrefix (.operator .minus :: r) = .ok (some .minus) r := rfl

theorem optPrefix_other (t : Token) (r : List Token) (h : t ≠ .operator .minus) :
    opt parsePrefix (t :: r) = .ok none (t :: r) := by
  unfold opt parsePrefix
  split <;> simp_all
  all_goals (rename_i heq; split at heq <;> simp_all)


theorem optParseI_i (r : List Token) : opt parseI (tokI :: r) = .ok (some ()) r := rfl

theorem optParseI_other {r : List Token} (h : tailOk r = true) : opt parseI r = .ok none r := by
  unfold opt parseI
  cases r with
  | nil => rfl
  | cons t r =>
    cases t <;> simp_all [tailOk]

theorem opt_ok {α : Type} {p : Parser α} {i r : List Token} {v : α} (h : p i = .ok v r) :
    opt p i = .ok (some v) r := by simp [opt, h]

theorem opt_err {α : Type} {p : Parser α} {i : List Token} (h : p i = .err) :
    opt p i = .ok none i := by simp [opt, h]

theorem immediate_integer (n : Nat) (r : List Token) :
    parseImmediateValue (.integer n :: r) =
      match opt parseI r with
      | .ok none r' => .ok (CBits.real (u64ToF64 n)) r'
      | .ok (some _) r' => .ok (CBits.imag (u64ToF64 n)) r'
      | .err => .err | .fail => .fail | .crash w => .crash w := rfl

theorem immediate_float (b : Nat) (r : List Token) :
    parseImmediateValue (.float b :: r) =
      match opt parseI r with
      | .ok none r' => .ok (CBits.real b) r'
      | .ok (some _) r' => .ok (CBits.imag b) r'
      | .err => .err | .fail => .fail | .crash w => .crash w := rfl

/-- a real literal: the numeric token, not followed by `i` -/
theorem optImmediate_real {t : Token} {m : Nat} {r : List Token} (ht : tokBits t = some m)
    (hr : tailOk r = true) : opt parseImmediateValue (t :: r) = .ok (some (CBits.real m)) r := by
  apply opt_ok
  cases t <;> simp [tokBits] at ht
  · subst ht; rw [immediate_float, optParseI_other hr]
  · subst ht; rw [immediate_integer, optParseI_other hr]; rfl

/-- an imaginary literal: the numeric token followed by `i` -/
theorem optImmediate_imag {t : Token} {m : Nat} {r : List Token} (ht : tokBits t = some m) :
    opt parseImmediateValue (t :: tokI :: r) = .ok (some (CBits.imag m)) r := by
  apply opt_ok
  cases t <;> simp [tokBits] at ht
  · subst ht; rw [immediate_float, optParseI_i]
  · subst ht; rw [immediate_integer, optParseI_i]; rfl

/-- a real literal followed by an operator (the real part of a complex literal) -/
theorem optImmediate_real_op {t : Token} {m : Nat} (o : Operator) {r : List Token} (ht : tokBits t = some m) :
    opt parseImmediateValue (t :: .operator o :: r) = .ok (some (CBits.real m)) (.operator o :: r) :=
  optImmediate_real ht rfl

theorem optImmediate_none (t : Token) (r : List Token) (h1 : ∀ n, t ≠ .integer n) (h2 : ∀ b, t ≠ .float b) :
    opt parseImmediateValue (t :: r) = .ok none (t :: r) := by
  cases t <;> simp_all [opt, parseImmediateValue]

/-- the operator loop stops at once -/
theorem parseLoop_stop (rec : ExprRec) (p : Prec) (k : Nat) (rest : List Token) (left : PExpr)
    (h : stopsAt p rest = true) : parseLoop rec p (k + 1) rest left = .ok left rest := by
  unfold parseLoop
  cases rest with
  | nil => simp [getPrecedence, Prec.lowest]
  | cons t r =>
    cases t <;> simp_all [stopsAt, getPrecedence, precOfToken]
    rename_i o
    intro h'
    exact absurd h' (Nat.not_lt.mpr h)

end QV.ExprRoundTrip
