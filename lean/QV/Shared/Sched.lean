/-
Shared executable model of quil-rs' scheduling graph (used by C22, C23, C24, C25).
Import-free so that the native drivers link without Mathlib.

Rust sources mirrored here (all under /repo/quil-rs/src/program/scheduling):
  graph/dependency_queue.rs   `DependencyQueue`, `record_access_and_get_dependencies`,
                              `into_pending_dependencies`, the two `Access` impls
  graph.rs:158-389            `ScheduledBasicBlock::build`
  schedule.rs:285-362         `ScheduledBasicBlock::as_schedule`  (C25, further down)

Projection done by the Rust harness (trusted, stated in meta/*.json): an instruction is replaced by what
the `InstructionHandler` says about it — its role, `is_scheduled`, whether `memory_accesses` failed,
the sets of regions read / written / captured, and `matching_frames` (None | Some(used, blocked)) —
with regions and frames numbered injectively by the harness.  What those handler functions return is
the business of C26/C27, not of C22–C25.
-/
namespace QV.Sched

/-- `ScheduledGraphNode` (graph.rs:59-64) -/
inductive Node where
  | start
  | instr (i : Nat)
  | stop
  deriving DecidableEq, Repr, Inhabited

/-- position of a node in a block of `n` instructions: start, instructions in order, end -/
def Node.pos (n : Nat) : Node → Nat
  | .start => 0
  | .instr i => i + 1
  | .stop => n + 1

/-- `MemoryAccessType` (memory.rs); for frames `Blocking ↦ read`, `Using ↦ write`
(dependency_queue.rs:159-164 `classify`). -/
inductive Kind where
  | read | write | capture
  deriving DecidableEq, Repr, Inhabited

def Kind.isWrite : Kind → Bool
  | .read => false
  | _ => true

/-- two accesses of one resource conflict when at least one is a write (capture / use) -/
def Conflict (k1 k2 : Kind) : Prop := k1.isWrite = true ∨ k2.isWrite = true

instance (k1 k2 : Kind) : Decidable (Conflict k1 k2) := by unfold Conflict; infer_instance

/-- `MemoryAccessDependency` (graph.rs:79-86); for frames only `node` is meaningful -/
structure Dep where
  kind : Kind
  node : Node
  deriving DecidableEq, Repr, Inhabited

/-- `DependencyQueue` (dependency_queue.rs:221-227): most recent write, reads since (a `HashSet`,
here a duplicate-free list in insertion order). -/
structure Queue where
  write : Option Dep
  reads : List Node
  deriving Repr, Inhabited

/-- `DependencyQueue::<MemoryAccessType>::new` — no initial writer (dependency_queue.rs:94-96) -/
def Queue.memInit : Queue := ⟨none, []⟩
/-- `DependencyQueue::<InstructionFrameInteraction>::new` — block start is the initial writer
(dependency_queue.rs:154-156) -/
def Queue.frameInit : Queue := ⟨some ⟨.write, .start⟩, []⟩

/-- `record_access_and_get_dependencies` (dependency_queue.rs:245-267): returns the new queue and the
reported dependencies (a `HashSet` in Rust: order and multiplicity are immaterial). -/
def Queue.record (q : Queue) (n : Node) (k : Kind) : Queue × List Dep :=
  match k with
  | .read => (⟨q.write, if n ∈ q.reads then q.reads else q.reads ++ [n]⟩, q.write.toList)
  | .write => (⟨some ⟨.write, n⟩, []⟩, q.write.toList ++ q.reads.map (Dep.mk .read))
  | .capture => (⟨some ⟨.capture, n⟩, []⟩, q.write.toList ++ q.reads.map (Dep.mk .read))

/-- `into_pending_dependencies` (dependency_queue.rs:273-281) -/
def Queue.pending (q : Queue) : List Dep :=
  q.reads.map (Dep.mk .read) ++ q.write.toList

/-- `HashMap<key, DependencyQueue>` with `entry(k).or_default()`: a total map defaulting to the initial
queue plus the list of keys that were touched (for `into_values`). -/
structure QMap where
  keys : List Nat
  get : Nat → Queue

def QMap.empty (init : Queue) : QMap := ⟨[], fun _ => init⟩

def QMap.set (m : QMap) (r : Nat) (q : Queue) : QMap :=
  ⟨if r ∈ m.keys then m.keys else m.keys ++ [r], fun x => if x = r then q else m.get x⟩

/-- `map.entry(r).or_default().record_access_and_get_dependencies(n, k)` -/
def QMap.record (m : QMap) (r : Nat) (n : Node) (k : Kind) : QMap × List Dep :=
  (m.set r ((m.get r).record n k).1, ((m.get r).record n k).2)

/-- `map.into_values().flat_map(DependencyQueue::into_pending_dependencies)` -/
def QMap.pendingAll (m : QMap) : List Dep :=
  m.keys.flatMap fun r => (m.get r).pending

/-- `InstructionRole` -/
inductive Role where
  | classical | rf | controlFlow | composition
  deriving DecidableEq, Repr, Inhabited

/-- What the handler reports about one instruction (the projection described in the header). -/
structure Instr where
  role : Role
  scheduled : Bool
  memErr : Bool
  reads : List Nat
  writes : List Nat
  captures : List Nat
  frames : Option (List Nat × List Nat)
  deriving Repr, Inhabited

/-- A basic block: body instructions and the terminator *instruction* if the terminator has one
(`BasicBlockTerminator::into_instruction`, control_flow_graph.rs:408-433: `Continue ↦ None`). -/
structure Block where
  instrs : List Instr
  term : Option Instr
  deriving Repr, Inhabited

/-- `ExecutionDependency` (graph.rs:88-100) -/
inductive Label where
  | await (k : Kind)
  | scheduled
  | stable
  deriving DecidableEq, Repr, Inhabited

/-- one labelled edge; the Rust graph stores a label *set* per (src,dst): here one entry per label,
multiplicity and order immaterial -/
structure Edge where
  src : Node
  dst : Node
  label : Label
  deriving DecidableEq, Repr, Inhabited

/-- `ScheduleErrorVariant` with the node it is reported at -/
inductive SchedErr where
  | extern
  | unresolvedCall (n : Node)
  | controlFlowNotTerminator (n : Node)
  | unschedulable (n : Node)
  deriving DecidableEq, Repr, Inhabited

/-- the mutable state of `build` (graph.rs:163-194) -/
structure St where
  edges : List Edge
  trailing : List Node
  ord : QMap
  timed : QMap
  mem : QMap

def St.init : St :=
  ⟨[], [], QMap.empty Queue.frameInit, QMap.empty Queue.frameInit, QMap.empty Queue.memInit⟩

/-- graph.rs:224-228: reads, then writes, then captures -/
def memAccesses (ins : Instr) : List (Nat × Kind) :=
  ins.reads.map (·, Kind.read) ++ ins.writes.map (·, Kind.write) ++ ins.captures.map (·, Kind.capture)

/-- graph.rs:282-340: what the handler's `matching_frames` makes an RF-control instruction do to the frame
queues: every used frame is written (`Using`), then every blocked frame is read (`Blocking`); nothing for
other roles or for `matching_frames = None` -/
def frameAccesses (ins : Instr) : List (Nat × Kind) :=
  match ins.role, ins.frames with
  | .rf, some fr => fr.1.map (·, Kind.write) ++ fr.2.map (·, Kind.read)
  | _, _ => []

/-- graph.rs:229-245: record every access of the instruction, collecting the dependencies -/
def recordAll (m : QMap) (n : Node) : List (Nat × Kind) → QMap × List Dep
  | [] => (m, [])
  | a :: rest =>
    ((recordAll (m.record a.1 n a.2).1 n rest).1,
     (m.record a.1 n a.2).2 ++ (recordAll (m.record a.1 n a.2).1 n rest).2)

/-- graph.rs:287-313 (k = write, the `used` frames) and 315-339 (k = read, the `blocked` frames) -/
def frameLoop (sched : Bool) (n : Node) (k : Kind) : List Nat → St → St
  | [], st => st
  | f :: fs, st =>
    let st1 : St := if sched then
        { st with timed := (st.timed.record f n k).1,
                  edges := st.edges ++ (st.timed.record f n k).2.map fun d => ⟨d.node, n, .scheduled⟩ }
      else st
    frameLoop sched n k fs
      { st1 with ord := (st1.ord.record f n k).1,
                 edges := st1.edges ++ (st1.ord.record f n k).2.map fun d => ⟨d.node, n, .stable⟩ }

/-- the memory part of one loop iteration, graph.rs:216-267 (after the `memory_accesses` call) -/
def memStep (n : Node) (ins : Instr) (st : St) : St × Bool :=
  let r := recordAll st.mem n (memAccesses ins)
  let deps := r.2.filter fun d => d.node ≠ n
  ({ st with mem := r.1,
             edges := st.edges ++ deps.map (fun d => ⟨d.node, n, .await d.kind⟩),
             trailing := st.trailing.filter fun t => !(deps.any fun d => d.node == t) },
   deps.isEmpty)

/-- one iteration of the loop at graph.rs:213-361 -/
def stepInstr (n : Node) (ins : Instr) (st : St) : Except SchedErr St :=
  if ins.memErr then .error (.unresolvedCall n) else
  let st1 := (memStep n ins st).1
  let leading := (memStep n ins st).2
  match ins.role with
  | .classical =>
    .ok { st1 with edges := st1.edges ++ (if leading then [⟨.start, n, .stable⟩] else []),
                   trailing := if n ∈ st1.trailing then st1.trailing else st1.trailing ++ [n] }
  | .rf =>
    match ins.frames with
    | none => .ok st1
    | some fr => .ok (frameLoop ins.scheduled n .read fr.2 (frameLoop ins.scheduled n .write fr.1 st1))
  | .controlFlow => if n = .stop then .ok st1 else .error (.controlFlowNotTerminator n)
  | .composition => .error (.unschedulable n)

def runItems : List (Node × Instr) → St → Except SchedErr St
  | [], st => .ok st
  | (n, ins) :: rest, st =>
    match stepInstr n ins st with
    | .ok st' => runItems rest st'
    | .error e => .error e

def enumFrom (k : Nat) : List Instr → List (Node × Instr)
  | [] => []
  | i :: is => (.instr k, i) :: enumFrom (k + 1) is

/-- graph.rs:206-211: body instructions as `InstructionIndex(i)`, then the terminator as `BlockEnd` -/
def Block.items (b : Block) : List (Node × Instr) :=
  enumFrom 0 b.instrs ++ (match b.term with | some t => [(.stop, t)] | none => [])

/-- graph.rs:363-386 -/
def finish (b : Block) (st : St) : List Edge :=
  st.edges
  ++ st.trailing.map (fun t => ⟨t, .stop, .stable⟩)
  ++ st.timed.pendingAll.map (fun d => ⟨d.node, .stop, .scheduled⟩)
  ++ st.ord.pendingAll.map (fun d => ⟨d.node, .stop, .stable⟩)
  ++ (if b.instrs.isEmpty then [⟨.start, .stop, .stable⟩] else [])

/-- `ScheduledBasicBlock::build` (graph.rs:158-389), after the `ExternSignatureMap` conversion:
the labelled edges of the dependency graph, or the error. -/
def buildBlock (b : Block) : Except SchedErr (List Edge) :=
  match runItems b.items St.init with
  | .ok st => .ok (finish b st)
  | .error e => .error e

/-- the node set of the built graph: `add_node` for start and every processed item, plus whatever
`add_edge` touches (only `BlockEnd` can be new there) -/
def graphNodes (b : Block) (es : List Edge) : List Node :=
  [.start] ++ (enumFrom 0 b.instrs).map (·.1)
  ++ (if b.term.isSome || es.any (fun e => e.dst = .stop) then [.stop] else [])

/-- `ScheduledProgram::from_program` (graph.rs:438-450): blocks in order, first error wins; the
`externErr` flag is the failure of `ExternSignatureMap::try_from` (graph.rs:196-201), which every
block's `build` evaluates first. -/
def buildProgram (externErr : Bool) : List Block → Except SchedErr (List (List Edge))
  | [] => .ok []
  | b :: bs =>
    if externErr then .error .extern else
    match buildBlock b with
    | .error e => .error e
    | .ok g =>
      match buildProgram externErr bs with
      | .error e => .error e
      | .ok gs => .ok (g :: gs)

/-! ### Access histories driven directly through the queues (the `verif_hooks::c23` stream) -/

/-- one access: which action (node), which resource (region / frame), which kind -/
structure Access where
  node : Node
  res : Nat
  kind : Kind
  deriving DecidableEq, Repr, Inhabited

/-- run a history through a queue map; returns the final map and the dependencies reported at each step -/
def runHistory (m : QMap) : List Access → QMap × List (List Dep)
  | [] => (m, [])
  | a :: rest =>
    ((runHistory (m.record a.res a.node a.kind).1 rest).1,
     (m.record a.res a.node a.kind).2 :: (runHistory (m.record a.res a.node a.kind).1 rest).2)

/-- the edges a history induces: every reported dependency other than the action itself, labelled with
the kind the dependency was reported with (as graph.rs:251-257 does for memory) -/
def historyEdges (m : QMap) : List Access → List Edge
  | [] => []
  | a :: rest =>
    ((m.record a.res a.node a.kind).2.filter (fun d => d.node ≠ a.node)).map
      (fun d => ⟨d.node, a.node, .await d.kind⟩)
    ++ historyEdges (m.record a.res a.node a.kind).1 rest

/-! ### Label-filtered reachability, as a Prop and as a fuel-bounded Bool search -/

/-- reflexive-transitive reachability over the edges whose label satisfies `C` -/
inductive Reach (E : List Edge) (C : Label → Bool) : Node → Node → Prop where
  | refl (u : Node) : Reach E C u u
  | step {u v w : Node} {l : Label} : Reach E C u v → ⟨v, w, l⟩ ∈ E → C l = true → Reach E C u w

/-- depth-bounded search from `u` for `v` along `C`-labelled edges -/
def reachB (E : List Edge) (C : Label → Bool) : Nat → Node → Node → Bool
  | 0, u, v => u = v
  | fuel + 1, u, v =>
    u = v || E.any fun e => e.src = u && C e.label && reachB E C fuel e.dst v

/-- one pass over the edge list, collecting targets of `C`-labelled edges whose source is already collected.
Sound for reachability whatever the order of the edges (`reachFrom_sound`); complete in ONE pass when the
edges are sorted by source position and point forward — which is how the harness sends them — and the
checkers run two passes. Linear in `|E| · |visited|`, unlike the path-enumerating `reachB`. -/
def reachPass (C : Label → Bool) : List Edge → List Node → List Node
  | [], vis => vis
  | e :: es, vis =>
    reachPass C es (if C e.label && vis.contains e.src && !vis.contains e.dst then e.dst :: vis else vis)

/-- nodes reachable from `u` along `C`-labelled edges (two passes) -/
def reachFrom (E : List Edge) (C : Label → Bool) (u : Node) : List Node :=
  reachPass C E (reachPass C E [u])

def isAwait : Label → Bool
  | .await _ => true
  | _ => false
def isScheduled : Label → Bool
  | .scheduled => true
  | _ => false
def isStable : Label → Bool
  | .stable => true
  | _ => false
def anyLabel : Label → Bool := fun _ => true

/-! ### C25: schedules.  Times are integers (the harness uses dyadic f64 values and sends them as exact
multiples of 2⁻¹⁰ s; floating-point rounding is the declared partial part). -/

/-- what `instruction_duration_seconds` (schedule.rs:181-267) looks at -/
inductive DurDesc where
  /-- PULSE / CAPTURE: `samples` = length of the `DEFWAVEFORM` matrix if the waveform is defined in the program;
  the invocation's `duration`, `pad_left`, `pad_right` parameters (`to_real`, `none` if absent or not a literal);
  `rates` = `none` if `matching_frames` is `None`, else the SAMPLE-RATEs (Hz) of the used frames that have a real one -/
  | waveform (samples : Option Nat) (duration padLeft padRight : Option Int) (rates : Option (List Int))
  /-- DELAY / RAW-CAPTURE: the duration expression's `to_real` -/
  | literal (d : Option Int)
  /-- FENCE, SET-*, SHIFT-*, SWAP-PHASES -/
  | zero
  /-- everything else -/
  | unknown
  deriving Repr, Inhabited, DecidableEq

/-- time units per second on the wire -/
def unitsPerSecond : Int := 1024

/-- `itertools::all_equal_value` -/
def allEqualValue : List Int → Option Int
  | [] => none
  | x :: xs => if xs.all (· = x) then some x else none

/-- `instruction_duration_seconds` / `waveform_duration_seconds` (schedule.rs:181-267) -/
def instructionDuration : DurDesc → Option Int
  | .waveform (some n) _ _ _ rates =>
    match rates.bind allEqualValue with
    | some r => some ((n : Int) * unitsPerSecond / r)
    | none => none
  | .waveform none d pl pr _ =>
    match d with
    | some d => some (d + pl.getD 0 + pr.getD 0)
    | none => none
  | .literal d => d
  | .zero => some 0
  | .unknown => none

structure SItem where
  index : Nat
  start : Int
  dur : Int
  deriving Repr, Inhabited, DecidableEq

def SItem.stop (x : SItem) : Int := x.start + x.dur

inductive SchedOutcome where
  | ok (items : List SItem) (duration : Int)
  | unknownDuration
  | invalidGraph
  /-- `unreachable!()` at schedule.rs:331: a `Scheduled` edge out of the block end -/
  | crash
  deriving Repr, Inhabited, DecidableEq

/-- end times of the `Scheduled` predecessors of `v` (schedule.rs:317-338); `ends` maps instruction index to end time -/
def predEnds (es : List Edge) (ends : List (Nat × Int)) (v : Node) : List Edge → Option (Option (List Int))
  | [] => some (some [])
  | e :: rest =>
    if e.dst = v ∧ e.label = .scheduled then
      match e.src with
      | .start => (predEnds es ends v rest).map (·.map (0 :: ·))
      | .instr p =>
        match ends.lookup p with
        | some t => (predEnds es ends v rest).map (·.map (t :: ·))
        | none => some none            -- InvalidDependencyGraph
      | .stop => none                  -- unreachable!()
    else predEnds es ends v rest

def maxFrom (z : Int) (xs : List Int) : Int := xs.foldl (fun acc el => if el > acc then el else acc) z

/-- the loop of `ScheduledBasicBlock::as_schedule` (schedule.rs:304-359) over the nodes in visiting order -/
def scheduleLoop (L : Nat) (es : List Edge) (dur : Nat → Option Int) :
    List Node → List (Nat × Int) → List SItem → Int → SchedOutcome
  | [], _, items, D => .ok items.reverse D
  | .instr i :: rest, ends, items, D =>
    if i ≥ L then .invalidGraph else
    match dur i with
    | none => .unknownDuration
    | some d =>
      match predEnds es ends (.instr i) es with
      | none => .crash
      | some none => .invalidGraph
      | some (some xs) =>
        let s := maxFrom 0 xs
        let e := s + d
        scheduleLoop L es dur rest ((i, e) :: ends) (⟨i, s, d⟩ :: items) (if D < e then e else D)
  | _ :: rest, ends, items, D => scheduleLoop L es dur rest ends items D

/-- `ScheduledBasicBlock::as_schedule` (schedule.rs:285-362).  `order` is the order in which petgraph's `Topo`
yields the nodes; the driver uses the position order (a topological order by C22) and C25's theorems hold for
every order compatible with the `Scheduled` edges. -/
def asSchedule (L : Nat) (order : List Node) (es : List Edge) (dur : Nat → Option Int) : SchedOutcome :=
  scheduleLoop L es dur order [] [] 0

/-- `TimeSpan::union` (schedule.rs:151-170) on (start, duration) pairs -/
def spanUnion (a b : Int × Int) : Int × Int :=
  let start := if b.1 < a.1 then b.1 else a.1
  let aEnd := a.1 + a.2
  let bEnd := b.1 + b.2
  let stop := if aEnd < bEnd then bEnd else aEnd
  (start, stop - start)

/-- the `BTreeMap::range(..=idx).next_back()` lookup of control_flow_graph.rs:282-286 on the list of
`(first expanded index, source index)` insertions (later insertions overwrite equal keys) -/
def sourceOf (m : List (Nat × Nat)) (idx : Nat) : Option Nat :=
  (m.foldl (fun best kv =>
    if kv.1 ≤ idx then
      match best with
      | some b => if b.1 ≤ kv.1 then some kv else some b
      | none => some kv
    else best) (none : Option (Nat × Nat))).map (·.2)

/-- control_flow_graph.rs:253-264: first expanded index of every source instruction -/
def firstIndices : List Nat → Nat → Nat → List (Nat × Nat)
  | [], _, _ => []
  | len :: rest, s, acc => (acc, s) :: firstIndices rest (s + 1) (acc + len)

/-- control_flow_graph.rs:278-295: fold the expanded schedule's items into spans per source instruction -/
def foldSpans (m : List (Nat × Nat)) : List SItem → List (Nat × (Int × Int)) → List (Nat × (Int × Int))
  | [], acc => acc
  | it :: rest, acc =>
    match sourceOf m it.index with
    | none => foldSpans m rest acc
    | some s =>
      match acc.lookup s with
      | some sp => foldSpans m rest (acc.map fun kv => if kv.1 = s then (s, spanUnion sp (it.start, it.dur)) else kv)
      | none => foldSpans m rest (acc ++ [(s, (it.start, it.dur))])

/-- `Schedule::from(items)` (schedule.rs:81-87): the duration is the latest end -/
def scheduleFrom (items : List SItem) : Int := maxFrom 0 (items.map SItem.stop)

/-- `BasicBlock::as_schedule` (control_flow_graph.rs:233-307) given, for every source instruction, the length of
its calibration expansion, and the outcome of scheduling the expanded block -/
def blockSchedule (lens : List Nat) (flat : SchedOutcome) : SchedOutcome :=
  match flat with
  | .ok items _ =>
    let spans := foldSpans (firstIndices lens 0 0) items []
    let its := spans.map fun kv => (⟨kv.1, kv.2.1, kv.2.2⟩ : SItem)
    .ok its (scheduleFrom its)
  | o => o

end QV.Sched
