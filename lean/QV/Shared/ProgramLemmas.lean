import QV.Shared.Program
/-
Lemmas about the shared `Program` model (association lists with replace-in-place insertion,
the routing of `add`, the listing). Core Lean only.
-/
namespace QV.Prog

/-! ### keys, lookup, first-occurrence order -/

@[simp] theorem keys_nil : keys [] = [] := rfl
@[simp] theorem keys_cons (x : Instr) (l : List Instr) : keys (x :: l) = x.key :: keys l := rfl
@[simp] theorem keys_append (a b : List Instr) : keys (a ++ b) = keys a ++ keys b := by simp [keys]

theorem mem_keys {l : List Instr} {k : String} : k ∈ keys l ↔ ∃ x ∈ l, x.key = k := by
  simp [keys]

theorem mem_firstOcc (ks : List String) (k : String) : k ∈ firstOcc ks ↔ k ∈ ks := by
  induction ks with
  | nil => simp [firstOcc]
  | cons a ks ih =>
    simp only [firstOcc, List.mem_cons, List.mem_filter, ih]
    by_cases h : k = a <;> simp [h]

theorem firstOcc_nodup (ks : List String) : (firstOcc ks).Nodup := by
  induction ks with
  | nil => simp [firstOcc]
  | cons a ks ih =>
    simp only [firstOcc, List.nodup_cons, List.mem_filter]
    exact ⟨by simp, ih.sublist List.filter_sublist⟩

theorem firstOcc_of_nodup {ks : List String} (h : ks.Nodup) : firstOcc ks = ks := by
  induction ks with
  | nil => rfl
  | cons a ks ih =>
    have ⟨ha, hks⟩ := List.nodup_cons.mp h
    simp only [firstOcc, ih hks]
    congr 1
    apply List.filter_eq_self.mpr
    intro x hx
    simp only [ne_eq, decide_eq_true_eq]
    intro hxa; subst hxa; exact ha hx

/-- `firstOcc` keeps the relative order of the list (it is a sublist) -/
theorem firstOcc_sublist (ks : List String) : (firstOcc ks).Sublist ks := by
  induction ks with
  | nil => simp [firstOcc]
  | cons a ks ih =>
    simp only [firstOcc]
    exact List.Sublist.cons_cons a (List.filter_sublist.trans ih)

/-! ### upsert -/

theorem keys_upsert (l : List Instr) (i : Instr) :
    keys (upsert l i) = if i.key ∈ keys l then keys l else keys l ++ [i.key] := by
  induction l with
  | nil => simp [upsert]
  | cons x xs ih =>
    by_cases h : x.key = i.key
    · simp [upsert, h]
    · have h' : ¬ i.key = x.key := fun e => h e.symm
      simp only [upsert, h, if_false, keys_cons, ih, List.mem_cons, h', false_or]
      split <;> simp

theorem lookup_upsert (l : List Instr) (i : Instr) (k : String) :
    lookup (upsert l i) k = if i.key = k then some i else lookup l k := by
  induction l with
  | nil => simp [upsert, lookup, List.find?]
  | cons x xs ih =>
    by_cases h : x.key = i.key
    · by_cases hk : i.key = k
      · simp [upsert, h, lookup, hk]
      · have : ¬ x.key = k := by rw [h]; exact hk
        simp [upsert, h, lookup, hk, List.find?]
    · by_cases hx : x.key = k
      · subst hx
        have : ¬ i.key = x.key := fun e => h e.symm
        simp [upsert, h, lookup, this]
      · simp only [lookup] at ih
        simp [upsert, h, lookup, hx, List.find?, ih]

theorem mem_upsert_imp {l : List Instr} {i y : Instr} (h : y ∈ upsert l i) : y = i ∨ y ∈ l := by
  induction l with
  | nil => simp [upsert] at h; exact Or.inl h
  | cons x xs ih =>
    by_cases hk : x.key = i.key
    · simp [upsert, hk] at h
      rcases h with h | h
      · exact Or.inl h
      · exact Or.inr (List.mem_cons_of_mem _ h)
    · simp [upsert, hk] at h
      rcases h with h | h
      · exact Or.inr (by simp [h])
      · rcases ih h with h | h
        · exact Or.inl h
        · exact Or.inr (List.mem_cons_of_mem _ h)

theorem mem_upsert_self (l : List Instr) (i : Instr) : i ∈ upsert l i := by
  induction l with
  | nil => simp [upsert]
  | cons x xs ih =>
    by_cases hk : x.key = i.key <;> simp [upsert, hk, ih]

theorem mem_upsert_of_ne {l : List Instr} {i y : Instr} (h : y ∈ l) (hk : y.key ≠ i.key) :
    y ∈ upsert l i := by
  induction l with
  | nil => simp at h
  | cons x xs ih =>
    by_cases hx : x.key = i.key
    · simp only [upsert, hx, if_true, List.mem_cons]
      rcases List.mem_cons.mp h with h | h
      · subst h; exact absurd hx hk
      · exact Or.inr h
    · simp only [upsert, hx, if_false, List.mem_cons]
      rcases List.mem_cons.mp h with h | h
      · exact Or.inl h
      · exact Or.inr (ih h)

/-- an element other than the replaced one (the first with the key) stays -/
theorem mem_upsert_of_not_lookup {l : List Instr} {i y : Instr} (h : y ∈ l)
    (hl : lookup l i.key ≠ some y) : y ∈ upsert l i := by
  induction l with
  | nil => simp at h
  | cons x xs ih =>
    by_cases hx : x.key = i.key
    · simp only [upsert, hx, if_true, List.mem_cons]
      rcases List.mem_cons.mp h with h | h
      · subst h; simp [lookup, hx] at hl
      · exact Or.inr h
    · simp only [upsert, hx, if_false, List.mem_cons]
      rcases List.mem_cons.mp h with h | h
      · exact Or.inl h
      · refine Or.inr (ih h ?_)
        simpa [lookup, hx] using hl

theorem nodup_upsert {l : List Instr} (i : Instr) (h : (keys l).Nodup) : (keys (upsert l i)).Nodup := by
  rw [keys_upsert]
  split
  · exact h
  · rename_i hn
    rw [List.nodup_append]
    refine ⟨h, by simp, ?_⟩
    intro a ha b hb
    simp at hb; subst hb
    intro e; subst e; exact hn ha

theorem upsert_of_not_mem {l : List Instr} {i : Instr} (h : i.key ∉ keys l) : upsert l i = l ++ [i] := by
  induction l with
  | nil => rfl
  | cons x xs ih =>
    simp only [keys_cons, List.mem_cons, not_or] at h
    have hx : ¬ x.key = i.key := fun e => h.1 e.symm
    simp [upsert, hx, ih h.2]

theorem kind_upsert {l : List Instr} {i : Instr} {k : Kind} (hl : ∀ x ∈ l, x.kind = k) (hi : i.kind = k) :
    ∀ x ∈ upsert l i, x.kind = k := by
  intro x hx
  rcases mem_upsert_imp hx with h | h
  · subst h; exact hi
  · exact hl x h

/-! ### folds of upsert -/

theorem keys_foldl_upsert (xs l : List Instr) :
    keys (xs.foldl upsert l) = keys l ++ (firstOcc (keys xs)).filter (fun k => k ∉ keys l) := by
  induction xs generalizing l with
  | nil => simp [firstOcc]
  | cons x xs ih =>
    simp only [List.foldl_cons, ih, keys_cons, firstOcc]
    rw [keys_upsert]
    by_cases hx : x.key ∈ keys l
    · simp only [hx, if_true, List.filter_cons, not_true_eq_false, decide_false,
        Bool.false_eq_true, if_false, List.filter_filter]
      congr 1
      apply List.filter_congr
      intro k _
      by_cases hk : k ∈ keys l
      · simp [hk]
      · have : k ≠ x.key := fun e => hk (e ▸ hx)
        simp [hk, this]
    · simp only [hx, if_false, List.filter_cons, not_false_eq_true, decide_true, if_true,
        List.append_assoc, List.singleton_append, List.filter_filter]
      congr 2
      apply List.filter_congr
      intro k _
      by_cases hk : k = x.key <;> simp [hk, hx]

theorem keys_foldl_upsert_nil (xs : List Instr) : keys (xs.foldl upsert []) = firstOcc (keys xs) := by
  rw [keys_foldl_upsert]; simp

theorem lookup_foldl_upsert (xs l : List Instr) (k : String) :
    lookup (xs.foldl upsert l) k = (lookupLast xs k).or (lookup l k) := by
  induction xs generalizing l with
  | nil => simp [lookupLast]
  | cons x xs ih =>
    simp only [List.foldl_cons, ih, lookup_upsert, lookupLast, List.reverse_cons, List.find?_append]
    by_cases hk : x.key = k
    · simp [hk, List.find?]
    · simp [hk, List.find?]

theorem nodup_foldl_upsert (xs : List Instr) {l : List Instr} (h : (keys l).Nodup) :
    (keys (xs.foldl upsert l)).Nodup := by
  induction xs generalizing l with
  | nil => exact h
  | cons x xs ih => exact ih (nodup_upsert x h)

theorem kind_foldl_upsert {xs l : List Instr} {k : Kind} (hl : ∀ x ∈ l, x.kind = k)
    (hx : ∀ x ∈ xs, x.kind = k) : ∀ x ∈ xs.foldl upsert l, x.kind = k := by
  induction xs generalizing l with
  | nil => exact hl
  | cons x xs ih =>
    exact ih (kind_upsert hl (hx x (by simp))) (fun y hy => hx y (List.mem_cons_of_mem _ hy))

theorem foldl_upsert_of_nodup (xs l : List Instr) (h : (keys (l ++ xs)).Nodup) :
    xs.foldl upsert l = l ++ xs := by
  induction xs generalizing l with
  | nil => simp
  | cons x xs ih =>
    have hx : x.key ∉ keys l := by
      intro hm
      rw [keys_append, keys_cons] at h
      have := (List.nodup_append.mp h).2.2 _ hm x.key (by simp)
      exact this rfl
    simp only [List.foldl_cons, upsert_of_not_mem hx]
    rw [ih]
    · simp
    · simpa using h

/-- an association list with duplicate-free keys is determined by its key sequence and its lookups -/
theorem ext_of_keys_lookup {l m : List Instr} (hl : (keys l).Nodup) (hm : (keys m).Nodup)
    (hk : keys l = keys m) (hv : ∀ k, lookup l k = lookup m k) : l = m := by
  induction l generalizing m with
  | nil => cases m with
    | nil => rfl
    | cons y ys => simp at hk
  | cons x xs ih =>
    cases m with
    | nil => simp at hk
    | cons y ys =>
      simp only [keys_cons, List.cons.injEq] at hk
      have hxy : x = y := by
        have := hv x.key
        simp [lookup, hk.1] at this
        exact this
      subst hxy
      congr 1
      have hl' := List.nodup_cons.mp hl
      have hm' := List.nodup_cons.mp hm
      apply ih hl'.2 hm'.2 hk.2
      intro k
      have := hv k
      by_cases hxk : x.key = k
      · subst hxk
        have h1 : lookup xs x.key = none := by
          simp only [lookup, List.find?_eq_none, decide_eq_true_eq]
          intro z hz hzk; exact hl'.1 (mem_keys.mpr ⟨z, hz, hzk⟩)
        have h2 : lookup ys x.key = none := by
          simp only [lookup, List.find?_eq_none, decide_eq_true_eq]
          intro z hz hzk; exact hm'.1 (mem_keys.mpr ⟨z, hz, hzk⟩)
        rw [h1, h2]
      · simpa [lookup, hxk] using this

/-- `extend` with a container built from a history equals inserting the history directly -/
theorem foldl_upsert_foldl_upsert (l xs : List Instr) (hl : (keys l).Nodup) :
    (xs.foldl upsert []).foldl upsert l = xs.foldl upsert l := by
  apply ext_of_keys_lookup (nodup_foldl_upsert _ hl) (nodup_foldl_upsert _ hl)
  · rw [keys_foldl_upsert, keys_foldl_upsert_nil, keys_foldl_upsert xs l,
      firstOcc_of_nodup (firstOcc_nodup _)]
  · intro k
    rw [lookup_foldl_upsert, lookup_foldl_upsert]
    congr 1
    -- the last element with key k of the dedup'd container is the last one of the history
    have hn : (keys (xs.foldl upsert [])).Nodup := nodup_foldl_upsert xs (by simp)
    have h1 : lookup (xs.foldl upsert []) k = lookupLast xs k := by
      rw [lookup_foldl_upsert]; simp [lookup]
    rw [← h1]
    -- with duplicate-free keys, first and last element with a key coincide
    generalize xs.foldl upsert [] = m at hn
    induction m with
    | nil => rfl
    | cons y ys ih =>
      have hn' := List.nodup_cons.mp hn
      simp only [lookupLast, List.reverse_cons, List.find?_append, lookup, List.find?_cons]
      by_cases hy : y.key = k
      · have : List.find? (fun x => decide (x.key = k)) ys.reverse = none := by
          simp only [List.find?_eq_none, List.mem_reverse, decide_eq_true_eq]
          intro z hz hzk; exact hn'.1 (mem_keys.mpr ⟨z, hz, hzk.trans hy.symm⟩)
        simp [hy, this, List.find?]
      · have := ih hn'.2
        simp only [lookupLast, lookup] at this
        simp [hy, this, List.find?]

/-! ### programs: containers, routing, well-formedness -/

theorem Program.ext_container {p q : Program} (h : ∀ k, p.container k = q.container k)
    (hu : p.used = q.used) : p = q := by
  cases p; cases q
  have h0 := h .extern; have h1 := h .decl; have h2 := h .frame; have h3 := h .waveform
  have h4 := h .cal; have h5 := h .mcal; have h6 := h .gateDef; have h7 := h .circuit
  have h8 := h .body
  simp only [Program.container] at h0 h1 h2 h3 h4 h5 h6 h7 h8
  simp only at hu
  simp [h0, h1, h2, h3, h4, h5, h6, h7, h8, hu]

theorem container_add (p : Program) (i : Instr) (k : Kind) :
    (add p i).container k =
      if i.kind = k then (if k = .body then p.container k ++ [i] else upsert (p.container k) i)
      else p.container k := by
  cases k <;> cases hk : i.kind <;> simp [add, Program.container, hk]

theorem used_add (p : Program) (i : Instr) : (add p i).used = p.used ++ i.getQubits := by
  cases hk : i.kind <;> simp [add, hk]

theorem used_addMany (p : Program) (is : List Instr) : (addMany p is).used = p.used ++ qubitsOf is := by
  induction is generalizing p with
  | nil => simp [addMany, qubitsOf]
  | cons i is ih =>
    simp only [addMany, List.foldl_cons] at ih ⊢
    rw [ih, used_add]; simp [qubitsOf]

theorem container_addMany (p : Program) (is : List Instr) (k : Kind) :
    (addMany p is).container k =
      if k = .body then p.container k ++ is.filter (fun x => x.kind = k)
      else (is.filter (fun x => x.kind = k)).foldl upsert (p.container k) := by
  induction is generalizing p with
  | nil => simp [addMany]
  | cons i is ih =>
    simp only [addMany, List.foldl_cons] at ih ⊢
    rw [ih, container_add]
    by_cases hb : k = .body
    · by_cases hi : i.kind = k <;> simp [hb, hi, List.filter_cons] <;> simp_all
    · by_cases hi : i.kind = k <;> simp [hb, hi, List.filter_cons]

/-- every container holds only instructions of its kind, and definition containers have
duplicate-free keys -/
structure WF (p : Program) : Prop where
  kinds : ∀ k, ∀ x ∈ p.container k, x.kind = k
  nodup : ∀ k, k ≠ .body → (keys (p.container k)).Nodup

theorem wf_empty : WF empty := by
  constructor
  · intro k x hx; cases k <;> simp [empty, Program.container] at hx
  · intro k _; cases k <;> simp [empty, Program.container]

theorem wf_add {p : Program} (h : WF p) (i : Instr) : WF (add p i) := by
  constructor
  · intro k x hx
    rw [container_add] at hx
    by_cases hi : i.kind = k
    · by_cases hb : k = .body
      · simp only [hi, hb, if_true, List.mem_append, List.mem_singleton] at hx
        rcases hx with hx | hx
        · exact hb ▸ h.kinds _ x (hb ▸ hx)
        · subst hx; exact hi
      · simp only [hi, hb, if_true, if_false] at hx
        exact kind_upsert (h.kinds k) hi x hx
    · simp only [hi, if_false] at hx
      exact h.kinds k x hx
  · intro k hb
    rw [container_add]
    by_cases hi : i.kind = k
    · simp only [hi, hb, if_true, if_false]
      exact nodup_upsert i (h.nodup k hb)
    · simp only [hi, if_false]; exact h.nodup k hb

theorem wf_addMany {p : Program} (h : WF p) (is : List Instr) : WF (addMany p is) := by
  induction is generalizing p with
  | nil => exact h
  | cons i is ih => exact ih (wf_add h i)

theorem wf_fromInstructions (is : List Instr) : WF (fromInstructions is) := wf_addMany wf_empty is

theorem filter_kind_self {l : List Instr} {k : Kind} (h : ∀ x ∈ l, x.kind = k) :
    l.filter (fun x => x.kind = k) = l := by
  apply List.filter_eq_self.mpr
  intro x hx; simp [h x hx]

theorem filter_kind_other {l : List Instr} {k k' : Kind} (h : ∀ x ∈ l, x.kind = k') (hne : k' ≠ k) :
    l.filter (fun x => x.kind = k) = [] := by
  apply List.filter_eq_nil_iff.mpr
  intro x hx; simp [h x hx, hne]

/-- the listing, filtered by kind, gives the containers back -/
theorem filter_toInstructions {p : Program} (h : WF p) (k : Kind) :
    (toInstructions p).filter (fun x => x.kind = k) = p.container k := by
  have e0 := h.kinds .extern; have e1 := h.kinds .decl; have e2 := h.kinds .frame
  have e3 := h.kinds .waveform; have e4 := h.kinds .cal; have e5 := h.kinds .mcal
  have e6 := h.kinds .gateDef; have e7 := h.kinds .circuit; have e8 := h.kinds .body
  simp only [Program.container] at e0 e1 e2 e3 e4 e5 e6 e7 e8
  simp only [toInstructions, List.filter_append]
  cases k <;> simp only [Program.container]
  all_goals
    first
    | (rw [filter_kind_self e0, filter_kind_other e1 (by decide), filter_kind_other e2 (by decide),
        filter_kind_other e3 (by decide), filter_kind_other e4 (by decide), filter_kind_other e5 (by decide),
        filter_kind_other e6 (by decide), filter_kind_other e7 (by decide), filter_kind_other e8 (by decide)]; simp)
    | (rw [filter_kind_other e0 (by decide), filter_kind_self e1, filter_kind_other e2 (by decide),
        filter_kind_other e3 (by decide), filter_kind_other e4 (by decide), filter_kind_other e5 (by decide),
        filter_kind_other e6 (by decide), filter_kind_other e7 (by decide), filter_kind_other e8 (by decide)]; simp)
    | (rw [filter_kind_other e0 (by decide), filter_kind_other e1 (by decide), filter_kind_self e2,
        filter_kind_other e3 (by decide), filter_kind_other e4 (by decide), filter_kind_other e5 (by decide),
        filter_kind_other e6 (by decide), filter_kind_other e7 (by decide), filter_kind_other e8 (by decide)]; simp)
    | (rw [filter_kind_other e0 (by decide), filter_kind_other e1 (by decide), filter_kind_other e2 (by decide),
        filter_kind_self e3, filter_kind_other e4 (by decide), filter_kind_other e5 (by decide),
        filter_kind_other e6 (by decide), filter_kind_other e7 (by decide), filter_kind_other e8 (by decide)]; simp)
    | (rw [filter_kind_other e0 (by decide), filter_kind_other e1 (by decide), filter_kind_other e2 (by decide),
        filter_kind_other e3 (by decide), filter_kind_self e4, filter_kind_other e5 (by decide),
        filter_kind_other e6 (by decide), filter_kind_other e7 (by decide), filter_kind_other e8 (by decide)]; simp)
    | (rw [filter_kind_other e0 (by decide), filter_kind_other e1 (by decide), filter_kind_other e2 (by decide),
        filter_kind_other e3 (by decide), filter_kind_other e4 (by decide), filter_kind_self e5,
        filter_kind_other e6 (by decide), filter_kind_other e7 (by decide), filter_kind_other e8 (by decide)]; simp)
    | (rw [filter_kind_other e0 (by decide), filter_kind_other e1 (by decide), filter_kind_other e2 (by decide),
        filter_kind_other e3 (by decide), filter_kind_other e4 (by decide), filter_kind_other e5 (by decide),
        filter_kind_self e6, filter_kind_other e7 (by decide), filter_kind_other e8 (by decide)]; simp)
    | (rw [filter_kind_other e0 (by decide), filter_kind_other e1 (by decide), filter_kind_other e2 (by decide),
        filter_kind_other e3 (by decide), filter_kind_other e4 (by decide), filter_kind_other e5 (by decide),
        filter_kind_other e6 (by decide), filter_kind_self e7, filter_kind_other e8 (by decide)]; simp)
    | (rw [filter_kind_other e0 (by decide), filter_kind_other e1 (by decide), filter_kind_other e2 (by decide),
        filter_kind_other e3 (by decide), filter_kind_other e4 (by decide), filter_kind_other e5 (by decide),
        filter_kind_other e6 (by decide), filter_kind_other e7 (by decide), filter_kind_self e8]; simp)

theorem mem_toInstructions {p : Program} {x : Instr} :
    x ∈ toInstructions p ↔ ∃ k, x ∈ p.container k := by
  constructor
  · intro h
    simp only [toInstructions, List.mem_append] at h
    rcases h with h | h | h | h | (h | h) | h | h | h
    · exact ⟨.extern, h⟩
    · exact ⟨.decl, h⟩
    · exact ⟨.frame, h⟩
    · exact ⟨.waveform, h⟩
    · exact ⟨.cal, h⟩
    · exact ⟨.mcal, h⟩
    · exact ⟨.gateDef, h⟩
    · exact ⟨.circuit, h⟩
    · exact ⟨.body, h⟩
  · rintro ⟨k, h⟩
    simp only [toInstructions, List.mem_append]
    cases k <;> simp only [Program.container] at h <;> simp [h]

theorem intoInstructions_eq (p : Program) : intoInstructions p = toInstructions p := by
  simp [intoInstructions, toInstructions]

/-! ### equality and the cache invariant -/

theorem lookup_of_mem_nodup {l : List Instr} {x : Instr} (hx : x ∈ l) (hn : (keys l).Nodup) :
    lookup l x.key = some x := by
  induction l with
  | nil => simp at hx
  | cons y ys ih =>
    have hn' := List.nodup_cons.mp hn
    rcases List.mem_cons.mp hx with h | h
    · subst h; simp [lookup]
    · have hne : ¬ y.key = x.key := fun e => hn'.1 (mem_keys.mpr ⟨x, h, e.symm⟩)
      have := ih h hn'.2
      simp only [lookup] at this
      simp [lookup, List.find?, hne, this]

theorem subset_iff {a b : List Qubit} : subset a b = true ↔ ∀ q ∈ a, q ∈ b := by
  simp [subset]

theorem setEq_iff {a b : List Qubit} : setEq a b = true ↔ ∀ q, q ∈ a ↔ q ∈ b := by
  simp only [setEq, Bool.and_eq_true, subset_iff]
  constructor
  · rintro ⟨h1, h2⟩ q; exact ⟨h1 q, h2 q⟩
  · intro h; exact ⟨fun q => (h q).mp, fun q => (h q).mpr⟩

/-- the C10 invariant: the cache is, as a set, the qubits of the listing -/
def Inv (p : Program) : Prop := ∀ q, q ∈ p.used ↔ q ∈ qubitsOf (toInstructions p)

theorem invB_iff (p : Program) : invB p = true ↔ Inv p := by
  simp [invB, Inv, setEq_iff]

theorem mapEq_self {l : List Instr} (hn : (keys l).Nodup) : mapEq l l = true := by
  simp only [mapEq, beq_self_eq_true, Bool.true_and, List.all_eq_true]
  intro x hx
  have := lookup_of_mem_nodup hx hn
  simp only [lookup] at this
  have e : (fun y : Instr => y.key == x.key) = (fun y : Instr => decide (y.key = x.key)) := by
    funext y; first | rfl | exact beq_eq_decide _ _
  rw [e, this]; simp

theorem vecEq_self (l : List Instr) : vecEq l l = true := by simp [vecEq]

/-- programs with the same containers whose caches are equal as sets compare equal -/
theorem progEq_of_containers {p q : Program} (hp : WF p) (h : ∀ k, p.container k = q.container k)
    (hu : ∀ x, x ∈ p.used ↔ x ∈ q.used) : progEq p q = true := by
  have h0 := h .extern; have h1 := h .decl; have h2 := h .frame; have h3 := h .waveform
  have h4 := h .cal; have h5 := h .mcal; have h6 := h .gateDef; have h7 := h .circuit
  have h8 := h .body
  simp only [Program.container] at h0 h1 h2 h3 h4 h5 h6 h7 h8
  have n0 := hp.nodup .extern (by decide); have n1 := hp.nodup .decl (by decide)
  have n2 := hp.nodup .frame (by decide); have n3 := hp.nodup .waveform (by decide)
  have n6 := hp.nodup .gateDef (by decide); have n7 := hp.nodup .circuit (by decide)
  simp only [Program.container] at n0 n1 n2 n3 n6 n7
  simp only [progEq, ← h0, ← h1, ← h2, ← h3, ← h4, ← h5, ← h6, ← h7, ← h8, vecEq_self, mapEq_self n0,
    mapEq_self n1, mapEq_self n2, mapEq_self n3, mapEq_self n6, mapEq_self n7, Bool.true_and,
    setEq_iff]
  exact hu

theorem progEq_used {p q : Program} (h : progEq p q = true) : ∀ x, x ∈ p.used ↔ x ∈ q.used := by
  simp only [progEq, Bool.and_eq_true] at h
  exact setEq_iff.mp h.2

theorem toInstructions_eq_flatMap (p : Program) :
    toInstructions p = Kind.all.flatMap (fun k => p.container k) := by
  simp [toInstructions, Kind.all, Program.container]

/-- `from_instructions(to_instructions(p))` restores every container; the cache is recomputed -/
theorem fromInstructions_toInstructions {p : Program} (h : WF p) :
    fromInstructions (toInstructions p) = rebuildUsed p := by
  apply Program.ext_container
  · intro k
    rw [fromInstructions, container_addMany, filter_toInstructions h k]
    by_cases hb : k = .body
    · subst hb; simp [empty, Program.container, rebuildUsed]
    · simp only [hb, if_false]
      have he : empty.container k = [] := by cases k <;> rfl
      rw [he, foldl_upsert_of_nodup _ _ (by simpa using h.nodup k hb)]
      cases k <;> simp [rebuildUsed, Program.container]
  · rw [fromInstructions, used_addMany]; simp [empty, rebuildUsed]

theorem wf_rebuildUsed {p : Program} (h : WF p) : WF (rebuildUsed p) := by
  constructor
  · intro k; have := h.kinds k; cases k <;> simpa [rebuildUsed, Program.container] using this
  · intro k hb; have := h.nodup k hb; cases k <;> simpa [rebuildUsed, Program.container] using this

theorem toInstructions_rebuildUsed (p : Program) : toInstructions (rebuildUsed p) = toInstructions p := by
  simp [rebuildUsed, toInstructions]

theorem inv_rebuildUsed (p : Program) : Inv (rebuildUsed p) := by
  intro q; rw [toInstructions_rebuildUsed]; simp [rebuildUsed]

/-! ### the two halves of the invariant -/

/-- every qubit mentioned by the listing is in the cache -/
def Complete (p : Program) : Prop := ∀ q, q ∈ qubitsOf (toInstructions p) → q ∈ p.used
/-- every qubit in the cache is mentioned by the listing (nothing stale) -/
def Fresh (p : Program) : Prop := ∀ q, q ∈ p.used → q ∈ qubitsOf (toInstructions p)

theorem inv_iff (p : Program) : Inv p ↔ Complete p ∧ Fresh p :=
  ⟨fun h => ⟨fun q => (h q).mpr, fun q => (h q).mp⟩, fun h q => ⟨h.2 q, h.1 q⟩⟩

theorem mem_Q {p : Program} {q : Qubit} :
    q ∈ qubitsOf (toInstructions p) ↔ ∃ k, ∃ x ∈ p.container k, q ∈ x.getQubits := by
  simp only [qubitsOf, List.mem_flatMap, mem_toInstructions]
  constructor
  · rintro ⟨x, ⟨k, hx⟩, hq⟩; exact ⟨k, x, hx, hq⟩
  · rintro ⟨k, x, hx, hq⟩; exact ⟨x, ⟨k, hx⟩, hq⟩

theorem getQubits_nil_of_kind {x : Instr} (h1 : x.kind ≠ .cal) (h2 : x.kind ≠ .mcal) (h3 : x.kind ≠ .body) :
    x.getQubits = [] := by
  cases hk : x.kind <;> simp_all [Instr.getQubits]

/-- with homogeneous containers only calibrations and the body carry qubits -/
theorem mem_Q_wf {p : Program} (h : WF p) {q : Qubit} :
    q ∈ qubitsOf (toInstructions p) ↔ ∃ x, (x ∈ p.cals ∨ x ∈ p.mcals ∨ x ∈ p.body) ∧ q ∈ x.getQubits := by
  rw [mem_Q]
  constructor
  · rintro ⟨k, x, hx, hq⟩
    have hk := h.kinds k x hx
    by_cases h1 : k = .cal
    · subst h1; exact ⟨x, Or.inl hx, hq⟩
    by_cases h2 : k = .mcal
    · subst h2; exact ⟨x, Or.inr (Or.inl hx), hq⟩
    by_cases h3 : k = .body
    · subst h3; exact ⟨x, Or.inr (Or.inr hx), hq⟩
    rw [getQubits_nil_of_kind (hk ▸ h1) (hk ▸ h2) (hk ▸ h3)] at hq
    simp at hq
  · rintro ⟨x, hx | hx | hx, hq⟩
    · exact ⟨.cal, x, hx, hq⟩
    · exact ⟨.mcal, x, hx, hq⟩
    · exact ⟨.body, x, hx, hq⟩

/-- programs that agree on calibrations and body mention the same qubits -/
theorem Q_congr {p p' : Program} (h : WF p) (h' : WF p') (hc : p.cals = p'.cals) (hm : p.mcals = p'.mcals)
    (hb : p.body = p'.body) (q : Qubit) :
    q ∈ qubitsOf (toInstructions p) ↔ q ∈ qubitsOf (toInstructions p') := by
  rw [mem_Q_wf h, mem_Q_wf h', hc, hm, hb]

/-! #### add -/

theorem mem_container_add {p : Program} {i x : Instr} {k : Kind} (h : x ∈ (add p i).container k) :
    x = i ∨ x ∈ p.container k := by
  rw [container_add] at h
  by_cases hi : i.kind = k
  · by_cases hb : k = .body
    · simp only [hi, hb, if_true, List.mem_append, List.mem_singleton] at h
      rcases h with h | h
      · exact Or.inr (hb ▸ h)
      · exact Or.inl h
    · simp only [hi, hb, if_true, if_false] at h
      exact mem_upsert_imp h
  · simp only [hi, if_false] at h; exact Or.inr h

theorem self_mem_container_add (p : Program) (i : Instr) : i ∈ (add p i).container i.kind := by
  rw [container_add]
  by_cases hb : i.kind = .body
  · simp [hb]
  · simp [hb, mem_upsert_self]

theorem complete_add {p : Program} (h : Complete p) (i : Instr) : Complete (add p i) := by
  intro q hq
  rw [used_add, List.mem_append]
  obtain ⟨k, x, hx, hqx⟩ := mem_Q.mp hq
  rcases mem_container_add hx with e | hx'
  · subst e; exact Or.inr hqx
  · exact Or.inl (h q (mem_Q.mpr ⟨k, x, hx', hqx⟩))

theorem complete_addMany {p : Program} (h : Complete p) (is : List Instr) : Complete (addMany p is) := by
  induction is generalizing p with
  | nil => exact h
  | cons i is ih => exact ih (complete_add h i)

/-- the definition `add p i` overwrites, if any -/
def replacedBy (p : Program) (i : Instr) : Option Instr :=
  if i.kind = .body then none else lookup (p.container i.kind) i.key

theorem mem_container_add_of_not_replaced {p : Program} {i x : Instr} {k : Kind}
    (hx : x ∈ p.container k) (hr : replacedBy p i ≠ some x ∨ k ≠ i.kind) : x ∈ (add p i).container k := by
  rw [container_add]
  by_cases hi : i.kind = k
  · by_cases hb : k = .body
    · simp [hi, hb]; exact Or.inl (hb ▸ hx)
    · simp only [hi, hb, if_true, if_false]
      apply mem_upsert_of_not_lookup hx
      rcases hr with hr | hr
      · simpa [replacedBy, hi, hb] using hr
      · exact absurd hi.symm hr
  · simp only [hi, if_false]; exact hx

theorem fresh_add {p : Program} (h : Fresh p) (i : Instr)
    (hc : ∀ old, replacedBy p i = some old → ∀ q ∈ old.getQubits, q ∈ qubitsOf (toInstructions (add p i))) :
    Fresh (add p i) := by
  intro q hq
  rw [used_add, List.mem_append] at hq
  rcases hq with hq | hq
  · obtain ⟨k, x, hx, hqx⟩ := mem_Q.mp (h q hq)
    by_cases hr : replacedBy p i = some x ∧ k = i.kind
    · exact hc x hr.1 q hqx
    · have : replacedBy p i ≠ some x ∨ k ≠ i.kind := by
        by_cases h1 : replacedBy p i = some x
        · exact Or.inr (fun e => hr ⟨h1, e⟩)
        · exact Or.inl h1
      exact mem_Q.mpr ⟨k, x, mem_container_add_of_not_replaced hx this, hqx⟩
  · exact mem_Q.mpr ⟨i.kind, i, self_mem_container_add p i, hq⟩

theorem replacedBy_mem {p : Program} {i old : Instr} (h : replacedBy p i = some old) :
    old ∈ p.container i.kind := by
  by_cases hb : i.kind = .body
  · simp [replacedBy, hb] at h
  · simp only [replacedBy, hb, if_false, lookup] at h
    exact List.mem_of_find?_eq_some h

/-- conversely (tightness): when the cache was complete, freshness after `add` forces every qubit
of the replaced definition to be mentioned by the new listing -/
theorem fresh_add_imp {p : Program} (hc : Complete p) (i : Instr) (hf : Fresh (add p i))
    (old : Instr) (hr : replacedBy p i = some old) :
    ∀ q ∈ old.getQubits, q ∈ qubitsOf (toInstructions (add p i)) := by
  intro q hq
  apply hf
  rw [used_add, List.mem_append]
  exact Or.inl (hc q (mem_Q.mpr ⟨i.kind, old, replacedBy_mem hr, hq⟩))

/-! #### folds of upsert: membership -/

theorem mem_foldl_upsert_imp {xs l : List Instr} {y : Instr} (h : y ∈ xs.foldl upsert l) :
    y ∈ l ∨ y ∈ xs := by
  induction xs generalizing l with
  | nil => exact Or.inl h
  | cons x xs ih =>
    rcases ih h with h | h
    · rcases mem_upsert_imp h with e | h
      · subst e; exact Or.inr (by simp)
      · exact Or.inl h
    · exact Or.inr (List.mem_cons_of_mem _ h)

theorem mem_foldl_upsert_of_not_key {xs l : List Instr} {y : Instr} (hy : y ∈ l) (hk : y.key ∉ keys xs) :
    y ∈ xs.foldl upsert l := by
  induction xs generalizing l with
  | nil => exact hy
  | cons x xs ih =>
    simp only [keys_cons, List.mem_cons, not_or] at hk
    exact ih (mem_upsert_of_ne hy hk.1) hk.2

theorem lookupLast_of_mem_nodup {l : List Instr} {x : Instr} (hx : x ∈ l) (hn : (keys l).Nodup) :
    lookupLast l x.key = some x := by
  have hn' : (keys l.reverse).Nodup := by
    simp only [keys, List.map_reverse]; exact List.pairwise_reverse.mpr (List.Pairwise.imp (fun h => Ne.symm h) hn)
  have := lookup_of_mem_nodup (List.mem_reverse.mpr hx) hn'
  simpa [lookup, lookupLast] using this

theorem mem_foldl_upsert_of_mem_nodup {xs l : List Instr} {y : Instr} (hy : y ∈ xs) (hn : (keys xs).Nodup) :
    y ∈ xs.foldl upsert l := by
  have h := lookup_foldl_upsert xs l y.key
  rw [lookupLast_of_mem_nodup hy hn] at h
  have h' : lookup (xs.foldl upsert l) y.key = some y := by simpa using h
  exact List.mem_of_find?_eq_some h'

/-! #### concat -/

theorem container_concat (p q : Program) (k : Kind) :
    (concat p q).container k =
      if k = .body then p.container k ++ q.container k else extendMap (p.container k) (q.container k) := by
  cases k <;> simp [concat, Program.container]

theorem wf_concat {p q : Program} (hp : WF p) (hq : WF q) : WF (concat p q) := by
  constructor
  · intro k x hx
    rw [container_concat] at hx
    by_cases hb : k = .body
    · simp only [hb, if_true, List.mem_append] at hx
      rcases hx with hx | hx
      · exact hb ▸ hp.kinds _ x hx
      · exact hb ▸ hq.kinds _ x hx
    · simp only [hb, if_false, extendMap] at hx
      exact kind_foldl_upsert (hp.kinds k) (hq.kinds k) x hx
  · intro k hb
    rw [container_concat]
    simp only [hb, if_false, extendMap]
    exact nodup_foldl_upsert _ (hp.nodup k hb)

theorem complete_concat {p q : Program} (hp : Complete p) (hq : Complete q) : Complete (concat p q) := by
  intro x hx
  obtain ⟨k, y, hy, hxy⟩ := mem_Q.mp hx
  have hu : (concat p q).used = p.used ++ q.used := rfl
  rw [hu, List.mem_append]
  rw [container_concat] at hy
  by_cases hb : k = .body
  · simp only [hb, if_true, List.mem_append] at hy
    rcases hy with hy | hy
    · exact Or.inl (hp x (mem_Q.mpr ⟨_, y, hy, hxy⟩))
    · exact Or.inr (hq x (mem_Q.mpr ⟨_, y, hy, hxy⟩))
  · simp only [hb, if_false, extendMap] at hy
    rcases mem_foldl_upsert_imp hy with hy | hy
    · exact Or.inl (hp x (mem_Q.mpr ⟨_, y, hy, hxy⟩))
    · exact Or.inr (hq x (mem_Q.mpr ⟨_, y, hy, hxy⟩))

/-- the definitions of `p` that `p += q` overwrites (Prop form) -/
def Overwritten (p q : Program) (y : Instr) : Prop :=
  ∃ k, k ≠ .body ∧ y ∈ p.container k ∧ y.key ∈ keys (q.container k)

theorem fresh_concat {p q : Program} (hp : Fresh p) (hq : Fresh q) (hwq : WF q)
    (hc : ∀ y, Overwritten p q y → ∀ x ∈ y.getQubits, x ∈ qubitsOf (toInstructions (concat p q))) :
    Fresh (concat p q) := by
  intro x hx
  have hu : (concat p q).used = p.used ++ q.used := rfl
  rw [hu, List.mem_append] at hx
  rcases hx with hx | hx
  · obtain ⟨k, y, hy, hxy⟩ := mem_Q.mp (hp x hx)
    by_cases hb : k = .body
    · refine mem_Q.mpr ⟨k, y, ?_, hxy⟩
      rw [container_concat]; simp [hb]; exact Or.inl (hb ▸ hy)
    · by_cases hk : y.key ∈ keys (q.container k)
      · exact hc y ⟨k, hb, hy, hk⟩ x hxy
      · refine mem_Q.mpr ⟨k, y, ?_, hxy⟩
        rw [container_concat]; simp only [hb, if_false, extendMap]
        exact mem_foldl_upsert_of_not_key hy hk
  · obtain ⟨k, y, hy, hxy⟩ := mem_Q.mp (hq x hx)
    refine mem_Q.mpr ⟨k, y, ?_, hxy⟩
    rw [container_concat]
    by_cases hb : k = .body
    · simp [hb]; exact Or.inr (hb ▸ hy)
    · simp only [hb, if_false, extendMap]
      exact mem_foldl_upsert_of_mem_nodup hy (hwq.nodup k hb)

/-! #### container surgery: clone, filters, new body -/

theorem wf_of_sub {p p' : Program} (h : WF p)
    (hs : ∀ k, (p'.container k).Sublist (p.container k)) : WF p' := by
  constructor
  · intro k x hx; exact h.kinds k x ((hs k).subset hx)
  · intro k hb
    have : (keys (p'.container k)).Sublist (keys (p.container k)) := by
      simpa [keys] using (hs k).map (fun x : Instr => x.key)
    exact (h.nodup k hb).sublist this

theorem wf_cloneWithoutBody {p : Program} (h : WF p) : WF (cloneWithoutBody p) := by
  apply wf_of_sub h
  intro k; cases k <;> simp [cloneWithoutBody, Program.container]

theorem fresh_cloneWithoutBody (p : Program) : Fresh (cloneWithoutBody p) := by
  intro q hq; simp [cloneWithoutBody] at hq

/-- histories without repeated keys: the listing is a rearrangement of the history, so the cache
(the history's qubits) is exact -/
theorem inv_fromInstructions_of_distinct (is : List Instr)
    (hd : ∀ k, k ≠ .body → (keys (ofKind k is)).Nodup) : Inv (fromInstructions is) := by
  intro q
  have hu : (fromInstructions is).used = qubitsOf is := by
    simp [fromInstructions, used_addMany, empty]
  rw [hu]
  simp only [qubitsOf, List.mem_flatMap]
  constructor
  · rintro ⟨x, hx, hq⟩
    refine ⟨x, ?_, hq⟩
    rw [mem_toInstructions]
    refine ⟨x.kind, ?_⟩
    rw [fromInstructions, container_addMany]
    have he : empty.container x.kind = [] := by cases x.kind <;> rfl
    by_cases hb : x.kind = .body
    · simp [hb, he, hx]
    · simp only [hb, if_false, he]
      rw [foldl_upsert_of_nodup _ _ (by simpa [ofKind] using hd x.kind hb)]
      simp [hx]
  · rintro ⟨x, hx, hq⟩
    refine ⟨x, ?_, hq⟩
    rw [mem_toInstructions] at hx
    obtain ⟨k, hx⟩ := hx
    rw [fromInstructions, container_addMany] at hx
    have he : empty.container k = [] := by cases k <;> rfl
    by_cases hb : k = .body
    · subst hb
      simp only [if_true, he, List.nil_append, List.mem_filter] at hx; exact hx.1
    · simp only [hb, if_false, he] at hx
      rw [foldl_upsert_of_nodup _ _ (by simpa [ofKind] using hd k hb)] at hx
      simp only [List.nil_append, List.mem_filter] at hx; exact hx.1

theorem maskFilter_sublist (l : List Instr) (m : List Bool) : (maskFilter l m).Sublist l := by
  induction l generalizing m with
  | nil => cases m <;> simp [maskFilter]
  | cons x xs ih =>
    cases m with
    | nil => simp [maskFilter]
    | cons b bs =>
      cases b
      · simp only [maskFilter, Bool.false_eq_true, if_false]; exact (ih bs).cons x
      · simp only [maskFilter, if_true]; exact (ih bs).cons_cons x

/-- a sub-listing of a well-formed program has no repeated keys -/
theorem distinct_of_sublist {p : Program} (h : WF p) {l : List Instr} (hs : l.Sublist (toInstructions p)) :
    ∀ k, k ≠ .body → (keys (ofKind k l)).Nodup := by
  intro k hb
  have h1 : (ofKind k l).Sublist (ofKind k (toInstructions p)) := by
    simpa [ofKind] using hs.filter (fun x : Instr => decide (x.kind = k))
  have h2 : ofKind k (toInstructions p) = p.container k := filter_toInstructions h k
  rw [h2] at h1
  have : (keys (ofKind k l)).Sublist (keys (p.container k)) := by
    simpa [keys] using h1.map (fun x : Instr => x.key)
  exact (h.nodup k hb).sublist this

theorem inv_filterInstructions {p : Program} (h : WF p) (mask : List Bool) :
    Inv (filterInstructions p mask) :=
  inv_fromInstructions_of_distinct _ (distinct_of_sublist h (maskFilter_sublist _ _))

end QV.Prog
