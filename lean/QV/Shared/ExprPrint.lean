import QV.Shared.Token
import QV.Shared.Ast
import QV.Shared.DecF64
/-
QV.Shared.ExprPrint — the TOKEN-LEVEL model of quil-rs's expression printer (no Mathlib; imports only other
QV model files).  Built for C03 ("serialized expressions denote the same value when parsed back"), meant
to be reused by C02 / C04 (print → re-parse of whole programs).

Rust (quil-rs/src/expression/mod.rs, as of /repo commits 455932e + a634ce0):

  `impl Quil for Expression::write`   (mod.rs:694-740)  ↔ `printTop`
  `format_inner_expression`           (mod.rs:771-795)  ↔ `inner`  (= `printTop`, wrapped in parentheses
                                                           exactly when `needsParens`)
  `format_complex`                    (mod.rs:667-690)  ↔ `complexToks`
  `is_printed_as_infix`               (mod.rs:744)      ↔ `isPrintedAsInfix`
  `starts_with_minus`                 (mod.rs:750-767)  ↔ `startsWithMinus`
  `impl Quil for MemoryReference`     (declaration.rs:278) `name[index]`
  `Display for ExpressionFunction / PrefixOperator / InfixOperator` (mod.rs:849, 888, 925)

The printer is modelled as a function to the TOKENS the real lexer produces from the text the real printer
writes (the correspondence check C03 compares `lex_tokens(e.to_quil())` with `printExprTokens e` on every
case).  What the characters look like between tokens (the infix minus is written `" - "`, everything else
without spaces) is not part of this model: see `printExprChars` at the end for the character-level
rendering of everything except numeric leaves.

## Numbers

Expressions are `PExpr = Expr CBits`: a `Complex64` is the pair of the IEEE-754 bit patterns of its
components, so every decision `format_complex` takes (`== 0f64`, `> 0f64`, `< 0f64`) is a function of the
bits, modelled exactly (`fZero`, `fGtZero`, `fLtZero`, also for NaN and the infinities).

The DECIMAL TEXT of a double and its re-lexing (`lexical::to_string_with_options` / `lexical::parse…`)
cannot be modelled in Lean.  They are abstracted by `NumFmt`: for the MAGNITUDE of a finite non-zero
double, the token that the lexer produces from the text written with `FORMAT_REAL_OPTIONS`
(`trim_floats`: `2.0` is written `2`, which lexes as `Integer 2`; `1.5` → `Float`; `1e15` → `Float`) resp.
`FORMAT_IMAGINARY_OPTIONS` (never trimmed: always a `Float`).  A negative double is written as `-`
followed by the text of its magnitude, and the lexer turns a leading `-` into `Operator Minus`
(`lex_operator` comes before `lex_number` in `lex_token`).  The **NumTok hypothesis** of the round-trip
theorems is `numTokOk`: the token denotes the very same bits (`tokBits`).  `stdFmt` is the concrete
formatter the drivers use; the hypothesis for it is VALIDATED on every numeric leaf of every generated
case (C03 correspondence), not proved.
-/
namespace QV.ExprPrint
open QV QV.Tok QV.Ast

/-! ## doubles as bit patterns -/

def two63 : Nat := 9223372036854775808
def two64 : Nat := 18446744073709551616
/-- bits of `+∞` -/
def infBits : Nat := 0x7FF0000000000000
/-- bits of `-∞` -/
def negInfBits : Nat := 0xFFF0000000000000

/-- `x == 0f64` -/
def fZero (b : Nat) : Bool := b == 0 || b == two63
/-- `x > 0f64` (false for NaN and both zeros) -/
def fGtZero (b : Nat) : Bool := decide (0 < b) && decide (b ≤ infBits)
/-- `x < 0f64` (false for NaN and both zeros) -/
def fLtZero (b : Nat) : Bool := decide (two63 < b) && decide (b ≤ negInfBits)
/-- the sign bit (what decides whether the decimal text starts with `-`) -/
def fSign (b : Nat) : Bool := decide (two63 ≤ b)
/-- bits of `|x|` -/
def fAbs (b : Nat) : Nat := if two63 ≤ b then b - two63 else b
/-- a finite double that is not `-0.0` (and a genuine 64-bit pattern) -/
def plainBits (b : Nat) : Bool := decide (b < two64) && decide (b % two63 < infBits) && b != two63

/-! ## the number formatter / lexer interface (NumTok) -/

/-- For the bits `m` of a finite POSITIVE double: the token the lexer produces from the decimal text the
printer writes for it as a real part (`real`, `FORMAT_REAL_OPTIONS`) resp. as an imaginary part (`imag`,
`FORMAT_IMAGINARY_OPTIONS`). -/
structure NumFmt where
  real : Nat → Token
  imag : Nat → Token

/-- the double a numeric token denotes in an expression: `parse_immediate_value` (parser/expression.rs:121)
uses `*value as f64` for an `Integer` and `*value` for a `Float` -/
def tokBits : Token → Option Nat
  | .integer n => some (QV.DecF64.ofNat n)
  | .float b => some b
  | _ => none

/-- the value of a finite non-negative double with these bits if it is an integer, else `none` -/
def intValue? (b : Nat) : Option Nat :=
  let e := b / QV.DecF64.two52
  let m := b % QV.DecF64.two52
  if e = 0 then (if m = 0 then some 0 else none)
  else
    let sig := QV.DecF64.two52 + m
    if 1075 ≤ e then some (sig * 2 ^ (e - 1075))
    else
      let s := 1075 - e
      if s ≤ 52 ∧ sig % 2 ^ s = 0 then some (sig / 2 ^ s) else none

/-- The concrete formatter: `lexical` with `trim_floats(true)` and `positive_exponent_break(15)` writes an
integer-valued double below `10^16` (decimal exponent ≤ 15) as its digits (→ `Integer`), everything else with a `.` or an exponent
(→ `Float`); with `trim_floats(false)` there is always a `.` (→ `Float`).  Checked against the real printer
and lexer on every numeric leaf the C03 harness generates. -/
def stdFmt : NumFmt where
  real := fun b =>
    match intValue? b with
    | some n => if n < 10 ^ 16 then .integer n else .float b
    | none => .float b
  imag := fun b => .float b

/-! ## `format_complex` -/

/-- the text of one double: an optional `-` and the text of the magnitude -/
def signedToks (f : Nat → Token) (b : Nat) : List Token :=
  if fSign b then [.operator .minus, f (b - two63)] else [f b]

/-- `is_printed_as_infix` (mod.rs:744) -/
def isPrintedAsInfix (z : CBits) : Bool := !fZero z.re && !fZero z.im

def tokI : Token := .identifier ['i']

/-- `format_complex` (mod.rs:667): zero ↦ `0`; real only; imaginary only (`2.0i` lexes as the number
followed by the identifier `i`); both (`1+2.0i`, `1-2.0i`: the `+` is written only when `im > 0`, a
negative imaginary part brings its own `-`). -/
def complexToks (F : NumFmt) (z : CBits) : List Token :=
  if fZero z.re && fZero z.im then [.integer 0]
  else if fZero z.im then signedToks F.real z.re
  else if fZero z.re then signedToks F.imag z.im ++ [tokI]
  else signedToks F.real z.re ++ (if fGtZero z.im then [.operator .plus] else []) ++
        signedToks F.imag z.im ++ [tokI]

/-! ## `Quil for Expression` -/

/-- `starts_with_minus` (mod.rs:750) -/
def startsWithMinus : PExpr → Bool
  | .number z =>
    if isPrintedAsInfix z then false
    else if !fZero z.re then fLtZero z.re
    else fLtZero z.im
  | .pre .minus _ => true
  | .pre .plus e => startsWithMinus e
  | _ => false

/-- does `format_inner_expression` (mod.rs:771) wrap this expression in parentheses? -/
def needsParens : PExpr → Bool
  | .bin _ _ _ => true
  | .number z => isPrintedAsInfix z
  | _ => false

def wrapIf (b : Bool) (ts : List Token) : List Token :=
  if b then .lParenthesis :: (ts ++ [.rParenthesis]) else ts

/-- `Display for ExpressionFunction` (mod.rs:849) -/
def fnName : ExprFn → List Char
  | .cis => ['c', 'i', 's'] | .cos => ['c', 'o', 's'] | .exp => ['e', 'x', 'p']
  | .sin => ['s', 'i', 'n'] | .sqrt => ['s', 'q', 'r', 't']

/-- `Display for InfixOperator` (mod.rs:925) as the operator token it lexes to -/
def opOf : InfixOp → Operator
  | .caret => .caret | .plus => .plus | .minus => .minus | .slash => .slash | .star => .star

/-- `Display for PrefixOperator` (mod.rs:888): `Plus` is written as the empty string -/
def prefixToks : PrefixOp → List Token
  | .plus => []
  | .minus => [.operator .minus]

def tokPi : Token := .identifier ['p', 'i']

/-- `impl Quil for Expression :: write` (mod.rs:694), as tokens.  `format_inner_expression x` is
`wrapIf (needsParens x) (printTop x)` (`inner` below).  Region names are taken to lex as `Identifier`
tokens here; what the lexer really does with a name is `relex` (see `printExprTokens`). -/
def printTop (F : NumFmt) : PExpr → List Token
  | .address r => [.identifier r.name.toList, .lBracket, .integer r.index, .rBracket]
  | .call f e => .identifier (fnName f) :: .lParenthesis :: (printTop F e ++ [.rParenthesis])
  | .bin l o r =>
    wrapIf (needsParens l) (printTop F l) ++ .operator (opOf o) :: wrapIf (needsParens r) (printTop F r)
  | .number z => complexToks F z
  | .pi => [tokPi]
  | .pre op e =>
    prefixToks op ++
      wrapIf (op == .minus && startsWithMinus e) (wrapIf (needsParens e) (printTop F e))
  | .var x => [.variable x.toList]

/-- `format_inner_expression` (mod.rs:771) -/
def inner (F : NumFmt) (e : PExpr) : List Token := wrapIf (needsParens e) (printTop F e)

/-- What the lexer makes of a written name (`keyword_or_identifier`, lexer/mod.rs:190): a name spelled like
a reserved word (`ADD`, `DAGGER`, `mut`, `BIT`, `PAULI-SUM` …) comes back as a `Command` / `Modifier` /
`DataType` / keyword token, not as an `Identifier`. -/
def relex : Token → Token
  | .identifier s => keywordOrIdentifier s
  | t => t

/-- the printer with the concrete number formatter and the lexer's classification of names: what
`lex_tokens(e.to_quil())` returns (compared on every case of the C03 correspondence).  It differs from
`printTop stdFmt e` exactly when a memory region is named like a reserved word — then the text does not
parse back (known finding C03/reserved-word-region-name); `QV.ExprRoundTrip.printExprTokens_eq` proves the
two equal under `plainNames`. -/
def printExprTokens (e : PExpr) : List Token := (printTop stdFmt e).map relex

/-! ## what the printed tokens parse back to -/

/-- the tree a printed `Complex64` parses back to: a negative component becomes a prefix minus on its
magnitude, a number with both parts an infix sum / difference of the two -/
def numTree (z : CBits) : PExpr :=
  let reT : PExpr := if fSign z.re then .pre .minus (.number ⟨z.re - two63, 0⟩) else .number ⟨z.re, 0⟩
  if fZero z.re && fZero z.im then .number ⟨0, 0⟩
  else if fZero z.im then reT
  else if fZero z.re then
    (if fSign z.im then .pre .minus (.number ⟨0, z.im - two63⟩) else .number ⟨0, z.im⟩)
  else if fGtZero z.im then .bin reT .plus (.number ⟨0, z.im⟩)
  else .bin reT .minus (.number ⟨0, fAbs z.im⟩)

/-- the tree `printTop e` parses back to (`QV.ExprRoundTrip.parse_printTop`): numbers as `numTree`, prefix
plus disappears (it is written as the empty string), parentheses leave no node, everything else is kept -/
def norm : PExpr → PExpr
  | .address r => .address r
  | .call f e => .call f (norm e)
  | .bin l o r => .bin (norm l) o (norm r)
  | .number z => numTree z
  | .pi => .pi
  | .pre .plus e => norm e
  | .pre .minus e => .pre .minus (norm e)
  | .var x => .var x

/-! ## hypotheses of the round-trip theorems, as decidable predicates -/

/-- a predicate on every numeric leaf -/
def allLits (p : CBits → Bool) : PExpr → Bool
  | .call _ e => allLits p e
  | .bin l _ r => allLits p l && allLits p r
  | .number z => p z
  | .pre _ e => allLits p e
  | _ => true

/-- `FiniteLits`: every numeric literal has finite components, none of which is `-0.0`.  (The sign of a
zero is not printed — `format_complex` tests `== 0f64` — so `Number(-4 - 0.0i)` is written `-4` and reads
back as `-4 + 0.0i`, on the other side of the branch cut of `sqrt`; see docs/C03.md.) -/
def finiteLits (e : PExpr) : Bool := allLits (fun z => plainBits z.re && plainBits z.im) e

/-- a predicate on every memory reference -/
def allAddrs (p : MemRef → Bool) : PExpr → Bool
  | .address r => p r
  | .call _ e => allAddrs p e
  | .bin l _ r => allAddrs p l && allAddrs p r
  | .pre _ e => allAddrs p e
  | _ => true

/-- no memory region is named like a reserved word of the lexer (then its name lexes as an `Identifier`
token — given that it is a valid identifier at all, which is a character-level matter outside this model) -/
def plainNames (e : PExpr) : Bool := allAddrs (fun r => !isReservedWord r.name.toList) e

/-- the NumTok hypothesis for one literal: the token written for the magnitude of each component denotes
that magnitude, bit for bit -/
def numTokOkAt (F : NumFmt) (z : CBits) : Bool :=
  tokBits (F.real (fAbs z.re)) == some (fAbs z.re) && tokBits (F.imag (fAbs z.im)) == some (fAbs z.im)

/-- the NumTok hypothesis for every literal of the expression -/
def numTokOk (F : NumFmt) (e : PExpr) : Bool := allLits (numTokOkAt F) e

/-! ## character level (everything except numeric leaves)

The text the printer writes, with numeric leaves rendered by a caller-supplied `num` (their decimal text
is outside the model).  `Display for InfixOperator` writes the minus as `" - "` ("spaces included to
distinguish from hyphenated identifiers": `%x-1`, `pi-1`, `2.0i-1` would lex as ONE variable / identifier). -/

def infixChars : InfixOp → List Char
  | .caret => ['^'] | .plus => ['+'] | .minus => [' ', '-', ' '] | .slash => ['/'] | .star => ['*']

def wrapChars (b : Bool) (cs : List Char) : List Char := if b then '(' :: (cs ++ [')']) else cs

def printExprChars (num : CBits → List Char) : PExpr → List Char
  | .address r => r.name.toList ++ '[' :: (Nat.repr r.index).toList ++ [']']
  | .call f e => fnName f ++ '(' :: (printExprChars num e ++ [')'])
  | .bin l o r =>
    wrapChars (needsParens l) (printExprChars num l) ++ infixChars o ++
      wrapChars (needsParens r) (printExprChars num r)
  | .number z => num z
  | .pi => ['p', 'i']
  | .pre op e =>
    (match op with | .plus => [] | .minus => ['-']) ++
      wrapChars (op == .minus && startsWithMinus e) (wrapChars (needsParens e) (printExprChars num e))
  | .var x => '%' :: x.toList

end QV.ExprPrint
