import QV.Wire
import QV.Shared.CFloat
import QV.Shared.ExprWire
import QV.C14.Model
/-
QV.Shared.GateWire — what the C14 and C15 drivers share: the `C64` instance of the scalar interface
of the gate model (`QV.C14.GateFns` + the core notation classes), the wire format of matrices / gates,
and the entry-wise comparison with an absolute tolerance.  The Rust side is `harness/src/gatewire.rs`.

  Complex64 entry      (e ROW COL xRE xIM)          only entries that are not exactly ±0 ± 0i are sent
  matrix               (mat DIM entry*)             square, DIM rows
  parameter            (expr EXPR)  (EXPR in the shared ExprWire format; the model evaluates it) | (num xRE xIM) | (other)
  qubit                (f K) | (v) | (p)
  modifier             C | D | F                    (CONTROLLED, DAGGER, FORKED), outermost first
  gate                 (gate "NAME" (mods M*) (params P*) (qubits Q*))
  result of to_unitary (ok (mat DIM entry*)) | (err KIND) | (crash "msg")

No Mathlib; `C64` satisfies no laws and no theorem mentions these instances.
-/
namespace QV
namespace GateWire
open QV.C14

/-- `Complex64` with both components stored unboxed (one allocation per value; `CFloat = Float × Float`
costs three).  The formulas are num-complex 0.4.6's, the same ones `QV.Shared.CFloat` copies. -/
structure C64 where
  re : Float
  im : Float

instance : Inhabited C64 := ⟨⟨0.0, 0.0⟩⟩
instance : Zero C64 := ⟨⟨0.0, 0.0⟩⟩
instance : One C64 := ⟨⟨1.0, 0.0⟩⟩
instance : Add C64 := ⟨fun a b => ⟨a.re + b.re, a.im + b.im⟩⟩
instance : Sub C64 := ⟨fun a b => ⟨a.re - b.re, a.im - b.im⟩⟩
/-- lib.rs:783 -/
instance : Mul C64 := ⟨fun a b => ⟨a.re * b.re - a.im * b.im, a.re * b.im + a.im * b.re⟩⟩
instance : Neg C64 := ⟨fun a => ⟨-a.re, -a.im⟩⟩

/-- `std::f64::consts::FRAC_1_SQRT_2` -/
def frac1Sqrt2 : Float := Float.ofBits 0x3FE6A09E667F3BCD
/-- `std::f64::consts::FRAC_PI_4` -/
def fracPi4 : Float := Float.ofBits 0x3FE921FB54442D18

/-- lib.rs:425 -/
def C64.cos (z : C64) : C64 := ⟨z.re.cos * z.im.cosh, -z.re.sin * z.im.sinh⟩
/-- lib.rs:415 -/
def C64.sin (z : C64) : C64 := ⟨z.re.sin * z.im.cosh, z.re.cos * z.im.sinh⟩

instance : GateFns C64 where
  conj z := ⟨z.re, -z.im⟩                      -- lib.rs: `Complex::new(self.re, -self.im)`
  cos := C64.cos
  sin := C64.sin
  half z := ⟨z.re / 2.0, z.im / 2.0⟩           -- `Complex<f64> / f64` divides both components
  i := ⟨0.0, 1.0⟩
  invSqrt2 := ⟨frac1Sqrt2, 0.0⟩
  cisPi4 := ⟨fracPi4.cos, fracPi4.sin⟩         -- `Complex::cis(phase) = Complex::new(phase.cos(), phase.sin())`
  cis z := C64.cos z + (⟨0.0, 1.0⟩ : C64) * C64.sin z
  pi4 := ⟨fracPi4, 0.0⟩

abbrev M := Mat C64

/-- all-zero `dim × dim` data, then the listed entries -/
def decodeMat : Sexp → Option M
  | .list (.atom "mat" :: .atom dim :: entries) =>
    match dim.toNat? with
    | none => none
    | some n =>
      let zero : Array (Array C64) := Array.replicate n (Array.replicate n ⟨0.0, 0.0⟩)
      let r := entries.foldl (fun (acc : Option (Array (Array C64))) e =>
        match acc, e with
        | some d, .list [.atom "e", .atom i, .atom j, re, im] =>
          match i.toNat?, j.toNat?, ExprWire.decodeF64 re, ExprWire.decodeF64 im with
          | some i, some j, some re, some im =>
            if i < n ∧ j < n then some (d.modify i fun row => row.set! j ⟨re, im⟩) else none
          | _, _, _, _ => none
        | _, _ => none) (some zero)
      r.map fun d => ⟨n, n, d⟩
  | _ => none

def encodeMat (A : M) : Sexp :=
  .list (.atom "mat" :: .atom (toString A.r) ::
    (List.range A.r).flatMap fun i => (List.range A.c).filterMap fun j =>
      let z := A.get i j
      if z.re == 0.0 && z.im == 0.0 then none
      else some (.list [.atom "e", .atom (toString i), .atom (toString j),
                        ExprWire.encodeF64 z.re, ExprWire.encodeF64 z.im]))

/-- `max_{i,j} max(|Δre|, |Δim|)`; `none` when the shapes differ or a difference is NaN -/
def maxDiff (A B : M) : Option Float :=
  if A.r != B.r || A.c != B.c then none
  else
    (List.range A.r).foldl (fun acc i =>
      (List.range A.c).foldl (fun acc j =>
        match acc with
        | none => none
        | some m =>
          let a := A.get i j
          let b := B.get i j
          let dr := (a.re - b.re).abs
          let di := (a.im - b.im).abs
          if dr.isNaN || di.isNaN then none
          else
            let m1 := if dr > m then dr else m
            some (if di > m1 then di else m1)) acc)
      (some 0.0)

/-- every entry within `tol` (absolute, per component) -/
def closeMat (tol : Float) (A B : M) : Bool :=
  match maxDiff A B with
  | some d => d ≤ tol
  | none => false

def showDiff (A B : M) : String :=
  match maxDiff A B with
  | some d => s!"maxdiff={d}"
  | none => s!"shape/NaN mismatch ({A.r}x{A.c} vs {B.r}x{B.c})"

/-- `‖AᴴA − I‖_max ≤ tol` -/
def isUnitaryF (tol : Float) (A : M) : Bool :=
  A.r == A.c && closeMat tol (Mat.mul (Mat.adjoint A) A) (Mat.eye A.r)

/-- A gate parameter as `gate_matrix` sees it, computed by the MODEL from the expression itself: an expression
that mentions a variable or a memory reference is not constant (`other`); a constant expression is the number the
shared expression model's `eval` (QV/Shared/Expr.lean, over `CFloat`: num-complex's formulas) gives it.
(quil-rs reaches the number through `into_simplified()`; for constant expressions constant folding and
evaluation agree up to rounding, which the entry-wise tolerance absorbs.) -/
def paramOfExpr (e : Expr CFloat) : Param C64 :=
  if !e.vars.isEmpty || !e.addrs.isEmpty then .other
  else
    match QV.eval (K := CFloat) (fun _ => none) (fun _ => none) e with
    | Except.ok z => .num ⟨z.1, z.2⟩
    | Except.error _ => .other

/-- Classifier of the known finding `C12/is-zero-tolerance` as it shows through gate parameters: the expression has a
constant subexpression whose value is within 1e-10 of 0 or of 1 without being exactly 0 / 1 (e.g. `sin(pi)` ≈ 1.2e-16),
which quil-rs's simplifier flushes to 0 / 1 by design, so `into_simplified()` and evaluation may differ by up to ~1e-10. -/
partial def exprNearZeroOrOne (e : Expr CFloat) : Bool :=
  let here :=
    if !e.vars.isEmpty || !e.addrs.isEmpty then false
    else
      match QV.eval (K := CFloat) (fun _ => none) (fun _ => none) e with
      | Except.ok z =>
        let n0 := Float.sqrt (z.1 * z.1 + z.2 * z.2)
        let n1 := Float.sqrt ((z.1 - 1.0) * (z.1 - 1.0) + z.2 * z.2)
        (0.0 < n0 && n0 < 1e-10) || (0.0 < n1 && n1 < 1e-10)
      | Except.error _ => false
  here || (match e with
    | .call _ a => exprNearZeroOrOne a
    | .bin l _ r => exprNearZeroOrOne l || exprNearZeroOrOne r
    | .pre _ a => exprNearZeroOrOne a
    | _ => false)

/-- does any `(expr E)` anywhere in the case input match `exprNearZeroOrOne`? -/
partial def inputNearZeroOrOne : Sexp → Bool
  | .list [.atom "expr", e] => (ExprWire.decodeExpr e).any exprNearZeroOrOne
  | .list xs => xs.any inputNearZeroOrOne
  | _ => false

/-- the known-finding tag for such inputs (only looked at by `./check` when the case fails) -/
def kfTags (pid : String) (inp : Sexp) : List String :=
  if inputNearZeroOrOne inp then [s!"kf:{pid}/simplifier-zero-tolerance"] else []

def decodeParam : Sexp → Option (Param C64)
  | .list [.atom "expr", e] => (ExprWire.decodeExpr e).map paramOfExpr
  | .list [.atom "num", re, im] =>
    match ExprWire.decodeF64 re, ExprWire.decodeF64 im with
    | some re, some im => some (.num ⟨re, im⟩)
    | _, _ => none
  | .list [.atom "other"] => some .other
  | _ => none

def decodeQubit : Sexp → Option Qubit
  | .list [.atom "f", .atom k] => k.toNat?.map .fixed
  | .list [.atom "v"] => some .variable
  | .list [.atom "p"] => some .placeholder
  | _ => none

def decodeAll {α β : Type} (f : α → Option β) : List α → Option (List β)
  | [] => some []
  | x :: xs => match f x, decodeAll f xs with
    | some y, some ys => some (y :: ys)
    | _, _ => none

def errName : GateErr → String
  | .undefinedGate false => "undefined-constant"
  | .undefinedGate true => "undefined-parameterized"
  | .argLength => "arg-length"
  | .nonConstant => "non-constant"
  | .variableQubit => "variable-qubit"
  | .placeholder => "placeholder"
  | .forkedOdd => "forked-odd"

/-- Decoded result of `to_unitary`. -/
inductive Res where
  | ok : M → Res
  | err : String → Res
  | crash : Res
  | timeout : Res

def decodeRes : Sexp → Option Res
  | .list [.atom "ok", m] => (decodeMat m).map .ok
  | .list [.atom "err", .atom k] => some (.err k)
  | .list [.atom "crash", _] => some .crash
  | .list [.atom "timeout"] => some .timeout
  | _ => none

def resOfModel : Outcome (Except GateErr M) → Res
  | .ok (.ok m) => .ok m
  | .ok (.error e) => .err (errName e)
  | .crash _ => .crash
  | .outOfFuel => .timeout

/-- model result vs implementation result: same kind; matrices entry-wise within `tol` -/
def resAgree (tol : Float) : Res → Res → Bool
  | .ok a, .ok b => closeMat tol a b
  | .err a, .err b => a == b
  | .crash, .crash => true
  | .timeout, .timeout => true
  | _, _ => false

def resShow : Res → String
  | .ok m => s!"ok {m.r}x{m.c}"
  | .err k => s!"err {k}"
  | .crash => "crash"
  | .timeout => "timeout"

def resDiff : Res → Res → String
  | .ok a, .ok b => showDiff a b
  | a, b => s!"{resShow a} vs {resShow b}"

end GateWire
end QV
