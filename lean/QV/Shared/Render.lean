import QV.C07.Model
import QV.Shared.Token
import QV.Shared.Lex
import QV.C06.Spec
/-
Shared (no Mathlib; imports only QV model/spec files): the char-level bridge between token-level printer
models and the lexer model.  `renderToken` gives the canonical spelling of one token, `renderGaps` lays a
token list out as text with an explicit list of gaps (one `Bool` per adjacent pair: `true` = one space),
`renderWith sp` computes the gaps from an adjacent-pair policy, `render` uses the minimal policy `mustSep`.
The theorem `lex (renderGaps st ts gs) = some ts` (QV/Shared/RenderLemmas.lean) holds under the decidable
predicate `renderable` below; docs/Render.md lists the excluded adjacency situations.

The Rust writers (`Quil::write` impls) produce exactly such texts: token spellings separated by zero or
one space (`RX(pi/2) 0`, `%x - 1`, `-pi`, `DECLARE ro BIT[1]`), `\n` between instructions and `\t` for an
indentation level (`Style.tabIndent = true`; `Token::Indentation`'s own `Display` is four spaces).
-/
namespace QV.Render
open QV.Tok QV.Lex

/-- what is left open by the token list: how floats are spelled (`{:?}` of an f64 in the Rust writers; an
abstract parameter here, constrained by `FmtOk` in the theorems) and how an indentation level is written -/
structure Style where
  fmt : Nat → List Char
  tabIndent : Bool

/-- decimal digit character of `d < 10` -/
def digitChar (d : Nat) : Char := Char.ofNat (48 + d)

/-- decimal spelling with fuel (`fuel ≥ n` is always enough) -/
def natToDecAux : Nat → Nat → List Char
  | 0, n => [digitChar (n % 10)]
  | fuel + 1, n => if n < 10 then [digitChar n] else natToDecAux fuel (n / 10) ++ [digitChar (n % 10)]

/-- decimal spelling of a natural number (what `{}` of a `u64` writes), most significant digit first -/
def natToDec (n : Nat) : List Char := natToDecAux n n

/-- the spelling of the reserved-word tokens (keywords, commands, data types, modifiers) -/
def wordSpelling : Token → Option (List Char)
  | .as => some KeywordToken.as.spelling.toList
  | .matrix => some KeywordToken.matrix.spelling.toList
  | .mutable => some KeywordToken.mutable.spelling.toList
  | .nonBlocking => some KeywordToken.nonBlocking.spelling.toList
  | .offset => some KeywordToken.offset.spelling.toList
  | .pauliSum => some KeywordToken.pauliSum.spelling.toList
  | .permutation => some KeywordToken.permutation.spelling.toList
  | .sequence => some KeywordToken.sequence.spelling.toList
  | .sharing => some KeywordToken.sharing.spelling.toList
  | .command c => some c.spelling.toList
  | .dataType d => some d.spelling.toList
  | .modifier m => some m.spelling.toList
  | _ => none

/-- **canonical spelling of one token** -/
def renderToken (st : Style) (t : Token) : List Char :=
  match wordSpelling t with
  | some s => s
  | none =>
    match t with
    | .bang => ['!'] | .colon => [':'] | .comma => [',']
    | .comment s => '#' :: s
    | .float b => st.fmt b
    | .identifier s => s
    | .indentation => if st.tabIndent then ['\t'] else [' ', ' ', ' ', ' ']
    | .integer n => natToDec n
    | .target s => '@' :: s
    | .lBracket => ['['] | .lParenthesis => ['(']
    | .newLine => ['\n']
    | .operator o => o.spelling.toList
    | .rBracket => [']'] | .rParenthesis => [')'] | .semicolon => [';']
    | .string s => QV.C07.quote s
    | .variable s => '%' :: s
    | _ => []        -- unreachable: the reserved-word tokens are handled by `wordSpelling`

/-- spelling variants the Rust writers actually use: a `NewLine` token may stand for a run of `alt + 1`
newlines (blank lines after definitions), an `Indentation` is written as a tab or as four spaces
(`alt = 0`: the style's default, otherwise the other form — `Program` bodies use tabs, DEFFRAME attributes,
DEFGATE rows and DEFCIRCUIT bodies four spaces).  Every other token has one spelling. -/
def renderTokenV (st : Style) (alt : Nat) (t : Token) : List Char :=
  match t with
  | .newLine => List.replicate (alt + 1) '\n'
  | .indentation => if st.tabIndent == (alt == 0) then ['\t'] else [' ', ' ', ' ', ' ']
  | t => renderToken st t

/-- how one token is laid out: a space before it or not, and which spelling variant -/
structure Form where
  gap : Bool
  alt : Nat
  deriving Repr, DecidableEq, BEq

/-- the form of the next token (`no gap, default spelling` when the list has run out) -/
def headForm (fs : List Form) : Form := fs.head?.getD ⟨false, 0⟩

/-- one gap: a single space or nothing -/
def gapText (g : Bool) : List Char := if g then [' '] else []

/-- **layout of a token list with explicit gaps** (`gs` has one entry per adjacent pair; missing entries
count as "no space") -/
def renderGaps (st : Style) : List Token → List Bool → List Char
  | [], _ => []
  | [t], _ => renderToken st t
  | t :: u :: ts, [] => renderToken st t ++ renderGaps st (u :: ts) []
  | t :: u :: ts, g :: gs => renderToken st t ++ gapText g ++ renderGaps st (u :: ts) gs

/-- **general layout**: every token with its own form (gap before it, spelling variant) -/
def renderForms (st : Style) : List Token → List Form → List Char
  | [], _ => []
  | t :: ts, fs =>
    gapText (headForm fs).gap ++ (renderTokenV st (headForm fs).alt t ++ renderForms st ts fs.tail)

/-- forms computed from an adjacent-pair policy (default spellings) -/
def formsOf (sp : Token → Token → Bool) : Option Token → List Token → List Form
  | _, [] => []
  | prev, t :: ts => ⟨(match prev with | some p => sp p t | none => false), 0⟩ :: formsOf sp (some t) ts

/-- gaps computed from an adjacent-pair policy -/
def gapsOf (sp : Token → Token → Bool) : List Token → List Bool
  | t :: u :: ts => sp t u :: gapsOf sp (u :: ts)
  | _ => []

/-- layout with an adjacent-pair spacing policy -/
def renderWith (st : Style) (sp : Token → Token → Bool) (ts : List Token) : List Char :=
  renderGaps st ts (gapsOf sp ts)

/-- tokens spelled as a word (identifier characters, possibly after a sigil): their spelling would absorb
following word characters and `-word` groups -/
def isWordLike : Token → Bool
  | .identifier _ | .target _ | .variable _ => true
  | t => (wordSpelling t).isSome

/-- tokens whose spelling starts with a word character, a digit or (possibly) a `.` -/
def startsWordOrNumber : Token → Bool
  | .identifier _ | .integer _ | .float _ => true
  | t => (wordSpelling t).isSome

/-- **the adjacent pairs that must be separated by a space** (otherwise they would glue when lexed):
* word-like token, then a token starting with a word character / digit / `.` (`a b`, `a 1`, `H 0`, `AS x`);
* word-like token, then the operator `-` (`a -` could continue as the identifier `a-b`; one character of
  look-ahead is not enough, so the pair is always separated: the writers print ` - `);
* integer or float, then a token starting with a word character, a digit or `.` (`1 2`, `1 .5`, `1 e5`; the
  canonical layout also keeps `1 i` apart although `1i` lexes to the same two tokens — the explicit-gap
  theorem accepts the glued form the writers use for imaginary literals);
* newline, then newline (a run of `\n` is ONE `NewLine` token).
Nothing adjacent to an `Indentation` token is ever separated (see `gapAllowed`). -/
def mustSep (a b : Token) : Bool :=
  match a, b with
  | _, .indentation => false
  | .indentation, _ => false
  | .newLine, .newLine => true
  | .integer _, b => startsWordOrNumber b
  | .float _, b => startsWordOrNumber b
  | a, .operator .minus => isWordLike a
  | a, b => isWordLike a && startsWordOrNumber b

/-- canonical layout: a space exactly where it is needed -/
def render (st : Style) (ts : List Token) : List Char := renderWith st mustSep ts

/-- the following text does not continue a decimal number: end of input, or a character that is none of
`0-9 _ . e E` and not a radix-prefix letter (`b o x`, either case).  Every delimiter qualifies, and so does
the `i` the writers glue to imaginary literals (`2i`, `1.0i`). -/
def numStopB (rest : List Char) : Bool :=
  match rest with
  | [] => true
  | c :: _ => !(isNumChar 10 c || c == '.' || c == 'e' || c == 'E' || lowerAscii c == 'b' ||
      lowerAscii c == 'o' || lowerAscii c == 'x')

/-- what must hold of the text that follows a token's spelling for the lexer to stop exactly there -/
def stopOk (t : Token) (rest : List Char) : Bool :=
  match t with
  | .integer _ | .float _ => numStopB rest
  | .newLine => rest.head? != some '\n'
  | t => if isWordLike t then QV.C06.Spec.stopsIdent rest else true

/-- tokens that can be rendered at all: identifiers are valid and not reserved words (a reserved spelling
would lex back as the keyword), targets and variables are valid identifiers, integers fit in 64 bits,
no comments (a comment swallows the rest of its line) -/
def tokOk (t : Token) : Bool :=
  match t with
  | .identifier s => QV.C06.Spec.validIdent s && !isReservedWord s
  | .target s | .variable s => QV.C06.Spec.validIdent s
  | .integer n => decide (n < two64)
  | .comment _ => false
  | _ => true

/-- a gap next to an `Indentation` token would add to its run of spaces -/
def gapAllowed (a b : Token) (g : Bool) : Bool :=
  !g || (decide (a ≠ .indentation) && decide (b ≠ .indentation))

/-- **Renderable**: every token is `tokOk`, no gap touches an `Indentation`, and after every token the
text that actually follows (gap and the spellings of the remaining tokens) stops it (`stopOk`). -/
def renderable (st : Style) : List Token → List Bool → Bool
  | [], _ => true
  | [t], _ => tokOk t
  | t :: u :: ts, [] =>
    tokOk t && stopOk t (renderGaps st (u :: ts) []) && renderable st (u :: ts) []
  | t :: u :: ts, g :: gs =>
    tokOk t && gapAllowed t u g && stopOk t (gapText g ++ renderGaps st (u :: ts) gs) &&
    renderable st (u :: ts) gs

/-- **Renderable (general layout)**: every token is `tokOk`, no gap directly before an `Indentation`
(its spaces would run into the indentation's), and after every token the text that actually follows
stops it. -/
def renderableF (st : Style) : List Token → List Form → Bool
  | [], _ => true
  | t :: ts, fs =>
    tokOk t && (!(headForm fs).gap || decide (t ≠ .indentation)) &&
    stopOk t (renderForms st ts fs.tail) && renderableF st ts fs.tail

/-- **the NumTok hypothesis** on the float formatter, for one bit pattern: the spelling starts with a
visible character and, followed by text that does not continue a number (`numStopB`), lexes back to
exactly that `Float` token.  (The Rust
writers use `{:?}` of the f64; that every such spelling satisfies this is validated differentially by the
C02–C05 streams, and `QV.C05.C05_real_literal` proves it for every spelling of the real-literal grammar
whose exact value rounds to `b`.) -/
structure FmtOk (fmt : Nat → List Char) (b : Nat) : Prop where
  head : ∃ c r, fmt b = c :: r ∧ c ≠ ' ' ∧ c ≠ '\t'
  lex : ∀ rest, numStopB rest = true → lexToken (fmt b ++ rest) = .ok (.float b) rest

/-- token-wise well-formedness alone (what the pair-policy theorems need) -/
def allTokOk (ts : List Token) : Bool := ts.all tokOk

end QV.Render
