import QV.Wire
import QV.Shared.Sched
/-
Wire format of the scheduling streams (Rust side: harness/src/sched.rs).

  node      0 = BlockStart, i+1 = InstructionIndex(i), n+1 = BlockEnd   (n = number of body instructions)
  kind      r | w | c                    read | write | capture     (frames: r = Blocking, w = Using)
  label     r | w | c | S | O            AwaitMemoryAccess(kind) | Scheduled | StableOrdering
  instr     (i <role c|r|f|p> <scheduled 0|1> <memErr 0|1> (reads…) (writes…) (captures…) <none | (fr (used…) (blocked…))>)
  block     (b (instr…) <none | instr>)
  input     (prog <externErr 0|1> (block…))
  graph     (g (node…) ((src dst label)…))          nodes and edges sorted, one entry per label
  output    (err <extern|call|cf|unsched> <node>) | (ok graph…)
-/
namespace QV.Sched.Wire
open QV QV.Sched

def decNode (n : Nat) (c : Nat) : Node :=
  if c = 0 then .start else if c = n + 1 then .stop else .instr (c - 1)

def encNode (n : Nat) (x : Node) : Nat := x.pos n

def decKind : Sexp → Option Kind
  | .atom "r" => some .read
  | .atom "w" => some .write
  | .atom "c" => some .capture
  | _ => none

def kindCode : Kind → Nat
  | .read => 0 | .write => 1 | .capture => 2

def kindAtom : Kind → String
  | .read => "r" | .write => "w" | .capture => "c"

def labelCode : Label → Nat
  | .await k => kindCode k
  | .scheduled => 3
  | .stable => 4

def decLabel : Sexp → Option Label
  | .atom "S" => some .scheduled
  | .atom "O" => some .stable
  | s => (decKind s).map .await

def labelAtom : Label → String
  | .await k => kindAtom k
  | .scheduled => "S"
  | .stable => "O"

def decNats (s : Sexp) : Option (List Nat) :=
  match s with
  | .list xs => xs.mapM Sexp.asNat?
  | _ => none

def decBool : Sexp → Option Bool
  | .atom "0" => some false
  | .atom "1" => some true
  | _ => none

def decRole : Sexp → Option Role
  | .atom "c" => some .classical
  | .atom "r" => some .rf
  | .atom "f" => some .controlFlow
  | .atom "p" => some .composition
  | _ => none

def decInstr : Sexp → Option Instr
  | .list [.atom "i", role, sched, memErr, rs, ws, cs, fr] => do
    let role ← decRole role
    let scheduled ← decBool sched
    let memErr ← decBool memErr
    let reads ← decNats rs
    let writes ← decNats ws
    let captures ← decNats cs
    let frames ← match fr with
      | .atom "none" => some none
      | .list [.atom "fr", u, b] => do
        let u ← decNats u
        let b ← decNats b
        pure (some (u, b))
      | _ => none
    pure { role, scheduled, memErr, reads, writes, captures, frames }
  | _ => none

def decBlock : Sexp → Option Block
  | .list [.atom "b", .list is, t] => do
    let instrs ← is.mapM decInstr
    let term ← match t with
      | .atom "none" => some none
      | s => (decInstr s).map some
    pure { instrs, term }
  | _ => none

def decProg : Sexp → Option (Bool × List Block)
  | .list [.atom "prog", e, .list bs] => do
    let e ← decBool e
    let bs ← bs.mapM decBlock
    pure (e, bs)
  | _ => none

/-- canonical form of an edge list: sorted, duplicate-free triples of codes -/
def tripleLe (a b : Nat × Nat × Nat) : Bool :=
  a.1 < b.1 || (a.1 == b.1 && (a.2.1 < b.2.1 || (a.2.1 == b.2.1 && a.2.2 ≤ b.2.2)))

def canonEdges (n : Nat) (es : List Edge) : List (Nat × Nat × Nat) :=
  ((es.map fun e => (encNode n e.src, encNode n e.dst, labelCode e.label)).mergeSort tripleLe).eraseDups

def decEdge (n : Nat) : Sexp → Option Edge
  | .list [s, d, l] => do
    let s ← s.asNat?
    let d ← d.asNat?
    let l ← decLabel l
    pure ⟨decNode n s, decNode n d, l⟩
  | _ => none

/-- a graph as sent by the harness: node codes and edges -/
def decGraph (n : Nat) : Sexp → Option (List Nat × List Edge)
  | .list [.atom "g", ns, .list es] => do
    let ns ← decNats ns
    let es ← es.mapM (decEdge n)
    pure (ns, es)
  | _ => none

def encGraph (b : Block) (es : List Edge) : Sexp :=
  let n := b.instrs.length
  .list [.atom "g",
    .list ((graphNodes b es).map fun x => .atom (toString (encNode n x))),
    .list ((canonEdges n es).map fun t =>
      .list [.atom (toString t.1), .atom (toString t.2.1),
             .atom (match t.2.2 with | 0 => "r" | 1 => "w" | 2 => "c" | 3 => "S" | _ => "O")])]

def encErr (n : Nat) : SchedErr → Sexp
  | .extern => .list [.atom "err", .atom "extern", .atom "0"]
  | .unresolvedCall x => .list [.atom "err", .atom "call", .atom (toString (encNode n x))]
  | .controlFlowNotTerminator x => .list [.atom "err", .atom "cf", .atom (toString (encNode n x))]
  | .unschedulable x => .list [.atom "err", .atom "unsched", .atom (toString (encNode n x))]

/-- the model's answer for a whole program, in wire form (errors carry the node code relative to the block
in which they arise) -/
def modelProgram (externErr : Bool) : List Block → Sexp × Bool
  | bs =>
    let rec go : List Block → List Sexp → Sexp × Bool
      | [], acc => (.list (.atom "ok" :: acc.reverse), true)
      | b :: rest, acc =>
        if externErr then (encErr 0 .extern, false) else
        match buildBlock b with
        | .error e => (encErr b.instrs.length e, false)
        | .ok es => go rest (encGraph b es :: acc)
    go bs []

/-- the failure kinds that APPLY to a block: every reason for which `build` may legitimately reject it. Which of
several applicable reasons is reported (and at which instruction) depends on the order of the checks inside
`build` and is not constrained by C22–C25, which speak about blocks whose graph is built. -/
def errKinds (externErr : Bool) (b : Block) : List String :=
  (if externErr then ["extern"] else []) ++
  (if b.items.any (fun p => p.2.memErr) then ["call"] else []) ++
  (if b.instrs.any (fun i => i.role == .controlFlow) then ["cf"] else []) ++
  (if b.items.any (fun p => p.2.role == .composition) then ["unsched"] else [])

/-- the first block the model rejects -/
def failingBlock (externErr : Bool) : List Block → Option Block
  | [] => none
  | b :: rest =>
    if externErr then some b else
    match buildBlock b with
    | .error _ => some b
    | .ok _ => failingBlock externErr rest

/-- Agreement of the implementation's answer with the model's: exact when the model builds every graph; when the
model rejects the program, the implementation must reject it too, with a failure kind that applies to the first
rejected block (not necessarily the kind / instruction the model's order of checks picks). -/
def agreeOut (externErr : Bool) (blocks : List Block) (mOut : Sexp) (mOk : Bool) (out : Sexp) : Bool :=
  if mOk then mOut == out else
  match out, failingBlock externErr blocks with
  | .list [.atom "err", .atom k, _], some b => (errKinds externErr b).contains k
  | _, _ => false

/-- Generic program-stream handler shared by the C22–C24 drivers: decode the projected program, run the model,
compare with the implementation's answer, evaluate `spec` on every (block, implementation graph) pair.
`spec b nodes es` gets the implementation's node codes and edges. -/
def handleProgramWith (stream : String) (p out : Sexp)
    (spec : Block → List Nat → List Edge → Bool) (nontriv : Block → Bool)
    (tagsOf : Block → List Edge → List String) : CaseResult :=
  match decProg p with
  | none => .bad s!"undecodable program {p}"
  | some (externErr, blocks) =>
    let (mOut, mOk) := modelProgram externErr blocks
    let agree := agreeOut externErr blocks mOut mOk out
    let (specOk, tags) : Bool × List String := match out with
      | .list (.atom "ok" :: gs) =>
        if gs.length != blocks.length then (false, []) else
        (blocks.zip gs).foldl (fun acc bg =>
          match decGraph bg.1.instrs.length bg.2 with
          | some (ns, es) => (acc.1 && spec bg.1 ns es, acc.2 ++ tagsOf bg.1 es)
          | none => (false, acc.2)) (true, [])
      | .list (.atom "err" :: _) => (true, [])
      | _ => (false, [])
    let maxLen := blocks.foldl (fun m b => max m b.instrs.length) 0
    let errTag := match out with
      | .list (.atom "err" :: .atom v :: _) => [s!"err-{v}"]
      | _ => ["ok"]
    { agree, specOk, nontrivial := mOk && blocks.any nontriv,
      tags := [stream, s!"blocks{min blocks.length 4}", s!"len{min maxLen 8}"] ++ errTag ++ tags.eraseDups,
      detail := s!"model={mOut} impl={out}" }

def roleTag : Role → String
  | .classical => "classical" | .rf => "rf" | .controlFlow => "controlFlow" | .composition => "composition"

end QV.Sched.Wire
