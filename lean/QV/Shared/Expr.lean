/-
QV.Shared.Expr — the shared model of `quil_rs::expression::Expression` (import-free).

Used by C13 (evaluation / substitution / memory-reference listing), C30 (type checking) and meant to be
reused by C12 (simplification) and C03 (printing / parsing).  Everything here is generic in the scalar
type `K`:

* theorems are stated for every `K` (C13 needs no laws at all; C12/C03 add a `ScalarLaws K` structure of
  their own on top of `Scalar K`);
* the native drivers instantiate `K := CFloat` (`QV/Shared/CFloat.lean`: a pair of IEEE doubles with
  `num_complex`'s formulas copied operation for operation) so that the model runs on the same bits the Rust
  code saw.  The wire decoder/encoder for `Expr CFloat` is `QV/Shared/ExprWire.lean`; the Rust encoder,
  random generator and exhaustive enumerator are `harness/src/expr.rs`.

Correspondence with the Rust type (quil-rs/src/expression/mod.rs:96-110):

  Expression::Address(MemoryReference{name,index})      ↔ Expr.address ⟨name, index⟩
  Expression::FunctionCall(FunctionCallExpression{f,e}) ↔ Expr.call f e
  Expression::Infix(InfixExpression{left,op,right})     ↔ Expr.bin left op right
  Expression::Number(Complex64)                         ↔ Expr.number z
  Expression::PiConstant()                              ↔ Expr.pi
  Expression::Prefix(PrefixExpression{op,e})            ↔ Expr.pre op e
  Expression::Variable(String)                          ↔ Expr.var name

(`infix` / `prefix` are Lean keywords, hence `bin` / `pre`.)  `ArcIntern` sharing is modelled as plain
structural trees: interning is observationally structural equality.
-/
namespace QV

/-- `quil_rs::instruction::MemoryReference { name: String, index: u64 }` (instruction/declaration.rs:263).
`index` is a `Nat` here; the harness only ever sends values `< 2^64`. -/
structure MemRef where
  name : String
  index : Nat
  deriving DecidableEq, Repr, Inhabited, Hashable

/-- `ExpressionFunction` (expression/mod.rs:793): same constructor order as the Rust enum. -/
inductive ExprFn where
  | cis | cos | exp | sin | sqrt
  deriving DecidableEq, Repr, Inhabited

/-- `PrefixOperator` (expression/mod.rs:835). -/
inductive PrefixOp where
  | plus | minus
  deriving DecidableEq, Repr, Inhabited

/-- `InfixOperator` (expression/mod.rs:871). -/
inductive InfixOp where
  | caret | plus | minus | slash | star
  deriving DecidableEq, Repr, Inhabited

/-- `Expression` (expression/mod.rs:96). -/
inductive Expr (K : Type) where
  | address : MemRef → Expr K
  | call : ExprFn → Expr K → Expr K
  | bin : Expr K → InfixOp → Expr K → Expr K
  | number : K → Expr K
  | pi : Expr K
  | pre : PrefixOp → Expr K → Expr K
  | var : String → Expr K
  deriving Repr, Inhabited

/--
The operations `Expression::evaluate` performs on `Complex64`.  No laws are part of the class: properties
that need algebra (C12, C03, C14 …) state them in a separate `ScalarLaws`-style structure over this class,
properties that do not (C13, C30) hold for every instance, including the rounding `CFloat`.

`pi` is `real!(std::f64::consts::PI)`; `zero`/`one` are `Complex64::from(0.0)`/`(1.0)` (not used by
`eval`, provided for the algebraic users).
-/
class Scalar (K : Type) where
  add : K → K → K
  sub : K → K → K
  mul : K → K → K
  div : K → K → K
  /-- `Complex64::powc` -/
  pow : K → K → K
  /-- what prefix minus evaluates to: `negate(value) = 0 - value` (expression/mod.rs:424) -/
  neg : K → K
  sin : K → K
  cos : K → K
  exp : K → K
  sqrt : K → K
  /-- `argument.cos() + imag!(1f64) * argument.sin()` (expression/mod.rs:412) -/
  cis : K → K
  pi : K
  zero : K
  one : K

namespace Expr
variable {K : Type}

/-- number of nodes -/
def size : Expr K → Nat
  | address _ => 1
  | call _ e => e.size + 1
  | bin l _ r => l.size + r.size + 1
  | number _ => 1
  | pi => 1
  | pre _ e => e.size + 1
  | var _ => 1

theorem size_pos (e : Expr K) : 0 < e.size := by cases e <;> simp [size]

/-- nesting depth (a leaf has depth 0) -/
def depth : Expr K → Nat
  | call _ e => e.depth + 1
  | bin l _ r => max l.depth r.depth + 1
  | pre _ e => e.depth + 1
  | _ => 0

/-- The variables occurring in the expression, in left-to-right (pre-order) order, with repetitions. -/
def vars : Expr K → List String
  | call _ e => e.vars
  | bin l _ r => l.vars ++ r.vars
  | pre _ e => e.vars
  | var x => [x]
  | _ => []

/-- The memory references occurring in the expression, in left-to-right (pre-order) order, with
repetitions: the *recursive* listing (the specification of the `MemoryReferences` iterator, which is an
explicit-stack machine, see `QV.C13`). -/
def addrs : Expr K → List MemRef
  | address r => [r]
  | call _ e => e.addrs
  | bin l _ r => l.addrs ++ r.addrs
  | pre _ e => e.addrs
  | _ => []

/-- Structural equality with a caller-supplied equality on numeric leaves (the drivers use bit equality,
`Float`'s own `==` is IEEE and not reflexive on NaN). -/
def beqWith (eqK : K → K → Bool) : Expr K → Expr K → Bool
  | address a, address b => a == b
  | call f a, call g b => f == g && beqWith eqK a b
  | bin a o b, bin c p d => o == p && beqWith eqK a c && beqWith eqK b d
  | number x, number y => eqK x y
  | pi, pi => true
  | pre o a, pre p b => o == p && beqWith eqK a b
  | var x, var y => x == y
  | _, _ => false

/-- Map the numeric leaves (e.g. decode, or embed `CFloat` literals into another scalar type). -/
def mapNum {K' : Type} (f : K → K') : Expr K → Expr K'
  | address r => address r
  | call g e => call g (e.mapNum f)
  | bin l o r => bin (l.mapNum f) o (r.mapNum f)
  | number z => number (f z)
  | pi => pi
  | pre o e => pre o (e.mapNum f)
  | var x => var x

end Expr

/-- `EvaluationError` (expression/mod.rs:57).  `Expression::evaluate` only ever produces `incomplete`
(proved in C13); the other two come from `to_real`. -/
inductive EvalError where
  | incomplete | numberNotReal | notANumber
  deriving DecidableEq, Repr, Inhabited

section Eval
variable {K : Type} [Scalar K]

/-- `calculate_infix` (expression/mod.rs:391). -/
def calcInfix (l : K) (op : InfixOp) (r : K) : K :=
  match op with
  | .caret => Scalar.pow l r
  | .plus => Scalar.add l r
  | .minus => Scalar.sub l r
  | .slash => Scalar.div l r
  | .star => Scalar.mul l r

/-- `calculate_function` (expression/mod.rs:408). -/
def calcFn (f : ExprFn) (z : K) : K :=
  match f with
  | .sin => Scalar.sin z
  | .cis => Scalar.cis z
  | .cos => Scalar.cos z
  | .exp => Scalar.exp z
  | .sqrt => Scalar.sqrt z

/-- Variable environment: `&HashMap<K1, Complex64>` as the partial function it denotes. -/
abbrev VarEnv (K : Type) := String → Option K
/-- Memory: `&HashMap<K2, Vec<f64>>` as the partial function it denotes.  The cells are already embedded
into `K` (`real!(*value)`, i.e. imaginary part `0.0`; the wire decoder does that embedding). -/
abbrev MemEnv (K : Type) := String → Option (List K)

/--
`Expression::evaluate` (expression/mod.rs:491-541), same order of evaluation: the argument before the
function, `left` before `right` (the `?` returns the *left* error first), a variable is looked up in
`variables`, an address in `memory_references` and then by index in the vector
(`values.get(index as usize)`); every missing thing is `Err(EvaluationError::Incomplete)`.
Non-finite results are ordinary values (`Ok`) in Rust and here.
-/
def eval (ρ : VarEnv K) (μ : MemEnv K) : Expr K → Except EvalError K
  | .call f e =>
    match eval ρ μ e with
    | .error err => .error err
    | .ok v => .ok (calcFn f v)
  | .bin l op r =>
    match eval ρ μ l with
    | .error err => .error err
    | .ok a =>
      match eval ρ μ r with
      | .error err => .error err
      | .ok b => .ok (calcInfix a op b)
  | .pre op e =>
    match eval ρ μ e with
    | .error err => .error err
    | .ok v => match op with
      | .minus => .ok (Scalar.neg v)   -- `Ok(negate(value))`
      | .plus => .ok v
  | .var x =>
    match ρ x with
    | some v => .ok v
    | none => .error .incomplete
  | .address r =>
    match μ r.name with
    | none => .error .incomplete
    | some vs =>
      match vs[r.index]? with
      | some v => .ok v
      | none => .error .incomplete
  | .pi => .ok Scalar.pi
  | .number z => .ok z

end Eval

/--
`Expression::substitute_variables` (expression/mod.rs:567-612): every `Variable(x)` with
`variable_values.get(x) = Some(value)` is replaced by (a clone of) `value` — the replacement is *not*
substituted into again — everything else is rebuilt unchanged.
-/
def subst {K : Type} (σ : String → Option (Expr K)) : Expr K → Expr K
  | .call f e => .call f (subst σ e)
  | .bin l op r => .bin (subst σ l) op (subst σ r)
  | .pre op e => .pre op (subst σ e)
  | .var x =>
    match σ x with
    | some v => v
    | none => .var x
  | e => e

end QV
