import QV.Wire
import QV.Shared.AstWire
import QV.Shared.SchedWire
import QV.Shared.HandlerFromAst
/-
Wire format and driver helpers of the "ast" streams of C22–C25 (Rust side: harness/src/sched.rs `ast_input`).

  sigs      err | ((name hasReturn (mutable…))…)        ExternSignatureMap::try_from(extern_pragma_map)
  answer    (a <role c|r|f|p> <sched 0|1> <memErr 0|1> ("read"…) ("write"…) ("capture"…) <none | (fr (frame…) (frame…))>)
            the REAL handler's answers by name (frames as AST frame identifiers), used only to cross-check
            `HandlerFromAst.answersOf` instruction by instruction
  rblock    (b (answer…) <none | answer>)
  input     (ast (instruction…) sigs (rblock…))          instructions = everything passed to add_instruction

The driver builds the `AProgram` from the instruction list and `sigs`, computes blocks and answers ITSELF
(`HandlerFromAst.schedBlocks`), and only then looks at the real answers to compare.
-/
namespace QV.HandlerWire
open QV QV.Ast QV.Sched QV.Sched.Wire QV.HandlerFromAst

def decSig : Sexp → Option (String × C27.Sig)
  | .list [.str n, r, .list ms] => do
    let r ← decBool r
    let ms ← ms.mapM decBool
    pure (n, ⟨r, ms⟩)
  | _ => none

def decSigs : Sexp → Option (Option C27.Sigs)
  | .atom "err" => some none
  | .list xs => (xs.mapM decSig).map some
  | _ => none

def decProgram (instrs sigs : Sexp) : Option AProgram := do
  let is ← AstWire.decodeInstructionList instrs
  let sg ← decSigs sigs
  pure ⟨is, sg⟩

/-- the real handler's answer about one instruction, by name -/
structure RealAnswer where
  role : Role
  scheduled : Bool
  memErr : Bool
  reads : List String
  writes : List String
  captures : List String
  frames : Option (List C26.Frame × List C26.Frame)

def decStrs : Sexp → Option (List String)
  | .list xs => xs.mapM Sexp.asStr?
  | _ => none

def decFrames : Sexp → Option (List C26.Frame)
  | .list xs => xs.mapM fun s => (AstWire.decodeFrame s).map HandlerFromAst.frame
  | _ => none

def decAnswer : Sexp → Option RealAnswer
  | .list [.atom "a", role, sched, memErr, rs, ws, cs, fr] => do
    let role ← decRole role
    let scheduled ← decBool sched
    let memErr ← decBool memErr
    let reads ← decStrs rs
    let writes ← decStrs ws
    let captures ← decStrs cs
    let frames ← match fr with
      | .atom "none" => some none
      | .list [.atom "fr", u, b] => do
        let u ← decFrames u
        let b ← decFrames b
        pure (some (u, b))
      | _ => none
    pure { role, scheduled, memErr, reads, writes, captures, frames }
  | _ => none

def decRBlock : Sexp → Option (List RealAnswer × Option RealAnswer)
  | .list [.atom "b", .list as, t] => do
    let as ← as.mapM decAnswer
    let t ← match t with
      | .atom "none" => some none
      | s => (decAnswer s).map some
    pure (as, t)
  | _ => none

def sameSet {α : Type} [DecidableEq α] (a b : List α) : Bool :=
  a.all (fun x => b.contains x) && b.all (fun x => a.contains x)

/-- does the model's answer (computed from the AST) equal the real one? -/
def answerAgrees (p : AProgram) (i : Ast.Instruction) (r : RealAnswer) : Bool :=
  role i == r.role && isScheduled i == r.scheduled &&
  (match accessNames p i with
   | none => r.memErr
   | some (rs, ws, cs) => !r.memErr && sameSet rs r.reads && sameSet ws r.writes && sameSet cs r.captures) &&
  (match matchedFrames p i, r.frames with
   | none, none => true
   | some m, some (u, b) => sameSet m.used u && sameSet m.blocked b
   | _, _ => false)

/-- blocks and answers computed from the AST agree with what the real CFG / handler reported -/
def answersAgree (p : AProgram) (real : List (List RealAnswer × Option RealAnswer)) : Bool :=
  let bs := astBlocks p
  bs.length == real.length &&
  (bs.zip real).all fun (b, r) =>
    b.instrs.length == r.1.length && (b.instrs.zip r.1).all (fun (i, a) => answerAgrees p i a) &&
    (match b.term, r.2 with
     | none, none => true
     | some t, some a => answerAgrees p t a
     | _, _ => false)

def instrTags (p : AProgram) : List String :=
  ((astBlocks p).flatMap fun b => b.all.map Instruction.variantName).eraseDups.map fun v => "v:" ++ v

/-- Generic handler of an "ast" program case: everything the model needs is computed from the AST. -/
def handleAst (instrs sigs realBlocks out : Sexp)
    (spec : AProgram → ABlock → Block → List Nat → List Edge → Bool) (nontriv : Block → Bool)
    (tagsOf : Block → List Edge → List String) : CaseResult :=
  match decProgram instrs sigs, (match realBlocks with | .list xs => xs.mapM decRBlock | _ => none) with
  | some p, some real =>
    let ablocks := astBlocks p
    let blocks := ablocks.map (schedBlock p)
    let (mOut, mOk) := modelProgram (externErr p) blocks
    let ansOk := answersAgree p real
    let agree := agreeOut (externErr p) blocks mOut mOk out && ansOk
    let (specOk, tags) : Bool × List String := match out with
      | .list (.atom "ok" :: gs) =>
        if gs.length != blocks.length then (false, []) else
        ((ablocks.zip blocks).zip gs).foldl (fun acc abg =>
          match decGraph abg.1.2.instrs.length abg.2 with
          | some (ns, es) => (acc.1 && spec p abg.1.1 abg.1.2 ns es, acc.2 ++ tagsOf abg.1.2 es)
          | none => (false, acc.2)) (true, [])
      | .list (.atom "err" :: _) => (true, [])
      | _ => (false, [])
    let maxLen := blocks.foldl (fun m b => max m b.instrs.length) 0
    let errTag := match out with
      | .list (.atom "err" :: .atom v :: _) => [s!"err-{v}"]
      | _ => ["ok"]
    { agree, specOk, nontrivial := mOk && blocks.any nontriv,
      tags := ["ast", s!"blocks{min blocks.length 4}", s!"len{min maxLen 8}"] ++ errTag ++ tags.eraseDups ++
        instrTags p ++ (if ansOk then [] else ["answers-differ"]),
      detail := s!"answersAgree={ansOk} model={mOut} impl={out}" }
  | _, _ => .bad "undecodable ast case"

end QV.HandlerWire
