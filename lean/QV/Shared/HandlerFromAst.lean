import QV.Shared.Ast
import QV.Shared.Sched
import QV.C26.Model
import QV.C27.Model
import QV.C28.Model
/-
QV.Shared.HandlerFromAst — what the DEFAULT `InstructionHandler` says about an instruction, computed in Lean
from the shared full AST (`QV.Shared.Ast`), so that the scheduling models of C22–C25 can be fed from the AST of a
program instead of from answers reported by the implementation.

  * `toC26 : Ast.Instruction → C26.Instr`, `toC27 : Ast.Instruction → C27.Instr` — structural projections onto
    the instruction types of the PROVED models of `DefaultHandler::matching_frames` (C26) and
    `DefaultHandler::memory_accesses` (C27).  Nothing is decided here: every field those models look at is
    copied.
  * `role`, `isScheduled` — `DefaultHandler::role` / `is_scheduled` (instruction/mod.rs:921-975), one arm per
    variant.
  * `AProgram` — a program built by `Program::add_instruction` calls: the list of added instructions, in
    order, plus the result of `ExternSignatureMap::try_from(program.extern_pragma_map)` (decoded input: the
    signature mini-language is C31's subject).  `definedFrames` = keys of `Program::frames`; `c26Prog` gives
    C26's view (`usedQubits` = `Program::get_used_qubits`); `body` = `Program::instructions`.
  * `astBlocks` — the basic blocks, computed with C28's proved model of `ControlFlowGraph::from`.
  * `answersOf` — exactly the `Sched.Instr` record that `Sched.buildBlock` consumes; regions and frames are
    numbered by their index in `regionUniverse p` / `definedFrames p` (injective on what occurs).
  * `schedBlocks p`, `externErr p` — the input of `Sched.buildProgram`.
  * C25: `durDescOf` (the ingredients of `instruction_duration_seconds`) with `bitsToUnits`, the exact value of
    an f64 bit pattern in units of 2⁻¹⁰ (`none` if it is not a multiple).

Placeholders (`Qubit::Placeholder`, compared by address in Rust) are outside the scope of this file: they are
mapped to reserved variable names; the "ast" streams only contain parsed programs, which have none
(`noPlaceholders`).
-/
namespace QV.HandlerFromAst
open QV QV.Ast

/-! ### Adapters to C26 -/

def qubit : Ast.Qubit → C26.Qubit
  | .fixed n => .fixed n
  | .variable s => .var s
  | .placeholder k => .var ("\u0001placeholder" ++ toString k)

def frame (f : Ast.FrameIdentifier) : C26.Frame := ⟨f.name, f.qubits.map qubit⟩

mutual
/-- the fields `default_frame_match_condition` and `get_qubits` look at -/
def toC26 : Ast.Instruction → C26.Instr
  | .pulse p => .pulse p.blocking (frame p.frame)
  | .capture c => .capture c.blocking (frame c.frame)
  | .rawCapture r => .rawCapture r.blocking (frame r.frame)
  | .delay d => .delay d.frameNames (d.qubits.map qubit)
  | .fence f => .fence (f.qubits.map qubit)
  | .reset r => .reset (r.qubit.map qubit)
  | .setFrequency s => .setFrequency (frame s.frame)
  | .setPhase s => .setPhase (frame s.frame)
  | .setScale s => .setScale (frame s.frame)
  | .shiftFrequency s => .shiftFrequency (frame s.frame)
  | .shiftPhase s => .shiftPhase (frame s.frame)
  | .swapPhases s => .swapPhases (frame s.frame1) (frame s.frame2)
  | .gate g => .gate (g.qubits.map qubit)
  | .measurement m => .measure (qubit m.qubit)
  | .calibrationDefinition id body => .defcal (id.qubits.map qubit) (toC26All body)
  | .measureCalibrationDefinition id body => .defcalMeasure (qubit id.qubit) (toC26All body)
  | _ => .other
def toC26All : List Ast.Instruction → List C26.Instr
  | [] => []
  | i :: is => toC26 i :: toC26All is
end

/-! ### Adapters to C27 -/

/-- the shape `Expression::memory_references` walks -/
def exprE : PExpr → C27.E
  | .address r => .addr r.name
  | .call _ e => .un (exprE e)
  | .bin l _ r => .bin (exprE l) (exprE r)
  | .number _ => .leaf
  | .pi => .leaf
  | .pre _ e => .un (exprE e)
  | .var _ => .leaf

def arithOperand : ArithmeticOperand → Option C27.Region
  | .memoryReference r => some r.name
  | _ => none
def binOperand : BinaryOperand → Option C27.Region
  | .memoryReference r => some r.name
  | _ => none
def cmpOperand : ComparisonOperand → Option C27.Region
  | .memoryReference r => some r.name
  | _ => none
def callArg : UnresolvedCallArgument → C27.Arg
  | .identifier s => .ident s
  | .memoryReference r => .memref r.name
  | .immediate _ => .immediate

def attrExprs (attrs : List (String × AttributeValue)) : List C27.E :=
  attrs.filterMap fun kv => match kv.2 with
    | .expression e => some (exprE e)
    | .string _ => none

def gateSpec : GateSpecification → C27.GateSpec
  | .matrix rows => .matrix (rows.map fun r => r.map exprE)
  | .permutation _ => .permutation
  | .pauliSum s => .pauliSum (s.terms.map fun t => exprE t.expression)
  | .sequence s => .sequence (s.gates.map fun g => g.parameters.map exprE)

mutual
/-- the fields `DefaultHandler::memory_accesses` looks at -/
def toC27 : Ast.Instruction → C27.Instr
  | .arithmetic a => .arithmetic a.destination.name (arithOperand a.source)
  | .binaryLogic b => .binaryLogic b.destination.name (binOperand b.source)
  | .calibrationDefinition id body => .calibrationDefinition (id.parameters.map exprE) (toC27All body)
  | .call c => .call c.name (c.arguments.map callArg)
  | .capture c => .capture c.memoryReference.name (c.waveform.parameters.map fun kv => exprE kv.2)
  | .circuitDefinition _ _ _ body => .circuitDefinition (toC27All body)
  | .convert c => .convert c.destination.name c.source.name
  | .comparison c => .comparison c.destination.name c.lhs.name (cmpOperand c.rhs)
  | .declaration d => .declaration d.name (d.sharing.map (·.name))
  | .delay d => .delay (exprE d.duration)
  | .exchange e => .exchange e.left.name e.right.name
  | .fence _ => .fence
  | .frameDefinition f => .frameDefinition (attrExprs f.attributes)
  | .gate g => .gate (g.parameters.map exprE)
  | .gateDefinition g => .gateDefinition (gateSpec g.specification)
  | .halt => .halt
  | .include _ => .include
  | .jump _ => .jump
  | .jumpUnless j => .jumpUnless j.condition.name
  | .jumpWhen j => .jumpWhen j.condition.name
  | .label _ => .label
  | .load l => .load l.destination.name l.source l.offset.name
  | .measureCalibrationDefinition _ body => .measureCalibrationDefinition (toC27All body)
  | .measurement m => .measurement (m.target.map (·.name))
  | .move m => .move m.destination.name (arithOperand m.source)
  | .nop => .nop
  | .pragma _ => .pragma
  | .pulse p => .pulse (p.waveform.parameters.map fun kv => exprE kv.2)
  | .rawCapture r => .rawCapture r.memoryReference.name (exprE r.duration)
  | .reset _ => .reset
  | .setFrequency s => .setFrequency (exprE s.frequency)
  | .setPhase s => .setPhase (exprE s.phase)
  | .setScale s => .setScale (exprE s.scale)
  | .shiftFrequency s => .shiftFrequency (exprE s.frequency)
  | .shiftPhase s => .shiftPhase (exprE s.phase)
  | .store s => .store s.destination s.offset.name (arithOperand s.source)
  | .swapPhases _ => .swapPhases
  | .unaryLogic u => .unaryLogic u.operand.name
  | .waveformDefinition w => .waveformDefinition (w.definition.matrix.map exprE)
  | .wait => .wait
def toC27All : List Ast.Instruction → List C27.Instr
  | [] => []
  | i :: is => toC27 i :: toC27All is
end

/-! ### `DefaultHandler::role` and `is_scheduled` (instruction/mod.rs:921-975) -/

def role : Ast.Instruction → Sched.Role
  | .calibrationDefinition _ _ | .circuitDefinition _ _ _ _ | .declaration _ | .frameDefinition _ | .gate _
  | .gateDefinition _ | .include _ | .label _ | .measureCalibrationDefinition _ _ | .measurement _
  | .waveformDefinition _ => .composition
  | .reset _ | .capture _ | .delay _ | .fence _ | .pulse _ | .rawCapture _ | .setFrequency _ | .setPhase _
  | .setScale _ | .shiftFrequency _ | .shiftPhase _ | .swapPhases _ => .rf
  | .arithmetic _ | .call _ | .comparison _ | .convert _ | .binaryLogic _ | .unaryLogic _ | .move _
  | .exchange _ | .load _ | .nop | .pragma _ | .store _ => .classical
  | .halt | .jump _ | .jumpWhen _ | .jumpUnless _ | .wait => .controlFlow

def isScheduled : Ast.Instruction → Bool
  | .reset _ => false
  | .wait => true
  | i => role i = .rf

/-! ### The program -/

/-- A program built by `Program::add_instruction` calls (program/mod.rs:233-306). -/
structure AProgram where
  /-- every instruction that was added, in order -/
  added : List Ast.Instruction
  /-- `ExternSignatureMap::try_from(program.extern_pragma_map)`: `none` = the conversion fails -/
  sigs : Option C27.Sigs

/-- `PRAGMA EXTERN …` goes to the extern pragma map (mod.rs:298-300, `RESERVED_PRAGMA_EXTERN = "EXTERN"`) -/
def isExternPragma : Ast.Instruction → Bool
  | .pragma p => p.name = "EXTERN"
  | _ => false

/-- the arms of `add_instruction` that do NOT push onto `instructions` -/
def isDefinition : Ast.Instruction → Bool
  | .calibrationDefinition _ _ | .circuitDefinition _ _ _ _ | .frameDefinition _ | .declaration _
  | .gateDefinition _ | .measureCalibrationDefinition _ _ | .waveformDefinition _ => true
  | i => isExternPragma i

/-- `Program::instructions` -/
def body (p : AProgram) : List Ast.Instruction := p.added.filter fun i => !isDefinition i

/-- keys of `Program::frames` (a map: each identifier once) -/
def definedFrames (p : AProgram) : List C26.Frame :=
  C26.dedup (p.added.filterMap fun i => match i with
    | .frameDefinition f => some (frame f.identifier)
    | _ => none)

/-- C26's view of the program -/
def c26Prog (p : AProgram) : C26.Prog := ⟨definedFrames p, toC26All p.added⟩

/-- `Program::waveforms`: name ↦ number of samples of the LAST definition with that name (`IndexMap::insert`) -/
def waveformLength (p : AProgram) (name : String) : Option Nat :=
  p.added.foldl (fun acc i => match i with
    | .waveformDefinition w => if w.name = name then some w.definition.matrix.length else acc
    | _ => acc) none

/-- `Program::frames.get(f)`: attributes of the LAST `DEFFRAME` of that identifier -/
def frameAttributes (p : AProgram) (f : C26.Frame) : Option (List (String × AttributeValue)) :=
  p.added.foldl (fun acc i => match i with
    | .frameDefinition d => if frame d.identifier = f then some d.attributes else acc
    | _ => acc) none

/-! ### Basic blocks through C28's model of `ControlFlowGraph::from` -/

def toC28 : Ast.Instruction → C28.Ins Ast.Instruction Ast.Target MemRef
  | .label l => .label l.target
  | .jump j => .jump j.target
  | .jumpWhen j => .jumpWhen j.target j.condition
  | .jumpUnless j => .jumpUnless j.target j.condition
  | .halt => .halt
  | .calibrationDefinition id b => .skip (.calibrationDefinition id b)
  | .circuitDefinition a b c d => .skip (.circuitDefinition a b c d)
  | .declaration d => .skip (.declaration d)
  | .frameDefinition d => .skip (.frameDefinition d)
  | .gateDefinition d => .skip (.gateDefinition d)
  | .include d => .skip (.include d)
  | .measureCalibrationDefinition id b => .skip (.measureCalibrationDefinition id b)
  | .waveformDefinition d => .skip (.waveformDefinition d)
  | i => .other i

/-- `BasicBlockTerminator::into_instruction` (control_flow_graph.rs:408-433) -/
def termInstr : C28.Term Ast.Target MemRef → Option Ast.Instruction
  | .continue => none
  | .jump l => some (.jump ⟨l⟩)
  | .cond l c true => some (.jumpUnless ⟨l, c⟩)
  | .cond l c false => some (.jumpWhen ⟨l, c⟩)
  | .halt => some .halt

/-- a basic block at the AST level: body instructions and the terminator instruction -/
structure ABlock where
  instrs : List Ast.Instruction
  term : Option Ast.Instruction

def ABlock.all (b : ABlock) : List Ast.Instruction := b.instrs ++ b.term.toList

def astBlocks (p : AProgram) : List ABlock :=
  (C28.build ((body p).map toC28)).map fun b => ⟨b.instrs, termInstr b.term⟩

/-! ### The handler's answers -/

def indexIn {α : Type} [DecidableEq α] : List α → α → Nat
  | [], _ => 0
  | x :: xs, a => if x = a then 0 else indexIn xs a + 1

/-- the memory accesses as region NAMES (duplicate-free), or `none` when `memory_accesses` fails -/
def accessNames (p : AProgram) (i : Ast.Instruction) : Option (List String × List String × List String) :=
  match C27.memoryAccesses (p.sigs.getD []) (toC27 i) with
  | .ok a => some (C26.dedup a.reads, C26.dedup a.writes, C26.dedup a.captures)
  | .error _ => none

/-- every region name that an instruction of some block accesses -/
def regionUniverse (p : AProgram) : List String :=
  (astBlocks p).flatMap fun b => b.all.flatMap fun i =>
    match accessNames p i with
    | some (r, w, c) => r ++ w ++ c
    | none => []

def regionId (p : AProgram) (r : String) : Nat := indexIn (regionUniverse p) r
def frameId (p : AProgram) (f : C26.Frame) : Nat := indexIn (definedFrames p) f

/-- `DefaultHandler::matching_frames` on the AST (C26's proved model) -/
def matchedFrames (p : AProgram) (i : Ast.Instruction) : Option C26.Matched :=
  C26.matchingFrames (c26Prog p) (toC26 i)

/-- the default handler's answers about instruction `i` of program `p`, with regions numbered by `rid` -/
def answersWith (rid : String → Nat) (p : AProgram) (i : Ast.Instruction) : Sched.Instr :=
  let acc := accessNames p i
  { role := role i
    scheduled := isScheduled i
    memErr := acc.isNone
    reads := (acc.map (·.1)).getD [] |>.map rid
    writes := (acc.map (·.2.1)).getD [] |>.map rid
    captures := (acc.map (·.2.2)).getD [] |>.map rid
    frames := (matchedFrames p i).map fun m => (m.used.map (frameId p), m.blocked.map (frameId p)) }

/-- **what the default handler answers about instruction `i` of program `p`**, as `Sched.buildBlock` wants it -/
def answersOf (p : AProgram) (i : Ast.Instruction) : Sched.Instr := answersWith (regionId p) p i

def schedBlock (p : AProgram) (b : ABlock) : Sched.Block :=
  ⟨b.instrs.map (answersOf p), b.term.map (answersOf p)⟩

/-- the input of `Sched.buildProgram` for a whole AST program -/
def schedBlocks (p : AProgram) : List Sched.Block := (astBlocks p).map (schedBlock p)
def externErr (p : AProgram) : Bool := p.sigs.isNone

/-! ### C25: the ingredients of `instruction_duration_seconds` from the AST -/

/-- exact value of the f64 with bit pattern `bits`, in units of 2⁻¹⁰; `none` if non-finite or not a multiple -/
def bitsToUnits (bits : Nat) : Option Int :=
  let sign : Nat := bits / 2 ^ 63
  let e : Nat := (bits / 2 ^ 52) % 2048
  let m : Nat := bits % 2 ^ 52
  if e = 2047 then none else
  let M : Nat := if e = 0 then m else m + 2 ^ 52
  -- value = M · 2^(E), E = (if e = 0 then -1074 else e - 1075); units = M · 2^(E + 10)
  let shift : Int := (if e = 0 then (-1074 : Int) else (e : Int) - 1075) + 10
  let mag : Option Nat :=
    if shift ≥ 0 then some (M * 2 ^ shift.toNat)
    else if M % 2 ^ (-shift).toNat = 0 then some (M / 2 ^ (-shift).toNat) else none
  mag.map fun v => if sign = 1 then -(v : Int) else (v : Int)

/-- `Expression::to_real` (expression/mod.rs:615-622) as exact units: `some none` = not a real literal,
`none` = a real literal that is not a multiple of 2⁻¹⁰ (π, 1e-9, …: outside the exact model) -/
def toRealUnits : PExpr → Option (Option Int)
  | .number z => if z.im = 0 ∨ z.im = 2 ^ 63 then (bitsToUnits z.re).map some else none
  | .pi => none
  | _ => some none

def paramUnits (ps : List (String × PExpr)) (k : String) : Option (Option Int) :=
  match ps.lookup k with
  | some e => toRealUnits e
  | none => some none

/-- SAMPLE-RATE of a frame in Hz: `some none` = the frame has no real-valued SAMPLE-RATE -/
def sampleRateHz (p : AProgram) (f : C26.Frame) : Option (Option Int) :=
  match (frameAttributes p f).bind (·.lookup "SAMPLE-RATE") with
  | some (.expression e) =>
    match toRealUnits e with
    | some (some u) => if u % 1024 = 0 then some (some (u / 1024)) else none
    | some none => some none
    | none => none
  | _ => some none

def optAll {α : Type} : List (Option α) → Option (List α)
  | [] => some []
  | x :: xs => match x, optAll xs with
    | some a, some as => some (a :: as)
    | _, _ => none

def waveformDesc (p : AProgram) (i : Ast.Instruction) (w : WaveformInvocation) : Option Sched.DurDesc := do
  let d ← paramUnits w.parameters "duration"
  let pl ← paramUnits w.parameters "pad_left"
  let pr ← paramUnits w.parameters "pad_right"
  let rates ← match matchedFrames p i with
    | none => some none
    | some m => (optAll (m.used.map (sampleRateHz p))).map fun rs => some (rs.filterMap id)
  pure (.waveform (waveformLength p w.name) d pl pr rates)

/-- what `instruction_duration_seconds` looks at; `none` = some time is not exactly representable -/
def durDescOf (p : AProgram) : Ast.Instruction → Option Sched.DurDesc
  | .pulse x => waveformDesc p (.pulse x) x.waveform
  | .capture x => waveformDesc p (.capture x) x.waveform
  | .delay d => (toRealUnits d.duration).map .literal
  | .rawCapture r => (toRealUnits r.duration).map .literal
  | .fence _ | .setFrequency _ | .setPhase _ | .setScale _ | .shiftFrequency _ | .shiftPhase _
  | .swapPhases _ => some .zero
  | _ => some .unknown

/-- C25: the block of calibration-EXPANDED instructions (`BasicBlock::as_schedule` builds it and schedules it
against the ORIGINAL program, control_flow_graph.rs:266-274); regions are numbered within the expanded block -/
def expandedBlock (p : AProgram) (flat : List Ast.Instruction) (term : Option Ast.Instruction) : Sched.Block :=
  let names : List String := (flat ++ term.toList).flatMap fun i =>
    match accessNames p i with
    | some (r, w, c) => r ++ w ++ c
    | none => []
  ⟨flat.map (answersWith (indexIn names) p), term.map (answersWith (indexIn names) p)⟩

/-! ### scope -/

def qubitOk : Ast.Qubit → Bool
  | .placeholder _ => false
  | _ => true

end QV.HandlerFromAst
