import QV.Wire
import QV.Shared.GateWire
import QV.C14.Model
import QV.C14.Spec
import QV.C15.Model
import QV.C15.Spec
/-
QV.Shared.GateProgWire — wire decoding of gates with modifiers and of body instructions, the projection of a
gate to what the specification sees (`specArgs`), and the specification of a program's unitary
(`progSpec`), shared by the C14 and C15 drivers (C14 observes `Program::to_unitary` too).  No Mathlib.

  instruction   gate | (halt) | (other)
  program       (instrs instruction*)
-/
namespace QV
namespace GateWire
open QV.C14 QV.C15

def decodeMod : Sexp → Option Modifier
  | .atom "C" => some .controlled
  | .atom "D" => some .dagger
  | .atom "F" => some .forked
  | _ => none

def decodeGate : Sexp → Option (Gate C64)
  | .list [.atom "gate", .str name, .list (.atom "mods" :: ms), .list (.atom "params" :: ps),
           .list (.atom "qubits" :: qs)] =>
    match decodeAll decodeMod ms, decodeAll decodeParam ps, decodeAll decodeQubit qs with
    | some ms, some ps, some qs => some ⟨name, ps, qs, ms⟩
    | _, _, _ => none
  | _ => none

def decodeInstr : Sexp → Option (Instr C64)
  | .list [.atom "halt"] => some .halt
  | .list [.atom "other"] => some .other
  | s => (decodeGate s).map .gate

def fixedOnly : List Qubit → Option (List Nat)
  | [] => some []
  | .fixed k :: qs => (fixedOnly qs).map (k :: ·)
  | _ :: _ => none

def realNums : List (Param C64) → Option (List C64)
  | [] => some []
  | .num z :: ps => if z.im == 0.0 then (realNums ps).map (z :: ·) else none
  | _ :: _ => none

/-- the gate as the specification sees it, when it is a well-formed application to distinct fixed qubits `< n` -/
def specArgs (g : Gate C64) (n : Nat) : Option (List Modifier × String × List C64 × List Nat) :=
  match fixedOnly g.qubits, realNums g.params with
  | some qs, some θs => if validPlacement qs n then some (g.mods, g.name, θs, qs) else none
  | _, _ => none

def gateSpec (g : Gate C64) (n : Nat) : Option M :=
  (specArgs g n).bind fun (ms, name, θs, qs) => denote n ms name θs qs

def modsTag (ms : List Modifier) : String :=
  "m-" ++ String.ofList (ms.map fun | .controlled => 'C' | .dagger => 'D' | .forked => 'F')

def resTag : Res → String
  | .ok _ => "ok" | .err k => s!"err-{k}" | .crash => "crash" | .timeout => "timeout"

def progRes : Outcome (Except ProgErr M) → Res
  | .ok (.ok m) => .ok m
  | .ok (.error (.gate e)) => .err ("gate-" ++ errName e)
  | .ok (.error .unsupported) => .err "unsupported"
  | .crash _ => .crash
  | .outOfFuel => .timeout

def encodeQubit : Qubit → Sexp
  | .fixed k => .list [.atom "f", .atom (toString k)]
  | .variable => .list [.atom "v"]
  | .placeholder => .list [.atom "p"]

/-- gates are compared structurally except for numeric parameters, which the harness echoes bit for bit;
the model only moves them around, so comparing the encoded form is exact -/
def encodeGate (g : Gate C64) : Sexp :=
  .list [.atom "gate", .str g.name,
    .list (.atom "mods" :: g.mods.map fun | .controlled => .atom "C" | .dagger => .atom "D" | .forked => .atom "F"),
    .list (.atom "params" :: g.params.map fun
      | .num z => .list [.atom "num", ExprWire.encodeF64 z.re, ExprWire.encodeF64 z.im]
      | .other => .list [.atom "other"]),
    .list (.atom "qubits" :: g.qubits.map encodeQubit)]

def encodeInstr : Instr C64 → Sexp
  | .gate g => encodeGate g
  | .halt => .list [.atom "halt"]
  | .other => .list [.atom "other"]

/-- the specification of `Program::to_unitary` on a body of gates and `HALT`s whose gates are well-formed
applications to distinct qubits `< n` with real constant parameters: the ordered product of the denotations -/
def progSpec (is : List (Instr C64)) (n : Nat) : Option M :=
  let gates := is.filterMap fun | .gate g => some g | _ => none
  let onlyGatesAndHalt := is.all fun | .other => false | _ => true
  let args := gates.map fun g => specArgs g n
  if onlyGatesAndHalt && args.all Option.isSome then denoteProg n (args.filterMap id) else none

end GateWire
end QV
