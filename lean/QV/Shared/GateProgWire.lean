import QV.Wire
import QV.Shared.GateWire
import QV.C14.Model
import QV.C14.Spec
import QV.C15.Model
import QV.C15.Spec
/-
QV.Shared.GateProgWire — wire decoding of gates with modifiers and of body instructions, the projection of a
gate to what the specification sees (`specArgs`), and the specification of a program's unitary
(`progSpec`), shared by the C14 and C15 drivers (C14 observes `Program::to_unitary` too).  No Mathlib.

  instruction   gate | (halt) | (other)
  program       (instrs instruction*)
-/
namespace QV
namespace GateWire
open QV.C14 QV.C15

def decodeMod : Sexp → Option Modifier
  | .atom "C" => some .controlled
  | .atom "D" => some .dagger
  | .atom "F" => some .forked
  | _ => none

def decodeGate : Sexp → Option (Gate C64)
  | .list [.atom "gate", .str name, .list (.atom "mods" :: ms), .list (.atom "params" :: ps),
           .list (.atom "qubits" :: qs)] =>
    match decodeAll decodeMod ms, decodeAll decodeParam ps, decodeAll decodeQubit qs with
    | some ms, some ps, some qs => some ⟨name, ps, qs, ms⟩
    | _, _, _ => none
  | _ => none

def decodeInstr : Sexp → Option (Instr C64)
  | .list [.atom "halt"] => some .halt
  | .list [.atom "other"] => some .other
  | s => (decodeGate s).map .gate

def fixedOnly : List Qubit → Option (List Nat)
  | [] => some []
  | .fixed k :: qs => (fixedOnly qs).map (k :: ·)
  | _ :: _ => none

def realNums : List (Param C64) → Option (List C64)
  | [] => some []
  | .num z :: ps => if z.im == 0.0 then (realNums ps).map (z :: ·) else none
  | _ :: _ => none

/-- the gate as the specification sees it, when it is a well-formed application to distinct fixed qubits `< n` -/
def specArgs (g : Gate C64) (n : Nat) : Option (List Modifier × String × List C64 × List Nat) :=
  match fixedOnly g.qubits, realNums g.params with
  | some qs, some θs => if validPlacement qs n then some (g.mods, g.name, θs, qs) else none
  | _, _ => none

def gateSpec (g : Gate C64) (n : Nat) : Option M :=
  (specArgs g n).bind fun (ms, name, θs, qs) => denote n ms name θs qs

def modsTag (ms : List Modifier) : String :=
  "m-" ++ String.ofList (ms.map fun | .controlled => 'C' | .dagger => 'D' | .forked => 'F')

def resTag : Res → String
  | .ok _ => "ok" | .err k => s!"err-{k}" | .crash => "crash" | .timeout => "timeout"

def progRes : Outcome (Except ProgErr M) → Res
  | .ok (.ok m) => .ok m
  | .ok (.error (.gate e)) => .err ("gate-" ++ errName e)
  | .ok (.error .unsupported) => .err "unsupported"
  | .crash _ => .crash
  | .outOfFuel => .timeout

def encodeQubit : Qubit → Sexp
  | .fixed k => .list [.atom "f", .atom (toString k)]
  | .variable => .list [.atom "v"]
  | .placeholder => .list [.atom "p"]

/-- gates are compared structurally except for numeric parameters, which the harness echoes bit for bit;
the model only moves them around, so comparing the encoded form is exact -/
def encodeGate (g : Gate C64) : Sexp :=
  .list [.atom "gate", .str g.name,
    .list (.atom "mods" :: g.mods.map fun | .controlled => .atom "C" | .dagger => .atom "D" | .forked => .atom "F"),
    .list (.atom "params" :: g.params.map fun
      | .num z => .list [.atom "num", ExprWire.encodeF64 z.re, ExprWire.encodeF64 z.im]
      | .other => .list [.atom "other"]),
    .list (.atom "qubits" :: g.qubits.map encodeQubit)]

def encodeInstr : Instr C64 → Sexp
  | .gate g => encodeGate g
  | .halt => .list [.atom "halt"]
  | .other => .list [.atom "other"]

/-- Every error kind that APPLIES to a gate application (the property says an invalid gate is rejected, not which
of several applicable errors is reported): variable / placeholder qubit, non-constant parameter, name not in the
constant / parameterised table, more than one parameter, a FORKED level with an odd parameter count. -/
def gateErrKinds (g : Gate C64) : List String :=
  let forks := (g.mods.filter (· == .forked)).length
  (if g.qubits.any (fun q => q == .variable) then ["variable-qubit"] else []) ++
  (if g.qubits.any (fun q => q == .placeholder) then ["placeholder"] else []) ++
  (if g.params.any (fun | .other => true | _ => false) then ["non-constant"] else []) ++
  (if (constTable (K := C64) g.name).isNone then ["undefined-constant"] else []) ++
  (if (paramTable (K := C64) g.name).isNone then ["undefined-parameterized"] else []) ++
  (if g.params.length ≥ 2 then ["arg-length"] else []) ++
  (if forks > 0 && g.params.length % (2 ^ forks) != 0 then ["forked-odd"] else [])

/-- error kinds that apply to a program: any offender's -/
def progErrKinds (is : List (Instr C64)) : List String :=
  (is.flatMap fun | .gate g => (gateErrKinds g).map ("gate-" ++ ·) | _ => []) ++
  (if is.any (fun | .other => true | _ => false) then ["unsupported"] else [])

/-- model result vs implementation result where, between two errors, any applicable kind is accepted;
`ok` results are compared exactly as before -/
def resAgreeKinds (tol : Float) (kinds : List String) : Res → Res → Bool
  | .err a, .err b => a == b || kinds.contains b
  | a, b => resAgree tol a b

/-- "an invalid input is rejected": when the model rejects, the implementation rejects with an applicable error -/
def rejectedOk (kinds : List String) : Res → Res → Bool
  | .err _, .err b => kinds.contains b
  | .err _, _ => false
  | _, _ => true

/-- the specification of `Program::to_unitary` on a body of gates and `HALT`s whose gates are well-formed
applications to distinct qubits `< n` with real constant parameters: the ordered product of the denotations -/
def progSpec (is : List (Instr C64)) (n : Nat) : Option M :=
  let gates := is.filterMap fun | .gate g => some g | _ => none
  let onlyGatesAndHalt := is.all fun | .other => false | _ => true
  let args := gates.map fun g => specArgs g n
  if onlyGatesAndHalt && args.all Option.isSome then denoteProg n (args.filterMap id) else none

end GateWire
end QV
