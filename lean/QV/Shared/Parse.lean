import QV.Shared.Ast
import QV.Shared.DecF64
/-
QV.Shared.Parse — the shared TOKEN-LEVEL model of quil-rs's recursive-descent parser (no Mathlib; imports
only other QV model files).  One Lean function per Rust function of
`quil-rs/src/parser/{instruction,command,common,expression,gate,pragma_extern}.rs` and one combinator per
nom combinator they use (nom 7.1.3, `multi/mod.rs`, `combinator/mod.rs`, `branch/mod.rs`), same order of
alternatives, same `nom::Err::Error` (recoverable) versus `nom::Err::Failure` (after `cut`, or made
explicitly) distinction: it decides what `many0` / `opt` / `alt` backtrack over and therefore what is
accepted.  Built for C01 ("parsing never panics"), reused by C02/C04 (print → re-parse).

## Outcomes

`Outcome α = ok v rest | err | fail | crash why`.  `crash` stands for everything the Rust code can do
besides returning: `panic!`, `todo!`, `unreachable!`, `unwrap`/`expect`, slice indexing, arithmetic under
overflow checks, wrapping `as` casts — and for the two *model* budgets below.  Crash sites examined in the
current code (after the `fix:` commits 34d49dc, cc7df7f, 4d5e5ce):

* `parse_instruction`, instruction.rs:108 `&input[..1]` and :120 `&input[1..]`, and `parse_delay`,
  command.rs:408/410 `&input[qubits.len()..]` — slice indexing, panics if the slice is shorter: modelled
  by `sliceFrom` / `sliceTo`, which crash on a short list;
* `parse_call_immediate`, command.rs:159 — `0.0 - x`, `first + second`, `==` on f64: total;
* `extract_nom_err`, parser/mod.rs:65 `unreachable!()` on `nom::Err::Incomplete` — only streaming parsers
  produce `Incomplete`; every parser here is a `complete` one and `Outcome` has no such constructor;
* `signed_integer`, common.rs:47 — `checked_sub_unsigned` / `i64::try_from`: an unrepresentable value is an
  `Err`, mapped by `map_res` to `nom::Err::Error`; no arithmetic under overflow checks remains;
* `sign * v` (f64 multiply), `*value as f64`, `*index as f64` (`u64 → f64`, rounds, never panics);
* `arguments.take().unwrap_or_default()`, `index.unwrap_or(0)` … — total;
* `ident.to_lowercase()` — total.

## Budgets (model artefacts, proved never to be exhausted)

* **depth** `d`: the parser recurses (a) `parse → parse_grouped_expression | parse_function_call |
  parse_infix → parse` and (b) `parse_instruction → parse_defcal… | parse_defcircuit → parse_block →
  parse_block_instruction → parse_instruction`.  Both knots are tied by structural recursion on a depth
  budget: `parse (d+1)` may call `parse d`, `parseInstruction (d+1)` may call `parseInstruction d` and
  `parse (d+1)`.  `parse 0` / `parseInstruction 0` are `crash depthExceeded`.  Every recursive call is
  made after at least one token has been consumed, so a budget larger than the number of tokens is never
  exhausted (`QV.C01`: `parse_no_crash`, …); the entry points use `tokens.length + 1`.  The least
  sufficient budget is the nesting depth `depth ts` the parser reaches — unbounded (C01 `depth_unbounded`),
  which is the known finding C01/deep-nesting (the real stack is finite).
* **loop fuel**: `many0`, `many1`, `separated_list0/1` and the `while` loop of `parse` are loops in Rust;
  here they recurse on a fuel initialised to `input.length + 1`; each iteration consumes at least one
  token (nom's own "parser must always consume" guard is modelled: `many0` returns `Error` when an
  iteration consumes nothing), so the fuel is never exhausted; exhaustion is `crash loopFuel`.

## Conventions

* names in tokens are `List Char`, in the AST `String` (`String.ofList`);
* `Token.float b` carries the bits of a *finite* f64 (lexer invariant, lexer/mod.rs:383): `-1.0 * v` is then
  the sign-bit flip `DecF64.negBits`;
* `Token.integer n` carries `n < 2^64`; `n as f64` is `DecF64.ofNat n` (round to nearest, ties to even);
* `IndexMap` collection = `Ast.indexMapCollect`; `HashSet` membership tests = list membership.
-/
namespace QV.Parse
open QV QV.Tok QV.Ast

/-! ## outcomes and the parser monad -/

inductive Outcome (α : Type) where
  /-- `Ok((rest, v))` -/
  | ok (v : α) (rest : List Token)
  /-- `Err(nom::Err::Error(_))`: recoverable -/
  | err
  /-- `Err(nom::Err::Failure(_))`: not recoverable -/
  | fail
  /-- a panic / abort (or an exhausted model budget) -/
  | crash (why : String)
  deriving Repr, Inhabited

def depthExceeded : String := "recursion depth budget exceeded"
def loopFuel : String := "loop fuel exhausted"

/-- a token-level parser: `Fn(ParserInput) -> InternalParserResult<α>` -/
def Parser (α : Type) : Type := List Token → Outcome α

namespace Outcome
variable {α β : Type}

def isCrash : Outcome α → Bool
  | .crash _ => true
  | _ => false

def isOk : Outcome α → Bool
  | .ok _ _ => true
  | _ => false

/-- the outcome's class (what the correspondence check compares first) -/
inductive Cls where
  | ok | err | fail | crash
  deriving DecidableEq, Repr

def cls : Outcome α → Cls
  | .ok _ _ => .ok
  | .err => .err
  | .fail => .fail
  | .crash _ => .crash

/-- `Result::map` on the parsed value -/
def map (f : α → β) : Outcome α → Outcome β
  | .ok v r => .ok (f v) r
  | .err => .err
  | .fail => .fail
  | .crash w => .crash w

end Outcome

namespace Parser
variable {α β : Type}

@[inline] def pure (a : α) : Parser α := fun i => .ok a i

/-- sequencing with `?`: any non-`ok` outcome of the first parser is returned as is -/
@[inline] def bind (p : Parser α) (f : α → Parser β) : Parser β := fun i =>
  match p i with
  | .ok v r => f v r
  | .err => .err
  | .fail => .fail
  | .crash w => .crash w

instance : Monad Parser where
  pure := Parser.pure
  bind := Parser.bind

/-- `Err(nom::Err::Error(..))` -/
def error : Parser α := fun _ => .err
/-- `Err(nom::Err::Failure(..))` -/
def failure : Parser α := fun _ => .fail

end Parser

/-! ## the `token!` macro (macros.rs:29-91) and friends -/

/-- `token!(Variant)` / `token!(Variant(Enum::Value))`: exactly this token. -/
def tok (t : Token) : Parser Unit := fun i =>
  match i with
  | [] => .err
  | t' :: r => if t' = t then .ok () r else .err

/-- `token!(Identifier(v))` -/
def tokIdentifier : Parser (List Char) := fun i =>
  match i with
  | .identifier s :: r => .ok s r
  | _ => .err
/-- `token!(Integer(v))` -/
def tokInteger : Parser Nat := fun i =>
  match i with
  | .integer n :: r => .ok n r
  | _ => .err
/-- `token!(Float(v))` -/
def tokFloat : Parser Nat := fun i =>
  match i with
  | .float b :: r => .ok b r
  | _ => .err
/-- `token!(String(v))` -/
def tokString : Parser (List Char) := fun i =>
  match i with
  | .string s :: r => .ok s r
  | _ => .err
/-- `token!(Variable(v))` -/
def tokVariable : Parser (List Char) := fun i =>
  match i with
  | .variable s :: r => .ok s r
  | _ => .err
/-- `token!(Target(v))` -/
def tokTarget : Parser (List Char) := fun i =>
  match i with
  | .target s :: r => .ok s r
  | _ => .err
/-- `token!(DataType(v))` -/
def tokDataType : Parser DataType := fun i =>
  match i with
  | .dataType t :: r => .ok t r
  | _ => .err
/-- `token!(Modifier(v))` -/
def tokModifier : Parser Modifier := fun i =>
  match i with
  | .modifier m :: r => .ok m r
  | _ => .err
/-- `token!(Comment(v))` -/
def tokComment : Parser (List Char) := fun i =>
  match i with
  | .comment s :: r => .ok s r
  | _ => .err

/-! ## nom combinators -/
section Combinators
variable {α β γ : Type}

/-- `nom::combinator::opt`: a recoverable error becomes `None` (input unchanged). -/
def opt (p : Parser α) : Parser (Option α) := fun i =>
  match p i with
  | .ok v r => .ok (some v) r
  | .err => .ok none i
  | .fail => .fail
  | .crash w => .crash w

/-- `nom::branch::alt` on two parsers: the second runs only after a recoverable error of the first. -/
def alt (p q : Parser α) : Parser α := fun i =>
  match p i with
  | .err => q i
  | o => o

instance : OrElse (Parser α) := ⟨fun p q => alt p (q ())⟩

/-- `nom::combinator::cut`: a recoverable error becomes a failure. -/
def cut (p : Parser α) : Parser α := fun i =>
  match p i with
  | .err => .fail
  | o => o

/-- `nom::combinator::map` -/
def pmap (f : α → β) (p : Parser α) : Parser β := fun i => (p i).map f

/-- `nom::combinator::map_res`: `f` returning `None` (Rust: `Err(_)`) is a recoverable error. -/
def mapRes (p : Parser α) (f : α → Option β) : Parser β := fun i =>
  match p i with
  | .ok v r => match f v with
    | some b => .ok b r
    | none => .err
  | .err => .err
  | .fail => .fail
  | .crash w => .crash w

/-- `nom::sequence::preceded` -/
def preceded (p : Parser α) (q : Parser β) : Parser β := do let _ ← p; q
/-- `nom::sequence::pair` -/
def pair (p : Parser α) (q : Parser β) : Parser (α × β) := do let a ← p; let b ← q; pure (a, b)
/-- `nom::sequence::delimited` -/
def delimited (l : Parser α) (p : Parser β) (r : Parser γ) : Parser β := do
  let _ ← l; let v ← p; let _ ← r; pure v

/-- `nom::multi::many0` (multi/mod.rs:53): stop at the first recoverable error; an iteration that
consumes nothing is `Error(Many0)`. -/
def many0Fuel (p : Parser α) : Nat → Parser (List α)
  | 0 => fun _ => .crash loopFuel
  | k + 1 => fun i =>
    match p i with
    | .err => .ok [] i
    | .fail => .fail
    | .crash w => .crash w
    | .ok v r =>
      if r.length == i.length then .err
      else (many0Fuel p k r).map (v :: ·)

def many0 (p : Parser α) : Parser (List α) := fun i => many0Fuel p (i.length + 1) i

/-- `nom::multi::many1` (multi/mod.rs:108): the first element is mandatory (and not subject to the
consumption guard), the rest as `many0` with `Error(Many1)`. -/
def many1 (p : Parser α) : Parser (List α) := fun i =>
  match p i with
  | .err => .err
  | .fail => .fail
  | .crash w => .crash w
  | .ok v r => (many0Fuel p (r.length + 1) r).map (v :: ·)

/-- the loop of `separated_list0/1` (multi/mod.rs:250, 324) after the first element: separator, then
element; a recoverable error of either ends the list *before the separator*; a separator that
consumes nothing is `Error(SeparatedList)`. -/
def sepLoopFuel (sep : Parser β) (p : Parser α) : Nat → Parser (List α)
  | 0 => fun _ => .crash loopFuel
  | k + 1 => fun i =>
    match sep i with
    | .err => .ok [] i
    | .fail => .fail
    | .crash w => .crash w
    | .ok _ i1 =>
      if i1.length == i.length then .err
      else
        match p i1 with
        | .err => .ok [] i
        | .fail => .fail
        | .crash w => .crash w
        | .ok v i2 => (sepLoopFuel sep p k i2).map (v :: ·)

/-- `nom::multi::separated_list0` -/
def separatedList0 (sep : Parser β) (p : Parser α) : Parser (List α) := fun i =>
  match p i with
  | .err => .ok [] i
  | .fail => .fail
  | .crash w => .crash w
  | .ok v r => (sepLoopFuel sep p (r.length + 1) r).map (v :: ·)

/-- `nom::multi::separated_list1` -/
def separatedList1 (sep : Parser β) (p : Parser α) : Parser (List α) := fun i =>
  match p i with
  | .err => .err
  | .fail => .fail
  | .crash w => .crash w
  | .ok v r => (sepLoopFuel sep p (r.length + 1) r).map (v :: ·)

/-- `nom::combinator::all_consuming`: left-over input is `Error(Eof)`. -/
def allConsuming (p : Parser α) : Parser α := fun i =>
  match p i with
  | .ok v [] => .ok v []
  | .ok _ (_ :: _) => .err
  | o => o

end Combinators

/-! ## slice indexing -/

/-- `&input[n..]`: panics when `n > input.len()` -/
def sliceFrom (input : List Token) (n : Nat) : Outcome Unit :=
  if n ≤ input.length then .ok () (input.drop n) else .crash "slice index out of range"

/-- `&input[..n]`: panics when `n > input.len()` -/
def sliceTo (input : List Token) (n : Nat) : Outcome Unit :=
  if n ≤ input.length then .ok () (input.take n) else .crash "slice index out of range"

/-! ## numbers -/

/-- `signed_integer` (common.rs:47-58): `0i64.checked_sub_unsigned(m)` / `i64::try_from(m)`. -/
def signedInteger (negative : Bool) (magnitude : Nat) : Option Int :=
  if negative then
    if magnitude ≤ 9223372036854775808 then some (-(magnitude : Int)) else none
  else
    if magnitude < 9223372036854775808 then some (magnitude : Int) else none

/-- `sign * v` for `sign ∈ {1.0, -1.0}` on the bits of a finite f64 -/
def applySign (negative : Bool) (bits : Nat) : Nat :=
  if negative then QV.DecF64.negBits bits else bits

/-- `n as f64` for a `u64` -/
def u64ToF64 (n : Nat) : Nat := QV.DecF64.ofNat n

/-- bits of `-0.0_f64` -/
def negZeroBits : Nat := 0x8000000000000000

/-- `x == 0f64` on bits: `+0.0` or `-0.0` -/
def fIsZero (b : Nat) : Bool := b == 0 || b == negZeroBits

/-- `0f64 - x` on bits (exact for every non-NaN `x`: `0 - ±0 = +0`, otherwise the sign flip) -/
def fZeroMinus (b : Nat) : Nat := if fIsZero b then 0 else QV.DecF64.negBits b

/-- `x + y` on bits when at least one operand is a zero (the only additions the parser performs:
`parse_call_immediate` adds `first + second` only when `first.im == 0` and `second.re == 0`);
exact for non-NaN operands: `±0 + y = y` for `y ≠ 0`, `-0 + -0 = -0`, every other sum of zeros is `+0`.
(If neither operand is a zero — unreachable from the parser — the first is returned.) -/
def fAddZero (x y : Nat) : Nat :=
  if fIsZero x then
    if fIsZero y then (if x == negZeroBits && y == negZeroBits then negZeroBits else 0) else y
  else x

/-- `Complex64::new(0.0, 0.0) - value` (the `negate` closure of `parse_call_immediate`) -/
def cNegate (z : CBits) : CBits := ⟨fZeroMinus z.re, fZeroMinus z.im⟩

/-- `first + second` under the guard of `parse_call_immediate` -/
def cAddGuarded (a b : CBits) : CBits := ⟨fAddZero a.re b.re, fAddZero a.im b.im⟩

/-- ASCII lower-casing; agrees with `str::to_lowercase` as far as the seven names tested by
`parse_expression_identifier` are concerned (no non-ASCII character lower-cases to a letter of
`cis cos exp i pi sin sqrt`; identifier tokens are ASCII anyway). -/
def lowerAscii (c : Char) : Char := if 'A' ≤ c ∧ c ≤ 'Z' then Char.ofNat (c.toNat + 32) else c

def str (s : List Char) : String := String.ofList s

/-! ## parser/common.rs -/

/-- `match_data_type_token` (common.rs:419) -/
def matchDataTypeToken : DataType → ScalarType
  | .bit => .bit | .integer => .integer | .real => .real | .octet => .octet

/-- `parse_memory_reference` (common.rs:322): the brackets are optional. -/
def parseMemoryReference : Parser MemRef := do
  let name ← tokIdentifier
  let index ← opt (delimited (tok .lBracket) tokInteger (tok .rBracket))
  pure ⟨str name, index.getD 0⟩

/-- `parse_memory_reference_with_brackets` (common.rs:337) -/
def parseMemoryReferenceWithBrackets : Parser MemRef := do
  let name ← tokIdentifier
  let index ← delimited (tok .lBracket) tokInteger (tok .rBracket)
  pure ⟨str name, index⟩

/-- the `opt(token!(Operator(Minus)))` of the three operand parsers -/
def optMinus : Parser Bool := do
  let m ← opt (tok (.operator .minus))
  pure m.isSome

/-- `parse_arithmetic_operand` (common.rs:62): signed float | signed integer (checked) | memory reference -/
def parseArithmeticOperand : Parser ArithmeticOperand :=
  alt (do let neg ← optMinus; let v ← tokFloat; pure (.literalReal (applySign neg v)))
  (alt (mapRes (pair optMinus tokInteger) fun (neg, v) => (signedInteger neg v).map .literalInteger)
    (pmap .memoryReference parseMemoryReference))

/-- `parse_comparison_operand` (common.rs:87) -/
def parseComparisonOperand : Parser ComparisonOperand :=
  alt (do let neg ← optMinus; let v ← tokFloat; pure (.literalReal (applySign neg v)))
  (alt (mapRes (pair optMinus tokInteger) fun (neg, v) => (signedInteger neg v).map .literalInteger)
    (pmap .memoryReference parseMemoryReference))

/-- `parse_binary_logic_operand` (common.rs:111) -/
def parseBinaryLogicOperand : Parser BinaryOperand :=
  alt (mapRes (pair optMinus tokInteger) fun (neg, v) => (signedInteger neg v).map .literalInteger)
    (pmap .memoryReference parseMemoryReference)

/-- `parse_qubit` (common.rs:386): integer, variable or identifier. -/
def parseQubit : Parser Qubit := fun i =>
  match i with
  | [] => .err
  | .integer n :: r => .ok (.fixed n) r
  | .variable s :: r => .ok (.variable (str s)) r
  | .identifier s :: r => .ok (.variable (str s)) r
  | _ :: _ => .err

/-- `parse_variable_qubit` (common.rs:405) -/
def parseVariableQubit : Parser String := fun i =>
  match i with
  | [] => .err
  | .variable s :: r => .ok (str s) r
  | .identifier s :: r => .ok (str s) r
  | _ :: _ => .err

/-- `parse_frame_attribute` (common.rs:124) -/
def parseFrameAttribute (pe : Parser PExpr) : Parser (String × AttributeValue) := do
  tok .newLine
  tok .indentation
  let key ← tokIdentifier
  tok .colon
  let value ← alt (pmap (fun s => AttributeValue.string (str s)) tokString)
    (pmap AttributeValue.expression pe)
  pure (str key, value)

/-- `parse_frame_identifier` (common.rs:142) -/
def parseFrameIdentifier : Parser FrameIdentifier := do
  let qubits ← many1 parseQubit
  let name ← tokString
  pure ⟨str name, qubits⟩

/-- `parse_gate_modifier` (common.rs:152) -/
def parseGateModifier : Parser GateModifier := do
  let m ← tokModifier
  pure (match m with
    | .controlled => .controlled
    | .dagger => .dagger
    | .forked => .forked)

/-- `parse_matrix` (common.rs:168) -/
def parseMatrix (pe : Parser PExpr) : Parser (List (List PExpr)) :=
  preceded (tok .newLine)
    (separatedList1 (tok .newLine)
      (preceded (tok .indentation)
        (separatedList0 (pair (tok .comma) (many0 (tok .indentation))) pe)))

/-- `parse_permutation` (common.rs:188) -/
def parsePermutation : Parser (List Nat) :=
  preceded (tok .newLine) (preceded (tok .indentation) (separatedList1 (tok .comma) tokInteger))

/-- `PauliGate::from_str` (strum, `serialize_all = "UPPERCASE"`) on a one-character string -/
def pauliGateOfChar (c : Char) : Option PauliGate :=
  if c = 'I' then some .i else if c = 'X' then some .x else if c = 'Y' then some .y
  else if c = 'Z' then some .z else none

/-- the loop of `parse_pauli_word`: `words.split("")` yields every character (and two empty strings) -/
def pauliWordOfChars : List Char → Option (List PauliGate)
  | [] => some []
  | c :: cs =>
    match pauliGateOfChar c with
    | none => none
    | some g => (pauliWordOfChars cs).map (g :: ·)

/-- `parse_pauli_word` (common.rs:202) -/
def parsePauliWord : Parser (List PauliGate) := mapRes tokIdentifier pauliWordOfChars

/-- `parse_pauli_term` (common.rs:226) -/
def parsePauliTerm (pe : Parser PExpr) : Parser PauliTerm :=
  mapRes
    (do let word ← parsePauliWord
        let expression ← delimited (tok .lParenthesis) pe (tok .rParenthesis)
        let arguments ← many1 tokIdentifier
        pure (word, expression, arguments))
    fun (word, expression, arguments) =>
      if word.length != arguments.length then none
      else some ⟨word.zip (arguments.map str), expression⟩

/-- `parse_pauli_terms` (common.rs:254) -/
def parsePauliTerms (pe : Parser PExpr) : Parser (List PauliTerm) :=
  preceded (tok .newLine)
    (separatedList1 (tok .newLine) (preceded (tok .indentation) (parsePauliTerm pe)))

/-- the parenthesised, comma-separated expression list shared by gates, sequence elements and DEFCAL -/
def parseParameters (pe : Parser PExpr) : Parser (List PExpr) := do
  let ps ← opt (delimited (tok .lParenthesis) (separatedList0 (tok .comma) pe) (tok .rParenthesis))
  pure (ps.getD [])

/-- `parse_sequence_element` (common.rs:268) -/
def parseSequenceElement (pe : Parser PExpr) : Parser Gate := do
  let modifiers ← many0 parseGateModifier
  let name ← tokIdentifier
  let parameters ← parseParameters pe
  let qubits ← many0 parseQubit
  pure ⟨str name, parameters, qubits, modifiers⟩

/-- `parse_sequence_elements` (common.rs:291) -/
def parseSequenceElements (pe : Parser PExpr) : Parser (List Gate) :=
  preceded (tok .newLine)
    (separatedList1 (tok .newLine) (preceded (tok .indentation) (parseSequenceElement pe)))

/-- `parse_named_argument` (common.rs:347) -/
def parseNamedArgument (pe : Parser PExpr) : Parser (String × PExpr) := do
  let name ← tokIdentifier
  tok .colon
  let value ← pe
  pure (str name, value)

/-- `parse_waveform_name` (common.rs:471): `name` or `name/extension` -/
def parseWaveformName : Parser String := do
  let name ← tokIdentifier
  let ext ← opt (pair (tok (.operator .slash)) tokIdentifier)
  pure (match ext with
    | some (_, e) => str (name ++ '/' :: e)
    | none => str name)

/-- `parse_waveform_invocation` (common.rs:357); note the `cut` around the argument list. -/
def parseWaveformInvocation (pe : Parser PExpr) : Parser WaveformInvocation := do
  let name ← parseWaveformName
  let ps ← opt (delimited (tok .lParenthesis)
    (cut (separatedList0 (tok .comma) (parseNamedArgument pe))) (tok .rParenthesis))
  pure ⟨name, indexMapCollect (ps.getD [])⟩

/-- `parse_sharing` (common.rs:429) -/
def parseSharing : Parser (Option Sharing) := do
  let sharing ← opt (preceded (tok .sharing)
    (pair tokIdentifier
      (opt (preceded (tok .offset)
        (many1 (pmap (fun (o, t) => (⟨o, matchDataTypeToken t⟩ : Offset)) (pair tokInteger tokDataType)))))))
  pure (sharing.map fun (name, offsets) => ⟨str name, offsets.getD []⟩)

/-- `parse_vector` (common.rs:455): the length is optional (default 1). -/
def parseVector : Parser Vector := do
  let t ← tokDataType
  let length ← opt (delimited (tok .lBracket) tokInteger (tok .rBracket))
  pure ⟨matchDataTypeToken t, length.getD 1⟩

/-- `parse_vector_with_brackets` (common.rs:471) -/
def parseVectorWithBrackets : Parser Vector := do
  let t ← tokDataType
  let length ← delimited (tok .lBracket) tokInteger (tok .rBracket)
  pure ⟨matchDataTypeToken t, length⟩

/-- `skip_newlines_and_comments` (common.rs:487) -/
def skipNewlinesAndComments : Parser Unit := do
  let _ ← many0 (alt (preceded (many0 (tok .indentation)) (pmap (fun _ => ()) tokComment))
    (alt (tok .newLine) (tok .semicolon)))
  pure ()

/-- `parse_i` (common.rs:499) -/
def parseI : Parser Unit := fun i =>
  match i with
  | [] => .err
  | .identifier v :: r => if v = ['i'] then .ok () r else .err
  | _ :: _ => .err

/-! ## parser/expression.rs -/

/-- `Precedence` (expression.rs:36) as its rank: Lowest < Sum < Product < Exponentiation < Call -/
abbrev Prec := Nat
def Prec.lowest : Prec := 0
def Prec.sum : Prec := 1
def Prec.product : Prec := 2
def Prec.exponentiation : Prec := 3
def Prec.call : Prec := 4

/-- `impl From<&Operator> for Precedence` (expression.rs:56) -/
def precOfOperator : Operator → Prec
  | .plus | .minus => Prec.sum
  | .star | .slash => Prec.product
  | .caret => Prec.exponentiation

/-- `impl From<&Token> for Precedence` (expression.rs:45) -/
def precOfToken : Token → Prec
  | .operator o => precOfOperator o
  | .lParenthesis => Prec.call
  | _ => Prec.lowest

/-- `get_precedence` (expression.rs:66) -/
def getPrecedence : List Token → Prec
  | [] => Prec.lowest
  | t :: _ => precOfToken t

/-- the recursive knot: `parse` at a smaller depth budget -/
abbrev ExprRec := List Token → Prec → Outcome PExpr

/-- `parse_immediate_value` (expression.rs:121) -/
def parseImmediateValue : Parser CBits := fun i =>
  match i with
  | .integer n :: r =>
    match opt parseI r with
    | .ok none r' => .ok (CBits.real (u64ToF64 n)) r'
    | .ok (some _) r' => .ok (CBits.imag (u64ToF64 n)) r'
    | .err => .err | .fail => .fail | .crash w => .crash w
  | .float b :: r =>
    match opt parseI r with
    | .ok none r' => .ok (CBits.real b) r'
    | .ok (some _) r' => .ok (CBits.imag b) r'
    | .err => .err | .fail => .fail | .crash w => .crash w
  | _ :: _ => .err
  | [] => .err

/-- `parse_function_call` (expression.rs:144) -/
def parseFunctionCall (rec : ExprRec) (f : ExprFn) : Parser PExpr := do
  tok .lParenthesis
  let e ← (fun i => rec i Prec.lowest)
  tok .rParenthesis
  pure (.call f e)

/-- `parse_expression_identifier` (expression.rs:168): bracketed memory reference, else one of the
seven special names (case-insensitively), else a bare memory reference (spelling preserved). -/
def parseExpressionIdentifier (rec : ExprRec) : Parser PExpr := fun input =>
  match opt parseMemoryReferenceWithBrackets input with
  | .ok (some r) rest => .ok (.address r) rest
  | .ok none input =>
    match input with
    | [] => .err
    | .identifier ident :: remainder =>
      let lower := ident.map lowerAscii
      if lower = "cis".toList then parseFunctionCall rec .cis remainder
      else if lower = "cos".toList then parseFunctionCall rec .cos remainder
      else if lower = "exp".toList then parseFunctionCall rec .exp remainder
      else if lower = "i".toList then .ok (.number (CBits.imag oneBits)) remainder
      else if lower = "pi".toList then .ok .pi remainder
      else if lower = "sin".toList then parseFunctionCall rec .sin remainder
      else if lower = "sqrt".toList then parseFunctionCall rec .sqrt remainder
      else .ok (.address ⟨str ident, 0⟩) remainder
    | _ :: _ => .err
  | .err => .err | .fail => .fail | .crash w => .crash w

/-- `parse_grouped_expression` (expression.rs:202), called after the opening parenthesis -/
def parseGroupedExpression (rec : ExprRec) : Parser PExpr := fun input =>
  match rec input Prec.lowest with
  | .ok e rest =>
    match rest with
    | [] => .err
    | .rParenthesis :: remainder => .ok e remainder
    | _ :: _ => .err
  | .err => .err | .fail => .fail | .crash w => .crash w

/-- the operator conversion in `parse_infix` -/
def infixOfOperator : Operator → InfixOp
  | .plus => .plus | .minus => .minus | .caret => .caret | .slash => .slash | .star => .star

/-- `parse_infix` (expression.rs:216) -/
def parseInfix (rec : ExprRec) (input : List Token) (left : PExpr) : Outcome PExpr :=
  match input with
  | [] => .err
  | .operator o :: remainder =>
    match rec remainder (precOfOperator o) with
    | .ok right rest => .ok (.bin left (infixOfOperator o) right) rest
    | .err => .err | .fail => .fail | .crash w => .crash w
  | _ :: _ => .err

/-- `parse_prefix` (expression.rs:243): only a minus sign. -/
def parsePrefix : Parser PrefixOp := fun i =>
  match i with
  | [] => .err
  | .operator .minus :: r => .ok .minus r
  | _ :: _ => .err

/-- the `while get_precedence(input) > precedence` loop of `parse` (expression.rs:104-114) -/
def parseLoop (rec : ExprRec) (prec : Prec) : Nat → List Token → PExpr → Outcome PExpr
  | 0, _, _ => .crash loopFuel
  | k + 1, input, left =>
    if getPrecedence input > prec then
      match input with
      | [] => .ok left input
      | .operator _ :: _ =>
        match parseInfix rec input left with
        | .ok e rest => parseLoop rec prec k rest e
        | .err => .err | .fail => .fail | .crash w => .crash w
      | _ :: _ => .ok left input
    else .ok left input

/-- the first operand of `parse` (expression.rs:82-95): the immediate value if there was one, else a
variable, an identifier-led expression or a parenthesised expression -/
def parseOperand (rec : ExprRec) (imm : Option CBits) : Parser PExpr := fun input =>
  match imm with
  | some n => .ok (.number n) input
  | none =>
    match input with
    | [] => .err
    | .variable name :: remainder => .ok (.var (str name)) remainder
    | .identifier _ :: _ => parseExpressionIdentifier rec input
    | .lParenthesis :: remainder => parseGroupedExpression rec remainder
    | _ :: _ => .err

/-- the body of `parse` (expression.rs:78-117) with the recursive calls abstracted -/
def parseBody (rec : ExprRec) (input : List Token) (prec : Prec) : Outcome PExpr :=
  match opt parsePrefix input with
  | .ok pfx input =>
    match opt parseImmediateValue input with
    | .ok imm input =>
      match parseOperand rec imm input with
      | .ok left input =>
        let left := match pfx with
          | some op => .pre op left
          | none => left
        parseLoop rec prec (input.length + 1) input left
      | .err => .err | .fail => .fail | .crash w => .crash w
    | .err => .err | .fail => .fail | .crash w => .crash w
  | .err => .err | .fail => .fail | .crash w => .crash w

/-- `parse` (expression.rs:78) at depth budget `d` -/
def parse : Nat → ExprRec
  | 0 => fun _ _ => .crash depthExceeded
  | d + 1 => parseBody (parse d)

/-- `parse_expression` (expression.rs:73) at depth budget `d` -/
def parseExpressionAt (d : Nat) : Parser PExpr := fun i => parse d i Prec.lowest

/-! ## parser/gate.rs -/

/-- `parse_gate` (gate.rs:29) -/
def parseGate (pe : Parser PExpr) : Parser Instruction := do
  let modifiers ← many0 parseGateModifier
  let name ← tokIdentifier
  let parameters ← parseParameters pe
  let qubits ← many0 parseQubit
  pure (.gate ⟨str name, parameters, qubits, modifiers⟩)

/-! ## parser/pragma_extern.rs -/

/-- `parse_variable_length_vector` (pragma_extern.rs:79) -/
def parseVariableLengthVector : Parser ScalarType := do
  let t ← tokDataType
  tok .lBracket
  tok .rBracket
  pure (matchDataTypeToken t)

/-- `parse_extern_parameter` (pragma_extern.rs:51) -/
def parseExternParameter : Parser ExternParameter := do
  let name ← tokIdentifier
  tok .colon
  let mutable ← opt (tok .mutable)
  let dataType ← alt (pmap ExternParameterType.fixedLengthVector parseVectorWithBrackets)
    (alt (pmap ExternParameterType.variableLengthVector parseVariableLengthVector)
      (pmap (fun t => ExternParameterType.scalar (matchDataTypeToken t)) tokDataType))
  pure ⟨str name, mutable.isSome, dataType⟩

/-- `parse_extern_signature` (pragma_extern.rs:29) -/
def parseExternSignature : Parser ExternSignature := do
  let returnType ← opt tokDataType
  let lparen ← opt (tok .lParenthesis)
  let parameters ← (if lparen.isSome then do
      let ps ← opt (separatedList0 (tok .comma) parseExternParameter)
      tok .rParenthesis
      pure (ps.getD [])
    else pure [])
  pure ⟨returnType.map matchDataTypeToken, parameters⟩

/-! ## parser/command.rs -/

/-- `parse_arithmetic` (command.rs:38) -/
def parseArithmetic (op : ArithmeticOperator) : Parser Instruction := do
  let destination ← parseMemoryReference
  let source ← parseArithmeticOperand
  pure (.arithmetic ⟨op, destination, source⟩)

/-- `parse_comparison` (command.rs:57) -/
def parseComparison (op : ComparisonOperator) : Parser Instruction := do
  let destination ← parseMemoryReference
  let lhs ← parseMemoryReference
  let rhs ← parseComparisonOperand
  pure (.comparison ⟨op, destination, lhs, rhs⟩)

/-- `parse_logical_binary` (command.rs:78) -/
def parseLogicalBinary (op : BinaryOperator) : Parser Instruction := do
  let destination ← parseMemoryReference
  let source ← parseBinaryLogicOperand
  pure (.binaryLogic ⟨op, destination, source⟩)

/-- `parse_logical_unary` (command.rs:97) -/
def parseLogicalUnary (op : UnaryOperator) : Parser Instruction := do
  let operand ← parseMemoryReference
  pure (.unaryLogic ⟨op, operand⟩)

/-- `parse_declare` (command.rs:110) -/
def parseDeclare : Parser Instruction := do
  let name ← tokIdentifier
  let size ← parseVector
  let sharing ← parseSharing
  pure (.declaration ⟨str name, size, sharing⟩)

/-- `parse_call_immediate` (command.rs:159): `[-] value [(+|-) value]`; the second value is taken only
when the first is real, the second purely imaginary and non-zero — otherwise the tokens after the first
value are given back (the `_` arm returns the input from BEFORE `opt(imaginary_part)`). -/
def parseCallImmediate : Parser CBits := do
  let minus ← opt (tok (.operator .minus))
  let first ← parseImmediateValue
  let first := if minus.isSome then cNegate first else first
  fun input =>
    match opt (alt (preceded (tok (.operator .plus)) parseImmediateValue)
        (pmap cNegate (preceded (tok (.operator .minus)) parseImmediateValue))) input with
    | .ok (some second) rest =>
      if fIsZero first.im && fIsZero second.re && !fIsZero second.im then .ok (cAddGuarded first second) rest
      else .ok first input
    | .ok none _ => .ok first input
    | .err => .err | .fail => .fail | .crash w => .crash w

/-- `parse_call_argument` (command.rs:143) -/
def parseCallArgument : Parser UnresolvedCallArgument :=
  alt (pmap .memoryReference parseMemoryReferenceWithBrackets)
    (alt (pmap (fun s => .identifier (str s)) tokIdentifier)
      (pmap .immediate parseCallImmediate))

/-- `parse_call` (command.rs:136) -/
def parseCall : Parser Instruction := do
  let name ← tokIdentifier
  let arguments ← many0 parseCallArgument
  pure (.call ⟨str name, arguments⟩)

/-- `parse_capture` (command.rs:165) -/
def parseCapture (pe : Parser PExpr) (blocking : Bool) : Parser Instruction := do
  let frame ← parseFrameIdentifier
  let waveform ← parseWaveformInvocation pe
  let memoryReference ← parseMemoryReference
  pure (.capture ⟨blocking, frame, memoryReference, waveform⟩)

/-- `parse_convert` (command.rs:185) -/
def parseConvert : Parser Instruction := do
  let to ← parseMemoryReference
  let frm ← parseMemoryReference
  pure (.convert ⟨to, frm⟩)

/-- `parse_block_instruction` (instruction.rs:160) with `parse_instruction` abstracted -/
def parseBlockInstruction (pi : Parser Instruction) : Parser Instruction :=
  preceded (tok .newLine) (preceded (tok .indentation) pi)

/-- `parse_block` (instruction.rs:155) -/
def parseBlock (pi : Parser Instruction) : Parser (List Instruction) := many1 (parseBlockInstruction pi)

/-- `parse_defcal_gate` (command.rs:211) -/
def parseDefcalGate (pe : Parser PExpr) (pi : Parser Instruction) : Parser Instruction := do
  let modifiers ← many0 parseGateModifier
  let name ← tokIdentifier
  let parameters ← parseParameters pe
  let qubits ← many0 parseQubit
  tok .colon
  let instructions ← parseBlock pi
  pure (.calibrationDefinition ⟨modifiers, str name, parameters, qubits⟩ instructions)

/-- `opt(preceded(token!(Bang), token!(Identifier(name))))` of MEASURE and DEFCAL MEASURE -/
def parseMeasureName : Parser (Option String) := do
  let n ← opt (preceded (tok .bang) tokIdentifier)
  pure (n.map str)

/-- `parse_defcal_measure` (command.rs:241) -/
def parseDefcalMeasure (pi : Parser Instruction) : Parser Instruction := do
  let name ← parseMeasureName
  let qubit ← parseQubit
  let target ← opt tokIdentifier
  tok .colon
  let instructions ← parseBlock pi
  pure (.measureCalibrationDefinition ⟨name, qubit, target.map str⟩ instructions)

/-- `parse_defcal` (command.rs:199) -/
def parseDefcal (pe : Parser PExpr) (pi : Parser Instruction) : Parser Instruction := do
  let defcalMeasure ← opt (tok (.command .measure))
  match defcalMeasure with
  | some _ => parseDefcalMeasure pi
  | none => parseDefcalGate pe pi

/-- `parse_defframe` (command.rs:264) -/
def parseDefframe (pe : Parser PExpr) : Parser Instruction := do
  let identifier ← parseFrameIdentifier
  tok .colon
  let pairs ← many1 (parseFrameAttribute pe)
  pure (.frameDefinition ⟨identifier, indexMapCollect pairs⟩)

/-- `opt(delimited(LParenthesis, separated_list0(Comma, Variable), RParenthesis))` of DEFGATE,
DEFWAVEFORM, DEFCIRCUIT -/
def parseVariableList : Parser (Option (List String)) := do
  let ps ← opt (delimited (tok .lParenthesis) (separatedList0 (tok .comma) tokVariable) (tok .rParenthesis))
  pure (ps.map fun l => l.map str)

/-- `PauliSum::new` (gate.rs:920): every argument of every term must be among the declared ones. -/
def pauliSumNew (arguments : List String) (terms : List PauliTerm) : Option PauliSum :=
  if terms.all (fun t => t.arguments.all fun ga => arguments.contains ga.2) then some ⟨arguments, terms⟩
  else none

/-- `validate_defgate_as_sequence_elements` / `DefGateSequence::try_new` (gate_sequence.rs:151, 72) -/
def defGateSequenceTryNew (qubits : List String) (gates : List Gate) : Option DefGateSequence :=
  if qubits.isEmpty then none
  else if gates.all (fun g => g.qubits.all fun q =>
      match q with
      | .variable a => qubits.contains a
      | _ => false) then some ⟨qubits, gates⟩
  else none

/-- the `alt` over `MATRIX | PERMUTATION | PAULI-SUM | SEQUENCE` in `parse_defgate` -/
def parseGateType : Parser GateType :=
  alt (pmap (fun _ => GateType.matrix) (tok .matrix))
    (alt (pmap (fun _ => GateType.permutation) (tok .permutation))
      (alt (pmap (fun _ => GateType.pauliSum) (tok .pauliSum))
        (pmap (fun _ => GateType.sequence) (tok .sequence))))

/-- `parse_defgate` (command.rs:280) -/
def parseDefgate (pe : Parser PExpr) : Parser Instruction := do
  let name ← tokIdentifier
  let parameters ← parseVariableList
  let arguments ← opt (many0 tokIdentifier)
  let gateType ← opt (preceded (tok .as) parseGateType)
  tok .colon
  let arguments := ((arguments.getD []).map str)
  let specification ← (match gateType.getD .matrix with
    | .matrix => pmap GateSpecification.matrix (parseMatrix pe)
    | .permutation => pmap GateSpecification.permutation parsePermutation
    | .pauliSum => mapRes (parsePauliTerms pe) fun terms => (pauliSumNew arguments terms).map .pauliSum
    | .sequence => mapRes (parseSequenceElements pe) fun gates =>
        (defGateSequenceTryNew arguments gates).map .sequence)
  pure (.gateDefinition ⟨str name, parameters.getD [], specification⟩)

/-- `parse_defwaveform` (command.rs:326) -/
def parseDefwaveform (pe : Parser PExpr) : Parser Instruction := do
  let name ← parseWaveformName
  let parameters ← parseVariableList
  tok .colon
  tok .newLine
  tok .indentation
  let matrix ← separatedList1 (tok .comma) pe
  pure (.waveformDefinition ⟨name, ⟨matrix, parameters.getD []⟩⟩)

/-- `parse_defcircuit` (command.rs:350) -/
def parseDefcircuit (pi : Parser Instruction) : Parser Instruction := do
  let name ← tokIdentifier
  let parameters ← parseVariableList
  let qubitVariables ← many0 parseVariableQubit
  tok .colon
  let instructions ← parseBlock pi
  pure (.circuitDefinition (str name) (parameters.getD []) qubitVariables instructions)

/-- `parse_delay_frame_names_and_duration` (command.rs:426) -/
def parseDelayFrameNamesAndDuration (pe : Parser PExpr) : Parser (List String × PExpr) := do
  let frameNames ← many0 tokString
  let duration ← pe
  pure (frameNames.map str, duration)

/-- the `while result.is_err() && qubits.pop().is_some()` loop of `parse_delay`: `k` qubits are left;
give one back and retry; when none is left the FIRST error stands.  `&input[qubits.len()..]` is slice
indexing (`sliceFrom`). -/
def delayBacktrack {α : Type} (p : Parser α) (input : List Token) (first : Outcome (α × Nat)) :
    Nat → Outcome (α × Nat)
  | 0 => first
  | k + 1 =>
    match sliceFrom input k with
    | .crash w => .crash w
    | _ =>
      match p (input.drop k) with
      | .ok v rest => .ok (v, k) rest
      | .crash w => .crash w
      | _ => delayBacktrack p input first k

/-- the first attempt of `parse_delay` with all `k` qubits, then the back-tracking loop -/
def delayAttempts {α : Type} (p : Parser α) (input : List Token) (k : Nat) : Outcome (α × Nat) :=
  match sliceFrom input k with
  | .crash w => .crash w
  | _ =>
    match p (input.drop k) with
    | .ok v rest => .ok (v, k) rest
    | .crash w => .crash w
    | .err => delayBacktrack p input .err k
    | .fail => delayBacktrack p input .fail k

/-- `parse_delay` (command.rs:402): the qubits are read greedily (every qubit is one token), then given
back one at a time until the rest parses as frame names and an expression. -/
def parseDelay (pe : Parser PExpr) : Parser Instruction := fun input =>
  match many0 parseQubit input with
  | .ok qubits _ =>
    match delayAttempts (parseDelayFrameNamesAndDuration pe) input qubits.length with
    | .ok ((frameNames, duration), k') rest => .ok (.delay ⟨duration, frameNames, qubits.take k'⟩) rest
    | .err => .err | .fail => .fail | .crash w => .crash w
  | .err => .err | .fail => .fail | .crash w => .crash w

/-- `parse_exchange` (command.rs:403) -/
def parseExchange : Parser Instruction := do
  let left ← parseMemoryReference
  let right ← parseMemoryReference
  pure (.exchange ⟨left, right⟩)

/-- `parse_fence` (command.rs:411) -/
def parseFence : Parser Instruction := do
  let qubits ← many0 parseQubit
  pure (.fence ⟨qubits⟩)

/-- `parse_jump` (command.rs:418) -/
def parseJump : Parser Instruction := do
  let target ← tokTarget
  pure (.jump ⟨.fixed (str target)⟩)

/-- `parse_jump_when` (command.rs:429) -/
def parseJumpWhen : Parser Instruction := do
  let target ← tokTarget
  let condition ← parseMemoryReference
  pure (.jumpWhen ⟨.fixed (str target), condition⟩)

/-- `parse_jump_unless` (command.rs:442) -/
def parseJumpUnless : Parser Instruction := do
  let target ← tokTarget
  let condition ← parseMemoryReference
  pure (.jumpUnless ⟨.fixed (str target), condition⟩)

/-- `parse_label` (command.rs:457) -/
def parseLabel : Parser Instruction := do
  let name ← tokTarget
  pure (.label ⟨.fixed (str name)⟩)

/-- `parse_move` (command.rs:468) -/
def parseMove : Parser Instruction := do
  let destination ← parseMemoryReference
  let source ← parseArithmeticOperand
  pure (.move ⟨destination, source⟩)

/-- `parse_load` (command.rs:481) -/
def parseLoad : Parser Instruction := do
  let destination ← parseMemoryReference
  let source ← tokIdentifier
  let offset ← parseMemoryReference
  pure (.load ⟨destination, str source, offset⟩)

/-- `parse_store` (command.rs:497) -/
def parseStore : Parser Instruction := do
  let destination ← tokIdentifier
  let offset ← parseMemoryReference
  let source ← parseArithmeticOperand
  pure (.store ⟨str destination, offset, source⟩)

/-- `parse_pragma` (command.rs:513) -/
def parsePragma : Parser Instruction := do
  let pragmaType ← tokIdentifier
  let arguments ← many0 (alt (pmap (fun s => PragmaArgument.identifier (str s)) tokIdentifier)
    (pmap PragmaArgument.integer tokInteger))
  let data ← opt tokString
  pure (.pragma ⟨str pragmaType, arguments, data.map str⟩)

/-- `parse_pulse` (command.rs:531) -/
def parsePulse (pe : Parser PExpr) (blocking : Bool) : Parser Instruction := do
  let frame ← parseFrameIdentifier
  let waveform ← parseWaveformInvocation pe
  pure (.pulse ⟨blocking, frame, waveform⟩)

/-- `parse_raw_capture` (command.rs:546) -/
def parseRawCapture (pe : Parser PExpr) (blocking : Bool) : Parser Instruction := do
  let frame ← parseFrameIdentifier
  let duration ← pe
  let memoryReference ← parseMemoryReference
  pure (.rawCapture ⟨blocking, frame, duration, memoryReference⟩)

/-- `parse_reset` (command.rs:566) -/
def parseReset : Parser Instruction := do
  let qubit ← opt parseQubit
  pure (.reset ⟨qubit⟩)

/-- `parse_set_frequency` (command.rs:573) -/
def parseSetFrequency (pe : Parser PExpr) : Parser Instruction := do
  let frame ← parseFrameIdentifier
  let frequency ← pe
  pure (.setFrequency ⟨frame, frequency⟩)

/-- `parse_set_phase` (command.rs:584) -/
def parseSetPhase (pe : Parser PExpr) : Parser Instruction := do
  let frame ← parseFrameIdentifier
  let phase ← pe
  pure (.setPhase ⟨frame, phase⟩)

/-- `parse_set_scale` (command.rs:592) -/
def parseSetScale (pe : Parser PExpr) : Parser Instruction := do
  let frame ← parseFrameIdentifier
  let scale ← pe
  pure (.setScale ⟨frame, scale⟩)

/-- `parse_shift_frequency` (command.rs:600) -/
def parseShiftFrequency (pe : Parser PExpr) : Parser Instruction := do
  let frame ← parseFrameIdentifier
  let frequency ← pe
  pure (.shiftFrequency ⟨frame, frequency⟩)

/-- `parse_shift_phase` (command.rs:611) -/
def parseShiftPhase (pe : Parser PExpr) : Parser Instruction := do
  let frame ← parseFrameIdentifier
  let phase ← pe
  pure (.shiftPhase ⟨frame, phase⟩)

/-- `parse_swap_phases` (command.rs:619) -/
def parseSwapPhases : Parser Instruction := do
  let frame1 ← parseFrameIdentifier
  let frame2 ← parseFrameIdentifier
  pure (.swapPhases ⟨frame1, frame2⟩)

/-- `parse_measurement` (command.rs:630): the target is whatever `parse_memory_reference` accepts; ANY
error of it (`Err(_)`) means "no target". -/
def parseMeasurement : Parser Instruction := do
  let name ← parseMeasureName
  let qubit ← parseQubit
  let target ← (fun input =>
    match parseMemoryReference input with
    | .ok t rest => .ok (some t) rest
    | .crash w => .crash w
    | _ => .ok none input)
  pure (.measurement ⟨name, qubit, target⟩)

/-- `parse_include` (command.rs:649) -/
def parseInclude : Parser Instruction := do
  let filename ← tokString
  pure (.include ⟨str filename⟩)

/-! ## parser/instruction.rs -/

/-- the command dispatch of `parse_instruction` (instruction.rs:46-104) -/
def parseCommand (pe : Parser PExpr) (pi : Parser Instruction) : Command → Parser Instruction
  | .add => parseArithmetic .add
  | .and => parseLogicalBinary .and
  | .ashr => parseLogicalBinary .ashr
  | .call => parseCall
  | .capture => parseCapture pe true
  | .convert => parseConvert
  | .declare => parseDeclare
  | .defCal => parseDefcal pe pi
  | .defCircuit => parseDefcircuit pi
  | .defFrame => parseDefframe pe
  | .defGate => parseDefgate pe
  | .defWaveform => parseDefwaveform pe
  | .delay => parseDelay pe
  | .div => parseArithmetic .divide
  | .eq => parseComparison .equal
  | .ge => parseComparison .greaterThanOrEqual
  | .gt => parseComparison .greaterThan
  | .le => parseComparison .lessThanOrEqual
  | .lt => parseComparison .lessThan
  | .fence => parseFence
  | .halt => pure .halt
  | .include => parseInclude
  | .ior => parseLogicalBinary .ior
  | .jump => parseJump
  | .jumpUnless => parseJumpUnless
  | .jumpWhen => parseJumpWhen
  | .label => parseLabel
  | .load => parseLoad
  | .measure => parseMeasurement
  | .move => parseMove
  | .exchange => parseExchange
  | .mul => parseArithmetic .multiply
  | .neg => parseLogicalUnary .neg
  | .nop => pure .nop
  | .not => parseLogicalUnary .not
  | .pragma => parsePragma
  | .pulse => parsePulse pe true
  | .rawCapture => parseRawCapture pe true
  | .reset => parseReset
  | .setFrequency => parseSetFrequency pe
  | .setPhase => parseSetPhase pe
  | .setScale => parseSetScale pe
  | .shiftFrequency => parseShiftFrequency pe
  | .shiftPhase => parseShiftPhase pe
  | .shl => parseLogicalBinary .shl
  | .shr => parseLogicalBinary .shr
  | .swapPhases => parseSwapPhases
  | .store => parseStore
  | .sub => parseArithmetic .subtract
  | .wait => pure .wait
  | .xor => parseLogicalBinary .xor

/-- the body of `parse_instruction` (instruction.rs:39-128) with the recursive calls abstracted:
* a command's parser error of EITHER kind is re-wrapped as a `Failure` (`map_err`, which builds the
  error from `&input[..1]`);
* `NONBLOCKING` must be followed by `PULSE`, `CAPTURE` or `RAW-CAPTURE`, whose errors are NOT re-wrapped;
* an identifier or a modifier starts a gate application, parsed from the SAME input;
* anything else is a `Failure` (`NotACommandOrGate`, built from `&input[..1]`);
* end of input is a recoverable `Error` (`EndOfInput`) — what lets `many0(parse_instruction)` stop. -/
def parseInstructionBody (pe : Parser PExpr) (pi : Parser Instruction) : Parser Instruction := fun input0 =>
  match skipNewlinesAndComments input0 with
  | .ok () input =>
    match input with
    | [] => .err
    | .command c :: remainder =>
      match parseCommand pe pi c remainder with
      | .ok v r => .ok v r
      | .crash w => .crash w
      | _ =>
        match sliceTo input 1 with
        | .crash w => .crash w
        | _ => .fail
    | .nonBlocking :: remainder =>
      match remainder with
      | .command .pulse :: remainder => parsePulse pe false remainder
      | .command .capture :: remainder => parseCapture pe false remainder
      | .command .rawCapture :: remainder => parseRawCapture pe false remainder
      | .command _ :: _ =>
        match sliceFrom input 1 with
        | .crash w => .crash w
        | _ => .fail
      | _ :: _ => .fail
      | [] => .fail
    | .identifier _ :: _ => parseGate pe input
    | .modifier _ :: _ => parseGate pe input
    | _ :: _ =>
      match sliceTo input 1 with
      | .crash w => .crash w
      | _ => .fail
  | .err => .err | .fail => .fail | .crash w => .crash w

/-- `parse_instruction` (instruction.rs:39) at depth budget `d`: nested blocks get `d - 1`,
expressions the full `d`. -/
def parseInstructionAt : Nat → Parser Instruction
  | 0 => fun _ => .crash depthExceeded
  | d + 1 => parseInstructionBody (parseExpressionAt (d + 1)) (parseInstructionAt d)

/-- `parse_instructions` (instruction.rs:146) at depth budget `d` -/
def parseInstructionsAt (d : Nat) : Parser (List Instruction) :=
  allConsuming (delimited skipNewlinesAndComments (many0 (parseInstructionAt d)) skipNewlinesAndComments)

/-! ## entry points (what the `FromStr` impls run after lexing) -/

/-- the depth budget the entry points use: more than the number of tokens, hence never exhausted -/
def budget (ts : List Token) : Nat := ts.length + 1

/-- `parse_expression` with the sufficient budget -/
def parseExpression : Parser PExpr := fun i => parseExpressionAt (budget i) i

/-- `parse_instruction` with the sufficient budget -/
def parseInstruction : Parser Instruction := fun i => parseInstructionAt (budget i) i

/-- `parse_instructions` with the sufficient budget -/
def parseInstructions : Parser (List Instruction) := fun i => parseInstructionsAt (budget i) i

/-- `disallow_leftover` (program/error/result.rs:25): left-over tokens are an error. -/
def disallowLeftover {α : Type} : Outcome α → Outcome α
  | .ok v [] => .ok v []
  | .ok _ (_ :: _) => .err
  | o => o

/-- `Program::from_str` after lexing (program/mod.rs:1137), up to `Program::add_instructions` (modelled in
`QV.Shared.Program`): the instruction list. -/
def parseProgram (ts : List Token) : Outcome (List Instruction) := disallowLeftover (parseInstructions ts)

/-- the same at an explicit depth budget (for `depth`) -/
def parseProgramAt (d : Nat) (ts : List Token) : Outcome (List Instruction) :=
  disallowLeftover (parseInstructionsAt d ts)

/-- `Instruction::from_str` after lexing (instruction/mod.rs:826): exactly one instruction. -/
def parseInstructionStr (ts : List Token) : Outcome Instruction :=
  match parseInstructions ts with
  | .ok [i] r => .ok i r
  | .ok _ _ => .err
  | .err => .err | .fail => .fail | .crash w => .crash w

/-- `Expression::from_str` after lexing (expression/mod.rs:625) -/
def parseExpressionStr (ts : List Token) : Outcome PExpr := disallowLeftover (parseExpression ts)

/-- `MemoryReference::from_str` after lexing (instruction/declaration.rs:294) -/
def parseMemoryReferenceStr (ts : List Token) : Outcome MemRef := disallowLeftover (parseMemoryReference ts)

/-- `FrameIdentifier::from_str` after lexing (instruction/frame.rs:133) -/
def parseFrameIdentifierStr (ts : List Token) : Outcome FrameIdentifier :=
  disallowLeftover (parseFrameIdentifier ts)

/-- `ExternSignature::from_str` after lexing (instruction/extern_call.rs:232), before the two semantic
checks (non-empty, parameter names are user identifiers) -/
def parseExternSignatureStr (ts : List Token) : Outcome ExternSignature :=
  disallowLeftover (parseExternSignature ts)

/-! ## recursion depth -/

/-- is the outcome the exhaustion of the depth budget? -/
def isDepthCrash {α : Type} : Outcome α → Bool
  | .crash w => w == depthExceeded
  | _ => false

/-- least budget in `[d, d + k]` at which the program parser does not run out of depth (else `d + k`) -/
def depthFrom (ts : List Token) : Nat → Nat → Nat
  | 0, d => d
  | k + 1, d => if isDepthCrash (parseProgramAt d ts) then depthFrom ts k (d + 1) else d

/-- the recursion depth `parse_instructions` reaches on `ts`: the least depth budget that is enough
(parentheses, function calls, operands of infix operators, nested DEFCAL / DEFCIRCUIT blocks). -/
def depth (ts : List Token) : Nat := depthFrom ts (budget ts) 0

end QV.Parse
