import QV.Wire
import QV.C20.Model
/-
QV.Shared.SeqGateWire — wire codecs shared by the C20 and C21 drivers (Rust side: harness/src/seqgate.rs).
Numeric leaves of expressions are kept as their bit patterns (the two `xHHHHHHHHHHHHHHHH` atoms joined),
because the sequence-gate model never computes with numbers: `Expr String`.
-/
namespace QV.SeqGateWire
open QV QV.Sexp QV.C20

abbrev E := Expr String

def decodeAll {α : Type} (f : Sexp → Option α) : List Sexp → Option (List α)
  | [] => some []
  | x :: xs =>
    match f x, decodeAll f xs with
    | some a, some as => some (a :: as)
    | _, _ => none

def decodeFn : String → Option ExprFn
  | "cis" => some .cis | "cos" => some .cos | "exp" => some .exp | "sin" => some .sin | "sqrt" => some .sqrt
  | _ => none
def decodePrefixOp : String → Option PrefixOp
  | "plus" => some .plus | "minus" => some .minus | _ => none
def decodeInfixOp : String → Option InfixOp
  | "caret" => some .caret | "plus" => some .plus | "minus" => some .minus
  | "slash" => some .slash | "star" => some .star | _ => none

def decodeExpr : Sexp → Option E
  | .list [.atom "addr", .str n, .atom i] => i.toNat?.map fun i => .address ⟨n, i⟩
  | .list [.atom "call", .atom f, e] =>
    match decodeFn f, decodeExpr e with
    | some f, some e => some (.call f e)
    | _, _ => none
  | .list [.atom "infix", .atom o, l, r] =>
    match decodeInfixOp o, decodeExpr l, decodeExpr r with
    | some o, some l, some r => some (.bin l o r)
    | _, _, _ => none
  | .list [.atom "num", .atom r, .atom i] => some (.number (r ++ i))
  | .list [.atom "pi"] => some .pi
  | .list [.atom "prefix", .atom o, e] =>
    match decodePrefixOp o, decodeExpr e with
    | some o, some e => some (.pre o e)
    | _, _ => none
  | .list [.atom "var", .str x] => some (.var x)
  | _ => none

def decodeQubit : Sexp → Option Qubit
  | .list [.atom "f", .atom n] => n.toNat?.map .fixed
  | .list [.atom "ph", .atom n] => n.toNat?.map .placeholder
  | .list [.atom "v", .str v] => some (.var v)
  | _ => none

def decodeMod : Sexp → Option Modifier
  | .atom "controlled" => some .controlled
  | .atom "dagger" => some .dagger
  | .atom "forked" => some .forked
  | _ => none

def decodeGate : Sexp → Option (Gate String)
  | .list [.atom "g", .str n, .list ps, .list qs, .list ms] =>
    match decodeAll decodeExpr ps, decodeAll decodeQubit qs, decodeAll decodeMod ms with
    | some ps, some qs, some ms => some { name := n, params := ps, qubits := qs, mods := ms }
    | _, _, _ => none
  | _ => none

def decodeInstr : Sexp → Option (Instr String)
  | .list [.atom "other", .atom k] => k.toNat?.map .other
  | s => (decodeGate s).map .gate

def decodeStr : Sexp → Option String
  | .str s => some s
  | _ => none

def decodeDef : Sexp → Option (Def String)
  | .list [.atom "def", .str n, .list ps, .list [.atom "other"]] =>
    (decodeAll decodeStr ps).map fun ps => { name := n, params := ps, spec := .other }
  | .list [.atom "def", .str n, .list ps, .list [.atom "seq", .list qs, .list gs]] =>
    match decodeAll decodeStr ps, decodeAll decodeStr qs, decodeAll decodeGate gs with
    | some ps, some qs, some gs => some { name := n, params := ps, spec := .seq qs gs }
    | _, _, _ => none
  | _ => none

/-- `(prog (defs …) (body …) (sel …) (extras b))` ↦ program and selected names (`extras`: the real program
also carries declarations, a frame, a waveform, calibrations, a circuit and an EXTERN pragma; they are not
body instructions and the model ignores them) -/
def decodeInput : Sexp → Option (Program String × List String)
  | .list [.atom "prog", .list (.atom "defs" :: ds), .list (.atom "body" :: is), .list (.atom "sel" :: ss),
      .list [.atom "extras", _]] =>
    match decodeAll decodeDef ds, decodeAll decodeInstr is, decodeAll decodeStr ss with
    | some ds, some is, some ss => some ({ defs := ds, body := is }, ss)
    | _, _, _ => none
  | _ => none

def inputHasExtras : Sexp → Bool
  | .list [_, _, _, _, .list [.atom "extras", .atom "true"]] => true
  | _ => false

def decodeErr : Sexp → Option Err
  | .list [.atom "paramCount", .atom e, .atom f] =>
    match e.toNat?, f.toNat? with
    | some e, some f => some (.paramCount e f)
    | _, _ => none
  | .list (.atom "cyclic" :: ns) => (decodeAll decodeStr ns).map .cyclic
  | .list [.atom "qubitCount", .atom e, .atom f] =>
    match e.toNat?, f.toNat? with
    | some e, some f => some (.qubitCount e f)
    | _, _ => none
  | .list [.atom "nonFixed", q] => (decodeQubit q).map .nonFixedQubit
  | .list (.atom "modifiers" :: ms) => (decodeAll decodeMod ms).map .modifiers
  | .list [.atom "invalidElem", q] => (decodeQubit q).map .invalidElemQubit
  | .list [.atom "undefinedElem", .str v] => some (.undefinedElemQubit v)
  | _ => none

def errKind : Err → String
  | .paramCount .. => "paramCount"
  | .cyclic .. => "cyclic"
  | .qubitCount .. => "qubitCount"
  | .nonFixedQubit .. => "nonFixed"
  | .modifiers .. => "modifiers"
  | .invalidElemQubit .. => "invalidElem"
  | .undefinedElemQubit .. => "undefinedElem"

/-- what one entry point returned: `(ok (body …) (kept …) (intact b) …)` or `(err e)`; the remaining
elements of an `ok` (source map, lookups) are returned undecoded -/
inductive PlainOut where
  | ok (body : List (Instr String)) (kept : List String) (intact : Bool)
  | err (e : Err)
  deriving DecidableEq, Repr

def decodePlain : Sexp → Option (PlainOut × List Sexp)
  | .list (.atom "ok" :: .list (.atom "body" :: is) :: .list (.atom "kept" :: ks) :: .list [.atom "intact", .atom b] :: rest) =>
    match decodeAll decodeInstr is, decodeAll decodeStr ks with
    | some is, some ks => some (.ok is ks (b == "true"), rest)
    | _, _ => none
  | .list [.atom "err", e] => (decodeErr e).map fun e => (.err e, [])
  | _ => none

/-- the shared observation `(obs (plain P) (mapped P') (fullsame b) (again b) (errfmt b))` -/
structure Obs where
  plain : PlainOut
  mapped : PlainOut
  /-- `(map …) (ls …) (lt …)` of a successful `mapped`, undecoded -/
  mappedRest : List Sexp
  fullsame : Bool
  again : Bool
  errfmt : Bool

def decodeObs : Sexp → Option Obs
  | .list [.atom "obs", .list [.atom "plain", p], .list [.atom "mapped", m], .list [.atom "fullsame", .atom a],
      .list [.atom "again", .atom b], .list [.atom "errfmt", .atom c]] =>
    match decodePlain p, decodePlain m with
    | some (p, _), some (m, rest) =>
      some { plain := p, mapped := m, mappedRest := rest, fullsame := a == "true", again := b == "true", errfmt := c == "true" }
    | _, _ => none
  | _ => none


end QV.SeqGateWire
