import QV.Wire
import QV.Shared.AstWire
import QV.Shared.Parse
/-
QV.Shared.ParseWire — driver-side helpers around the token-level parser model: the decoder of `Token`s
(inverse of `QV.LexWire.tokenSexp` / `harness/src/lexwire.rs::token_sexp`) and the wire form of parser
outcomes.

  outcome (token level)   (ok VALUE LEFTOVER) | (err) | (fail) | (crash "why")
  outcome (from_str)      (ok VALUE) | (err)                      (+ `(crash ..)`, `(abort ..)`, `(timeout)` from
                                                                   the harness for the implementation)
-/
namespace QV.ParseWire
open QV QV.Tok QV.Parse

private def hexVal (c : Char) : Option Nat :=
  if '0' ≤ c ∧ c ≤ '9' then some (c.toNat - 48)
  else if 'a' ≤ c ∧ c ≤ 'f' then some (c.toNat - 87)
  else if 'A' ≤ c ∧ c ≤ 'F' then some (c.toNat - 55)
  else none

private def decodeHex64 (a : String) : Option Nat :=
  match a.toList with
  | 'x' :: ds =>
    if ds.length != 16 then none
    else ds.foldl (fun acc c => match acc, hexVal c with
        | some v, some d => some (v * 16 + d)
        | _, _ => none) (some 0)
  | _ => none

def decodeOperator : String → Option Operator
  | "^" => some .caret | "-" => some .minus | "+" => some .plus | "/" => some .slash | "*" => some .star
  | _ => none

/-- inverse of `QV.LexWire.tokenSexp` -/
def decodeToken : Sexp → Option Token
  | .atom "As" => some .as | .atom "Bang" => some .bang | .atom "Colon" => some .colon
  | .atom "Comma" => some .comma | .atom "Indentation" => some .indentation
  | .atom "LBracket" => some .lBracket | .atom "LParenthesis" => some .lParenthesis
  | .atom "NonBlocking" => some .nonBlocking | .atom "Matrix" => some .matrix
  | .atom "Mutable" => some .mutable | .atom "NewLine" => some .newLine | .atom "Offset" => some .offset
  | .atom "PauliSum" => some .pauliSum | .atom "Permutation" => some .permutation
  | .atom "RBracket" => some .rBracket | .atom "RParenthesis" => some .rParenthesis
  | .atom "Semicolon" => some .semicolon | .atom "Sequence" => some .sequence
  | .atom "Sharing" => some .sharing
  | .list [.atom "Command", .str c] => (Command.ofString? c.toList).map .command
  | .list [.atom "Comment", .str s] => some (.comment s.toList)
  | .list [.atom "DataType", .str t] => (DataType.ofString? t.toList).map .dataType
  | .list [.atom "Float", .atom b] => (decodeHex64 b).map .float
  | .list [.atom "Identifier", .str s] => some (.identifier s.toList)
  | .list [.atom "Integer", .atom n] => n.toNat?.map .integer
  | .list [.atom "Target", .str s] => some (.target s.toList)
  | .list [.atom "Modifier", .str m] => (Modifier.ofString? m.toList).map .modifier
  | .list [.atom "Operator", .str o] => (decodeOperator o).map .operator
  | .list [.atom "String", .str s] => some (.string s.toList)
  | .list [.atom "Variable", .str s] => some (.variable s.toList)
  | _ => none

def decodeTokens : List Sexp → Option (List Token)
  | [] => some []
  | x :: xs =>
    match decodeToken x, decodeTokens xs with
    | some t, some ts => some (t :: ts)
    | _, _ => none

/-- token-level outcome: `(ok VALUE LEFTOVER) | (err) | (fail) | (crash "why")` -/
def encodeOutcome {α : Type} (enc : α → Sexp) : Outcome α → Sexp
  | .ok v rest => .list [.atom "ok", enc v, .atom (toString rest.length)]
  | .err => .list [.atom "err"]
  | .fail => .list [.atom "fail"]
  | .crash w => .list [.atom "crash", .str w]

/-- `from_str`-level outcome: `(ok VALUE) | (err) | (crash "why")` (both nom error kinds are `Err`) -/
def encodeResult {α : Type} (enc : α → Sexp) : Outcome α → Sexp
  | .ok v _ => .list [.atom "ok", enc v]
  | .err => .list [.atom "err"]
  | .fail => .list [.atom "err"]
  | .crash w => .list [.atom "crash", .str w]

/-- outcome class of an implementation (or model) output: `ok | err | fail | crash | abort | timeout` -/
def outcomeClass : Sexp → String
  | .list (.atom c :: _) => c
  | _ => "garbled"

/-- does an implementation output (possibly a list of per-entry outputs) contain a crash, an abort or a
timeout anywhere at its top two levels? -/
def hasCrash : Sexp → Bool
  | .list (.atom c :: rest) =>
    c == "crash" || c == "abort" || c == "timeout" || c == "garbled" ||
    rest.any fun
      | .list (.atom _ :: .list (.atom c' :: _) :: _) =>
        c' == "crash" || c' == "abort" || c' == "timeout"
      | .list (.atom c' :: _) => c' == "crash" || c' == "abort" || c' == "timeout"
      | _ => false
  | _ => true

end QV.ParseWire
