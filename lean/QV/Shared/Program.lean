/-
Shared executable model of `quil_rs::program::Program` as a container of instructions
(used by C08, C09, C10; import-free so that native drivers link).

What is modelled (quil-rs/src/program/mod.rs unless stated otherwise):

* `struct Program` (174-200): every `IndexMap` (memory_regions, frames [program/frame.rs:33, an
  `IndexMap` since fix 483e58b], waveforms, gate_definitions, circuits, the extern pragma map
  [instruction/extern_call.rs:310, keyed by `Option<String>`]) is an ORDERED association list;
  the two `CalibrationSet`s (program/calibration_set.rs) are ordered lists too; `instructions` is
  the body list; `used_qubits` (a `HashSet<Qubit>`) is the field `used`, a list read as a set.
* `IndexMap::insert` / `CalibrationSet::replace` (calibration_set.rs:99-108) = `upsert`: the first
  element with an equal key is replaced in place, otherwise the new element is appended.
* `IndexMap::extend` / `CalibrationSet::extend` (calibration_set.rs:141-150) = `extendMap`.

Instructions are projected (by the Rust harness, `harness/src/progwire.rs`) to
`kind` (which arm of `add_instruction` takes it), `key` (region name / frame identifier / waveform
name / calibration signature / gate name / circuit name / extern name-or-none, interned with the
real `==`), `pid` (identity of the whole instruction under the real `==`), `text` (its Quil text)
and `qubits` (what `Instruction::get_qubits` returns, instruction/mod.rs:689-725).
-/
namespace QV.Prog

/-- `instruction::Qubit`: placeholders are numbered by the harness (pointer identity). -/
inductive Qubit where
  | fixed (n : Nat)
  | var (s : String)
  | ph (k : Nat)
  deriving DecidableEq, Repr, Inhabited

/-- Which arm of `Program::add_instruction` (233-306) an instruction takes. `body` = pushed onto
`instructions` (all the arms that `push`, including the catch-all). -/
inductive Kind where
  | extern | decl | frame | waveform | cal | mcal | gateDef | circuit | body
  deriving DecidableEq, Repr, Inhabited

/-- position of a kind in `to_instructions` (441-474) -/
def Kind.rank : Kind → Nat
  | .extern => 0 | .decl => 1 | .frame => 2 | .waveform => 3 | .cal => 4 | .mcal => 5
  | .gateDef => 6 | .circuit => 7 | .body => 8

/-- the order in which `to_instructions` lists the containers -/
def Kind.all : List Kind :=
  [.extern, .decl, .frame, .waveform, .cal, .mcal, .gateDef, .circuit, .body]

def Kind.defs : List Kind :=
  [.extern, .decl, .frame, .waveform, .cal, .mcal, .gateDef, .circuit]

structure Instr where
  kind : Kind
  /-- key inside its container (irrelevant for `body`) -/
  key : String
  /-- identity of the instruction under the real `==` -/
  pid : Nat
  /-- Quil text (`to_quil_or_debug`) -/
  text : String
  /-- raw result of `Instruction::get_qubits` as reported by the harness -/
  qubits : List Qubit
  deriving DecidableEq, Repr, Inhabited

/-- `Instruction::get_qubits` (instruction/mod.rs:689-735): gates, measurements, resets, delays,
fences, captures, pulses, raw captures, SET-*/SHIFT-*/SWAP-PHASES (since fix a86534e) — all routed to
`body` — and the two calibration definitions report qubits; every DEFINITION kind other than the
calibrations (DECLARE, DEFFRAME, DEFWAVEFORM, DEFGATE, DEFCIRCUIT, PRAGMA) falls into `_ => vec![]`.
Which body instructions report which qubits is taken from the real `get_qubits` (field `qubits`). -/
def Instr.getQubits (i : Instr) : List Qubit :=
  match i.kind with
  | .body | .cal | .mcal => i.qubits
  | _ => []

/-- the harness' raw qubit list is consistent with the `_ => vec![]` arm -/
def Instr.projOk (i : Instr) : Bool := i.getQubits == i.qubits

def qubitsOf (is : List Instr) : List Qubit := is.flatMap Instr.getQubits

/-! ### vocabulary for specifications about keyed containers -/

def keys (l : List Instr) : List String := l.map (·.key)

/-- first element with the given key -/
def lookup (l : List Instr) (k : String) : Option Instr := l.find? (fun x => x.key = k)

/-- last element with the given key -/
def lookupLast (l : List Instr) (k : String) : Option Instr := l.reverse.find? (fun x => x.key = k)

/-- the distinct elements of a list in the order of their FIRST occurrence -/
def firstOcc : List String → List String
  | [] => []
  | k :: ks => k :: (firstOcc ks).filter (fun x => x ≠ k)

/-- the instructions of one kind, in order -/
def ofKind (k : Kind) (is : List Instr) : List Instr := is.filter (fun x => x.kind = k)

/-- `IndexMap::insert(key, value)` and `CalibrationSet::replace(value)`: replace the first element
with an equal key in place, else append. -/
def upsert : List Instr → Instr → List Instr
  | [], i => [i]
  | x :: xs, i => if x.key = i.key then i :: xs else x :: upsert xs i

/-- `IndexMap::extend(other)` / `CalibrationSet::extend(other)`: insert one by one, in order. -/
def extendMap (l m : List Instr) : List Instr := m.foldl upsert l

structure Program where
  externs : List Instr := []
  decls : List Instr := []
  frames : List Instr := []
  waveforms : List Instr := []
  cals : List Instr := []
  mcals : List Instr := []
  gateDefs : List Instr := []
  circuits : List Instr := []
  body : List Instr := []
  /-- the `used_qubits` cache (a set; duplicates and order are immaterial) -/
  used : List Qubit := []
  deriving DecidableEq, Repr, Inhabited

/-- `Program::new()` / `Program::default()` -/
def empty : Program := {}

def Program.container (p : Program) : Kind → List Instr
  | .extern => p.externs | .decl => p.decls | .frame => p.frames | .waveform => p.waveforms
  | .cal => p.cals | .mcal => p.mcals | .gateDef => p.gateDefs | .circuit => p.circuits
  | .body => p.body

/-- `Program::add_instruction` (233-306): first the cache is EXTENDED by the instruction's qubits
(241-242), then the instruction is routed to its container. -/
def add (p : Program) (i : Instr) : Program :=
  let p := { p with used := p.used ++ i.getQubits }
  match i.kind with
  | .cal => { p with cals := upsert p.cals i }            -- 245-247 insert_calibration
  | .circuit => { p with circuits := upsert p.circuits i } -- 248-250
  | .frame => { p with frames := upsert p.frames i }      -- 251-256
  | .decl => { p with decls := upsert p.decls i }         -- 257-264
  | .gateDef => { p with gateDefs := upsert p.gateDefs i } -- 265-268
  | .mcal => { p with mcals := upsert p.mcals i }         -- 269-272
  | .waveform => { p with waveforms := upsert p.waveforms i } -- 273-275
  | .extern => { p with externs := upsert p.externs i }   -- 298-300
  | .body => { p with body := p.body ++ [i] }             -- every `push` arm

/-- `Program::add_instructions` (501-508) -/
def addMany (p : Program) (is : List Instr) : Program := is.foldl add p

/-- `Program::from_instructions` (796-802), `From<Vec<Instruction>>`, and what `FromStr` does with
the parsed instructions (1146-1150). -/
def fromInstructions (is : List Instr) : Program := addMany empty is

/-- `Program::to_instructions` (441-474) -/
def toInstructions (p : Program) : List Instr :=
  p.externs ++ (p.decls ++ (p.frames ++ (p.waveforms ++ ((p.cals ++ p.mcals) ++
    (p.gateDefs ++ (p.circuits ++ p.body))))))

/-- `Program::into_instructions` (833-861), as the code is now (extern pragmas first, fix fde4928);
`Calibrations::to_instructions` (calibration.rs:108) lists calibrations then measure calibrations. -/
def intoInstructions (p : Program) : List Instr :=
  let out : List Instr := []
  let out := out ++ p.externs
  let out := out ++ p.decls
  let out := out ++ p.frames
  let out := out ++ p.waveforms
  let out := out ++ (p.cals ++ p.mcals)
  let out := out ++ p.gateDefs
  let out := out ++ p.circuits
  out ++ p.body

/-- `Program::len` (1011-1019): memory regions + frames + waveforms + gate definitions + circuits +
body + extern pragmas — the CALIBRATIONS ARE NOT COUNTED (mirrored as it is). -/
def Program.len (p : Program) : Nat :=
  p.decls.length + p.frames.length + p.waveforms.length + p.gateDefs.length + p.circuits.length +
    p.body.length + p.externs.length

/-- `Program::is_empty` (1007-1009) = `len() == 0`: true of a program holding only calibrations -/
def Program.isEmpty (p : Program) : Bool := p.len == 0

/-- `Program::rebuild_used_qubits` (824-830) -/
def rebuildUsed (p : Program) : Program := { p with used := qubitsOf (toInstructions p) }

/-- `Program::clone_without_body_instructions` (213-225): body AND cache are emptied. -/
def cloneWithoutBody (p : Program) : Program := { p with body := [], used := [] }

/-- `AddAssign<Program>` (1173-1185) / `Add` (1164-1171) -/
def concat (p q : Program) : Program :=
  { cals := extendMap p.cals q.cals
    mcals := extendMap p.mcals q.mcals
    decls := extendMap p.decls q.decls
    frames := extendMap p.frames q.frames
    waveforms := extendMap p.waveforms q.waveforms
    gateDefs := extendMap p.gateDefs q.gateDefs
    circuits := extendMap p.circuits q.circuits
    externs := extendMap p.externs q.externs
    body := p.body ++ q.body
    used := p.used ++ q.used }

/-- `Quil::write for Program` (1123-1135): every instruction of the listing, each followed by a newline -/
def print (p : Program) : String := String.join ((toInstructions p).map fun i => i.text ++ "\n")

/-- `expand_calibrations_inner` (540-574), with the per-instruction expansion results flattened into
`out` (the sequence of instructions handed to `add_instruction`; the expansion algorithm itself is
C16-C19's subject): clone without body, REBUILD the cache (546), add everything. -/
def expandCalibrations (p : Program) (out : List Instr) : Program :=
  addMany (rebuildUsed (cloneWithoutBody p)) out

/-- `expand_defgate_sequences` (665-687) / `_with_source_map` (701-732): gate definitions filtered to
`kept` (order preserved, 1109-1120), body replaced by the expander's output via `add_instructions`,
cache rebuilt before (684/729). -/
def expandSequences (p : Program) (kept : List String) (out : List Instr) : Program :=
  addMany (rebuildUsed { p with gateDefs := p.gateDefs.filter (fun g => kept.contains g.key),
                                body := [], used := [] }) out

/-- `Program::simplify` (874-914) given the expansion output and the sets of frame / waveform /
extern keys that were found to be used. Since fix 768d37f the frames are those of the EXPANDED
program (expansion may hoist DEFFRAMEs out of calibration bodies), filtered in place (901-903). -/
def simplify (p : Program) (out : List Instr) (keptF keptW keptE : List String) : Program :=
  let e := expandCalibrations p out
  let e := rebuildUsed { e with cals := [], mcals := [] }   -- 879-881
  { e with frames := e.frames.filter (fun f => keptF.contains f.key)            -- 901-903
           waveforms := e.waveforms.filter (fun w => keptW.contains w.key)     -- 902-904
           externs := e.externs.filter (fun x => keptE.contains x.key) }       -- 905-911

/-- `Program::wrap_in_loop` (361-421): `decl`, `pre = [MOVE, LABEL]`, `post = [SUB, JUMP-WHEN]` are the
five generated instructions (supplied projected). -/
def wrapInLoop (p : Program) (n : Nat) (hd tl : List Instr) : Program :=
  match n with
  | 0 => cloneWithoutBody p
  | 1 => p
  | _ => addMany (cloneWithoutBody p) (hd ++ p.body ++ tl)

/-- `resolve_placeholders_with_custom_resolvers` (926-935): only the body instructions are rewritten
(to `newBody`, supplied), then the cache is rebuilt. -/
def resolvePlaceholders (p : Program) (newBody : List Instr) : Program :=
  rebuildUsed { p with body := newBody }

/-- keep the elements whose mask bit is true (missing bits = drop) -/
def maskFilter : List Instr → List Bool → List Instr
  | x :: xs, b :: bs => if b then x :: maskFilter xs bs else maskFilter xs bs
  | _, _ => []

/-- `Program::filter_instructions` (512-519) with the predicate's verdicts given as a mask -/
def filterInstructions (p : Program) (mask : List Bool) : Program :=
  fromInstructions (maskFilter (toInstructions p) mask)

/-! ### Equality (`#[derive(PartialEq)]` on `Program`, 174) -/

/-- `IndexMap: PartialEq` — same length and every key of the left maps to an equal value on the
right; ORDER-INSENSITIVE. Values are compared through the instruction identity `pid`. -/
def mapEq (a b : List Instr) : Bool :=
  a.length == b.length &&
  a.all fun x => match b.find? (fun y => y.key == x.key) with
    | some y => y.pid == x.pid
    | none => false

/-- `Vec: PartialEq` on the instruction identities (body, calibration sets: order-sensitive) -/
def vecEq (a b : List Instr) : Bool := a.map (·.pid) == b.map (·.pid)

def subset (a b : List Qubit) : Bool := a.all fun q => b.contains q
/-- `HashSet: PartialEq` -/
def setEq (a b : List Qubit) : Bool := subset a b && subset b a

/-- the cache equals, as a set, the qubits of the listing (Bool form of the C10 invariant) -/
def invB (p : Program) : Bool := setEq p.used (qubitsOf (toInstructions p))

def progEq (p q : Program) : Bool :=
  vecEq p.cals q.cals && vecEq p.mcals q.mcals && mapEq p.externs q.externs &&
  mapEq p.frames q.frames && mapEq p.decls q.decls && mapEq p.waveforms q.waveforms &&
  mapEq p.gateDefs q.gateDefs && mapEq p.circuits q.circuits && vecEq p.body q.body &&
  setEq p.used q.used

end QV.Prog
