import QV.Shared.SchedLemmas
/-! Frame-queue part of `ScheduledBasicBlock::build`: structure of one iteration, invariants (C22, C24, C25). -/

namespace QV.Sched

/-! ### Frames: the `used` / `blocked` loops of one iteration -/

theorem recordAll_append (n : Node) : ∀ (a b : List (Nat × Kind)) (m : QMap),
    recordAll m n (a ++ b) =
      ((recordAll (recordAll m n a).1 n b).1, (recordAll m n a).2 ++ (recordAll (recordAll m n a).1 n b).2) := by
  intro a
  induction a with
  | nil => intro b m; simp [recordAll]
  | cons x xs ih =>
    intro b m
    simp only [List.cons_append, recordAll, ih, List.append_assoc]

theorem frameLoop_spec (s : Bool) (n : Node) (k : Kind) : ∀ (fs : List Nat) (st : St),
    (frameLoop s n k fs st).ord = (recordAll st.ord n (fs.map (·, k))).1 ∧
    (frameLoop s n k fs st).timed = (if s then (recordAll st.timed n (fs.map (·, k))).1 else st.timed) ∧
    (∀ e, e ∈ (frameLoop s n k fs st).edges ↔
      e ∈ st.edges ∨ (∃ d ∈ (recordAll st.ord n (fs.map (·, k))).2, e = ⟨d.node, n, .stable⟩) ∨
      (s = true ∧ ∃ d ∈ (recordAll st.timed n (fs.map (·, k))).2, e = ⟨d.node, n, .scheduled⟩)) := by
  intro fs
  induction fs with
  | nil => intro st; cases s <;> simp [frameLoop, recordAll]
  | cons f fs ih =>
    intro st
    cases s with
    | false =>
      simp only [frameLoop, Bool.false_eq_true, if_false, List.map_cons, recordAll]
      obtain ⟨h1, h2, h3⟩ := ih (St.mk (st.edges ++ (st.ord.record f n k).2.map fun d => ⟨d.node, n, .stable⟩)
        st.trailing (st.ord.record f n k).1 st.timed st.mem)
      simp only [Bool.false_eq_true, if_false] at h2 h3
      refine ⟨h1, h2, ?_⟩
      intro e
      rw [h3]
      simp only [List.mem_append, List.mem_map, false_and, or_false]
      constructor
      · rintro ((h | ⟨d, hd, rfl⟩) | ⟨d, hd, rfl⟩)
        · exact .inl h
        · exact .inr ⟨d, .inl hd, rfl⟩
        · exact .inr ⟨d, .inr hd, rfl⟩
      · rintro (h | ⟨d, hd | hd, rfl⟩)
        · exact .inl (.inl h)
        · exact .inl (.inr ⟨d, hd, rfl⟩)
        · exact .inr ⟨d, hd, rfl⟩
    | true =>
      simp only [frameLoop, if_true, List.map_cons, recordAll]
      obtain ⟨h1, h2, h3⟩ := ih (St.mk ((st.edges ++ (st.timed.record f n k).2.map fun d => ⟨d.node, n, .scheduled⟩) ++
          (st.ord.record f n k).2.map fun d => ⟨d.node, n, .stable⟩) st.trailing (st.ord.record f n k).1
          (st.timed.record f n k).1 st.mem)
      simp only [if_true] at h2 h3
      refine ⟨h1, h2, ?_⟩
      intro e
      rw [h3]
      simp only [List.mem_append, List.mem_map, true_and]
      constructor
      · rintro (((h | ⟨d, hd, rfl⟩) | ⟨d, hd, rfl⟩) | ⟨d, hd, rfl⟩ | ⟨d, hd, rfl⟩)
        · exact .inl h
        · exact .inr (.inr ⟨d, .inl hd, rfl⟩)
        · exact .inr (.inl ⟨d, .inl hd, rfl⟩)
        · exact .inr (.inl ⟨d, .inr hd, rfl⟩)
        · exact .inr (.inr ⟨d, .inr hd, rfl⟩)
      · rintro (h | ⟨d, hd | hd, rfl⟩ | ⟨d, hd | hd, rfl⟩)
        · exact .inl (.inl (.inl h))
        · exact .inl (.inr ⟨d, hd, rfl⟩)
        · exact .inr (.inl ⟨d, hd, rfl⟩)
        · exact .inl (.inl (.inr ⟨d, hd, rfl⟩))
        · exact .inr (.inr ⟨d, hd, rfl⟩)

/-- the `StableOrdering` edges one iteration emits on account of frames -/
def ordEdgesOf (n : Node) (ins : Instr) (st : St) : List Edge :=
  (recordAll st.ord n (frameAccesses ins)).2.map fun d => ⟨d.node, n, .stable⟩

/-- the `Scheduled` edges one iteration emits -/
def timedEdgesOf (n : Node) (ins : Instr) (st : St) : List Edge :=
  if ins.scheduled then (recordAll st.timed n (frameAccesses ins)).2.map fun d => ⟨d.node, n, .scheduled⟩ else []

/-- the `StableOrdering` edge from the block start to a leading classical instruction -/
def classicalEdgeOf (n : Node) (ins : Instr) (st : St) : List Edge :=
  if ins.role = .classical ∧ (memStep n ins st).2 = true then [⟨.start, n, .stable⟩] else []

theorem frameLoop_edges (s : Bool) (n : Node) (k : Kind) (fs : List Nat) (st : St) (e : Edge) :
    e ∈ (frameLoop s n k fs st).edges ↔
      e ∈ st.edges ∨ e ∈ (recordAll st.ord n (fs.map (·, k))).2.map (fun d => (⟨d.node, n, .stable⟩ : Edge)) ∨
      (s = true ∧ e ∈ (recordAll st.timed n (fs.map (·, k))).2.map (fun d => (⟨d.node, n, .scheduled⟩ : Edge))) := by
  rw [(frameLoop_spec s n k fs st).2.2 e]
  simp only [List.mem_map]
  constructor
  · rintro (h | ⟨d, hd, rfl⟩ | ⟨hs, d, hd, rfl⟩)
    · exact .inl h
    · exact .inr (.inl ⟨d, hd, rfl⟩)
    · exact .inr (.inr ⟨hs, d, hd, rfl⟩)
  · rintro (h | ⟨d, hd, rfl⟩ | ⟨hs, d, hd, rfl⟩)
    · exact .inl h
    · exact .inr (.inl ⟨d, hd, rfl⟩)
    · exact .inr (.inr ⟨hs, d, hd, rfl⟩)

/-- complete description of a successful iteration: the queue maps and the edge set -/
theorem stepInstr_spec {n : Node} {ins : Instr} {st st' : St} (h : stepInstr n ins st = .ok st') :
    st'.mem = (recordAll st.mem n (memAccesses ins)).1 ∧
    st'.ord = (recordAll st.ord n (frameAccesses ins)).1 ∧
    st'.timed = (if ins.scheduled then (recordAll st.timed n (frameAccesses ins)).1 else st.timed) ∧
    (∀ e, e ∈ st'.edges ↔ e ∈ st.edges ∨ e ∈ memEdgesOf n ins st ∨ e ∈ classicalEdgeOf n ins st ∨
      e ∈ ordEdgesOf n ins st ∨ e ∈ timedEdgesOf n ins st) := by
  unfold stepInstr at h
  obtain ⟨hm, he, ho, ht⟩ := memStep_fst n ins st
  split at h
  · cases h
  · simp only at h
    split at h
    · -- classical
      rename_i hrole
      cases h
      refine ⟨hm, ?_, ?_, ?_⟩
      · simp [frameAccesses, hrole, recordAll, ho]
      · simp [frameAccesses, hrole, recordAll, ht]
      · intro e
        simp only [frameAccesses, hrole, recordAll, ordEdgesOf, timedEdgesOf, classicalEdgeOf, List.map_nil,
          List.not_mem_nil, or_false, ite_self, true_and, List.mem_append, he]
        cases (memStep n ins st).2 <;> simp [or_assoc]
    · rename_i hrole
      split at h
      · -- rf, no frames
        rename_i hfr
        cases h
        refine ⟨hm, ?_, ?_, ?_⟩
        · simp [frameAccesses, hrole, hfr, recordAll, ho]
        · simp [frameAccesses, hrole, hfr, recordAll, ht]
        · intro e
          simp [frameAccesses, hrole, hfr, recordAll, ordEdgesOf, timedEdgesOf, classicalEdgeOf, he]
      · -- rf with frames
        rename_i fr hfr
        cases h
        obtain ⟨a1, a2, -⟩ := frameLoop_spec ins.scheduled n .write fr.1 (memStep n ins st).1
        obtain ⟨b1, b2, -⟩ := frameLoop_spec ins.scheduled n .read fr.2
          (frameLoop ins.scheduled n .write fr.1 (memStep n ins st).1)
        have hfa : frameAccesses ins = fr.1.map (·, Kind.write) ++ fr.2.map (·, Kind.read) := by
          simp [frameAccesses, hrole, hfr]
        refine ⟨?_, ?_, ?_, ?_⟩
        · rw [(frameLoop_mem _ _ _ _ _).1, (frameLoop_mem _ _ _ _ _).1, hm]
        · rw [b1, a1, ho, hfa, recordAll_append]
        · rw [b2, a2, ht, hfa, recordAll_append]
          cases ins.scheduled <;> simp
        · intro e
          rw [frameLoop_edges, frameLoop_edges, a1, a2, he, ho, ht]
          simp only [ordEdgesOf, timedEdgesOf, classicalEdgeOf, hfa, recordAll_append, hrole, List.mem_append,
            List.map_append]
          cases hs : ins.scheduled <;> simp <;> grind
    · -- control flow
      rename_i hrole
      split at h
      · cases h
        refine ⟨hm, ?_, ?_, ?_⟩
        · simp [frameAccesses, hrole, recordAll, ho]
        · simp [frameAccesses, hrole, recordAll, ht]
        · intro e
          simp [frameAccesses, hrole, recordAll, ordEdgesOf, timedEdgesOf, classicalEdgeOf, he]
      · cases h
    · cases h

/-! ### Fine-grained justification of the dependencies reported within one instruction -/

/-- every dependency reported while recording `accs` for node `n` is reported at some access `a` of `accs`
and is a conflicting access to the same resource logged before it (in `log` or earlier in `accs`), or
the initial writer -/
theorem recordAll_deps_fine {init : Queue} (n : Node) :
    ∀ (accs : List (Nat × Kind)) (m : QMap) (log : List Access),
      QInv init m (fun _ _ => True) log →
      ∀ d ∈ (recordAll m n accs).2, ∃ pre a post, accs = pre ++ a :: post ∧ Conflict d.kind a.2 ∧
        ((⟨d.node, a.1, d.kind⟩ : Access) ∈ log ++ pre.map (fun a => ⟨n, a.1, a.2⟩) ∨ init.write = some d) := by
  intro accs
  induction accs with
  | nil => intro m log _ d hd; simp [recordAll] at hd
  | cons a rest ih =>
    intro m log hq d hd
    simp only [recordAll] at hd
    rcases List.mem_append.1 hd with hd | hd
    · have := hq.deps_justified a.1 n a.2 d hd
      exact ⟨[], a, rest, rfl, this.1, by simpa using this.2⟩
    · have hstep : QInv init (m.record a.1 n a.2).1 (fun _ _ => True) (log ++ [⟨n, a.1, a.2⟩]) :=
        hq.step (R' := fun _ _ => True) a.1 n a.2 (fun _ => trivial) (fun _ _ _ _ _ => trivial)
          (fun _ _ _ => trivial) (fun _ _ => trivial)
      obtain ⟨pre, a', post, heq, hc, hj⟩ := ih (m.record a.1 n a.2).1 _ hstep d hd
      refine ⟨a :: pre, a', post, by rw [heq]; rfl, hc, hj.imp (fun h => ?_) id⟩
      simpa [List.append_assoc] using h

/-- with pairwise distinct resources, a node never depends on itself -/
theorem recordAll_deps_ne {init : Queue} (n : Node) (accs : List (Nat × Kind)) (m : QMap) (log : List Access)
    (hq : QInv init m (fun _ _ => True) log) (hnd : (accs.map (·.1)).Nodup)
    (hlog : ∀ a ∈ log, a.node ≠ n) (hinit : ∀ w, init.write = some w → w.node ≠ n) :
    ∀ d ∈ (recordAll m n accs).2, d.node ≠ n ∧ ∃ a ∈ accs, Conflict d.kind a.2 ∧
      ((⟨d.node, a.1, d.kind⟩ : Access) ∈ log ∨ init.write = some d) := by
  intro d hd
  obtain ⟨pre, a, post, heq, hc, hj⟩ := recordAll_deps_fine n accs m log hq d hd
  have ha : a ∈ accs := by rw [heq]; simp
  rcases hj with hj | hj
  · rcases List.mem_append.1 hj with hj | hj
    · exact ⟨hlog _ hj, a, ha, hc, .inl hj⟩
    · exfalso
      simp only [List.mem_map] at hj
      obtain ⟨a', ha', heq'⟩ := hj
      have h1 : a'.1 = a.1 := by injection heq'
      rw [heq, List.map_append, List.map_cons, List.nodup_append] at hnd
      exact hnd.2.2 a'.1 (List.mem_map.2 ⟨a', ha', rfl⟩) a.1 (by simp) h1
  · exact ⟨hinit d hj, a, ha, hc, .inr hj⟩

/-! ### Logs of frame accesses and the frame-edge invariants -/

def ordLog (P : List (Node × Instr)) : List Access :=
  P.flatMap fun p => (frameAccesses p.2).map fun a => ⟨p.1, a.1, a.2⟩

def timedLog (P : List (Node × Instr)) : List Access :=
  P.flatMap fun p => if p.2.scheduled then (frameAccesses p.2).map fun a => ⟨p.1, a.1, a.2⟩ else []

/-- an edge justified by a frame: its source used/blocked a frame (or is the block start, the implicit
initial user), its target used/blocked the same frame, and one of the two is a use -/
def FrameJustLog (log : List Access) (e : Edge) : Prop :=
  ∃ f k1 k2, ((⟨e.src, f, k1⟩ : Access) ∈ log ∨ (e.src = .start ∧ k1 = .write)) ∧
    (⟨e.dst, f, k2⟩ : Access) ∈ log ∧ Conflict k1 k2

theorem FrameJustLog.mono {log log' : List Access} {e : Edge} (h : FrameJustLog log e)
    (hs : ∀ a ∈ log, a ∈ log') : FrameJustLog log' e := by
  obtain ⟨f, k1, k2, h1, h2, h3⟩ := h
  exact ⟨f, k1, k2, h1.imp (hs _) id, hs _ h2, h3⟩

def StableJustified (μ : Node → Nat) (E : List Edge) (log : List Access) (cl : List Node) : Prop :=
  ∀ e ∈ E, e.label = .stable → μ e.src < μ e.dst ∧ ((e.src = .start ∧ e.dst ∈ cl) ∨ FrameJustLog log e)

def SchedJustified (μ : Node → Nat) (E : List Edge) (log : List Access) : Prop :=
  ∀ e ∈ E, e.label = .scheduled → μ e.src < μ e.dst ∧ FrameJustLog log e

/-- the frames an instruction touches are pairwise distinct (`used`, `blocked` are disjoint sets) -/
def FramesNodup (ins : Instr) : Prop := ((frameAccesses ins).map (·.1)).Nodup

theorem frame_deps_edge {μ : Node → Nat} {n : Node} {ins : Instr} {m : QMap} {log : List Access}
    (hq : QInv Queue.frameInit m (fun _ _ => True) log) (hnd : FramesNodup ins)
    (hμ : ∀ a ∈ log, μ a.node < μ n) (h0 : μ .start < μ n)
    (d : Dep) (hd : d ∈ (recordAll m n (frameAccesses ins)).2) (l : Label) :
    μ d.node < μ n ∧
    FrameJustLog (log ++ (frameAccesses ins).map fun a => ⟨n, a.1, a.2⟩) ⟨d.node, n, l⟩ := by
  obtain ⟨hne, a, ha, hc, hj⟩ := recordAll_deps_ne (init := Queue.frameInit) n (frameAccesses ins) m log hq hnd
    (fun a ha h => by have := hμ a ha; rw [h] at this; exact Nat.lt_irrefl _ this)
    (fun w hw h => by
      simp only [Queue.frameInit, Option.some.injEq] at hw
      subst hw
      simp only at h
      rw [h] at h0; exact Nat.lt_irrefl _ h0) d hd
  have hdst : (⟨n, a.1, a.2⟩ : Access) ∈ log ++ (frameAccesses ins).map fun a => ⟨n, a.1, a.2⟩ :=
    List.mem_append_right _ (List.mem_map.2 ⟨a, ha, rfl⟩)
  rcases hj with hj | hj
  · exact ⟨hμ _ hj, a.1, d.kind, a.2, .inl (List.mem_append_left _ hj), hdst, hc⟩
  · simp only [Queue.frameInit, Option.some.injEq] at hj
    subst hj
    exact ⟨h0, a.1, .write, a.2, .inr ⟨rfl, rfl⟩, hdst, hc⟩

theorem stepInstr_ordInv {μ : Node → Nat} {n : Node} {ins : Instr} {st st' : St} {log : List Access}
    {cl : List Node}
    (h : stepInstr n ins st = .ok st')
    (hq : QInv Queue.frameInit st.ord (Reach st.edges isStable) log)
    (hj : StableJustified μ st.edges log cl)
    (hnd : FramesNodup ins) (hμ : ∀ a ∈ log, μ a.node < μ n) (h0 : μ .start < μ n) :
    QInv Queue.frameInit st'.ord (Reach st'.edges isStable)
      (log ++ (frameAccesses ins).map fun a => ⟨n, a.1, a.2⟩) ∧
    StableJustified μ st'.edges (log ++ (frameAccesses ins).map fun a => ⟨n, a.1, a.2⟩)
      (cl ++ if ins.role = .classical then [n] else []) := by
  obtain ⟨-, ho, -, hedges⟩ := stepInstr_spec h
  constructor
  · rw [ho]
    apply recordAll_inv
    · exact hq.mono fun u v huv => huv.mono fun e he => (hedges e).2 (.inl he)
    · intro d hd
      apply Reach.edge (l := .stable) _ rfl
      exact (hedges _).2 (.inr (.inr (.inr (.inl (List.mem_map.2 ⟨d, hd, rfl⟩)))))
  · intro e he hl
    rcases (hedges e).1 he with hin | hin | hin | hin | hin
    · obtain ⟨h1, h2⟩ := hj e hin hl
      refine ⟨h1, h2.imp (fun ⟨a, b⟩ => ⟨a, List.mem_append_left _ b⟩) fun h => h.mono fun a ha => List.mem_append_left _ ha⟩
    · simp only [memEdgesOf, List.mem_map] at hin
      obtain ⟨d, _, rfl⟩ := hin
      cases hl
    · simp only [classicalEdgeOf] at hin
      split at hin
      · rename_i hc
        simp only [List.mem_singleton] at hin
        subst hin
        exact ⟨h0, .inl ⟨rfl, by simp [hc.1]⟩⟩
      · simp at hin
    · simp only [ordEdgesOf, List.mem_map] at hin
      obtain ⟨d, hd, rfl⟩ := hin
      have := frame_deps_edge (μ := μ) (hq.mono fun _ _ _ => trivial) hnd hμ h0 d hd .stable
      exact ⟨this.1, .inr this.2⟩
    · simp only [timedEdgesOf] at hin
      split at hin
      · simp only [List.mem_map] at hin
        obtain ⟨d, _, rfl⟩ := hin
        cases hl
      · simp at hin

theorem stepInstr_timedInv {μ : Node → Nat} {n : Node} {ins : Instr} {st st' : St} {log : List Access}
    (h : stepInstr n ins st = .ok st')
    (hq : QInv Queue.frameInit st.timed (Reach st.edges isScheduled) log)
    (hj : SchedJustified μ st.edges log)
    (hnd : FramesNodup ins) (hμ : ∀ a ∈ log, μ a.node < μ n) (h0 : μ .start < μ n) :
    QInv Queue.frameInit st'.timed (Reach st'.edges isScheduled)
      (log ++ if ins.scheduled then (frameAccesses ins).map fun a => ⟨n, a.1, a.2⟩ else []) ∧
    SchedJustified μ st'.edges (log ++ if ins.scheduled then (frameAccesses ins).map fun a => ⟨n, a.1, a.2⟩ else []) := by
  obtain ⟨-, -, ht, hedges⟩ := stepInstr_spec h
  have hmono : QInv Queue.frameInit st.timed (Reach st'.edges isScheduled) log :=
    hq.mono fun u v huv => huv.mono fun e he => (hedges e).2 (.inl he)
  constructor
  · rw [ht]
    cases hs : ins.scheduled
    · simpa using hmono
    · simp only [if_true]
      apply recordAll_inv _ _ _ _ hmono
      intro d hd
      apply Reach.edge (l := .scheduled) _ rfl
      refine (hedges _).2 (.inr (.inr (.inr (.inr ?_))))
      simp only [timedEdgesOf, hs, if_true]
      exact List.mem_map.2 ⟨d, hd, rfl⟩
  · intro e he hl
    rcases (hedges e).1 he with hin | hin | hin | hin | hin
    · obtain ⟨h1, h2⟩ := hj e hin hl
      exact ⟨h1, h2.mono fun a ha => List.mem_append_left _ ha⟩
    · simp only [memEdgesOf, List.mem_map] at hin
      obtain ⟨d, _, rfl⟩ := hin
      cases hl
    · simp only [classicalEdgeOf] at hin
      split at hin
      · simp only [List.mem_singleton] at hin
        subst hin
        cases hl
      · simp at hin
    · simp only [ordEdgesOf, List.mem_map] at hin
      obtain ⟨d, _, rfl⟩ := hin
      cases hl
    · simp only [timedEdgesOf] at hin
      split at hin
      · rename_i hs
        simp only [List.mem_map] at hin
        obtain ⟨d, hd, rfl⟩ := hin
        simp only [hs, if_true]
        exact frame_deps_edge (μ := μ) (hq.mono fun _ _ _ => trivial) hnd hμ h0 d hd .scheduled
      · simp at hin

/-- the nodes of the classical items -/
def classicalNodes (P : List (Node × Instr)) : List Node :=
  P.flatMap fun p => if p.2.role = .classical then [p.1] else []

theorem runItems_frameInv {μ : Node → Nat} :
    ∀ (P : List (Node × Instr)) (st st' : St) (olog tlog : List Access) (cl : List Node),
      runItems P st = .ok st' →
      QInv Queue.frameInit st.ord (Reach st.edges isStable) olog →
      StableJustified μ st.edges olog cl →
      QInv Queue.frameInit st.timed (Reach st.edges isScheduled) tlog →
      SchedJustified μ st.edges tlog →
      (∀ p ∈ P, FramesNodup p.2) →
      P.Pairwise (fun p q => μ p.1 < μ q.1) →
      (∀ p ∈ P, μ .start < μ p.1) →
      (∀ a ∈ olog, ∀ p ∈ P, μ a.node < μ p.1) →
      (∀ a ∈ tlog, ∀ p ∈ P, μ a.node < μ p.1) →
      (QInv Queue.frameInit st'.ord (Reach st'.edges isStable) (olog ++ ordLog P) ∧
       StableJustified μ st'.edges (olog ++ ordLog P) (cl ++ classicalNodes P)) ∧
      (QInv Queue.frameInit st'.timed (Reach st'.edges isScheduled) (tlog ++ timedLog P) ∧
       SchedJustified μ st'.edges (tlog ++ timedLog P)) := by
  intro P
  induction P with
  | nil =>
    intro st st' olog tlog cl h hq hj hq2 hj2 _ _ _ _ _
    simp only [runItems] at h
    cases h
    simpa [ordLog, timedLog, classicalNodes] using ⟨⟨hq, hj⟩, hq2, hj2⟩
  | cons p rest ih =>
    intro st st' olog tlog cl h hq hj hq2 hj2 hnd hsorted h0 hol htl
    obtain ⟨n, ins⟩ := p
    simp only [runItems] at h
    split at h
    · rename_i st1 hst1
      have hnd1 : FramesNodup ins := hnd (n, ins) List.mem_cons_self
      have h01 : μ .start < μ n := h0 (n, ins) List.mem_cons_self
      obtain ⟨hq1, hj1⟩ := stepInstr_ordInv hst1 hq hj hnd1 (fun a ha => hol a ha _ List.mem_cons_self) h01
      obtain ⟨hq3, hj3⟩ := stepInstr_timedInv hst1 hq2 hj2 hnd1 (fun a ha => htl a ha _ List.mem_cons_self) h01
      rw [List.pairwise_cons] at hsorted
      have hnew : ∀ (l : List Access) (f : List (Nat × Kind)),
          (∀ a ∈ l, ∀ p ∈ (n, ins) :: rest, μ a.node < μ p.1) →
          ∀ a ∈ l ++ f.map (fun a => (⟨n, a.1, a.2⟩ : Access)), ∀ q ∈ rest, μ a.node < μ q.1 := by
        intro l f hl a ha q hq'
        rcases List.mem_append.1 ha with ha | ha
        · exact hl a ha q (List.mem_cons_of_mem _ hq')
        · simp only [List.mem_map] at ha
          obtain ⟨a', _, rfl⟩ := ha
          exact hsorted.1 q hq'
      have := ih st1 st' _ _ _ h hq1 hj1 hq3 hj3 (fun p hp => hnd p (List.mem_cons_of_mem _ hp)) hsorted.2
        (fun p hp => h0 p (List.mem_cons_of_mem _ hp)) (hnew olog _ hol)
        (by
          cases hs : ins.scheduled
          · simpa using fun a ha q hq' => htl a ha q (List.mem_cons_of_mem _ hq')
          · simpa using hnew tlog (frameAccesses ins) htl)
      simpa [ordLog, timedLog, classicalNodes, List.append_assoc] using this
    · cases h

/-! ### Trailing classical instructions -/

theorem stepInstr_trailing {n : Node} {ins : Instr} {st st' : St} (h : stepInstr n ins st = .ok st') :
    (∀ t ∈ st'.trailing, t ∈ st.trailing ∨ (ins.role = .classical ∧ t = n)) ∧
    (ins.role = .classical → n ∈ st'.trailing) ∧
    (∀ t ∈ st.trailing, t ∈ st'.trailing ∨ ∃ e ∈ memEdgesOf n ins st, e.src = t) := by
  have hms : (memStep n ins st).1.trailing =
      st.trailing.filter fun t => !(((recordAll st.mem n (memAccesses ins)).2.filter fun d => d.node ≠ n).any
        fun d => d.node == t) := rfl
  have hdrop : ∀ t ∈ st.trailing, t ∈ (memStep n ins st).1.trailing ∨ ∃ e ∈ memEdgesOf n ins st, e.src = t := by
    intro t ht
    by_cases hany : (((recordAll st.mem n (memAccesses ins)).2.filter fun d => d.node ≠ n).any
        fun d => d.node == t) = true
    · right
      rw [List.any_eq_true] at hany
      obtain ⟨d, hd, hdt⟩ := hany
      exact ⟨⟨d.node, n, .await d.kind⟩, List.mem_map.2 ⟨d, hd, rfl⟩, by simpa using hdt⟩
    · left
      rw [hms, List.mem_filter]
      exact ⟨ht, by simpa using hany⟩
  have hsub : ∀ t ∈ (memStep n ins st).1.trailing, t ∈ st.trailing := by
    intro t ht; rw [hms] at ht; exact (List.mem_filter.1 ht).1
  unfold stepInstr at h
  split at h
  · cases h
  · simp only at h
    split at h
    · rename_i hrole
      cases h
      refine ⟨?_, ?_, ?_⟩
      · intro t ht
        simp only at ht
        split at ht
        · exact .inl (hsub t ht)
        · rcases List.mem_append.1 ht with ht | ht
          · exact .inl (hsub t ht)
          · exact .inr ⟨hrole, by simpa using ht⟩
      · intro _
        simp only
        split
        · assumption
        · simp
      · intro t ht
        rcases hdrop t ht with h1 | h1
        · left
          simp only
          split
          · exact h1
          · exact List.mem_append_left _ h1
        · exact .inr h1
    · rename_i hrole
      split at h
      · cases h
        exact ⟨fun t ht => .inl (hsub t ht), fun hc => (by rw [hrole] at hc; cases hc), hdrop⟩
      · cases h
        refine ⟨?_, fun hc => (by rw [hrole] at hc; cases hc), ?_⟩
        · intro t ht
          rw [(frameLoop_mem _ _ _ _ _).2, (frameLoop_mem _ _ _ _ _).2] at ht
          exact .inl (hsub t ht)
        · intro t ht
          rw [(frameLoop_mem _ _ _ _ _).2, (frameLoop_mem _ _ _ _ _).2]
          exact hdrop t ht
    · rename_i hrole
      split at h
      · cases h
        exact ⟨fun t ht => .inl (hsub t ht), fun hc => (by rw [hrole] at hc; cases hc), hdrop⟩
      · cases h
    · cases h

theorem runItems_trailing : ∀ (P : List (Node × Instr)) (st st' : St) (cl : List Node),
    runItems P st = .ok st' → (∀ t ∈ st.trailing, t ∈ cl) →
    ∀ t ∈ st'.trailing, t ∈ cl ++ classicalNodes P := by
  intro P
  induction P with
  | nil =>
    intro st st' cl h hcl t ht
    simp only [runItems] at h
    cases h
    simpa [classicalNodes] using hcl t ht
  | cons p rest ih =>
    intro st st' cl h hcl t ht
    obtain ⟨n, ins⟩ := p
    simp only [runItems] at h
    split at h
    · rename_i st1 hst1
      have := ih st1 st' (cl ++ if ins.role = .classical then [n] else []) h (by
        intro t' ht'
        rcases (stepInstr_trailing hst1).1 t' ht' with h1 | ⟨h1, h2⟩
        · exact List.mem_append_left _ (hcl t' h1)
        · simp [h1, h2]) t ht
      simpa [classicalNodes, List.append_assoc] using this
    · cases h

/-- **Everything the invariants say about a successfully built block**, with positions as the measure. -/
theorem build_inv (b : Block) (es : List Edge) (h : buildBlock b = .ok es)
    (hnd : ∀ p ∈ b.items, FramesNodup p.2) :
    ∃ st, runItems b.items St.init = .ok st ∧ es = finish b st ∧
      QInv Queue.memInit st.mem (Reach st.edges isAwait) (memLog b.items) ∧
      MemEdgesJustified (Node.pos b.instrs.length) st.edges (memLog b.items) ∧
      QInv Queue.frameInit st.ord (Reach st.edges isStable) (ordLog b.items) ∧
      StableJustified (Node.pos b.instrs.length) st.edges (ordLog b.items) (classicalNodes b.items) ∧
      QInv Queue.frameInit st.timed (Reach st.edges isScheduled) (timedLog b.items) ∧
      SchedJustified (Node.pos b.instrs.length) st.edges (timedLog b.items) ∧
      (∀ t ∈ st.trailing, t ∈ classicalNodes b.items) := by
  unfold buildBlock at h
  split at h
  · rename_i st hst
    cases h
    have hfi : QInv Queue.frameInit (QMap.empty Queue.frameInit) (Reach St.init.edges isStable) [] :=
      QInv.empty _ rfl (by simp [Queue.frameInit, Kind.isWrite]) _
    have hfi2 : QInv Queue.frameInit (QMap.empty Queue.frameInit) (Reach St.init.edges isScheduled) [] :=
      QInv.empty _ rfl (by simp [Queue.frameInit, Kind.isWrite]) _
    obtain ⟨hq, hj⟩ := runItems_memInv (μ := Node.pos b.instrs.length) b.items St.init st [] hst
      (QInv.empty _ rfl (by simp [Queue.memInit]) _) (by intro e he; simp [St.init] at he)
      (items_sorted b) (by simp)
    obtain ⟨⟨ho, hoj⟩, ht, htj⟩ := runItems_frameInv (μ := Node.pos b.instrs.length) b.items St.init st [] [] []
      hst hfi (by intro e he; simp [St.init] at he) hfi2 (by intro e he; simp [St.init] at he) hnd
      (items_sorted b) (items_pos b) (by simp) (by simp)
    have htr := runItems_trailing b.items St.init st [] hst (by simp [St.init])
    simp only [List.nil_append] at hq hj ho hoj ht htj htr
    exact ⟨st, hst, rfl, hq, hj, ho, hoj, ht, htj, htr⟩
  · cases h

/-! ### Classical instructions: an incoming edge when processed, an outgoing edge or still trailing -/

/-- `x` has an incoming edge from the block start (`StableOrdering`) or an incoming memory edge -/
def HasIn (E : List Edge) (x : Node) : Prop :=
  ∃ e ∈ E, e.dst = x ∧ ((e.src = .start ∧ e.label = .stable) ∨ isAwait e.label = true)

/-- `x` is still a trailing classical instruction, or has an outgoing memory edge -/
def HasOut (st : St) (x : Node) : Prop :=
  x ∈ st.trailing ∨ ∃ e ∈ st.edges, e.src = x ∧ isAwait e.label = true

theorem memEdgesOf_props {n : Node} {ins : Instr} {st : St} : ∀ e ∈ memEdgesOf n ins st,
    e.dst = n ∧ isAwait e.label = true := by
  intro e he
  simp only [memEdgesOf, List.mem_map] at he
  obtain ⟨d, _, rfl⟩ := he
  exact ⟨rfl, rfl⟩

theorem stepInstr_classical {n : Node} {ins : Instr} {st st' : St} (h : stepInstr n ins st = .ok st')
    (hc : ins.role = .classical) : HasIn st'.edges n ∧ HasOut st' n := by
  obtain ⟨-, -, -, hedges⟩ := stepInstr_spec h
  refine ⟨?_, .inl ((stepInstr_trailing h).2.1 hc)⟩
  cases hl : (memStep n ins st).2
  · -- not leading: some memory edge was emitted
    have hne : memEdgesOf n ins st ≠ [] := by
      intro hnil
      have : (memStep n ins st).2 = true := by
        simp only [memEdgesOf, List.map_eq_nil_iff] at hnil
        show (List.filter _ _).isEmpty = true
        rw [hnil]; rfl
      rw [hl] at this; cases this
    obtain ⟨e, he⟩ := List.exists_mem_of_ne_nil _ hne
    obtain ⟨h1, h2⟩ := memEdgesOf_props e he
    exact ⟨e, (hedges e).2 (.inr (.inl he)), h1, .inr h2⟩
  · refine ⟨⟨.start, n, .stable⟩, (hedges _).2 (.inr (.inr (.inl ?_))), rfl, .inl ⟨rfl, rfl⟩⟩
    simp [classicalEdgeOf, hc, hl]

theorem stepInstr_keeps {n : Node} {ins : Instr} {st st' : St} (h : stepInstr n ins st = .ok st') (x : Node) :
    (HasIn st.edges x → HasIn st'.edges x) ∧ (HasOut st x → HasOut st' x) := by
  obtain ⟨-, -, -, hedges⟩ := stepInstr_spec h
  constructor
  · rintro ⟨e, he, h1, h2⟩
    exact ⟨e, (hedges e).2 (.inl he), h1, h2⟩
  · rintro (hx | ⟨e, he, h1, h2⟩)
    · rcases (stepInstr_trailing h).2.2 x hx with h1 | ⟨e, he, h1⟩
      · exact .inl h1
      · exact .inr ⟨e, (hedges e).2 (.inr (.inl he)), h1, (memEdgesOf_props e he).2⟩
    · exact .inr ⟨e, (hedges e).2 (.inl he), h1, h2⟩

theorem runItems_classicalInv : ∀ (P : List (Node × Instr)) (st st' : St) (cl : List Node),
    runItems P st = .ok st' → (∀ x ∈ cl, HasIn st.edges x ∧ HasOut st x) →
    ∀ x ∈ cl ++ classicalNodes P, HasIn st'.edges x ∧ HasOut st' x := by
  intro P
  induction P with
  | nil =>
    intro st st' cl h hcl x hx
    simp only [runItems] at h
    cases h
    exact hcl x (by simpa [classicalNodes] using hx)
  | cons p rest ih =>
    intro st st' cl h hcl x hx
    obtain ⟨n, ins⟩ := p
    simp only [runItems] at h
    split at h
    · rename_i st1 hst1
      refine ih st1 st' (cl ++ if ins.role = .classical then [n] else []) h ?_ x
        (by simpa [classicalNodes, List.append_assoc] using hx)
      intro y hy
      rcases List.mem_append.1 hy with hy | hy
      · exact ⟨(stepInstr_keeps hst1 y).1 (hcl y hy).1, (stepInstr_keeps hst1 y).2 (hcl y hy).2⟩
      · split at hy
        · rename_i hc
          simp only [List.mem_singleton] at hy
          subst hy
          exact stepInstr_classical hst1 hc
        · simp at hy
    · cases h

/-- on success every item is classical, RF-control, or a control-flow instruction at the block end -/
theorem runItems_roles : ∀ (P : List (Node × Instr)) (st st' : St), runItems P st = .ok st' →
    ∀ p ∈ P, p.2.role = .classical ∨ p.2.role = .rf ∨ (p.2.role = .controlFlow ∧ p.1 = .stop) := by
  intro P
  induction P with
  | nil => intro _ _ _ p hp; simp at hp
  | cons q rest ih =>
    intro st st' h p hp
    obtain ⟨n, ins⟩ := q
    simp only [runItems] at h
    split at h
    · rename_i st1 hst1
      rcases List.mem_cons.1 hp with rfl | hp
      · unfold stepInstr at hst1
        split at hst1
        · cases hst1
        · simp only at hst1
          split at hst1
          · rename_i hr; exact .inl hr
          · rename_i hr; exact .inr (.inl hr)
          · rename_i hr
            split at hst1
            · rename_i hn; exact .inr (.inr ⟨hr, hn⟩)
            · cases hst1
          · cases hst1
      · exact ih st1 st' h p hp
    · cases h

theorem mem_enumFrom_of_getElem : ∀ (is : List Instr) (k i : Nat) (x : Instr), is[i]? = some x →
    ((Node.instr (k + i), x) : Node × Instr) ∈ enumFrom k is := by
  intro is
  induction is with
  | nil => intro k i x h; simp at h
  | cons z zs ih =>
    intro k i x h
    cases i with
    | zero => simp at h; subst h; simp [enumFrom]
    | succ j =>
      simp only [List.getElem?_cons_succ] at h
      simp only [enumFrom, List.mem_cons]
      right
      have := ih (k + 1) j x h
      have e : k + (j + 1) = k + 1 + j := by omega
      rw [e]; exact this

/-- from a pairwise statement over the enumerated instructions to its index form -/
theorem pairwise_enumFrom_index {R : Node × Instr → Node × Instr → Prop} : ∀ (is : List Instr) (k : Nat),
    (enumFrom k is).Pairwise R → ∀ i j, i < j → ∀ x y, is[i]? = some x → is[j]? = some y →
    R (.instr (k + i), x) (.instr (k + j), y) := by
  intro is
  induction is with
  | nil => intro k _ i j _ x y hx; simp at hx
  | cons z zs ih =>
    intro k hp i j hij x y hx hy
    simp only [enumFrom, List.pairwise_cons] at hp
    cases i with
    | zero =>
      simp only [List.getElem?_cons_zero, Option.some.injEq] at hx
      subst hx
      obtain ⟨j', rfl⟩ : ∃ j', j = j' + 1 := ⟨j - 1, by omega⟩
      simp only [List.getElem?_cons_succ] at hy
      have := hp.1 _ (mem_enumFrom_of_getElem zs (k + 1) j' y hy)
      have e : k + (j' + 1) = k + 1 + j' := by omega
      simpa [e] using this
    | succ i' =>
      obtain ⟨j', rfl⟩ : ∃ j', j = j' + 1 := ⟨j - 1, by omega⟩
      simp only [List.getElem?_cons_succ] at hx hy
      have := ih (k + 1) hp.2 i' j' (by omega) x y hx hy
      have e1 : k + (i' + 1) = k + 1 + i' := by omega
      have e2 : k + (j' + 1) = k + 1 + j' := by omega
      rw [e1, e2]; exact this

end QV.Sched
