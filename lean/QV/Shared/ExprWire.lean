import QV.Wire
import QV.Shared.Expr
import QV.Shared.CFloat
/-
QV.Shared.ExprWire — wire format of expressions, shared by every driver that receives or returns a
`quil_rs::expression::Expression`.  The Rust side is `harness/src/expr.rs` (`expr_to_sexp` etc.).

  f64            xHHHHHHHHHHHHHHHH        16 hex digits of the IEEE-754 bits (`f64bits`); never decimal text
  Complex64      (c xRE xIM)
  MemoryReference(name,index)   (ref "name" index)
  Expression     (addr "name" index) | (call cis|cos|exp|sin|sqrt e) | (infix caret|plus|minus|slash|star l r)
                 | (num xRE xIM) | (pi) | (prefix plus|minus e) | (var "name")

`encodeExpr (decodeExpr s) = s` on well-formed input, so expression-valued outputs are compared as
s-expressions (i.e. structurally, numeric leaves bit for bit).
-/
namespace QV
namespace ExprWire
open Sexp

private def hexVal (c : Char) : Option Nat :=
  if '0' ≤ c ∧ c ≤ '9' then some (c.toNat - '0'.toNat)
  else if 'a' ≤ c ∧ c ≤ 'f' then some (c.toNat - 'a'.toNat + 10)
  else if 'A' ≤ c ∧ c ≤ 'F' then some (c.toNat - 'A'.toNat + 10)
  else none

private def hexDigit (n : Nat) : Char :=
  if n < 10 then Char.ofNat ('0'.toNat + n) else Char.ofNat ('a'.toNat + n - 10)

/-- `x` followed by exactly 16 hex digits ↦ the double with those bits -/
def decodeF64 : Sexp → Option Float
  | .atom a =>
    match a.toList with
    | 'x' :: ds =>
      if ds.length != 16 then none
      else
        (ds.foldl (fun acc c => match acc, hexVal c with
          | some v, some d => some (v * 16 + d)
          | _, _ => none) (some 0)).map fun n => Float.ofBits n.toUInt64
    | _ => none
  | _ => none

def encodeF64 (x : Float) : Sexp :=
  let n := x.toBits.toNat
  .atom (String.ofList ('x' :: (List.range 16).map fun i => hexDigit ((n >>> (4 * (15 - i))) % 16)))

/-- `(c xRE xIM)` -/
def decodeC : Sexp → Option CFloat
  | .list [.atom "c", r, i] =>
    match decodeF64 r, decodeF64 i with
    | some r, some i => some (r, i)
    | _, _ => none
  | _ => none

def encodeC (z : CFloat) : Sexp := .list [.atom "c", encodeF64 z.1, encodeF64 z.2]

/-- `(ref "name" index)` -/
def decodeMemRef : Sexp → Option MemRef
  | .list [.atom "ref", .str n, .atom i] => i.toNat?.map fun i => ⟨n, i⟩
  | _ => none

def encodeMemRef (r : MemRef) : Sexp := .list [.atom "ref", .str r.name, .atom (toString r.index)]

def decodeFn : String → Option ExprFn
  | "cis" => some .cis | "cos" => some .cos | "exp" => some .exp | "sin" => some .sin | "sqrt" => some .sqrt
  | _ => none
def encodeFn : ExprFn → String
  | .cis => "cis" | .cos => "cos" | .exp => "exp" | .sin => "sin" | .sqrt => "sqrt"

def decodePrefixOp : String → Option PrefixOp
  | "plus" => some .plus | "minus" => some .minus | _ => none
def encodePrefixOp : PrefixOp → String
  | .plus => "plus" | .minus => "minus"

def decodeInfixOp : String → Option InfixOp
  | "caret" => some .caret | "plus" => some .plus | "minus" => some .minus
  | "slash" => some .slash | "star" => some .star | _ => none
def encodeInfixOp : InfixOp → String
  | .caret => "caret" | .plus => "plus" | .minus => "minus" | .slash => "slash" | .star => "star"

/-- Decode an expression (structural recursion on the s-expression). -/
def decodeExpr : Sexp → Option (Expr CFloat)
  | .list [.atom "addr", .str n, .atom i] => i.toNat?.map fun i => .address ⟨n, i⟩
  | .list [.atom "call", .atom f, e] =>
    match decodeFn f, decodeExpr e with
    | some f, some e => some (.call f e)
    | _, _ => none
  | .list [.atom "infix", .atom o, l, r] =>
    match decodeInfixOp o, decodeExpr l, decodeExpr r with
    | some o, some l, some r => some (.bin l o r)
    | _, _, _ => none
  | .list [.atom "num", r, i] =>
    match decodeF64 r, decodeF64 i with
    | some r, some i => some (.number (r, i))
    | _, _ => none
  | .list [.atom "pi"] => some .pi
  | .list [.atom "prefix", .atom o, e] =>
    match decodePrefixOp o, decodeExpr e with
    | some o, some e => some (.pre o e)
    | _, _ => none
  | .list [.atom "var", .str x] => some (.var x)
  | _ => none

def encodeExpr : Expr CFloat → Sexp
  | .address r => .list [.atom "addr", .str r.name, .atom (toString r.index)]
  | .call f e => .list [.atom "call", .atom (encodeFn f), encodeExpr e]
  | .bin l o r => .list [.atom "infix", .atom (encodeInfixOp o), encodeExpr l, encodeExpr r]
  | .number z => .list [.atom "num", encodeF64 z.1, encodeF64 z.2]
  | .pi => .list [.atom "pi"]
  | .pre o e => .list [.atom "prefix", .atom (encodePrefixOp o), encodeExpr e]
  | .var x => .list [.atom "var", .str x]

/-- Decode every element of a list, failing if one fails. -/
def decodeAll {α : Type} (f : Sexp → Option α) : List Sexp → Option (List α)
  | [] => some []
  | x :: xs =>
    match f x, decodeAll f xs with
    | some a, some as => some (a :: as)
    | _, _ => none

/-- `(("name" v) …)` association list -/
def decodeAssoc {α : Type} (f : Sexp → Option α) : Sexp → Option (List (String × α))
  | .list xs => decodeAll (fun
      | .list [.str n, v] => (f v).map fun v => (n, v)
      | _ => none) xs
  | _ => none

/-- `&HashMap<_, Complex64>`: `(("x" (c re im)) …)` -/
def decodeVarEnv : Sexp → Option (List (String × CFloat)) := decodeAssoc decodeC

/-- `&HashMap<_, Vec<f64>>`: `(("a" (x… x…)) …)`; cells are embedded with `real!` (imaginary part `0.0`). -/
def decodeMemEnv : Sexp → Option (List (String × List CFloat)) :=
  decodeAssoc fun
    | .list vs => decodeAll (fun v => (decodeF64 v).map CFloat.ofReal) vs
    | _ => none

/-- constructor histogram tags for evidence (`e-addr`, `e-call`, …) and size/depth buckets -/
def shapeTags (e : Expr CFloat) : List String :=
  let rec ctors : Expr CFloat → List String
    | .address _ => ["e-addr"]
    | .call _ e => "e-call" :: ctors e
    | .bin l _ r => "e-infix" :: (ctors l ++ ctors r)
    | .number _ => ["e-num"]
    | .pi => ["e-pi"]
    | .pre _ e => "e-prefix" :: ctors e
    | .var _ => ["e-var"]
  (ctors e).eraseDups ++ [s!"depth{min e.depth 8}"]

end ExprWire
end QV
