import QV.Wire
import QV.Shared.Program
/-! Decoders for the projection emitted by `harness/src/progwire.rs`. -/
namespace QV.Prog
open QV

def decQubit : Sexp → Option Qubit
  | .list [.atom "f", n] => n.asNat?.map .fixed
  | .list [.atom "v", .str s] => some (.var s)
  | .list [.atom "p", n] => n.asNat?.map .ph
  | _ => none

def decKind : String → Option Kind
  | "ext" => some .extern | "decl" => some .decl | "frame" => some .frame | "wave" => some .waveform
  | "cal" => some .cal | "mcal" => some .mcal | "gate" => some .gateDef | "circ" => some .circuit
  | "body" => some .body | _ => none

def kindName : Kind → String
  | .extern => "ext" | .decl => "decl" | .frame => "frame" | .waveform => "wave" | .cal => "cal"
  | .mcal => "mcal" | .gateDef => "gate" | .circuit => "circ" | .body => "body"

def decQubits : Sexp → Option (List Qubit)
  | .list qs => qs.mapM decQubit
  | _ => none

def decInstr : Sexp → Option Instr
  | .list [.atom "i", .atom k, .str key, pid, .str text, qs] => do
    let kind ← decKind k
    let pid ← pid.asNat?
    let qubits ← decQubits qs
    pure { kind, key, pid, text, qubits }
  | _ => none

def decInstrs : Sexp → Option (List Instr)
  | .list xs => xs.mapM decInstr
  | _ => none

/-- a listing sent as pids, resolved against the table of fully projected instructions -/
def decPids (tbl : List Instr) : Sexp → Option (List Instr)
  | .list xs => xs.mapM fun x => do
      let n ← x.asNat?
      tbl.find? (fun i => i.pid == n)
  | _ => none

def decBool : Sexp → Option Bool
  | .atom "true" => some true
  | .atom "false" => some false
  | _ => none

def showQubit : Qubit → String
  | .fixed n => toString n
  | .var s => s
  | .ph k => "{q" ++ toString k ++ "}"

def showQubits (qs : List Qubit) : String := "{" ++ ",".intercalate (qs.map showQubit) ++ "}"

def showListing (is : List Instr) : String :=
  "[" ++ "; ".intercalate (is.map fun i => i.text.replace "\n" "⏎") ++ "]"

/-- distribution tags of a history -/
def histTags (is : List Instr) : List String :=
  let ks := (is.map (·.kind)).eraseDups
  let redefined (k : Kind) : Bool :=
    let keys := (is.filter (fun x => x.kind == k)).map (·.key)
    keys.length != keys.eraseDups.length
  (ks.map fun k => "k-" ++ kindName k) ++
  ((Kind.defs.filter redefined).map fun k => "redef-" ++ kindName k) ++
  ["len" ++ toString (min (is.length / 4 * 4) 24)]

end QV.Prog
