import QV.Shared.Lex
/-!
Shared lemmas about the lexer model's scanning primitives (`span`, `takeWhile1`), used by the C05 and
C06 property files (and available to C01–C03).  Core Lean only.
-/
namespace QV.Lex

/-- the next character (if any) does not satisfy `p` -/
def stops (p : Char → Bool) (rest : List Char) : Bool :=
  match rest with
  | [] => true
  | c :: _ => !p c

theorem span_stops (p : Char → Bool) (rest : List Char) (h : stops p rest = true) :
    span p rest = ([], rest) := by
  cases rest with
  | nil => rfl
  | cons c cs =>
    have : p c = false := by simpa [stops] using h
    simp [span, this]

/-- **`span` on a run followed by a stopper**: if every character of `a` satisfies `p` and the rest
does not continue the run, `span p (a ++ rest) = (a, rest)`. -/
theorem span_append (p : Char → Bool) (a rest : List Char)
    (ha : ∀ c ∈ a, p c = true) (hr : stops p rest = true) :
    span p (a ++ rest) = (a, rest) := by
  induction a with
  | nil => simpa using span_stops p rest hr
  | cons c cs ih =>
    have hc : p c = true := ha c (by simp)
    have ih' := ih (fun d hd => ha d (by simp [hd]))
    simp [span, hc, ih']

theorem takeWhile1_append (p : Char → Bool) (a rest : List Char) (hne : a ≠ [])
    (ha : ∀ c ∈ a, p c = true) (hr : stops p rest = true) :
    takeWhile1 p (a ++ rest) = some (a, rest) := by
  unfold takeWhile1
  rw [span_append p a rest ha hr]
  cases a with
  | nil => exact absurd rfl hne
  | cons c cs => rfl

theorem takeWhile1_stops (p : Char → Bool) (rest : List Char) (h : stops p rest = true) :
    takeWhile1 p rest = none := by
  unfold takeWhile1
  rw [span_stops p rest h]

/-- what `span` returns always re-assembles to the input, the first part satisfies `p` throughout and
the rest does not continue -/
theorem span_spec (p : Char → Bool) (inp : List Char) :
    (span p inp).1 ++ (span p inp).2 = inp ∧ (∀ c ∈ (span p inp).1, p c = true) ∧
    stops p (span p inp).2 = true := by
  induction inp with
  | nil => simp [span, stops]
  | cons c cs ih =>
    by_cases hc : p c = true
    · simp only [span, hc, if_true]
      obtain ⟨h1, h2, h3⟩ := ih
      refine ⟨by simp [h1], ?_, h3⟩
      intro d hd
      simp at hd
      rcases hd with rfl | hd
      · exact hc
      · exact h2 d hd
    · have hc' : p c = false := by simpa using hc
      simp [span, hc', stops]

/-! whole-input lexing of a single item -/

theorem lexMany_nil (n : Nat) : lexMany n [] = .ok [] [] := by cases n <;> rfl

theorem lexMany_single (k : Nat) (inp : List Char) (t : Tok.Token) (hne : inp ≠ [])
    (h : lexItem inp = .ok t []) : lexMany (k + 1) inp = .ok [t] [] := by
  have hl : ([] : List Char).length < inp.length := by
    cases inp with
    | nil => exact absurd rfl hne
    | cons c cs => simp
  simp only [lexMany, h, hl, if_true, lexMany_nil]

theorem lexMany_fail (k : Nat) (inp : List Char) (h : lexItem inp = .failure) :
    lexMany (k + 1) inp = .failure := by
  simp only [lexMany, h]

/-- `lex` of an input that is exactly one item -/
theorem lex_single (inp : List Char) (t : Tok.Token) (hne : inp ≠ []) (h : lexItem inp = .ok t []) :
    lex inp = some [t] := by
  cases inp with
  | nil => exact absurd rfl hne
  | cons c cs =>
    simp only [lex, List.length_cons]
    rw [lexMany_single _ _ _ (by simp) h]
    rfl

end QV.Lex
