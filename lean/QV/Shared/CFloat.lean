import QV.Shared.Expr
/-
QV.Shared.CFloat — the concrete scalar the native drivers run the shared expression model on:
`num_complex::Complex64` as a pair of IEEE-754 doubles, with num-complex 0.4.6's formulas copied operation
for operation (file `num-complex-0.4.6/src/lib.rs`, line numbers in the comments).

Lean's `Float` is the platform `double`: `+ - * /` and `sqrt` are correctly rounded, so the results of
`add sub mul div neg` (and `sqrt` on the real axis) are bit-identical to Rust's.  `sin cos sinh cosh exp
log atan2` go through the C library on both sides and normally agree bit for bit as well; `hypot` is not
exposed by Lean's `Float` API and is bound to the C library's `hypot` with `@[extern]` (the function Rust's
`f64::hypot` calls), so `norm`, `powc` and the general branch of `sqrt` agree bit for bit too in practice
(C13 measured 100 % bit-identical results); `CFloat.close` offers a relative tolerance for users that want
to be robust against libm differences.

`CFloat` satisfies no algebraic laws (rounding): theorems are never stated about it; it only executes the
models in the correspondence check.  Import-free apart from `QV.Shared.Expr`.
-/
namespace QV

abbrev CFloat := Float × Float

namespace CFloat

/-- `std::f64::consts::PI` -/
def piF : Float := Float.ofBits 0x400921FB54442D18
/-- `f64::EPSILON` = 2^-52 -/
def epsF : Float := Float.ofBits 0x3CB0000000000000

@[inline] def re (z : CFloat) : Float := z.1
@[inline] def im (z : CFloat) : Float := z.2

/-- `real!(x)` = `Complex64::new(x, 0f64)` -/
@[inline] def ofReal (x : Float) : CFloat := (x, 0.0)

/-- `f64::is_sign_positive`: the sign bit is clear (also for NaN and zero). -/
@[inline] def signPositive (x : Float) : Bool := x.toBits >>> 63 == 0

def add (a b : CFloat) : CFloat := (a.1 + b.1, a.2 + b.2)
def sub (a b : CFloat) : CFloat := (a.1 - b.1, a.2 - b.2)
/-- lib.rs:783 -/
def mul (a b : CFloat) : CFloat := (a.1 * b.1 - a.2 * b.2, a.1 * b.2 + a.2 * b.1)
/-- lib.rs:819 -/
def div (a b : CFloat) : CFloat :=
  let n := b.1 * b.1 + b.2 * b.2
  let r := a.1 * b.1 + a.2 * b.2
  let i := a.2 * b.1 - a.1 * b.2
  (r / n, i / n)
/-- `negate(value) = Complex64::new(0f64, 0f64) - value` (quil-rs expression/mod.rs:424, since /repo commit
a634ce0): what prefix minus evaluates to.  Unlike IEEE negation it never produces a negative zero
(`neg (1,0) = (-1, +0)`), so it does not move a real number across the branch cut of `sqrt` / `^`. -/
def neg (a : CFloat) : CFloat := (0.0 - a.1, 0.0 - a.2)
/-- IEEE sign flip of both components (`-value` on `Complex64`), for models that need it. -/
def negIEEE (a : CFloat) : CFloat := (-a.1, -a.2)

/-- C `hypot` from the platform libm — the very function Rust's `f64::hypot` calls (Lean's `Float` API does
not expose it, so it is bound here; compiled code only, the interpreter cannot evaluate it).  No theorem
mentions `CFloat`, so nothing is proved about (or with) this constant. -/
@[extern "hypot"] opaque hypot : Float → Float → Float

/-- pure-Lean stand-in for `hypot` (for `#eval` experiments only; may differ from libm's by an ulp or two). -/
def hypotEmulated (x y : Float) : Float :=
  if x.isInf || y.isInf then Float.abs (if x.isInf then x else y)
  else if x.isNaN || y.isNaN then x + y
  else
    let ax := x.abs
    let ay := y.abs
    let m := if ax < ay then ay else ax
    if m == 0.0 then 0.0
    else
      let p := ax / m
      let q := ay / m
      m * Float.sqrt (p * p + q * q)

/-- lib.rs:217 -/
def norm (z : CFloat) : Float := hypot z.1 z.2
/-- lib.rs:222 -/
def arg (z : CFloat) : Float := Float.atan2 z.2 z.1
/-- lib.rs:233 -/
def fromPolar (r θ : Float) : CFloat := (r * θ.cos, r * θ.sin)

/-- lib.rs:239-266 (with the corner cases for ±∞ and NaN) -/
def exp (z : CFloat) : CFloat :=
  let r := z.1
  let i := z.2
  if r.isInf then
    if r < 0.0 then
      if !i.isFinite then (0.0, 0.0) else fromPolar r.exp i
    else if i == 0.0 || !i.isFinite then
      (r, if i.isInf then (0.0 / 0.0) else i)
    else fromPolar r.exp i
  else if r.isNaN && i == 0.0 then z
  else fromPolar r.exp i

/-- lib.rs:270 -/
def ln (z : CFloat) : CFloat := ((norm z).log, arg z)

/-- lib.rs:284-318 -/
def sqrt (z : CFloat) : CFloat :=
  if z.2 == 0.0 then
    if signPositive z.1 then (z.1.sqrt, z.2)
    else
      let i := (-z.1).sqrt
      if signPositive z.2 then (0.0, i) else (0.0, -i)
  else if z.1 == 0.0 then
    let x := (z.2.abs / 2.0).sqrt
    if signPositive z.2 then (x, x) else (x, -x)
  else
    fromPolar (norm z).sqrt (arg z / 2.0)

/-- lib.rs:397: `if exp.is_zero() { one } else { (exp * self.ln()).exp() }` -/
def pow (z w : CFloat) : CFloat :=
  if w.1 == 0.0 && w.2 == 0.0 then (1.0, 0.0) else exp (mul w (ln z))

/-- lib.rs:415 -/
def sin (z : CFloat) : CFloat := (z.1.sin * z.2.cosh, z.1.cos * z.2.sinh)
/-- lib.rs:425 -/
def cos (z : CFloat) : CFloat := (z.1.cos * z.2.cosh, -z.1.sin * z.2.sinh)
/-- `argument.cos() + imag!(1f64) * argument.sin()` (quil-rs expression/mod.rs:412), same operations in
the same order (complex multiplication by `(0,1)`, then complex addition). -/
def cis (z : CFloat) : CFloat := add (cos z) (mul (0.0, 1.0) (sin z))

instance : Scalar CFloat where
  add := add
  sub := sub
  mul := mul
  div := div
  pow := pow
  neg := neg
  sin := sin
  cos := cos
  exp := exp
  sqrt := sqrt
  cis := cis
  pi := ofReal piF
  zero := (0.0, 0.0)
  one := (1.0, 0.0)

/-- bit equality of both components (what "the same value" means on the wire) -/
def bitEq (a b : CFloat) : Bool := a.1.toBits == b.1.toBits && a.2.toBits == b.2.toBits

/-- one component: identical bits, or both NaN, or equal as numbers (`0.0 == -0.0`), or within
`tol · max(1, |a|, |b|)` -/
def closeF (tol : Float) (a b : Float) : Bool :=
  a.toBits == b.toBits || (a.isNaN && b.isNaN) || a == b ||
  (a.isFinite && b.isFinite &&
    (a - b).abs ≤ tol * (let m := if a.abs < b.abs then b.abs else a.abs; if m < 1.0 then 1.0 else m))

/-- Numeric comparison used when the model performs the same IEEE operations as the code except for libm
differences: per component `closeF`, relative to the larger of the two *moduli* (so that a tiny component
next to a large one is not held to its own scale). -/
def close (tol : Float) (a b : CFloat) : Bool :=
  (closeF tol a.1 b.1 && closeF tol a.2 b.2) ||
  (a.1.isFinite && a.2.isFinite && b.1.isFinite && b.2.isFinite &&
    let m := (let na := hypot a.1 a.2; let nb := hypot b.1 b.2; if na < nb then nb else na)
    let s := if m < 1.0 then 1.0 else m
    (a.1 - b.1).abs ≤ tol * s && (a.2 - b.2).abs ≤ tol * s)

/-- default tolerance for results that went through libm: 1e-12 -/
def tolLibm : Float := 1e-12

end CFloat
end QV
