import QV.C28.Model
/-! Helper lemmas for C28: the loop invariant of the CFG builder. -/
namespace QV.C28
variable {X L C : Type}

def labelIns (o : Option L) : List (Ins X L C) :=
  match o with | some l => [Ins.label l] | none => []

theorem flattenAll_append (as bs : List (Block X L C)) :
    flattenAll (as ++ bs) = flattenAll as ++ flattenAll bs := by
  simp [flattenAll]

theorem flattenAll_single (b : Block X L C) : flattenAll [b] = b.flatten := by
  simp [flattenAll]

theorem offsetsOk_append (n : Nat) (bs : List (Block X L C)) (b : Block X L C) :
    offsetsOk n (bs ++ [b]) = (offsetsOk n bs && b.offset == n + (flattenAll bs).length) := by
  induction bs generalizing n with
  | nil => simp [offsetsOk, flattenAll]
  | cons a as ih =>
    simp only [List.cons_append, offsetsOk, ih, flattenAll, List.flatMap_cons, List.length_append]
    rw [Bool.and_assoc, Nat.add_assoc]

/-- last block's terminator is `Continue` -/
def lastIsContinue (bs : List (Block X L C)) : Bool :=
  match bs.getLast? with
  | some b => (b.term.toIns (X := X)).isEmpty
  | none => false

theorem continueOk_append (bs : List (Block X L C)) (b : Block X L C)
    (h : continueOk bs = true) (hl : lastIsContinue bs = true → b.label.isSome = true) :
    continueOk (bs ++ [b]) = true := by
  induction bs with
  | nil => simp [continueOk]
  | cons a as ih =>
    cases as with
    | nil =>
      simp only [List.cons_append, List.nil_append, continueOk, Bool.and_true, decide_eq_true_eq]
      intro ha
      apply hl
      simp [lastIsContinue, ha]
    | cons a' as' =>
      simp only [List.cons_append, continueOk, Bool.and_eq_true, decide_eq_true_eq] at h ⊢
      refine ⟨h.1, ?_⟩
      apply ih h.2
      intro hh
      apply hl
      simpa [lastIsContinue] using hh

theorem lastIsContinue_append (bs : List (Block X L C)) (b : Block X L C) :
    lastIsContinue (bs ++ [b]) = (b.term.toIns (X := X)).isEmpty := by
  simp [lastIsContinue]

theorem hasDynamic_append (bs : List (Block X L C)) (b : Block X L C) :
    hasDynamic (bs ++ [b]) = (hasDynamic bs || b.term.isDynamic) := by
  simp [hasDynamic]

def keep (i : Ins X L C) : Bool := !i.isSkip

theorem filter_snoc_keep (p : List (Ins X L C)) (i : Ins X L C) (h : i.isSkip = false) :
    (p ++ [i]).filter keep = p.filter keep ++ [i] := by
  simp [List.filter_append, keep, h]

theorem filter_snoc_skip (p : List (Ins X L C)) (i : Ins X L C) (h : i.isSkip = true) :
    (p ++ [i]).filter keep = p.filter keep := by
  simp [List.filter_append, keep, h]

theorem any_snoc (p : List (Ins X L C)) (i : Ins X L C) :
    (p ++ [i]).any Ins.isConditional = (p.any Ins.isConditional || i.isConditional) := by
  simp [List.any_append]

/-- The loop invariant after consuming the body prefix `p`. -/
structure Inv (s : St X L C) (p : List (Ins X L C)) : Prop where
  flat : flattenAll s.blocks ++ (labelIns s.curLabel ++ s.cur.map Ins.other) = p.filter keep
  off : s.offset = (flattenAll s.blocks).length
  offs : offsetsOk 0 s.blocks = true
  nonEmpty : s.blocks.all Block.nonEmpty = true
  cont : continueOk s.blocks = true
  contLast : lastIsContinue s.blocks = true → s.curLabel.isSome = true
  dyn : hasDynamic s.blocks = p.any Ins.isConditional

theorem inv_init : Inv (St.init : St X L C) [] := by
  constructor <;> simp [St.init, flattenAll, labelIns, offsetsOk, continueOk, lastIsContinue, hasDynamic]

theorem closedBlock_flatten (s : St X L C) (t : Term L C) :
    (Block.flatten { label := s.curLabel, instrs := s.cur, offset := s.offset, term := t } : List (Ins X L C))
      = labelIns s.curLabel ++ s.cur.map Ins.other ++ t.toIns := by
  cases h : s.curLabel <;> simp [Block.flatten, labelIns]

theorem labelIns_length (o : Option L) :
    (labelIns o : List (Ins X L C)).length = if o.isSome then 1 else 0 := by
  cases o <;> simp [labelIns]

/-- The state after closing the current block with terminator `t`. -/
theorem close_blocks (s : St X L C) (t : Term L C) (n : Nat) :
    (s.close t n).blocks = s.blocks ++ [{ label := s.curLabel, instrs := s.cur, offset := s.offset, term := t }] := rfl

theorem close_flat (s : St X L C) (t : Term L C) (n : Nat) :
    flattenAll (s.close t n).blocks
      = flattenAll s.blocks ++ (labelIns s.curLabel ++ s.cur.map Ins.other) ++ t.toIns := by
  rw [close_blocks, flattenAll_append, flattenAll_single, closedBlock_flatten]
  simp [List.append_assoc]

theorem close_offset (s : St X L C) (t : Term L C) (n : Nat) (hn : (t.toIns (X := X)).length = n)
    (h : s.offset = (flattenAll s.blocks).length) :
    (s.close t n).offset = (flattenAll (s.close t n).blocks).length := by
  rw [close_flat]
  simp only [St.close, List.length_append, List.length_map, labelIns_length, h, hn]
  omega

/-- everything about closing a block except the `flat` and `dyn` clauses -/
theorem inv_close_common (s : St X L C) (p : List (Ins X L C)) (h : Inv s p) (t : Term L C) (n : Nat)
    (hn : (t.toIns (X := X)).length = n)
    (hne : (Block.nonEmpty { label := s.curLabel, instrs := s.cur, offset := s.offset, term := t } : Bool) = true) :
    (s.close t n).offset = (flattenAll (s.close t n).blocks).length
    ∧ offsetsOk 0 (s.close t n).blocks = true
    ∧ (s.close t n).blocks.all Block.nonEmpty = true
    ∧ continueOk (s.close t n).blocks = true := by
  refine ⟨close_offset s t n hn h.off, ?_, ?_, ?_⟩
  · rw [close_blocks, offsetsOk_append]; simp [h.offs, h.off]
  · rw [close_blocks]; simp [List.all_append, h.nonEmpty, hne]
  · rw [close_blocks]; exact continueOk_append _ _ h.cont (by simpa using h.contLast)

/-- Closing a block with a real terminator instruction `i` (jump / conditional jump / halt). -/
theorem inv_close_term (s : St X L C) (p : List (Ins X L C)) (h : Inv s p)
    (t : Term L C) (i : Ins X L C) (hti : t.toIns = [i]) (hskip : i.isSkip = false)
    (hdyn : t.isDynamic = i.isConditional) :
    Inv (s.close t 1) (p ++ [i]) := by
  have hc := inv_close_common s p h t 1 (by simp [hti]) (by simp [Block.nonEmpty, hti])
  refine ⟨?_, hc.1, hc.2.1, hc.2.2.1, hc.2.2.2, ?_, ?_⟩
  · rw [close_flat, filter_snoc_keep _ _ hskip, ← h.flat, hti]
    simp [St.close, labelIns]
  · intro hl
    rw [close_blocks, lastIsContinue_append] at hl
    simp [hti] at hl
  · rw [close_blocks, hasDynamic_append, h.dyn, hdyn, any_snoc]

theorem inv_step (s : St X L C) (p : List (Ins X L C)) (i : Ins X L C) (h : Inv s p) :
    Inv (step s i) (p ++ [i]) := by
  cases i with
  | other x =>
    refine ⟨?_, h.off, h.offs, h.nonEmpty, h.cont, h.contLast, ?_⟩
    · rw [filter_snoc_keep _ _ rfl, ← h.flat]
      simp [step, List.append_assoc]
    · rw [any_snoc, ← h.dyn]; simp [step, Ins.isConditional]
  | skip x =>
    refine ⟨?_, h.off, h.offs, h.nonEmpty, h.cont, h.contLast, ?_⟩
    · rw [filter_snoc_skip _ _ rfl, ← h.flat]; rfl
    · rw [any_snoc, ← h.dyn]; simp [step, Ins.isConditional]
  | label l =>
    by_cases hc : (!s.cur.isEmpty || s.curLabel.isSome) = true
    · -- close the current block as a fall-through block, start a labelled one
      have hstep : step s (Ins.label l) = { (s.close .continue 0) with curLabel := some l } := by
        simp only [step, hc, if_true]
      have hne : (Block.nonEmpty ({ label := s.curLabel, instrs := s.cur, offset := s.offset, term := Term.continue } : Block X L C) : Bool) = true := by
        simp only [Bool.or_eq_true, Bool.not_eq_true'] at hc
        cases hc with
        | inl h1 => simp [Block.nonEmpty, h1]
        | inr h2 => simp [Block.nonEmpty, h2]
      have hcm := inv_close_common s p h .continue 0 (by simp [Term.toIns]) hne
      rw [hstep]
      refine ⟨?_, hcm.1, hcm.2.1, hcm.2.2.1, hcm.2.2.2, fun _ => rfl, ?_⟩
      · show flattenAll (s.close .continue 0).blocks ++ (labelIns (some l) ++ (s.close .continue 0).cur.map Ins.other) = _
        rw [close_flat, filter_snoc_keep _ _ rfl, ← h.flat]
        simp [St.close, labelIns, Term.toIns]
      · show hasDynamic (s.close .continue 0).blocks = _
        rw [close_blocks, hasDynamic_append, h.dyn, any_snoc]; simp [Term.isDynamic, Ins.isConditional]
    · -- nothing pending: just remember the label
      have hstep : step s (Ins.label l) = { s with curLabel := some l } := by
        simp only [step, hc]; simp
      have hcur : s.cur = [] := by
        simp only [Bool.or_eq_true, not_or, Bool.not_eq_true', Bool.not_eq_true] at hc
        simpa using hc.1
      have hlab : s.curLabel = none := by
        simp only [Bool.or_eq_true, not_or, Bool.not_eq_true] at hc
        simpa using hc.2
      rw [hstep]
      refine ⟨?_, h.off, h.offs, h.nonEmpty, h.cont, fun _ => rfl, ?_⟩
      · have := h.flat
        simp only [hcur, hlab, labelIns, List.map_nil, List.append_nil] at this
        rw [filter_snoc_keep _ _ rfl, ← this]
        simp [labelIns, hcur]
      · rw [any_snoc, ← h.dyn]; simp [Ins.isConditional]
  | jump l => exact inv_close_term s p h (.jump l) _ rfl rfl rfl
  | jumpWhen l c => exact inv_close_term s p h (.cond l c false) _ rfl rfl rfl
  | jumpUnless l c => exact inv_close_term s p h (.cond l c true) _ rfl rfl rfl
  | halt => exact inv_close_term s p h .halt _ rfl rfl rfl

theorem inv_foldl (s : St X L C) (p q : List (Ins X L C)) (h : Inv s p) :
    Inv (q.foldl step s) (p ++ q) := by
  induction q generalizing s p with
  | nil => simpa using h
  | cons i is ih =>
    have := ih (step s i) (p ++ [i]) (inv_step s p i h)
    simpa [List.append_assoc] using this

end QV.C28
