import QV.C28.Props
/-
C28, completeness of the specification: the clauses of `specCheck` determine the block list
uniquely. Any block list that (1) writes out to the body, (2) has no empty block, (3) is maximal
(fall-through only into a labelled block) and (4) has prefix-sum offsets IS the builder's output.
So "the spec holds of the implementation's output" already implies "implementation = model".
-/
namespace QV.C28
variable {X L C : Type}

/-- What the written-out form determines of a block: everything but the offset. -/
abbrev Shape (X L C : Type) := Option L × List X × Term L C

def Block.shape (b : Block X L C) : Shape X L C := (b.label, b.instrs, b.term)

/-- leading run of ordinary instructions -/
def takeOthers : List (Ins X L C) → List X × List (Ins X L C)
  | .other x :: rest => ((takeOthers rest).1 |> (x :: ·), (takeOthers rest).2)
  | l => ([], l)

/-- `l` does not start with an ordinary instruction -/
def noOtherHead : List (Ins X L C) → Prop
  | .other _ :: _ => False
  | _ => True

theorem takeOthers_append (xs : List X) (rest : List (Ins X L C)) (h : noOtherHead rest) :
    takeOthers (xs.map Ins.other ++ rest) = (xs, rest) := by
  induction xs with
  | nil =>
    cases rest with
    | nil => simp [takeOthers]
    | cons i r => cases i <;> simp_all [takeOthers, noOtherHead]
  | cons x xs ih => simp [takeOthers, ih]

/-- `l` is empty or starts with a label -/
def labelHeadOrNil : List (Ins X L C) → Prop
  | [] => True
  | .label _ :: _ => True
  | _ => False

/-- A deterministic reader of ONE block from the written form (independent of the builder). -/
def readBlock (l : List (Ins X L C)) : Shape X L C × List (Ins X L C) :=
  let p1 : Option L × List (Ins X L C) := match l with
    | .label a :: r => (some a, r)
    | _ => (none, l)
  let p2 := takeOthers p1.2
  let p3 : Term L C × List (Ins X L C) := match p2.2 with
    | .jump a :: r => (.jump a, r)
    | .jumpWhen a c :: r => (.cond a c false, r)
    | .jumpUnless a c :: r => (.cond a c true, r)
    | .halt :: r => (.halt, r)
    | _ => (.continue, p2.2)
  ((p1.1, p2.1, p3.1), p3.2)

/-- Reading back a written block followed by `rest` returns its shape and `rest`, provided a
fall-through block is followed by nothing or by a label (maximality). -/
theorem readBlock_flatten (b : Block X L C) (rest : List (Ins X L C)) (hne : b.nonEmpty = true)
    (hrest : (b.term.toIns (X := X)) = [] → labelHeadOrNil rest) :
    readBlock (b.flatten ++ rest) = (b.shape, rest) := by
  obtain ⟨lab, instrs, off, term⟩ := b
  have key : ∀ (tl : List (Ins X L C)), noOtherHead tl →
      (takeOthers (instrs.map Ins.other ++ tl)) = (instrs, tl) := fun tl h => takeOthers_append instrs tl h
  have hno : noOtherHead ((term.toIns (X := X)) ++ rest) := by
    cases term with
    | «continue» =>
      have := hrest rfl
      cases rest with
      | nil => simp [Term.toIns, noOtherHead]
      | cons i r => cases i <;> simp_all [Term.toIns, noOtherHead, labelHeadOrNil]
    | jump l => simp [Term.toIns, noOtherHead]
    | cond l c z => cases z <;> simp [Term.toIns, noOtherHead]
    | halt => simp [Term.toIns, noOtherHead]
  cases lab with
  | none =>
    -- no label: the written form starts with the instructions or the terminator
    have hflat : (Block.flatten ⟨none, instrs, off, term⟩ : List (Ins X L C)) ++ rest
        = instrs.map Ins.other ++ (term.toIns ++ rest) := by simp [Block.flatten]
    rw [hflat]
    -- (an unlabelled block with no instruction and no terminator would be empty: excluded by `hne`)
    cases instrs with
    | cons x xs =>
      simp only [readBlock, List.map_cons, List.cons_append]
      have := key (tl := term.toIns ++ rest) hno
      simp only [List.map_cons, List.cons_append] at this
      rw [this]
      cases term with
      | «continue» =>
        have h := hrest rfl
        cases rest with
        | nil => simp [Term.toIns, Block.shape]
        | cons i r => cases i <;> simp_all [Term.toIns, Block.shape, labelHeadOrNil]
      | jump l => simp [Term.toIns, Block.shape]
      | cond l c z => cases z <;> simp [Term.toIns, Block.shape]
      | halt => simp [Term.toIns, Block.shape]
    | nil =>
      cases term with
      | «continue» =>
        -- an empty block: excluded by `hne`
        simp [Block.nonEmpty, Term.toIns] at hne
      | jump l => simp [readBlock, Term.toIns, Block.shape, takeOthers]
      | cond l c z => cases z <;> simp [readBlock, Term.toIns, Block.shape, takeOthers]
      | halt => simp [readBlock, Term.toIns, Block.shape, takeOthers]
  | some a =>
    have hflat : (Block.flatten ⟨some a, instrs, off, term⟩ : List (Ins X L C)) ++ rest
        = Ins.label a :: (instrs.map Ins.other ++ (term.toIns ++ rest)) := by simp [Block.flatten]
    rw [hflat]
    simp only [readBlock]
    rw [key _ hno]
    cases term with
    | «continue» =>
      have h := hrest rfl
      cases rest with
      | nil => simp [Term.toIns, Block.shape]
      | cons i r => cases i <;> simp_all [Term.toIns, Block.shape, labelHeadOrNil]
    | jump l => simp [Term.toIns, Block.shape]
    | cond l c z => cases z <;> simp [Term.toIns, Block.shape]
    | halt => simp [Term.toIns, Block.shape]


theorem flatten_ne_nil (b : Block X L C) (hne : b.nonEmpty = true) : (b.flatten : List (Ins X L C)) ≠ [] := by
  obtain ⟨lab, instrs, off, term⟩ := b
  cases lab <;> cases instrs <;> cases term <;> simp_all [Block.flatten, Block.nonEmpty, Term.toIns]
  all_goals (rename_i z; cases z <;> simp [Term.toIns])

theorem flattenAll_labelHead (bs : List (Block X L C))
    (h : ∀ b ∈ bs.head?, b.label.isSome = true) : labelHeadOrNil (flattenAll bs) := by
  cases bs with
  | nil => simp [flattenAll, labelHeadOrNil]
  | cons b bs =>
    have hb : b.label.isSome = true := h b (by simp)
    cases hl : b.label with
    | none => simp [hl] at hb
    | some a => simp [flattenAll, Block.flatten, hl, labelHeadOrNil]

/-- Two well-formed block lists with the same written form have the same shapes. -/
theorem shapes_unique (bs bs' : List (Block X L C))
    (hne : bs.all Block.nonEmpty = true) (hne' : bs'.all Block.nonEmpty = true)
    (hc : continueOk bs = true) (hc' : continueOk bs' = true)
    (hf : flattenAll bs = flattenAll bs') :
    bs.map Block.shape = bs'.map Block.shape := by
  induction bs generalizing bs' with
  | nil =>
    cases bs' with
    | nil => rfl
    | cons b' bs' =>
      exfalso
      have hb' : b'.nonEmpty = true := by simp_all
      have : (b'.flatten : List (Ins X L C)) = [] := by
        have h2 : b'.flatten ++ flattenAll bs' = [] := by simpa [flattenAll] using hf.symm
        exact (List.append_eq_nil_iff.mp h2).1
      exact flatten_ne_nil b' hb' this
  | cons b bs ih =>
    cases bs' with
    | nil =>
      exfalso
      have hb : b.nonEmpty = true := by simp_all
      have : (b.flatten : List (Ins X L C)) = [] := by
        have h2 : b.flatten ++ flattenAll bs = [] := by simpa [flattenAll] using hf
        exact (List.append_eq_nil_iff.mp h2).1
      exact flatten_ne_nil b hb this
    | cons b' bs' =>
      have hb : b.nonEmpty = true := by simp_all
      have hb' : b'.nonEmpty = true := by simp_all
      have hr : (b.term.toIns (X := X)) = [] → labelHeadOrNil (flattenAll bs) := by
        intro ht
        apply flattenAll_labelHead
        intro b2 hb2
        cases bs with
        | nil => simp at hb2
        | cons c cs =>
          simp only [List.head?_cons, Option.mem_def, Option.some.injEq] at hb2
          subst hb2
          simp only [continueOk, Bool.and_eq_true, decide_eq_true_eq] at hc
          exact hc.1 (by simp [ht])
      have hr' : (b'.term.toIns (X := X)) = [] → labelHeadOrNil (flattenAll bs') := by
        intro ht
        apply flattenAll_labelHead
        intro b2 hb2
        cases bs' with
        | nil => simp at hb2
        | cons c cs =>
          simp only [List.head?_cons, Option.mem_def, Option.some.injEq] at hb2
          subst hb2
          simp only [continueOk, Bool.and_eq_true, decide_eq_true_eq] at hc'
          exact hc'.1 (by simp [ht])
      have e1 := readBlock_flatten b (flattenAll bs) hb hr
      have e2 := readBlock_flatten b' (flattenAll bs') hb' hr'
      have hf2 : b.flatten ++ flattenAll bs = b'.flatten ++ flattenAll bs' := by
        simpa [flattenAll] using hf
      rw [hf2, e2] at e1
      have hshape : b'.shape = b.shape := (Prod.mk.inj e1).1
      have hrest : flattenAll bs' = flattenAll bs := (Prod.mk.inj e1).2
      have hcT : continueOk bs = true := by
        cases bs with
        | nil => simp [continueOk]
        | cons c cs => simp only [continueOk, Bool.and_eq_true] at hc; exact hc.2
      have hcT' : continueOk bs' = true := by
        cases bs' with
        | nil => simp [continueOk]
        | cons c cs => simp only [continueOk, Bool.and_eq_true] at hc'; exact hc'.2
      have := ih bs' (by simp_all) (by simp_all) hcT hcT' hrest.symm
      simp [List.map_cons, hshape, this]

/-- With prefix-sum offsets, equal shapes mean equal block lists. -/
theorem eq_of_shapes_offsets (n : Nat) (bs bs' : List (Block X L C))
    (hs : bs.map Block.shape = bs'.map Block.shape)
    (ho : offsetsOk n bs = true) (ho' : offsetsOk n bs' = true) : bs = bs' := by
  induction bs generalizing n bs' with
  | nil => cases bs' <;> simp_all
  | cons b bs ih =>
    cases bs' with
    | nil => simp at hs
    | cons b' bs' =>
      simp only [List.map_cons, List.cons.injEq] at hs
      simp only [offsetsOk, Bool.and_eq_true, beq_iff_eq] at ho ho'
      have hbb : b = b' := by
        obtain ⟨l, i, o, t⟩ := b
        obtain ⟨l', i', o', t'⟩ := b'
        simp only [Block.shape, Prod.mk.injEq] at hs
        simp_all
      subst hbb
      rw [ih (n + b.flatten.length) bs' hs.2 ho.2 ho'.2]

/-- **C28 (the specification is complete)**: any block list satisfying the specification's
clauses for `body` is exactly the builder's output, and the reported flag is the builder's. -/
theorem C28_spec_unique [DecidableEq X] [DecidableEq L] [DecidableEq C]
    (body : List (Ins X L C)) (bs : List (Block X L C)) (dyn : Bool)
    (h : specCheck body bs dyn = true) : bs = build body ∧ dyn = hasDynamic (build body) := by
  simp only [specCheck, Bool.and_eq_true, decide_eq_true_eq, beq_iff_eq] at h
  obtain ⟨⟨⟨⟨hflat, hoff⟩, hne⟩, hcont⟩, hdyn⟩ := h
  refine ⟨?_, ?_⟩
  · apply eq_of_shapes_offsets 0 _ _ _ hoff (C28_offsets body)
    apply shapes_unique _ _ hne (C28_nonEmpty body) hcont (C28_maximal body)
    rw [hflat, C28_partition]
  · rw [hdyn, C28_dynamic]

end QV.C28
