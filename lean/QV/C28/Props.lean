import QV.C28.Lemmas
/-
C28 — The control-flow graph partitions the body and locates its blocks.
Property theorems only. All statements quantify over every body (any length) over any payload,
label and condition types.
-/
namespace QV.C28
variable {X L C : Type}

/-- The invariant holds for the state after the whole loop. -/
theorem inv_body (body : List (Ins X L C)) : Inv (body.foldl step St.init) body := by
  simpa using inv_foldl St.init [] body inv_init

/-- **C28 (partition)**: writing the blocks in order — label, instructions, terminator —
reproduces the body exactly, minus the instructions the builder ignores (INCLUDE, definitions). -/
theorem C28_partition (body : List (Ins X L C)) :
    flattenAll (build body) = body.filter (fun i => !i.isSkip) := by
  have h := inv_body body
  have hf := h.flat
  change _ = body.filter (fun i => !i.isSkip) at hf
  unfold build finish
  split
  · rw [flattenAll_append, flattenAll_single, closedBlock_flatten]
    simpa [Term.toIns] using hf
  · rename_i hc
    have hcur : (body.foldl step St.init).cur = [] := by
      simp only [Bool.or_eq_true, not_or, Bool.not_eq_true', Bool.not_eq_true] at hc
      simpa using hc.1
    have hlab : (body.foldl step St.init).curLabel = none := by
      simp only [Bool.or_eq_true, not_or, Bool.not_eq_true] at hc
      simpa using hc.2
    simpa [hcur, hlab, labelIns] using hf

/-- **C28 (offsets)**: each block's offset is the number of elements written by the blocks before
it, i.e. the position of its first element (its label if it has one) in the (filtered) body. -/
theorem C28_offsets (body : List (Ins X L C)) : offsetsOk 0 (build body) = true := by
  have h := inv_body body
  unfold build finish
  split
  · rw [offsetsOk_append]; simp [h.offs, h.off]
  · exact h.offs

/-- Prop reading of `offsetsOk`: block `k` starts where blocks `0..k-1` end. -/
theorem offsetsOk_spec (n : Nat) (bs : List (Block X L C)) (h : offsetsOk n bs = true)
    (k : Nat) (hk : k < bs.length) : bs[k].offset = n + (flattenAll (bs.take k)).length := by
  induction bs generalizing n k with
  | nil => simp at hk
  | cons b bs ih =>
    simp only [offsetsOk, Bool.and_eq_true, beq_iff_eq] at h
    cases k with
    | zero => simp [h.1, flattenAll]
    | succ k =>
      have := ih (n + b.flatten.length) h.2 k (by simpa using hk)
      simp only [List.getElem_cons_succ, List.take_succ_cons, flattenAll, List.flatMap_cons,
        List.length_append] at this ⊢
      omega

theorem flattenAll_drop_take (bs : List (Block X L C)) (k : Nat) (hk : k < bs.length) :
    ((flattenAll bs).drop (flattenAll (bs.take k)).length).take bs[k].flatten.length = bs[k].flatten := by
  induction bs generalizing k with
  | nil => simp at hk
  | cons b bs ih =>
    cases k with
    | zero => simp [flattenAll]
    | succ k =>
      have := ih k (by simpa using hk)
      simp only [flattenAll, List.take_succ_cons, List.flatMap_cons, List.length_append,
        List.getElem_cons_succ] at this ⊢
      rw [List.drop_append]
      simpa [List.drop_eq_nil_of_le] using this

/-- **C28 (offset-based indexing)**: dropping `offset` elements of the body lands exactly on the
block's own elements: offset-based indices find the block's instructions in the program. -/
theorem C28_offset_finds (body : List (Ins X L C)) (k : Nat) (hk : k < (build body).length) :
    ((body.filter (fun i => !i.isSkip)).drop ((build body)[k].offset)).take ((build body)[k].flatten.length)
      = (build body)[k].flatten := by
  have hoff := offsetsOk_spec 0 (build body) (C28_offsets body) k hk
  rw [← C28_partition body, hoff, Nat.zero_add]
  exact flattenAll_drop_take (build body) k hk

/-- **C28 (dynamic control flow)**: reported iff the body has a conditional jump. -/
theorem C28_dynamic (body : List (Ins X L C)) :
    hasDynamic (build body) = body.any Ins.isConditional := by
  have h := inv_body body
  unfold build finish
  split
  · rw [hasDynamic_append, h.dyn]; simp [Term.isDynamic]
  · exact h.dyn

/-- **C28 (no empty blocks)**. -/
theorem C28_nonEmpty (body : List (Ins X L C)) : (build body).all Block.nonEmpty = true := by
  have h := inv_body body
  unfold build finish
  split
  · rename_i hc
    simp only [List.all_append, h.nonEmpty, Bool.true_and, List.all_cons, List.all_nil, Bool.and_true,
      Block.nonEmpty]
    simp only [Bool.or_eq_true, Bool.not_eq_true'] at hc
    cases hc with
    | inl h1 => simp [h1]
    | inr h2 => simp [h2]
  · exact h.nonEmpty

/-- **C28 (blocks are maximal)**: a fall-through block is followed only by a labelled block, so
every block boundary is a label, a jump or a halt — terminators reflect exactly the body's
JUMP / JUMP-WHEN / JUMP-UNLESS / HALT (by `C28_partition`) or fall-through. -/
theorem C28_maximal (body : List (Ins X L C)) : continueOk (build body) = true := by
  have h := inv_body body
  unfold build finish
  split
  · exact continueOk_append _ _ h.cont (by simpa using h.contLast)
  · exact h.cont

/-- All clauses together, in the Bool form the driver evaluates on the implementation's output. -/
theorem C28_spec [DecidableEq X] [DecidableEq L] [DecidableEq C] (body : List (Ins X L C)) :
    specCheck body (build body) (hasDynamic (build body)) = true := by
  simp [specCheck, C28_partition, C28_offsets, C28_nonEmpty, C28_maximal, C28_dynamic]

/-- non-vacuity: the witness of the pre-fix defect (`X 0; LABEL @a; Y 0`): second block at offset 1 -/
example : (build [Ins.other 0, Ins.label "a", Ins.other 1] : List (Block Nat String String))
    = [⟨none, [0], 0, .continue⟩, ⟨some "a", [1], 1, .continue⟩] := by decide

example : (build [Ins.label "a", Ins.other 0, Ins.jumpWhen "a" "r", Ins.skip 9, Ins.halt, Ins.label "b"]
      : List (Block Nat String String))
    = [⟨some "a", [0], 0, .cond "a" "r" false⟩, ⟨none, [], 3, .halt⟩, ⟨some "b", [], 4, .continue⟩] := by
  decide

end QV.C28
