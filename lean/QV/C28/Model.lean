/-
C28 model: `impl From<&Program> for ControlFlowGraph`
(quil-rs/src/program/analysis/control_flow_graph.rs, the `for instruction in &value.instructions` loop).
Body instructions are projected to what the loop distinguishes.
-/
namespace QV.C28

/-- A body instruction as the CFG builder sees it. `X` = payload of an ordinary instruction,
`L` = label target, `C` = jump condition (memory reference). -/
inductive Ins (X L C : Type) where
  | other (x : X)              -- the 27 "ordinary" kinds: pushed to the current block
  | skip (x : X)               -- definitions / DECLARE / INCLUDE: ignored by the loop
  | label (l : L)
  | jump (l : L)
  | jumpWhen (l : L) (c : C)
  | jumpUnless (l : L) (c : C)
  | halt
  deriving DecidableEq, Repr

inductive Term (L C : Type) where
  | continue
  | jump (l : L)
  /-- `jump_if_condition_zero = zero` : JUMP-UNLESS ↔ `zero = true` -/
  | cond (l : L) (c : C) (zero : Bool)
  | halt
  deriving DecidableEq, Repr

structure Block (X L C : Type) where
  label : Option L
  instrs : List X
  offset : Nat
  term : Term L C
  deriving DecidableEq, Repr

/-- Loop state: finished blocks (in order), `current_label`, `current_block_instructions`,
`instruction_index_offset`. -/
structure St (X L C : Type) where
  blocks : List (Block X L C)
  curLabel : Option L
  cur : List X
  offset : Nat
  deriving Repr

variable {X L C : Type}

def St.init : St X L C := { blocks := [], curLabel := none, cur := [], offset := 0 }

/-- close the current block with terminator `t`; `termLen` = 1 if the terminator is an instruction -/
def St.close (s : St X L C) (t : Term L C) (termLen : Nat) : St X L C :=
  { blocks := s.blocks ++ [{ label := s.curLabel, instrs := s.cur, offset := s.offset, term := t }]
    curLabel := none
    cur := []
    offset := s.offset + s.cur.length + termLen + (if s.curLabel.isSome then 1 else 0) }

/-- One iteration of the `for` loop. -/
def step (s : St X L C) : Ins X L C → St X L C
  | .other x => { s with cur := s.cur ++ [x] }
  | .skip _ => s
  | .label l =>
    if !s.cur.isEmpty || s.curLabel.isSome then
      { (s.close .continue 0) with curLabel := some l }
    else { s with curLabel := some l }
  | .jump l => s.close (.jump l) 1
  | .jumpWhen l c => s.close (.cond l c false) 1
  | .jumpUnless l c => s.close (.cond l c true) 1
  | .halt => s.close .halt 1

/-- The code after the loop. -/
def finish (s : St X L C) : List (Block X L C) :=
  if !s.cur.isEmpty || s.curLabel.isSome then
    s.blocks ++ [{ label := s.curLabel, instrs := s.cur, offset := s.offset, term := .continue }]
  else s.blocks

def build (body : List (Ins X L C)) : List (Block X L C) := finish (body.foldl step St.init)

/-- `BasicBlockTerminator::is_dynamic` -/
def Term.isDynamic : Term L C → Bool
  | .cond _ _ _ => true
  | _ => false

/-- `ControlFlowGraph::has_dynamic_control_flow` -/
def hasDynamic (bs : List (Block X L C)) : Bool := bs.any fun b => b.term.isDynamic

/-! ### Specification side (independent of the loop) -/

/-- The terminator written back as an instruction (`BasicBlockTerminator::into_instruction`). -/
def Term.toIns : Term L C → List (Ins X L C)
  | .continue => []
  | .jump l => [.jump l]
  | .cond l c true => [.jumpUnless l c]
  | .cond l c false => [.jumpWhen l c]
  | .halt => [.halt]

/-- A block written out: its label, its instructions, its terminator. -/
def Block.flatten (b : Block X L C) : List (Ins X L C) :=
  (match b.label with | some l => [Ins.label l] | none => []) ++ b.instrs.map Ins.other ++ b.term.toIns

def flattenAll (bs : List (Block X L C)) : List (Ins X L C) := bs.flatMap Block.flatten

def Ins.isSkip : Ins X L C → Bool
  | .skip _ => true
  | _ => false

def Ins.isConditional : Ins X L C → Bool
  | .jumpWhen _ _ => true
  | .jumpUnless _ _ => true
  | _ => false

/-- Bool form of the offset clause: every block's offset is the number of elements written by
the blocks before it. -/
def offsetsOk : Nat → List (Block X L C) → Bool
  | _, [] => true
  | n, b :: bs => b.offset == n && offsetsOk (n + b.flatten.length) bs

/-- no block is empty: it has a label, an instruction, or a real terminator -/
def Block.nonEmpty (b : Block X L C) : Bool :=
  b.label.isSome || !b.instrs.isEmpty || !(b.term.toIns (X := X)).isEmpty

/-- a fall-through (`Continue`) block is followed only by a labelled block (blocks are maximal) -/
def continueOk : List (Block X L C) → Bool
  | [] => true
  | [_] => true
  | b :: b' :: bs =>
    ((b.term.toIns (X := X)).isEmpty → b'.label.isSome) && continueOk (b' :: bs)

/-- The whole C28 specification as a Bool checker over (body, blocks, reported dynamic flag). -/
def specCheck [DecidableEq X] [DecidableEq L] [DecidableEq C]
    (body : List (Ins X L C)) (bs : List (Block X L C)) (dyn : Bool) : Bool :=
  decide (flattenAll bs = body.filter (fun i => !i.isSkip))
  && offsetsOk 0 bs
  && bs.all Block.nonEmpty
  && continueOk bs
  && (dyn == body.any Ins.isConditional)

end QV.C28
