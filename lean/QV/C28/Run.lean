import QV.Wire
import QV.C28.Model
/-! Driver side of the C28 correspondence check. Payloads, labels, conditions are strings. -/
namespace QV.C28
open QV

abbrev I := Ins String String String
abbrev B := Block String String String

def decIns : Sexp → Option I
  | .list [.atom "o", .str x] => some (.other x)
  | .list [.atom "s", .str x] => some (.skip x)
  | .list [.atom "l", .str l] => some (.label l)
  | .list [.atom "j", .str l] => some (.jump l)
  | .list [.atom "jw", .str l, .str c] => some (.jumpWhen l c)
  | .list [.atom "ju", .str l, .str c] => some (.jumpUnless l c)
  | .list [.atom "h"] => some .halt
  | _ => none

def decTerm : Sexp → Option (Term String String)
  | .list [.atom "c"] => some .continue
  | .list [.atom "j", .str l] => some (.jump l)
  | .list [.atom "cond", .str l, .str c, .atom z] => some (.cond l c (z == "true"))
  | .list [.atom "h"] => some .halt
  | _ => none

def decBlock : Sexp → Option B
  | .list [.atom "b", lab, .list (.atom "instrs" :: xs), off, t] => do
    let label ← match lab with
      | .list [.atom "none"] => some none
      | .list [.atom "some", .str l] => some (some l)
      | _ => none
    let instrs ← xs.mapM Sexp.asStr?
    let offset ← off.asNat?
    let term ← decTerm t
    pure { label, instrs, offset, term }
  | _ => none

def decOut : Sexp → Option (Bool × List B)
  | .list [.atom "cfg", .list [.atom "dyn", .atom d], .list (.atom "blocks" :: bs)] => do
    let bs ← bs.mapM decBlock
    pure (d == "true", bs)
  | _ => none

def insTag : I → String
  | .other _ => "other" | .skip _ => "skip" | .label _ => "label" | .jump _ => "jump"
  | .jumpWhen _ _ => "jumpWhen" | .jumpUnless _ _ => "jumpUnless" | .halt => "halt"

def handle (inp out : Sexp) : CaseResult :=
  match inp with
  | .list (.atom "body" :: xs) =>
    match xs.mapM decIns, decOut out with
    | some body, some (dyn, bs) =>
      let m := build body
      let mdyn := hasDynamic m
      let agree := decide (m = bs) && mdyn == dyn
      let specOk := specCheck body bs dyn
      -- non-trivial: at least two blocks, i.e. the partition is exercised
      let nontrivial := m.length ≥ 2
      let kinds := (body.map insTag).eraseDups
      { agree, specOk, nontrivial,
        tags := [s!"len{min body.length 9}", s!"blocks{min m.length 6}"] ++ kinds
          ++ (if mdyn then ["dynamic"] else [])
          ++ (if m.any (fun b => b.label.isSome && b.instrs.isEmpty) then ["label-only-block"] else []),
        detail := s!"model dyn={mdyn} blocks={repr m}" }
    | _, _ => .bad s!"undecodable case {inp} {out}"
  | _ => .bad s!"undecodable input {inp}"

end QV.C28

def main : IO UInt32 := QV.runMain QV.C28.handle
