import QV.Wire
import QV.C28.Model
/-! Driver side of the C28 correspondence check. Payloads, labels, conditions are strings. -/
namespace QV.C28
open QV

abbrev I := Ins String String String
abbrev B := Block String String String

def decIns : Sexp → Option I
  | .list [.atom "o", .str x] => some (.other x)
  | .list [.atom "s", .str x] => some (.skip x)
  | .list [.atom "l", .str l] => some (.label l)
  | .list [.atom "j", .str l] => some (.jump l)
  | .list [.atom "jw", .str l, .str c] => some (.jumpWhen l c)
  | .list [.atom "ju", .str l, .str c] => some (.jumpUnless l c)
  | .list [.atom "h"] => some .halt
  | _ => none

def decTerm : Sexp → Option (Term String String)
  | .list [.atom "c"] => some .continue
  | .list [.atom "j", .str l] => some (.jump l)
  | .list [.atom "cond", .str l, .str c, .atom z] => some (.cond l c (z == "true"))
  | .list [.atom "h"] => some .halt
  | _ => none

def decBlock : Sexp → Option B
  | .list [.atom "b", lab, .list (.atom "instrs" :: xs), off, t] => do
    let label ← match lab with
      | .list [.atom "none"] => some none
      | .list [.atom "some", .str l] => some (some l)
      | _ => none
    let instrs ← xs.mapM Sexp.asStr?
    let offset ← off.asNat?
    let term ← decTerm t
    pure { label, instrs, offset, term }
  | _ => none

/-- sibling observations: owned round trip, `BasicBlock::try_from`, offset indexing through
`Program::get_instruction`, terminator written back, second computation, other build route -/
structure Sib where
  owned : String
  single : String
  index : String
  term : String
  again : String
  route : String

def decOut : Sexp → Option (Bool × List B × Sib)
  | .list [.atom "cfg", .list [.atom "dyn", .atom d], .list (.atom "blocks" :: bs),
      .list [.atom "sib", .atom o, .atom sg, .atom ix, .atom tm, .atom ag], .atom rt] => do
    let bs ← bs.mapM decBlock
    pure (d == "true", bs, { owned := o, single := sg, index := ix, term := tm, again := ag, route := rt })
  | _ => none

/-- What the sibling observations must be, given the model's blocks. -/
def sibOk (body : List I) (m : List B) (s : Sib) : Bool :=
  s.owned == "owned-same" && s.again == "again-same" && s.route == "route-same"
  && s.single == (if m.length == 1 then "ok-same" else "err")
  && (if body.any Ins.isSkip then s.index == "index-na" else s.index == "index-ok")
  && s.term == "term-ok"

def insTag : I → String
  | .other _ => "other" | .skip _ => "skip" | .label _ => "label" | .jump _ => "jump"
  | .jumpWhen _ _ => "jumpWhen" | .jumpUnless _ _ => "jumpUnless" | .halt => "halt"

def handle (inp out : Sexp) : CaseResult :=
  match inp with
  | .list (.atom "body" :: xs) =>
    match xs.mapM decIns, decOut out with
    | some body, some (dyn, bs, sib) =>
      let m := build body
      let mdyn := hasDynamic m
      let agree := decide (m = bs) && mdyn == dyn
      -- the spec on the implementation's blocks, and every sibling entry point consistent with it
      let specOk := specCheck body bs dyn && sibOk body m sib
      -- non-trivial: at least two blocks, i.e. the partition is exercised
      let nontrivial := m.length ≥ 2
      let kinds := (body.map insTag).eraseDups
      { agree, specOk, nontrivial,
        tags := [s!"len{min body.length 9}", s!"blocks{min m.length 6}"] ++ kinds
          ++ (if mdyn then ["dynamic"] else [])
          ++ (if m.any (fun b => b.label.isSome && b.instrs.isEmpty) then ["label-only-block"] else []),
        detail := s!"model dyn={mdyn} blocks={repr m} sib={sib.owned},{sib.single},{sib.index},{sib.term},{sib.again},{sib.route}" }
    | _, _ => .bad s!"undecodable case {inp} {out}"
  | _ => .bad s!"undecodable input {inp}"

end QV.C28

def main : IO UInt32 := QV.runMain QV.C28.handle
