import QV.Wire
import QV.C11.Model
import QV.C11.Spec
/-! Driver side of the C11 correspondence check. -/
namespace QV.C11
open QV

def decAssoc (tag : String) : Sexp → Option Assoc
  | .list (.atom t :: es) =>
    if t == tag then es.mapM fun
      | .list [.str k, .str v] => some (k, v)
      | _ => none
    else none
  | _ => none

def decStrs (tag : String) : Sexp → Option (List String)
  | .list (.atom t :: es) => if t == tag then es.mapM Sexp.asStr? else none
  | _ => none

def decProgram : Sexp → Option Program
  | .list [.atom "prog", c, m, e, f, r, w, g, ci, b, u] => do
      some { calibrations := ← decAssoc "cal" c, measureCalibrations := ← decAssoc "mcal" m,
             externs := ← decAssoc "ext" e, frames := ← decAssoc "frames" f,
             regions := ← decAssoc "regions" r, waveforms := ← decAssoc "wf" w,
             gateDefs := ← decAssoc "gates" g, circuits := ← decAssoc "circ" ci,
             body := ← decStrs "body" b, usedQubits := ← decStrs "used" u }
  | _ => none

def sortAssoc (a : Assoc) : Assoc := a.mergeSort (fun x y => decide (x.1 ≤ y.1))
def sortStrs (a : List String) : List String := a.mergeSort (fun x y => decide (x ≤ y))

/-- canonical form: the HashMap / HashSet parts sorted (the harness sorts them too) -/
def canon (p : Program) : Program :=
  { p with frames := sortAssoc p.frames, usedQubits := sortStrs p.usedQubits }

def overlap (a b : Assoc) : Nat := ((keys b).filter (fun k => (keys a).contains k)).length

def handle (inp out : Sexp) : CaseResult :=
  match inp with
  | .list [.atom "add", as, bs] =>
    match decProgram as, decProgram bs with
    | some a, some b =>
      match out with
      | .list [.atom "out", os, oacc, .list [.atom "eq", .atom eq], .list [.atom "getters", .atom gt]] =>
        match decProgram os, decProgram oacc with
        | some o, some o' =>
          let m := canon (add a b)
          let agree := m == o && m == o' && eq == "true" && gt == "true"
          let wf := wfB a && wfB b
          let spec := concatB a b o && concatB a b o' && wfB o
          -- identities
          let idOk := (if b == Program.empty then o == a else true) &&
                      (if a == Program.empty then o == b else true)
          let ov := overlap a.calibrations b.calibrations + overlap a.measureCalibrations b.measureCalibrations +
            overlap a.externs b.externs + overlap a.frames b.frames + overlap a.regions b.regions +
            overlap a.waveforms b.waveforms + overlap a.gateDefs b.gateDefs + overlap a.circuits b.circuits
          let kinds (p : Program) : Nat :=
            [p.calibrations, p.measureCalibrations, p.externs, p.frames, p.regions, p.waveforms, p.gateDefs,
             p.circuits].countP (fun l => !l.isEmpty)
          let tags := [s!"overlap{min ov 6}", s!"kindsA{kinds a}", s!"kindsB{kinds b}",
              s!"bodyA{min a.body.length 6}", s!"bodyB{min b.body.length 6}",
              (if a == Program.empty then "A-empty" else "A-nonempty"),
              (if b == Program.empty then "B-empty" else "B-nonempty"),
              (if overlap a.frames b.frames > 0 then "frame-overlap" else "no-frame-overlap"),
              (if overlap a.calibrations b.calibrations > 0 then "cal-overlap" else "no-cal-overlap"),
              (if overlap a.externs b.externs > 0 then "extern-overlap" else "no-extern-overlap"),
              (if (keys b.externs).contains "none" then "B-nameless-extern" else "B-no-nameless-extern"),
              (if a == Program.empty && (keys b.externs).contains "none" then "empty+nameless-extern" else "-")]
            ++ (if !wf then ["INPUT-NOT-WF"] else [])
            ++ (if eq != "true" then ["ADD-NE-ADDASSIGN"] else [])
            ++ (if gt != "true" then ["GETTERS-DISAGREE"] else [])
            ++ (if !idOk then ["IDENTITY-FAIL"] else [])
          { agree := agree, specOk := wf && spec && idOk && eq == "true" && gt == "true",
            nontrivial := !(a == Program.empty) && !(b == Program.empty),
            tags := tags, detail := s!"model={repr m} impl={out}" }
        | _, _ => .bad s!"undecodable output {out}"
      | .list [.atom "crash", .str msg] =>
        { agree := false, specOk := false, nontrivial := true, tags := ["crash"], detail := msg }
      | _ => .bad s!"undecodable output {out}"
    | _, _ => .bad s!"undecodable input {inp}"
  | _ => .bad s!"undecodable input {inp}"

end QV.C11

def main : IO UInt32 := QV.runMain QV.C11.handle
