import QV.Wire
import QV.C11.Model
import QV.C11.Spec
/-! Driver side of the C11 correspondence check. -/
namespace QV.C11
open QV

def decAssoc (tag : String) : Sexp → Option Assoc
  | .list (.atom t :: es) =>
    if t == tag then es.mapM fun
      | .list [.str k, .str v] => some (k, v)
      | _ => none
    else none
  | _ => none

def decStrs (tag : String) : Sexp → Option (List String)
  | .list (.atom t :: es) => if t == tag then es.mapM Sexp.asStr? else none
  | _ => none

def decProgram : Sexp → Option Program
  | .list [.atom "prog", c, m, e, f, r, w, g, ci, b, u] => do
      some { calibrations := ← decAssoc "cal" c, measureCalibrations := ← decAssoc "mcal" m,
             externs := ← decAssoc "ext" e, frames := ← decAssoc "frames" f,
             regions := ← decAssoc "regions" r, waveforms := ← decAssoc "wf" w,
             gateDefs := ← decAssoc "gates" g, circuits := ← decAssoc "circ" ci,
             body := ← decStrs "body" b, usedQubits := ← decStrs "used" u }
  | _ => none

def sortAssoc (a : Assoc) : Assoc := a.mergeSort (fun x y => decide (x.1 ≤ y.1))
def sortStrs (a : List String) : List String := a.mergeSort (fun x y => decide (x ≤ y))

/-- canonical form: the HashMap / HashSet parts sorted (the harness sorts them too) -/
def canon (p : Program) : Program :=
  { p with frames := sortAssoc p.frames, usedQubits := sortStrs p.usedQubits }

def overlap (a b : Assoc) : Nat := ((keys b).filter (fun k => (keys a).contains k)).length

def handle3 (inp out : Sexp) : CaseResult :=
  match inp with
  | .list [.atom "add3", as, bs, cs] =>
    match decProgram as, decProgram bs, decProgram cs with
    | some a, some b, some c =>
      match out with
      | .list [.atom "out3", abs, bcs, ls, rs, .list [.atom "eq", .atom eq]] =>
        match decProgram abs, decProgram bcs, decProgram ls, decProgram rs with
        | some ab, some bc, some l, some r =>
          let mab := canon (add a b)
          let mbc := canon (add b c)
          let ml := canon (add (add a b) c)
          let mr := canon (add a (add b c))
          let agree := mab == ab && mbc == bc && ml == l && mr == r
          let wf := wfB a && wfB b && wfB c
          let spec := concatB a b ab && concatB ab c l && concatB b c bc && concatB a bc r && l == r && eq == "true"
          { agree := agree, specOk := wf && spec,
            nontrivial := !(a == Program.empty) && !(b == Program.empty) && !(c == Program.empty),
            tags := ["add3", (if a == c then "A=C" else "A-ne-C")] ++ (if l != r then ["NOT-ASSOCIATIVE"] else [])
              ++ (if !wf then ["INPUT-NOT-WF"] else []),
            detail := s!"model-left={repr ml} model-right={repr mr} impl={out}" }
        | _, _, _, _ => .bad s!"undecodable output {out}"
      | .list [.atom "crash", .str msg] =>
        { agree := false, specOk := false, nontrivial := true, tags := ["crash"], detail := msg }
      | _ => .bad s!"undecodable output {out}"
    | _, _, _ => .bad s!"undecodable input {inp}"
  | _ => .bad s!"undecodable input {inp}"

def handle (inp out : Sexp) : CaseResult :=
  match inp with
  | .list (.atom "add3" :: _) => handle3 inp out
  | .list [.atom "add", as, bs, .list [.atom "caches", .atom ca, .atom cb]] =>
    match decProgram as, decProgram bs with
    | some a, some b =>
      match out with
      | .list [.atom "out", os, oacc, .list [.atom "eq", .atom eq], .list [.atom "getters", .atom gt], ovia,
          .list [.atom "ident", .atom i1, .atom i2, .atom i3, .atom i4]] =>
        match decProgram os, decProgram oacc, decProgram ovia with
        | some o, some o', some ov =>
          let m := canon (add a b)
          -- the add_instructions(listing of B) route must give the same containers and body; its used-qubit
          -- cache is rebuilt from B's listing, so it may be smaller than A.used ∪ B.used when B's cache is
          -- stale (known finding C10/redefined-calibration-leaves-stale-qubits): compared as ⊆ and tagged
          -- (its used set is RE-DERIVED from B's listing and so differs from A.used ∪ B.used whenever B's cache is
          -- inexact — the known C10 findings; `+`/`+=` themselves must give the union of the REPORTED sets)
          let viaSame := { ov with usedQubits := [] } == { m with usedQubits := [] }
          let identOk := i1 == "true" && i2 == "true" && i3 == "true" && i4 == "true"
          let viaUsedSame := ov.usedQubits == m.usedQubits
          let agree := m == o && m == o' && eq == "true" && gt == "true" && viaSame && identOk
          let wf := wfB a && wfB b
          let spec := concatB a b o && concatB a b o' && wfB o
          -- identities
          let idOk := (if b == Program.empty then o == a else true) &&
                      (if a == Program.empty then o == b else true)
          let ov := overlap a.calibrations b.calibrations + overlap a.measureCalibrations b.measureCalibrations +
            overlap a.externs b.externs + overlap a.frames b.frames + overlap a.regions b.regions +
            overlap a.waveforms b.waveforms + overlap a.gateDefs b.gateDefs + overlap a.circuits b.circuits
          let kinds (p : Program) : Nat :=
            [p.calibrations, p.measureCalibrations, p.externs, p.frames, p.regions, p.waveforms, p.gateDefs,
             p.circuits].countP (fun l => !l.isEmpty)
          let tags := [s!"overlap{min ov 6}", s!"kindsA{kinds a}", s!"kindsB{kinds b}",
              s!"bodyA{min a.body.length 6}", s!"bodyB{min b.body.length 6}",
              (if a == Program.empty then "A-empty" else "A-nonempty"),
              (if b == Program.empty then "B-empty" else "B-nonempty"),
              (if overlap a.frames b.frames > 0 then "frame-overlap" else "no-frame-overlap"),
              (if overlap a.calibrations b.calibrations > 0 then "cal-overlap" else "no-cal-overlap"),
              (if overlap a.externs b.externs > 0 then "extern-overlap" else "no-extern-overlap"),
              (if (keys b.externs).contains "none" then "B-nameless-extern" else "B-no-nameless-extern"),
              (if a == Program.empty && (keys b.externs).contains "none" then "empty+nameless-extern" else "-")]
            ++ (if !wf then ["INPUT-NOT-WF"] else [])
            ++ (if eq != "true" then ["ADD-NE-ADDASSIGN"] else [])
            ++ (if gt != "true" then ["GETTERS-DISAGREE"] else [])
            ++ (if !idOk then ["IDENTITY-FAIL"] else [])
            ++ (if !viaSame then ["ADD-INSTRUCTIONS-ROUTE-DIFFERS"] else [])
            ++ (if !viaUsedSame then ["via-route-used-differs(C10-known)"] else [])
            ++ (if !identOk then ["IDENTITY-UNDER-EQ-FAIL"] else [])
            ++ [s!"cacheA-{ca}", s!"cacheB-{cb}"]
          { agree := agree, specOk := wf && spec && idOk && eq == "true" && gt == "true" && viaSame && identOk,
            nontrivial := !(a == Program.empty) && !(b == Program.empty),
            tags := tags, detail := s!"model={repr m} impl={out}" }
        | _, _, _ => .bad s!"undecodable output {out}"
      | .list [.atom "crash", .str msg] =>
        { agree := false, specOk := false, nontrivial := true, tags := ["crash"], detail := msg }
      | _ => .bad s!"undecodable output {out}"
    | _, _ => .bad s!"undecodable input {inp}"
  | _ => .bad s!"undecodable input {inp}"

end QV.C11

def main : IO UInt32 := QV.runMain QV.C11.handle
