import QV.C11.Spec
/-
C11 — Program concatenation appends bodies and merges definitions.

Statement (properties.jsonl): "For all programs A and B, the body of A+B (and of A+=B) is A's body
followed by B's. Each definition keyed in both takes B's value and every other definition is kept,
and the used-qubit set is the union. Concatenation with an empty program is an identity."

All theorems are for arbitrary programs (any number of definitions of every kind); the only
hypothesis is the container invariant `WF` (no key twice), which `add` provably preserves and which
the harness measures on every generated program.
-/
namespace QV.C11

/-! ### one insertion -/

theorem lookup_insert (k v k' : String) (l : Assoc) :
    lookup k' (insert k v l) = if k = k' then some v else lookup k' l := by
  induction l with
  | nil => simp [insert, lookup]
  | cons x xs ih =>
    obtain ⟨kx, vx⟩ := x
    by_cases h : kx = k
    · subst h
      by_cases h' : kx = k' <;> simp [insert, lookup, h']
    · by_cases h' : kx = k'
      · subst h'; simp [insert, lookup, h]; intro hk; exact absurd hk.symm h
      · simp [insert, lookup, h, h', ih]

theorem keys_insert (k v : String) (l : Assoc) :
    keys (insert k v l) = if (keys l).contains k then keys l else keys l ++ [k] := by
  induction l with
  | nil => simp [insert, keys]
  | cons x xs ih =>
    obtain ⟨kx, vx⟩ := x
    by_cases h : kx = k
    · subst h; simp [insert, keys]
    · have hne : (k == kx) = false := by simp; exact fun e => h e.symm
      have e1 : insert k v ((kx, vx) :: xs) = (kx, vx) :: insert k v xs := by simp [insert, h]
      have kc : ∀ (x : String × String) (l : Assoc), keys (x :: l) = x.1 :: keys l := fun _ _ => rfl
      have e2 : ((kx, vx).fst :: keys xs).contains k = (keys xs).contains k := by
        rw [List.contains_cons, hne, Bool.false_or]
      rw [e1, kc, kc, ih, e2]
      by_cases hc : (keys xs).contains k = true
      · rw [if_pos hc, if_pos hc]
      · rw [if_neg hc, if_neg hc]; rfl

theorem lookup_none_iff (k : String) (l : Assoc) : lookup k l = none ↔ k ∉ keys l := by
  induction l with
  | nil => simp [lookup, keys]
  | cons x xs ih =>
    obtain ⟨kx, vx⟩ := x
    by_cases h : kx = k
    · subst h; simp [lookup, keys]
    · have hne : ¬ k = kx := fun e => h e.symm
      simp only [keys] at ih
      simp [lookup, keys, h, hne, ih]

/-! ### extend -/

private theorem extend_cons (a : Assoc) (kv : String × String) (b : Assoc) :
    extend a (kv :: b) = extend (insert kv.1 kv.2 a) b := rfl

/-- lookups after `extend`: the LAST entry of `b` for the key, else `a`'s (no hypothesis) -/
theorem lookup_extend (k : String) : ∀ (b a : Assoc),
    lookup k (extend a b) = match lookup k b.reverse with | some v => some v | none => lookup k a := by
  intro b
  induction b with
  | nil => intro a; simp [extend, lookup]
  | cons x xs ih =>
    intro a
    obtain ⟨kx, vx⟩ := x
    rw [extend_cons, ih]
    have hrev : lookup k (xs.reverse ++ [(kx, vx)]) =
        match lookup k xs.reverse with | some v => some v | none => (if kx = k then some vx else none) := by
      generalize xs.reverse = r
      induction r with
      | nil => simp [lookup]
      | cons y ys ihr =>
        obtain ⟨ky, vy⟩ := y
        by_cases hy : ky = k <;> simp [lookup, hy, ihr]
    simp only [List.reverse_cons, hrev, lookup_insert]
    cases lookup k xs.reverse with
    | some v => rfl
    | none => by_cases h : kx = k <;> simp [h]

private theorem lookup_reverse_of_nodup (k : String) : ∀ (b : Assoc), (keys b).Nodup →
    lookup k b.reverse = lookup k b := by
  intro b
  induction b with
  | nil => simp
  | cons x xs ih =>
    intro hnd
    obtain ⟨kx, vx⟩ := x
    simp only [keys, List.map_cons, List.nodup_cons] at hnd
    have ih' := ih (by simpa [keys] using hnd.2)
    have happ : ∀ (r : Assoc), lookup k (r ++ [(kx, vx)]) =
        match lookup k r with | some v => some v | none => (if kx = k then some vx else none) := by
      intro r
      induction r with
      | nil => simp [lookup]
      | cons y ys ihr =>
        obtain ⟨ky, vy⟩ := y
        by_cases hy : ky = k <;> simp [lookup, hy, ihr]
    rw [List.reverse_cons, happ, ih']
    by_cases h : kx = k
    · subst h
      have : lookup kx xs = none := (lookup_none_iff _ _).mpr (by simpa [keys] using hnd.1)
      simp [lookup, this]
    · simp [lookup, h]
      cases lookup k xs <;> rfl

/-- **Values**: each definition keyed in both takes B's value, every other definition is kept. -/
theorem extend_values (a b : Assoc) (hb : (keys b).Nodup) (k : String) :
    lookup k (extend a b) = pick k a b := by
  rw [lookup_extend, lookup_reverse_of_nodup k b hb]; rfl

/-- **Key order**: A's keys in A's order, then B's new keys in B's order. -/
theorem extend_keys : ∀ (b a : Assoc), (keys b).Nodup →
    keys (extend a b) = keys a ++ (keys b).filter (fun k => !(keys a).contains k) := by
  intro b
  induction b with
  | nil => intro a _; simp [extend, keys]
  | cons x xs ih =>
    intro a hnd
    obtain ⟨kx, vx⟩ := x
    simp only [keys, List.map_cons, List.nodup_cons] at hnd
    rw [extend_cons, ih _ (by simpa [keys] using hnd.2), keys_insert]
    have hk : keys ((kx, vx) :: xs) = kx :: keys xs := rfl
    rw [hk, List.filter_cons]
    by_cases hc : (keys a).contains kx = true
    · have hm : kx ∈ keys a := by simpa using hc
      rw [if_pos hc]; simp [hm]
    · rw [if_neg hc]
      simp only [hc, Bool.not_false, if_true, Bool.false_eq_true, if_false, List.append_assoc,
        List.cons_append, List.nil_append]
      congr 2
      apply List.filter_congr
      intro y hy
      have hne : y ≠ kx := fun e => hnd.1 (by rw [← e]; exact hy)
      simp [hne]

theorem nodup_insert (k v : String) (l : Assoc) (h : (keys l).Nodup) : (keys (insert k v l)).Nodup := by
  rw [keys_insert]
  split
  · exact h
  · rename_i hc
    have hc' : k ∉ keys l := by simpa using hc
    refine List.nodup_append.mpr ⟨h, by simp, ?_⟩
    intro x hx y hy
    simp at hy; subst hy
    intro e; subst e; exact hc' hx

theorem nodup_extend : ∀ (b a : Assoc), (keys a).Nodup → (keys (extend a b)).Nodup := by
  intro b
  induction b with
  | nil => intro a h; simpa [extend] using h
  | cons x xs ih => intro a h; rw [extend_cons]; exact ih _ (nodup_insert _ _ _ h)

theorem extend_merged (a b : Assoc) (hb : (keys b).Nodup) : Merged a b (extend a b) :=
  ⟨extend_values a b hb, extend_keys b a hb⟩

theorem extend_mergedSet (a b : Assoc) (ha : (keys a).Nodup) (hb : (keys b).Nodup) :
    MergedSet a b (extend a b) :=
  ⟨extend_values a b hb, nodup_extend b a ha⟩

/-! ### used qubits -/

theorem mem_unionSet (q : String) : ∀ (b a : List String), q ∈ unionSet a b ↔ q ∈ a ∨ q ∈ b := by
  intro b
  induction b with
  | nil => intro a; simp [unionSet]
  | cons x xs ih =>
    intro a
    simp only [unionSet, List.foldl_cons] at ih ⊢
    by_cases hc : a.contains x = true
    · simp only [hc, if_true, ih, List.mem_cons]
      have : x ∈ a := by simpa using hc
      grind
    · simp only [hc, ih, List.mem_append, List.mem_cons, List.mem_singleton]
      simp only [Bool.false_eq_true, if_false, List.mem_append, List.mem_singleton]
      grind

/-! ### the program -/

/-- **C11, main theorem**: for all programs A and B (with the container invariant), A + B has
A's body followed by B's; in every definition container each key of both takes B's value, every
other definition is kept, the key order is A's keys then B's new keys (frames: as a map, no
duplicates); the used-qubit set is the union. -/
theorem C11_concat (a b : Program) (ha : WF a) (hb : WF b) : Concat a b (add a b) := by
  obtain ⟨a1, a2, a3, a4, a5, a6, a7, a8⟩ := ha
  obtain ⟨b1, b2, b3, b4, b5, b6, b7, b8⟩ := hb
  exact {
    body := rfl
    calibrations := extend_merged _ _ b1
    measureCalibrations := extend_merged _ _ b2
    externs := extend_merged _ _ b3
    regions := extend_merged _ _ b5
    waveforms := extend_merged _ _ b6
    gateDefs := extend_merged _ _ b7
    circuits := extend_merged _ _ b8
    frames := extend_mergedSet _ _ a4 b4
    usedQubits := fun q => mem_unionSet q _ _ }

/-- the container invariant is preserved, so the theorem applies to iterated concatenations -/
theorem C11_wf (a b : Program) (ha : WF a) : WF (add a b) := by
  obtain ⟨a1, a2, a3, a4, a5, a6, a7, a8⟩ := ha
  exact ⟨nodup_extend _ _ a1, nodup_extend _ _ a2, nodup_extend _ _ a3, nodup_extend _ _ a4,
    nodup_extend _ _ a5, nodup_extend _ _ a6, nodup_extend _ _ a7, nodup_extend _ _ a8⟩

/-- `A + B` and `A += B` coincide (mod.rs:1159-1162: `self += rhs; self`). -/
theorem C11_add_eq_addAssign (a b : Program) : add a b = addAssign a b := rfl

/-- keyed in both ⇒ B's value -/
theorem C11_takes_b (a b : Assoc) (hb : (keys b).Nodup) (k v : String) (h : lookup k b = some v) :
    lookup k (extend a b) = some v := by
  rw [extend_values a b hb, pick, h]

/-- not keyed in B ⇒ kept from A -/
theorem C11_keeps_a (a b : Assoc) (hb : (keys b).Nodup) (k : String) (h : k ∉ keys b) :
    lookup k (extend a b) = lookup k a := by
  rw [extend_values a b hb, pick, (lookup_none_iff k b).mpr h]

/-- **Right identity**: A + ∅ = A, exactly (no hypothesis). -/
theorem C11_add_empty (a : Program) : add a Program.empty = a := by
  cases a; simp [add, addAssign, Program.empty, extend, unionSet]

private theorem extend_nil_left : ∀ (b : Assoc), (keys b).Nodup → extend [] b = b := by
  -- generalised: extend a b = a ++ b when b's keys are fresh for a and distinct
  have gen : ∀ (b a : Assoc), (keys b).Nodup → (∀ k ∈ keys b, k ∉ keys a) → extend a b = a ++ b := by
    intro b
    induction b with
    | nil => intro a _ _; simp [extend]
    | cons x xs ih =>
      intro a hnd hfresh
      obtain ⟨kx, vx⟩ := x
      simp only [keys, List.map_cons, List.nodup_cons] at hnd
      have hins : insert kx vx a = a ++ [(kx, vx)] := by
        have hk : kx ∉ keys a := hfresh kx (by simp [keys])
        clear ih hfresh hnd
        induction a with
        | nil => simp [insert]
        | cons y ys iha =>
          obtain ⟨ky, vy⟩ := y
          simp only [keys, List.map_cons, List.mem_cons, not_or] at hk
          have : ky ≠ kx := fun e => hk.1 e.symm
          simp [insert, this, iha (by simpa [keys] using hk.2)]
      rw [extend_cons, hins, ih _ (by simpa [keys] using hnd.2)]
      · simp
      · intro k hk hka
        simp only [keys, List.map_append, List.map_cons, List.map_nil, List.mem_append,
          List.mem_singleton] at hka
        rcases hka with hka | rfl
        · exact hfresh k (by simp [keys]; exact Or.inr (by simpa [keys] using hk)) hka
        · exact hnd.1 (by simpa [keys] using hk)
  intro b hb
  simpa using gen b [] hb (by simp [keys])

private theorem unionSet_nil_left : ∀ (b : List String), b.Nodup → unionSet [] b = b := by
  have gen : ∀ (b a : List String), b.Nodup → (∀ x ∈ b, x ∉ a) → unionSet a b = a ++ b := by
    intro b
    induction b with
    | nil => intro a _ _; simp [unionSet]
    | cons x xs ih =>
      intro a hnd hfresh
      simp only [List.nodup_cons] at hnd
      have hx : a.contains x = false := by simpa using hfresh x (by simp)
      simp only [unionSet, List.foldl_cons, hx] at ih ⊢
      simp only [Bool.false_eq_true, if_false]
      rw [ih _ hnd.2]
      · simp
      · intro y hy hya
        simp only [List.mem_append, List.mem_singleton] at hya
        rcases hya with hya | rfl
        · exact hfresh y (by simp [hy]) hya
        · exact hnd.1 hy
  intro b hb
  simpa using gen b [] hb (by simp)

/-- **Left identity**: ∅ + A = A, exactly (frames too, in the model's order), for every program
satisfying the container invariant. -/
theorem C11_empty_add (a : Program) (ha : WF a) (hu : a.usedQubits.Nodup) : add Program.empty a = a := by
  obtain ⟨a1, a2, a3, a4, a5, a6, a7, a8⟩ := ha
  cases a
  simp only [add, addAssign, Program.empty, List.nil_append] at *
  simp [extend_nil_left _ a1, extend_nil_left _ a2, extend_nil_left _ a3, extend_nil_left _ a4,
    extend_nil_left _ a5, extend_nil_left _ a6, extend_nil_left _ a7, extend_nil_left _ a8,
    unionSet_nil_left _ hu]

/-! ### Associativity: (A + B) + C and A + (B + C) -/

/-- two duplicate-free association lists with the same key sequence and the same lookups are equal -/
theorem assoc_ext : ∀ (l1 l2 : Assoc), (keys l1).Nodup → keys l1 = keys l2 →
    (∀ k, lookup k l1 = lookup k l2) → l1 = l2 := by
  intro l1
  induction l1 with
  | nil => intro l2 _ hk _; cases l2 with | nil => rfl | cons y ys => simp [keys] at hk
  | cons x xs ih =>
    intro l2 hnd hk hv
    cases l2 with
    | nil => simp [keys] at hk
    | cons y ys =>
      obtain ⟨kx, vx⟩ := x
      obtain ⟨ky, vy⟩ := y
      simp only [keys, List.map_cons, List.cons.injEq] at hk
      obtain ⟨hk1, hk2⟩ := hk
      subst hk1
      simp only [keys, List.map_cons, List.nodup_cons] at hnd
      have hvx : vx = vy := by
        have := hv kx
        simpa [lookup] using this
      subst hvx
      have htail : xs = ys := by
        apply ih ys (by simpa [keys] using hnd.2) (by simpa [keys] using hk2)
        intro j
        by_cases hj : kx = j
        · subst hj
          rw [(lookup_none_iff kx xs).mpr (by simpa [keys] using hnd.1),
            (lookup_none_iff kx ys).mpr (by rw [show keys ys = List.map Prod.fst ys from rfl, ← hk2]; exact hnd.1)]
        · have := hv j
          simpa [lookup, hj] using this
      rw [htail]

theorem extend_assoc (a b c : Assoc) (ha : (keys a).Nodup) (hb : (keys b).Nodup) (hc : (keys c).Nodup) :
    extend (extend a b) c = extend a (extend b c) := by
  have hbc := nodup_extend c b hb
  apply assoc_ext _ _ (nodup_extend c _ (nodup_extend b a ha))
  · rw [extend_keys c _ hc, extend_keys b a hb, extend_keys _ a hbc, extend_keys c b hc]
    simp only [List.filter_append, List.append_assoc, List.filter_filter]
    congr 2
    apply List.filter_congr
    intro x _
    by_cases h1 : x ∈ keys a <;> by_cases h2 : x ∈ keys b <;> simp [h1, h2]
  · intro k
    rw [extend_values _ c hc, extend_values a _ hbc]
    simp only [pick]
    rw [extend_values a b hb, extend_values b c hc]
    simp only [pick]
    cases lookup k c <;> cases lookup k b <;> rfl

/-- **Associativity**: for programs with the container invariant, (A + B) + C and A + (B + C) have
identical containers (same values, same key order) and body, and the same used-qubit set. -/
theorem C11_assoc (a b c : Program) (ha : WF a) (hb : WF b) (hc : WF c) :
    { add (add a b) c with usedQubits := [] } = { add a (add b c) with usedQubits := [] } ∧
    ∀ q, q ∈ (add (add a b) c).usedQubits ↔ q ∈ (add a (add b c)).usedQubits := by
  obtain ⟨a1, a2, a3, a4, a5, a6, a7, a8⟩ := ha
  obtain ⟨b1, b2, b3, b4, b5, b6, b7, b8⟩ := hb
  obtain ⟨c1, c2, c3, c4, c5, c6, c7, c8⟩ := hc
  constructor
  · simp only [add, addAssign, List.append_assoc, extend_assoc _ _ _ a1 b1 c1, extend_assoc _ _ _ a2 b2 c2,
      extend_assoc _ _ _ a3 b3 c3, extend_assoc _ _ _ a4 b4 c4, extend_assoc _ _ _ a5 b5 c5,
      extend_assoc _ _ _ a6 b6 c6, extend_assoc _ _ _ a7 b7 c7, extend_assoc _ _ _ a8 b8 c8]
  · intro q
    simp only [add, addAssign, mem_unionSet]
    constructor
    · rintro ((h | h) | h)
      · exact Or.inl h
      · exact Or.inr (Or.inl h)
      · exact Or.inr (Or.inr h)
    · rintro (h | h | h)
      · exact Or.inl (Or.inl h)
      · exact Or.inl (Or.inr h)
      · exact Or.inr h

/-! ### The Bool checkers evaluated by the driver mean the Prop specification -/

theorem nodupB_iff (l : List String) : nodupB l = true ↔ l.Nodup := by
  induction l with
  | nil => simp [nodupB]
  | cons x xs ih => simp [nodupB, ih]

theorem valuesB_iff (a b out : Assoc) : valuesB a b out = true ↔ ∀ k, lookup k out = pick k a b := by
  simp only [valuesB, List.all_eq_true, beq_iff_eq]
  constructor
  · intro h k
    by_cases hk : k ∈ keys out ++ keys a ++ keys b
    · exact h k hk
    · simp only [List.mem_append, not_or] at hk
      rw [(lookup_none_iff k out).mpr hk.1.1, pick, (lookup_none_iff k b).mpr hk.2,
        (lookup_none_iff k a).mpr hk.1.2]
  · intro h k _; exact h k

theorem mergedB_iff (a b out : Assoc) : mergedB a b out = true ↔ Merged a b out := by
  simp only [mergedB, Bool.and_eq_true, valuesB_iff, beq_iff_eq]
  exact ⟨fun ⟨h1, h2⟩ => ⟨h1, h2⟩, fun ⟨h1, h2⟩ => ⟨h1, h2⟩⟩

theorem mergedSetB_iff (a b out : Assoc) : mergedSetB a b out = true ↔ MergedSet a b out := by
  simp only [mergedSetB, Bool.and_eq_true, valuesB_iff, nodupB_iff]
  exact ⟨fun ⟨h1, h2⟩ => ⟨h1, h2⟩, fun ⟨h1, h2⟩ => ⟨h1, h2⟩⟩

theorem usedB_iff (a b out : List String) :
    usedB a b out = true ↔ ∀ q, q ∈ out ↔ q ∈ a ∨ q ∈ b := by
  simp only [usedB, Bool.and_eq_true, List.all_eq_true, Bool.or_eq_true, List.contains_iff_mem,
    List.mem_append]
  constructor
  · intro ⟨h1, h2⟩ q; exact ⟨h1 q, h2 q⟩
  · intro h; exact ⟨fun q => (h q).mp, fun q => (h q).mpr⟩

/-- the driver's check on the implementation's output is the specification -/
theorem C11_concatB_iff (a b out : Program) : concatB a b out = true ↔ Concat a b out := by
  simp only [concatB, Bool.and_eq_true, mergedB_iff, mergedSetB_iff, usedB_iff, beq_iff_eq]
  constructor
  · intro ⟨⟨⟨⟨⟨⟨⟨⟨⟨h0, h1⟩, h2⟩, h3⟩, h4⟩, h5⟩, h6⟩, h7⟩, h8⟩, h9⟩
    exact ⟨h0, h1, h2, h3, h4, h5, h6, h7, h8, h9⟩
  · intro ⟨h0, h1, h2, h3, h4, h5, h6, h7, h8, h9⟩
    exact ⟨⟨⟨⟨⟨⟨⟨⟨⟨h0, h1⟩, h2⟩, h3⟩, h4⟩, h5⟩, h6⟩, h7⟩, h8⟩, h9⟩

theorem C11_wfB_iff (p : Program) : wfB p = true ↔ WF p := by
  simp only [wfB, Bool.and_eq_true, nodupB_iff, WF]
  constructor
  · intro ⟨⟨⟨⟨⟨⟨⟨h1, h2⟩, h3⟩, h4⟩, h5⟩, h6⟩, h7⟩, h8⟩; exact ⟨h1, h2, h3, h4, h5, h6, h7, h8⟩
  · intro ⟨h1, h2, h3, h4, h5, h6, h7, h8⟩; exact ⟨⟨⟨⟨⟨⟨⟨h1, h2⟩, h3⟩, h4⟩, h5⟩, h6⟩, h7⟩, h8⟩

/-! ### Non-vacuity -/

private def exA : Program :=
  { Program.empty with
    regions := [("ro", "DECLARE ro BIT[2]"), ("theta", "DECLARE theta REAL[1]")],
    calibrations := [("DEFCAL X 0", "DEFCAL X 0:\n\tPULSE 0 \"rf\" wf")],
    body := ["X 0"], usedQubits := ["0"] }
private def exB : Program :=
  { Program.empty with
    regions := [("acc", "DECLARE acc INTEGER[2]"), ("ro", "DECLARE ro BIT[4]")],
    calibrations := [("DEFCAL X 0", "DEFCAL X 0:\n\tDELAY 0 1")],
    body := ["Y 1"], usedQubits := ["1", "0"] }

example : wfB exA = true ∧ wfB exB = true := by decide
/-- `ro` keeps its place and takes B's value; `acc` is appended; the calibration is replaced in place -/
example : (add exA exB).regions =
    [("ro", "DECLARE ro BIT[4]"), ("theta", "DECLARE theta REAL[1]"), ("acc", "DECLARE acc INTEGER[2]")] ∧
    (add exA exB).calibrations = [("DEFCAL X 0", "DEFCAL X 0:\n\tDELAY 0 1")] ∧
    (add exA exB).body = ["X 0", "Y 1"] ∧ (add exA exB).usedQubits = ["0", "1"] := by decide

end QV.C11
