/-
C11 model: `impl AddAssign<Program> for Program` and `impl Add` (quil-rs/src/program/mod.rs:1156-1177),
`Calibrations::extend` (program/calibration.rs:99-105), `CalibrationSet::extend` / `replace`
(program/calibration_set.rs), `FrameSet::merge` (program/frame.rs:157-159),
`ExternPragmaMap::extend` (instruction/extern_call.rs:348-350), `IndexMap::extend`.

Every definition container is a map from a key to a definition:
  IndexMap (memory_regions, waveforms, gate_definitions, circuits, extern_pragma_map) and
  CalibrationSet (a Vec with `replace` by signature) — ordered association lists; inserting an existing key
  replaces the value IN PLACE, a new key is appended;
  FrameSet — a HashMap: same insert semantics, iteration order unspecified (compared as a sorted list).
Projection (harness): a definition is (key text, full instruction text); the body is a list of
instruction texts; the used-qubit cache is a set of qubit texts.
-/
namespace QV.C11

abbrev Assoc := List (String × String)

/-- `IndexMap::insert` / `CalibrationSet::replace` / `HashMap::insert`: replace in place or append. -/
def insert (k v : String) : Assoc → Assoc
  | [] => [(k, v)]
  | (k', v') :: rest => if k' = k then (k', v) :: rest else (k', v') :: insert k v rest

/-- `Extend::extend`: insert every entry of `b`, in `b`'s order. -/
def extend (a b : Assoc) : Assoc := b.foldl (fun acc kv => insert kv.1 kv.2 acc) a

def lookup (k : String) : Assoc → Option String
  | [] => none
  | (k', v) :: rest => if k' = k then some v else lookup k rest

def keys (a : Assoc) : List String := a.map Prod.fst

structure Program where
  calibrations : Assoc
  measureCalibrations : Assoc
  externs : Assoc
  frames : Assoc
  regions : Assoc
  waveforms : Assoc
  gateDefs : Assoc
  circuits : Assoc
  body : List String
  usedQubits : List String
  deriving DecidableEq, Repr, Inhabited

def Program.empty : Program := ⟨[], [], [], [], [], [], [], [], [], []⟩

/-- `HashSet::extend` on a list representation without duplicates -/
def unionSet (a b : List String) : List String := b.foldl (fun acc x => if acc.contains x then acc else acc ++ [x]) a

/-- `AddAssign::add_assign` (mod.rs:1165-1177), field by field in the code's order. -/
def addAssign (a b : Program) : Program :=
  { calibrations := extend a.calibrations b.calibrations,
    measureCalibrations := extend a.measureCalibrations b.measureCalibrations,
    regions := extend a.regions b.regions,
    frames := extend a.frames b.frames,
    waveforms := extend a.waveforms b.waveforms,
    gateDefs := extend a.gateDefs b.gateDefs,
    circuits := extend a.circuits b.circuits,
    externs := extend a.externs b.externs,
    body := a.body ++ b.body,
    usedQubits := unionSet a.usedQubits b.usedQubits }

/-- `Add::add` (mod.rs:1156-1163): `self += rhs; self`. -/
def add (a b : Program) : Program := addAssign a b

end QV.C11
