import QV.C11.Model
/-
C11 specification: what "A + B" has to look like, stated over lookups, key order and membership
only (no reference to insertion or folding).
-/
namespace QV.C11

/-- `b`'s value if `b` has the key, else `a`'s -/
def pick (k : String) (a b : Assoc) : Option String :=
  match lookup k b with
  | some v => some v
  | none => lookup k a

/-- Ordered container: each definition keyed in both takes B's value, every other definition is
kept, and the keys come in A's order followed by B's new keys in B's order. -/
structure Merged (a b out : Assoc) : Prop where
  values : ∀ k, lookup k out = pick k a b
  order : keys out = keys a ++ (keys b).filter (fun k => !(keys a).contains k)

/-- Unordered container (FrameSet is a HashMap): same values, no key twice. -/
structure MergedSet (a b out : Assoc) : Prop where
  values : ∀ k, lookup k out = pick k a b
  nodup : (keys out).Nodup

structure Concat (a b out : Program) : Prop where
  body : out.body = a.body ++ b.body
  calibrations : Merged a.calibrations b.calibrations out.calibrations
  measureCalibrations : Merged a.measureCalibrations b.measureCalibrations out.measureCalibrations
  externs : Merged a.externs b.externs out.externs
  regions : Merged a.regions b.regions out.regions
  waveforms : Merged a.waveforms b.waveforms out.waveforms
  gateDefs : Merged a.gateDefs b.gateDefs out.gateDefs
  circuits : Merged a.circuits b.circuits out.circuits
  frames : MergedSet a.frames b.frames out.frames
  usedQubits : ∀ q, q ∈ out.usedQubits ↔ q ∈ a.usedQubits ∨ q ∈ b.usedQubits

/-- the invariant of every container of a real `Program`: no key twice -/
def WF (p : Program) : Prop :=
  (keys p.calibrations).Nodup ∧ (keys p.measureCalibrations).Nodup ∧ (keys p.externs).Nodup ∧
  (keys p.frames).Nodup ∧ (keys p.regions).Nodup ∧ (keys p.waveforms).Nodup ∧
  (keys p.gateDefs).Nodup ∧ (keys p.circuits).Nodup

/-! ### Bool forms (evaluated by the driver on the implementation's output) -/

def nodupB : List String → Bool
  | [] => true
  | x :: xs => !xs.contains x && nodupB xs

def valuesB (a b out : Assoc) : Bool :=
  (keys out ++ keys a ++ keys b).all fun k => lookup k out == pick k a b

def mergedB (a b out : Assoc) : Bool :=
  valuesB a b out && keys out == keys a ++ (keys b).filter (fun k => !(keys a).contains k)

def mergedSetB (a b out : Assoc) : Bool := valuesB a b out && nodupB (keys out)

def usedB (a b out : List String) : Bool :=
  out.all (fun q => a.contains q || b.contains q) && (a ++ b).all (fun q => out.contains q)

def concatB (a b out : Program) : Bool :=
  out.body == a.body ++ b.body &&
  mergedB a.calibrations b.calibrations out.calibrations &&
  mergedB a.measureCalibrations b.measureCalibrations out.measureCalibrations &&
  mergedB a.externs b.externs out.externs &&
  mergedB a.regions b.regions out.regions &&
  mergedB a.waveforms b.waveforms out.waveforms &&
  mergedB a.gateDefs b.gateDefs out.gateDefs &&
  mergedB a.circuits b.circuits out.circuits &&
  mergedSetB a.frames b.frames out.frames &&
  usedB a.usedQubits b.usedQubits out.usedQubits

def wfB (p : Program) : Bool :=
  nodupB (keys p.calibrations) && nodupB (keys p.measureCalibrations) && nodupB (keys p.externs) &&
  nodupB (keys p.frames) && nodupB (keys p.regions) && nodupB (keys p.waveforms) &&
  nodupB (keys p.gateDefs) && nodupB (keys p.circuits)

end QV.C11
