import QV.Wire
import QV.Shared.ExprWire
import QV.C30.Model
import QV.C30.Spec
/-! Driver side of the C30 correspondence check.

input  `(c30 decls body perm declared)`
         decls = `(("b" bit) ("i" integer) …)`  (program.memory_regions, IndexMap order)
         body  = projected instructions (see `decodeInstr`), perm = indices into body
output `(verdicts v vPermuted vDoubled vRenamed)`, `v = (ok) | (err <kind> <index>)`.
-/
namespace QV.C30
open QV QV.ExprWire

def decodeScalarType : String → Option ScalarType
  | "bit" => some .bit | "integer" => some .integer | "octet" => some .octet | "real" => some .real
  | _ => none

def decodeDecls : Sexp → Option Decls
  | .list xs => decodeAll (fun
      | .list [.str n, .atom t] => (decodeScalarType t).map fun t => (n, t)
      | _ => none) xs
  | _ => none

def decodeArith : Sexp → Option ArithOperand
  | .list [.atom "int"] => some .litInt
  | .list [.atom "realv"] => some .litReal
  | .list [.atom "ref", .str n] => some (.mref n)
  | _ => none

def decodeCmp : Sexp → Option CmpOperand
  | .list [.atom "int"] => some .litInt
  | .list [.atom "realv"] => some .litReal
  | .list [.atom "ref", .str n] => some (.mref n)
  | _ => none

def decodeBin : Sexp → Option BinOperand
  | .list [.atom "int"] => some .litInt
  | .list [.atom "ref", .str n] => some (.mref n)
  | _ => none

def decodeFrameKind : String → Option FrameKind
  | "set_frequency" => some .setFrequency | "set_phase" => some .setPhase | "set_scale" => some .setScale
  | "shift_frequency" => some .shiftFrequency | "shift_phase" => some .shiftPhase | _ => none

/-- an instruction and a tag naming its kind/operator (for the evidence histogram) -/
def decodeInstr : Sexp → Option (Instr CFloat × String)
  | .list [.atom "real", .atom k, e] =>
    match decodeFrameKind k, decodeExpr e with
    | some k', some e => some (.realArg k' e, k)
    | _, _ => none
  | .list [.atom "arith", .atom op, .str d, s] => (decodeArith s).map fun s => (.arithmetic d s, op)
  | .list [.atom "cmp", .atom op, .str d, .str l, r] => (decodeCmp r).map fun r => (.comparison d l r, op)
  | .list [.atom "logic", .atom op, .str d, s] => (decodeBin s).map fun s => (.binaryLogic d s, op)
  | .list [.atom "unary", .atom "neg", .str x] => some (.unaryLogic .neg x, "neg")
  | .list [.atom "unary", .atom "not", .str x] => some (.unaryLogic .not x, "not")
  | .list [.atom "move", .str d, s] => (decodeArith s).map fun s => (.move d s, "move")
  | .list [.atom "exchange", .str l, .str r] => some (.exchange l r, "exchange")
  | .list [.atom "load", .str d, .str s, .str o] => some (.load d s o, "load")
  | .list [.atom "store", .str d, .str o, s] => (decodeArith s).map fun s => (.store d o s, "store")
  | .list [.atom "other", .atom k] => some (.other, "other-" ++ k)
  | _ => none

/-- A verdict: accepted, or rejected at body instruction `idx` (`none`: the error is of a variant this harness
does not know, so the instruction it names could not be read).  `kind` is the `TypeError` variant: it is
recorded (tags) but NOT compared — the property fixes which programs / which instruction are rejected, not
how the rejection is worded or classified. -/
inductive Verdict where
  | ok
  | err (kind : String) (idx : Option Nat)
  deriving Repr

def decodeVerdict : Sexp → Option Verdict
  | .list [.atom "ok"] => some .ok
  | .list [.atom "err", .atom k, .atom "unknown"] => some (.err k none)
  | .list [.atom "err", .atom k, .atom i] => i.toNat?.map fun i => .err k (some i)
  | _ => none

/-- same verdict: both accept, or both reject the same instruction (the error kind is not compared) -/
def Verdict.same : Verdict → Verdict → Bool
  | .ok, .ok => true
  | .err _ (some i), .err _ (some j) => i == j
  | .err _ _, .err _ _ => true
  | _, _ => false

def errName : TypeErr → String
  | .undefinedMemoryReference => "undefined_memory_reference"
  | .dataTypeMismatch => "data_type_mismatch"
  | .realValueRequired => "real_value_required"
  | .operatorOperandMismatch => "operator_operand_mismatch"

def ofResult : Except (Nat × TypeErr) Unit → Verdict
  | .ok _ => .ok
  | .error (i, k) => .err (errName k) (some i)

def Verdict.render : Verdict → String
  | .ok => "(ok)"
  | .err k (some i) => s!"(err {k} {i})"
  | .err k none => s!"(err {k} unknown)"

def Verdict.isOk : Verdict → Bool
  | .ok => true
  | _ => false

/-- `value.im.abs() > f64::EPSILON` -/
def imBig (z : CFloat) : Bool := Float.abs z.2 > CFloat.epsF

/-- the harness's fixed injective renaming -/
def renameRot (n : String) : String :=
  if n == "b" then "i" else if n == "i" then "o" else if n == "o" then "r" else if n == "r" then "u"
  else if n == "u" then "b" else "~" ++ n

/-- the harness's second renaming: onto names some stage of quil-rs treats specially (injective too) -/
def renameSpecial (n : String) : String :=
  if n == "b" then "pi" else if n == "i" then "BIT" else if n == "o" then "sin" else if n == "r" then "REAL"
  else if n == "u" then "I" else "Cis-" ++ n

/-- a construction-route verdict: a verdict, or `(na reason)` (text route only) -/
def decodeRoute : Sexp → Option (Option Verdict)
  | .list [.atom "na", _] => some none
  | v => (decodeVerdict v).map some

def exprDepthOf : Instr CFloat → Nat
  | .realArg _ e => e.depth
  | _ => 0

def handle (inp out : Sexp) : CaseResult :=
  match inp with
  | .list [.atom "c30", declS, .list bodyS, .list permS, declaredS] =>
    match decodeDecls declS, decodeAll decodeInstr bodyS, decodeAll Sexp.asNat? permS, decodeDecls declaredS with
    | some Γ, some bodyT, some perm, some declared =>
      match out with
      | .list (.atom "verdicts" :: v0 :: v1 :: v2 :: v3 :: v4 :: routeS) =>
        match decodeVerdict v0, decodeVerdict v1, decodeVerdict v2, decodeVerdict v3, decodeVerdict v4,
              decodeAll decodeRoute routeS with
        | some i0, some i1, some i2, some i3, some i4, some routes =>
          let body := bodyT.map (·.1)
          let permuted := perm.filterMap fun k => body[k]?
          -- the model
          let m0 := ofResult (typeCheck imBig Γ body)
          let m1 := ofResult (typeCheck imBig Γ permuted)
          let m2 := ofResult (typeCheck imBig Γ (body ++ body))
          let m3 := ofResult (typeCheck imBig (Γ.rename renameRot) (body.map (Instr.rename renameRot)))
          let m4 := ofResult (typeCheck imBig (Γ.rename renameSpecial) (body.map (Instr.rename renameSpecial)))
          -- every construction route (from_instructions, +, +=, to_quil→from_str, with ill-typed definition
          -- bodies added, a second call) must give the verdict of the program itself
          let routesModel := routes.length == 6 && routes.all fun r => match r with
            | some v => v.same m0
            | none => true
          let routesSpec := routes.length == 6 && routes.all fun r => match r with
            | some v => v.same i0
            | none => true
          let agree := m0.same i0 && m1.same i1 && m2.same i2 && m3.same i3 && m4.same i4 && routesModel
          -- the specification on the implementation's verdicts
          let isRealLit : CFloat → Bool := fun z => !imBig z
          let s1 := i0.isOk == allWellTypedB isRealLit Γ body        -- ok ⇔ every instruction well-typed on its own
          let s2 := i1.isOk == i0.isOk                               -- reordering
          let s3 := i2.same i0                                       -- duplicating (same first error too)
          let s4 := i3.same i0 && i4.same i0                            -- consistent renaming (two maps)
          let s6 := routesSpec                                       -- construction routes agree
          -- the stored declarations are exactly "the LAST declaration of each name wins" (computed from the
          -- generator's own list, not from what quil-rs stored)
          let s7 := declared.all (fun (n, _) => Γ.get n == declared.reverse.lookup n) &&
            Γ.all (fun (n, _) => (declared.lookup n).isSome) &&
            Γ.length == (declared.map (·.1)).eraseDups.length
          let s5 := match i0 with                                    -- the error names the first ill-typed instruction
            | .ok => true
            | .err _ (some k) => (body[k]?.map (wellTypedB isRealLit Γ)) == some false &&
                (body.take k).all (wellTypedB isRealLit Γ)
            | .err _ none => true
          let specOk := s1 && s2 && s3 && s4 && s5 && s6 && s7
          let kinds := (bodyT.map (·.2)).eraseDups
          let depth := (body.map exprDepthOf).foldl max 0
          let tags :=
            kinds ++
            [if body.length > 32 then "len33+" else s!"len{min body.length 8}",
             match i0 with
             | .ok => "verdict-ok"
             | .err k (some i) => s!"verdict-{k}@{min i 8}"
             | .err k none => s!"verdict-{k}@unknown"] ++
            (if body.any (fun i => match i with | .realArg .. => true | _ => false) then [s!"exprdepth{min depth 6}"] else []) ++
            (if perm != List.range body.length then ["permuted"] else []) ++
            [if Γ.length > 8 then "decls-many" else s!"decls{Γ.length}",
             match routes[3]? with | some (some _) => "text-route" | _ => "text-na"]
          { agree := agree, specOk := specOk,
            nontrivial := body.any fun i => match i with | .other => false | _ => true,
            tags := tags,
            detail := s!"spec[ok-iff-each={s1} perm={s2} dup={s3} rename={s4} first-error={s5} routes={s6} decls-last-wins={s7}] " ++
              s!"model=({m0.render} {m1.render} {m2.render} {m3.render} {m4.render}) impl={out}" }
        | _, _, _, _, _, _ =>
          { agree := false, specOk := false, nontrivial := true, tags := ["impl-crash-or-undecodable"], detail := s!"impl={out}" }
      | _ => { agree := false, specOk := false, nontrivial := true, tags := ["impl-crash-or-undecodable"], detail := s!"impl={out}" }
    | _, _, _, _ => .bad s!"undecodable input {inp}"
  | _ => .bad s!"undecodable input {inp}"

end QV.C30

def main : IO UInt32 := QV.runMain QV.C30.handle
