import QV.C30.Model
import QV.C30.Spec
/-
C30 — Type checking is per-instruction and follows the typing rules.

  "A program type-checks iff each of its body instructions type-checks against the program's declarations
   on its own.  Every expression argument of SET-*/SHIFT-* must be real-valued at any nesting depth:
   declared REAL memory, real numbers or pi, combined by operators and functions, with no variables.  The
   verdict does not change under consistent renaming of memory regions or under reordering or duplicating
   instructions."

All theorems hold for EVERY declaration list, EVERY body (any length), EVERY expression (any depth) and
every scalar type `K`; `imBig : K → Bool` is the test `value.im.abs() > f64::EPSILON` the code applies to a
numeric literal, and "real number" in the rules means `!imBig z`.
-/
set_option linter.unusedSimpArgs false
namespace QV.C30
open QV

variable {K : Type}

/-! ## helper lemmas about the Bool checkers' building blocks -/

private theorem hasType_iff (Γ : Decls) (n : String) (p : ScalarType → Bool) :
    hasType Γ n p = true ↔ ∃ t, Γ.get n = some t ∧ p t = true := by
  unfold hasType
  cases Γ.get n <;> simp

private theorem sameType_iff (Γ : Decls) (a b : String) (p : ScalarType → Bool) :
    sameType Γ a b p = true ↔ ∃ t, Γ.get a = some t ∧ Γ.get b = some t ∧ p t = true := by
  unfold sameType
  cases Γ.get a <;> cases Γ.get b <;> simp
  intro _; exact eq_comm

private theorem notReal_iff (t : ScalarType) : notReal t = true ↔ t ≠ .real := by
  cases t <;> simp [notReal]
private theorem isReal_iff (t : ScalarType) : isReal t = true ↔ t = .real := by
  cases t <;> simp [isReal]
private theorem isInteger_iff (t : ScalarType) : isInteger t = true ↔ t = .integer := by
  cases t <;> simp [isInteger]
private theorem isBit_iff (t : ScalarType) : isBit t = true ↔ t = .bit := by
  cases t <;> simp [isBit]
private theorem isNumeric_iff (t : ScalarType) : isNumeric t = true ↔ t.numeric := by
  cases t <;> simp [isNumeric, ScalarType.numeric]

/-! ## 1. Real-valued expressions, any depth -/

/-- The Bool checker for "real-valued" is the inductive judgement. -/
theorem C30_realExprB_iff (isRealLit : K → Bool) (Γ : Decls) (e : Expr K) :
    realExprB isRealLit Γ e = true ↔ RealExpr isRealLit Γ e := by
  induction e with
  | address r =>
    simp only [realExprB, beq_iff_eq]
    exact ⟨fun h => .address h, fun h => by cases h; assumption⟩
  | call f e ih =>
    simp only [realExprB, ih]
    exact ⟨fun h => .call h, fun h => by cases h; assumption⟩
  | bin l o r ihl ihr =>
    simp only [realExprB, Bool.and_eq_true, ihl, ihr]
    exact ⟨fun h => .bin h.1 h.2, fun h => by cases h; exact ⟨by assumption, by assumption⟩⟩
  | number z =>
    simp only [realExprB]
    exact ⟨fun h => .number h, fun h => by cases h; assumption⟩
  | pi => simp only [realExprB]; exact ⟨fun _ => .pi, fun _ => trivial⟩
  | pre o e ih =>
    simp only [realExprB, ih]
    exact ⟨fun h => .pre h, fun h => by cases h; assumption⟩
  | var x => simp only [realExprB]; exact ⟨fun h => (by cases h), fun h => (by cases h)⟩

private theorem shouldBeReal_eq_B (imBig : K → Bool) (Γ : Decls) (e : Expr K) :
    (shouldBeReal imBig Γ e = .ok ()) ↔ realExprB (fun z => !imBig z) Γ e = true := by
  induction e with
  | address r =>
    simp only [shouldBeReal, realExprB]
    cases Γ.get r.name with
    | none => simp
    | some t => cases t <;> simp
  | call f e ih => simpa [shouldBeReal, realExprB] using ih
  | bin l o r ihl ihr =>
    simp only [shouldBeReal, realExprB, Bool.and_eq_true, ← ihl, ← ihr]
    cases shouldBeReal imBig Γ l <;> simp
  | number z => simp only [shouldBeReal, realExprB]; cases imBig z <;> simp
  | pi => simp [shouldBeReal, realExprB]
  | pre o e ih => simpa [shouldBeReal, realExprB] using ih
  | var x => simp [shouldBeReal, realExprB]

/-- **C30 (real-valued arguments, any nesting depth).**  `should_be_real` accepts an expression iff it is
built from declared-REAL memory references, real literals and pi by function calls, prefix and infix
operators — in particular it contains no variable, no undeclared and no non-REAL region, at any depth. -/
theorem C30_shouldBeReal_ok_iff (imBig : K → Bool) (Γ : Decls) (e : Expr K) :
    shouldBeReal imBig Γ e = .ok () ↔ RealExpr (fun z => !imBig z) Γ e := by
  rw [shouldBeReal_eq_B, C30_realExprB_iff]

/-- Reading of `RealExpr` as a statement about the leaves: no variable occurs, every referenced region is
declared REAL, every literal is real. -/
theorem C30_realExpr_leaves (isRealLit : K → Bool) (Γ : Decls) (e : Expr K) :
    RealExpr isRealLit Γ e ↔
      e.vars = [] ∧ (∀ a ∈ e.addrs, Γ.get a.name = some .real) ∧ (∀ z ∈ literals e, isRealLit z = true) := by
  induction e with
  | address r =>
    simp only [Expr.vars, Expr.addrs, literals, List.mem_singleton, forall_eq, true_and, List.not_mem_nil,
      false_imp_iff, implies_true, and_true]
    exact ⟨fun h => by cases h; assumption, fun h => .address h⟩
  | call f e ih =>
    simp only [Expr.vars, Expr.addrs, literals, ← ih]
    exact ⟨fun h => by cases h; assumption, fun h => .call h⟩
  | bin l o r ihl ihr =>
    simp only [Expr.vars, Expr.addrs, literals, List.append_eq_nil_iff, List.mem_append]
    constructor
    · intro h
      cases h with
      | bin hl hr =>
        obtain ⟨a1, a2, a3⟩ := ihl.mp hl
        obtain ⟨b1, b2, b3⟩ := ihr.mp hr
        exact ⟨⟨a1, b1⟩, fun a ha => ha.elim (a2 a) (b2 a), fun z hz => hz.elim (a3 z) (b3 z)⟩
    · rintro ⟨⟨a1, b1⟩, h2, h3⟩
      exact .bin (ihl.mpr ⟨a1, fun a ha => h2 a (Or.inl ha), fun z hz => h3 z (Or.inl hz)⟩)
                 (ihr.mpr ⟨b1, fun a ha => h2 a (Or.inr ha), fun z hz => h3 z (Or.inr hz)⟩)
  | number z =>
    simp only [Expr.vars, Expr.addrs, literals, List.mem_singleton, forall_eq, true_and, List.not_mem_nil,
      false_imp_iff, implies_true]
    exact ⟨fun h => by cases h; assumption, fun h => .number h⟩
  | pi => simp [Expr.vars, Expr.addrs, literals]; exact .pi
  | pre o e ih =>
    simp only [Expr.vars, Expr.addrs, literals, ← ih]
    exact ⟨fun h => by cases h; assumption, fun h => .pre h⟩
  | var x =>
    simp only [Expr.vars, Expr.addrs, literals]
    exact ⟨fun h => (by cases h), fun h => (by simp at h)⟩

/-- **C30 (which error, any depth).**  `should_be_real` reports the defect of the LEFTMOST bad leaf of the
expression — undeclared region: `UndefinedMemoryReference`; non-REAL region, variable, non-real literal:
`RealValueRequired` — and succeeds iff there is none. -/
theorem C30_shouldBeReal_eq_first_leaf_error (imBig : K → Bool) (Γ : Decls) (e : Expr K) :
    shouldBeReal imBig Γ e =
      match (leafErrors imBig Γ e).head? with
      | none => .ok ()
      | some err => .error err := by
  induction e with
  | address r =>
    simp only [shouldBeReal, leafErrors]
    rcases Γ.get r.name with _ | t
    · rfl
    · cases t <;> simp
  | call f e ih => simpa [shouldBeReal, leafErrors] using ih
  | bin l o r ihl ihr =>
    simp only [shouldBeReal, leafErrors, ihl, ihr]
    cases hl : leafErrors imBig Γ l with
    | nil => simp
    | cons a as => simp
  | number z => simp only [shouldBeReal, leafErrors]; cases imBig z <;> simp
  | pi => simp [shouldBeReal, leafErrors]
  | pre o e ih => simpa [shouldBeReal, leafErrors] using ih
  | var x => simp [shouldBeReal, leafErrors]

/-! ## 2. One instruction: the checker decides the typing judgement -/

/-- The Bool checker for one instruction is the typing judgement. -/
theorem C30_wellTypedB_iff (isRealLit : K → Bool) (Γ : Decls) (i : Instr K) :
    wellTypedB isRealLit Γ i = true ↔ WellTyped isRealLit Γ i := by
  cases i with
  | realArg k e =>
    simp only [wellTypedB, C30_realExprB_iff]
    exact ⟨fun h => .realArg h, fun h => by cases h; assumption⟩
  | arithmetic d s =>
    cases s with
    | litInt =>
      simp only [wellTypedB, hasType_iff, isInteger_iff]
      exact ⟨fun ⟨t, h, ht⟩ => .arithInt (ht ▸ h), fun h => by cases h; exact ⟨_, by assumption, rfl⟩⟩
    | litReal =>
      simp only [wellTypedB, hasType_iff, isReal_iff]
      exact ⟨fun ⟨t, h, ht⟩ => .arithReal (ht ▸ h), fun h => by cases h; exact ⟨_, by assumption, rfl⟩⟩
    | mref s =>
      simp only [wellTypedB, sameType_iff, isNumeric_iff]
      exact ⟨fun ⟨t, h1, h2, h3⟩ => .arithRef h1 h2 h3,
             fun h => by cases h; exact ⟨_, by assumption, by assumption, by assumption⟩⟩
  | comparison d l r =>
    cases r with
    | litInt =>
      simp only [wellTypedB, Bool.and_eq_true, hasType_iff, isBit_iff, notReal_iff]
      exact ⟨fun ⟨⟨t, h, ht⟩, ⟨t', h', ht'⟩⟩ => .cmpInt (ht ▸ h) h' ht',
             fun h => by cases h; exact ⟨⟨_, by assumption, rfl⟩, ⟨_, by assumption, by assumption⟩⟩⟩
    | litReal =>
      simp only [wellTypedB, Bool.and_eq_true, hasType_iff, isBit_iff, isReal_iff]
      exact ⟨fun ⟨⟨t, h, ht⟩, ⟨t', h', ht'⟩⟩ => .cmpReal (ht ▸ h) (ht' ▸ h'),
             fun h => by cases h; exact ⟨⟨_, by assumption, rfl⟩, ⟨_, by assumption, rfl⟩⟩⟩
    | mref r =>
      simp only [wellTypedB, Bool.and_eq_true, hasType_iff, sameType_iff, isBit_iff]
      exact ⟨fun ⟨⟨t, h, ht⟩, ⟨t', h1, h2, _⟩⟩ => .cmpRef (ht ▸ h) h1 h2,
             fun h => by cases h; exact ⟨⟨_, by assumption, rfl⟩, ⟨_, by assumption, by assumption, trivial⟩⟩⟩
  | binaryLogic d s =>
    cases s with
    | litInt =>
      simp only [wellTypedB, hasType_iff, notReal_iff]
      exact ⟨fun ⟨t, h, ht⟩ => .logicInt h ht, fun h => by cases h; exact ⟨_, by assumption, by assumption⟩⟩
    | mref s =>
      simp only [wellTypedB, Bool.and_eq_true, hasType_iff, notReal_iff]
      exact ⟨fun ⟨⟨t, h, ht⟩, ⟨t', h', ht'⟩⟩ => .logicRef h ht h' ht',
             fun h => by cases h; exact ⟨⟨_, by assumption, by assumption⟩, ⟨_, by assumption, by assumption⟩⟩⟩
  | unaryLogic op x =>
    cases op with
    | neg =>
      simp only [wellTypedB, hasType_iff, isNumeric_iff]
      exact ⟨fun ⟨t, h, ht⟩ => .neg h ht, fun h => by cases h; exact ⟨_, by assumption, by assumption⟩⟩
    | not =>
      simp only [wellTypedB, hasType_iff, notReal_iff]
      exact ⟨fun ⟨t, h, ht⟩ => .not h ht, fun h => by cases h; exact ⟨_, by assumption, by assumption⟩⟩
  | move d s =>
    cases s with
    | litInt =>
      simp only [wellTypedB, hasType_iff, notReal_iff]
      exact ⟨fun ⟨t, h, ht⟩ => .moveInt h ht, fun h => by cases h; exact ⟨_, by assumption, by assumption⟩⟩
    | litReal =>
      simp only [wellTypedB, hasType_iff, isReal_iff]
      exact ⟨fun ⟨t, h, ht⟩ => .moveReal (ht ▸ h), fun h => by cases h; exact ⟨_, by assumption, rfl⟩⟩
    | mref s =>
      simp only [wellTypedB, sameType_iff]
      exact ⟨fun ⟨t, h1, h2, _⟩ => .moveRef h1 h2, fun h => by cases h; exact ⟨_, by assumption, by assumption, trivial⟩⟩
  | exchange l r =>
    simp only [wellTypedB, sameType_iff]
    exact ⟨fun ⟨t, h1, h2, _⟩ => .exchange h1 h2, fun h => by cases h; exact ⟨_, by assumption, by assumption, trivial⟩⟩
  | load d s o =>
    simp only [wellTypedB, Bool.and_eq_true, sameType_iff, hasType_iff, isInteger_iff]
    exact ⟨fun ⟨⟨t, h1, h2, _⟩, ⟨t', h', ht'⟩⟩ => .load h1 h2 (ht' ▸ h'),
           fun h => by cases h; exact ⟨⟨_, by assumption, by assumption, trivial⟩, ⟨_, by assumption, rfl⟩⟩⟩
  | store d o s =>
    cases s with
    | litInt =>
      simp only [wellTypedB, Bool.and_eq_true, hasType_iff, notReal_iff, isInteger_iff]
      exact ⟨fun ⟨⟨t, h, ht⟩, ⟨t', h', ht'⟩⟩ => .storeInt h ht (ht' ▸ h'),
             fun h => by cases h; exact ⟨⟨_, by assumption, by assumption⟩, ⟨_, by assumption, rfl⟩⟩⟩
    | litReal =>
      simp only [wellTypedB, Bool.and_eq_true, hasType_iff, isReal_iff, isInteger_iff]
      exact ⟨fun ⟨⟨t, h, ht⟩, ⟨t', h', ht'⟩⟩ => .storeReal (ht ▸ h) (ht' ▸ h'),
             fun h => by cases h; exact ⟨⟨_, by assumption, rfl⟩, ⟨_, by assumption, rfl⟩⟩⟩
    | mref s =>
      simp only [wellTypedB, Bool.and_eq_true, sameType_iff, hasType_iff, isInteger_iff]
      exact ⟨fun ⟨⟨t, h1, h2, _⟩, ⟨t', h', ht'⟩⟩ => .storeRef h1 (ht' ▸ h') h2,
             fun h => by cases h; exact ⟨⟨_, by assumption, by assumption, trivial⟩, ⟨_, by assumption, rfl⟩⟩⟩
  | other => simp only [wellTypedB]; exact ⟨fun _ => .other, fun _ => trivial⟩

/-- the model's per-instruction check computes the Bool checker (finite case analysis on the declared types
of the regions mentioned) -/
private theorem checkInstr_eq_B (imBig : K → Bool) (Γ : Decls) (i : Instr K) :
    (checkInstr imBig Γ i = .ok ()) ↔ wellTypedB (fun z => !imBig z) Γ i = true := by
  cases i with
  | realArg k e => simpa [checkInstr, wellTypedB] using shouldBeReal_eq_B imBig Γ e
  | arithmetic d s =>
    cases s with
    | litInt =>
      rcases ha : Γ.get d with _ | a <;> (try cases a) <;>
        simp [checkInstr, checkArithmetic, wellTypedB, hasType, isInteger, ha]
    | litReal =>
      rcases ha : Γ.get d with _ | a <;> (try cases a) <;>
        simp [checkInstr, checkArithmetic, wellTypedB, hasType, isReal, ha]
    | mref s =>
      rcases ha : Γ.get d with _ | a <;> rcases hb : Γ.get s with _ | b <;> (try cases a) <;> (try cases b) <;>
        simp [checkInstr, checkArithmetic, wellTypedB, sameType, isNumeric, ha, hb]
  | comparison d l r =>
    cases r with
    | litInt =>
      rcases ha : Γ.get d with _ | a <;> rcases hb : Γ.get l with _ | b <;> (try cases a) <;> (try cases b) <;>
        simp [checkInstr, checkComparison, wellTypedB, hasType, isBit, notReal, ha, hb]
    | litReal =>
      rcases ha : Γ.get d with _ | a <;> rcases hb : Γ.get l with _ | b <;> (try cases a) <;> (try cases b) <;>
        simp [checkInstr, checkComparison, wellTypedB, hasType, isBit, isReal, ha, hb]
    | mref r =>
      rcases ha : Γ.get d with _ | a <;> rcases hb : Γ.get l with _ | b <;> rcases hc : Γ.get r with _ | c <;>
        (try cases a) <;> (try cases b) <;> (try cases c) <;>
        simp [checkInstr, checkComparison, wellTypedB, hasType, sameType, isBit, ha, hb, hc]
  | binaryLogic d s =>
    cases s with
    | litInt =>
      rcases ha : Γ.get d with _ | a <;> (try cases a) <;>
        simp [checkInstr, checkBinaryLogic, checkBinaryLogicRef, wellTypedB, hasType, notReal, ha]
    | mref s =>
      rcases ha : Γ.get d with _ | a <;> rcases hb : Γ.get s with _ | b <;> (try cases a) <;> (try cases b) <;>
        simp [checkInstr, checkBinaryLogic, checkBinaryLogicRef, wellTypedB, hasType, notReal, ha, hb]
  | unaryLogic op x =>
    cases op <;> rcases ha : Γ.get x with _ | a <;> (try cases a) <;>
      simp [checkInstr, checkUnaryLogic, wellTypedB, hasType, isNumeric, notReal, ha]
  | move d s =>
    cases s with
    | litInt =>
      rcases ha : Γ.get d with _ | a <;> (try cases a) <;>
        simp [checkInstr, checkMove, wellTypedB, hasType, notReal, ha]
    | litReal =>
      rcases ha : Γ.get d with _ | a <;> (try cases a) <;>
        simp [checkInstr, checkMove, wellTypedB, hasType, isReal, ha]
    | mref s =>
      rcases ha : Γ.get d with _ | a <;> rcases hb : Γ.get s with _ | b <;> (try cases a) <;> (try cases b) <;>
        simp [checkInstr, checkMove, wellTypedB, sameType, ha, hb]
  | exchange l r =>
    rcases ha : Γ.get l with _ | a <;> rcases hb : Γ.get r with _ | b <;> (try cases a) <;> (try cases b) <;>
      simp [checkInstr, checkExchange, wellTypedB, sameType, ha, hb]
  | load d s o =>
    rcases ha : Γ.get d with _ | a <;> rcases hb : Γ.get s with _ | b <;> rcases hc : Γ.get o with _ | c <;>
      (try cases a) <;> (try cases b) <;> (try cases c) <;>
      simp [checkInstr, checkLoad, wellTypedB, sameType, hasType, isInteger, ha, hb, hc]
  | store d o s =>
    cases s with
    | litInt =>
      rcases ha : Γ.get d with _ | a <;> rcases hc : Γ.get o with _ | c <;> (try cases a) <;> (try cases c) <;>
        simp [checkInstr, checkStore, wellTypedB, hasType, isInteger, notReal, ha, hc]
    | litReal =>
      rcases ha : Γ.get d with _ | a <;> rcases hc : Γ.get o with _ | c <;> (try cases a) <;> (try cases c) <;>
        simp [checkInstr, checkStore, wellTypedB, hasType, isInteger, isReal, ha, hc]
    | mref s =>
      rcases ha : Γ.get d with _ | a <;> rcases hb : Γ.get s with _ | b <;> rcases hc : Γ.get o with _ | c <;>
        (try cases a) <;> (try cases b) <;> (try cases c) <;>
        simp [checkInstr, checkStore, wellTypedB, hasType, sameType, isInteger, ha, hb, hc]
  | other => simp [checkInstr, wellTypedB]

/-- **C30 (one instruction).**  The per-instruction check of `type_check` succeeds iff the instruction is
well-typed under the declarations according to the typing rules. -/
theorem C30_checkInstr_ok_iff (imBig : K → Bool) (Γ : Decls) (i : Instr K) :
    checkInstr imBig Γ i = .ok () ↔ WellTyped (fun z => !imBig z) Γ i := by
  rw [checkInstr_eq_B, C30_wellTypedB_iff]

/-! ## 3. Programs: per-instruction, first error, order/duplication -/

private theorem typeCheckFrom_ok_iff (imBig : K → Bool) (Γ : Decls) (k : Nat) (body : List (Instr K)) :
    typeCheckFrom imBig Γ k body = .ok () ↔ ∀ i ∈ body, checkInstr imBig Γ i = .ok () := by
  induction body generalizing k with
  | nil => simp [typeCheckFrom]
  | cons i rest ih =>
    simp only [typeCheckFrom, List.mem_cons, forall_eq_or_imp]
    cases h : checkInstr imBig Γ i with
    | error e => simp
    | ok u => cases u; simp [ih]

/-- **C30 (per-instruction).**  `type_check(program)` is `Ok` iff every body instruction, taken on its own,
is well-typed under the program's declarations. -/
theorem C30_typeCheck_ok_iff (imBig : K → Bool) (Γ : Decls) (body : List (Instr K)) :
    typeCheck imBig Γ body = .ok () ↔ ∀ i ∈ body, WellTyped (fun z => !imBig z) Γ i := by
  simp only [typeCheck, typeCheckFrom_ok_iff, C30_checkInstr_ok_iff]

/-- The Bool form the driver evaluates on the implementation's verdict. -/
theorem C30_allWellTypedB_iff (isRealLit : K → Bool) (Γ : Decls) (body : List (Instr K)) :
    allWellTypedB isRealLit Γ body = true ↔ ∀ i ∈ body, WellTyped isRealLit Γ i := by
  simp [allWellTypedB, List.all_eq_true, C30_wellTypedB_iff]

private theorem typeCheckFrom_error (imBig : K → Bool) (Γ : Decls) (k : Nat) (body : List (Instr K))
    (n : Nat) (err : TypeErr) :
    typeCheckFrom imBig Γ k body = .error (n, err) ↔
      ∃ m, n = k + m ∧ m < body.length ∧ (body[m]?.map (checkInstr imBig Γ)) = some (.error err) ∧
        ∀ j < m, (body[j]?.map (checkInstr imBig Γ)) = some (.ok ()) := by
  induction body generalizing k with
  | nil => simp [typeCheckFrom]
  | cons i rest ih =>
    simp only [typeCheckFrom]
    cases h : checkInstr imBig Γ i with
    | error e =>
      simp only [Except.error.injEq, Prod.mk.injEq]
      constructor
      · rintro ⟨rfl, rfl⟩
        exact ⟨0, rfl, by simp, by simp [h], by intro j hj; omega⟩
      · rintro ⟨m, hn, _, hm, hall⟩
        cases m with
        | zero => simp [h] at hm; exact ⟨hn.symm ▸ rfl, hm⟩
        | succ m =>
          have := hall 0 (by omega)
          simp [h] at this
    | ok u =>
      cases u
      simp only [ih]
      constructor
      · rintro ⟨m, hn, hlt, hm, hall⟩
        refine ⟨m + 1, by omega, by simp; omega, by simpa using hm, ?_⟩
        intro j hj
        cases j with
        | zero => simp [h]
        | succ j => simpa using hall j (by omega)
      · rintro ⟨m, hn, hlt, hm, hall⟩
        cases m with
        | zero => simp [h] at hm
        | succ m =>
          refine ⟨m, by omega, by simpa using hlt, by simpa using hm, ?_⟩
          intro j hj
          simpa using hall (j + 1) (by omega)

/-- **C30 (which error).**  `type_check` fails with error `err` "in instruction n" iff instruction `n` is
the FIRST body instruction whose own check fails, and `err` is that check's error. -/
theorem C30_typeCheck_error_iff (imBig : K → Bool) (Γ : Decls) (body : List (Instr K)) (n : Nat) (err : TypeErr) :
    typeCheck imBig Γ body = .error (n, err) ↔
      n < body.length ∧ (body[n]?.map (checkInstr imBig Γ)) = some (.error err) ∧
        ∀ j < n, (body[j]?.map (checkInstr imBig Γ)) = some (.ok ()) := by
  simp only [typeCheck, typeCheckFrom_error, Nat.zero_add]
  constructor
  · rintro ⟨m, rfl, h⟩; exact h
  · intro h; exact ⟨n, rfl, h⟩

/-- verdict as a Bool -/
def accepts (imBig : K → Bool) (Γ : Decls) (body : List (Instr K)) : Bool :=
  match typeCheck imBig Γ body with
  | .ok _ => true
  | .error _ => false

private theorem accepts_iff (imBig : K → Bool) (Γ : Decls) (body : List (Instr K)) :
    accepts imBig Γ body = true ↔ ∀ i ∈ body, WellTyped (fun z => !imBig z) Γ i := by
  rw [← C30_typeCheck_ok_iff]
  unfold accepts
  cases typeCheck imBig Γ body with
  | error e => simp
  | ok u => cases u; simp

/-- **C30 (order and multiplicity do not matter).**  Two bodies with the same *set* of instructions get the
same verdict under the same declarations. -/
theorem C30_verdict_depends_on_instruction_set (imBig : K → Bool) (Γ : Decls) (b₁ b₂ : List (Instr K))
    (h : ∀ i, i ∈ b₁ ↔ i ∈ b₂) : accepts imBig Γ b₁ = accepts imBig Γ b₂ := by
  rw [Bool.eq_iff_iff, accepts_iff, accepts_iff]
  exact ⟨fun H i hi => H i ((h i).mpr hi), fun H i hi => H i ((h i).mp hi)⟩

/-- reordering -/
theorem C30_perm_invariant (imBig : K → Bool) (Γ : Decls) (b₁ b₂ : List (Instr K)) (h : b₁.Perm b₂) :
    accepts imBig Γ b₁ = accepts imBig Γ b₂ :=
  C30_verdict_depends_on_instruction_set imBig Γ b₁ b₂ (fun _ => h.mem_iff)

/-- duplicating (the whole body, or any instructions already present, anywhere) -/
theorem C30_duplication_invariant (imBig : K → Bool) (Γ : Decls) (b dup : List (Instr K))
    (h : ∀ i ∈ dup, i ∈ b) : accepts imBig Γ (b ++ dup) = accepts imBig Γ b :=
  C30_verdict_depends_on_instruction_set imBig Γ _ _ (fun i => by
    simp only [List.mem_append]; exact ⟨fun hi => hi.elim id (h i), Or.inl⟩)

/-- concatenation: a program is accepted iff both halves are -/
theorem C30_append (imBig : K → Bool) (Γ : Decls) (b₁ b₂ : List (Instr K)) :
    accepts imBig Γ (b₁ ++ b₂) = (accepts imBig Γ b₁ && accepts imBig Γ b₂) := by
  rw [Bool.eq_iff_iff, Bool.and_eq_true, accepts_iff, accepts_iff, accepts_iff]
  simp only [List.mem_append]
  exact ⟨fun H => ⟨fun i hi => H i (Or.inl hi), fun i hi => H i (Or.inr hi)⟩,
         fun H i hi => hi.elim (H.1 i) (H.2 i)⟩

/-! ## 4. Consistent renaming of memory regions -/

private theorem get_rename_on (f : String → String) (Γ : Decls) (n : String)
    (h : ∀ m ∈ Γ.keys, f n = f m → n = m) : (Γ.rename f).get (f n) = Γ.get n := by
  induction Γ with
  | nil => rfl
  | cons p rest ih =>
    obtain ⟨m, t⟩ := p
    have ih' := ih (fun m' hm' => h m' (by simp [Decls.keys] at hm' ⊢; exact Or.inr hm'))
    simp only [Decls.rename, Decls.get, List.map_cons, List.lookup_cons] at *
    by_cases hnm : n = m
    · subst hnm; simp
    · have : f n ≠ f m := fun e => hnm (h m (by simp [Decls.keys]) e)
      simp [beq_eq_false_iff_ne.mpr hnm, beq_eq_false_iff_ne.mpr this]
      exact ih'

private theorem shouldBeReal_rename_on (imBig : K → Bool) (f : String → String) (Γ : Decls) (e : Expr K)
    (h : ∀ a ∈ e.addrs, ∀ m ∈ Γ.keys, f a.name = f m → a.name = m) :
    shouldBeReal imBig (Γ.rename f) (renameExpr f e) = shouldBeReal imBig Γ e := by
  induction e with
  | address r =>
    have := get_rename_on f Γ r.name (h r (by simp [Expr.addrs]))
    simp [renameExpr, shouldBeReal, this]
  | call g e ih => simpa [renameExpr, shouldBeReal] using ih (by simpa [Expr.addrs] using h)
  | bin l o r ihl ihr =>
    have hl := ihl (fun a ha => h a (by simp [Expr.addrs, ha]))
    have hr := ihr (fun a ha => h a (by simp [Expr.addrs, ha]))
    simp [renameExpr, shouldBeReal, hl, hr]
  | number z => simp [renameExpr, shouldBeReal]
  | pi => simp [renameExpr, shouldBeReal]
  | pre o e ih => simpa [renameExpr, shouldBeReal] using ih (by simpa [Expr.addrs] using h)
  | var x => simp [renameExpr, shouldBeReal]

/-- **C30 (renaming), one instruction, weakest hypothesis**: it suffices that `f` does not identify a region
the instruction mentions with a *different* declared region. -/
theorem C30_checkInstr_rename_on (imBig : K → Bool) (f : String → String) (Γ : Decls) (i : Instr K)
    (h : ∀ n ∈ i.names, ∀ m ∈ Γ.keys, f n = f m → n = m) :
    checkInstr imBig (Γ.rename f) (i.rename f) = checkInstr imBig Γ i := by
  cases i with
  | realArg k e =>
    have := shouldBeReal_rename_on imBig f Γ e (fun a ha => h a.name (by simp [Instr.names]; exact ⟨a, ha, rfl⟩))
    simp [Instr.rename, checkInstr, this]
  | arithmetic d s =>
    cases s with
    | litInt =>
      have g0 := get_rename_on f Γ d (h d (by simp [Instr.names, ArithOperand.names, CmpOperand.names, BinOperand.names]))
      rcases ha : Γ.get d with _ | a <;> (try cases a) <;>
        simp [Instr.rename, ArithOperand.rename, CmpOperand.rename, BinOperand.rename, checkInstr, checkArithmetic, checkComparison, checkBinaryLogic, checkBinaryLogicRef, checkUnaryLogic, checkMove, checkExchange, checkLoad, checkStore, g0, ha]
    | litReal =>
      have g0 := get_rename_on f Γ d (h d (by simp [Instr.names, ArithOperand.names, CmpOperand.names, BinOperand.names]))
      rcases ha : Γ.get d with _ | a <;> (try cases a) <;>
        simp [Instr.rename, ArithOperand.rename, CmpOperand.rename, BinOperand.rename, checkInstr, checkArithmetic, checkComparison, checkBinaryLogic, checkBinaryLogicRef, checkUnaryLogic, checkMove, checkExchange, checkLoad, checkStore, g0, ha]
    | mref s =>
      have g0 := get_rename_on f Γ d (h d (by simp [Instr.names, ArithOperand.names, CmpOperand.names, BinOperand.names]))
      have g1 := get_rename_on f Γ s (h s (by simp [Instr.names, ArithOperand.names, CmpOperand.names, BinOperand.names]))
      rcases ha : Γ.get d with _ | a <;> rcases hb : Γ.get s with _ | b <;> (try cases a) <;> (try cases b) <;>
        simp [Instr.rename, ArithOperand.rename, CmpOperand.rename, BinOperand.rename, checkInstr, checkArithmetic, checkComparison, checkBinaryLogic, checkBinaryLogicRef, checkUnaryLogic, checkMove, checkExchange, checkLoad, checkStore, g0, g1, ha, hb]
  | comparison d l r =>
    cases r with
    | litInt =>
      have g0 := get_rename_on f Γ d (h d (by simp [Instr.names, ArithOperand.names, CmpOperand.names, BinOperand.names]))
      have g1 := get_rename_on f Γ l (h l (by simp [Instr.names, ArithOperand.names, CmpOperand.names, BinOperand.names]))
      rcases ha : Γ.get d with _ | a <;> rcases hb : Γ.get l with _ | b <;> (try cases a) <;> (try cases b) <;>
        simp [Instr.rename, ArithOperand.rename, CmpOperand.rename, BinOperand.rename, checkInstr, checkArithmetic, checkComparison, checkBinaryLogic, checkBinaryLogicRef, checkUnaryLogic, checkMove, checkExchange, checkLoad, checkStore, g0, g1, ha, hb]
    | litReal =>
      have g0 := get_rename_on f Γ d (h d (by simp [Instr.names, ArithOperand.names, CmpOperand.names, BinOperand.names]))
      have g1 := get_rename_on f Γ l (h l (by simp [Instr.names, ArithOperand.names, CmpOperand.names, BinOperand.names]))
      rcases ha : Γ.get d with _ | a <;> rcases hb : Γ.get l with _ | b <;> (try cases a) <;> (try cases b) <;>
        simp [Instr.rename, ArithOperand.rename, CmpOperand.rename, BinOperand.rename, checkInstr, checkArithmetic, checkComparison, checkBinaryLogic, checkBinaryLogicRef, checkUnaryLogic, checkMove, checkExchange, checkLoad, checkStore, g0, g1, ha, hb]
    | mref r =>
      have g0 := get_rename_on f Γ d (h d (by simp [Instr.names, ArithOperand.names, CmpOperand.names, BinOperand.names]))
      have g1 := get_rename_on f Γ l (h l (by simp [Instr.names, ArithOperand.names, CmpOperand.names, BinOperand.names]))
      have g2 := get_rename_on f Γ r (h r (by simp [Instr.names, ArithOperand.names, CmpOperand.names, BinOperand.names]))
      rcases ha : Γ.get d with _ | a <;> rcases hb : Γ.get l with _ | b <;> rcases hc : Γ.get r with _ | c <;> (try cases a) <;> (try cases b) <;> (try cases c) <;>
        simp [Instr.rename, ArithOperand.rename, CmpOperand.rename, BinOperand.rename, checkInstr, checkArithmetic, checkComparison, checkBinaryLogic, checkBinaryLogicRef, checkUnaryLogic, checkMove, checkExchange, checkLoad, checkStore, g0, g1, g2, ha, hb, hc]
  | binaryLogic d s =>
    cases s with
    | litInt =>
      have g0 := get_rename_on f Γ d (h d (by simp [Instr.names, ArithOperand.names, CmpOperand.names, BinOperand.names]))
      rcases ha : Γ.get d with _ | a <;> (try cases a) <;>
        simp [Instr.rename, ArithOperand.rename, CmpOperand.rename, BinOperand.rename, checkInstr, checkArithmetic, checkComparison, checkBinaryLogic, checkBinaryLogicRef, checkUnaryLogic, checkMove, checkExchange, checkLoad, checkStore, g0, ha]
    | mref s =>
      have g0 := get_rename_on f Γ d (h d (by simp [Instr.names, ArithOperand.names, CmpOperand.names, BinOperand.names]))
      have g1 := get_rename_on f Γ s (h s (by simp [Instr.names, ArithOperand.names, CmpOperand.names, BinOperand.names]))
      rcases ha : Γ.get d with _ | a <;> rcases hb : Γ.get s with _ | b <;> (try cases a) <;> (try cases b) <;>
        simp [Instr.rename, ArithOperand.rename, CmpOperand.rename, BinOperand.rename, checkInstr, checkArithmetic, checkComparison, checkBinaryLogic, checkBinaryLogicRef, checkUnaryLogic, checkMove, checkExchange, checkLoad, checkStore, g0, g1, ha, hb]
  | unaryLogic op x =>
    cases op with
    | neg =>
      have g0 := get_rename_on f Γ x (h x (by simp [Instr.names, ArithOperand.names, CmpOperand.names, BinOperand.names]))
      rcases ha : Γ.get x with _ | a <;> (try cases a) <;>
        simp [Instr.rename, ArithOperand.rename, CmpOperand.rename, BinOperand.rename, checkInstr, checkArithmetic, checkComparison, checkBinaryLogic, checkBinaryLogicRef, checkUnaryLogic, checkMove, checkExchange, checkLoad, checkStore, g0, ha]
    | not =>
      have g0 := get_rename_on f Γ x (h x (by simp [Instr.names, ArithOperand.names, CmpOperand.names, BinOperand.names]))
      rcases ha : Γ.get x with _ | a <;> (try cases a) <;>
        simp [Instr.rename, ArithOperand.rename, CmpOperand.rename, BinOperand.rename, checkInstr, checkArithmetic, checkComparison, checkBinaryLogic, checkBinaryLogicRef, checkUnaryLogic, checkMove, checkExchange, checkLoad, checkStore, g0, ha]
  | move d s =>
    cases s with
    | litInt =>
      have g0 := get_rename_on f Γ d (h d (by simp [Instr.names, ArithOperand.names, CmpOperand.names, BinOperand.names]))
      rcases ha : Γ.get d with _ | a <;> (try cases a) <;>
        simp [Instr.rename, ArithOperand.rename, CmpOperand.rename, BinOperand.rename, checkInstr, checkArithmetic, checkComparison, checkBinaryLogic, checkBinaryLogicRef, checkUnaryLogic, checkMove, checkExchange, checkLoad, checkStore, g0, ha]
    | litReal =>
      have g0 := get_rename_on f Γ d (h d (by simp [Instr.names, ArithOperand.names, CmpOperand.names, BinOperand.names]))
      rcases ha : Γ.get d with _ | a <;> (try cases a) <;>
        simp [Instr.rename, ArithOperand.rename, CmpOperand.rename, BinOperand.rename, checkInstr, checkArithmetic, checkComparison, checkBinaryLogic, checkBinaryLogicRef, checkUnaryLogic, checkMove, checkExchange, checkLoad, checkStore, g0, ha]
    | mref s =>
      have g0 := get_rename_on f Γ d (h d (by simp [Instr.names, ArithOperand.names, CmpOperand.names, BinOperand.names]))
      have g1 := get_rename_on f Γ s (h s (by simp [Instr.names, ArithOperand.names, CmpOperand.names, BinOperand.names]))
      rcases ha : Γ.get d with _ | a <;> rcases hb : Γ.get s with _ | b <;> (try cases a) <;> (try cases b) <;>
        simp [Instr.rename, ArithOperand.rename, CmpOperand.rename, BinOperand.rename, checkInstr, checkArithmetic, checkComparison, checkBinaryLogic, checkBinaryLogicRef, checkUnaryLogic, checkMove, checkExchange, checkLoad, checkStore, g0, g1, ha, hb]
  | exchange l r =>
      have g0 := get_rename_on f Γ l (h l (by simp [Instr.names, ArithOperand.names, CmpOperand.names, BinOperand.names]))
      have g1 := get_rename_on f Γ r (h r (by simp [Instr.names, ArithOperand.names, CmpOperand.names, BinOperand.names]))
      rcases ha : Γ.get l with _ | a <;> rcases hb : Γ.get r with _ | b <;> (try cases a) <;> (try cases b) <;>
        simp [Instr.rename, ArithOperand.rename, CmpOperand.rename, BinOperand.rename, checkInstr, checkArithmetic, checkComparison, checkBinaryLogic, checkBinaryLogicRef, checkUnaryLogic, checkMove, checkExchange, checkLoad, checkStore, g0, g1, ha, hb]
  | load d s o =>
      have g0 := get_rename_on f Γ d (h d (by simp [Instr.names, ArithOperand.names, CmpOperand.names, BinOperand.names]))
      have g1 := get_rename_on f Γ s (h s (by simp [Instr.names, ArithOperand.names, CmpOperand.names, BinOperand.names]))
      have g2 := get_rename_on f Γ o (h o (by simp [Instr.names, ArithOperand.names, CmpOperand.names, BinOperand.names]))
      rcases ha : Γ.get d with _ | a <;> rcases hb : Γ.get s with _ | b <;> rcases hc : Γ.get o with _ | c <;> (try cases a) <;> (try cases b) <;> (try cases c) <;>
        simp [Instr.rename, ArithOperand.rename, CmpOperand.rename, BinOperand.rename, checkInstr, checkArithmetic, checkComparison, checkBinaryLogic, checkBinaryLogicRef, checkUnaryLogic, checkMove, checkExchange, checkLoad, checkStore, g0, g1, g2, ha, hb, hc]
  | store d o s =>
    cases s with
    | litInt =>
      have g0 := get_rename_on f Γ d (h d (by simp [Instr.names, ArithOperand.names, CmpOperand.names, BinOperand.names]))
      have g1 := get_rename_on f Γ o (h o (by simp [Instr.names, ArithOperand.names, CmpOperand.names, BinOperand.names]))
      rcases ha : Γ.get d with _ | a <;> rcases hb : Γ.get o with _ | b <;> (try cases a) <;> (try cases b) <;>
        simp [Instr.rename, ArithOperand.rename, CmpOperand.rename, BinOperand.rename, checkInstr, checkArithmetic, checkComparison, checkBinaryLogic, checkBinaryLogicRef, checkUnaryLogic, checkMove, checkExchange, checkLoad, checkStore, g0, g1, ha, hb]
    | litReal =>
      have g0 := get_rename_on f Γ d (h d (by simp [Instr.names, ArithOperand.names, CmpOperand.names, BinOperand.names]))
      have g1 := get_rename_on f Γ o (h o (by simp [Instr.names, ArithOperand.names, CmpOperand.names, BinOperand.names]))
      rcases ha : Γ.get d with _ | a <;> rcases hb : Γ.get o with _ | b <;> (try cases a) <;> (try cases b) <;>
        simp [Instr.rename, ArithOperand.rename, CmpOperand.rename, BinOperand.rename, checkInstr, checkArithmetic, checkComparison, checkBinaryLogic, checkBinaryLogicRef, checkUnaryLogic, checkMove, checkExchange, checkLoad, checkStore, g0, g1, ha, hb]
    | mref s =>
      have g0 := get_rename_on f Γ d (h d (by simp [Instr.names, ArithOperand.names, CmpOperand.names, BinOperand.names]))
      have g1 := get_rename_on f Γ o (h o (by simp [Instr.names, ArithOperand.names, CmpOperand.names, BinOperand.names]))
      have g2 := get_rename_on f Γ s (h s (by simp [Instr.names, ArithOperand.names, CmpOperand.names, BinOperand.names]))
      rcases ha : Γ.get d with _ | a <;> rcases hb : Γ.get o with _ | b <;> rcases hc : Γ.get s with _ | c <;> (try cases a) <;> (try cases b) <;> (try cases c) <;>
        simp [Instr.rename, ArithOperand.rename, CmpOperand.rename, BinOperand.rename, checkInstr, checkArithmetic, checkComparison, checkBinaryLogic, checkBinaryLogicRef, checkUnaryLogic, checkMove, checkExchange, checkLoad, checkStore, g0, g1, g2, ha, hb, hc]
  | other => simp [Instr.rename, checkInstr]

/-- **C30 (renaming), programs, weakest hypothesis**: `f` injective on the declared names together with the
names the body mentions. -/
theorem C30_typeCheck_rename_on (imBig : K → Bool) (f : String → String) (Γ : Decls) (body : List (Instr K))
    (h : ∀ a ∈ Γ.keys ++ body.flatMap Instr.names, ∀ b ∈ Γ.keys ++ body.flatMap Instr.names, f a = f b → a = b) :
    typeCheck imBig (Γ.rename f) (body.map (Instr.rename f)) = typeCheck imBig Γ body := by
  unfold typeCheck
  generalize 0 = k
  induction body generalizing k with
  | nil => rfl
  | cons i rest ih =>
    have hi : checkInstr imBig (Γ.rename f) (i.rename f) = checkInstr imBig Γ i :=
      C30_checkInstr_rename_on imBig f Γ i (fun n hn m hm =>
        h n (by simp [List.flatMap_cons]; exact Or.inr (Or.inl hn)) m (by simp; exact Or.inl hm))
    have hrest := ih (fun a ha b hb => h a (by
        simp only [List.flatMap_cons, List.mem_append] at ha ⊢
        exact ha.elim Or.inl (fun x => Or.inr (Or.inr x))) b (by
        simp only [List.flatMap_cons, List.mem_append] at hb ⊢
        exact hb.elim Or.inl (fun x => Or.inr (Or.inr x))))
    simp only [List.map_cons, typeCheckFrom, hi, hrest]


/-- **C30 (renaming), one instruction**: for a globally injective `f` nothing changes — not even the error. -/
theorem C30_checkInstr_rename (imBig : K → Bool) (f : String → String) (hf : ∀ a b, f a = f b → a = b)
    (Γ : Decls) (i : Instr K) :
    checkInstr imBig (Γ.rename f) (i.rename f) = checkInstr imBig Γ i :=
  C30_checkInstr_rename_on imBig f Γ i (fun n _ m _ => hf n m)

/-- **C30 (renaming), programs**: under a consistent injective renaming of memory regions `type_check`
returns the same result: `Ok`, or the same error for the same instruction index. -/
theorem C30_typeCheck_rename (imBig : K → Bool) (f : String → String) (hf : ∀ a b, f a = f b → a = b)
    (Γ : Decls) (body : List (Instr K)) :
    typeCheck imBig (Γ.rename f) (body.map (Instr.rename f)) = typeCheck imBig Γ body :=
  C30_typeCheck_rename_on imBig f Γ body (fun a _ b _ => hf a b)

/-- The hypothesis cannot be dropped: a renaming that identifies two regions of different types changes the
verdict (`MOVE i r` is ill-typed; after sending both names to `i` it is `MOVE i i`). -/
theorem C30_rename_needs_injectivity :
    ∃ (f : String → String) (Γ : Decls) (body : List (Instr Nat)),
      typeCheck (fun _ => false) (Γ.rename f) (body.map (Instr.rename f)) ≠ typeCheck (fun _ => false) Γ body :=
  ⟨fun _ => "i", [("i", .integer), ("r", .real)], [.move "i" (.mref "r")], by
    intro h
    have h' : (Except.ok () : Except (Nat × TypeErr) Unit) = .error (0, .dataTypeMismatch) := h
    cases h'⟩

/-! ## Non-vacuity -/

private def Γ₀ : Decls := [("b", .bit), ("i", .integer), ("o", .octet), ("r", .real)]
private def big : Nat → Bool := fun z => z > 0

-- SET-PHASE 0 "f" sin(r[0]) * (2 + pi)   is real-valued, at depth 2
example : RealExpr (fun z => !big z) Γ₀
    (.bin (.call .sin (.address ⟨"r", 0⟩)) .star (.bin (.number 0) .plus .pi)) :=
  .bin (.call (.address rfl)) (.bin (.number rfl) .pi)
-- … and is accepted by the model
example : shouldBeReal big Γ₀ (.bin (.call .sin (.address ⟨"r", 0⟩)) .star (.bin (.number 0) .plus .pi))
    = .ok () := by rfl
-- a variable three levels down is rejected
example : shouldBeReal big Γ₀ (.pre .minus (.call .cos (.bin .pi .plus (.var "x"))))
    = .error .realValueRequired := by rfl
-- an undeclared region / an INTEGER region inside the expression
example : shouldBeReal big Γ₀ (.bin .pi .plus (.address ⟨"u", 0⟩)) = .error .undefinedMemoryReference := by rfl
example : shouldBeReal big Γ₀ (.bin .pi .plus (.address ⟨"i", 0⟩)) = .error .realValueRequired := by rfl
-- a two-instruction program that type-checks, one that does not (second instruction), and its permutation
example : typeCheck big Γ₀ [.arithmetic "i" .litInt, .comparison "b" "r" .litReal] = .ok () := by rfl
example : typeCheck big Γ₀ [.arithmetic "i" .litInt, .move "r" .litInt] = .error (1, .dataTypeMismatch) := by rfl
example : typeCheck big Γ₀ [.move "r" .litInt, .arithmetic "i" .litInt] = .error (0, .dataTypeMismatch) := by rfl
example : WellTyped (fun z => !big z) Γ₀ (.store "o" "i" (.mref "o")) := .storeRef rfl rfl rfl

end QV.C30
