import QV.Shared.Expr
/-
C30 — executable model of `quil_rs::program::type_check` (quil-rs/src/program/type_check.rs).

What the type checker inspects (the projection done by the harness, `harness/src/bin/c30.rs`):

* of the program: the body `program.instructions` and, of `program.memory_regions`
  (`IndexMap<String, MemoryRegion>`), only `name ↦ size.data_type` — an association list with unique keys;
* of a `MemoryReference`: only its `name` (the index is never looked at);
* of a literal operand: only whether it is an integer or a real literal;
* of an operator (`ArithmeticOperator`, `ComparisonOperator`, `BinaryOperator`): nothing (it only appears in
  the error text) — except `UnaryOperator`, which decides the rule;
* of SET-FREQUENCY / SET-PHASE / SET-SCALE / SHIFT-FREQUENCY / SHIFT-PHASE: which of the five it is and the
  expression (the frame is ignored);
* every other instruction kind is `_ => {}`: `Instr.other`.

Errors: only the variant of `TypeError` (message text, operand rendering are not modelled) and the index of
the body instruction it was raised for (the first one that fails: the loop returns with `?`).
One Lean function per Rust function, same order of `match` arms and guards.
-/
namespace QV.C30
open QV

/-- `ScalarType` (instruction/declaration.rs:30) -/
inductive ScalarType where
  | bit | integer | octet | real
  deriving DecidableEq, Repr, Inhabited

/-- `program.memory_regions` projected to `name ↦ data_type`, in `IndexMap` order (keys unique). -/
abbrev Decls := List (String × ScalarType)

/-- `memory_regions.get(name)` -/
def Decls.get (Γ : Decls) (n : String) : Option ScalarType := Γ.lookup n

/-- `ArithmeticOperand` (classical.rs:67) -/
inductive ArithOperand where
  | litInt | litReal | mref (name : String)
  deriving DecidableEq, Repr, Inhabited

/-- `ComparisonOperand` (classical.rs:477) -/
inductive CmpOperand where
  | litInt | litReal | mref (name : String)
  deriving DecidableEq, Repr, Inhabited

/-- `BinaryOperand` (classical.rs:169) -/
inductive BinOperand where
  | litInt | mref (name : String)
  deriving DecidableEq, Repr, Inhabited

/-- `UnaryOperator` (classical.rs:637) -/
inductive UnaryOp where
  | neg | not
  deriving DecidableEq, Repr, Inhabited

/-- the five instructions whose expression argument must be real (type_check.rs:75-89) -/
inductive FrameKind where
  | setFrequency | setPhase | setScale | shiftFrequency | shiftPhase
  deriving DecidableEq, Repr, Inhabited

/-- An `Instruction` as far as `type_check` looks at it. -/
inductive Instr (K : Type) where
  | realArg (k : FrameKind) (e : Expr K)
  | arithmetic (dst : String) (src : ArithOperand)
  | comparison (dst lhs : String) (rhs : CmpOperand)
  | binaryLogic (dst : String) (src : BinOperand)
  | unaryLogic (op : UnaryOp) (operand : String)
  | move (dst : String) (src : ArithOperand)
  | exchange (left right : String)
  | load (dst src offset : String)
  | store (dst offset : String) (src : ArithOperand)
  | other
  deriving Repr, Inhabited

/-- the variant of `TypeError` (type_check.rs:28-66) -/
inductive TypeErr where
  | undefinedMemoryReference | dataTypeMismatch | realValueRequired | operatorOperandMismatch
  deriving DecidableEq, Repr, Inhabited

abbrev TypeResult := Except TypeErr Unit

variable {K : Type}

/--
`should_be_real` (type_check.rs:219-259).  `imBig z` is `value.im.abs() > f64::EPSILON`.
`Infix` is `should_be_real(left).and(should_be_real(right))`: both sides are computed, the left error wins.
-/
def shouldBeReal (imBig : K → Bool) (Γ : Decls) : Expr K → TypeResult
  | .address r =>
    match Γ.get r.name with
    | some dt => if dt = .real then .ok () else .error .realValueRequired
    | none => .error .undefinedMemoryReference
  | .call _ e => shouldBeReal imBig Γ e
  | .bin l _ r =>
    match shouldBeReal imBig Γ l with
    | .error err => .error err
    | .ok () => shouldBeReal imBig Γ r
  | .number z => if imBig z then .error .realValueRequired else .ok ()
  | .pi => .ok ()
  | .pre _ e => shouldBeReal imBig Γ e
  | .var _ => .error .realValueRequired

/-- `type_check_arithmetic` (type_check.rs:262-310) -/
def checkArithmetic (Γ : Decls) (dst : String) (src : ArithOperand) : TypeResult :=
  match Γ.get dst with
  | some dt =>
    match src, dt with
    | .litInt, .integer => .ok ()
    | .litReal, .real => .ok ()
    | .litInt, .real => .error .dataTypeMismatch
    | .litReal, _ => .error .dataTypeMismatch
    | _, .bit => .error .operatorOperandMismatch
    | _, .octet => .error .operatorOperandMismatch
    | .mref s, _ =>
      match Γ.get s with
      | some st =>
        match st with
        | .bit => .error .operatorOperandMismatch
        | .octet => .error .operatorOperandMismatch
        | st => if dt ≠ st then .error .dataTypeMismatch else .ok ()
      | none => .error .undefinedMemoryReference
  | none => .error .undefinedMemoryReference

/-- `type_check_comparison` (type_check.rs:313-368) -/
def checkComparison (Γ : Decls) (dst lhs : String) (rhs : CmpOperand) : TypeResult :=
  match Γ.get dst, Γ.get lhs with
  | none, _ => .error .undefinedMemoryReference
  | _, none => .error .undefinedMemoryReference
  | some dt, some lt =>
    match dt with
    | .integer => .error .operatorOperandMismatch
    | .octet => .error .operatorOperandMismatch
    | .real => .error .operatorOperandMismatch
    | .bit =>
      match lt, rhs with
      | .real, .litInt => .error .dataTypeMismatch
      | _, .litReal => if lt ≠ .real then .error .dataTypeMismatch else .ok ()
      | _, .mref r =>
        match Γ.get r with
        | some rt => if lt ≠ rt then .error .dataTypeMismatch else .ok ()
        | none => .error .undefinedMemoryReference
      | _, _ => .ok ()

/-- `type_check_binary_logic_memory_reference` (type_check.rs:370-387) -/
def checkBinaryLogicRef (Γ : Decls) (n : String) : TypeResult :=
  match Γ.get n with
  | some .real => .error .operatorOperandMismatch
  | some _ => .ok ()
  | none => .error .undefinedMemoryReference

/-- `type_check_binary_logic` (type_check.rs:390-407) -/
def checkBinaryLogic (Γ : Decls) (dst : String) (src : BinOperand) : TypeResult :=
  match checkBinaryLogicRef Γ dst with
  | .error err => .error err
  | .ok () =>
    match src with
    | .litInt => .ok ()
    | .mref s => checkBinaryLogicRef Γ s

/-- `type_check_unary_logic` (type_check.rs:410-442) -/
def checkUnaryLogic (Γ : Decls) (op : UnaryOp) (operand : String) : TypeResult :=
  match Γ.get operand with
  | some dt =>
    match dt, op with
    | .real, .not => .error .operatorOperandMismatch
    | .bit, .neg => .error .operatorOperandMismatch
    | .octet, .neg => .error .operatorOperandMismatch
    | .real, .neg => .ok ()
    | .integer, .neg => .ok ()
    | .integer, .not => .ok ()
    | .bit, .not => .ok ()
    | .octet, .not => .ok ()
  | none => .error .undefinedMemoryReference

/-- `type_check_move` (type_check.rs:445-474) -/
def checkMove (Γ : Decls) (dst : String) (src : ArithOperand) : TypeResult :=
  match Γ.get dst with
  | some dt =>
    match src, dt with
    | .litInt, .real => .error .dataTypeMismatch
    | .litReal, st => if st ≠ .real then .error .dataTypeMismatch else .ok ()
    | .mref s, dt =>
      match Γ.get s with
      | some st => if st ≠ dt then .error .dataTypeMismatch else .ok ()
      | none => .error .undefinedMemoryReference
    | _, _ => .ok ()
  | none => .error .undefinedMemoryReference

/-- `type_check_exchange` (type_check.rs:477-496) -/
def checkExchange (Γ : Decls) (left right : String) : TypeResult :=
  match Γ.get left, Γ.get right with
  | none, _ => .error .undefinedMemoryReference
  | _, none => .error .undefinedMemoryReference
  | some lt, some rt => if lt ≠ rt then .error .dataTypeMismatch else .ok ()

/-- `type_check_load` (type_check.rs:499-529) -/
def checkLoad (Γ : Decls) (dst src offset : String) : TypeResult :=
  match Γ.get dst, Γ.get src, Γ.get offset with
  | none, _, _ => .error .undefinedMemoryReference
  | _, none, _ => .error .undefinedMemoryReference
  | _, _, none => .error .undefinedMemoryReference
  | some dt, some st, some ot =>
    if ot ≠ .integer then .error .operatorOperandMismatch
    else if dt ≠ st then .error .dataTypeMismatch
    else .ok ()

/-- `type_check_store` (type_check.rs:532-605) -/
def checkStore (Γ : Decls) (dst offset : String) (src : ArithOperand) : TypeResult :=
  match Γ.get dst with
  | none => .error .undefinedMemoryReference
  | some dt =>
    match Γ.get offset with
    | none => .error .undefinedMemoryReference
    | some ot =>
      if ot ≠ .integer then .error .operatorOperandMismatch
      else
        match src, dt with
        | .mref s, dt =>
          match Γ.get s with
          | none => .error .undefinedMemoryReference
          | some st => if st = dt then .ok () else .error .dataTypeMismatch
        | .litInt, .octet => .ok ()
        | .litInt, .integer => .ok ()
        | .litReal, .real => .ok ()
        | .litInt, .bit => .ok ()
        | .litInt, _ => .error .dataTypeMismatch
        | .litReal, _ => .error .dataTypeMismatch

/-- one iteration of the loop of `type_check` (type_check.rs:73-158): the `match instruction { … }` -/
def checkInstr (imBig : K → Bool) (Γ : Decls) : Instr K → TypeResult
  | .realArg _ e => shouldBeReal imBig Γ e
  | .arithmetic d s => checkArithmetic Γ d s
  | .comparison d l r => checkComparison Γ d l r
  | .binaryLogic d s => checkBinaryLogic Γ d s
  | .unaryLogic op x => checkUnaryLogic Γ op x
  | .move d s => checkMove Γ d s
  | .exchange l r => checkExchange Γ l r
  | .load d s o => checkLoad Γ d s o
  | .store d o s => checkStore Γ d o s
  | .other => .ok ()

/-- `for instruction in &program.instructions { … ? }` starting at body index `i`: the first error, with
the index of the instruction it was raised for. -/
def typeCheckFrom (imBig : K → Bool) (Γ : Decls) (i : Nat) : List (Instr K) → Except (Nat × TypeErr) Unit
  | [] => .ok ()
  | ins :: rest =>
    match checkInstr imBig Γ ins with
    | .error err => .error (i, err)
    | .ok () => typeCheckFrom imBig Γ (i + 1) rest

/-- `type_check(program)` (type_check.rs:72-161) -/
def typeCheck (imBig : K → Bool) (Γ : Decls) (body : List (Instr K)) : Except (Nat × TypeErr) Unit :=
  typeCheckFrom imBig Γ 0 body

/-! ### Renaming of memory regions (what the renaming clause of the property is about) -/

def renameExpr (f : String → String) : Expr K → Expr K
  | .address r => .address ⟨f r.name, r.index⟩
  | .call g e => .call g (renameExpr f e)
  | .bin l o r => .bin (renameExpr f l) o (renameExpr f r)
  | .pre o e => .pre o (renameExpr f e)
  | e => e

def ArithOperand.rename (f : String → String) : ArithOperand → ArithOperand
  | .mref n => .mref (f n)
  | o => o
def CmpOperand.rename (f : String → String) : CmpOperand → CmpOperand
  | .mref n => .mref (f n)
  | o => o
def BinOperand.rename (f : String → String) : BinOperand → BinOperand
  | .mref n => .mref (f n)
  | o => o

def Instr.rename (f : String → String) : Instr K → Instr K
  | .realArg k e => .realArg k (renameExpr f e)
  | .arithmetic d s => .arithmetic (f d) (s.rename f)
  | .comparison d l r => .comparison (f d) (f l) (r.rename f)
  | .binaryLogic d s => .binaryLogic (f d) (s.rename f)
  | .unaryLogic op x => .unaryLogic op (f x)
  | .move d s => .move (f d) (s.rename f)
  | .exchange l r => .exchange (f l) (f r)
  | .load d s o => .load (f d) (f s) (f o)
  | .store d o s => .store (f d) (f o) (s.rename f)
  | .other => .other

def Decls.rename (f : String → String) (Γ : Decls) : Decls := Γ.map fun (n, t) => (f n, t)

/-- the region names an operand / instruction mentions (for the renaming theorem's hypothesis) -/
def ArithOperand.names : ArithOperand → List String
  | .mref n => [n]
  | _ => []
def CmpOperand.names : CmpOperand → List String
  | .mref n => [n]
  | _ => []
def BinOperand.names : BinOperand → List String
  | .mref n => [n]
  | _ => []
def Instr.names : Instr K → List String
  | .realArg _ e => e.addrs.map (·.name)
  | .arithmetic d s => d :: s.names
  | .comparison d l r => d :: l :: r.names
  | .binaryLogic d s => d :: s.names
  | .unaryLogic _ x => [x]
  | .move d s => d :: s.names
  | .exchange l r => [l, r]
  | .load d s o => [d, s, o]
  | .store d o s => d :: o :: s.names
  | .other => []
/-- the declared region names -/
def Decls.keys (Γ : Decls) : List String := Γ.map Prod.fst

end QV.C30
