import QV.C30.Model
/-
C30 — the typing rules as an inductive judgement (the specification; import-free so that the driver can
evaluate the Bool checkers on the IMPLEMENTATION's verdicts).

Written from the property text and the Quil specification's table of classical instructions, without
reference to the order in which `type_check.rs` tests things:

* an expression argument of SET-*/SHIFT-* is real-valued: declared REAL memory, real numbers or pi, combined
  by functions, prefix and infix operators at any depth; never a variable (`RealExpr`);
* ADD/SUB/MUL/DIV: destination INTEGER with an integer literal, REAL with a real literal, or destination and
  source memory of the same type, INTEGER or REAL;
* EQ/GT/GE/LT/LE: destination BIT; left operand memory of the same type as the right memory operand, or
  non-REAL against an integer literal, or REAL against a real literal;
* AND/IOR/XOR: no operand is REAL; NEG: INTEGER or REAL; NOT: not REAL;
* MOVE: same types, integer literal into non-REAL, real literal into REAL; EXCHANGE: same types;
* LOAD/STORE: offset INTEGER, source and destination of the same type (integer literal into non-REAL, real
  literal into REAL);
* every memory region mentioned is declared; every other instruction is accepted.
-/
namespace QV.C30
open QV

variable {K : Type}

/-- "real-valued": `isRealLit z` says the literal `z` counts as a real number (`¬ |im z| > f64::EPSILON`). -/
inductive RealExpr (isRealLit : K → Bool) (Γ : Decls) : Expr K → Prop where
  | address {r : MemRef} : Γ.get r.name = some .real → RealExpr isRealLit Γ (.address r)
  | call {f e} : RealExpr isRealLit Γ e → RealExpr isRealLit Γ (.call f e)
  | bin {l o r} : RealExpr isRealLit Γ l → RealExpr isRealLit Γ r → RealExpr isRealLit Γ (.bin l o r)
  | number {z} : isRealLit z = true → RealExpr isRealLit Γ (.number z)
  | pi : RealExpr isRealLit Γ .pi
  | pre {o e} : RealExpr isRealLit Γ e → RealExpr isRealLit Γ (.pre o e)

/-- the numeric literals of an expression, left to right -/
def literals : Expr K → List K
  | .number z => [z]
  | .call _ e => literals e
  | .bin l _ r => literals l ++ literals r
  | .pre _ e => literals e
  | _ => []

/-- what is wrong with each leaf of an expression, left to right (nothing for a good leaf) -/
def leafErrors (imBig : K → Bool) (Γ : Decls) : Expr K → List TypeErr
  | .address r =>
    match Γ.get r.name with
    | some .real => []
    | some _ => [.realValueRequired]
    | none => [.undefinedMemoryReference]
  | .call _ e => leafErrors imBig Γ e
  | .bin l _ r => leafErrors imBig Γ l ++ leafErrors imBig Γ r
  | .number z => if imBig z then [.realValueRequired] else []
  | .pi => []
  | .pre _ e => leafErrors imBig Γ e
  | .var _ => [.realValueRequired]

/-- INTEGER or REAL -/
def ScalarType.numeric : ScalarType → Prop
  | .integer => True
  | .real => True
  | _ => False

instance : DecidablePred ScalarType.numeric := fun t => by
  cases t <;> simp only [ScalarType.numeric] <;> infer_instance

/-- `Γ ⊢ i ok` -/
inductive WellTyped (isRealLit : K → Bool) (Γ : Decls) : Instr K → Prop where
  | realArg {k e} : RealExpr isRealLit Γ e → WellTyped isRealLit Γ (.realArg k e)
  | arithInt {d} : Γ.get d = some .integer → WellTyped isRealLit Γ (.arithmetic d .litInt)
  | arithReal {d} : Γ.get d = some .real → WellTyped isRealLit Γ (.arithmetic d .litReal)
  | arithRef {d s t} : Γ.get d = some t → Γ.get s = some t → t.numeric →
      WellTyped isRealLit Γ (.arithmetic d (.mref s))
  | cmpInt {d l t} : Γ.get d = some .bit → Γ.get l = some t → t ≠ .real →
      WellTyped isRealLit Γ (.comparison d l .litInt)
  | cmpReal {d l} : Γ.get d = some .bit → Γ.get l = some .real →
      WellTyped isRealLit Γ (.comparison d l .litReal)
  | cmpRef {d l r t} : Γ.get d = some .bit → Γ.get l = some t → Γ.get r = some t →
      WellTyped isRealLit Γ (.comparison d l (.mref r))
  | logicInt {d t} : Γ.get d = some t → t ≠ .real → WellTyped isRealLit Γ (.binaryLogic d .litInt)
  | logicRef {d s t t'} : Γ.get d = some t → t ≠ .real → Γ.get s = some t' → t' ≠ .real →
      WellTyped isRealLit Γ (.binaryLogic d (.mref s))
  | neg {x t} : Γ.get x = some t → t.numeric → WellTyped isRealLit Γ (.unaryLogic .neg x)
  | not {x t} : Γ.get x = some t → t ≠ .real → WellTyped isRealLit Γ (.unaryLogic .not x)
  | moveInt {d t} : Γ.get d = some t → t ≠ .real → WellTyped isRealLit Γ (.move d .litInt)
  | moveReal {d} : Γ.get d = some .real → WellTyped isRealLit Γ (.move d .litReal)
  | moveRef {d s t} : Γ.get d = some t → Γ.get s = some t → WellTyped isRealLit Γ (.move d (.mref s))
  | exchange {l r t} : Γ.get l = some t → Γ.get r = some t → WellTyped isRealLit Γ (.exchange l r)
  | load {d s o t} : Γ.get d = some t → Γ.get s = some t → Γ.get o = some .integer →
      WellTyped isRealLit Γ (.load d s o)
  | storeInt {d o t} : Γ.get d = some t → t ≠ .real → Γ.get o = some .integer →
      WellTyped isRealLit Γ (.store d o .litInt)
  | storeReal {d o} : Γ.get d = some .real → Γ.get o = some .integer →
      WellTyped isRealLit Γ (.store d o .litReal)
  | storeRef {d o s t} : Γ.get d = some t → Γ.get o = some .integer → Γ.get s = some t →
      WellTyped isRealLit Γ (.store d o (.mref s))
  | other : WellTyped isRealLit Γ .other

/-! ### Bool checkers (what the driver evaluates), written rule by rule like the judgement -/

def realExprB (isRealLit : K → Bool) (Γ : Decls) : Expr K → Bool
  | .address r => Γ.get r.name == some .real
  | .call _ e => realExprB isRealLit Γ e
  | .bin l _ r => realExprB isRealLit Γ l && realExprB isRealLit Γ r
  | .number z => isRealLit z
  | .pi => true
  | .pre _ e => realExprB isRealLit Γ e
  | .var _ => false

/-- the region is declared with a type satisfying `p` -/
def hasType (Γ : Decls) (n : String) (p : ScalarType → Bool) : Bool :=
  match Γ.get n with
  | some t => p t
  | none => false

/-- both regions are declared, with the same type, which satisfies `p` -/
def sameType (Γ : Decls) (a b : String) (p : ScalarType → Bool := fun _ => true) : Bool :=
  match Γ.get a, Γ.get b with
  | some t, some t' => t == t' && p t
  | _, _ => false

def isNumeric (t : ScalarType) : Bool := t == .integer || t == .real
def notReal (t : ScalarType) : Bool := t != .real
def isReal (t : ScalarType) : Bool := t == .real
def isInteger (t : ScalarType) : Bool := t == .integer
def isBit (t : ScalarType) : Bool := t == .bit

def wellTypedB (isRealLit : K → Bool) (Γ : Decls) : Instr K → Bool
  | .realArg _ e => realExprB isRealLit Γ e
  | .arithmetic d .litInt => hasType Γ d isInteger
  | .arithmetic d .litReal => hasType Γ d isReal
  | .arithmetic d (.mref s) => sameType Γ d s isNumeric
  | .comparison d l .litInt => hasType Γ d isBit && hasType Γ l notReal
  | .comparison d l .litReal => hasType Γ d isBit && hasType Γ l isReal
  | .comparison d l (.mref r) => hasType Γ d isBit && sameType Γ l r
  | .binaryLogic d .litInt => hasType Γ d notReal
  | .binaryLogic d (.mref s) => hasType Γ d notReal && hasType Γ s notReal
  | .unaryLogic .neg x => hasType Γ x isNumeric
  | .unaryLogic .not x => hasType Γ x notReal
  | .move d .litInt => hasType Γ d notReal
  | .move d .litReal => hasType Γ d isReal
  | .move d (.mref s) => sameType Γ d s
  | .exchange l r => sameType Γ l r
  | .load d s o => sameType Γ d s && hasType Γ o isInteger
  | .store d o .litInt => hasType Γ d notReal && hasType Γ o isInteger
  | .store d o .litReal => hasType Γ d isReal && hasType Γ o isInteger
  | .store d o (.mref s) => sameType Γ d s && hasType Γ o isInteger
  | .other => true

/-- "each body instruction type-checks on its own" -/
def allWellTypedB (isRealLit : K → Bool) (Γ : Decls) (body : List (Instr K)) : Bool :=
  body.all (wellTypedB isRealLit Γ)

end QV.C30
