import QV.Shared.Sched
/-
C25 — Computed schedules are as-soon-as-possible and frame-exclusive.

  "When a block's schedule in seconds can be computed, every timed instruction appears exactly once, with the
   documented duration, starting when its last timed predecessor ends (or at 0). No two instructions where
   one uses a frame the other uses or blocks overlap in time, and the schedule's duration is the latest end
   time. When calibrations are expanded first, each source instruction's time span exactly covers the spans
   of what it expanded to."

Times are integers (exact multiples of 2⁻¹⁰ s on the wire); the f64 arithmetic of the running code is the
declared partial part.
-/
namespace QV.C25
open QV.Sched

/-- the ASAP specification of a flat schedule against a dependency graph and a duration function -/
structure AsapSpec (L : Nat) (es : List Edge) (dur : Nat → Option Int) (items : List SItem) (D : Int) : Prop where
  /-- every instruction of the block appears, … -/
  all : ∀ i, i < L → ∃ x ∈ items, x.index = i
  /-- … only instructions of the block appear, … -/
  inRange : ∀ x ∈ items, x.index < L
  /-- … and each exactly once -/
  once : (items.map (·.index)).Nodup
  /-- with the documented duration -/
  durs : ∀ x ∈ items, dur x.index = some x.dur
  nonneg : ∀ x ∈ items, 0 ≤ x.start
  /-- no instruction starts before a `Scheduled` predecessor has ended … -/
  after : ∀ x ∈ items, ∀ e ∈ es, e.label = .scheduled → e.dst = .instr x.index →
    e.src = .start ∨ ∃ y ∈ items, e.src = .instr y.index ∧ y.stop ≤ x.start
  /-- … and it starts exactly when the last one ends, or at 0 -/
  tight : ∀ x ∈ items, x.start = 0 ∨ ∃ e ∈ es, e.label = .scheduled ∧ e.dst = .instr x.index ∧
    ∃ y ∈ items, e.src = .instr y.index ∧ y.stop = x.start
  /-- the schedule's duration is the latest end time (0 for an empty schedule) -/
  total : (∀ x ∈ items, x.stop ≤ D) ∧ (D = 0 ∨ ∃ x ∈ items, x.stop = D) ∧ 0 ≤ D

/-- spans of two instructions do not overlap: the earlier one (in block order) ends before the later starts -/
def Exclusive (b : Block) (items : List SItem) : Prop :=
  ∀ x ∈ items, ∀ y ∈ items, x.index < y.index → ∀ p q, b.instrs[x.index]? = some p → b.instrs[y.index]? = some q →
    (∃ f k1 k2, (f, k1) ∈ frameAccesses p ∧ (f, k2) ∈ frameAccesses q ∧ Conflict k1 k2) → x.stop ≤ y.start

/-- each source instruction's span is the hull of the spans of the instructions it expanded to: `lens[s]` expanded
instructions starting at index `first s`; a source instruction that expanded to nothing has no item -/
structure HullSpec (lens : List Nat) (flat : List SItem) (out : List SItem) (D : Int) : Prop where
  once : (out.map (·.index)).Nodup
  hull : ∀ x ∈ out, ∃ first len, (firstIndices lens 0 0)[x.index]? = some (first, x.index) ∧ lens[x.index]? = some len ∧
    0 < len ∧
    (∀ y ∈ flat, first ≤ y.index → y.index < first + len → x.start ≤ y.start ∧ y.stop ≤ x.stop) ∧
    (∃ y ∈ flat, first ≤ y.index ∧ y.index < first + len ∧ y.start = x.start) ∧
    (∃ y ∈ flat, first ≤ y.index ∧ y.index < first + len ∧ y.stop = x.stop)
  present : ∀ s len, lens[s]? = some len → 0 < len → (∃ x ∈ out, x.index = s)
  total : (∀ x ∈ out, x.stop ≤ D) ∧ (D = 0 ∨ ∃ x ∈ out, x.stop = D) ∧ 0 ≤ D

/-! Bool checkers (evaluated on the implementation's output) -/

def findItem (items : List SItem) (i : Nat) : Option SItem := items.find? (·.index = i)

def asapB (L : Nat) (es : List Edge) (dur : Nat → Option Int) (items : List SItem) (D : Int) : Bool :=
  (List.range L).all (fun i => items.any (·.index = i)) &&
  items.all (fun x => decide (x.index < L)) &&
  decide ((items.map (·.index)).Nodup) &&
  items.all (fun x => dur x.index = some x.dur && decide (0 ≤ x.start)) &&
  items.all (fun x => es.all fun e =>
    !(e.label = .scheduled && e.dst = .instr x.index) ||
    (decide (e.src = .start) || items.any fun y => e.src = .instr y.index && decide (y.stop ≤ x.start))) &&
  items.all (fun x => decide (x.start = 0) || es.any fun e =>
    e.label = .scheduled && e.dst = .instr x.index &&
    items.any fun y => e.src = .instr y.index && decide (y.stop = x.start)) &&
  items.all (fun x => decide (x.stop ≤ D)) && (decide (D = 0) || items.any fun x => decide (x.stop = D)) && decide (0 ≤ D)

def exclusiveB (b : Block) (items : List SItem) : Bool :=
  items.all fun x => items.all fun y =>
    !(decide (x.index < y.index)) ||
    match b.instrs[x.index]?, b.instrs[y.index]? with
    | some p, some q =>
      !((frameAccesses p).any fun a => (frameAccesses q).any fun c => a.1 = c.1 && (a.2.isWrite || c.2.isWrite)) ||
      decide (x.stop ≤ y.start)
    | _, _ => true

def hullB (lens : List Nat) (flat : List SItem) (out : List SItem) (D : Int) : Bool :=
  let firsts := firstIndices lens 0 0
  decide ((out.map (·.index)).Nodup) &&
  out.all (fun x =>
    match firsts[x.index]?, lens[x.index]? with
    | some (first, s), some len =>
      decide (s = x.index) && decide (0 < len) &&
      (flat.all fun y => !(decide (first ≤ y.index) && decide (y.index < first + len)) ||
        (decide (x.start ≤ y.start) && decide (y.stop ≤ x.stop))) &&
      (flat.any fun y => decide (first ≤ y.index) && decide (y.index < first + len) && decide (y.start = x.start)) &&
      (flat.any fun y => decide (first ≤ y.index) && decide (y.index < first + len) && decide (y.stop = x.stop))
    | _, _ => false) &&
  (lens.zipIdx.all fun (len, s) => len == 0 || out.any (·.index = s)) &&
  out.all (fun x => decide (x.stop ≤ D)) && (decide (D = 0) || out.any fun x => decide (x.stop = D)) && decide (0 ≤ D)

end QV.C25
