import QV.Shared.SchedFrames
import QV.C24.Props
import QV.C25.Spec
import QV.C25.Lemmas
import QV.Shared.HandlerLemmas
/-
C25 — Computed schedules are as-soon-as-possible and frame-exclusive.  Property theorems only.
Times are `Int` (exact units); nothing here is about floating point.
-/
namespace QV.C25
open QV.Sched

/-! ### helpers about the loop -/

private theorem maxFrom_ge (z : Int) (xs : List Int) : z ≤ maxFrom z xs ∧ (∀ t ∈ xs, t ≤ maxFrom z xs) ∧
    (maxFrom z xs = z ∨ maxFrom z xs ∈ xs) := by
  induction xs generalizing z with
  | nil => simp [maxFrom]
  | cons x xs ih =>
    simp only [maxFrom, List.foldl_cons]
    by_cases h : x > z
    · simp only [h, if_true]
      obtain ⟨h1, h2, h3⟩ := ih x
      refine ⟨by simp only [maxFrom] at h1; omega, ?_, ?_⟩
      · intro t ht
        rcases List.mem_cons.1 ht with rfl | ht
        · exact h1
        · exact h2 t ht
      · rcases h3 with h3 | h3
        · right; simp only [maxFrom] at h3; rw [h3]; simp
        · right; exact List.mem_cons_of_mem _ h3
    · simp only [h, if_false]
      obtain ⟨h1, h2, h3⟩ := ih z
      refine ⟨h1, ?_, ?_⟩
      · intro t ht
        rcases List.mem_cons.1 ht with rfl | ht
        · simp only [maxFrom] at h1; omega
        · exact h2 t ht
      · exact h3.imp id (List.mem_cons_of_mem _)

private theorem predEnds_spec (es0 : List Edge) (ends : List (Nat × Int)) (v : Node) :
    ∀ (es : List Edge) (xs : List Int), predEnds es0 ends v es = some (some xs) →
      (∀ e ∈ es, e.dst = v → e.label = .scheduled →
        (e.src = .start ∧ (0 : Int) ∈ xs) ∨ ∃ p t, e.src = .instr p ∧ ends.lookup p = some t ∧ t ∈ xs) ∧
      (∀ t ∈ xs, ∃ e ∈ es, e.dst = v ∧ e.label = .scheduled ∧
        ((e.src = .start ∧ t = 0) ∨ ∃ p, e.src = .instr p ∧ ends.lookup p = some t)) := by
  intro es
  induction es with
  | nil =>
    intro xs h
    simp only [predEnds, Option.some.injEq] at h
    subst h
    simp
  | cons e rest ih =>
    intro xs h
    simp only [predEnds] at h
    split at h
    · rename_i hc
      cases hsrc : e.src with
      | start =>
        simp only [hsrc] at h
        obtain ⟨o, ho, h⟩ : ∃ o, predEnds es0 ends v rest = some o ∧ o.map (0 :: ·) = some xs := by
          cases hp : predEnds es0 ends v rest with
          | none => simp [hp] at h
          | some o => exact ⟨o, rfl, by simpa [hp] using h⟩
        obtain ⟨ys, rfl, rfl⟩ : ∃ ys, o = some ys ∧ xs = 0 :: ys := by
          cases o with
          | none => simp at h
          | some ys =>
            simp only [Option.map_some, Option.some.injEq] at h
            exact ⟨ys, rfl, h.symm⟩
        obtain ⟨i1, i2⟩ := ih ys ho
        constructor
        · intro e' he' hd hl
          rcases List.mem_cons.1 he' with rfl | he'
          · exact .inl ⟨hsrc, by simp⟩
          · rcases i1 e' he' hd hl with ⟨a, b⟩ | ⟨p, t, a, b, c⟩
            · exact .inl ⟨a, List.mem_cons_of_mem _ b⟩
            · exact .inr ⟨p, t, a, b, List.mem_cons_of_mem _ c⟩
        · intro t ht
          rcases List.mem_cons.1 ht with rfl | ht
          · exact ⟨e, List.mem_cons_self, hc.1, hc.2, .inl ⟨hsrc, rfl⟩⟩
          · obtain ⟨e', he', a⟩ := i2 t ht
            exact ⟨e', List.mem_cons_of_mem _ he', a⟩
      | instr p =>
        simp only [hsrc] at h
        cases hl : ends.lookup p with
        | none => simp [hl] at h
        | some t0 =>
          simp only [hl] at h
          obtain ⟨o, ho, h⟩ : ∃ o, predEnds es0 ends v rest = some o ∧ o.map (t0 :: ·) = some xs := by
            cases hp : predEnds es0 ends v rest with
            | none => simp [hp] at h
            | some o => exact ⟨o, rfl, by simpa [hp] using h⟩
          obtain ⟨ys, rfl, rfl⟩ : ∃ ys, o = some ys ∧ xs = t0 :: ys := by
            cases o with
            | none => simp at h
            | some ys =>
              simp only [Option.map_some, Option.some.injEq] at h
              exact ⟨ys, rfl, h.symm⟩
          obtain ⟨i1, i2⟩ := ih ys ho
          constructor
          · intro e' he' hd hl'
            rcases List.mem_cons.1 he' with rfl | he'
            · exact .inr ⟨p, t0, hsrc, hl, by simp⟩
            · rcases i1 e' he' hd hl' with ⟨a, b⟩ | ⟨p', t, a, b, c⟩
              · exact .inl ⟨a, List.mem_cons_of_mem _ b⟩
              · exact .inr ⟨p', t, a, b, List.mem_cons_of_mem _ c⟩
          · intro t ht
            rcases List.mem_cons.1 ht with rfl | ht
            · exact ⟨e, List.mem_cons_self, hc.1, hc.2, .inr ⟨p, hsrc, hl⟩⟩
            · obtain ⟨e', he', a⟩ := i2 t ht
              exact ⟨e', List.mem_cons_of_mem _ he', a⟩
      | stop => simp [hsrc] at h
    · rename_i hc
      obtain ⟨i1, i2⟩ := ih xs h
      constructor
      · intro e' he' hd hl
        rcases List.mem_cons.1 he' with rfl | he'
        · exact absurd ⟨hd, hl⟩ hc
        · exact i1 e' he' hd hl
      · intro t ht
        obtain ⟨e', he', a⟩ := i2 t ht
        exact ⟨e', List.mem_cons_of_mem _ he', a⟩

private theorem lookup_ends (items : List SItem) (p : Nat) (t : Int)
    (h : (items.map fun x => (x.index, x.stop)).lookup p = some t) : ∃ y ∈ items, y.index = p ∧ y.stop = t := by
  induction items with
  | nil => simp at h
  | cons x xs ih =>
    simp only [List.map_cons, List.lookup_cons] at h
    split at h
    · rename_i heq
      simp only [Option.some.injEq] at h
      have hp : p = x.index := by simpa using heq
      exact ⟨x, List.mem_cons_self, hp.symm, h⟩
    · obtain ⟨y, hy, a⟩ := ih h
      exact ⟨y, List.mem_cons_of_mem _ hy, a⟩

private theorem eq_of_index : ∀ (items : List SItem), (items.map (·.index)).Nodup →
    ∀ x ∈ items, ∀ z ∈ items, x.index = z.index → x = z := by
  intro items
  induction items with
  | nil => intro _ x hx; simp at hx
  | cons a as ih =>
    intro hnd x hx z hz h
    simp only [List.map_cons, List.nodup_cons] at hnd
    rcases List.mem_cons.1 hx with rfl | hx'
    · rcases List.mem_cons.1 hz with rfl | hz'
      · rfl
      · exact absurd (List.mem_map.2 ⟨z, hz', h.symm⟩) hnd.1
    · rcases List.mem_cons.1 hz with rfl | hz'
      · exact absurd (List.mem_map.2 ⟨x, hx', h⟩) hnd.1
      · exact ih hnd.2 x hx' z hz' h

/-- the state invariant of the scheduling loop -/
private structure LoopInv (L : Nat) (es : List Edge) (dur : Nat → Option Int) (done : List Node)
    (ends : List (Nat × Int)) (items : List SItem) (D : Int) : Prop where
  ends_eq : ends = items.map fun x => (x.index, x.stop)
  visited : ∀ x ∈ items, .instr x.index ∈ done
  covers : ∀ i, Node.instr i ∈ done → ∃ x ∈ items, x.index = i
  inRange : ∀ x ∈ items, x.index < L
  once : (items.map (·.index)).Nodup
  durs : ∀ x ∈ items, dur x.index = some x.dur
  nonneg : ∀ x ∈ items, 0 ≤ x.start
  after : ∀ x ∈ items, ∀ e ∈ es, e.label = .scheduled → e.dst = .instr x.index →
    e.src = .start ∨ ∃ y ∈ items, e.src = .instr y.index ∧ y.stop ≤ x.start
  tight : ∀ x ∈ items, x.start = 0 ∨ ∃ e ∈ es, e.label = .scheduled ∧ e.dst = .instr x.index ∧
    ∃ y ∈ items, e.src = .instr y.index ∧ y.stop = x.start
  total : (∀ x ∈ items, x.stop ≤ D) ∧ (D = 0 ∨ ∃ x ∈ items, x.stop = D) ∧ 0 ≤ D

private theorem loop_inv (L : Nat) (es : List Edge) (dur : Nat → Option Int) :
    ∀ (rest done : List Node) (ends : List (Nat × Int)) (items : List SItem) (D : Int) (out : List SItem) (Dout : Int),
      scheduleLoop L es dur rest ends items D = .ok out Dout →
      LoopInv L es dur done ends items D → (∀ n ∈ rest, n ∉ done) → rest.Nodup →
      ∃ fin, out = fin.reverse ∧ LoopInv L es dur (done ++ rest) (fin.map fun x => (x.index, x.stop)) fin Dout := by
  intro rest
  induction rest with
  | nil =>
    intro done ends items D out Dout h inv _ _
    simp only [scheduleLoop, SchedOutcome.ok.injEq] at h
    obtain ⟨rfl, rfl⟩ := h
    refine ⟨items, rfl, ?_⟩
    rw [List.append_nil, ← inv.ends_eq]; exact inv
  | cons n rest ih =>
    intro done ends items D out Dout h inv hfresh hnd
    rw [List.nodup_cons] at hnd
    have hfresh' : ∀ m ∈ rest, m ∉ done ++ [n] := by
      intro m hm hin
      rcases List.mem_append.1 hin with hin | hin
      · exact hfresh m (List.mem_cons_of_mem _ hm) hin
      · simp only [List.mem_singleton] at hin
        subst hin; exact hnd.1 hm
    have skip : (∀ i, n ≠ .instr i) → scheduleLoop L es dur rest ends items D = .ok out Dout →
        ∃ fin, out = fin.reverse ∧ LoopInv L es dur (done ++ n :: rest) (fin.map fun x => (x.index, x.stop)) fin Dout := by
      intro hn h'
      have inv' : LoopInv L es dur (done ++ [n]) ends items D :=
        { inv with
          visited := fun x hx => List.mem_append_left _ (inv.visited x hx)
          covers := fun i hi => by
            rcases List.mem_append.1 hi with hi | hi
            · exact inv.covers i hi
            · simp only [List.mem_singleton] at hi
              exact absurd hi.symm (hn i) }
      have := ih (done ++ [n]) ends items D out Dout h' inv' hfresh' hnd.2
      simpa [List.append_assoc] using this
    cases n with
    | start => exact skip (fun i => by simp) (by simpa [scheduleLoop] using h)
    | stop => exact skip (fun i => by simp) (by simpa [scheduleLoop] using h)
    | instr i =>
      simp only [scheduleLoop] at h
      split at h
      · cases h
      · rename_i hiL
        split at h
        · cases h
        · rename_i d hd
          split at h
          · cases h
          · cases h
          · rename_i xs hxs
            obtain ⟨p1, p2⟩ := predEnds_spec es ends (.instr i) es xs hxs
            obtain ⟨m1, m2, m3⟩ := maxFrom_ge 0 xs
            let x : SItem := ⟨i, maxFrom 0 xs, d⟩
            have hnew : ∀ y ∈ items, y.index ≠ i := by
              intro y hy heq
              have := inv.visited y hy
              rw [heq] at this
              exact hfresh _ List.mem_cons_self this
            have inv' : LoopInv L es dur (done ++ [.instr i]) ((i, maxFrom 0 xs + d) :: ends) (x :: items)
                (if D < maxFrom 0 xs + d then maxFrom 0 xs + d else D) := by
              refine ⟨?_, ?_, ?_, ?_, ?_, ?_, ?_, ?_, ?_, ?_⟩
              · simp [x, SItem.stop, inv.ends_eq]
              · intro y hy
                rcases List.mem_cons.1 hy with rfl | hy
                · simp [x]
                · exact List.mem_append_left _ (inv.visited y hy)
              · intro j hj
                rcases List.mem_append.1 hj with hj | hj
                · obtain ⟨y, hy, h1⟩ := inv.covers j hj
                  exact ⟨y, List.mem_cons_of_mem _ hy, h1⟩
                · simp only [List.mem_singleton, Node.instr.injEq] at hj
                  exact ⟨x, List.mem_cons_self, hj.symm⟩
              · intro y hy
                rcases List.mem_cons.1 hy with rfl | hy
                · simp only [x]; omega
                · exact inv.inRange y hy
              · simp only [List.map_cons, List.nodup_cons]
                refine ⟨?_, inv.once⟩
                intro hin
                obtain ⟨y, hy, h1⟩ := List.mem_map.1 hin
                exact hnew y hy h1
              · intro y hy
                rcases List.mem_cons.1 hy with rfl | hy
                · exact hd
                · exact inv.durs y hy
              · intro y hy
                rcases List.mem_cons.1 hy with rfl | hy
                · exact m1
                · exact inv.nonneg y hy
              · intro y hy e he hl hdst
                rcases List.mem_cons.1 hy with rfl | hy
                · rcases p1 e he hdst hl with ⟨a, _⟩ | ⟨p, t, a, b, c⟩
                  · exact .inl a
                  · rw [inv.ends_eq] at b
                    obtain ⟨z, hz, z1, z2⟩ := lookup_ends items p t b
                    refine .inr ⟨z, List.mem_cons_of_mem _ hz, by rw [a, z1], ?_⟩
                    rw [z2]; exact m2 t c
                · rcases inv.after y hy e he hl hdst with a | ⟨z, hz, a⟩
                  · exact .inl a
                  · exact .inr ⟨z, List.mem_cons_of_mem _ hz, a⟩
              · intro y hy
                rcases List.mem_cons.1 hy with rfl | hy
                · rcases m3 with m3 | m3
                  · exact .inl m3
                  · obtain ⟨e, he, h1, h2, h3⟩ := p2 _ m3
                    rcases h3 with ⟨_, h4⟩ | ⟨p, a, b⟩
                    · exact .inl h4
                    · rw [inv.ends_eq] at b
                      obtain ⟨z, hz, z1, z2⟩ := lookup_ends items p _ b
                      exact .inr ⟨e, he, h2, h1, z, List.mem_cons_of_mem _ hz, by rw [a, z1], z2⟩
                · rcases inv.tight y hy with a | ⟨e, he, h1, h2, z, hz, a⟩
                  · exact .inl a
                  · exact .inr ⟨e, he, h1, h2, z, List.mem_cons_of_mem _ hz, a⟩
              · obtain ⟨t1, t2, t3⟩ := inv.total
                refine ⟨?_, ?_, ?_⟩
                · intro y hy
                  rcases List.mem_cons.1 hy with rfl | hy
                  · simp only [x, SItem.stop]; split <;> omega
                  · have := t1 y hy; split <;> omega
                · split
                  · exact .inr ⟨x, List.mem_cons_self, rfl⟩
                  · exact t2.imp id fun ⟨y, hy, a⟩ => ⟨y, List.mem_cons_of_mem _ hy, a⟩
                · split <;> omega
            have := ih (done ++ [.instr i]) _ _ _ out Dout h inv' hfresh' hnd.2
            simpa [List.append_assoc] using this

/-- **C25 (ASAP), any number of instructions, any visiting order.** Whenever the scheduling loop succeeds while
visiting the nodes in *any* duplicate-free order that contains every instruction node of the block, the
result satisfies the ASAP specification: every instruction exactly once with its documented duration, no
start before the end of a `Scheduled` predecessor, start equal to the latest such end (or 0), duration equal
to the latest end. -/
theorem C25_asap (L : Nat) (order : List Node) (es : List Edge) (dur : Nat → Option Int)
    (items : List SItem) (D : Int) (hnd : order.Nodup) (hall : ∀ i, i < L → Node.instr i ∈ order)
    (h : asSchedule L order es dur = .ok items D) : AsapSpec L es dur items D := by
  have inv0 : LoopInv L es dur [] [] [] 0 :=
    ⟨rfl, by simp, by simp, by simp, by simp, by simp, by simp, by simp, by simp, by simp⟩
  obtain ⟨fin, rfl, inv⟩ := loop_inv L es dur order [] [] [] 0 items D h inv0 (by simp) hnd
  simp only [List.nil_append] at inv
  have mem : ∀ x, x ∈ fin.reverse ↔ x ∈ fin := fun x => List.mem_reverse
  refine ⟨?_, ?_, ?_, ?_, ?_, ?_, ?_, ?_⟩
  · intro i hi
    obtain ⟨x, hx, h1⟩ := inv.covers i (hall i hi)
    exact ⟨x, (mem x).2 hx, h1⟩
  · intro x hx; exact inv.inRange x ((mem x).1 hx)
  · rw [List.map_reverse]; exact (List.reverse_perm _).nodup_iff.2 inv.once
  · intro x hx; exact inv.durs x ((mem x).1 hx)
  · intro x hx; exact inv.nonneg x ((mem x).1 hx)
  · intro x hx e he hl hd
    exact (inv.after x ((mem x).1 hx) e he hl hd).imp id fun ⟨y, hy, a⟩ => ⟨y, (mem y).2 hy, a⟩
  · intro x hx
    exact (inv.tight x ((mem x).1 hx)).imp id fun ⟨e, he, h1, h2, y, hy, a⟩ => ⟨e, he, h1, h2, y, (mem y).2 hy, a⟩
  · obtain ⟨t1, t2, t3⟩ := inv.total
    exact ⟨fun x hx => t1 x ((mem x).1 hx), t2.imp id fun ⟨x, hx, a⟩ => ⟨x, (mem x).2 hx, a⟩, t3⟩

/-- **C25 (the schedule is determined by the graph, not by the visiting order).** Two schedules satisfying the
ASAP specification for the same graph — whose `Scheduled` edges point forward, C22 — and the same durations
give every instruction the same start time. -/
theorem C25_asap_unique (L : Nat) (es : List Edge) (dur : Nat → Option Int)
    (hf : ∀ e ∈ es, e.label = .scheduled → e.src.pos L < e.dst.pos L)
    (it1 it2 : List SItem) (D1 D2 : Int) (h1 : AsapSpec L es dur it1 D1) (h2 : AsapSpec L es dur it2 D2) :
    ∀ k, ∀ x ∈ it1, ∀ y ∈ it2, x.index = y.index → x.index < k → x.start = y.start ∧ x.dur = y.dur := by
  intro k
  induction k with
  | zero => intro x _ y _ _ h; omega
  | succ k ih =>
    intro x hx y hy hxy hk
    have hdur : x.dur = y.dur := by
      have a := h1.durs x hx
      have b := h2.durs y hy
      rw [hxy] at a; rw [a] at b; exact Option.some.inj b
    refine ⟨?_, hdur⟩
    -- every predecessor end in one schedule is a predecessor end in the other
    have key : ∀ (ita itb : List SItem) (Da Db : Int), AsapSpec L es dur ita Da → AsapSpec L es dur itb Db →
        (∀ u ∈ ita, ∀ v ∈ itb, u.index = v.index → u.index < k → u.start = v.start ∧ u.dur = v.dur) →
        ∀ a ∈ ita, ∀ c ∈ itb, a.index = c.index → a.index < k + 1 → a.start ≤ c.start := by
      intro ita itb Da Db ha hb hih a haa c hc hac hak
      rcases ha.tight a haa with h0 | ⟨e, he, hl, hdst, z, hz, hsrc, hstop⟩
      · rw [h0]; exact hb.nonneg c hc
      · have hpos := hf e he hl
        rw [hdst, hsrc] at hpos
        simp only [Node.pos] at hpos
        rw [hac] at hdst
        rcases hb.after c hc e he hl hdst with hs | ⟨w, hw, hsrc', hle⟩
        · rw [hsrc] at hs; cases hs
        · rw [hsrc] at hsrc'
          have hzw : z.index = w.index := by injection hsrc'
          have := hih z hz w hw hzw (by omega)
          have : z.stop = w.stop := by simp only [SItem.stop]; omega
          omega
    have le1 := key it1 it2 D1 D2 h1 h2 ih x hx y hy hxy hk
    have le2 := key it2 it1 D2 D1 h2 h1 (fun u hu v hv huv hlt => by
      have := ih v hv u hu huv.symm (by omega)
      exact ⟨this.1.symm, this.2.symm⟩) y hy x hx hxy.symm (by omega)
    omega

/-- **C25 (no overlap along timed paths).** In a schedule satisfying the ASAP specification, with non-negative
durations and forward `Scheduled` edges, an instruction reachable from another through `Scheduled` edges starts
no earlier than that one ends. -/
theorem C25_path_exclusive (L : Nat) (es : List Edge) (dur : Nat → Option Int) (items : List SItem) (D : Int)
    (hs : AsapSpec L es dur items D)
    (hf : ∀ e ∈ es, e.label = .scheduled → e.src.pos L < e.dst.pos L)
    (hd : ∀ x ∈ items, 0 ≤ x.dur) {u v : Node} (hr : Reach es isScheduled u v) :
    ∀ x ∈ items, ∀ y ∈ items, u = .instr x.index → v = .instr y.index → u ≠ v → x.stop ≤ y.start := by
  induction hr with
  | refl => intro x _ y _ h1 h2 hne; exact absurd rfl hne
  | @step w v' l hr' he hc ih =>
    intro x hx y hy hu hv _
    have hl : l = .scheduled := by cases l <;> simp_all [isScheduled]
    subst hl
    rcases hs.after y hy _ he rfl hv with hstart | ⟨z, hz, hsrc, hle⟩
    · -- the path would pass through the block start
      exfalso
      simp only at hstart
      subst hstart
      have hμ : ∀ e ∈ es.filter (fun e => e.label = .scheduled), e.src.pos L < e.dst.pos L := by
        intro e he'
        simp only [List.mem_filter, decide_eq_true_eq] at he'
        exact hf e he'.1 he'.2
      have hr'' : Reach (es.filter fun e => e.label = .scheduled) isScheduled u .start := by
        refine hr'.congr_class ?_
        intro e he' hc'
        simp only [List.mem_filter, decide_eq_true_eq]
        exact ⟨he', by cases hl : e.label <;> simp_all [isScheduled]⟩
      rcases hr''.measure_le (Node.pos L) hμ with h | h
      · rw [hu] at h; cases h
      · simp [Node.pos] at h
    · simp only at hsrc
      by_cases huw : u = w
      · have : x.index = z.index := by rw [huw, hsrc] at hu; injection hu.symm
        have hxz : x = z := eq_of_index items hs.once x hx z hz this
        rw [hxz]; exact hle
      · have := ih x hx z hz hu hsrc huw
        have := hd z hz
        simp only [SItem.stop] at *
        omega

/-- **C25 (frame exclusivity), all blocks.** Take the graph the model of `build` produces for a block (under C24's
hypotheses) and any schedule satisfying the ASAP specification for it with non-negative durations. Two timed
instructions of which one uses a frame that the other uses or blocks do not overlap: the earlier ends before the
later starts. -/
theorem C25_frame_exclusive (b : Block) (es : List Edge) (hb : buildBlock b = .ok es) (hyp : C24.Hyp b)
    (dur : Nat → Option Int) (items : List SItem) (D : Int) (hs : AsapSpec b.instrs.length es dur items D)
    (hd : ∀ x ∈ items, 0 ≤ x.dur) :
    ∀ x ∈ items, ∀ y ∈ items, x.index < y.index → ∀ p q, b.instrs[x.index]? = some p → b.instrs[y.index]? = some q →
      p.scheduled = true → q.scheduled = true →
      (∃ f k1 k2, (f, k1) ∈ frameAccesses p ∧ (f, k2) ∈ frameAccesses q ∧ Conflict k1 k2) → x.stop ≤ y.start := by
  intro x hx y hy hlt p q hp hq hsp hsq ⟨f, k1, k2, h1, h2, hc⟩
  have hspec := C24.C24_build_frameSpec b es hb hyp
  have hf : ∀ e ∈ es, e.label = .scheduled → e.src.pos b.instrs.length < e.dst.pos b.instrs.length :=
    fun e he hl => (hspec.schedJust e he hl).1
  have hord := hspec.ordered
  unfold Block.items at hord
  have := pairwise_enumFrom_index b.instrs 0 (List.pairwise_append.1 hord).1 x.index y.index hlt p q hp hq
    f k1 k2 h1 h2 hc
  have hreach := this.2 hsp hsq
  simp only [Nat.zero_add] at hreach
  exact C25_path_exclusive b.instrs.length es dur items D hs hf hd hreach x hx y hy rfl rfl
    (by intro h; injection h with h; omega)

open QV.HandlerFromAst in
private theorem expandedBlock_shape (p : AProgram) (flat : List Ast.Instruction) (term : Option Ast.Instruction) :
    ∃ rid, expandedBlock p flat term = ⟨flat.map (answersWith rid p), term.map (answersWith rid p)⟩ :=
  ⟨_, rfl⟩

open QV.HandlerFromAst in
private theorem expanded_hyp (p : AProgram) (flat : List Ast.Instruction) (term : Option Ast.Instruction)
    (hterm : ∀ t, term = some t → HandlerFromAst.role t = .controlFlow) : C24.Hyp (expandedBlock p flat term) := by
  obtain ⟨rid, hshape⟩ := expandedBlock_shape p flat term
  rw [hshape]
  constructor
  · intro q hq
    unfold Block.items at hq
    simp only at hq
    rcases List.mem_append.1 hq with hq | hq
    · obtain ⟨i, _, _, _, hget⟩ := mem_enumFrom _ _ q hq
      obtain ⟨a, _, ha⟩ := List.mem_map.1 (List.mem_of_getElem? hget)
      rw [← ha]
      exact answersWith_framesNodup _ p a
    · cases ht : term with
      | none => simp [ht] at hq
      | some t =>
        simp only [ht, Option.map_some, List.mem_singleton] at hq
        subst hq
        exact answersWith_framesNodup _ p t
  · intro t ht
    simp only [Option.map_eq_some_iff] at ht
    obtain ⟨t0, ht0, rfl⟩ := ht
    simp only [answersWith]
    exact hterm t0 ht0

open QV.HandlerFromAst in
/-- **C25 ∘ C26 (frame exclusivity from the AST).** Let `p` be any AST program, `flat` the calibration-expanded
instructions of one of its blocks and `term` its control-flow terminator; the handler's answers are computed from
the AST (`HandlerFromAst`). For the graph `build` produces and any schedule satisfying the ASAP specification with
non-negative durations: two timed instructions of which — by C26's SPECIFICATION (`UsedBy` / `BlockedBy` on
defined frames) — one uses a frame that the other uses or blocks do not overlap in time. No hypothesis about the
handler remains. -/
theorem C25_ast_frame_exclusive (p : AProgram) (flat : List Ast.Instruction) (term : Option Ast.Instruction)
    (hterm : ∀ t, term = some t → HandlerFromAst.role t = .controlFlow) (es : List Edge)
    (hb : buildBlock (expandedBlock p flat term) = .ok es)
    (dur : Nat → Option Int) (items : List SItem) (D : Int) (hs : AsapSpec flat.length es dur items D)
    (hd : ∀ x ∈ items, 0 ≤ x.dur) :
    ∀ x ∈ items, ∀ y ∈ items, x.index < y.index → ∀ i j, flat[x.index]? = some i → flat[y.index]? = some j →
      HandlerFromAst.isScheduled i = true → HandlerFromAst.isScheduled j = true →
      (∃ f k1 k2, FrameAccessA p i f k1 ∧ FrameAccessA p j f k2 ∧ Conflict k1 k2) → x.stop ≤ y.start := by
  intro x hx y hy hlt i j hi hj hsi hsj ⟨f, k1, k2, h1, h2, hc⟩
  have hyp := expanded_hyp p flat term hterm
  obtain ⟨rid, hshape⟩ := expandedBlock_shape p flat term
  rw [hshape] at hb hyp
  have hs' : AsapSpec (Block.mk (flat.map (answersWith rid p)) (term.map (answersWith rid p))).instrs.length
      es dur items D := by simpa using hs
  have gi : (Block.mk (flat.map (answersWith rid p)) (term.map (answersWith rid p))).instrs[x.index]? =
      some (answersWith rid p i) := by simp [hi]
  have gj : (Block.mk (flat.map (answersWith rid p)) (term.map (answersWith rid p))).instrs[y.index]? =
      some (answersWith rid p j) := by simp [hj]
  exact C25_frame_exclusive _ es hb hyp dur items D hs' hd x hx y hy hlt _ _ gi gj
    (by simpa [answersWith] using hsi) (by simpa [answersWith] using hsj)
    ⟨frameId p f, k1, k2, (mem_frameAccesses_answersWith rid p i (frameId p f, k1)).2 ⟨f, rfl, h1⟩,
      (mem_frameAccesses_answersWith rid p j (frameId p f, k2)).2 ⟨f, rfl, h2⟩, hc⟩

/-- `TimeSpan::union` is the hull of the two spans (for non-negative durations the result's duration is
non-negative too). -/
theorem C25_union_hull (a b : Int × Int) :
    (spanUnion a b).1 = min a.1 b.1 ∧ (spanUnion a b).1 + (spanUnion a b).2 = max (a.1 + a.2) (b.1 + b.2) := by
  simp only [spanUnion]
  constructor
  · split <;> omega
  · split <;> split <;> omega

/-- **C25 (hull, relative to the source map).** For any flat schedule and any expansion lengths, the block-level
schedule computed by the fold of `BasicBlock::as_schedule` has one item per source index that some flat item
maps to; that item's span is exactly the hull (earliest start, latest end) of the flat items mapped to the
index; and the duration is the latest end. (`sourceOf` is the `BTreeMap::range(..=i).next_back()` lookup.) -/
theorem C25_fold_hull (lens : List Nat) (items : List SItem) (D : Int) (out : List SItem) (Dout : Int)
    (h : blockSchedule lens (.ok items D) = .ok out Dout) :
    (out.map (·.index)).Nodup ∧
    (∀ x ∈ out, ∃ l, l = items.filter (fun it => sourceOf (firstIndices lens 0 0) it.index = some x.index) ∧
      l ≠ [] ∧ (∀ y ∈ l, x.start ≤ y.start ∧ y.stop ≤ x.stop) ∧
      (∃ y ∈ l, y.start = x.start) ∧ (∃ y ∈ l, y.stop = x.stop)) ∧
    (∀ y ∈ items, ∀ s, sourceOf (firstIndices lens 0 0) y.index = some s → ∃ x ∈ out, x.index = s) ∧
    ((∀ x ∈ out, x.stop ≤ Dout) ∧ (Dout = 0 ∨ ∃ x ∈ out, x.stop = Dout) ∧ 0 ≤ Dout) := by
  simp only [blockSchedule, SchedOutcome.ok.injEq] at h
  obtain ⟨rfl, rfl⟩ := h
  obtain ⟨hnd, hlook⟩ := foldSpans_lookup (firstIndices lens 0 0) items [] (by simp)
  simp only [List.lookup_nil] at hlook
  refine ⟨?_, ?_, ?_, ?_⟩
  · rw [List.map_map]
    exact hnd
  · intro x hx
    obtain ⟨kv, hkv, rfl⟩ := List.mem_map.1 hx
    refine ⟨_, rfl, ?_⟩
    have hl := lookup_of_mem kv.1 kv.2 _ hnd (by simpa using hkv)
    rw [hlook] at hl
    simp only at hl ⊢
    have hne : items.filter (fun it => sourceOf (firstIndices lens 0 0) it.index = some kv.1) ≠ [] := by
      intro hnil; rw [hnil] at hl; simp [hullFold] at hl
    obtain ⟨r, hr, h1, h2, h3⟩ := hullFold_none _ hne
    rw [hr] at hl
    simp only [Option.some.injEq] at hl
    subst hl
    exact ⟨hne, h1, h2, h3⟩
  · intro y hy s hs
    have hne : items.filter (fun it => sourceOf (firstIndices lens 0 0) it.index = some s) ≠ [] := by
      intro hnil
      have : y ∈ items.filter (fun it => sourceOf (firstIndices lens 0 0) it.index = some s) := by
        simp [List.mem_filter, hy, hs]
      rw [hnil] at this; simp at this
    obtain ⟨r, hr, _⟩ := hullFold_none _ hne
    have := hlook s
    rw [hr] at this
    exact ⟨⟨s, r.1, r.2⟩, List.mem_map.2 ⟨(s, r), mem_of_lookup _ _ _ this, rfl⟩, rfl⟩
  · obtain ⟨m1, m2, m3⟩ := maxFrom_ge 0 ((List.map (fun kv => (⟨kv.1, kv.2.1, kv.2.2⟩ : SItem))
      (foldSpans (firstIndices lens 0 0) items [])).map SItem.stop)
    refine ⟨fun x hx => m2 _ (List.mem_map.2 ⟨x, hx, rfl⟩), ?_, m1⟩
    rcases m3 with m3 | m3
    · exact .inl m3
    · obtain ⟨x, hx, hxe⟩ := List.mem_map.1 m3
      exact .inr ⟨x, hx, hxe⟩

/-- **C25 (each source instruction's span exactly covers the spans of what it expanded to), any number of
instructions and calibrations.** Let `lens` be the expansion lengths of the source instructions and `items` a
flat schedule of the expanded block in which exactly the indices below `lens.sum` occur. Then the schedule
`BasicBlock::as_schedule` folds from it satisfies `HullSpec`: one item per source instruction with a non-empty
expansion, whose span is the hull (earliest start, latest end) of the spans of the expanded instructions
`first .. first+len-1`; nothing for instructions that expanded to nothing; duration = latest end. -/
theorem C25_block_hull (lens : List Nat) (items : List SItem) (D : Int) (out : List SItem) (Dout : Int)
    (hall : ∀ i, i < lens.sum → ∃ y ∈ items, y.index = i) (hrange : ∀ y ∈ items, y.index < lens.sum)
    (h : blockSchedule lens (.ok items D) = .ok out Dout) : HullSpec lens items out Dout := by
  obtain ⟨hnd, hhull, hpres, htotal⟩ := C25_fold_hull lens items D out Dout h
  have hit : ∀ idx j first len, (firstIndices lens 0 0)[j]? = some (first, j) → lens[j]? = some len →
      first ≤ idx → idx < first + len → sourceOf (firstIndices lens 0 0) idx = some j := by
    intro idx j first len h1 h2 h3 h4
    rw [sourceOf_eq]
    have := fold_hit idx lens 0 0 none (by simp) j first len (by simpa using h1) h2 h3 h4
    simpa using this
  refine ⟨hnd, ?_, ?_, htotal⟩
  · intro x hx
    obtain ⟨l, rfl, hne, hb, hs, he⟩ := hhull x hx
    obtain ⟨y, hy⟩ := List.exists_mem_of_ne_nil _ hne
    simp only [List.mem_filter, decide_eq_true_eq] at hy
    obtain ⟨j, first, len, a, b, c, d⟩ := interval_exists lens 0 0 y.index (Nat.zero_le _)
      (by simpa using hrange y hy.1)
    simp only [Nat.zero_add] at a
    have hj : j = x.index := by
      have := hit y.index j first len a b c d
      rw [hy.2] at this
      exact (Option.some.inj this).symm
    subst hj
    refine ⟨first, len, a, b, by omega, ?_, ?_, ?_⟩
    · intro y' hy' h1 h2
      exact hb y' (by simp [List.mem_filter, hy', hit y'.index _ first len a b h1 h2])
    · obtain ⟨y', hy', h1⟩ := hs
      simp only [List.mem_filter, decide_eq_true_eq] at hy'
      obtain ⟨j', first', len', a', b', c', d'⟩ := interval_exists lens 0 0 y'.index (Nat.zero_le _)
        (by simpa using hrange y' hy'.1)
      simp only [Nat.zero_add] at a'
      have : j' = x.index := by
        have := hit y'.index j' first' len' a' b' c' d'
        rw [hy'.2] at this
        exact (Option.some.inj this).symm
      subst this
      rw [a] at a'; rw [b] at b'
      cases a'; cases b'
      exact ⟨y', hy'.1, c', d', h1⟩
    · obtain ⟨y', hy', h1⟩ := he
      simp only [List.mem_filter, decide_eq_true_eq] at hy'
      obtain ⟨j', first', len', a', b', c', d'⟩ := interval_exists lens 0 0 y'.index (Nat.zero_le _)
        (by simpa using hrange y' hy'.1)
      simp only [Nat.zero_add] at a'
      have : j' = x.index := by
        have := hit y'.index j' first' len' a' b' c' d'
        rw [hy'.2] at this
        exact (Option.some.inj this).symm
      subst this
      rw [a] at a'; rw [b] at b'
      cases a'; cases b'
      exact ⟨y', hy'.1, c', d', h1⟩
  · intro s len hl hpos
    obtain ⟨first, h1, _, h3⟩ := firstIndices_get lens 0 0 s len hl
    simp only [Nat.zero_add] at h1 h3
    obtain ⟨y, hy, hyi⟩ := hall first (by omega)
    exact hpres y hy s (by rw [hyi]; exact hit first s first len h1 hl (Nat.le_refl _) (by omega))

/-- the documented durations (schedule.rs:174-180), as the model computes them -/
theorem C25_durations :
    instructionDuration .zero = some 0 ∧ instructionDuration .unknown = none ∧
    (∀ d, instructionDuration (.literal d) = d) ∧
    (∀ d pl pr rates, instructionDuration (.waveform none (some d) pl pr rates) = some (d + pl.getD 0 + pr.getD 0)) ∧
    (∀ pl pr rates, instructionDuration (.waveform none none pl pr rates) = none) ∧
    (∀ n d pl pr r rs, (∀ x ∈ rs, x = r) →
      instructionDuration (.waveform (some n) d pl pr (some (r :: rs))) = some ((n : Int) * unitsPerSecond / r)) ∧
    (∀ n d pl pr, instructionDuration (.waveform (some n) d pl pr none) = none ∧
      instructionDuration (.waveform (some n) d pl pr (some [])) = none) := by
  refine ⟨rfl, rfl, fun _ => rfl, fun _ _ _ _ => rfl, fun _ _ _ => rfl, ?_, fun _ _ _ _ => ⟨rfl, rfl⟩⟩
  intro n d pl pr r rs hall
  have : (rs.all fun x => decide (x = r)) = true := by simpa using hall
  simp [instructionDuration, allEqualValue, this]

/-! ### The Bool checkers -/

theorem C25_asap_checker_sound (L : Nat) (es : List Edge) (dur : Nat → Option Int) (items : List SItem) (D : Int)
    (h : asapB L es dur items D = true) : AsapSpec L es dur items D := by
  simp only [asapB, Bool.and_eq_true, List.all_eq_true, List.any_eq_true, decide_eq_true_eq, Bool.or_eq_true,
    Bool.not_eq_true', Bool.and_eq_false_iff, decide_eq_false_iff_not, List.mem_range] at h
  obtain ⟨⟨⟨⟨⟨⟨⟨⟨h1, h2⟩, h3⟩, h4⟩, h5⟩, h6⟩, h7⟩, h8⟩, h9⟩ := h
  refine ⟨?_, h2, h3, fun x hx => (h4 x hx).1, fun x hx => (h4 x hx).2, ?_, ?_, ⟨h7, ?_, h9⟩⟩
  · intro i hi
    obtain ⟨x, hx, hxi⟩ := h1 i hi
    exact ⟨x, hx, hxi⟩
  · intro x hx e he hl hdst
    rcases h5 x hx e he with hneg | hpos
    · rcases hneg with hneg | hneg
      · exact absurd hl hneg
      · exact absurd hdst hneg
    · rcases hpos with hpos | ⟨y, hy, hsrc, hle⟩
      · exact .inl hpos
      · exact .inr ⟨y, hy, hsrc, hle⟩
  · intro x hx
    rcases h6 x hx with h0 | ⟨e, he, ⟨hl, hdst⟩, y, hy, hsrc, heq⟩
    · exact .inl h0
    · exact .inr ⟨e, he, hl, hdst, y, hy, hsrc, heq⟩
  · exact h8.imp id fun ⟨x, hx, a⟩ => ⟨x, hx, a⟩

theorem C25_exclusive_checker_sound (b : Block) (items : List SItem) (h : exclusiveB b items = true) :
    Exclusive b items := by
  intro x hx y hy hlt p q hp hq ⟨f, k1, k2, h1, h2, hc⟩
  simp only [exclusiveB, List.all_eq_true] at h
  have := h x hx y hy
  rw [hp, hq] at this
  simp only [Bool.or_eq_true, Bool.not_eq_true', decide_eq_false_iff_not, decide_eq_true_eq,
    List.any_eq_false, Bool.and_eq_true, not_and, Bool.not_eq_true] at this
  rcases this with hn | hn | hn
  · exact absurd hlt hn
  · exfalso
    have := hn (f, k1) h1 (f, k2) h2 rfl
    rcases hc with hc | hc <;> simp_all
  · exact hn

theorem C25_hull_checker_sound (lens : List Nat) (flat out : List SItem) (D : Int)
    (h : hullB lens flat out D = true) : HullSpec lens flat out D := by
  simp only [hullB, Bool.and_eq_true, List.all_eq_true, decide_eq_true_eq, Bool.or_eq_true,
    List.any_eq_true] at h
  obtain ⟨⟨⟨⟨⟨h1, h2⟩, h3⟩, h4⟩, h5⟩, h6⟩ := h
  refine ⟨h1, ?_, ?_, ⟨h4, h5.imp id (fun ⟨x, hx, a⟩ => ⟨x, hx, a⟩), h6⟩⟩
  · intro x hx
    have := h2 x hx
    cases hf : (firstIndices lens 0 0)[x.index]? with
    | none => simp [hf] at this
    | some fs =>
      cases hl : lens[x.index]? with
      | none => simp [hf, hl] at this
      | some len =>
        obtain ⟨first, s⟩ := fs
        simp only [hf, hl, Bool.and_eq_true, decide_eq_true_eq, List.all_eq_true, Bool.or_eq_true,
          Bool.not_eq_true', Bool.and_eq_false_iff, decide_eq_false_iff_not, List.any_eq_true] at this
        obtain ⟨⟨⟨⟨hs, hpos⟩, hall⟩, ⟨y1, hy1, ⟨a1, b1⟩, c1⟩⟩, ⟨y2, hy2, ⟨a2, b2⟩, c2⟩⟩ := this
        subst hs
        refine ⟨first, len, rfl, rfl, hpos, ?_, ⟨y1, hy1, a1, b1, c1⟩, ⟨y2, hy2, a2, b2, c2⟩⟩
        intro y hy hlo hhi
        rcases hall y hy with hneg | hpos'
        · rcases hneg with hneg | hneg
          · exact absurd hlo hneg
          · exact absurd hhi hneg
        · exact hpos'
  · intro s len hl hpos
    have hmem : (len, s) ∈ lens.zipIdx := by
      rw [List.mem_zipIdx_iff_getElem?]
      simpa using hl
    have := h3 (len, s) hmem
    simp only [beq_iff_eq, Bool.or_eq_true, List.any_eq_true, decide_eq_true_eq] at this
    rcases this with h0 | ⟨x, hx, hxs⟩
    · omega
    · exact ⟨x, hx, hxs⟩

/-! ### Non-vacuity -/

/-- two pulses on frame 0 (1 s and 0.5 s), a non-blocking pulse on frame 1 (2 s), a fence over both -/
private def exBlock : Block :=
  { instrs := [
      ⟨.rf, true, false, [], [], [], some ([0], [])⟩,
      ⟨.rf, true, false, [], [], [], some ([0], [])⟩,
      ⟨.rf, true, false, [], [], [], some ([1], [])⟩,
      ⟨.rf, true, false, [], [], [], some ([0, 1], [])⟩],
    term := none }

private def exDur : Nat → Option Int
  | 0 => some 1024 | 1 => some 512 | 2 => some 2048 | 3 => some 0 | _ => none

example : ∃ es, buildBlock exBlock = .ok es ∧
    asSchedule 4 [.start, .instr 0, .instr 1, .instr 2, .instr 3, .stop] es exDur =
      .ok [⟨0, 0, 1024⟩, ⟨1, 1024, 512⟩, ⟨2, 0, 2048⟩, ⟨3, 2048, 0⟩] 2048 ∧
    -- another topological order gives the same times
    asSchedule 4 [.instr 2, .start, .instr 0, .stop, .instr 1, .instr 3] es exDur =
      .ok [⟨2, 0, 2048⟩, ⟨0, 0, 1024⟩, ⟨1, 1024, 512⟩, ⟨3, 2048, 0⟩] 2048 ∧
    asapB 4 es exDur [⟨0, 0, 1024⟩, ⟨1, 1024, 512⟩, ⟨2, 0, 2048⟩, ⟨3, 2048, 0⟩] 2048 = true ∧
    exclusiveB exBlock [⟨0, 0, 1024⟩, ⟨1, 1024, 512⟩, ⟨2, 0, 2048⟩, ⟨3, 2048, 0⟩] = true ∧
    -- the checkers reject a late start and an overlap
    asapB 4 es exDur [⟨0, 0, 1024⟩, ⟨1, 1536, 512⟩, ⟨2, 0, 2048⟩, ⟨3, 2048, 0⟩] 2048 = false ∧
    exclusiveB exBlock [⟨0, 0, 1024⟩, ⟨1, 512, 512⟩, ⟨2, 0, 2048⟩, ⟨3, 2048, 0⟩] = false :=
  ⟨_, rfl, by decide, by decide, by decide, by decide, by decide, by decide⟩

end QV.C25
