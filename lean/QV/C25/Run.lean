import QV.Wire
import QV.Shared.SchedWire
import QV.Shared.HandlerWire
import QV.C25.Spec
/-! Driver side of the C25 correspondence check. -/
namespace QV.C25
open QV QV.Sched QV.Sched.Wire

def decOptInt : Sexp → Option (Option Int)
  | .atom "none" => some none
  | s => s.asInt?.map some

def decInts : Sexp → Option (List Int)
  | .list xs => xs.mapM Sexp.asInt?
  | _ => none

def decDur : Sexp → Option DurDesc
  | .list [.atom "wf", samples, d, pl, pr, rates] => do
    let samples ← match samples with
      | .atom "none" => some none
      | s => s.asNat?.map some
    let d ← decOptInt d
    let pl ← decOptInt pl
    let pr ← decOptInt pr
    let rates ← match rates with
      | .atom "none" => some none
      | s => (decInts s).map some
    pure (.waveform samples d pl pr rates)
  | .list [.atom "lit", d] => (decOptInt d).map .literal
  | .list [.atom "zero"] => some .zero
  | .list [.atom "nodur"] => some .unknown
  | _ => none

def decItem : Sexp → Option SItem
  | .list [i, s, d] => do
    let i ← i.asNat?
    let s ← s.asInt?
    let d ← d.asInt?
    pure ⟨i, s, d⟩
  | _ => none

def decSchedule : Sexp → Option (List SItem × Int)
  | .list [.atom "ok", .list items, d] => do
    let items ← items.mapM decItem
    let d ← d.asInt?
    pure (items, d)
  | _ => none

def itemLe (a b : SItem) : Bool := a.index ≤ b.index

def encOutcome : SchedOutcome → Sexp
  | .ok items D =>
    .list [.atom "ok",
      .list ((items.mergeSort itemLe).map fun x =>
        .list [.atom (toString x.index), .atom (toString x.start), .atom (toString x.dur)]),
      .atom (toString D)]
  | .unknownDuration => .list [.atom "unknown"]
  | .invalidGraph => .list [.atom "invalid"]
  | .crash => .list [.atom "crash", .str "unreachable"]

/-- position order: block start, instructions in order, block end — the topological order the driver uses -/
def posOrder (L : Nat) : List Node :=
  [.start] ++ (List.range L).map .instr ++ [.stop]

def durTag : DurDesc → String
  | .waveform (some _) (some _) _ _ _ => "dur-defwaveform-with-duration-arg"
  | .waveform (some _) _ _ _ _ => "dur-defwaveform"
  | .waveform none _ _ _ _ => "dur-template"
  | .literal _ => "dur-literal"
  | .zero => "dur-zero"
  | .unknown => "dur-none"

/-- the comparison and the specification checks, on decoded inputs -/
def handleDecoded (stream : String) (b : Block) (durs : List DurDesc) (lens : List Nat) (out : Sexp)
    (extraOk : Bool) (extraTags : List String) : CaseResult :=
    let L := b.instrs.length
    let dur : Nat → Option Int := fun i => (durs[i]?).bind instructionDuration
    -- model
    let mGraph := buildBlock b
    let (mG, mFlat, mBlock) : Sexp × Sexp × Sexp := match mGraph with
      | .error e => (encErr L e, .list [.atom "skip"], .list [.atom "err", .atom "sched"])
      | .ok es =>
        let flat := asSchedule L (posOrder L) es dur
        (encGraph b es, encOutcome flat, encOutcome (blockSchedule lens flat))
    let mOut : Sexp := .list [.atom "res", mG, mFlat, mBlock]
    -- specification on the implementation's own graph and schedules
    let (specOk, okFlat, okBlock) : Bool × Bool × Bool := match out with
      | .list [.atom "res", g, flat, blk] =>
        match decGraph L g with
        | none => (true, false, false)     -- scheduling error: nothing to say
        | some (_, es) =>
          match decSchedule flat with
          | none => (true, false, false)   -- schedule not computable
          | some (items, D) =>
            -- exclusivity is claimed (and proved) for non-negative durations only
            let nonneg := items.all fun x => decide (0 ≤ x.dur)
            let s1 := asapB L es dur items D && (!nonneg || exclusiveB b items)
            match decSchedule blk with
            | none => (false, true, false)   -- the flat schedule exists, so must the block-level one
            | some (bitems, bD) => (s1 && hullB lens items bitems bD, true, true)
      | _ => (false, false, false)
    let expanded := lens.any (· != 1)
    -- coverage: some source instruction expands to two items of which one's span strictly contains the other's
    let nested : Bool := match out with
      | .list [.atom "res", _, flat, _] =>
        match decSchedule flat with
        | some (items, _) =>
          let m := firstIndices lens 0 0
          items.any fun x => items.any fun y =>
            x.index != y.index && sourceOf m x.index == sourceOf m y.index &&
            decide (x.start ≤ y.start) && decide (y.stop ≤ x.stop) && decide (y.dur < x.dur)
        | none => false
      | _ => false
    -- when the model's `build` rejects the block, the implementation must reject it too with an applicable kind
    -- (which of several applicable reasons is reported first is not constrained)
    let outAgrees : Bool := match mGraph with
      | .ok _ => mOut == out
      | .error _ => match out with
        | .list [.atom "res", .list [.atom "err", .atom k, _], .list [.atom "skip"], .list [.atom "err", .atom "sched"]] =>
          (errKinds false b).contains k
        | _ => false
    { agree := outAgrees && extraOk, specOk, nontrivial := okFlat && L ≥ 2,
      tags := [stream, s!"len{min L 8}"] ++ (durs.map durTag).eraseDups ++
        (if okFlat then ["scheduled"] else ["no-schedule"]) ++ (if okBlock then ["block-ok"] else []) ++
        (if expanded then ["calibrated"] else []) ++ (if lens.any (· ≥ 3) then ["expansion3+"] else []) ++
        (if b.instrs.any (fun i => (frameAccesses i).any (·.2 == .read)) then ["blocking"] else []) ++
        (if b.term.isSome then ["term"] else []) ++
        (if durs.any (fun d => match instructionDuration d with | some t => decide (t < 0) | none => false) then ["negative-duration"] else []) ++
        (if nested then ["nested-spans"] else []) ++ extraTags,
      detail := s!"extraOk={extraOk} model={mOut} impl={out}" }

def handleCase (stream : String) (bS dursS lensS out : Sexp) : CaseResult :=
  match decBlock bS, (match dursS with | .list xs => xs.mapM decDur | _ => none), decNats lensS with
  | some b, some durs, some lens => handleDecoded stream b durs lens out true []
  | _, _, _ => .bad s!"undecodable case"

def intLe (a b : Int) : Bool := a ≤ b

def normDur : DurDesc → DurDesc
  | .waveform n d pl pr rates => .waveform n d pl pr (rates.map fun r => r.mergeSort intLe)
  | d => d

/-- "ast" twin: the program and the expanded block arrive as full ASTs; handler answers and duration
ingredients are computed here (`HandlerFromAst`), the harness' own `durs` projection is only cross-checked -/
def handleAstCase (progS sigsS flatS termS lensS dursS out : Sexp) : CaseResult :=
  match HandlerWire.decProgram progS sigsS, AstWire.decodeInstructionList flatS,
        (match termS with | .atom "none" => some none | s => (AstWire.decodeInstruction s).map some),
        decNats lensS, (match dursS with | .list xs => xs.mapM decDur | _ => none) with
  | some p, some flat, some term, some lens, some hdurs =>
    match HandlerFromAst.optAll (flat.map (HandlerFromAst.durDescOf p)) with
    | none =>
      { agree := true, specOk := true, nontrivial := false, tags := ["ast", "inexact-time"] }
    | some durs =>
      let b := HandlerFromAst.expandedBlock p flat term
      let dursOk := durs.map normDur == hdurs.map normDur
      handleDecoded "ast" b durs lens out dursOk (if dursOk then [] else ["durs-differ"])
  | _, _, _, _, _ => .bad "undecodable ast case"

def handle (inp out : Sexp) : CaseResult :=
  match inp with
  | .list [.atom "corpus", b, d, l] => handleCase "corpus" b d l out
  | .list [.atom "enum", b, d, l] => handleCase "enum" b d l out
  | .list [.atom "random", b, d, l] => handleCase "random" b d l out
  | .list [.atom "ast", prog, sigs, flat, term, lens, durs] => handleAstCase prog sigs flat term lens durs out
  | _ => .bad s!"undecodable input {inp}"

end QV.C25

def main : IO UInt32 := QV.runMain QV.C25.handle
