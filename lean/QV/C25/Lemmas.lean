import QV.Shared.Sched
/-! Helper lemmas for C25: the span fold of `BasicBlock::as_schedule` (control_flow_graph.rs:278-295). -/
namespace QV.C25
open QV.Sched

/-- union-fold of the spans of a list of items onto an optional initial span -/
def hullFold : Option (Int × Int) → List SItem → Option (Int × Int)
  | o, [] => o
  | none, it :: rest => hullFold (some (it.start, it.dur)) rest
  | some sp, it :: rest => hullFold (some (spanUnion sp (it.start, it.dur))) rest

theorem spanUnion_start (a b : Int × Int) : (spanUnion a b).1 = min a.1 b.1 := by
  simp only [spanUnion]; split <;> omega

theorem spanUnion_stop (a b : Int × Int) :
    (spanUnion a b).1 + (spanUnion a b).2 = max (a.1 + a.2) (b.1 + b.2) := by
  simp only [spanUnion]; split <;> split <;> omega

/-- the fold onto `some sp` is the hull of `sp` and the items' spans -/
theorem hullFold_some (sp : Int × Int) : ∀ (l : List SItem), ∃ r, hullFold (some sp) l = some r ∧
    r.1 ≤ sp.1 ∧ sp.1 + sp.2 ≤ r.1 + r.2 ∧
    (∀ y ∈ l, r.1 ≤ y.start ∧ y.stop ≤ r.1 + r.2) ∧
    (r.1 = sp.1 ∨ ∃ y ∈ l, y.start = r.1) ∧ (r.1 + r.2 = sp.1 + sp.2 ∨ ∃ y ∈ l, y.stop = r.1 + r.2) := by
  intro l
  induction l generalizing sp with
  | nil => exact ⟨sp, rfl, Int.le_refl _, Int.le_refl _, by simp, .inl rfl, .inl rfl⟩
  | cons it rest ih =>
    obtain ⟨r, hr, h1, h2, h3, h4, h5⟩ := ih (spanUnion sp (it.start, it.dur))
    have hs := spanUnion_start sp (it.start, it.dur)
    have he := spanUnion_stop sp (it.start, it.dur)
    simp only at hs he
    refine ⟨r, by simpa [hullFold] using hr, by omega, by omega, ?_, ?_, ?_⟩
    · intro y hy
      rcases List.mem_cons.1 hy with rfl | hy
      · simp only [SItem.stop]; constructor <;> omega
      · exact h3 y hy
    · rcases h4 with h4 | ⟨y, hy, h4⟩
      · by_cases hlt : it.start < sp.1
        · exact .inr ⟨it, List.mem_cons_self, by omega⟩
        · exact .inl (by omega)
      · exact .inr ⟨y, List.mem_cons_of_mem _ hy, h4⟩
    · rcases h5 with h5 | ⟨y, hy, h5⟩
      · by_cases hlt : sp.1 + sp.2 < it.start + it.dur
        · exact .inr ⟨it, List.mem_cons_self, by simp only [SItem.stop]; omega⟩
        · exact .inl (by omega)
      · exact .inr ⟨y, List.mem_cons_of_mem _ hy, h5⟩

/-- the fold onto nothing of a non-empty list is exactly the hull of the items' spans -/
theorem hullFold_none : ∀ (l : List SItem), l ≠ [] → ∃ r, hullFold none l = some r ∧
    (∀ y ∈ l, r.1 ≤ y.start ∧ y.stop ≤ r.1 + r.2) ∧
    (∃ y ∈ l, y.start = r.1) ∧ (∃ y ∈ l, y.stop = r.1 + r.2) := by
  intro l hl
  cases l with
  | nil => exact absurd rfl hl
  | cons it rest =>
    obtain ⟨r, hr, h1, h2, h3, h4, h5⟩ := hullFold_some (it.start, it.dur) rest
    simp only at h1 h2 h4 h5
    refine ⟨r, by simpa [hullFold] using hr, ?_, ?_, ?_⟩
    · intro y hy
      rcases List.mem_cons.1 hy with rfl | hy
      · simp only [SItem.stop]; constructor <;> omega
      · exact h3 y hy
    · rcases h4 with h4 | ⟨y, hy, h4⟩
      · exact ⟨it, List.mem_cons_self, h4.symm⟩
      · exact ⟨y, List.mem_cons_of_mem _ hy, h4⟩
    · rcases h5 with h5 | ⟨y, hy, h5⟩
      · exact ⟨it, List.mem_cons_self, by simp only [SItem.stop]; omega⟩
      · exact ⟨y, List.mem_cons_of_mem _ hy, h5⟩

theorem hullFold_nil_none : ∀ (l : List SItem), hullFold none l = none → l = [] := by
  intro l h
  cases l with
  | nil => rfl
  | cons it rest =>
    obtain ⟨r, hr, _⟩ := hullFold_some (it.start, it.dur) rest
    simp only [hullFold] at h
    rw [hr] at h; cases h

/-! association lists -/

theorem lookup_update {β : Type} (s s' : Nat) (v : β) : ∀ (acc : List (Nat × β)),
    (acc.map fun kv => if kv.1 = s then (s, v) else kv).lookup s' =
      if s' = s then (acc.lookup s).map (fun _ => v) else acc.lookup s' := by
  intro acc
  induction acc with
  | nil => simp
  | cons kv rest ih =>
    obtain ⟨k, x⟩ := kv
    by_cases hk : k = s
    · subst hk
      by_cases hs : s' = k
      · subst hs; simp [List.lookup_cons]
      · have h1 : (s' == k) = false := by simpa using hs
        simp [List.lookup_cons, h1, hs, ih]
    · by_cases hs : s' = s
      · subst hs
        have h1 : (s' == k) = false := by simpa using fun h => hk h.symm
        simp [List.lookup_cons, h1, hk, ih]
      · by_cases hk' : s' = k
        · subst hk'; simp [List.lookup_cons, hk, hs]
        · have h1 : (s' == k) = false := by simpa using hk'
          simp [List.lookup_cons, h1, hk, hs, ih]

theorem keys_update {β : Type} (s : Nat) (v : β) (acc : List (Nat × β)) :
    (acc.map fun kv => if kv.1 = s then (s, v) else kv).map (·.1) = acc.map (·.1) := by
  induction acc with
  | nil => rfl
  | cons kv rest ih =>
    simp only [List.map_cons, ih]
    by_cases hk : kv.1 = s <;> simp [hk]

theorem lookup_none_iff {β : Type} (s : Nat) : ∀ (acc : List (Nat × β)), acc.lookup s = none ↔ s ∉ acc.map (·.1) := by
  intro acc
  induction acc with
  | nil => simp
  | cons kv rest ih =>
    obtain ⟨k, x⟩ := kv
    by_cases hk : s = k
    · subst hk; simp [List.lookup_cons]
    · have h1 : (s == k) = false := by simpa using hk
      simp [List.lookup_cons, h1, hk, ih]

theorem lookup_append_new {β : Type} (s s' : Nat) (v : β) : ∀ (acc : List (Nat × β)), acc.lookup s = none →
    (acc ++ [(s, v)]).lookup s' = if s' = s then some v else acc.lookup s' := by
  intro acc
  induction acc with
  | nil =>
    intro _
    by_cases hs : s' = s
    · simp [List.lookup_cons, hs]
    · have h1 : (s' == s) = false := by simpa using hs
      simp [List.lookup_cons, hs, h1]
  | cons kv rest ih =>
    intro h
    obtain ⟨k, x⟩ := kv
    by_cases hk : s = k
    · subst hk; simp [List.lookup_cons] at h
    · have h1 : (s == k) = false := by simpa using hk
      simp only [List.lookup_cons, h1] at h
      by_cases hk' : s' = k
      · subst hk'
        have : s' ≠ s := fun e => hk e.symm
        simp [List.lookup_cons, this]
      · have h2 : (s' == k) = false := by simpa using hk'
        simp [List.lookup_cons, h2, ih h]

/-- **the span fold computes, for every source index, the union-fold of the items mapped to it** -/
theorem foldSpans_lookup (m : List (Nat × Nat)) : ∀ (items : List SItem) (acc : List (Nat × (Int × Int))),
    (acc.map (·.1)).Nodup →
    ((foldSpans m items acc).map (·.1)).Nodup ∧
    ∀ s, (foldSpans m items acc).lookup s =
      hullFold (acc.lookup s) (items.filter fun it => sourceOf m it.index = some s) := by
  intro items
  induction items with
  | nil => intro acc h; exact ⟨h, fun s => by simp [foldSpans, hullFold]⟩
  | cons it rest ih =>
    intro acc hnd
    simp only [foldSpans]
    cases hsrc : sourceOf m it.index with
    | none =>
      simp only
      obtain ⟨h1, h2⟩ := ih acc hnd
      refine ⟨h1, fun s => ?_⟩
      rw [h2 s]
      simp [List.filter_cons, hsrc]
    | some s0 =>
      simp only
      cases hl : acc.lookup s0 with
      | some sp =>
        simp only
        have hnd' : ((acc.map fun kv => if kv.1 = s0 then (s0, spanUnion sp (it.start, it.dur)) else kv).map
            (·.1)).Nodup := by rw [keys_update]; exact hnd
        obtain ⟨h1, h2⟩ := ih _ hnd'
        refine ⟨h1, fun s => ?_⟩
        rw [h2 s, lookup_update]
        by_cases hs : s = s0
        · subst hs
          simp [List.filter_cons, hsrc, hl, hullFold]
        · have : ¬ (some s0 = some s) := by simpa using fun h => hs h.symm
          simp [List.filter_cons, hsrc, hs, this]
      | none =>
        simp only
        have hnd' : ((acc ++ [(s0, (it.start, it.dur))]).map (·.1)).Nodup := by
          rw [List.map_append, List.nodup_append]
          refine ⟨hnd, by simp, ?_⟩
          intro a ha b hb
          simp only [List.map_cons, List.map_nil, List.mem_singleton] at hb
          subst hb
          intro heq; subst heq
          exact (lookup_none_iff _ acc).1 hl ha
        obtain ⟨h1, h2⟩ := ih _ hnd'
        refine ⟨h1, fun s => ?_⟩
        rw [h2 s, lookup_append_new _ _ _ _ hl]
        by_cases hs : s = s0
        · subst hs
          simp [List.filter_cons, hsrc, hl, hullFold]
        · have : ¬ (some s0 = some s) := by simpa using fun h => hs h.symm
          simp [List.filter_cons, hsrc, hs, this]

theorem mem_of_lookup {β : Type} (s : Nat) (v : β) : ∀ (acc : List (Nat × β)), acc.lookup s = some v → (s, v) ∈ acc := by
  intro acc
  induction acc with
  | nil => intro h; simp at h
  | cons kv rest ih =>
    intro h
    obtain ⟨k, x⟩ := kv
    by_cases hk : s = k
    · subst hk
      simp only [List.lookup_cons, BEq.rfl, Option.some.injEq] at h
      subst h; exact List.mem_cons_self
    · have h1 : (s == k) = false := by simpa using hk
      simp only [List.lookup_cons, h1] at h
      exact List.mem_cons_of_mem _ (ih h)

theorem lookup_of_mem {β : Type} (s : Nat) (v : β) : ∀ (acc : List (Nat × β)), (acc.map (·.1)).Nodup → (s, v) ∈ acc →
    acc.lookup s = some v := by
  intro acc
  induction acc with
  | nil => intro _ h; simp at h
  | cons kv rest ih =>
    intro hnd h
    obtain ⟨k, x⟩ := kv
    simp only [List.map_cons, List.nodup_cons] at hnd
    rcases List.mem_cons.1 h with heq | h'
    · cases heq; simp [List.lookup_cons]
    · have hk : s ≠ k := by
        intro e; subst e
        exact hnd.1 (List.mem_map.2 ⟨(s, v), h', rfl⟩)
      have h1 : (s == k) = false := by simpa using hk
      simp only [List.lookup_cons, h1]
      exact ih hnd.2 h'

end QV.C25

namespace QV.C25
open QV.Sched

/-! the source map: `firstIndices` and the `range(..=idx).next_back()` lookup -/

/-- one step of the fold inside `sourceOf` -/
def srcStep (idx : Nat) (best : Option (Nat × Nat)) (kv : Nat × Nat) : Option (Nat × Nat) :=
  if kv.1 ≤ idx then
    match best with
    | some b => if b.1 ≤ kv.1 then some kv else some b
    | none => some kv
  else best

theorem sourceOf_eq (m : List (Nat × Nat)) (idx : Nat) :
    sourceOf m idx = (m.foldl (srcStep idx) none).map (·.2) := rfl

/-- entries whose key exceeds `idx` are ignored -/
theorem fold_skip (idx : Nat) : ∀ (lens : List Nat) (s acc : Nat) (best : Option (Nat × Nat)), idx < acc →
    (firstIndices lens s acc).foldl (srcStep idx) best = best := by
  intro lens
  induction lens with
  | nil => intro s acc best _; rfl
  | cons len rest ih =>
    intro s acc best h
    simp only [firstIndices, List.foldl_cons]
    have : srcStep idx best (acc, s) = best := by
      simp only [srcStep]
      rw [if_neg (by omega)]
    rw [this]
    exact ih (s + 1) (acc + len) best (by omega)

/-- if `idx` lies in the interval of source `j`, the lookup returns `j` -/
theorem fold_hit (idx : Nat) : ∀ (lens : List Nat) (s acc : Nat) (best : Option (Nat × Nat)),
    (∀ b, best = some b → b.1 ≤ acc) → ∀ j first len, (firstIndices lens s acc)[j]? = some (first, s + j) →
    lens[j]? = some len → first ≤ idx → idx < first + len →
    ((firstIndices lens s acc).foldl (srcStep idx) best).map (·.2) = some (s + j) := by
  intro lens
  induction lens with
  | nil => intro s acc best _ j first len h; simp [firstIndices] at h
  | cons l0 rest ih =>
    intro s acc best hb j first len hf hl h1 h2
    simp only [firstIndices, List.foldl_cons]
    cases j with
    | zero =>
      simp only [firstIndices, List.getElem?_cons_zero, Option.some.injEq, Prod.mk.injEq] at hf
      simp only [List.getElem?_cons_zero, Option.some.injEq] at hl
      obtain ⟨rfl, _⟩ := hf
      subst hl
      have hstep : srcStep idx best (acc, s) = some (acc, s) := by
        simp only [srcStep]
        rw [if_pos h1]
        cases best with
        | none => rfl
        | some b => simp only; rw [if_pos (hb b rfl)]
      rw [hstep, fold_skip idx rest (s + 1) (acc + l0) _ (by omega)]
      simp
    | succ j' =>
      simp only [firstIndices, List.getElem?_cons_succ] at hf hl
      have e : s + (j' + 1) = s + 1 + j' := by omega
      rw [e] at hf ⊢
      -- keys of the remaining entries are ≥ acc + l0; `first` is one of them
      have hfirst : acc + l0 ≤ first := by
        clear ih hl h1 h2
        have key : ∀ (lens : List Nat) (s acc j first s' : Nat), (firstIndices lens s acc)[j]? = some (first, s') →
            acc ≤ first := by
          intro lens
          induction lens with
          | nil => intro s acc j first s' h; simp [firstIndices] at h
          | cons l1 r1 ih1 =>
            intro s acc j first s' h
            cases j with
            | zero =>
              simp only [firstIndices, List.getElem?_cons_zero, Option.some.injEq, Prod.mk.injEq] at h
              omega
            | succ j1 =>
              simp only [firstIndices, List.getElem?_cons_succ] at h
              have := ih1 _ _ _ _ _ h
              omega
        exact key _ _ _ _ _ _ hf
      apply ih (s + 1) (acc + l0) _ _ j' first len hf hl h1 h2
      intro b hb'
      simp only [srcStep] at hb'
      split at hb'
      · cases best with
        | none => simp only [Option.some.injEq] at hb'; subst hb'; simp only; omega
        | some b0 =>
          simp only at hb'
          split at hb'
          · simp only [Option.some.injEq] at hb'; subst hb'; simp only; omega
          · simp only [Option.some.injEq] at hb'; subst hb'
            have := hb b0 rfl; omega
      · have := hb b hb'; omega

/-- the interval of every source index: it exists, starts at or after `acc`, and ends within the total -/
theorem firstIndices_get : ∀ (lens : List Nat) (s acc j len : Nat), lens[j]? = some len →
    ∃ first, (firstIndices lens s acc)[j]? = some (first, s + j) ∧ acc ≤ first ∧ first + len ≤ acc + lens.sum := by
  intro lens
  induction lens with
  | nil => intro s acc j len h; simp at h
  | cons l0 rest ih =>
    intro s acc j len h
    cases j with
    | zero =>
      simp only [List.getElem?_cons_zero, Option.some.injEq] at h
      subst h
      exact ⟨acc, by simp [firstIndices], Nat.le_refl _, by simp only [List.sum_cons]; omega⟩
    | succ j' =>
      simp only [List.getElem?_cons_succ] at h
      obtain ⟨first, h1, h2, h3⟩ := ih (s + 1) (acc + l0) j' len h
      refine ⟨first, ?_, by omega, by simp only [List.sum_cons]; omega⟩
      simp only [firstIndices, List.getElem?_cons_succ]
      have e : s + (j' + 1) = s + 1 + j' := by omega
      rw [e]; exact h1

/-- every index below the total lies in the interval of some source index -/
theorem interval_exists : ∀ (lens : List Nat) (s acc idx : Nat), acc ≤ idx → idx < acc + lens.sum →
    ∃ j first len, (firstIndices lens s acc)[j]? = some (first, s + j) ∧ lens[j]? = some len ∧
      first ≤ idx ∧ idx < first + len := by
  intro lens
  induction lens with
  | nil => intro s acc idx h1 h2; simp at h2; omega
  | cons l0 rest ih =>
    intro s acc idx h1 h2
    simp only [List.sum_cons] at h2
    by_cases hlt : idx < acc + l0
    · exact ⟨0, acc, l0, by simp [firstIndices], by simp, h1, hlt⟩
    · obtain ⟨j, first, len, a, b, c, d⟩ := ih (s + 1) (acc + l0) idx (by omega) (by omega)
      refine ⟨j + 1, first, len, ?_, by simpa using b, c, d⟩
      simp only [firstIndices, List.getElem?_cons_succ]
      have e : s + (j + 1) = s + 1 + j := by omega
      rw [e]; exact a

end QV.C25
