import QV.Wire
import QV.Shared.CFloat
import QV.Shared.ExprWire
import QV.Shared.Lex
import QV.Shared.LexWire
import QV.Shared.Parse
import QV.Shared.AstWire
import QV.Shared.ParseWire
import QV.Shared.ExprPrint
/-! Driver side of the C03 correspondence check.

input   `(rt STREAM E ASEED)`                      E = expression (bits), ASEED = seed of the 4 assignments
output  `(out "text" (toks TOKEN…)|(lexerr) (ok E')|(err) (vals (v v v v) (v' v' v' v')) (routes same|differ) (again b))`
input   `(emb STREAM POS E ASEED)`  the expression embedded in an instruction, read back by `Program::from_str`
output  `(embout "text" (ok E')|(err)|(badshape) FROMSTR (vals (v…) (v'…)))`
input   `(imm xRE xIM)`  a CALL immediate;  output `(immout "text" (ok xRE xIM)|(err))`

agree   the model's printed tokens `printExprTokens e` = the real lexer's tokens of the real printer's
        text;  the model parser on the model's tokens = `norm e` (the theorem's instance, recomputed) =
        the real `Expression::from_str` of the real text;  the lexer MODEL on the real text gives the same
        tokens;  the hypotheses of the theorem hold of the input (`finiteLits`, the NumTok hypothesis
        `numTokOk stdFmt`) and the literal laws `LitLaws` hold bit for bit on IEEE doubles for every
        literal of the input.
spec    on the implementation's output only: the re-parse succeeded and at each of the 4 assignments the
        original and the re-parsed tree evaluate to the same value (both `Err`, or both `Ok` with values
        equal to relative 1e-12, NaN-aware).
-/
namespace QV.C03
open QV QV.Tok QV.Ast QV.Parse QV.ExprPrint

/-- the IEEE double pair a literal denotes -/
def denF (z : CBits) : CFloat := (Float.ofBits z.re.toUInt64, Float.ofBits z.im.toUInt64)

/-- closed evaluation (no variables, no memory) on IEEE doubles -/
def evalClosed (e : PExpr) : Option CFloat :=
  match eval (K := CFloat) (fun _ => none) (fun _ => none) (e.mapNum denF) with
  | .ok v => some v
  | .error _ => none

/-- the literal laws, instantiated at this literal, hold bit for bit on IEEE doubles: the tree the literal
parses back to evaluates to the literal -/
def litLawsOkAt (z : CBits) : Bool :=
  match evalClosed (numTree z) with
  | some v => CFloat.bitEq v (denF z)
  | none => false

def litKind (z : CBits) : String :=
  if fZero z.re && fZero z.im then "lit-zero"
  else if fZero z.im then (if fSign z.re then "lit-re-neg" else "lit-re-pos")
  else if fZero z.re then (if fSign z.im then "lit-im-neg" else "lit-im-pos")
  else s!"lit-both-{if fSign z.re then "neg" else "pos"}-{if fSign z.im then "neg" else "pos"}"

def ctorTags : PExpr → List String
  | .address _ => ["e-addr"]
  | .call f e => s!"e-call-{AstWire.encodeFn f}" :: ctorTags e
  | .bin l o r => s!"e-infix-{AstWire.encodeInfixOp o}" :: (ctorTags l ++ ctorTags r)
  | .number z => ["e-num", litKind z]
  | .pi => ["e-pi"]
  | .pre o e => s!"e-prefix-{AstWire.encodePrefixOp o}" :: ctorTags e
  | .var _ => ["e-var"]

/-- which printer decisions the case exercises -/
def printerTags : PExpr → List String
  | .call _ e => printerTags e
  | .bin l _ r =>
    (if needsParens l then ["paren-left"] else []) ++ (if needsParens r then ["paren-right"] else []) ++
    (if startsWithMinus l then ["signed-left"] else []) ++ (if startsWithMinus r then ["signed-right"] else []) ++
    printerTags l ++ printerTags r
  | .pre op e =>
    (if op == .minus && startsWithMinus e then ["minus-wrapped"] else []) ++
    (if needsParens e then ["prefix-paren"] else []) ++ printerTags e
  | _ => []

/-- some literal has a `-0.0` component -/
def hasNegZero : PExpr → Bool
  | .call _ e => hasNegZero e
  | .bin l _ r => hasNegZero l || hasNegZero r
  | .number z => z.re == two63 || z.im == two63
  | .pre _ e => hasNegZero e
  | _ => false

/-- some memory region is named like a reserved word of the lexer -/
def hasReservedRegion (e : PExpr) : Bool := !plainNames e

def nontrivial : PExpr → Bool
  | .number z => !(fZero z.im && !fSign z.re)
  | e => e.depth ≥ 1

def decodeVal : Sexp → Option (Option CFloat)
  | .list [.atom "ok", c] => (ExprWire.decodeC c).map some
  | .list [.atom "err"] => some none
  | _ => none

/-- the two values agree: both `Err`, or both `Ok` and close (relative 1e-12, NaN-aware) -/
def valAgree (a b : Sexp) : Bool :=
  match decodeVal a, decodeVal b with
  | some none, some none => true
  | some (some x), some (some y) => CFloat.close 1e-12 x y
  | _, _ => false

def valBitEq (a b : Sexp) : Bool := a == b

def allAgree (f : Sexp → Sexp → Bool) : List Sexp → List Sexp → Bool
  | [], [] => true
  | a :: as, b :: bs => f a b && allAgree f as bs
  | _, _ => false

def lenTag (n : Nat) : String :=
  if n ≤ 4 then s!"toks{n}" else if n ≤ 8 then "toks5-8" else if n ≤ 16 then "toks9-16"
  else if n ≤ 64 then "toks17-64" else "toks65+"

def tokKindTags (ts : List Token) : List String :=
  (if ts.any (fun t => match t with | .integer _ => true | _ => false) then ["tok-Integer"] else []) ++
  (if ts.any (fun t => match t with | .float _ => true | _ => false) then ["tok-Float"] else [])

def handle (inp out : Sexp) : CaseResult :=
  match inp with
  | .list [.atom "rt", .atom stream, eS, _] =>
    match AstWire.decodeExpr eS with
    | none => .bad s!"undecodable expression {eS}"
    | some e =>
      let toks := printExprTokens e
      let mToks : Sexp := .list (.atom "toks" :: toks.map LexWire.tokenSexp)
      let mParse := parseExpressionStr toks
      let mBack := ParseWire.encodeResult AstWire.encodeExpr mParse
      let normBack : Sexp := .list [.atom "ok", AstWire.encodeExpr (norm e)]
      let hypFinite := finiteLits e
      let hypNumTok := numTokOk stdFmt e
      let hypLaws := allLits litLawsOkAt e
      match out with
      | .list [.atom "out", .str text, iToks, iBack, .list [.atom "vals", .list orig, .list re],
          .list [.atom "routes", .atom routes], .list [.atom "again", .atom again]] =>
        let lexModel := LexWire.lexOutSexp (QV.Lex.lex text.toList)
        let lexModelOk := lexModel == (match iToks with
          | .list (.atom "toks" :: ts) => .list (.atom "ok" :: ts)
          | _ => .list [.atom "err"])
        let toksOk := iToks == mToks
        let backOk := iBack == mBack
        -- the theorem's instance, recomputed: whenever its hypotheses hold the model parse is `norm e`
        let hyps := hypFinite && hypNumTok && plainNames e
        let thmOk := !hyps || mBack == normBack
        -- outside the two known-finding streams the hypotheses of the theorem must hold of every input
        let special := stream == "negzero" || stream == "names-reserved-region"
        let hypOk := special || (hyps && hypLaws)
        let reparsed := match iBack with | .list [.atom "ok", _] => true | _ => false
        -- every printing route wrote the same text; a second round trip is the identity
        let routesOk := routes == "same"
        let againOk := again == "true" || !reparsed
        let agree := toksOk && backOk && thmOk && lexModelOk && hypOk && routesOk && againOk
        let valsOk := allAgree valAgree orig re
        let bitsOk := allAgree valBitEq orig re
        let evalKinds := (orig.map fun v => match v with
          | .list [.atom "ok", _] => "val-ok" | _ => "val-err").eraseDups
        let specOk := reparsed && valsOk
        { agree := agree, specOk := specOk, nontrivial := nontrivial e,
          tags := ["s-" ++ stream, s!"depth{min e.depth 8}", lenTag toks.length,
            (if norm e == e then "norm-same" else "norm-changed"),
            (if bitsOk then "vals-bit-identical" else "vals-close-only")] ++
            (ctorTags e).eraseDups ++ (printerTags e).eraseDups ++ tokKindTags toks ++ evalKinds ++
            (if hasNegZero e then ["has-negzero"] else []) ++
            (if hasReservedRegion e then ["has-reserved-region"] else []) ++
            -- known findings, narrow classifiers over (input, implementation output)
            (if !specOk && hasNegZero e then ["kf:C03/negative-zero-literal"] else []) ++
            (if !reparsed && hasReservedRegion e then ["kf:C03/reserved-word-region-name"] else []),
          detail := s!"toksOk={toksOk} backOk={backOk} thmOk={thmOk} lexModelOk={lexModelOk} finiteLits={hypFinite} plainNames={plainNames e} numTokOk={hypNumTok} litLaws={hypLaws} routes={routes} again={again} reparsed={reparsed} valsOk={valsOk} text={repr text} modelToks={mToks} implToks={iToks} modelBack={mBack} implBack={iBack} norm={normBack} orig={Sexp.list orig} re={Sexp.list re}" }
      | _ =>
        { agree := false, specOk := false, nontrivial := nontrivial e, tags := ["s-" ++ stream, "bad-output"],
          detail := s!"unexpected implementation output {out}; modelToks={mToks} modelBack={mBack}" }
  | .list [.atom "emb", .atom stream, .atom pos, eS, _] =>
    match AstWire.decodeExpr eS with
    | none => .bad s!"undecodable expression {eS}"
    | some e =>
      -- the model: in every position the embedded expression is followed by a token that is `endOk`
      -- (`)`, `,`, a newline, a string, an identifier other than `i`, or nothing), so `C03_with_tail` says it
      -- reads back as `norm e`
      let expected : Sexp := .list [.atom "ok", AstWire.encodeExpr (norm e)]
      let hyps := finiteLits e && plainNames e && numTokOk stdFmt e
      match out with
      | .list [.atom "embout", .str text, iEmb, iFromStr, .list [.atom "vals", .list orig, .list vals]] =>
        let embOk := iEmb == expected
        let siblingOk := iEmb == iFromStr
        let reparsed := match iEmb with | .list [.atom "ok", _] => true | _ => false
        let valsOk := allAgree valAgree orig vals
        { agree := embOk && siblingOk && hyps, specOk := reparsed && valsOk, nontrivial := true,
          tags := ["s-" ++ stream, "pos-" ++ pos, s!"depth{min e.depth 8}"] ++ (ctorTags e).eraseDups,
          detail := s!"pos={pos} embOk={embOk} siblingOk={siblingOk} hyps={hyps} reparsed={reparsed} valsOk={valsOk} text={repr text} embedded={iEmb} fromStr={iFromStr} norm={expected} orig={Sexp.list orig} vals={Sexp.list vals}" }
      | _ =>
        { agree := false, specOk := false, nontrivial := true, tags := ["s-" ++ stream, "pos-" ++ pos, "bad-output"],
          detail := s!"unexpected implementation output {out}" }
  | .list [.atom "imm", reS, imS] =>
    -- a CALL immediate is a Complex64, not an Expression: no tree to compare, the specification is that the
    -- number read back is the number written (zero signs aside, cf. C03/negative-zero-literal)
    match ExprWire.decodeF64 reS, ExprWire.decodeF64 imS with
    | some re, some im =>
      match out with
      | .list [.atom "immout", .str text, .list [.atom "ok", r2, i2]] =>
        match ExprWire.decodeF64 r2, ExprWire.decodeF64 i2 with
        | some re2, some im2 =>
          let same := re == re2 && im == im2
          let bits := r2 == reS && i2 == imS
          { agree := same, specOk := same, nontrivial := true,
            tags := ["s-imm", (if bits then "imm-bit-identical" else "imm-equal-only")],
            detail := s!"text={repr text} in=({reS} {imS}) out=({r2} {i2})" }
        | _, _ => .bad s!"undecodable immediate output {out}"
      | _ =>
        { agree := false, specOk := false, nontrivial := true, tags := ["s-imm", "imm-unparsed"],
          detail := s!"the CALL immediate did not read back: {out}" }
    | _, _ => .bad s!"undecodable input {inp}"
  | _ => .bad s!"undecodable input {inp}"

end QV.C03

def main : IO UInt32 := QV.runMain QV.C03.handle
