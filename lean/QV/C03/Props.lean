import QV.Shared.ExprRoundTrip
/-!
# C03 — Serialized expressions denote the same value when parsed back

> For every expression with finite numeric literals, its Quil text parses successfully.  The parsed
> expression evaluates to the same complex value as the original under every assignment of variables and
> memory.  This includes complex and negative literals, nested negation, exponentiation and function calls.

Models (shared, tied to the code by the C03 correspondence check on every run):
`QV.ExprPrint.printTop` = `impl Quil for Expression` + `format_inner_expression` + `format_complex` +
`starts_with_minus` (expression/mod.rs, as repaired by /repo 455932e and a634ce0), as a function to the
tokens the real lexer produces from the printed text; `QV.Parse.parseExpressionStr` = `Expression::from_str`
after lexing (the Pratt parser of parser/expression.rs); `QV.eval` = `Expression::evaluate`.

The theorems are about EVERY expression tree (structural induction, no depth or size bound) and every
scalar type `K` with a denotation of literals satisfying the four `LitLaws`.

Hypotheses, all decidable and checked on every generated case by the driver:
* `finiteLits e` — every literal component is finite and is not `-0.0`.  For `-0.0` the full statement is
  FALSE of the code (`C03_negzero_counterexample`, known finding `C03/negative-zero-literal`);
* `plainNames e` — no memory region is named like a reserved word of the lexer (`ADD`, `DAGGER`, `mut`, `BIT`
  …): such a name is written as it is and lexes as a `Command` / `Modifier` / keyword token, so the text
  does not parse (`C03_reserved_name_counterexample`, known finding `C03/reserved-word-region-name`);
* `numTokOk F e` — the NumTok hypothesis: the decimal text of each literal component's magnitude lexes to a
  token denoting the same bits (`lexical`'s formatting and parsing are not modelled; validated on every
  numeric leaf through the real printer + real lexer).
-/
namespace QV.C03
open QV QV.Tok QV.Ast QV.Parse QV.ExprPrint QV.ExprRoundTrip

/-- The specification: the token list parses (completely) to some expression that has the same value as
`e` under every assignment of variables and memory. -/
def RoundTrips {K : Type} [Scalar K] (den : CBits → K) (toks : List Token) (e : PExpr) : Prop :=
  ∃ e', parseExpressionStr toks = .ok e' [] ∧ ∀ (ρ : VarEnv K) (μ : MemEnv K), evalP den ρ μ e' = evalP den ρ μ e

/-- **C03** (all expression trees, any depth; any scalar with `LitLaws`; any number formatter satisfying
the NumTok hypothesis on the literals of `e`): the printed tokens parse back, completely, to an expression
that evaluates to the same value as `e` under every assignment. -/
theorem C03 {K : Type} [Scalar K] (den : CBits → K) (L : LitLaws K den) (F : NumFmt) (e : PExpr)
    (hf : finiteLits e = true) (hn : numTokOk F e = true) : RoundTrips den (printTop F e) e :=
  ⟨norm e, parseExpressionStr_printTop F e hf hn, fun ρ μ => eval_norm L ρ μ e hf⟩

/-- C03 for the concrete printer `printExprTokens` (= `lex_tokens ∘ to_quil`, compared on every case): the
idealised `printTop stdFmt` with every written name classified the way the lexer does; needs `plainNames`
(no memory region named like a reserved word of the lexer) — see `C03_reserved_name_counterexample`. -/
theorem C03_std {K : Type} [Scalar K] (den : CBits → K) (L : LitLaws K den) (e : PExpr)
    (hf : finiteLits e = true) (hm : plainNames e = true) (hn : numTokOk stdFmt e = true) :
    RoundTrips den (printExprTokens e) e := by
  rw [printExprTokens_eq e hm]
  exact C03 den L stdFmt e hf hn

/-- The strengthened, reusable form (C02 / C04): the printed tokens followed by ANY `rest` that does not
begin with an operator, the identifier `i` or `[` are consumed exactly, at every depth budget larger than
the number of printed tokens, and yield `norm e`, whose value is that of `e`. -/
theorem C03_with_tail {K : Type} [Scalar K] (den : CBits → K) (L : LitLaws K den) (F : NumFmt) (e : PExpr)
    (hf : finiteLits e = true) (hn : numTokOk F e = true) (d : Nat) (rest : List Token)
    (hd : (printTop F e).length < d) (he : endOk rest = true) :
    parseExpressionAt d (printTop F e ++ rest) = .ok (norm e) rest ∧
      ∀ (ρ : VarEnv K) (μ : MemEnv K), evalP den ρ μ (norm e) = evalP den ρ μ e :=
  ⟨parseExpressionAt_printTop F e hf hn d rest hd he, fun ρ μ => eval_norm L ρ μ e hf⟩

/-- Operand form at any precedence `p`: what `format_inner_expression` writes, followed by a `rest` that
does not begin with an operator binding tighter than `p` (nor `i`, nor `[`), is consumed exactly. -/
theorem C03_operand (F : NumFmt) (e : PExpr) (hf : finiteLits e = true) (hn : numTokOk F e = true)
    (d : Nat) (rest : List Token) (p : Prec) (hd : (inner F e).length ≤ d) (ht : tailOk rest = true)
    (hs : stopsAt p rest = true) : parse (d + 1) (inner F e ++ rest) p = .ok (norm e) rest :=
  parse_inner F e hf hn d rest p hd ht hs

/-- The parser never runs out of its model budgets on printed expressions, and never fails: a corollary
worth stating because `Outcome` has `crash` / `err` / `fail` constructors. -/
theorem C03_parses (F : NumFmt) (e : PExpr) (hf : finiteLits e = true) (hn : numTokOk F e = true) :
    (parseExpressionStr (printTop F e)).isOk = true := by
  rw [parseExpressionStr_printTop F e hf hn]; rfl

/-- A second round trip is the identity: the re-parsed tree has the shape the parser produces (no prefix
plus, literals non-negative and purely real or purely imaginary), such trees are fixed points of `norm`,
hence `norm` is idempotent. -/
theorem C03_normal_form (e : PExpr) (hf : finiteLits e = true) :
    parserShaped (norm e) = true ∧ norm (norm e) = norm e ∧
      ∀ e' : PExpr, parserShaped e' = true → norm e' = e' :=
  ⟨norm_parserShaped e hf, norm_norm e hf, norm_eq_self⟩

/-! ## the NumTok hypothesis for the concrete formatter, as far as it can be proved -/

/-- For `stdFmt` the hypothesis is trivially true of every component that is written as a `Float` token
(all imaginary parts, all non-integral or large real parts); what remains is, for each real part that is
an integer `n < 10^16`: `n as f64` has the bits of that real part (`DecF64.ofNat`, an exact-rounding
definition) — validated numerically by the driver on every literal, not proved. -/
theorem numTokOkAt_std (z : CBits)
    (h : ∀ n, intValue? (fAbs z.re) = some n → n < 10 ^ 16 → QV.DecF64.ofNat n = fAbs z.re) :
    numTokOkAt stdFmt z = true := by
  simp only [numTokOkAt, stdFmt, Bool.and_eq_true, beq_iff_eq]
  refine ⟨?_, rfl⟩
  cases hv : intValue? (fAbs z.re) with
  | none => rfl
  | some n =>
    simp only
    by_cases hlt : n < 10 ^ 16
    · simp only [hlt, if_true, tokBits]; rw [h n hv hlt]
    · simp only [hlt, if_false, tokBits]

/-! ## non-vacuity: the literal laws hold in exact arithmetic -/

/-- the Gaussian integers, with `negate x = 0 - x` (the operations evaluation does not need for the laws
are arbitrary) -/
def GI : Type := Int × Int

instance : Scalar GI where
  add a b := (a.1 + b.1, a.2 + b.2)
  sub a b := (a.1 - b.1, a.2 - b.2)
  mul a b := (a.1 * b.1 - a.2 * b.2, a.1 * b.2 + a.2 * b.1)
  div a _ := a
  pow a _ := a
  neg a := (0 - a.1, 0 - a.2)
  sin a := a
  cos a := a
  exp a := a
  sqrt a := a
  cis a := a
  pi := (3, 0)
  zero := (0, 0)
  one := (1, 0)

/-- sign-magnitude reading of a bit pattern (the order-preserving integer reading of a double) -/
def sval (b : Nat) : Int := if b < two63 then (b : Int) else -((b - two63 : Nat) : Int)

def denGI (z : CBits) : GI := (sval z.re, sval z.im)

theorem plainBits_lt (b : Nat) (h : plainBits b = true) : b < 18446744073709551616 := by
  have h64 : two64 = 18446744073709551616 := rfl
  simp [plainBits] at h
  omega

theorem litLaws_GI : LitLaws GI denGI := by
  have h63 : two63 = 9223372036854775808 := rfl
  constructor
  · intro b hb hlt
    have := plainBits_lt b hb
    simp only [denGI, Scalar.neg, sval, h63] at hlt ⊢
    refine Prod.ext ?_ ?_ <;> simp <;> split <;> omega
  · intro b hb hlt
    have := plainBits_lt b hb
    simp only [denGI, Scalar.neg, sval, h63] at hlt ⊢
    refine Prod.ext ?_ ?_ <;> simp <;> split <;> omega
  · intro re im _ _ _ _ _
    simp only [denGI, Scalar.add, sval, h63]
    refine Prod.ext ?_ ?_ <;> simp
  · intro re im _ him _ hlt
    have := plainBits_lt im him
    simp only [denGI, Scalar.sub, sval, h63] at hlt ⊢
    refine Prod.ext ?_ ?_ <;> simp <;> split <;> omega

/-- bits of a few doubles -/
def b1 : Nat := 0x3FF0000000000000       -- 1.0
def b1h : Nat := 0x3FF8000000000000      -- 1.5
def bm1h : Nat := 0xBFF8000000000000     -- -1.5
def b2 : Nat := 0x4000000000000000       -- 2.0
def bm2 : Nat := 0xC000000000000000      -- -2.0

/-- `-(-1.5) ^ ((1.5-2.0i) * sqrt(%x - pi))`-like tree: negation of a negative literal, a complex literal
with a negative imaginary part as an operand, exponentiation, a function call, subtraction -/
def witness : PExpr :=
  .bin (.pre .minus (.number ⟨bm1h, 0⟩)) .caret
    (.bin (.number ⟨b1h, bm2⟩) .star (.call .sqrt (.bin (.var "x") .minus .pi)))

/-- the hypotheses of `C03_std` are satisfiable on a non-trivial tree, and the conclusion is not trivial:
the re-parsed tree differs from the original -/
example : finiteLits witness = true ∧ plainNames witness = true ∧ numTokOk stdFmt witness = true ∧
    norm witness ≠ witness := by
  decide

example : RoundTrips denGI (printExprTokens witness) witness :=
  C03_std denGI litLaws_GI witness (by decide) (by decide) (by decide)

/-- what the witness prints to: `-(-1.5)^((1.5-2.0i)*sqrt(%x - pi))` -/
example : printExprTokens witness =
    [.operator .minus, .lParenthesis, .operator .minus, .float b1h, .rParenthesis, .operator .caret,
     .lParenthesis, .lParenthesis, .float b1h, .operator .minus, .float b2, tokI, .rParenthesis,
     .operator .star, .identifier "sqrt".toList, .lParenthesis, .variable ['x'], .operator .minus, tokPi,
     .rParenthesis, .rParenthesis] := by
  decide

/-- the side condition of the tail form is satisfiable by the tokens that follow an expression in a
program: `)`, `,`, a newline, an integer (qubit), a string -/
example : endOk [.rParenthesis] = true ∧ endOk [.comma] = true ∧ endOk [.newLine] = true ∧
    endOk [.integer 0] = true ∧ endOk [.string []] = true ∧ endOk [] = true := by decide

/-! ## the full statement is false for literals with a `-0.0` component

The statement of C03 quantifies over "finite numeric literals"; `-0.0` is finite.  But `format_complex`
decides what to print with `== 0f64`, so the sign of a zero is never written: two different literals print
to the same tokens, and no parser whatsoever can read both back value-preservingly in a scalar type where
`sqrt` tells them apart (as IEEE `Complex64::sqrt` does: `sqrt(-9-0.0i) = -3i`, `sqrt(-9+0.0i) = +3i` —
observed on the real code in the harness stream `negzero`). -/

def bm9 : Nat := 0xC022000000000000      -- -9.0
def negZero : Nat := two63               -- -0.0

/-- `sqrt(-9-0.0i)` and `sqrt(-9+0.0i)` are different trees with finite literals that print identically -/
theorem C03_negzero_collision :
    printExprTokens (.call .sqrt (.number ⟨bm9, negZero⟩)) = printExprTokens (.call .sqrt (.number ⟨bm9, 0⟩)) ∧
    (Expr.call .sqrt (.number ⟨bm9, negZero⟩) : PExpr) ≠ .call .sqrt (.number ⟨bm9, 0⟩) ∧
    finiteLits (.call .sqrt (.number ⟨bm9, negZero⟩)) = false := by
  decide

/-- Full statement (FALSE of the code, kept visible):
`∀ den F e, (all literal components of e finite) → RoundTrips den (printTop F e) e`.
Its negation on the witness, for every scalar whose `sqrt` separates the two literals, and for ANY
function from token lists to parse results (not just this parser): -/
theorem C03_negzero_counterexample {K : Type} [Scalar K] (den : CBits → K)
    (hsep : (Scalar.sqrt (den ⟨bm9, negZero⟩) : K) ≠ Scalar.sqrt (den ⟨bm9, 0⟩)) :
    ¬ (RoundTrips den (printExprTokens (.call .sqrt (.number ⟨bm9, negZero⟩)))
          (.call .sqrt (.number ⟨bm9, negZero⟩)) ∧
       RoundTrips den (printExprTokens (.call .sqrt (.number ⟨bm9, 0⟩)))
          (.call .sqrt (.number ⟨bm9, 0⟩))) := by
  rintro ⟨⟨e1, h1, v1⟩, ⟨e2, h2, v2⟩⟩
  rw [C03_negzero_collision.1] at h1
  rw [h1] at h2
  have he : e1 = e2 := by injection h2
  subst he
  have a := v1 (fun _ => none) (fun _ => none)
  have b := v2 (fun _ => none) (fun _ => none)
  rw [a] at b
  simp only [evalP, Expr.mapNum, eval, calcFn] at b
  injection b with b
  exact hsep b

/-! ## the full statement is false for a memory region named like a reserved word

`MemoryReference { name, index }` has public fields and no validation; `name[index]` is written verbatim and
the lexer classifies `ADD`, `DAGGER`, `BIT`, `mut`, `PAULI-SUM` … as `Command` / `Modifier` / `DataType` /
keyword tokens, which `parse_expression` rejects. -/

theorem C03_reserved_name_counterexample :
    finiteLits (.address ⟨"ADD", 0⟩) = true ∧ plainNames (.address ⟨"ADD", 0⟩) = false ∧
    printExprTokens (.address ⟨"ADD", 0⟩) = [.command .add, .lBracket, .integer 0, .rBracket] ∧
    (parseExpressionStr (printExprTokens (.address ⟨"ADD", 0⟩))).isOk = false ∧
    (parseExpressionStr (printExprTokens (.bin (.address ⟨"DAGGER", 1⟩) .star (.address ⟨"mut", 0⟩)))).isOk = false := by
  decide

end QV.C03
