import QV.Shared.Program
/-
C08 — the program model is `QV/Shared/Program.lean` (every container an ordered association list,
`FrameSet` included since fix 483e58b). Here: construction ROUTES of one history.
-/
namespace QV.C08
open QV.Prog

/-- a construction route: the history cut into consecutive chunks, each built separately with
`from_instructions`, the results concatenated left to right with `+=` / `+` (one chunk = plain
`from_instructions`; singleton chunks = one program per instruction) -/
def buildChunks : List (List Instr) → Program
  | [] => empty
  | c :: cs => cs.foldl (fun acc d => concat acc (fromInstructions d)) (fromInstructions c)

/-- cut a history at the given positions (as the harness does: positions clamped and monotone) -/
def chunksAt (is : List Instr) (cuts : List Nat) : List (List Instr) :=
  let rec go (rest : List Instr) (start : Nat) : List Nat → List (List Instr)
    | [] => [rest]
    | c :: cs =>
      let c := max (min c is.length) start
      rest.take (c - start) :: go (rest.drop (c - start)) c cs
  go is 0 cuts

end QV.C08
