import QV.Shared.Program
/-
C08 — the program model is `QV/Shared/Program.lean` (every container an ordered association list,
`FrameSet` included since fix 483e58b). Here: construction ROUTES of one history.
-/
namespace QV.C08
open QV.Prog

/-- a construction route: the history cut into consecutive chunks, each built separately with
`from_instructions`, the results concatenated left to right with `+=` / `+` (one chunk = plain
`from_instructions`; singleton chunks = one program per instruction) -/
def buildChunks : List (List Instr) → Program
  | [] => empty
  | c :: cs => cs.foldl (fun acc d => concat acc (fromInstructions d)) (fromInstructions c)

/-- cut a history at the given positions (as the harness does: positions clamped and monotone) -/
def chunksAt (is : List Instr) (cuts : List Nat) : List (List Instr) :=
  let rec go (rest : List Instr) (start : Nat) : List Nat → List (List Instr)
    | [] => [rest]
    | c :: cs =>
      let c := max (min c is.length) start
      rest.take (c - start) :: go (rest.drop (c - start)) c cs
  go is 0 cuts

end QV.C08

namespace QV.C08
open QV.Prog

/-! ### program-PRODUCING operations on built programs (derived programs)

Determinism and first-added order must also hold of programs obtained from a built program by the
public producing operations. Opaque inputs (expansion outputs, which keys `simplify` keeps, the five
`wrap_in_loop` instructions, the resolved body) are supplied by the harness as in C10; kept keys are
supplied as SETS — the ORDER of every derived container is computed by the model from the order
of the program the operation was applied to. -/

/-- `CalibrationSet::remove` (calibration_set.rs:111): remove the first element with the signature -/
def eraseKey : List Instr → String → List Instr
  | [], _ => []
  | x :: xs, k => if x.key = k then xs else x :: eraseKey xs k

inductive DOp where
  /-- `Program::simplify` -/
  | simplify (out : List Instr) (kF kW kE : List String)
  /-- `p.frames = p.frames.intersection(keys)` (frame.rs:107) -/
  | intersect (keys : List String)
  /-- `p.frames.merge(q.frames)` -/
  | merge
  /-- `p.calibrations.extend(q.calibrations)` -/
  | calExtend
  /-- `p.extern_pragma_map.extend(q.extern_pragma_map)` -/
  | extExtend
  /-- `p.calibrations.calibrations.remove(sig)` / `measure_calibrations.remove(sig)` -/
  | calRemove (key : String)
  | mcalRemove (key : String)
  /-- `expand_calibrations` / `_with_source_map` -/
  | expCal (out : List Instr)
  /-- `expand_defgate_sequences` / `_with_source_map` -/
  | expSeq (kept : List String) (out : List Instr)
  | clone
  | cloneWb
  | wrap (n : Nat) (hd tl : List Instr)
  | resolve (nb : List Instr)
  /-- `derive p a + derive q b` (operands derived from two built programs) -/
  | sum (a b : DOp)
  deriving Repr, Inhabited

def derive (p q : Program) : DOp → Program
  | .simplify out kF kW kE => Prog.simplify p out kF kW kE
  | .intersect ks => { p with frames := p.frames.filter (fun f => ks.contains f.key) }
  | .merge => { p with frames := extendMap p.frames q.frames }
  | .calExtend => { p with cals := extendMap p.cals q.cals, mcals := extendMap p.mcals q.mcals }
  | .extExtend => { p with externs := extendMap p.externs q.externs }
  | .calRemove k => { p with cals := eraseKey p.cals k }
  | .mcalRemove k => { p with mcals := eraseKey p.mcals k }
  | .expCal out => expandCalibrations p out
  | .expSeq kept out => expandSequences p kept out
  | .clone => p
  | .cloneWb => cloneWithoutBody p
  | .wrap n hd tl => wrapInLoop p n hd tl
  | .resolve nb => resolvePlaceholders p nb
  | .sum a b => concat (derive p q a) (derive q p b)

/-- Bool form of "first-added order is kept": the keys that were already in `base` come first, in
`base`'s relative order; keys new to `base` follow. -/
def ordPres (base out : List String) : Bool :=
  let old := out.filter (fun k => base.contains k)
  let new := out.filter (fun k => !base.contains k)
  out == old ++ new && old.isSublist base

/-- per definition kind, the derived listing keeps the first-added order of the base listing -/
def ordPresListing (base out : List Instr) : Bool :=
  Kind.defs.all fun k => ordPres (keys (ofKind k base)) (keys (ofKind k out))

end QV.C08
