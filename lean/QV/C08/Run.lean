import QV.Wire
import QV.Shared.ProgramWire
import QV.C09.Spec
import QV.C08.Model
/-! Driver side of the C08 correspondence check. -/
namespace QV.C08
open QV QV.Prog QV.C09

def decStrs : Sexp → Option (List String)
  | .list xs => xs.mapM Sexp.asStr?
  | _ => none

partial def decDOp : Sexp → Option DOp
  | .list [.atom "simplify", out, kF, kW, kE] => do
    pure (.simplify (← decInstrs out) (← decStrs kF) (← decStrs kW) (← decStrs kE))
  | .list [.atom "intersect", ks] => (decStrs ks).map .intersect
  | .list [.atom "merge"] => some .merge
  | .list [.atom "calExtend"] => some .calExtend
  | .list [.atom "extExtend"] => some .extExtend
  | .list [.atom "calRemove", .str k] => some (.calRemove k)
  | .list [.atom "mcalRemove", .str k] => some (.mcalRemove k)
  | .list [.atom "expCal", out] => (decInstrs out).map .expCal
  | .list [.atom "expSeq", kept, out] => do pure (.expSeq (← decStrs kept) (← decInstrs out))
  | .list [.atom "clone"] => some .clone
  | .list [.atom "cloneWb"] => some .cloneWb
  | .list [.atom "wrap", n, hd, tl] => do pure (.wrap (← n.asNat?) (← decInstrs hd) (← decInstrs tl))
  | .list [.atom "resolve", nb] => (decInstrs nb).map .resolve
  | .list [.atom "sum", a, b] => do pure (.sum (← decDOp a) (← decDOp b))
  | _ => none

def dopName : DOp → String
  | .simplify .. => "simplify" | .intersect ks => s!"intersect{min ks.length 9}" | .merge => "merge"
  | .calExtend => "calExtend" | .extExtend => "extExtend" | .calRemove _ => "calRemove"
  | .mcalRemove _ => "mcalRemove" | .expCal _ => "expCal" | .expSeq .. => "expSeq" | .clone => "clone"
  | .cloneWb => "cloneWb" | .wrap n _ _ => s!"wrap{min n 2}" | .resolve _ => "resolve" | .sum .. => "sum"

def dopInstrs : DOp → List Instr
  | .simplify out _ _ _ => out | .expCal out => out | .expSeq _ out => out
  | .wrap _ hd tl => hd ++ tl | .resolve nb => nb | .sum a b => dopInstrs a ++ dopInstrs b
  | _ => []

def undec (out : Sexp) : CaseResult :=
  { agree := false, specOk := true, nontrivial := false, tags := ["undecodable-output"], detail := s!"impl={out}" }

/-- derived programs: a producing operation applied to built programs -/
def handleDerived (px qx opx out : Sexp) : CaseResult :=
  match decInstrs px, decInstrs qx with
  | some pis, some qis =>
    match opx, out with
    | .list [.atom "fail"], .list [.atom "dfail", b] =>
      { agree := b == .atom "true", specOk := true, nontrivial := false, tags := ["derived", "d-op-error"],
        detail := s!"operation error; impl says failed={b}" }
    | _, .list [.atom "dout", .list (.atom "new" :: nw), .list [.atom "base", bx], .list [.atom "qbase", qbx],
               .list [.atom "to", tx], .list [.atom "text", .str t], .list (.atom "same" :: ss),
               .list [.atom "child", c], .list [.atom "left", lx], .list [.atom "right", rx],
               .list [.atom "keymm", km], .list (.atom "sib" :: sibs)] =>
      match decDOp opx, nw.mapM decInstr, ss.mapM decBool, km.asNat?, sibs.mapM Sexp.asStr? with
      | some op, some fresh, some sames, some keymm, some sib =>
        let tbl := pis ++ qis ++ dopInstrs op ++ fresh
        match decPids tbl bx, decPids tbl qbx, decPids tbl tx, decPids tbl lx, decPids tbl rx with
        | some base, some qbase, some toL, some left, some right =>
          let p := fromInstructions pis
          let q := fromInstructions qis
          let d := derive p q op
          let agree := tbl.all Instr.projOk && keymm == 0 && sib.isEmpty &&
            decide (toInstructions p = base) && decide (toInstructions q = qbase) &&
            decide (toInstructions d = toL) && print d == t
          let childSkipped := c == .atom "skipped"
          let childOk := c == .atom "true" || childSkipped
          let detOk := sames.all id && sames.length == 5
          -- first-added order: the base listings satisfy the listing spec; the derived listing keeps the
          -- base's order per kind (old keys first, as a sub-list of the base order; new keys after)
          let isSum := match op with | .sum .. => true | _ => false
          let orderOk := checkListing pis base && checkListing qis qbase &&
            (if isSum then ordPresListing base left && ordPresListing qbase right && ordPresListing left toL
             else ordPresListing base toL)
          -- kinds still in the fixed order
          let kindOk := decide (toL = Kind.all.flatMap (fun k => ofKind k toL))
          let specOk := orderOk && kindOk && detOk && childOk && keymm == 0 && sib.isEmpty
          let dropped := Kind.defs.any fun k => (ofKind k toL).length < (ofKind k base).length
          let keptMany := Kind.defs.any fun k => (ofKind k toL).length ≥ 2 && (ofKind k toL).length < (ofKind k base).length
          { agree, specOk, nontrivial := true,
            tags := ["derived", "d-" ++ dopName op] ++ (if dropped then ["d-drops"] else []) ++
              (if keptMany then ["d-keeps>=2-drops>=1"] else []) ++
              (if keymm == 0 then [] else ["key-mismatch"]) ++ (if sib.isEmpty then [] else ["sibling-mismatch"]) ++
              (if childSkipped then ["child-skipped"] else if childOk then ["child-same"] else ["child-DIFFERS"]),
            detail := s!"op={dopName op} | model: {showListing (toInstructions d)} | impl: {showListing toL} | " ++
              s!"base={showListing base} | same={sames} child={c} textEq={print d == t} orderOk={orderOk} kindOk={kindOk} " ++
              s!"keyMismatches={keymm} failedSiblingRelations={sib}" }
        | _, _, _, _, _ => undec out
      | _, _, _, _, _ => undec out
    | _, _ => undec out
  | _, _ => .bad "undecodable derived input"

def handle (inp out : Sexp) : CaseResult :=
  match inp with
  | .list [.atom "derived", px, qx, opx] => handleDerived px qx opx out
  | .list (.atom "derived" :: _) =>
    { agree := false, specOk := false, nontrivial := false, tags := ["derived", "generation-panicked"], detail := s!"{inp} -> {out}" }
  | .list [.atom "hist", isx, .list (.atom "cuts" :: cs)] =>
    match decInstrs isx, cs.mapM Sexp.asNat? with
    | some is, some cuts =>
      match out with
      | .list [.atom "det", .list (.atom "new" :: nw), .list [.atom "to", a], .list [.atom "text", .str t],
               .list (.atom "same" :: ss), .list [.atom "child", c], .list [.atom "concat", cl], .list [.atom "keymm", km]] =>
        match nw.mapM decInstr, ss.mapM decBool, km.asNat? with
        | some fresh, some sames, some keymm =>
          let tbl := is ++ fresh
          match decPids tbl a, decPids tbl cl with
          | some toL, some concatL =>
            let p := fromInstructions is
            let pc := buildChunks (chunksAt is cuts)
            let agree := is.all Instr.projOk && keymm == 0 && fresh.isEmpty && decide (toInstructions p = toL) &&
              print p == t && decide (toInstructions pc = concatL)
            let childSkipped := c == .atom "skipped"
            let childOk := c == .atom "true" || childSkipped
            let listingOk := checkListing is toL
            let concatOk := checkListing is concatL
            let detOk := sames.all id && sames.length == 8
            let specOk := listingOk && concatOk && detOk && childOk && keymm == 0
            -- non-trivial: at least two distinct keys in some definition kind, or a redefinition
            let nontrivial := Kind.defs.any fun k =>
              let ks := keys (ofKind k is)
              ks.eraseDups.length ≥ 2 || ks.length != ks.eraseDups.length
            let maxDistinct := (Kind.defs.map fun k => (keys (ofKind k is)).eraseDups.length).foldl max 0
            { agree, specOk, nontrivial,
              tags := histTags is ++ [s!"maxkeys{min maxDistinct 6}", s!"cuts{cuts.length}"] ++
                (if keymm == 0 then [] else ["key-mismatch"]) ++ (if childSkipped then ["child-skipped"] else if childOk then ["child-same"] else ["child-DIFFERS"]),
              detail := s!"history={showListing is} cuts={cuts} | model: to={showListing (toInstructions p)} " ++
                s!"concat={showListing (toInstructions pc)} | impl: to={showListing toL} concat={showListing concatL} " ++
                s!"same={sames} child={c} textEq={print p == t} listingOk={listingOk} concatOk={concatOk} keyMismatches={keymm}" }
          | _, _ => { agree := false, specOk := true, nontrivial := false, tags := ["undecodable-output"], detail := s!"impl={out}" }
        | _, _, _ => { agree := false, specOk := true, nontrivial := false, tags := ["undecodable-output"], detail := s!"impl={out}" }
      | _ => { agree := false, specOk := true, nontrivial := false, tags := ["undecodable-output"], detail := s!"impl={out}" }
    | _, _ => .bad "undecodable history"
  | _ => .bad s!"undecodable input {inp}"

end QV.C08

def main : IO UInt32 := QV.runMain QV.C08.handle
