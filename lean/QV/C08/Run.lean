import QV.Wire
import QV.Shared.ProgramWire
import QV.C09.Spec
import QV.C08.Model
/-! Driver side of the C08 correspondence check. -/
namespace QV.C08
open QV QV.Prog QV.C09

def handle (inp out : Sexp) : CaseResult :=
  match inp with
  | .list [.atom "hist", isx, .list (.atom "cuts" :: cs)] =>
    match decInstrs isx, cs.mapM Sexp.asNat? with
    | some is, some cuts =>
      match out with
      | .list [.atom "det", .list (.atom "new" :: nw), .list [.atom "to", a], .list [.atom "text", .str t],
               .list (.atom "same" :: ss), .list [.atom "child", c], .list [.atom "concat", cl], .list [.atom "keymm", km]] =>
        match nw.mapM decInstr, ss.mapM decBool, km.asNat? with
        | some fresh, some sames, some keymm =>
          let tbl := is ++ fresh
          match decPids tbl a, decPids tbl cl with
          | some toL, some concatL =>
            let p := fromInstructions is
            let pc := buildChunks (chunksAt is cuts)
            let agree := is.all Instr.projOk && keymm == 0 && fresh.isEmpty && decide (toInstructions p = toL) &&
              print p == t && decide (toInstructions pc = concatL)
            let childSkipped := c == .atom "skipped"
            let childOk := c == .atom "true" || childSkipped
            let listingOk := checkListing is toL
            let concatOk := checkListing is concatL
            let detOk := sames.all id && sames.length == 8
            let specOk := listingOk && concatOk && detOk && childOk && keymm == 0
            -- non-trivial: at least two distinct keys in some definition kind, or a redefinition
            let nontrivial := Kind.defs.any fun k =>
              let ks := keys (ofKind k is)
              ks.eraseDups.length ≥ 2 || ks.length != ks.eraseDups.length
            let maxDistinct := (Kind.defs.map fun k => (keys (ofKind k is)).eraseDups.length).foldl max 0
            { agree, specOk, nontrivial,
              tags := histTags is ++ [s!"maxkeys{min maxDistinct 6}", s!"cuts{cuts.length}"] ++
                (if keymm == 0 then [] else ["key-mismatch"]) ++ (if childSkipped then ["child-skipped"] else if childOk then ["child-same"] else ["child-DIFFERS"]),
              detail := s!"history={showListing is} cuts={cuts} | model: to={showListing (toInstructions p)} " ++
                s!"concat={showListing (toInstructions pc)} | impl: to={showListing toL} concat={showListing concatL} " ++
                s!"same={sames} child={c} textEq={print p == t} listingOk={listingOk} concatOk={concatOk} keyMismatches={keymm}" }
          | _, _ => { agree := false, specOk := true, nontrivial := false, tags := ["undecodable-output"], detail := s!"impl={out}" }
        | _, _, _ => { agree := false, specOk := true, nontrivial := false, tags := ["undecodable-output"], detail := s!"impl={out}" }
      | _ => { agree := false, specOk := true, nontrivial := false, tags := ["undecodable-output"], detail := s!"impl={out}" }
    | _, _ => .bad "undecodable history"
  | _ => .bad s!"undecodable input {inp}"

end QV.C08

def main : IO UInt32 := QV.runMain QV.C08.handle
