import QV.Shared.ProgramLemmas
import QV.C09.Spec
import QV.C08.Model
/-
C08 — Serialization is deterministic and keeps definition order.

"Building a program from the same sequence of instructions always yields byte-identical serialized
text, in the same process or another. Within each definition kind, output follows the order in which
each definition was first added, and a redefinition with the same key replaces the earlier one in
place."  (quantifier: programs with several definitions of each kind, built repeatedly, including
via concatenation)

Model: `QV/Shared/Program.lean` — every container, FrameSet included (an IndexMap since fix
483e58b), is an ordered association list; nothing in the model depends on anything but the
history, so "deterministic" is, in the model, the statement that every construction route of the
same history yields the same program text (`C08_route_independent`); that the running binary has no
hidden source of order (hash seeds) is what the correspondence check measures (8 in-process builds
through different routes + one build in a fresh process, byte-compared).
All theorems are unbounded (any history, any number of definitions, any split).
-/
namespace QV.C08
open QV.Prog QV.C09

/-! #### definition order and last value, per kind -/

/-- within each definition kind the listed keys are the history's keys of that kind in the order of
their FIRST occurrence, each listed once -/
theorem C08_key_order (is : List Instr) (k : Kind) (hk : k ≠ .body) :
    keys (ofKind k (toInstructions (fromInstructions is))) = firstOcc (keys (ofKind k is)) := by
  rw [show ofKind k (toInstructions (fromInstructions is)) = (fromInstructions is).container k from
    filter_toInstructions (wf_fromInstructions is) k]
  have he : empty.container k = [] := by cases k <;> rfl
  rw [fromInstructions, container_addMany]
  simp only [hk, if_false, he]
  exact keys_foldl_upsert_nil _

/-- … and every listed definition is the LAST one the history gives for its kind and key -/
theorem C08_last_value (is : List Instr) (x : Instr) (hx : x ∈ toInstructions (fromInstructions is))
    (hb : x.kind ≠ .body) : lookupLast (ofKind x.kind is) x.key = some x := by
  have hw := wf_fromInstructions is
  rw [mem_toInstructions] at hx
  obtain ⟨k, hx⟩ := hx
  have hk : x.kind = k := hw.kinds k x hx
  subst hk
  have h1 := lookup_of_mem_nodup hx (hw.nodup _ hb)
  have he : empty.container x.kind = [] := by cases x.kind <;> rfl
  rw [fromInstructions, container_addMany] at h1
  simp only [hb, if_false, he] at h1
  rw [lookup_foldl_upsert] at h1
  simpa [lookup, ofKind] using h1

/-- a key occurs at most once per kind in the listing -/
theorem C08_keys_once (is : List Instr) (k : Kind) (hk : k ≠ .body) :
    (keys (ofKind k (toInstructions (fromInstructions is)))).Nodup := by
  rw [C08_key_order is k hk]; exact firstOcc_nodup _

/-- `firstOcc` is what its name says: duplicate-free, same elements, and a sublist (so the relative
order of first occurrences is the order in the history) -/
theorem C08_firstOcc_spec (ks : List String) :
    (firstOcc ks).Nodup ∧ (∀ k, k ∈ firstOcc ks ↔ k ∈ ks) ∧ (firstOcc ks).Sublist ks :=
  ⟨firstOcc_nodup ks, mem_firstOcc ks, firstOcc_sublist ks⟩

/-! #### redefinition replaces in place (one step of the builder) -/

/-- adding a definition whose key is already present changes neither the key sequence of its
container (so its position in the output stays) nor any other entry; the entry under that key is
the new definition -/
theorem C08_redefinition_in_place (p : Program) (i : Instr) (hb : i.kind ≠ .body)
    (hk : i.key ∈ keys (p.container i.kind)) :
    keys ((add p i).container i.kind) = keys (p.container i.kind) ∧
    lookup ((add p i).container i.kind) i.key = some i ∧
    (∀ key, key ≠ i.key → lookup ((add p i).container i.kind) key = lookup (p.container i.kind) key) ∧
    (∀ k, k ≠ i.kind → (add p i).container k = p.container k) := by
  refine ⟨?_, ?_, ?_, ?_⟩
  · rw [container_add]; simp [hb, keys_upsert, hk]
  · rw [container_add]; simp [hb, lookup_upsert]
  · intro key hne
    have hne' : ¬ i.key = key := fun e => hne e.symm
    rw [container_add]; simp only [hb, if_true, if_false, lookup_upsert, hne']
  · intro k hne
    have hne' : ¬ i.kind = k := fun e => hne e.symm
    rw [container_add]; simp only [hne', if_false]

/-- a definition with a new key goes to the END of its container -/
theorem C08_new_key_appended (p : Program) (i : Instr) (hb : i.kind ≠ .body)
    (hk : i.key ∉ keys (p.container i.kind)) :
    (add p i).container i.kind = p.container i.kind ++ [i] := by
  rw [container_add]; simp [hb, upsert_of_not_mem hk]

/-! #### kinds are listed in the fixed order the code uses -/

theorem C08_kind_order {p : Program} (h : WF p) :
    toInstructions p = Kind.all.flatMap (fun k => ofKind k (toInstructions p)) := by
  conv => lhs; rw [toInstructions_eq_flatMap]
  congr 1; funext k; exact (filter_toInstructions h k).symm

/-! #### concatenation -/

/-- `p += from_instructions(b)` is exactly `p.add_instructions(b)`: concatenation inserts the right
operand's definitions as if they had been added one by one, in order (cache included) -/
theorem C08_concat_is_add {p : Program} (hp : WF p) (b : List Instr) :
    concat p (fromInstructions b) = addMany p b := by
  apply Program.ext_container
  · intro k
    rw [container_concat, container_addMany, fromInstructions, container_addMany]
    have he : empty.container k = [] := by cases k <;> rfl
    by_cases hb : k = .body
    · subst hb; simp [he]
    · simp only [hb, if_false, he, extendMap]
      exact foldl_upsert_foldl_upsert _ _ (hp.nodup k hb)
  · show p.used ++ (fromInstructions b).used = (addMany p b).used
    rw [used_addMany, fromInstructions, used_addMany]; simp [empty]

/-- building two halves and concatenating them is building the whole history -/
theorem C08_concat_histories (a b : List Instr) :
    concat (fromInstructions a) (fromInstructions b) = fromInstructions (a ++ b) := by
  rw [C08_concat_is_add (wf_fromInstructions a)]
  simp [fromInstructions, addMany, List.foldl_append]

/-! #### determinism: the text is a function of the history, whatever the construction route -/

private theorem foldl_concat (p : List Instr) (cs : List (List Instr)) :
    cs.foldl (fun acc d => concat acc (fromInstructions d)) (fromInstructions p) =
      fromInstructions (p ++ cs.flatten) := by
  induction cs generalizing p with
  | nil => simp
  | cons c cs ih =>
    simp only [List.foldl_cons, C08_concat_histories, ih, List.flatten_cons, List.append_assoc]

theorem C08_route_independent (chunks : List (List Instr)) :
    buildChunks chunks = fromInstructions chunks.flatten := by
  cases chunks with
  | nil => rfl
  | cons c cs => simp only [buildChunks, foldl_concat, List.flatten_cons]

/-- cutting a history and flattening the chunks gives the history back, so the harness' routes are
routes of the same history -/
theorem C08_chunksAt_flatten (is : List Instr) (cuts : List Nat) : (chunksAt is cuts).flatten = is := by
  have : ∀ (cs : List Nat) (rest : List Instr) (start : Nat), (chunksAt.go is rest start cs).flatten = rest := by
    intro cs
    induction cs with
    | nil => intro rest start; simp [chunksAt.go]
    | cons c cs ih => intro rest start; simp [chunksAt.go, ih]
  exact this cuts is 0

/-- hence the same text on every route -/
theorem C08_deterministic_text (chunks₁ chunks₂ : List (List Instr)) (h : chunks₁.flatten = chunks₂.flatten) :
    print (buildChunks chunks₁) = print (buildChunks chunks₂) := by
  rw [C08_route_independent, C08_route_independent, h]

/-- the two routes the harness compares (whole history, history cut at arbitrary positions) give
the same program, hence the same listing and text -/
theorem C08_cut_route (is : List Instr) (cuts : List Nat) :
    buildChunks (chunksAt is cuts) = fromInstructions is := by
  rw [C08_route_independent, C08_chunksAt_flatten]

/-- the text is the listing's instruction texts, one per line, in listing order -/
theorem C08_print_lines (p : Program) :
    print p = String.join ((toInstructions p).map fun i => i.text ++ "\n") := rfl

/-! #### non-vacuity -/

private def f0 : Instr := ⟨.frame, "0 \"rf\"", 0, "DEFFRAME 0 \"rf\":\n\tDIRECTION: \"tx\"", []⟩
private def f1 : Instr := ⟨.frame, "1 \"rf\"", 1, "DEFFRAME 1 \"rf\":\n\tDIRECTION: \"tx\"", []⟩
private def f2 : Instr := ⟨.frame, "0 1 \"cz\"", 2, "DEFFRAME 0 1 \"cz\":\n\tDIRECTION: \"tx\"", []⟩
private def f0' : Instr := ⟨.frame, "0 \"rf\"", 3, "DEFFRAME 0 \"rf\":\n\tDIRECTION: \"rx\"", []⟩
private def w0 : Instr := ⟨.waveform, "wf", 4, "DEFWAVEFORM wf:\n\t1", []⟩
private def g0 : Instr := ⟨.body, "", 5, "X 0", [.fixed 0]⟩

/-- three frames, one redefined later: it keeps the FIRST position and shows the LAST value -/
example : toInstructions (fromInstructions [f0, g0, f1, w0, f2, f0']) = [f0', f1, f2, w0, g0] := by decide
example : keys (ofKind .frame (toInstructions (fromInstructions [f0, g0, f1, w0, f2, f0']))) =
    ["0 \"rf\"", "1 \"rf\"", "0 1 \"cz\""] := by decide
example : buildChunks [[f0, g0], [f1, w0, f2], [f0']] = fromInstructions [f0, g0, f1, w0, f2, f0'] :=
  C08_route_independent _
example : firstOcc ["b", "a", "b", "c", "a"] = ["b", "a", "c"] := by decide

end QV.C08
