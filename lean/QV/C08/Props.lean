import QV.Shared.ProgramLemmas
import QV.C09.Spec
import QV.C08.Model
/-
C08 — Serialization is deterministic and keeps definition order.

"Building a program from the same sequence of instructions always yields byte-identical serialized
text, in the same process or another. Within each definition kind, output follows the order in which
each definition was first added, and a redefinition with the same key replaces the earlier one in
place."  (quantifier: programs with several definitions of each kind, built repeatedly, including
via concatenation)

Model: `QV/Shared/Program.lean` — every container, FrameSet included (an IndexMap since fix
483e58b), is an ordered association list; nothing in the model depends on anything but the
history, so "deterministic" is, in the model, the statement that every construction route of the
same history yields the same program text (`C08_route_independent`); that the running binary has no
hidden source of order (hash seeds) is what the correspondence check measures (8 in-process builds
through different routes + one build in a fresh process, byte-compared).
All theorems are unbounded (any history, any number of definitions, any split).
-/
namespace QV.C08
open QV.Prog QV.C09

/-! #### definition order and last value, per kind -/

/-- within each definition kind the listed keys are the history's keys of that kind in the order of
their FIRST occurrence, each listed once -/
theorem C08_key_order (is : List Instr) (k : Kind) (hk : k ≠ .body) :
    keys (ofKind k (toInstructions (fromInstructions is))) = firstOcc (keys (ofKind k is)) := by
  rw [show ofKind k (toInstructions (fromInstructions is)) = (fromInstructions is).container k from
    filter_toInstructions (wf_fromInstructions is) k]
  have he : empty.container k = [] := by cases k <;> rfl
  rw [fromInstructions, container_addMany]
  simp only [hk, if_false, he]
  exact keys_foldl_upsert_nil _

/-- … and every listed definition is the LAST one the history gives for its kind and key -/
theorem C08_last_value (is : List Instr) (x : Instr) (hx : x ∈ toInstructions (fromInstructions is))
    (hb : x.kind ≠ .body) : lookupLast (ofKind x.kind is) x.key = some x := by
  have hw := wf_fromInstructions is
  rw [mem_toInstructions] at hx
  obtain ⟨k, hx⟩ := hx
  have hk : x.kind = k := hw.kinds k x hx
  subst hk
  have h1 := lookup_of_mem_nodup hx (hw.nodup _ hb)
  have he : empty.container x.kind = [] := by cases x.kind <;> rfl
  rw [fromInstructions, container_addMany] at h1
  simp only [hb, if_false, he] at h1
  rw [lookup_foldl_upsert] at h1
  simpa [lookup, ofKind] using h1

/-- a key occurs at most once per kind in the listing -/
theorem C08_keys_once (is : List Instr) (k : Kind) (hk : k ≠ .body) :
    (keys (ofKind k (toInstructions (fromInstructions is)))).Nodup := by
  rw [C08_key_order is k hk]; exact firstOcc_nodup _

/-- `firstOcc` is what its name says: duplicate-free, same elements, and a sublist (so the relative
order of first occurrences is the order in the history) -/
theorem C08_firstOcc_spec (ks : List String) :
    (firstOcc ks).Nodup ∧ (∀ k, k ∈ firstOcc ks ↔ k ∈ ks) ∧ (firstOcc ks).Sublist ks :=
  ⟨firstOcc_nodup ks, mem_firstOcc ks, firstOcc_sublist ks⟩

/-! #### redefinition replaces in place (one step of the builder) -/

/-- adding a definition whose key is already present changes neither the key sequence of its
container (so its position in the output stays) nor any other entry; the entry under that key is
the new definition -/
theorem C08_redefinition_in_place (p : Program) (i : Instr) (hb : i.kind ≠ .body)
    (hk : i.key ∈ keys (p.container i.kind)) :
    keys ((add p i).container i.kind) = keys (p.container i.kind) ∧
    lookup ((add p i).container i.kind) i.key = some i ∧
    (∀ key, key ≠ i.key → lookup ((add p i).container i.kind) key = lookup (p.container i.kind) key) ∧
    (∀ k, k ≠ i.kind → (add p i).container k = p.container k) := by
  refine ⟨?_, ?_, ?_, ?_⟩
  · rw [container_add]; simp [hb, keys_upsert, hk]
  · rw [container_add]; simp [hb, lookup_upsert]
  · intro key hne
    have hne' : ¬ i.key = key := fun e => hne e.symm
    rw [container_add]; simp only [hb, if_true, if_false, lookup_upsert, hne']
  · intro k hne
    have hne' : ¬ i.kind = k := fun e => hne e.symm
    rw [container_add]; simp only [hne', if_false]

/-- a definition with a new key goes to the END of its container -/
theorem C08_new_key_appended (p : Program) (i : Instr) (hb : i.kind ≠ .body)
    (hk : i.key ∉ keys (p.container i.kind)) :
    (add p i).container i.kind = p.container i.kind ++ [i] := by
  rw [container_add]; simp [hb, upsert_of_not_mem hk]

/-! #### kinds are listed in the fixed order the code uses -/

theorem C08_kind_order {p : Program} (h : WF p) :
    toInstructions p = Kind.all.flatMap (fun k => ofKind k (toInstructions p)) := by
  conv => lhs; rw [toInstructions_eq_flatMap]
  congr 1; funext k; exact (filter_toInstructions h k).symm

/-! #### concatenation -/

/-- `p += from_instructions(b)` is exactly `p.add_instructions(b)`: concatenation inserts the right
operand's definitions as if they had been added one by one, in order (cache included) -/
theorem C08_concat_is_add {p : Program} (hp : WF p) (b : List Instr) :
    concat p (fromInstructions b) = addMany p b := by
  apply Program.ext_container
  · intro k
    rw [container_concat, container_addMany, fromInstructions, container_addMany]
    have he : empty.container k = [] := by cases k <;> rfl
    by_cases hb : k = .body
    · subst hb; simp [he]
    · simp only [hb, if_false, he, extendMap]
      exact foldl_upsert_foldl_upsert _ _ (hp.nodup k hb)
  · show p.used ++ (fromInstructions b).used = (addMany p b).used
    rw [used_addMany, fromInstructions, used_addMany]; simp [empty]

/-- building two halves and concatenating them is building the whole history -/
theorem C08_concat_histories (a b : List Instr) :
    concat (fromInstructions a) (fromInstructions b) = fromInstructions (a ++ b) := by
  rw [C08_concat_is_add (wf_fromInstructions a)]
  simp [fromInstructions, addMany, List.foldl_append]

/-! #### determinism: the text is a function of the history, whatever the construction route -/

private theorem foldl_concat (p : List Instr) (cs : List (List Instr)) :
    cs.foldl (fun acc d => concat acc (fromInstructions d)) (fromInstructions p) =
      fromInstructions (p ++ cs.flatten) := by
  induction cs generalizing p with
  | nil => simp
  | cons c cs ih =>
    simp only [List.foldl_cons, C08_concat_histories, ih, List.flatten_cons, List.append_assoc]

theorem C08_route_independent (chunks : List (List Instr)) :
    buildChunks chunks = fromInstructions chunks.flatten := by
  cases chunks with
  | nil => rfl
  | cons c cs => simp only [buildChunks, foldl_concat, List.flatten_cons]

/-- cutting a history and flattening the chunks gives the history back, so the harness' routes are
routes of the same history -/
theorem C08_chunksAt_flatten (is : List Instr) (cuts : List Nat) : (chunksAt is cuts).flatten = is := by
  have : ∀ (cs : List Nat) (rest : List Instr) (start : Nat), (chunksAt.go is rest start cs).flatten = rest := by
    intro cs
    induction cs with
    | nil => intro rest start; simp [chunksAt.go]
    | cons c cs ih => intro rest start; simp [chunksAt.go, ih]
  exact this cuts is 0

/-- hence the same text on every route -/
theorem C08_deterministic_text (chunks₁ chunks₂ : List (List Instr)) (h : chunks₁.flatten = chunks₂.flatten) :
    print (buildChunks chunks₁) = print (buildChunks chunks₂) := by
  rw [C08_route_independent, C08_route_independent, h]

/-- the two routes the harness compares (whole history, history cut at arbitrary positions) give
the same program, hence the same listing and text -/
theorem C08_cut_route (is : List Instr) (cuts : List Nat) :
    buildChunks (chunksAt is cuts) = fromInstructions is := by
  rw [C08_route_independent, C08_chunksAt_flatten]

/-- the text is the listing's instruction texts, one per line, in listing order -/
theorem C08_print_lines (p : Program) :
    print p = String.join ((toInstructions p).map fun i => i.text ++ "\n") := rfl

/-! #### non-vacuity -/

private def f0 : Instr := ⟨.frame, "0 \"rf\"", 0, "DEFFRAME 0 \"rf\":\n\tDIRECTION: \"tx\"", []⟩
private def f1 : Instr := ⟨.frame, "1 \"rf\"", 1, "DEFFRAME 1 \"rf\":\n\tDIRECTION: \"tx\"", []⟩
private def f2 : Instr := ⟨.frame, "0 1 \"cz\"", 2, "DEFFRAME 0 1 \"cz\":\n\tDIRECTION: \"tx\"", []⟩
private def f0' : Instr := ⟨.frame, "0 \"rf\"", 3, "DEFFRAME 0 \"rf\":\n\tDIRECTION: \"rx\"", []⟩
private def w0 : Instr := ⟨.waveform, "wf", 4, "DEFWAVEFORM wf:\n\t1", []⟩
private def g0 : Instr := ⟨.body, "", 5, "X 0", [.fixed 0]⟩

/-- three frames, one redefined later: it keeps the FIRST position and shows the LAST value -/
example : toInstructions (fromInstructions [f0, g0, f1, w0, f2, f0']) = [f0', f1, f2, w0, g0] := by decide
example : keys (ofKind .frame (toInstructions (fromInstructions [f0, g0, f1, w0, f2, f0']))) =
    ["0 \"rf\"", "1 \"rf\"", "0 1 \"cz\""] := by decide
example : buildChunks [[f0, g0], [f1, w0, f2], [f0']] = fromInstructions [f0, g0, f1, w0, f2, f0'] :=
  C08_route_independent _
example : firstOcc ["b", "a", "b", "c", "a"] = ["b", "a", "c"] := by decide

end QV.C08

/-! #### derived programs: every producing operation keeps the first-added order -/
namespace QV.C08
open QV.Prog QV.C09

/-- "first-added order is kept": the keys already in `base` come first and form a sub-list of
`base` (same relative order); keys new to `base` follow -/
def OrdPres (base out : List String) : Prop :=
  ∃ sub rest, sub.Sublist base ∧ out = sub ++ rest ∧ ∀ x ∈ rest, x ∉ base

/-- the Bool checker evaluated on the implementation's listings decides `OrdPres` -/
theorem C08_ordPres_iff (base out : List String) : ordPres base out = true ↔ OrdPres base out := by
  constructor
  · intro h
    simp only [ordPres, Bool.and_eq_true, beq_iff_eq, List.isSublist_iff_sublist] at h
    refine ⟨_, _, h.2, h.1, ?_⟩
    intro x hx; simp only [List.mem_filter, Bool.not_eq_true', List.contains_eq_mem, decide_eq_false_iff_not] at hx
    exact hx.2
  · rintro ⟨sub, rest, hs, rfl, hr⟩
    have h1 : (sub ++ rest).filter (fun k => base.contains k) = sub := by
      rw [List.filter_append]
      have : rest.filter (fun k => base.contains k) = [] := by
        apply List.filter_eq_nil_iff.mpr; intro x hx; simpa using hr x hx
      rw [this, List.append_nil]
      apply List.filter_eq_self.mpr; intro x hx; simpa using hs.subset hx
    have h2 : (sub ++ rest).filter (fun k => !base.contains k) = rest := by
      rw [List.filter_append]
      have : sub.filter (fun k => !base.contains k) = [] := by
        apply List.filter_eq_nil_iff.mpr; intro x hx; simpa using hs.subset hx
      rw [this, List.nil_append]
      apply List.filter_eq_self.mpr; intro x hx; simpa using hr x hx
    simp only [ordPres, h1, h2, Bool.and_eq_true, beq_iff_eq, List.isSublist_iff_sublist, true_and]
    exact hs

theorem OrdPres.refl (l : List String) : OrdPres l l := ⟨l, [], List.Sublist.refl l, by simp, by simp⟩

theorem OrdPres.of_sublist {base out : List String} (h : out.Sublist base) : OrdPres base out :=
  ⟨out, [], h, by simp, by simp⟩

/-- removing elements afterwards keeps the relation -/
theorem OrdPres.sublist {base out out' : List String} (h : OrdPres base out) (hs : out'.Sublist out) :
    OrdPres base out' := by
  obtain ⟨sub, rest, h1, rfl, h3⟩ := h
  obtain ⟨l1, l2, rfl, hl1, hl2⟩ := List.sublist_append_iff.mp hs
  exact ⟨l1, l2, hl1.trans h1, rfl, fun x hx => h3 x (hl2.subset hx)⟩

private theorem keys_filter_key (l : List Instr) (P : String → Bool) :
    keys (l.filter (fun f => P f.key)) = (keys l).filter P := by
  induction l with
  | nil => rfl
  | cons x xs ih =>
    by_cases h : P x.key <;> simp [List.filter_cons, h, ih]

private theorem keys_filter_sublist (l : List Instr) (f : Instr → Bool) : (keys (l.filter f)).Sublist (keys l) := by
  simpa [keys] using (List.filter_sublist (l := l) (p := f)).map (fun x : Instr => x.key)

/-- inserting a list of definitions into a container: the old keys stay where they are, new keys
are appended -/
theorem ordPres_foldl_upsert (l xs : List Instr) : OrdPres (keys l) (keys (xs.foldl upsert l)) := by
  rw [keys_foldl_upsert]
  refine ⟨keys l, _, List.Sublist.refl _, rfl, ?_⟩
  intro x hx; simp only [List.mem_filter, decide_eq_true_eq] at hx; exact hx.2

private theorem eraseKey_sublist (l : List Instr) (k : String) : (eraseKey l k).Sublist l := by
  induction l with
  | nil => simp [eraseKey]
  | cons x xs ih =>
    by_cases h : x.key = k
    · simp [eraseKey, h]
    · simp only [eraseKey, h, if_false]; exact ih.cons_cons x

private theorem keys_sublist {a b : List Instr} (h : a.Sublist b) : (keys a).Sublist (keys b) := by
  simpa [keys] using h.map (fun x : Instr => x.key)

private theorem container_cloneWb (p : Program) (k : Kind) (hk : k ≠ .body) :
    (rebuildUsed (cloneWithoutBody p)).container k = p.container k := by
  cases k <;> first | rfl | exact absurd rfl hk

private theorem ordPres_addMany (p : Program) (is : List Instr) (k : Kind) (hk : k ≠ .body) :
    OrdPres (keys (p.container k)) (keys ((addMany p is).container k)) := by
  rw [container_addMany]; simp only [hk, if_false]; exact ordPres_foldl_upsert _ _

/-- the operations whose opaque input is well-formed: sequence expansion produces body instructions -/
def DOp.valid : DOp → Bool
  | .expSeq _ out => out.all (fun x => x.kind == .body)
  | .sum a b => a.valid && b.valid
  | _ => true

private theorem addMany_body_only (p : Program) (out : List Instr) (h : ∀ x ∈ out, x.kind = .body)
    (k : Kind) (hk : k ≠ .body) : (addMany p out).container k = p.container k := by
  rw [container_addMany]; simp only [hk, if_false]
  have : out.filter (fun x => decide (x.kind = k)) = [] := by
    apply List.filter_eq_nil_iff.mpr; intro x hx; simp [h x hx]; exact fun e => hk e.symm
  rw [this]; rfl

/-- THE ORDER THEOREM for derived programs: for every producing operation other than `+`, every
definition container of the result keeps the first-added order of the program it was applied to
(a filtered set is a sub-list of the original order; additions go to the end) -/
theorem C08_derived_order (p q : Program) (op : DOp) (hv : op.valid = true)
    (hs : ∀ a b, op ≠ .sum a b) (k : Kind) (hk : k ≠ .body) :
    OrdPres (keys (p.container k)) (keys ((derive p q op).container k)) := by
  cases op with
  | sum a b => exact absurd rfl (hs a b)
  | clone => exact OrdPres.refl _
  | cloneWb =>
    have : (cloneWithoutBody p).container k = p.container k := by
      cases k <;> first | rfl | exact absurd rfl hk
    simp only [derive, this]; exact OrdPres.refl _
  | resolve nb =>
    have : (resolvePlaceholders p nb).container k = p.container k := by
      cases k <;> first | rfl | exact absurd rfl hk
    simp only [derive, this]; exact OrdPres.refl _
  | intersect ks =>
    cases k <;> simp only [derive, Program.container] <;>
      first | exact OrdPres.refl _ | exact OrdPres.of_sublist (keys_filter_sublist _ _)
  | merge =>
    cases k <;> simp only [derive, Program.container] <;>
      first | exact OrdPres.refl _ | exact ordPres_foldl_upsert _ _
  | calExtend =>
    cases k <;> simp only [derive, Program.container] <;>
      first | exact OrdPres.refl _ | exact ordPres_foldl_upsert _ _
  | extExtend =>
    cases k <;> simp only [derive, Program.container] <;>
      first | exact OrdPres.refl _ | exact ordPres_foldl_upsert _ _
  | calRemove key =>
    cases k <;> simp only [derive, Program.container] <;>
      first | exact OrdPres.refl _ | exact OrdPres.of_sublist (keys_sublist (eraseKey_sublist _ _))
  | mcalRemove key =>
    cases k <;> simp only [derive, Program.container] <;>
      first | exact OrdPres.refl _ | exact OrdPres.of_sublist (keys_sublist (eraseKey_sublist _ _))
  | expCal out =>
    have := ordPres_addMany (rebuildUsed (cloneWithoutBody p)) out k hk
    rw [container_cloneWb p k hk] at this
    exact this
  | wrap n hd tl =>
    match n with
    | 0 =>
      have : (cloneWithoutBody p).container k = p.container k := by
        cases k <;> first | rfl | exact absurd rfl hk
      simp only [derive, wrapInLoop, this]; exact OrdPres.refl _
    | 1 => exact OrdPres.refl _
    | n + 2 =>
      have h := ordPres_addMany (cloneWithoutBody p) (hd ++ p.body ++ tl) k hk
      have e : (cloneWithoutBody p).container k = p.container k := by
        cases k <;> first | rfl | exact absurd rfl hk
      rw [e] at h; exact h
  | expSeq kept out =>
    have hb : ∀ x ∈ out, x.kind = .body := by
      intro x hx
      simp only [DOp.valid, List.all_eq_true, beq_iff_eq] at hv
      exact hv x hx
    simp only [derive, expandSequences]
    rw [addMany_body_only _ out hb k hk]
    cases k <;> simp only [rebuildUsed, Program.container] <;>
      first | exact OrdPres.refl _ | exact OrdPres.of_sublist (keys_filter_sublist _ _) | exact absurd rfl hk
  | simplify out kF kW kE =>
    -- after expansion every container is the old one with new keys appended; then calibrations are
    -- dropped and frames / waveforms / externs are filtered
    have he : ∀ k', k' ≠ .body →
        OrdPres (keys (p.container k')) (keys ((expandCalibrations p out).container k')) := by
      intro k' hk'
      have := ordPres_addMany (rebuildUsed (cloneWithoutBody p)) out k' hk'
      rw [container_cloneWb p k' hk'] at this
      exact this
    cases k
    case body => exact absurd rfl hk
    case cal => simp only [derive, Prog.simplify, rebuildUsed, Program.container]; exact OrdPres.of_sublist (by simp [keys])
    case mcal => simp only [derive, Prog.simplify, rebuildUsed, Program.container]; exact OrdPres.of_sublist (by simp [keys])
    case frame =>
      simp only [derive, Prog.simplify, rebuildUsed, Program.container]
      exact (he .frame (by decide)).sublist (keys_filter_sublist _ _)
    case waveform =>
      simp only [derive, Prog.simplify, rebuildUsed, Program.container]
      exact (he .waveform (by decide)).sublist (keys_filter_sublist _ _)
    case extern =>
      simp only [derive, Prog.simplify, rebuildUsed, Program.container]
      exact (he .extern (by decide)).sublist (keys_filter_sublist _ _)
    case decl => simpa only [derive, Prog.simplify, rebuildUsed, Program.container] using he .decl (by decide)
    case gateDef => simpa only [derive, Prog.simplify, rebuildUsed, Program.container] using he .gateDef (by decide)
    case circuit => simpa only [derive, Prog.simplify, rebuildUsed, Program.container] using he .circuit (by decide)

/-- … and for `+` with derived operands: the sum keeps the left operand's order, the right
operand's new definitions are appended -/
theorem C08_derived_sum_order (p q : Program) (a b : DOp) (k : Kind) (hk : k ≠ .body) :
    OrdPres (keys ((derive p q a).container k)) (keys ((derive p q (.sum a b)).container k)) := by
  simp only [derive]
  rw [container_concat]; simp only [hk, if_false, extendMap]
  exact ordPres_foldl_upsert _ _

/-- a set operation that only filters yields exactly the sub-list of the original order selected by
the predicate (`FrameSet::intersection`, the `retain`s of `simplify`) -/
theorem C08_intersection_is_filter (p q : Program) (ks : List String) :
    (derive p q (.intersect ks)).frames = p.frames.filter (fun f => ks.contains f.key) ∧
    (keys (derive p q (.intersect ks)).frames).Sublist (keys p.frames) :=
  ⟨rfl, keys_filter_sublist _ _⟩

example : ordPres ["a", "b", "c", "d"] ["a", "c", "x"] = true := by decide
/-- a kept pair in the wrong relative order is rejected -/
example : ordPres ["a", "b", "c", "d"] ["c", "a"] = false := by decide
/-- an old key after a new one is rejected -/
example : ordPres ["a", "b"] ["x", "a"] = false := by decide

end QV.C08
