import QV.Wire
import QV.Shared.LexWire
import QV.Shared.Parse
import QV.Shared.AstWire
import QV.Shared.ParseWire
import QV.Shared.ExprPrint
import QV.Shared.Print
import QV.C02.Model
import QV.C02.Spec
import QV.C04.Spec
/-! Driver side of the C04 correspondence check.  Input `(prog STREAM (instr I…))`: instructions built through
quil-rs's public constructors; output described in `harness/src/bin/c04.rs`.  The listing, the printed
tokens (or the placeholder error), the reparsed listing and the debug tokens are recomputed with the models and
compared; the Bool specification is evaluated on the implementation's output. -/
namespace QV.C04
open QV QV.Tok QV.Ast QV.Parse QV.AstWire QV.ParseWire QV.Print QV.ExprPrint QV.C02

def listingSexp (tag : String) (l : List Instruction) : Sexp := .list (.atom tag :: encodeInstructions l)

def errSexp : PrintError → Sexp
  | .unresolvedLabelPlaceholder => .list [.atom "err", .atom "label"]
  | .unresolvedQubitPlaceholder => .list [.atom "err", .atom "qubit"]

def toksSexp (tag : String) (ts : List Token) : Sexp := .list (.atom tag :: ts.map QV.LexWire.tokenSexp)

def piece (out : Sexp) (k : Nat) : Sexp :=
  match out with
  | .list xs => xs.getD k (.atom "?")
  | _ => .atom "?"

/-- the model's output in the shape of the implementation's -/
def modelOut (is : List Instruction) : Sexp :=
  let l := (build is).listing
  let print := printProgramTokens stdFmt l
  let debug := toksSexp "debug" (printProgramDebugTokens stdFmt l)
  match print with
  | .error e =>
    .list [.atom "out", listingSexp "listing" l, .list [.atom "print", errSexp e],
      .list [.atom "reparse", .list [.atom "none"]], debug]
  | .ok ts =>
    let re : Sexp := match parseProgram ts with
      | .ok is2 _ => .list [.atom "reparse", .list [.atom "ok", listingSexp "listing" (build is2).listing]]
      | _ => .list [.atom "reparse", .list [.atom "err"]]
    .list [.atom "out", listingSexp "listing" l, .list [.atom "print", toksSexp "ok" ts], re, debug]

def errName : PrintError → String
  | .unresolvedLabelPlaceholder => "label"
  | .unresolvedQubitPlaceholder => "qubit"

/-- `Instruction::to_quil` of every listed instruction, as the model predicts it -/
def eachSexp (l : List Instruction) : Sexp :=
  .list (.atom "each" :: l.map fun i => match firstErr i with
    | some e => Sexp.atom (errName e)
    | none => Sexp.atom "ok")

def allTrue (tag : String) : Sexp → Bool
  | .list (.atom t :: xs) => t == tag && xs.all fun x =>
      match x with
      | .list [.atom _, .atom "true"] => true
      | .list [.atom n, _] => n.startsWith "info-"
      | _ => false
  | _ => false

def failing : Sexp → List String
  | .list (.atom _ :: xs) => xs.filterMap fun x =>
      match x with
      | .list [.atom _, .atom "true"] => none
      | .list [.atom n, _] => if n.startsWith "info-" then none else some n
      | _ => some "?"
  | _ => ["missing"]

/-- the Bool specification on the implementation's output:
* a placeholder is present ⇔ printing failed with an unresolved-placeholder error;
* no placeholder and well-formed ⇒ printing succeeded and the text parsed to an equivalent program;
* the debug serializer produced a text (that lexes). -/
def specOnOut (is : List Instruction) (out : Sexp) (guardKeys : Bool := false) : Bool × String :=
  let l := (build is).listing
  let ph := hasPlaceholders l
  let wf := wellFormeds l
  let printErr := match piece out 2 with
    | .list [.atom "print", .list [.atom "err", .atom k]] => k == "qubit" || k == "label"
    | _ => false
  let printOk := match piece out 2 with
    | .list [.atom "print", .list (.atom "ok" :: _)] => true
    | _ => false
  let debugOk := match piece out 4 with
    | .list (.atom "debug" :: ts) => ts.all fun t => match t with
      | .list (.atom "lexerr" :: _) => false
      | _ => true
    | _ => false
  let reparsed : Option (List Instruction) := match piece out 3 with
    | .list [.atom "reparse", .list [.atom "ok", .list (.atom "listing" :: xs)]] => decodeInstructions xs
    | _ => none
  let c1 := ph == printErr && (ph || printOk)
  -- calibrations whose structurally different keys print alike merge on re-parsing: the property fails there
  -- (known finding C04/calibration-keys-print-alike); `guardKeys` evaluates the clause without those programs so
  -- that the finding can be classified narrowly
  let keys := !guardKeys || calKeysStable l
  let c2 := if !ph && wf && keys then (match reparsed with | some r => equivInstrs l r | none => false) else true
  -- the sibling routes: always-clauses for every program, wf-clauses for well-formed placeholder-free ones
  let c3 := allTrue "always" (piece out 6)
  let c4 := if !ph && wf then allTrue "wf" (piece out 7) else true
  (c1 && c2 && (debugOk || !wf) && c3 && c4,
    s!"placeholder={ph} wellFormed={wf} printErr={printErr} printOk={printOk} debugOk={debugOk} clause1={c1} clause2={c2} always-failing={failing (piece out 6)} wf-failing={if !ph && wf then failing (piece out 7) else []}")

def sizeTag (n : Nat) : String :=
  if n == 0 then "n0" else if n == 1 then "n1" else if n ≤ 3 then "n2-3" else "n4+"

def handle (inp out : Sexp) : CaseResult :=
  match inp with
  | .list [.atom "prog", .atom stream, .list (.atom "instr" :: xs)] =>
    match decodeInstructions xs with
    | none => .bad s!"undecodable instructions {inp}"
    | some is =>
      let l := (build is).listing
      let wf := wellFormeds l
      let ph := hasPlaceholders l
      let mOut := modelOut is
      -- outside the well-formed domain the token-level model makes no claim about the printed text (a name
      -- that is a reserved word lexes as a keyword): only the listing and the error behaviour are compared
      let eachOk := eachSexp l == piece out 5
      let agree := eachOk &&
        if wf then (List.range 5).all fun k => piece mOut k == piece out k
        else piece mOut 1 == piece out 1 &&
          (match piece mOut 2, piece out 2 with
           | .list [.atom "print", .list (.atom "err" :: a)], .list [.atom "print", .list (.atom "err" :: b)] => a == b
           | .list [.atom "print", .list (.atom "ok" :: _)], .list [.atom "print", .list (.atom "ok" :: _)] => true
           | _, _ => false)
      let (spec, specDetail) := specOnOut is out
      -- the ONLY reason the spec fails is the merge of print-alike calibration keys
      let kfKeys := !spec && !calKeysStable l && (specOnOut is out true).1
      let diffs := ((List.range 5).filter fun k => piece mOut k != piece out k) ++ (if eachOk then [] else [5])
      let normChanged := match piece out 3 with
        | .list [.atom "reparse", .list [.atom "ok", lst]] => lst != listingSexp "listing" l
        | _ => false
      { agree := agree, specOk := spec,
        nontrivial := !is.isEmpty && (ph || wf),
        tags := ["s-" ++ stream, sizeTag is.length,
            (if wf then "wellformed" else "not-wellformed"),
            (if ph then "placeholder" else "no-placeholder"),
            (if calKeysStable l then "cal-keys-stable" else "CAL-KEYS-MERGE"),
            (if kfKeys then "kf:C04/calibration-keys-print-alike" else "no-kf"),
            (if normChanged then "reparsed-differs-structurally" else "reparsed-identical"),
            (match piece out 7 with
             | .list (.atom "wf" :: xs) =>
               if xs.contains (.list [.atom "info-text2-eq-text1", .atom "false"]) then "text2-differs" else "text2-same"
             | _ => "text2-na"),
            (if numTokInstrs stdFmt l then "numtok-ok" else (if wf then "NUMTOK-FAILS" else "numtok-fails-not-wf")),
            (match piece out 2 with
             | .list [.atom "print", .list [.atom "err", .atom k]] => "print-err-" ++ k
             | _ => "print-ok")] ++
          (l.map fun i => "v-" ++ i.variantName).eraseDups,
        detail := if agree && spec then "" else
          s!"{specDetail}; differing pieces {diffs}: " ++
            String.intercalate " | " (diffs.map fun k => s!"[{k}] model={piece mOut k} impl={piece out k}") ++
            s!" input={inp}" }
  | _ => .bad s!"undecodable input {inp}"

end QV.C04

def main : IO UInt32 := QV.runMain QV.C04.handle
