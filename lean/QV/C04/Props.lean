import QV.C04.Lemmas
import QV.C02.Props
/-!
# C04 — programs built through the API serialize to text that parses back

Statement (properties.jsonl): *For every well-formed program built through the public constructors without
placeholders, serialization succeeds and the text parses to an equivalent program (equal, with expressions
compared by value).  Serialization fails with an unresolved-placeholder error exactly when a placeholder is
present, and the debug serializer never fails.*

Token level, programs of any size (the models are `QV.Shared.Print`, `QV.Shared.Parse`, `QV.C02.Model`).

## Proved for ALL instruction kinds (nested bodies included), no size bound

* `C04_placeholder_iff` / `C04_placeholder_iff_instr`: serialization returns an error ⇔ a placeholder occurs
  somewhere (`hasPlaceholder`: a plain recursive search, written independently of the writers' order);
  (the error type `PrintError` has only the two unresolved-placeholder constructors; WHICH of them is returned
  — the first one met in writing order, `firstErr` — is compared with the real `ToQuilError` on every case);
* `C04_debug_total`: the debug serializer is a total function (by construction of the model: `write(f, true)`
  never takes an error branch) and AGREES with the strict serializer whenever that succeeds.

* `C04_serialize_succeeds`: a placeholder-free listing serializes — full strength, no other hypothesis.

## Proved for ALL 40 kinds under explicit guards — `C04_roundtrip_api_partial` (round 4)

For every list of instructions that are well-formed (`wellFormed`: the constructors' validation + identifier
rules + finite numbers; it already says that bodies consist of non-definition instructions and excludes the known
finding shapes), placeholder-free, satisfy `apiKind` (the one guard beyond `wellFormed`: a DEFWAVEFORM name has
non-empty slash-free parts) and the NumTok hypothesis: the program serializes, and the
tokens parse back to the listing with every expression replaced by its normal form (`normInstr`; waveform
parameters sorted by key), expression values preserved (`C04_norm_value`).  The six definition kinds go through
C02's `Lemmas{Defs,Cal,Cal2,Gate,Gate2,Lines}` in their `norm` forms.  `C04_roundtrip_build_partial` adds: if no
DEFCAL has non-normal parameter expressions, re-adding the reparsed list gives a program whose `to_instructions`
is exactly that list (no instruction merged or reordered).  The hypothesis is needed:
`C04_counterexample_calibrationKeys` — the key of a calibration contains its parameter EXPRESSIONS, compared
structurally, and `-1.0` (a literal) and `-(1.0)` (a prefix minus) print alike.  The theorems are named
`…_partial` because of these guards; the full statement is below.

## Proved for the kinds of `plainKind` (23 kinds without expressions)

* `C04_roundtrip_partial`: well-formed, placeholder-free ⇒ serialization succeeds, the tokens parse back to a
  list that builds the SAME program (here even equal, not merely equivalent), and re-serializing gives the same
  tokens.

The full statement (all kinds, `≈` = `equivInstrs`: expressions compared by value, waveform parameters as
maps) is kept here and is checked on every generated case by the correspondence (Bool spec `specOnOut`):

    theorem C04_full (is) (hw : ∀ i ∈ is, wellFormed i) (hp : ∀ i ∈ is, hasPlaceholder i = false) (hF : NumTok) :
      ∃ ts is', printProgramTokens F (build is).listing = .ok ts ∧ parseProgram ts = .ok is' [] ∧
        equivInstrs (build is).listing (build is').listing
-/
namespace QV.C04
open QV QV.Tok QV.Ast QV.Parse QV.Print QV.ExprPrint QV.C02

/-- **serialization fails exactly when a placeholder is present** (program level, any listing) -/
theorem C04_placeholder_iff (F : NumFmt) (L : List Instruction) :
    (∃ e, printProgramTokens F L = .error e) ↔ hasPlaceholders L = true := by
  unfold printProgramTokens
  cases h : firstErrList L with
  | none =>
    have := (firstErrList_none_iff L).mp h
    simp [this]
  | some e =>
    have : hasPlaceholders L ≠ false := fun hn => by
      have := (firstErrList_none_iff L).mpr hn
      rw [h] at this; cases this
    simp only [Bool.not_eq_false] at this
    simp [this]

/-- the same for one instruction (`Instruction::to_quil`) -/
theorem C04_placeholder_iff_instr (F : NumFmt) (i : Instruction) :
    (∃ e, printInstrTokens F i = .error e) ↔ hasPlaceholder i = true := by
  unfold printInstrTokens printInstrRaw
  cases h : firstErr i with
  | none =>
    have := (firstErr_none_iff i).mp h
    simp [this]
  | some e =>
    have : hasPlaceholder i ≠ false := fun hn => by
      have := (firstErr_none_iff i).mpr hn
      rw [h] at this; cases this
    simp only [Bool.not_eq_false] at this
    simp [this]

example : ∃ e, printInstrTokens stdFmt (.gate ⟨"X", [], [.placeholder 0], []⟩) = .error e :=
  (C04_placeholder_iff_instr stdFmt _).mpr (by decide)

/-- the debug serializer never fails (it is a total function returning tokens), and whenever the strict
serializer succeeds the two agree -/
theorem C04_debug_total (F : NumFmt) (L : List Instruction) :
    (∃ ts, printProgramDebugTokens F L = ts) ∧
      ∀ ts, printProgramTokens F L = .ok ts → printProgramDebugTokens F L = ts := by
  refine ⟨⟨_, rfl⟩, ?_⟩
  intro ts h
  unfold printProgramTokens at h
  cases h' : firstErrList L with
  | none => simp [h'] at h; exact h
  | some e => simp [h'] at h

/-- **C04, proved part.**  Well-formed, placeholder-free instructions of the plain kinds — any number, any
order, with redefinitions: the program serializes, the tokens parse back to a list building the same program,
and serializing again gives the same tokens. -/
theorem C04_roundtrip_partial (F : NumFmt) (is : List Instruction)
    (hw : ∀ i ∈ is, wellFormed i = true) (hp : ∀ i ∈ is, hasPlaceholder i = false)
    (hk : ∀ i ∈ is, plainKind i = true) :
    ∃ ts, printProgramTokens F (build is).listing = .ok ts ∧
      ∃ is', parseProgram ts = .ok is' [] ∧ build is' = build is ∧
        printProgramTokens F (build is').listing = .ok ts := by
  apply C02_roundtrip_exact F is
  · intro i hi; exact parsedInstr_of_wellFormed i (hw i hi) (hp i hi) (hk i hi)
  · intro i hi; exact QV.C02.provedKind_of_lineKind (plainKind_provedKind (hk i hi))
  · intro i hi
    have := hk i hi
    cases i <;> simp_all [plainKind, numTokInstr]
  · intro i hi
    have := hk i hi
    cases i <;> simp_all [plainKind, canonInstr]

/-- **serialization succeeds** for every placeholder-free listing (all kinds, nested bodies; full strength) -/
theorem C04_serialize_succeeds (F : NumFmt) (L : List Instruction) (hp : hasPlaceholders L = false) :
    ∃ ts, printProgramTokens F L = .ok ts := by
  have := (firstErrList_none_iff L).mpr hp
  exact ⟨collapseNL (programRaw F L), by simp [printProgramTokens, this]⟩

/-- **C04 round trip, all 40 kinds, under explicit guards.**  Well-formed, placeholder-free instructions
satisfying `apiKind` (for the 34 one-line kinds: as before; DEFWAVEFORM with a name of non-empty slash-free
parts; DEFFRAME; DEFGATE with MATRIX / PERMUTATION / PAULI-SUM / SEQUENCE; DEFCAL, DEFCAL
MEASURE, DEFCIRCUIT whose bodies — by `wellFormed` — consist of non-definition instructions), NumTok hypothesis on
their literals: the program serializes, and the tokens parse back to the listing in which every expression `e`
is replaced by its normal form `norm e` and waveform-invocation parameters are sorted by key (`normInstr`).
`norm e` has the same value as `e` under every assignment (`C04_norm_value`): the reparsed instructions are equal
to the original ones with expressions compared by value. -/
theorem C04_roundtrip_api_partial (F : NumFmt) (is : List Instruction)
    (hw : ∀ i ∈ is, wellFormed i = true) (hp : ∀ i ∈ is, hasPlaceholder i = false)
    (hk : ∀ i ∈ is, apiKind i = true) (hn : ∀ i ∈ is, numTokInstr F i = true) :
    ∃ ts, printProgramTokens F (build is).listing = .ok ts ∧
      parseProgram ts = .ok ((build is).listing.map normInstr) [] := by
  have hL : ∀ i ∈ (build is).listing, i ∈ is := fun i hi => mem_listing_build hi
  have herr : firstErrList (build is).listing = none :=
    (firstErrList_none_iff _).mpr (hasPlaceholders_false _ (fun i hi => hp i (hL i hi)))
  have hpk : ∀ i ∈ (build is).listing, provedKind i = true :=
    fun i hi => provedKind_of_api i (hw i (hL i hi)) (hp i (hL i hi)) (hk i (hL i hi))
  have hsh : ∀ i ∈ (build is).listing, shapeOk F i = true :=
    fun i hi => shapeOk_of_api F i (hw i (hL i hi)) (hp i (hL i hi)) (hk i (hL i hi))
  have hblock : ∀ i ∈ (build is).listing, blockOk (stripNL (toks F i)) = true :=
    fun i hi => blockOk_lineToks' F i (hsh i hi) (hpk i hi) (hn i (hL i hi))
  have hcollapse : collapseNL (programRaw F (build is).listing) = progOf (lineToks F) (build is).listing :=
    (collapse_progOf (toks F) _ hblock).1
  have hprint : printProgramTokens F (build is).listing = .ok (progOf (lineToks F) (build is).listing) := by
    simp [printProgramTokens, herr, hcollapse]
  refine ⟨_, hprint, ?_⟩
  exact parseProgram_progOf (lineToks F) normInstr (build is).listing
    (fun i hi => lineToks_head' F i (hsh i hi) (hpk i hi) (hn i (hL i hi)))
    (fun i hi => rt_of_apiKind F _ i (hw i (hL i hi)) (hp i (hL i hi)) (hk i (hL i hi)) (hn i (hL i hi))
      (length_e_le_progOf (lineToks F) _ i hi))

/-- the reparsed list builds a program whose `to_instructions` is that list — nothing merged, nothing reordered —
provided no DEFCAL has parameter expressions that normalisation changes (the key of a calibration contains its
parameter expressions; see `C04_counterexample_calibrationKeys`) -/
theorem C04_roundtrip_build_partial (is : List Instruction)
    (hkey : ∀ id body, Instruction.calibrationDefinition id body ∈ is → id.parameters.map norm = id.parameters) :
    (build ((build is).listing.map normInstr)).listing = (build is).listing.map normInstr := by
  let f : Instruction → Instruction := fun i => if slotOf (normInstr i) = slotOf i then normInstr i else i
  have hf : ∀ i, slotOf (f i) = slotOf i := by
    intro i
    by_cases h : slotOf (normInstr i) = slotOf i <;> simp [f, h]
  have hL : ∀ i ∈ (build is).listing, i ∈ is := fun i hi => mem_listing_build hi
  have hmap : (build is).listing.map normInstr = (build is).listing.map f := by
    apply List.map_congr_left
    intro i hi
    have := slotOf_normInstr i (fun id body e => hkey id body (e ▸ hL i hi))
    simp [f, this]
  rw [hmap, build_map f hf, build_listing_build, listing_mapProg]

/-- **C04 at TEXT level, for the canonical layout**: under the hypotheses of `C04_roundtrip_api_partial`, if the
printed tokens are spellable (`QV.Render.allTokOk`, decidable) and the float spelling satisfies the NumTok
hypothesis `FmtOk`, the text `render st ts` (bP1's canonical layout of the printed tokens) lexes — with the
character-level lexer model — to exactly the printed tokens, which parse back to the normal-form listing. -/
theorem C04_roundtrip_api_text_partial (st : QV.Render.Style) (F : NumFmt) (is : List Instruction)
    (hw : ∀ i ∈ is, wellFormed i = true) (hp : ∀ i ∈ is, hasPlaceholder i = false)
    (hk : ∀ i ∈ is, apiKind i = true) (hn : ∀ i ∈ is, numTokInstr F i = true) :
    ∃ ts, printProgramTokens F (build is).listing = .ok ts ∧
      (QV.Render.allTokOk ts = true → (∀ b, Token.float b ∈ ts → QV.Render.FmtOk st.fmt b) →
        QV.Lex.lex (QV.Render.render st ts) = some ts ∧
        parseProgram ts = .ok ((build is).listing.map normInstr) []) := by
  obtain ⟨ts, h1, h2⟩ := C04_roundtrip_api_partial F is hw hp hk hn
  exact ⟨ts, h1, fun hall hfl => ⟨QV.Render.lex_render st ts hall hfl, h2⟩⟩

/-- two calibrations that the API keeps apart — `DEFCAL X(-1.0) 0` with the literal `-1.0` and with the prefix
minus `-(1.0)`: their keys differ structurally — print to the same line; the reparsed list therefore builds a
program with ONE calibration.  (An instance of the non-injectivity of the expression printer, C03.) -/
def calibrationKeysWitness : List Instruction :=
  [.calibrationDefinition ⟨[], "X", [.number ⟨0xBFF0000000000000, 0⟩], [.fixed 0]⟩ [.nop],
   .calibrationDefinition ⟨[], "X", [.pre .minus (.number ⟨0x3FF0000000000000, 0⟩)], [.fixed 0]⟩ [.wait]]

theorem C04_counterexample_calibrationKeys :
    (∀ i ∈ calibrationKeysWitness, wellFormed i = true ∧ hasPlaceholder i = false ∧ apiKind i = true ∧
      numTokInstr stdFmt i = true) ∧
    (build calibrationKeysWitness).listing.length = 2 ∧
    (build ((build calibrationKeysWitness).listing.map normInstr)).listing.length = 1 := by
  decide

/-- the normal form the parser returns has the same value as the original expression, for every scalar type
satisfying the literal laws and every assignment (proved by the C03 builder: `QV.ExprRoundTrip.eval_norm`) -/
theorem C04_norm_value {K : Type} [Scalar K] (den : CBits → K) (L : QV.ExprRoundTrip.LitLaws K den)
    (ρ : VarEnv K) (μ : MemEnv K) (e : PExpr) (h : finiteLits e = true) :
    QV.ExprRoundTrip.evalP den ρ μ (norm e) = QV.ExprRoundTrip.evalP den ρ μ e :=
  QV.ExprRoundTrip.eval_norm L ρ μ e h

/-- non-vacuity of `C04_roundtrip_api_partial` (one-line kinds): `DAGGER RX(-(-pi), -1.5, 1-2i) 0 q` and a frame instruction -/
example : ∃ ts, printProgramTokens stdFmt (build
      [.gate ⟨"RX", [.pre .minus (.pre .minus .pi), .number ⟨0xBFF8000000000000, 0⟩,
          .number ⟨0x3FF0000000000000, 0xC000000000000000⟩], [.fixed 0, .variable "q"], [.dagger]⟩,
       .setPhase ⟨⟨"rf", [.fixed 0]⟩, .pre .plus (.var "theta")⟩,
       .delay ⟨.var "t", [], [.fixed 0]⟩,
       .delay ⟨.address ⟨"theta", 0⟩, [], [.fixed 0, .fixed 1]⟩,
       .delay ⟨.call .sin (.var "t"), [], [.fixed 0]⟩,
       .delay ⟨.number ⟨0x3FF0000000000000, 0xC000000000000000⟩, ["a\"b"], []⟩,
       .rawCapture ⟨false, ⟨"ro", [.fixed 0]⟩, .number ⟨0x4000000000000000, 0⟩, ⟨"iq", 0⟩⟩,
       .pulse ⟨false, ⟨"rf", [.fixed 0]⟩, ⟨"lib/wf", [("b", .number ⟨0xBFF0000000000000, 0⟩), ("a", .pi)]⟩⟩,
       .call ⟨"foo", [.immediate ⟨0x3FF0000000000000, 0⟩, .immediate ⟨0, 0xC000000000000000⟩,
          .immediate ⟨0xBFF0000000000000, 0x4000000000000000⟩, .identifier "x", .memoryReference ⟨"i", 0⟩]⟩]).listing
      = .ok ts :=
  let ⟨ts, h, _⟩ := C04_roundtrip_api_partial stdFmt _ (by decide) (by decide) (by decide) (by decide)
  ⟨ts, h⟩

/-- non-vacuity: instructions as the constructors build them (negative / extreme literals, a named measurement,
a redefined declaration, two frames with a variable qubit) -/
example : ∃ ts, printProgramTokens stdFmt (build
      [.move ⟨⟨"ro", 0⟩, .literalReal 0xBFF8000000000000⟩,
       .store ⟨"mem", ⟨"off", 2⟩, .literalInteger (-9223372036854775808)⟩,
       .declaration ⟨"ro", ⟨.bit, 1⟩, none⟩,
       .declaration ⟨"ro", ⟨.real, 2⟩, some ⟨"x", [⟨1, .bit⟩, ⟨2, .octet⟩]⟩⟩,
       .swapPhases ⟨⟨"a\"b", [.fixed 0, .variable "q"]⟩, ⟨"", [.fixed 1]⟩⟩,
       .measurement ⟨some "mid", .variable "q", some ⟨"ro", 1⟩⟩]).listing = .ok ts :=
  let ⟨ts, h, _⟩ := C04_roundtrip_partial stdFmt _ (by decide) (by decide) (by decide)
  ⟨ts, h⟩

/-- non-vacuity of `C04_roundtrip_api_partial` for the six definition kinds, with NON-normal expressions
(negative and complex literals, prefix plus) in every expression position: DEFWAVEFORM, DEFFRAME, DEFCAL with a
negative-literal parameter and a body containing a gate with a negative parameter, DEFCAL MEASURE, DEFCIRCUIT, and
DEFGATE AS MATRIX / PERMUTATION / PAULI-SUM / SEQUENCE -/
example : ∃ ts, printProgramTokens stdFmt (build
      [.waveformDefinition ⟨"lib/wf", ⟨[.number ⟨0xBFF0000000000000, 0⟩, .pre .plus (.var "t"),
          .number ⟨0x3FF0000000000000, 0xC000000000000000⟩], ["t"]⟩⟩,
       .frameDefinition ⟨⟨"xy", [.fixed 0, .variable "q"]⟩,
         [("DIRECTION", .string "tx"), ("INITIAL-FREQUENCY", .expression (.number ⟨0xBFF8000000000000, 0⟩))]⟩,
       .calibrationDefinition ⟨[.dagger], "RX", [.number ⟨0xBFF0000000000000, 0⟩, .var "a"], [.fixed 0]⟩
         [.gate ⟨"RZ", [.number ⟨0xBFF8000000000000, 0⟩], [.fixed 0], []⟩,
          .delay ⟨.number ⟨0xBFF0000000000000, 0⟩, [], [.fixed 0]⟩, .nop],
       .measureCalibrationDefinition ⟨some "mid", .variable "q", some "dest"⟩
         [.shiftPhase ⟨⟨"ro", [.variable "q"]⟩, .pre .plus .pi⟩, .wait],
       .circuitDefinition "BELL" ["a"] ["q", "r"]
         [.gate ⟨"RX", [.pre .minus (.pre .minus (.var "a"))], [.variable "q"], []⟩,
          .gate ⟨"CNOT", [], [.variable "q", .variable "r"], [.controlled]⟩],
       .gateDefinition ⟨"M", ["t"], .matrix [[.number ⟨0xBFF0000000000000, 0⟩, .pi],
          [.pre .plus (.var "t"), .number ⟨0, 0x3FF0000000000000⟩]]⟩,
       .gateDefinition ⟨"P", [], .permutation [0, 1, 3, 2]⟩,
       .gateDefinition ⟨"S", ["t"], .pauliSum ⟨["p", "q"],
          [⟨[(.x, "p"), (.z, "q")], .number ⟨0xBFF0000000000000, 0⟩⟩, ⟨[(.y, "q")], .var "t"⟩]⟩⟩,
       .gateDefinition ⟨"Q", ["t"], .sequence ⟨["a", "b"],
          [⟨"RX", [.number ⟨0xBFF0000000000000, 0⟩], [.variable "a"], []⟩,
           ⟨"CNOT", [], [.variable "a", .variable "b"], []⟩]⟩⟩]).listing = .ok ts ∧
    ∃ is', parseProgram ts = .ok is' [] :=
  let ⟨ts, h1, h2⟩ := C04_roundtrip_api_partial stdFmt _ (by decide) (by decide) (by decide) (by decide)
  ⟨ts, h1, _, h2⟩

end QV.C04
