import QV.C04.Lemmas
import QV.C02.Props
/-!
# C04 — programs built through the API serialize to text that parses back

Statement (properties.jsonl): *For every well-formed program built through the public constructors without
placeholders, serialization succeeds and the text parses to an equivalent program (equal, with expressions
compared by value).  Serialization fails with an unresolved-placeholder error exactly when a placeholder is
present, and the debug serializer never fails.*

Token level, programs of any size (the models are `QV.Shared.Print`, `QV.Shared.Parse`, `QV.C02.Model`).

## Proved for ALL instruction kinds (nested bodies included), no size bound

* `C04_placeholder_iff` / `C04_placeholder_iff_instr`: serialization returns an error ⇔ a placeholder occurs
  somewhere (`hasPlaceholder`: a plain recursive search, written independently of the writers' order);
  (the error type `PrintError` has only the two unresolved-placeholder constructors; WHICH of them is returned
  — the first one met in writing order, `firstErr` — is compared with the real `ToQuilError` on every case);
* `C04_debug_total`: the debug serializer is a total function (by construction of the model: `write(f, true)`
  never takes an error branch) and AGREES with the strict serializer whenever that succeeds.

## Proved for the kinds of `apiKind` (34 kinds) — `C04_roundtrip_api`, see below

## Proved for the kinds of `plainKind` (23 kinds without expressions)

* `C04_roundtrip_partial`: well-formed, placeholder-free ⇒ serialization succeeds, the tokens parse back to a
  list that builds the SAME program (here even equal, not merely equivalent), and re-serializing gives the same
  tokens.

The full statement (all kinds, `≈` = `equivInstrs`: expressions compared by value, waveform parameters as
maps) is kept here and is checked on every generated case by the correspondence (Bool spec `specOnOut`):

    theorem C04_full (is) (hw : ∀ i ∈ is, wellFormed i) (hp : ∀ i ∈ is, hasPlaceholder i = false) (hF : NumTok) :
      ∃ ts is', printProgramTokens F (build is).listing = .ok ts ∧ parseProgram ts = .ok is' [] ∧
        equivInstrs (build is).listing (build is').listing
-/
namespace QV.C04
open QV QV.Tok QV.Ast QV.Parse QV.Print QV.ExprPrint QV.C02

/-- **serialization fails exactly when a placeholder is present** (program level, any listing) -/
theorem C04_placeholder_iff (F : NumFmt) (L : List Instruction) :
    (∃ e, printProgramTokens F L = .error e) ↔ hasPlaceholders L = true := by
  unfold printProgramTokens
  cases h : firstErrList L with
  | none =>
    have := (firstErrList_none_iff L).mp h
    simp [this]
  | some e =>
    have : hasPlaceholders L ≠ false := fun hn => by
      have := (firstErrList_none_iff L).mpr hn
      rw [h] at this; cases this
    simp only [Bool.not_eq_false] at this
    simp [this]

/-- the same for one instruction (`Instruction::to_quil`) -/
theorem C04_placeholder_iff_instr (F : NumFmt) (i : Instruction) :
    (∃ e, printInstrTokens F i = .error e) ↔ hasPlaceholder i = true := by
  unfold printInstrTokens printInstrRaw
  cases h : firstErr i with
  | none =>
    have := (firstErr_none_iff i).mp h
    simp [this]
  | some e =>
    have : hasPlaceholder i ≠ false := fun hn => by
      have := (firstErr_none_iff i).mpr hn
      rw [h] at this; cases this
    simp only [Bool.not_eq_false] at this
    simp [this]

example : ∃ e, printInstrTokens stdFmt (.gate ⟨"X", [], [.placeholder 0], []⟩) = .error e :=
  (C04_placeholder_iff_instr stdFmt _).mpr (by decide)

/-- the debug serializer never fails (it is a total function returning tokens), and whenever the strict
serializer succeeds the two agree -/
theorem C04_debug_total (F : NumFmt) (L : List Instruction) :
    (∃ ts, printProgramDebugTokens F L = ts) ∧
      ∀ ts, printProgramTokens F L = .ok ts → printProgramDebugTokens F L = ts := by
  refine ⟨⟨_, rfl⟩, ?_⟩
  intro ts h
  unfold printProgramTokens at h
  cases h' : firstErrList L with
  | none => simp [h'] at h; exact h
  | some e => simp [h'] at h

/-- **C04, proved part.**  Well-formed, placeholder-free instructions of the plain kinds — any number, any
order, with redefinitions: the program serializes, the tokens parse back to a list building the same program,
and serializing again gives the same tokens. -/
theorem C04_roundtrip_partial (F : NumFmt) (is : List Instruction)
    (hw : ∀ i ∈ is, wellFormed i = true) (hp : ∀ i ∈ is, hasPlaceholder i = false)
    (hk : ∀ i ∈ is, plainKind i = true) :
    ∃ ts, printProgramTokens F (build is).listing = .ok ts ∧
      ∃ is', parseProgram ts = .ok is' [] ∧ build is' = build is ∧
        printProgramTokens F (build is').listing = .ok ts := by
  apply C02_roundtrip_exact F is
  · intro i hi; exact parsedInstr_of_wellFormed i (hw i hi) (hp i hi) (hk i hi)
  · intro i hi; exact QV.C02.provedKind_of_lineKind (plainKind_provedKind (hk i hi))
  · intro i hi
    have := hk i hi
    cases i <;> simp_all [plainKind, numTokInstr]
  · intro i hi
    have := hk i hi
    cases i <;> simp_all [plainKind, canonInstr]

/-- **C04, proved part with expressions.**  Well-formed, placeholder-free instructions of the kinds `apiKind`
(the plain kinds, gate applications with arbitrary expression parameters and modifiers, SET-FREQUENCY, SET-PHASE,
SET-SCALE, SHIFT-FREQUENCY, SHIFT-PHASE, DELAY with any duration with and without frame names, RAW-CAPTURE into
a region not named `i`, CAPTURE and PULSE: their waveform parameters come back sorted by key, values in normal
form — `normInvocation`; CALL with identifier, memory-reference and immediate arguments — negative, imaginary,
complex, adjacent — read back bit for bit), NumTok hypothesis on their literals: the program serializes, and the
tokens parse back to the listing in which every expression `e` is replaced by its normal form `norm e`
(`normInstr`) — which builds the program whose containers are the images of the original containers.
`norm e` has the same value as `e` under every assignment (`C04_norm_value`): the reparsed program is equal to
the original with expressions compared by value. -/
theorem C04_roundtrip_api (F : NumFmt) (is : List Instruction)
    (hw : ∀ i ∈ is, wellFormed i = true) (hp : ∀ i ∈ is, hasPlaceholder i = false)
    (hk : ∀ i ∈ is, apiKind i = true) (hn : ∀ i ∈ is, numTokInstr F i = true) :
    ∃ ts, printProgramTokens F (build is).listing = .ok ts ∧
      parseProgram ts = .ok ((build is).listing.map normInstr) [] ∧
      build ((build is).listing.map normInstr) = mapProg normInstr (build is) ∧
      (build ((build is).listing.map normInstr)).listing = (build is).listing.map normInstr := by
  have hL : ∀ i ∈ (build is).listing, i ∈ is := fun i hi => mem_listing_build hi
  have herr : firstErrList (build is).listing = none :=
    (firstErrList_none_iff _).mpr (hasPlaceholders_false _ (fun i hi => hp i (hL i hi)))
  have hblock : ∀ i ∈ (build is).listing, blockOk (toks F i) = true := by
    intro i hi
    exact blockOk_of_lineKind F i (apiKind_provedKind (hk i (hL i hi))) (hn i (hL i hi))
  have hcollapse : collapseNL (programRaw F (build is).listing) = programRaw F (build is).listing :=
    collapseNL_of_noAdj _ (noAdjNL_programRaw F _ hblock).1
  have hprint : printProgramTokens F (build is).listing = .ok (programRaw F (build is).listing) := by
    simp [printProgramTokens, herr, hcollapse]
  have hbuild : build ((build is).listing.map normInstr) = mapProg normInstr (build is) := by
    rw [build_map normInstr slotOf_normInstr, build_listing_build]
  refine ⟨_, hprint, ?_, hbuild, ?_⟩
  · exact parseProgram_programRaw F normInstr (build is).listing
      (fun i hi => (rt_of_apiKind F _ i (hw i (hL i hi)) (hp i (hL i hi)) (hk i (hL i hi)) (hn i (hL i hi))
        (length_toks_le_programRaw F _ i hi)).top)
  · rw [hbuild, listing_mapProg]

/-- **C04 at TEXT level, for the canonical layout**: under the hypotheses of `C04_roundtrip_api`, if the printed
tokens are spellable (`QV.Render.allTokOk`, decidable) and the float spelling satisfies the NumTok hypothesis
`FmtOk`, the text `render st ts` (bP1's canonical layout of the printed tokens) lexes — with the character-level
lexer model — to exactly the printed tokens, which parse back to the normal-form listing. -/
theorem C04_roundtrip_api_text (st : QV.Render.Style) (F : NumFmt) (is : List Instruction)
    (hw : ∀ i ∈ is, wellFormed i = true) (hp : ∀ i ∈ is, hasPlaceholder i = false)
    (hk : ∀ i ∈ is, apiKind i = true) (hn : ∀ i ∈ is, numTokInstr F i = true) :
    ∃ ts, printProgramTokens F (build is).listing = .ok ts ∧
      (QV.Render.allTokOk ts = true → (∀ b, Token.float b ∈ ts → QV.Render.FmtOk st.fmt b) →
        QV.Lex.lex (QV.Render.render st ts) = some ts ∧
        parseProgram ts = .ok ((build is).listing.map normInstr) []) := by
  obtain ⟨ts, h1, h2, _⟩ := C04_roundtrip_api F is hw hp hk hn
  exact ⟨ts, h1, fun hall hfl => ⟨QV.Render.lex_render st ts hall hfl, h2⟩⟩

/-- the normal form the parser returns has the same value as the original expression, for every scalar type
satisfying the literal laws and every assignment (proved by the C03 builder: `QV.ExprRoundTrip.eval_norm`) -/
theorem C04_norm_value {K : Type} [Scalar K] (den : CBits → K) (L : QV.ExprRoundTrip.LitLaws K den)
    (ρ : VarEnv K) (μ : MemEnv K) (e : PExpr) (h : finiteLits e = true) :
    QV.ExprRoundTrip.evalP den ρ μ (norm e) = QV.ExprRoundTrip.evalP den ρ μ e :=
  QV.ExprRoundTrip.eval_norm L ρ μ e h

/-- non-vacuity of `C04_roundtrip_api`: `DAGGER RX(-(-pi), -1.5, 1-2i) 0 q` and a frame instruction -/
example : ∃ ts, printProgramTokens stdFmt (build
      [.gate ⟨"RX", [.pre .minus (.pre .minus .pi), .number ⟨0xBFF8000000000000, 0⟩,
          .number ⟨0x3FF0000000000000, 0xC000000000000000⟩], [.fixed 0, .variable "q"], [.dagger]⟩,
       .setPhase ⟨⟨"rf", [.fixed 0]⟩, .pre .plus (.var "theta")⟩,
       .delay ⟨.var "t", [], [.fixed 0]⟩,
       .delay ⟨.address ⟨"theta", 0⟩, [], [.fixed 0, .fixed 1]⟩,
       .delay ⟨.call .sin (.var "t"), [], [.fixed 0]⟩,
       .delay ⟨.number ⟨0x3FF0000000000000, 0xC000000000000000⟩, ["a\"b"], []⟩,
       .rawCapture ⟨false, ⟨"ro", [.fixed 0]⟩, .number ⟨0x4000000000000000, 0⟩, ⟨"iq", 0⟩⟩,
       .pulse ⟨false, ⟨"rf", [.fixed 0]⟩, ⟨"lib/wf", [("b", .number ⟨0xBFF0000000000000, 0⟩), ("a", .pi)]⟩⟩,
       .call ⟨"foo", [.immediate ⟨0x3FF0000000000000, 0⟩, .immediate ⟨0, 0xC000000000000000⟩,
          .immediate ⟨0xBFF0000000000000, 0x4000000000000000⟩, .identifier "x", .memoryReference ⟨"i", 0⟩]⟩]).listing
      = .ok ts :=
  let ⟨ts, h, _⟩ := C04_roundtrip_api stdFmt _ (by decide) (by decide) (by decide) (by decide)
  ⟨ts, h⟩

/-- non-vacuity: instructions as the constructors build them (negative / extreme literals, a named measurement,
a redefined declaration, two frames with a variable qubit) -/
example : ∃ ts, printProgramTokens stdFmt (build
      [.move ⟨⟨"ro", 0⟩, .literalReal 0xBFF8000000000000⟩,
       .store ⟨"mem", ⟨"off", 2⟩, .literalInteger (-9223372036854775808)⟩,
       .declaration ⟨"ro", ⟨.bit, 1⟩, none⟩,
       .declaration ⟨"ro", ⟨.real, 2⟩, some ⟨"x", [⟨1, .bit⟩, ⟨2, .octet⟩]⟩⟩,
       .swapPhases ⟨⟨"a\"b", [.fixed 0, .variable "q"]⟩, ⟨"", [.fixed 1]⟩⟩,
       .measurement ⟨some "mid", .variable "q", some ⟨"ro", 1⟩⟩]).listing = .ok ts :=
  let ⟨ts, h, _⟩ := C04_roundtrip_partial stdFmt _ (by decide) (by decide) (by decide)
  ⟨ts, h⟩

end QV.C04
