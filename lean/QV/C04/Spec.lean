import QV.Shared.Ast
import QV.Shared.Lex
import QV.Shared.Parse
import QV.Shared.ExprPrint
import QV.Shared.Print
import QV.Shared.CFloat
import QV.C02.Model
import QV.C02.Spec
/-
QV.C04.Spec — the vocabulary of the C04 statement (import-free apart from QV model files; used by the driver).

* `wellFormed`     "well-formed: satisfies the constructors' own validation and identifier rules", as a decidable
                   predicate on instruction trees (see the list below);
* `hasPlaceholder` a placeholder (qubit or target) occurs ANYWHERE in the tree — written as a plain recursive
                   search, independently of the order in which the writers meet them;
* `equivInstr`     "equivalent = equal, with expressions compared by value": structural equality in which two
                   expressions are compared by evaluating both (with the `CFloat` scalar, the same arithmetic as
                   quil-rs's `Complex64`) in three fixed environments; waveform parameters as maps.

What `wellFormed` asks (each item is a constructor's validation or an identifier rule of the grammar):
* every name written bare is an identifier of the lexer that is not a reserved word (`validate_user_identifier`
  for the positions the constructors check — CALL name, DEFGATE name, EXTERN parameters —, the same rule for the
  positions they do not check: region names, gate names [`Gate::new` only checks the shape], PRAGMA words,
  circuit / qubit / parameter names …); waveform names may be `name/extension`; labels and `%variables` need the
  identifier shape only;
* `Gate::new`: at least one qubit;  `PauliSum::new`: every term argument is declared;
  `DefGateSequence::try_new`: at least one qubit parameter, every gate qubit is one of them;
* numbers: `i64` / `u64` ranges, literal reals finite, expression literals finite and not `-0.0` (the sign of a
  zero is not printed: known finding C03/negative-zero-literal), CALL immediates finite and not `-0.0`;
* definitions are complete (what the grammar can express): non-empty bodies, matrices, permutations, term
  lists, attribute lists; PAULI-SUM words non-empty; bodies of DEFCAL / DEFCAL MEASURE / DEFCIRCUIT contain
  no definitions (`bodyKind`: a nested definition's block greedily takes the following lines of the outer
  body when read back, so `DEFCAL X: [DEFCAL Y: [A], B]` cannot be expressed in the grammar);
* the three printer / parser ambiguities recorded as known findings of C02 are excluded: a real literal
  directly followed by the name `i` (RAW-CAPTURE region, CALL argument).
-/
namespace QV.C04
open QV QV.Tok QV.Ast QV.ExprPrint QV.Print QV.C02

/-! ## identifier rules -/

/-- the whole string is ONE identifier of the lexer (`lex_identifier_raw` consumes it entirely) -/
def identShape (s : String) : Bool :=
  match QV.Lex.lexIdentifierRaw s.toList with
  | .ok a [] => a == s.toList
  | _ => false

/-- a name that lexes as an `Identifier` token: identifier shape, not a reserved word -/
def identName (s : String) : Bool := identShape s && !isReservedWord s.toList

/-- `name` or `name/extension` -/
def wfName (s : String) : Bool :=
  match s.toList.span (· != '/') with
  | (a, []) => identName (String.ofList a)
  | (a, _ :: b) => identName (String.ofList a) && identName (String.ofList b)

def memRefOk (r : MemRef) : Bool := identName r.name && decide (r.index < two64)

/-! ## expressions -/

def exprOk : PExpr → Bool
  | .address r => memRefOk r
  | .call _ e => exprOk e
  | .bin l _ r => exprOk l && exprOk r
  | .number z => plainBits z.re && plainBits z.im
  | .pi => true
  | .pre _ e => exprOk e
  | .var x => identShape x

def qubitOk : Qubit → Bool
  | .fixed n => decide (n < two64)
  | .variable s => identName s
  | .placeholder _ => true

def targetOk : Target → Bool
  | .fixed s => identShape s
  | .placeholder _ _ => true

def frameOk (f : FrameIdentifier) : Bool := !f.qubits.isEmpty && f.qubits.all qubitOk

def invocationOk (w : WaveformInvocation) : Bool :=
  wfName w.name && wfNameOk w.name && distinctKeys w.parameters &&
    w.parameters.all fun kv => identName kv.1 && exprOk kv.2

def i64Ok (v : Int) : Bool := decide (-9223372036854775808 ≤ v) && decide (v < 9223372036854775808)

def arithOk : ArithmeticOperand → Bool
  | .literalInteger v => i64Ok v
  | .literalReal b => realLitOk b
  | .memoryReference r => memRefOk r
def compOk : ComparisonOperand → Bool
  | .literalInteger v => i64Ok v
  | .literalReal b => realLitOk b
  | .memoryReference r => memRefOk r
def binOk : BinaryOperand → Bool
  | .literalInteger v => i64Ok v
  | .memoryReference r => memRefOk r

/-- `Gate::new` (gate.rs:131) + identifier rules -/
def gateOk (g : Gate) : Bool :=
  identName g.name && !g.qubits.isEmpty && g.parameters.all exprOk && g.qubits.all qubitOk

def callArgOk : UnresolvedCallArgument → Bool
  | .identifier s => identName s
  | .memoryReference r => memRefOk r
  | .immediate z => plainBits z.re && plainBits z.im

/-- a real immediate directly followed by an argument named `i` (known finding C02/number-then-name-i) -/
def callNumberThenI : List UnresolvedCallArgument → Bool
  | .immediate z :: b :: rest =>
    (fZero z.im && (match b with
      | .identifier s => s == "i"
      | .memoryReference r => r.name == "i"
      | _ => false)) || callNumberThenI (b :: rest)
  | _ :: rest => callNumberThenI rest
  | [] => false

/-- `PauliSum::new`, `DefGateSequence::try_new` + completeness -/
def specOk : GateSpecification → Bool
  | .matrix rows => !rows.isEmpty && rows.all fun r => r.all exprOk
  | .permutation p => !p.isEmpty && p.all fun n => decide (n < two64)
  | .pauliSum s =>
    s.arguments.all identName && !s.terms.isEmpty && s.terms.all fun t =>
      !t.arguments.isEmpty && exprOk t.expression && t.arguments.all fun ga => s.arguments.contains ga.2
  | .sequence s =>
    !s.qubits.isEmpty && s.qubits.all identName && !s.gates.isEmpty && s.gates.all fun g =>
      gateOk g && g.qubits.all fun q =>
        match q with
        | .variable a => s.qubits.contains a
        | _ => false

/-- instructions that may appear in a DEFCAL / DEFCAL MEASURE / DEFCIRCUIT body: no definitions -/
def bodyKind : Instruction → Bool
  | .calibrationDefinition _ _ | .measureCalibrationDefinition _ _ | .circuitDefinition _ _ _ _
  | .gateDefinition _ | .frameDefinition _ | .waveformDefinition _ | .declaration _ => false
  | _ => true

mutual
def wellFormed : Instruction → Bool
  | .arithmetic a => memRefOk a.destination && arithOk a.source
  | .binaryLogic b => memRefOk b.destination && binOk b.source
  | .calibrationDefinition id body =>
    identName id.name && id.parameters.all exprOk && id.qubits.all qubitOk && !body.isEmpty &&
      body.all bodyKind && wellFormeds body
  | .call c => identName c.name && c.arguments.all callArgOk && !callNumberThenI c.arguments
  | .capture c => frameOk c.frame && invocationOk c.waveform && memRefOk c.memoryReference
  | .circuitDefinition name ps qvs body =>
    identName name && ps.all identShape && qvs.all identName && !body.isEmpty && body.all bodyKind &&
      wellFormeds body
  | .convert c => memRefOk c.destination && memRefOk c.source
  | .comparison c => memRefOk c.destination && memRefOk c.lhs && compOk c.rhs
  | .declaration d =>
    identName d.name && decide (d.size.length < two64) &&
      (match d.sharing with
       | none => true
       | some s => identName s.name && s.offsets.all fun o => decide (o.offset < two64))
  | .delay d => exprOk d.duration && d.qubits.all qubitOk
  | .exchange e => memRefOk e.left && memRefOk e.right
  | .fence f => f.qubits.all qubitOk
  | .frameDefinition f =>
    frameOk f.identifier && !f.attributes.isEmpty && distinctKeys f.attributes &&
      f.attributes.all fun kv => identName kv.1 &&
        (match kv.2 with | .string _ => true | .expression e => exprOk e)
  | .gate g => gateOk g
  | .gateDefinition g => identName g.name && g.parameters.all identShape && specOk g.specification
  | .halt => true
  | .include _ => true
  | .jump j => targetOk j.target
  | .jumpUnless j => targetOk j.target && memRefOk j.condition
  | .jumpWhen j => targetOk j.target && memRefOk j.condition
  | .label l => targetOk l.target
  | .load l => memRefOk l.destination && identName l.source && memRefOk l.offset
  | .measureCalibrationDefinition id body =>
    (match id.name with | some n => identName n | none => true) && qubitOk id.qubit &&
      (match id.target with | some t => identName t | none => true) && !body.isEmpty && body.all bodyKind &&
      wellFormeds body
  | .measurement m =>
    (match m.name with | some n => identName n | none => true) && qubitOk m.qubit &&
      (match m.target with | some t => memRefOk t | none => true)
  | .move m => memRefOk m.destination && arithOk m.source
  | .nop => true
  | .pragma p =>
    identName p.name && p.arguments.all fun a =>
      match a with
      | .identifier s => identName s
      | .integer n => decide (n < two64)
  | .pulse p => frameOk p.frame && invocationOk p.waveform
  | .rawCapture r =>
    frameOk r.frame && exprOk r.duration && memRefOk r.memoryReference && r.memoryReference.name != "i"
  | .reset r => (match r.qubit with | some q => qubitOk q | none => true)
  | .setFrequency s => frameOk s.frame && exprOk s.frequency
  | .setPhase s => frameOk s.frame && exprOk s.phase
  | .setScale s => frameOk s.frame && exprOk s.scale
  | .shiftFrequency s => frameOk s.frame && exprOk s.frequency
  | .shiftPhase s => frameOk s.frame && exprOk s.phase
  | .store s => identName s.destination && memRefOk s.offset && arithOk s.source
  | .swapPhases s => frameOk s.frame1 && frameOk s.frame2
  | .unaryLogic u => memRefOk u.operand
  | .waveformDefinition w =>
    wfName w.name && w.definition.parameters.all identShape && !w.definition.matrix.isEmpty &&
      w.definition.matrix.all exprOk
  | .wait => true
def wellFormeds : List Instruction → Bool
  | [] => true
  | i :: rest => wellFormed i && wellFormeds rest
end

/-! ## placeholders, declaratively -/

def qubitIsPh : Qubit → Bool
  | .placeholder _ => true
  | _ => false

def targetIsPh : Target → Bool
  | .placeholder _ _ => true
  | _ => false

mutual
/-- a qubit or target placeholder occurs somewhere in the instruction -/
def hasPlaceholder : Instruction → Bool
  | .calibrationDefinition id body => id.qubits.any qubitIsPh || hasPlaceholders body
  | .capture c => c.frame.qubits.any qubitIsPh
  | .circuitDefinition _ _ _ body => hasPlaceholders body
  | .delay d => d.qubits.any qubitIsPh
  | .fence f => f.qubits.any qubitIsPh
  | .frameDefinition f => f.identifier.qubits.any qubitIsPh
  | .gate g => g.qubits.any qubitIsPh
  | .gateDefinition g =>
    (match g.specification with
     | .sequence s => s.gates.any fun x => x.qubits.any qubitIsPh
     | _ => false)
  | .jump j => targetIsPh j.target
  | .jumpUnless j => targetIsPh j.target
  | .jumpWhen j => targetIsPh j.target
  | .label l => targetIsPh l.target
  | .measureCalibrationDefinition id body => qubitIsPh id.qubit || hasPlaceholders body
  | .measurement m => qubitIsPh m.qubit
  | .pulse p => p.frame.qubits.any qubitIsPh
  | .rawCapture r => r.frame.qubits.any qubitIsPh
  | .reset r => (match r.qubit with | some q => qubitIsPh q | none => false)
  | .setFrequency s => s.frame.qubits.any qubitIsPh
  | .setPhase s => s.frame.qubits.any qubitIsPh
  | .setScale s => s.frame.qubits.any qubitIsPh
  | .shiftFrequency s => s.frame.qubits.any qubitIsPh
  | .shiftPhase s => s.frame.qubits.any qubitIsPh
  | .swapPhases s => s.frame1.qubits.any qubitIsPh || s.frame2.qubits.any qubitIsPh
  | _ => false
def hasPlaceholders : List Instruction → Bool
  | [] => false
  | i :: rest => hasPlaceholder i || hasPlaceholders rest
end

/-! ## equivalence: equal, expressions compared by value -/

def cOfBits (z : CBits) : CFloat := ⟨Float.ofBits z.re.toUInt64, Float.ofBits z.im.toUInt64⟩

/-- three fixed environments (values chosen away from zeros / branch cuts) -/
def sampleVar (k : Nat) (x : String) : Option CFloat :=
  let h := (x.toList.foldl (fun (a : Nat) (c : Char) => (a * 31 + c.toNat) % 9973) 7).toFloat
  some ⟨0.37 + h / 10000.0 + k.toFloat * 0.211, 0.11 + h / 20000.0 + k.toFloat * 0.053⟩

def sampleMem (k : Nat) (x : String) : Option (List CFloat) :=
  let h := (x.toList.foldl (fun (a : Nat) (c : Char) => (a * 17 + c.toNat) % 9973) 3).toFloat
  some ((List.range 16).map fun j => (⟨0.5 + h / 9000.0 + j.toFloat * 0.07 + k.toFloat * 0.3, 0.0⟩ : CFloat))

def closeF (a b : Float) : Bool :=
  (a.isNaN && b.isNaN) || a == b ||
    (Float.abs (a - b) ≤ 1e-9 * (if Float.abs a > 1.0 then Float.abs a else 1.0))

def closeC (a b : CFloat) : Bool := closeF a.re b.re && closeF a.im b.im

/-- addresses above the sampled memory are read as "incomplete" on both sides alike -/
def evalAt (k : Nat) (e : PExpr) : Except EvalError CFloat :=
  eval (sampleVar k) (sampleMem k) (e.mapNum cOfBits)

def sameValue (a b : PExpr) : Bool :=
  [0, 1, 2].all fun k =>
    match evalAt k a, evalAt k b with
    | .ok x, .ok y => closeC x y
    | .error _, .error _ => true
    | _, _ => false

def sameValues : List PExpr → List PExpr → Bool
  | [], [] => true
  | a :: as, b :: bs => sameValue a b && sameValues as bs
  | _, _ => false

def sameKV : List (String × PExpr) → List (String × PExpr) → Bool
  | [], [] => true
  | a :: as, b :: bs => a.1 == b.1 && sameValue a.2 b.2 && sameKV as bs
  | _, _ => false

def sameInvocation (a b : WaveformInvocation) : Bool :=
  a.name == b.name && sameKV (sortKV a.parameters) (sortKV b.parameters)

def sameGate (a b : Gate) : Bool :=
  a.name == b.name && sameValues a.parameters b.parameters && a.qubits == b.qubits && a.modifiers == b.modifiers

def sameGates : List Gate → List Gate → Bool
  | [], [] => true
  | a :: as, b :: bs => sameGate a b && sameGates as bs
  | _, _ => false

def sameAttrs : List (String × AttributeValue) → List (String × AttributeValue) → Bool
  | [], [] => true
  | a :: as, b :: bs =>
    a.1 == b.1 && (match a.2, b.2 with
      | .string x, .string y => x == y
      | .expression x, .expression y => sameValue x y
      | _, _ => false) && sameAttrs as bs
  | _, _ => false

def sameRows : List (List PExpr) → List (List PExpr) → Bool
  | [], [] => true
  | a :: as, b :: bs => sameValues a b && sameRows as bs
  | _, _ => false

def sameTerms : List PauliTerm → List PauliTerm → Bool
  | [], [] => true
  | a :: as, b :: bs => a.arguments == b.arguments && sameValue a.expression b.expression && sameTerms as bs
  | _, _ => false

def sameSpec : GateSpecification → GateSpecification → Bool
  | .matrix a, .matrix b => sameRows a b
  | .permutation a, .permutation b => a == b
  | .pauliSum a, .pauliSum b => a.arguments == b.arguments && sameTerms a.terms b.terms
  | .sequence a, .sequence b => a.qubits == b.qubits && sameGates a.gates b.gates
  | _, _ => false

/-- a CALL immediate compared by value (`-0.0 == 0.0`) -/
def sameArg : UnresolvedCallArgument → UnresolvedCallArgument → Bool
  | .immediate a, .immediate b => closeC (cOfBits a) (cOfBits b)
  | .identifier a, .identifier b => a == b
  | .memoryReference a, .memoryReference b => a == b
  | _, _ => false

def sameArgs : List UnresolvedCallArgument → List UnresolvedCallArgument → Bool
  | [], [] => true
  | a :: as, b :: bs => sameArg a b && sameArgs as bs
  | _, _ => false

mutual
/-- equal, with expressions compared by value (and waveform parameters as maps) -/
def equivInstr : Instruction → Instruction → Bool
  | .arithmetic a, .arithmetic b => a == b
  | .binaryLogic a, .binaryLogic b => a == b
  | .calibrationDefinition i1 b1, .calibrationDefinition i2 b2 =>
    i1.modifiers == i2.modifiers && i1.name == i2.name && sameValues i1.parameters i2.parameters &&
      i1.qubits == i2.qubits && equivInstrs b1 b2
  | .call a, .call b => a.name == b.name && sameArgs a.arguments b.arguments
  | .capture a, .capture b =>
    a.blocking == b.blocking && a.frame == b.frame && a.memoryReference == b.memoryReference &&
      sameInvocation a.waveform b.waveform
  | .circuitDefinition n1 p1 q1 b1, .circuitDefinition n2 p2 q2 b2 =>
    n1 == n2 && p1 == p2 && q1 == q2 && equivInstrs b1 b2
  | .convert a, .convert b => a == b
  | .comparison a, .comparison b => a == b
  | .declaration a, .declaration b => a == b
  | .delay a, .delay b => sameValue a.duration b.duration && a.frameNames == b.frameNames && a.qubits == b.qubits
  | .exchange a, .exchange b => a == b
  | .fence a, .fence b => a == b
  | .frameDefinition a, .frameDefinition b => a.identifier == b.identifier && sameAttrs a.attributes b.attributes
  | .gate a, .gate b => sameGate a b
  | .gateDefinition a, .gateDefinition b =>
    a.name == b.name && a.parameters == b.parameters && sameSpec a.specification b.specification
  | .halt, .halt => true
  | .include a, .include b => a == b
  | .jump a, .jump b => a == b
  | .jumpUnless a, .jumpUnless b => a == b
  | .jumpWhen a, .jumpWhen b => a == b
  | .label a, .label b => a == b
  | .load a, .load b => a == b
  | .measureCalibrationDefinition i1 b1, .measureCalibrationDefinition i2 b2 => i1 == i2 && equivInstrs b1 b2
  | .measurement a, .measurement b => a == b
  | .move a, .move b => a == b
  | .nop, .nop => true
  | .pragma a, .pragma b => a == b
  | .pulse a, .pulse b => a.blocking == b.blocking && a.frame == b.frame && sameInvocation a.waveform b.waveform
  | .rawCapture a, .rawCapture b =>
    a.blocking == b.blocking && a.frame == b.frame && sameValue a.duration b.duration &&
      a.memoryReference == b.memoryReference
  | .reset a, .reset b => a == b
  | .setFrequency a, .setFrequency b => a.frame == b.frame && sameValue a.frequency b.frequency
  | .setPhase a, .setPhase b => a.frame == b.frame && sameValue a.phase b.phase
  | .setScale a, .setScale b => a.frame == b.frame && sameValue a.scale b.scale
  | .shiftFrequency a, .shiftFrequency b => a.frame == b.frame && sameValue a.frequency b.frequency
  | .shiftPhase a, .shiftPhase b => a.frame == b.frame && sameValue a.phase b.phase
  | .store a, .store b => a == b
  | .swapPhases a, .swapPhases b => a == b
  | .unaryLogic a, .unaryLogic b => a == b
  | .waveformDefinition a, .waveformDefinition b =>
    a.name == b.name && a.definition.parameters == b.definition.parameters &&
      sameValues a.definition.matrix b.definition.matrix
  | .wait, .wait => true
  | _, _ => false
def equivInstrs : List Instruction → List Instruction → Bool
  | [], [] => true
  | a :: as, b :: bs => equivInstr a b && equivInstrs as bs
  | _, _ => false
end

/-- program-level guard of the equivalence clause: no two calibrations whose keys are distinct as built become
the same key once their parameter expressions are printed and read back (`norm`).  `Program` keys its calibrations
by the identifier INCLUDING the parameter expressions, compared structurally, while the literal `-1.0` and the
prefix minus `-(1.0)` print alike: two such calibrations are one after the round trip (observation, see
docs/C04.md; `C04_counterexample_calibrationKeys`). -/
def calKeysStable (l : List Instruction) : Bool :=
  (l.filterMap fun i => match i with
    | .calibrationDefinition id _ => some ({ id with parameters := id.parameters.map QV.ExprPrint.norm } : CalibrationIdentifier)
    | _ => none).Nodup

end QV.C04
