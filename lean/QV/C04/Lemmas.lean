import QV.C04.Spec
import QV.C02.LemmasSubset3
import QV.Shared.ExprRoundTrip
/-!
C04 lemmas (core Lean only): printing fails exactly on placeholders (all 40 kinds, nested bodies included, by
mutual structural induction), and the bridge from `wellFormed ∧ no placeholder` to C02's `Parsed` predicate
for the kinds without expressions.
-/
namespace QV.C04
open QV QV.Tok QV.Ast QV.Parse QV.Print QV.ExprPrint QV.ExprRoundTrip QV.C02

theorem firstSome_eq_none {α : Type} (l : List (Option α)) : firstSome l = none ↔ ∀ x ∈ l, x = none := by
  induction l with
  | nil => simp [firstSome]
  | cons x xs ih =>
    cases x with
    | none => simp [firstSome, ih]
    | some a => simp [firstSome]

theorem qubitErr_none (q : Qubit) : qubitErr q = none ↔ qubitIsPh q = false := by
  cases q <;> simp [qubitErr, qubitIsPh]

theorem targetErr_none (t : Target) : targetErr t = none ↔ targetIsPh t = false := by
  cases t <;> simp [targetErr, targetIsPh]

theorem qubitsErr_none_iff (qs : List Qubit) : qubitsErr qs = none ↔ qs.any qubitIsPh = false := by
  simp only [qubitsErr, firstSome_eq_none, List.mem_map, forall_exists_index, and_imp,
    forall_apply_eq_imp_iff₂, qubitErr_none, List.any_eq_false]
  constructor
  · intro h q hq; simpa using h q hq
  · intro h q hq; simpa using h q hq

theorem frameErr_none (f : FrameIdentifier) : frameErr f = none ↔ f.qubits.any qubitIsPh = false :=
  qubitsErr_none_iff f.qubits

theorem gateErr_none (g : Gate) : gateErr g = none ↔ g.qubits.any qubitIsPh = false :=
  qubitsErr_none_iff g.qubits

theorem specErr_none (s : GateSpecification) :
    specErr s = none ↔ (match s with
      | .sequence q => q.gates.any fun x => x.qubits.any qubitIsPh
      | _ => false) = false := by
  cases s with
  | sequence q =>
    simp only [specErr, firstSome_eq_none, List.mem_map, forall_exists_index, and_imp,
      forall_apply_eq_imp_iff₂, gateErr_none, List.any_eq_false]
    constructor
    · intro h g hg; simpa using h g hg
    · intro h g hg; simpa using h g hg
  | _ => simp [specErr]

mutual
theorem firstErr_none_iff (i : Instruction) : firstErr i = none ↔ hasPlaceholder i = false := by
  cases i with
  | calibrationDefinition id body =>
    simp only [firstErr, hasPlaceholder, firstSome_eq_none, List.mem_cons, List.not_mem_nil, or_false,
      forall_eq_or_imp, forall_eq, Bool.or_eq_false_iff, qubitsErr_none_iff, firstErrList_none_iff body]
  | measureCalibrationDefinition id body =>
    simp only [firstErr, hasPlaceholder, firstSome_eq_none, List.mem_cons, List.not_mem_nil, or_false,
      forall_eq_or_imp, forall_eq, Bool.or_eq_false_iff, qubitErr_none, firstErrList_none_iff body]
  | circuitDefinition n ps qs body => simp only [firstErr, hasPlaceholder, firstErrList_none_iff body]
  | capture c => simp only [firstErr, hasPlaceholder, frameErr_none]
  | delay d => simp only [firstErr, hasPlaceholder, qubitsErr_none_iff]
  | fence d => simp only [firstErr, hasPlaceholder, qubitsErr_none_iff]
  | frameDefinition d => simp only [firstErr, hasPlaceholder, frameErr_none]
  | gate d => simp only [firstErr, hasPlaceholder, gateErr_none]
  | gateDefinition d =>
    obtain ⟨n, ps, spec⟩ := d
    cases spec with
    | sequence q =>
      have := specErr_none (.sequence q)
      simpa only [firstErr, hasPlaceholder] using this
    | _ => simp [firstErr, hasPlaceholder, specErr]
  | jump d => simp only [firstErr, hasPlaceholder, targetErr_none]
  | jumpUnless d => simp only [firstErr, hasPlaceholder, targetErr_none]
  | jumpWhen d => simp only [firstErr, hasPlaceholder, targetErr_none]
  | label d => simp only [firstErr, hasPlaceholder, targetErr_none]
  | measurement d => simp only [firstErr, hasPlaceholder, qubitErr_none]
  | pulse d => simp only [firstErr, hasPlaceholder, frameErr_none]
  | rawCapture d => simp only [firstErr, hasPlaceholder, frameErr_none]
  | reset d =>
    obtain ⟨q⟩ := d
    cases q with
    | none => simp [firstErr, hasPlaceholder]
    | some q => simp only [firstErr, hasPlaceholder, qubitErr_none]
  | setFrequency d => simp only [firstErr, hasPlaceholder, frameErr_none]
  | setPhase d => simp only [firstErr, hasPlaceholder, frameErr_none]
  | setScale d => simp only [firstErr, hasPlaceholder, frameErr_none]
  | shiftFrequency d => simp only [firstErr, hasPlaceholder, frameErr_none]
  | shiftPhase d => simp only [firstErr, hasPlaceholder, frameErr_none]
  | swapPhases d =>
    simp only [firstErr, hasPlaceholder, firstSome_eq_none, List.mem_cons, List.not_mem_nil, or_false,
      forall_eq_or_imp, forall_eq, Bool.or_eq_false_iff, frameErr_none]
  | _ => simp [firstErr, hasPlaceholder]
theorem firstErrList_none_iff (l : List Instruction) : firstErrList l = none ↔ hasPlaceholders l = false := by
  cases l with
  | nil => simp [firstErrList, hasPlaceholders]
  | cons i rest =>
    simp only [firstErrList, hasPlaceholders, firstSome_eq_none, List.mem_cons, List.not_mem_nil, or_false,
      forall_eq_or_imp, forall_eq, Bool.or_eq_false_iff, firstErr_none_iff i, firstErrList_none_iff rest]
end


/-! ## from well-formed, placeholder-free to `Parsed` (kinds without expressions) -/

/-- the kinds of `QV.C02.provedKind` that contain no expression -/
def plainKind : Instruction → Bool
  | .arithmetic _ | .binaryLogic _ | .comparison _ | .convert _ | .exchange _ | .move _ | .load _
  | .store _ | .unaryLogic _ | .halt | .nop | .wait | .jump _ | .jumpWhen _ | .jumpUnless _ | .label _
  | .include _ | .declaration _ | .fence _ | .reset _ | .measurement _ | .pragma _ | .swapPhases _ => true
  | _ => false

theorem plainKind_provedKind {i : Instruction} (h : plainKind i = true) : lineKind i = true := by
  cases i <;> simp_all [plainKind, lineKind]

theorem noPlaceholder_of (q : Qubit) (hw : qubitOk q = true) (hp : qubitIsPh q = false) :
    noPlaceholder q = true := by
  cases q with
  | fixed n => rfl
  | placeholder k => simp [qubitIsPh] at hp
  | «variable» s =>
    simp only [qubitOk, identName, Bool.and_eq_true, Bool.not_eq_true'] at hw
    simp [noPlaceholder, hw.2]

theorem all_noPlaceholder_of (qs : List Qubit) (hw : qs.all qubitOk = true) (hp : qs.any qubitIsPh = false) :
    qs.all noPlaceholder = true := by
  rw [List.all_eq_true] at hw ⊢
  rw [List.any_eq_false] at hp
  intro q hq
  exact noPlaceholder_of q (hw q hq) (by simpa using hp q hq)

theorem frameOk_of (f : FrameIdentifier) (hw : QV.C04.frameOk f = true) (hp : f.qubits.any qubitIsPh = false) :
    QV.C02.frameOk f = true := by
  simp only [QV.C04.frameOk, Bool.and_eq_true] at hw
  simp only [QV.C02.frameOk, Bool.and_eq_true]
  exact ⟨hw.1, all_noPlaceholder_of _ hw.2 hp⟩

theorem fixedTarget_of (t : Target) (hp : targetIsPh t = false) : fixedTarget t = true := by
  cases t <;> simp_all [targetIsPh, fixedTarget]

theorem arithOperandOk_of (o : ArithmeticOperand) (h : arithOk o = true) : arithOperandOk o = true := by
  cases o <;> simp_all [arithOk, arithOperandOk, QV.C04.i64Ok, QV.C02.i64Ok]
theorem compOperandOk_of (o : ComparisonOperand) (h : compOk o = true) : compOperandOk o = true := by
  cases o <;> simp_all [compOk, compOperandOk, QV.C04.i64Ok, QV.C02.i64Ok]
theorem binOperandOk_of (o : BinaryOperand) (h : binOk o = true) : binOperandOk o = true := by
  cases o <;> simp_all [binOk, binOperandOk, QV.C04.i64Ok, QV.C02.i64Ok]

/-- a well-formed, placeholder-free instruction of a plain kind satisfies C02's `Parsed` -/
theorem parsedInstr_of_wellFormed (i : Instruction) (hw : wellFormed i = true)
    (hp : hasPlaceholder i = false) (hk : plainKind i = true) : parsedInstr i = true := by
  cases i with
  | arithmetic a => simp only [wellFormed, Bool.and_eq_true] at hw; exact arithOperandOk_of _ hw.2
  | binaryLogic a => simp only [wellFormed, Bool.and_eq_true] at hw; exact binOperandOk_of _ hw.2
  | comparison a => simp only [wellFormed, Bool.and_eq_true] at hw; exact compOperandOk_of _ hw.2
  | move a => simp only [wellFormed, Bool.and_eq_true] at hw; exact arithOperandOk_of _ hw.2
  | store a => simp only [wellFormed, Bool.and_eq_true] at hw; exact arithOperandOk_of _ hw.2
  | jump a => exact fixedTarget_of _ (by simpa [hasPlaceholder] using hp)
  | jumpWhen a => exact fixedTarget_of _ (by simpa [hasPlaceholder] using hp)
  | jumpUnless a => exact fixedTarget_of _ (by simpa [hasPlaceholder] using hp)
  | label a => exact fixedTarget_of _ (by simpa [hasPlaceholder] using hp)
  | fence a =>
    simp only [wellFormed] at hw; simp only [hasPlaceholder] at hp
    exact all_noPlaceholder_of _ hw hp
  | reset a =>
    obtain ⟨q⟩ := a
    cases q with
    | none => rfl
    | some q =>
      simp only [wellFormed] at hw; simp only [hasPlaceholder] at hp
      exact noPlaceholder_of q hw hp
  | measurement a =>
    simp only [wellFormed, Bool.and_eq_true] at hw; simp only [hasPlaceholder] at hp
    exact noPlaceholder_of _ hw.1.2 hp
  | swapPhases a =>
    simp only [wellFormed, Bool.and_eq_true] at hw
    simp only [hasPlaceholder, Bool.or_eq_false_iff] at hp
    simp only [parsedInstr, Bool.and_eq_true]
    exact ⟨frameOk_of _ hw.1 hp.1, frameOk_of _ hw.2 hp.2⟩
  | _ => first | rfl | (simp [plainKind] at hk)

/-! ## kinds with expressions: read back in normal form -/

/-- the ONE-LINE kinds for which the API round trip is proved: the plain kinds and the ones with expressions
(34 kinds; the shapes of the C02 known finding `number-then-name-i` excluded) -/
def apiLineKind : Instruction → Bool
  | .gate _ | .setFrequency _ | .setPhase _ | .setScale _ | .shiftFrequency _ | .shiftPhase _
  | .delay _ | .capture _ | .pulse _ => true
  | .call c => chainOk none c.arguments
  | .rawCapture r => r.memoryReference.name != "i"
  | i => plainKind i

/-- what a printed instruction of an `apiLineKind` parses back to: every expression `e` replaced by `norm e`
(`QV.ExprPrint.norm`: a negative literal becomes a prefix minus on its magnitude, a complex literal a sum,
prefix plus disappears — all value-preserving, `QV.ExprRoundTrip.eval_norm`) -/
def normLine : Instruction → Instruction
  | .gate g => .gate { g with parameters := g.parameters.map norm }
  | .setFrequency s => .setFrequency ⟨s.frame, norm s.frequency⟩
  | .setPhase s => .setPhase ⟨s.frame, norm s.phase⟩
  | .setScale s => .setScale ⟨s.frame, norm s.scale⟩
  | .shiftFrequency s => .shiftFrequency ⟨s.frame, norm s.frequency⟩
  | .shiftPhase s => .shiftPhase ⟨s.frame, norm s.phase⟩
  | .delay d => .delay { d with duration := norm d.duration }
  | .rawCapture r => .rawCapture { r with duration := norm r.duration }
  | .capture c => .capture { c with waveform := normInvocation c.waveform }
  | .pulse p => .pulse { p with waveform := normInvocation p.waveform }
  | i => i

theorem slotOf_normLine (i : Instruction) : slotOf (normLine i) = slotOf i := by
  cases i <;> simp [normLine, slotOf]

theorem exprOk_finiteLits (e : PExpr) (h : exprOk e = true) : finiteLits e = true := by
  unfold finiteLits
  induction e with
  | address r => rfl
  | call f e ih => simp only [exprOk] at h; simp [allLits, ih h]
  | bin l o r ihl ihr =>
    simp only [exprOk, Bool.and_eq_true] at h
    simp [allLits, ihl h.1, ihr h.2]
  | number z => simpa [exprOk, allLits] using h
  | pi => rfl
  | pre o e ih => simp only [exprOk] at h; simp [allLits, ih h]
  | var x => rfl

theorem all_finiteLits (ps : List PExpr) (h : ps.all exprOk = true) : ps.all finiteLits = true := by
  rw [List.all_eq_true] at h ⊢
  intro e he
  exact exprOk_finiteLits e (h e he)

theorem invOk_of_wellFormed (F : NumFmt) (w : WaveformInvocation) (hw : QV.C04.invocationOk w = true)
    (hn : (w.parameters.all fun kv => numTokOk F kv.2) = true) : InvOk F w := by
  simp only [QV.C04.invocationOk, Bool.and_eq_true, distinctKeys, decide_eq_true_eq] at hw
  refine ⟨hw.1.1.2, hw.1.2, ?_, fun kv hkv => List.all_eq_true.mp hn kv hkv⟩
  intro kv hkv
  have := List.all_eq_true.mp hw.2 kv hkv
  simp only [Bool.and_eq_true] at this
  exact exprOk_finiteLits _ this.2

theorem chainOk_of (a : UnresolvedCallArgument) (rest : List UnresolvedCallArgument)
    (h : callNumberThenI (a :: rest) = false) : chainOk (some a) rest = true := by
  induction rest generalizing a with
  | nil => rfl
  | cons b rest ih =>
    cases a with
    | immediate z =>
      simp only [callNumberThenI, Bool.or_eq_false_iff] at h
      simp only [chainOk, Bool.and_eq_true, Bool.not_eq_true']
      refine ⟨?_, ih b h.2⟩
      have h1 := h.1
      cases b <;> simp_all [isRealImm, namedI]
    | identifier s =>
      simp only [callNumberThenI] at h
      simp only [chainOk, Bool.and_eq_true, Bool.not_eq_true']
      exact ⟨by simp [isRealImm], ih b h⟩
    | memoryReference r =>
      simp only [callNumberThenI] at h
      simp only [chainOk, Bool.and_eq_true, Bool.not_eq_true']
      exact ⟨by simp [isRealImm], ih b h⟩

theorem chainOk_none_of (args : List UnresolvedCallArgument) (h : callNumberThenI args = false) :
    chainOk none args = true := by
  cases args with
  | nil => rfl
  | cons a rest =>
    simp only [chainOk, Bool.and_eq_true, Bool.not_eq_true']
    exact ⟨by simp [isRealImm], chainOk_of a rest h⟩

/-- the per-kind lemmas, dispatched for API-built instructions -/
theorem rt_of_apiLineKind (F : NumFmt) (d : Nat) (i : Instruction) (hw : wellFormed i = true)
    (hp : hasPlaceholder i = false) (hk : apiLineKind i = true) (hn : numTokInstr F i = true)
    (hd : (toks F i).length ≤ d) : RT F d i (normLine i) := by
  cases i with
  | gate g =>
    simp only [wellFormed, QV.C04.gateOk, Bool.and_eq_true] at hw
    simp only [hasPlaceholder] at hp
    simp only [numTokInstr] at hn
    exact rt_gate_norm F d g (all_finiteLits _ hw.1.2) (all_noPlaceholder_of _ hw.2 hp) hn hd
  | setFrequency s =>
    obtain ⟨f, e⟩ := s
    simp only [wellFormed, Bool.and_eq_true] at hw
    simp only [hasPlaceholder] at hp
    simp only [numTokInstr] at hn
    exact rt_setFrequency_norm F d f e (frameOk_of f hw.1 hp) (exprOk_finiteLits e hw.2) hn hd
  | setPhase s =>
    obtain ⟨f, e⟩ := s
    simp only [wellFormed, Bool.and_eq_true] at hw
    simp only [hasPlaceholder] at hp
    simp only [numTokInstr] at hn
    exact rt_setPhase_norm F d f e (frameOk_of f hw.1 hp) (exprOk_finiteLits e hw.2) hn hd
  | setScale s =>
    obtain ⟨f, e⟩ := s
    simp only [wellFormed, Bool.and_eq_true] at hw
    simp only [hasPlaceholder] at hp
    simp only [numTokInstr] at hn
    exact rt_setScale_norm F d f e (frameOk_of f hw.1 hp) (exprOk_finiteLits e hw.2) hn hd
  | shiftFrequency s =>
    obtain ⟨f, e⟩ := s
    simp only [wellFormed, Bool.and_eq_true] at hw
    simp only [hasPlaceholder] at hp
    simp only [numTokInstr] at hn
    exact rt_shiftFrequency_norm F d f e (frameOk_of f hw.1 hp) (exprOk_finiteLits e hw.2) hn hd
  | shiftPhase s =>
    obtain ⟨f, e⟩ := s
    simp only [wellFormed, Bool.and_eq_true] at hw
    simp only [hasPlaceholder] at hp
    simp only [numTokInstr] at hn
    exact rt_shiftPhase_norm F d f e (frameOk_of f hw.1 hp) (exprOk_finiteLits e hw.2) hn hd
  | delay dl =>
    simp only [wellFormed, Bool.and_eq_true] at hw
    simp only [hasPlaceholder] at hp
    simp only [numTokInstr, Bool.and_eq_true] at hn
    exact rt_delay_norm F d dl (all_noPlaceholder_of _ hw.2 hp) (exprOk_finiteLits _ hw.1) hn.1 hn.2 hd
  | call c =>
    simp only [wellFormed, Bool.and_eq_true, Bool.not_eq_true'] at hw
    simp only [numTokInstr] at hn
    have hok : c.arguments.all (callArgOkP F) = true := by
      rw [List.all_eq_true] at hn ⊢
      intro a ha
      have h1 := List.all_eq_true.mp hw.1.2 a ha
      have h2 := hn a ha
      cases a with
      | immediate z =>
        simp only [QV.C04.callArgOk, Bool.and_eq_true] at h1
        simp only at h2
        simp [callArgOkP, immOk, h1.1, h1.2, h2]
      | _ => rfl
    have := rt_call F d c hok (chainOk_none_of _ hw.2)
    simpa [normLine] using this
  | capture c =>
    simp only [wellFormed, Bool.and_eq_true] at hw
    simp only [hasPlaceholder] at hp
    simp only [numTokInstr] at hn
    exact rt_capture_norm F d c (frameOk_of _ hw.1.1 hp) (invOk_of_wellFormed F _ hw.1.2 hn) hd
  | pulse c =>
    simp only [wellFormed, Bool.and_eq_true] at hw
    simp only [hasPlaceholder] at hp
    simp only [numTokInstr] at hn
    exact rt_pulse_norm F d c (frameOk_of _ hw.1 hp) (invOk_of_wellFormed F _ hw.2 hn) hd
  | rawCapture r =>
    simp only [wellFormed, Bool.and_eq_true, bne_iff_ne, ne_eq] at hw
    simp only [hasPlaceholder] at hp
    simp only [numTokInstr] at hn
    exact rt_rawCapture_norm F d r (frameOk_of _ hw.1.1.1 hp) (exprOk_finiteLits _ hw.1.1.2) hn hw.2 hd
  | _ =>
    all_goals
      first
      | (simp [apiLineKind, plainKind] at hk; done)
      | (exact rt_of_lineKind F d _ (parsedInstr_of_wellFormed _ hw hp (by simpa [apiLineKind] using hk))
          (plainKind_provedKind (by simpa [apiLineKind] using hk)) hn hd)

theorem apiLineKind_lineKind {i : Instruction} (h : apiLineKind i = true) : lineKind i = true := by
  cases i <;> simp_all [apiLineKind, plainKind, lineKind]

theorem hasPlaceholders_false (L : List Instruction) (h : ∀ i ∈ L, hasPlaceholder i = false) :
    hasPlaceholders L = false := by
  induction L with
  | nil => rfl
  | cons i L ih =>
    simp [hasPlaceholders, h i (by simp), ih (fun j hj => h j (by simp [hj]))]

/-! ## the six definition kinds -/

theorem wellFormeds_eq_all (l : List Instruction) : wellFormeds l = l.all wellFormed := by
  induction l with
  | nil => simp [wellFormeds]
  | cons i l ih => simp [wellFormeds, ih]

theorem hasPlaceholders_eq_any (l : List Instruction) : hasPlaceholders l = l.any hasPlaceholder := by
  induction l with
  | nil => simp [hasPlaceholders]
  | cons i l ih => simp [hasPlaceholders, ih]

/-- a well-formed instruction that may stand in a body is one of the 34 one-line kinds -/
theorem apiLineKind_of_bodyKind (i : Instruction) (hw : wellFormed i = true) (hb : bodyKind i = true) :
    apiLineKind i = true := by
  cases i with
  | call c =>
    simp only [wellFormed, Bool.and_eq_true, Bool.not_eq_true'] at hw
    exact chainOk_none_of _ hw.2
  | rawCapture r =>
    simp only [wellFormed, Bool.and_eq_true] at hw
    exact hw.2
  | _ => first | rfl | (simp [bodyKind] at hb)

/-- the API round trip is proved for ALL 40 kinds; the one guard beyond `wellFormed`: a DEFWAVEFORM name of the
form `name` / `name/extension` with non-empty slash-free parts (`wfNameOk`; the constructors do not check it).
(Bodies of one-line kinds, no known-finding shapes: already part of `wellFormed`.) -/
def apiKind : Instruction → Bool
  | .waveformDefinition w => wfNameOk w.name
  | .frameDefinition _ => true
  | .calibrationDefinition _ _ => true
  | .measureCalibrationDefinition _ _ => true
  | .circuitDefinition _ _ _ _ => true
  | .gateDefinition _ => true
  | i => apiLineKind i

/-- what a printed instruction parses back to: every expression `e` replaced by `norm e`, waveform-invocation
parameters sorted by key -/
def normInstr : Instruction → Instruction
  | .waveformDefinition w => .waveformDefinition ⟨w.name, ⟨w.definition.matrix.map norm, w.definition.parameters⟩⟩
  | .frameDefinition f => .frameDefinition ⟨f.identifier, f.attributes.map normAttr⟩
  | .calibrationDefinition id body =>
    .calibrationDefinition { id with parameters := id.parameters.map norm } (body.map normLine)
  | .measureCalibrationDefinition id body => .measureCalibrationDefinition id (body.map normLine)
  | .circuitDefinition n ps qs body => .circuitDefinition n ps qs (body.map normLine)
  | .gateDefinition g => .gateDefinition ⟨g.name, g.parameters, normSpec g.specification⟩
  | i => normLine i

theorem normInstr_of_apiLineKind (i : Instruction) (h : apiLineKind i = true) : normInstr i = normLine i := by
  cases i <;> first | rfl | (simp [apiLineKind, plainKind] at h)

/-- normalisation keeps the container key of everything but a DEFCAL with non-normal parameters (the key of a
calibration CONTAINS its parameter expressions) -/
theorem slotOf_normInstr (i : Instruction)
    (h : ∀ id body, i = .calibrationDefinition id body → id.parameters.map norm = id.parameters) :
    slotOf (normInstr i) = slotOf i := by
  cases i with
  | calibrationDefinition id body =>
    have := h id body rfl
    simp [normInstr, slotOf, this]
  | waveformDefinition w => rfl
  | frameDefinition f => rfl
  | measureCalibrationDefinition id body => rfl
  | circuitDefinition n ps qs body => rfl
  | gateDefinition g => rfl
  | _ => simp only [normInstr]; exact slotOf_normLine _

theorem body_facts (body : List Instruction) (hw : wellFormeds body = true) (hb : body.all bodyKind = true)
    (hp : hasPlaceholders body = false) :
    ∀ i ∈ body, wellFormed i = true ∧ hasPlaceholder i = false ∧ apiLineKind i = true := by
  rw [wellFormeds_eq_all] at hw
  rw [hasPlaceholders_eq_any, List.any_eq_false] at hp
  intro i hi
  have h1 := List.all_eq_true.mp hw i hi
  exact ⟨h1, by simpa using hp i hi, apiLineKind_of_bodyKind i h1 (List.all_eq_true.mp hb i hi)⟩

theorem specApiOk_of_wellFormed (spec : GateSpecification) (hw : QV.C04.specOk spec = true)
    (name : String) (ps : List String) (hp : hasPlaceholder (.gateDefinition ⟨name, ps, spec⟩) = false) :
    specApiOk spec = true := by
  cases spec with
  | matrix rows =>
    simp only [QV.C04.specOk, Bool.and_eq_true] at hw
    simp only [specApiOk, Bool.and_eq_true]
    refine ⟨hw.1, ?_⟩
    rw [List.all_eq_true]
    intro r hr
    exact all_finiteLits r (List.all_eq_true.mp hw.2 r hr)
  | permutation p =>
    simp only [QV.C04.specOk, Bool.and_eq_true] at hw
    exact hw.1
  | pauliSum s =>
    simp only [QV.C04.specOk, Bool.and_eq_true] at hw
    simp only [specApiOk, Bool.and_eq_true]
    refine ⟨hw.1.2, ?_⟩
    rw [List.all_eq_true]
    intro t ht
    have := List.all_eq_true.mp hw.2 t ht
    simp only [Bool.and_eq_true] at this ⊢
    exact ⟨⟨this.1.1, exprOk_finiteLits _ this.1.2⟩, this.2⟩
  | sequence s =>
    simp only [QV.C04.specOk, Bool.and_eq_true] at hw
    simp only [hasPlaceholder] at hp
    rw [List.any_eq_false] at hp
    simp only [specApiOk, Bool.and_eq_true]
    refine ⟨⟨hw.1.1.1, hw.1.2⟩, ?_⟩
    rw [List.all_eq_true]
    intro g hg
    have h1 := List.all_eq_true.mp hw.2 g hg
    rw [Bool.and_eq_true] at h1
    have hg1 := h1.1
    simp only [QV.C04.gateOk, Bool.and_eq_true] at hg1
    rw [Bool.and_eq_true, Bool.and_eq_true]
    exact ⟨⟨all_finiteLits _ hg1.1.2, all_noPlaceholder_of _ hg1.2 (by simpa using hp g hg)⟩, h1.2⟩

theorem body_all_lineKind (body : List Instruction) (h1 : wellFormeds body = true)
    (h2 : body.all bodyKind = true) (h3 : hasPlaceholders body = false) : body.all lineKind = true := by
  rw [List.all_eq_true]
  intro j hj
  exact apiLineKind_lineKind (body_facts body h1 h2 h3 j hj).2.2

/-- an API-built instruction of the proved kinds lies in C02's `provedKind` -/
theorem provedKind_of_api (i : Instruction) (hw : wellFormed i = true) (hp : hasPlaceholder i = false)
    (hk : apiKind i = true) : provedKind i = true := by
  have hbody : ∀ body : List Instruction, wellFormeds body = true → body.all bodyKind = true →
      hasPlaceholders body = false → body.all lineKind = true := by
    intro body h1 h2 h3
    rw [List.all_eq_true]
    intro j hj
    exact apiLineKind_lineKind (body_facts body h1 h2 h3 j hj).2.2
  cases i with
  | waveformDefinition w => rfl
  | frameDefinition f => rfl
  | calibrationDefinition id body =>
    simp only [wellFormed, Bool.and_eq_true] at hw
    simp only [hasPlaceholder, Bool.or_eq_false_iff] at hp
    have := hbody body hw.2 hw.1.2 hp.2
    simp [provedKind, blockKind, defKind, this]
  | measureCalibrationDefinition id body =>
    simp only [wellFormed, Bool.and_eq_true] at hw
    simp only [hasPlaceholder, Bool.or_eq_false_iff] at hp
    have := bodyOk1_of_all_lineKind (hbody body hw.2 hw.1.2 hp.2)
    simp [provedKind, nlKind, this]
  | circuitDefinition n ps qs body =>
    simp only [wellFormed, Bool.and_eq_true] at hw
    simp only [hasPlaceholder] at hp
    have := bodyOk1_of_all_lineKind (hbody body hw.2 hw.1.2 hp)
    simp [provedKind, nlKind, this]
  | gateDefinition g =>
    obtain ⟨name, ps, spec⟩ := g
    simp only [wellFormed, Bool.and_eq_true] at hw
    have hs := specApiOk_of_wellFormed spec hw.2 name ps hp
    have : gateSpecKind spec = true := by
      cases spec with
      | sequence s =>
        simp only [specApiOk, Bool.and_eq_true] at hs
        simp only [gateSpecKind]
        rw [List.all_eq_true]
        intro g hg
        have := List.all_eq_true.mp hs.2 g hg
        rw [Bool.and_eq_true, Bool.and_eq_true] at this
        exact this.1.2
      | _ => rfl
    simp [provedKind, nlKind, this]
  | _ =>
    all_goals
      exact provedKind_of_lineKind (apiLineKind_lineKind (by simpa [apiKind] using hk))

theorem shapeOk_of_api (F : NumFmt) (i : Instruction) (hw : wellFormed i = true) (hp : hasPlaceholder i = false)
    (hk : apiKind i = true) : shapeOk F i = true := by
  cases i with
  | calibrationDefinition id body =>
    simp only [wellFormed, Bool.and_eq_true] at hw; exact hw.1.1.2
  | measureCalibrationDefinition id body =>
    simp only [wellFormed, Bool.and_eq_true] at hw; exact hw.1.1.2
  | circuitDefinition n ps qs body =>
    simp only [wellFormed, Bool.and_eq_true] at hw; exact hw.1.1.2
  | gateDefinition g =>
    obtain ⟨name, ps, spec⟩ := g
    simp only [wellFormed, Bool.and_eq_true] at hw
    have := specLineList_ne' F spec (specApiOk_of_wellFormed spec hw.2 name ps hp)
    simpa [shapeOk] using this
  | _ => rfl

theorem numTok_body (F : NumFmt) (body : List Instruction) (h : numTokInstrs F body = true) :
    ∀ i ∈ body, numTokInstr F i = true := by
  rw [numTokInstrs_eq_all] at h
  exact fun i hi => List.all_eq_true.mp h i hi

theorem rt_of_apiKind_line (F : NumFmt) (d : Nat) (i : Instruction) (hw : wellFormed i = true)
    (hp : hasPlaceholder i = false) (hl : apiLineKind i = true) (hn : numTokInstr F i = true)
    (hd : (lineToks F i).length ≤ d) : RTtopL (lineToks F i) d (normInstr i) := by
  have e := lineToks_of_blockKind F _ (blockKind_of_lineKind (apiLineKind_lineKind hl)) hn
  rw [e] at hd ⊢
  rw [normInstr_of_apiLineKind _ hl]
  exact (rt_of_apiLineKind F d _ hw hp hl hn hd).top.toL

/-- the per-kind lemmas, dispatched for API-built instructions of ALL kinds, for the line tokens -/
theorem rt_of_apiKind (F : NumFmt) (d : Nat) (i : Instruction) (hw : wellFormed i = true)
    (hp : hasPlaceholder i = false) (hk : apiKind i = true) (hn : numTokInstr F i = true)
    (hd : (lineToks F i).length ≤ d) : RTtopL (lineToks F i) d (normInstr i) := by
  have hpk := provedKind_of_api i hw hp hk
  have hbodyRT : ∀ body : List Instruction, wellFormeds body = true → body.all bodyKind = true →
      hasPlaceholders body = false → numTokInstrs F body = true →
      ∀ d', ∀ j ∈ body, (toks F j).length ≤ d' → RT F d' j (normLine j) := by
    intro body h1 h2 h3 h4 d' j hj hl
    obtain ⟨a, b, c⟩ := body_facts body h1 h2 h3 j hj
    exact rt_of_apiLineKind F d' j a b c (numTok_body F body h4 j hj) hl
  cases i with
  | waveformDefinition w =>
    have e := lineToks_of_blockKind F (.waveformDefinition w) rfl hn
    rw [e] at hd ⊢
    simp only [wellFormed, Bool.and_eq_true, Bool.not_eq_true', List.isEmpty_eq_false_iff] at hw
    simp only [numTokInstr] at hn
    exact (rt_waveformDefinition_norm F d w hk hw.1.2
      (fun x hx => exprOk_finiteLits x (List.all_eq_true.mp hw.2 x hx))
      (fun x hx => List.all_eq_true.mp hn x hx) hd).top.toL
  | frameDefinition f =>
    have e := lineToks_of_blockKind F (.frameDefinition f) rfl hn
    rw [e] at hd ⊢
    simp only [wellFormed, Bool.and_eq_true, Bool.not_eq_true', List.isEmpty_eq_false_iff, distinctKeys,
      decide_eq_true_eq] at hw
    simp only [hasPlaceholder] at hp
    simp only [numTokInstr] at hn
    exact (rt_frameDefinition_norm F d f (frameOk_of _ hw.1.1.1 hp) hw.1.1.2 hw.1.2
      (fun kv hkv => by
        have := List.all_eq_true.mp hw.2 kv hkv
        rw [Bool.and_eq_true] at this
        cases hv : kv.2 with
        | string s => rfl
        | expression x =>
          have h2 := this.2
          rw [hv] at h2
          exact exprOk_finiteLits x h2)
      (fun kv hkv => by
        have := List.all_eq_true.mp hn kv hkv
        cases hv : kv.2 with
        | string s => rfl
        | expression x => rw [hv] at this; exact this) hd).toL
  | calibrationDefinition id body =>
    simp only [wellFormed, Bool.and_eq_true, Bool.not_eq_true', List.isEmpty_eq_false_iff] at hw
    simp only [hasPlaceholder, Bool.or_eq_false_iff] at hp
    have hbk : blockKind (.calibrationDefinition id body) = true := by
      simp [blockKind, defKind, lineKind, body_all_lineKind body hw.2 hw.1.2 hp.2]
    have e := lineToks_of_blockKind F _ hbk hn
    rw [e] at hd ⊢
    simp only [numTokInstr, Bool.and_eq_true] at hn
    exact (rt_cal_of F d id body normLine (all_finiteLits _ hw.1.1.1.1.2)
      (all_noPlaceholder_of _ hw.1.1.1.2 hp.1) hn.1 hw.1.1.2
      (hbodyRT body hw.2 hw.1.2 hp.2 hn.2) hd).toL
  | measureCalibrationDefinition id body =>
    simp only [wellFormed, Bool.and_eq_true, Bool.not_eq_true', List.isEmpty_eq_false_iff] at hw
    simp only [hasPlaceholder, Bool.or_eq_false_iff] at hp
    simp only [numTokInstr] at hn
    exact rt_measureCal_of F d id body normLine (noPlaceholder_of _ hw.1.1.1.1.2 hp.1) hw.1.1.2
      (hbodyRT body hw.2 hw.1.2 hp.2 hn) hd
  | circuitDefinition n ps qs body =>
    simp only [wellFormed, Bool.and_eq_true, Bool.not_eq_true', List.isEmpty_eq_false_iff] at hw
    simp only [hasPlaceholder] at hp
    simp only [numTokInstr] at hn
    have hqv : qs.all (fun s => !isReservedWord s.toList) = true := by
      rw [List.all_eq_true]
      intro s hs
      have := List.all_eq_true.mp hw.1.1.1.2 s hs
      simp only [identName, Bool.and_eq_true] at this
      exact this.2
    exact rt_circuit_of F d n ps qs body normLine hqv hw.1.1.2 (hbodyRT body hw.2 hw.1.2 hp hn) hd
  | gateDefinition g =>
    obtain ⟨name, ps, spec⟩ := g
    simp only [wellFormed, Bool.and_eq_true] at hw
    simp only [numTokInstr] at hn
    exact rt_gateDefinition_norm F d ⟨name, ps, spec⟩ (specApiOk_of_wellFormed spec hw.2 name ps hp) hn hd
  | _ =>
    all_goals exact rt_of_apiKind_line F d _ hw hp (by simpa [apiKind] using hk) hn hd

end QV.C04
