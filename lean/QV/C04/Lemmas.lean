import QV.C04.Spec
import QV.C02.LemmasSubset
import QV.Shared.ExprRoundTrip
/-!
C04 lemmas (core Lean only): printing fails exactly on placeholders (all 40 kinds, nested bodies included, by
mutual structural induction), and the bridge from `wellFormed ∧ no placeholder` to C02's `Parsed` predicate
for the kinds without expressions.
-/
namespace QV.C04
open QV QV.Tok QV.Ast QV.Parse QV.Print QV.ExprPrint QV.ExprRoundTrip QV.C02

theorem firstSome_eq_none {α : Type} (l : List (Option α)) : firstSome l = none ↔ ∀ x ∈ l, x = none := by
  induction l with
  | nil => simp [firstSome]
  | cons x xs ih =>
    cases x with
    | none => simp [firstSome, ih]
    | some a => simp [firstSome]

theorem qubitErr_none (q : Qubit) : qubitErr q = none ↔ qubitIsPh q = false := by
  cases q <;> simp [qubitErr, qubitIsPh]

theorem targetErr_none (t : Target) : targetErr t = none ↔ targetIsPh t = false := by
  cases t <;> simp [targetErr, targetIsPh]

theorem qubitsErr_none_iff (qs : List Qubit) : qubitsErr qs = none ↔ qs.any qubitIsPh = false := by
  simp only [qubitsErr, firstSome_eq_none, List.mem_map, forall_exists_index, and_imp,
    forall_apply_eq_imp_iff₂, qubitErr_none, List.any_eq_false]
  constructor
  · intro h q hq; simpa using h q hq
  · intro h q hq; simpa using h q hq

theorem frameErr_none (f : FrameIdentifier) : frameErr f = none ↔ f.qubits.any qubitIsPh = false :=
  qubitsErr_none_iff f.qubits

theorem gateErr_none (g : Gate) : gateErr g = none ↔ g.qubits.any qubitIsPh = false :=
  qubitsErr_none_iff g.qubits

theorem specErr_none (s : GateSpecification) :
    specErr s = none ↔ (match s with
      | .sequence q => q.gates.any fun x => x.qubits.any qubitIsPh
      | _ => false) = false := by
  cases s with
  | sequence q =>
    simp only [specErr, firstSome_eq_none, List.mem_map, forall_exists_index, and_imp,
      forall_apply_eq_imp_iff₂, gateErr_none, List.any_eq_false]
    constructor
    · intro h g hg; simpa using h g hg
    · intro h g hg; simpa using h g hg
  | _ => simp [specErr]

mutual
theorem firstErr_none_iff (i : Instruction) : firstErr i = none ↔ hasPlaceholder i = false := by
  cases i with
  | calibrationDefinition id body =>
    simp only [firstErr, hasPlaceholder, firstSome_eq_none, List.mem_cons, List.not_mem_nil, or_false,
      forall_eq_or_imp, forall_eq, Bool.or_eq_false_iff, qubitsErr_none_iff, firstErrList_none_iff body]
  | measureCalibrationDefinition id body =>
    simp only [firstErr, hasPlaceholder, firstSome_eq_none, List.mem_cons, List.not_mem_nil, or_false,
      forall_eq_or_imp, forall_eq, Bool.or_eq_false_iff, qubitErr_none, firstErrList_none_iff body]
  | circuitDefinition n ps qs body => simp only [firstErr, hasPlaceholder, firstErrList_none_iff body]
  | capture c => simp only [firstErr, hasPlaceholder, frameErr_none]
  | delay d => simp only [firstErr, hasPlaceholder, qubitsErr_none_iff]
  | fence d => simp only [firstErr, hasPlaceholder, qubitsErr_none_iff]
  | frameDefinition d => simp only [firstErr, hasPlaceholder, frameErr_none]
  | gate d => simp only [firstErr, hasPlaceholder, gateErr_none]
  | gateDefinition d =>
    obtain ⟨n, ps, spec⟩ := d
    cases spec with
    | sequence q =>
      have := specErr_none (.sequence q)
      simpa only [firstErr, hasPlaceholder] using this
    | _ => simp [firstErr, hasPlaceholder, specErr]
  | jump d => simp only [firstErr, hasPlaceholder, targetErr_none]
  | jumpUnless d => simp only [firstErr, hasPlaceholder, targetErr_none]
  | jumpWhen d => simp only [firstErr, hasPlaceholder, targetErr_none]
  | label d => simp only [firstErr, hasPlaceholder, targetErr_none]
  | measurement d => simp only [firstErr, hasPlaceholder, qubitErr_none]
  | pulse d => simp only [firstErr, hasPlaceholder, frameErr_none]
  | rawCapture d => simp only [firstErr, hasPlaceholder, frameErr_none]
  | reset d =>
    obtain ⟨q⟩ := d
    cases q with
    | none => simp [firstErr, hasPlaceholder]
    | some q => simp only [firstErr, hasPlaceholder, qubitErr_none]
  | setFrequency d => simp only [firstErr, hasPlaceholder, frameErr_none]
  | setPhase d => simp only [firstErr, hasPlaceholder, frameErr_none]
  | setScale d => simp only [firstErr, hasPlaceholder, frameErr_none]
  | shiftFrequency d => simp only [firstErr, hasPlaceholder, frameErr_none]
  | shiftPhase d => simp only [firstErr, hasPlaceholder, frameErr_none]
  | swapPhases d =>
    simp only [firstErr, hasPlaceholder, firstSome_eq_none, List.mem_cons, List.not_mem_nil, or_false,
      forall_eq_or_imp, forall_eq, Bool.or_eq_false_iff, frameErr_none]
  | _ => simp [firstErr, hasPlaceholder]
theorem firstErrList_none_iff (l : List Instruction) : firstErrList l = none ↔ hasPlaceholders l = false := by
  cases l with
  | nil => simp [firstErrList, hasPlaceholders]
  | cons i rest =>
    simp only [firstErrList, hasPlaceholders, firstSome_eq_none, List.mem_cons, List.not_mem_nil, or_false,
      forall_eq_or_imp, forall_eq, Bool.or_eq_false_iff, firstErr_none_iff i, firstErrList_none_iff rest]
end


/-! ## from well-formed, placeholder-free to `Parsed` (kinds without expressions) -/

/-- the kinds of `QV.C02.provedKind` that contain no expression -/
def plainKind : Instruction → Bool
  | .arithmetic _ | .binaryLogic _ | .comparison _ | .convert _ | .exchange _ | .move _ | .load _
  | .store _ | .unaryLogic _ | .halt | .nop | .wait | .jump _ | .jumpWhen _ | .jumpUnless _ | .label _
  | .include _ | .declaration _ | .fence _ | .reset _ | .measurement _ | .pragma _ | .swapPhases _ => true
  | _ => false

theorem plainKind_provedKind {i : Instruction} (h : plainKind i = true) : lineKind i = true := by
  cases i <;> simp_all [plainKind, lineKind]

theorem noPlaceholder_of (q : Qubit) (hw : qubitOk q = true) (hp : qubitIsPh q = false) :
    noPlaceholder q = true := by
  cases q with
  | fixed n => rfl
  | placeholder k => simp [qubitIsPh] at hp
  | «variable» s =>
    simp only [qubitOk, identName, Bool.and_eq_true, Bool.not_eq_true'] at hw
    simp [noPlaceholder, hw.2]

theorem all_noPlaceholder_of (qs : List Qubit) (hw : qs.all qubitOk = true) (hp : qs.any qubitIsPh = false) :
    qs.all noPlaceholder = true := by
  rw [List.all_eq_true] at hw ⊢
  rw [List.any_eq_false] at hp
  intro q hq
  exact noPlaceholder_of q (hw q hq) (by simpa using hp q hq)

theorem frameOk_of (f : FrameIdentifier) (hw : QV.C04.frameOk f = true) (hp : f.qubits.any qubitIsPh = false) :
    QV.C02.frameOk f = true := by
  simp only [QV.C04.frameOk, Bool.and_eq_true] at hw
  simp only [QV.C02.frameOk, Bool.and_eq_true]
  exact ⟨hw.1, all_noPlaceholder_of _ hw.2 hp⟩

theorem fixedTarget_of (t : Target) (hp : targetIsPh t = false) : fixedTarget t = true := by
  cases t <;> simp_all [targetIsPh, fixedTarget]

theorem arithOperandOk_of (o : ArithmeticOperand) (h : arithOk o = true) : arithOperandOk o = true := by
  cases o <;> simp_all [arithOk, arithOperandOk, QV.C04.i64Ok, QV.C02.i64Ok]
theorem compOperandOk_of (o : ComparisonOperand) (h : compOk o = true) : compOperandOk o = true := by
  cases o <;> simp_all [compOk, compOperandOk, QV.C04.i64Ok, QV.C02.i64Ok]
theorem binOperandOk_of (o : BinaryOperand) (h : binOk o = true) : binOperandOk o = true := by
  cases o <;> simp_all [binOk, binOperandOk, QV.C04.i64Ok, QV.C02.i64Ok]

/-- a well-formed, placeholder-free instruction of a plain kind satisfies C02's `Parsed` -/
theorem parsedInstr_of_wellFormed (i : Instruction) (hw : wellFormed i = true)
    (hp : hasPlaceholder i = false) (hk : plainKind i = true) : parsedInstr i = true := by
  cases i with
  | arithmetic a => simp only [wellFormed, Bool.and_eq_true] at hw; exact arithOperandOk_of _ hw.2
  | binaryLogic a => simp only [wellFormed, Bool.and_eq_true] at hw; exact binOperandOk_of _ hw.2
  | comparison a => simp only [wellFormed, Bool.and_eq_true] at hw; exact compOperandOk_of _ hw.2
  | move a => simp only [wellFormed, Bool.and_eq_true] at hw; exact arithOperandOk_of _ hw.2
  | store a => simp only [wellFormed, Bool.and_eq_true] at hw; exact arithOperandOk_of _ hw.2
  | jump a => exact fixedTarget_of _ (by simpa [hasPlaceholder] using hp)
  | jumpWhen a => exact fixedTarget_of _ (by simpa [hasPlaceholder] using hp)
  | jumpUnless a => exact fixedTarget_of _ (by simpa [hasPlaceholder] using hp)
  | label a => exact fixedTarget_of _ (by simpa [hasPlaceholder] using hp)
  | fence a =>
    simp only [wellFormed] at hw; simp only [hasPlaceholder] at hp
    exact all_noPlaceholder_of _ hw hp
  | reset a =>
    obtain ⟨q⟩ := a
    cases q with
    | none => rfl
    | some q =>
      simp only [wellFormed] at hw; simp only [hasPlaceholder] at hp
      exact noPlaceholder_of q hw hp
  | measurement a =>
    simp only [wellFormed, Bool.and_eq_true] at hw; simp only [hasPlaceholder] at hp
    exact noPlaceholder_of _ hw.1.2 hp
  | swapPhases a =>
    simp only [wellFormed, Bool.and_eq_true] at hw
    simp only [hasPlaceholder, Bool.or_eq_false_iff] at hp
    simp only [parsedInstr, Bool.and_eq_true]
    exact ⟨frameOk_of _ hw.1 hp.1, frameOk_of _ hw.2 hp.2⟩
  | _ => first | rfl | (simp [plainKind] at hk)

/-! ## kinds with expressions: read back in normal form -/

/-- the kinds for which the API round trip is proved: the plain kinds and the ones whose only expressions are
gate parameters / a trailing frame expression -/
def apiKind : Instruction → Bool
  | .gate _ | .setFrequency _ | .setPhase _ | .setScale _ | .shiftFrequency _ | .shiftPhase _
  | .delay _ | .capture _ | .pulse _ => true
  | .call c => chainOk none c.arguments
  | .rawCapture r => r.memoryReference.name != "i"
  | i => plainKind i

/-- what a printed instruction of an `apiKind` parses back to: every expression `e` replaced by `norm e`
(`QV.ExprPrint.norm`: a negative literal becomes a prefix minus on its magnitude, a complex literal a sum,
prefix plus disappears — all value-preserving, `QV.ExprRoundTrip.eval_norm`) -/
def normInstr : Instruction → Instruction
  | .gate g => .gate { g with parameters := g.parameters.map norm }
  | .setFrequency s => .setFrequency ⟨s.frame, norm s.frequency⟩
  | .setPhase s => .setPhase ⟨s.frame, norm s.phase⟩
  | .setScale s => .setScale ⟨s.frame, norm s.scale⟩
  | .shiftFrequency s => .shiftFrequency ⟨s.frame, norm s.frequency⟩
  | .shiftPhase s => .shiftPhase ⟨s.frame, norm s.phase⟩
  | .delay d => .delay { d with duration := norm d.duration }
  | .rawCapture r => .rawCapture { r with duration := norm r.duration }
  | .capture c => .capture { c with waveform := normInvocation c.waveform }
  | .pulse p => .pulse { p with waveform := normInvocation p.waveform }
  | i => i

theorem slotOf_normInstr (i : Instruction) : slotOf (normInstr i) = slotOf i := by
  cases i <;> simp [normInstr, slotOf]

theorem exprOk_finiteLits (e : PExpr) (h : exprOk e = true) : finiteLits e = true := by
  unfold finiteLits
  induction e with
  | address r => rfl
  | call f e ih => simp only [exprOk] at h; simp [allLits, ih h]
  | bin l o r ihl ihr =>
    simp only [exprOk, Bool.and_eq_true] at h
    simp [allLits, ihl h.1, ihr h.2]
  | number z => simpa [exprOk, allLits] using h
  | pi => rfl
  | pre o e ih => simp only [exprOk] at h; simp [allLits, ih h]
  | var x => rfl

theorem all_finiteLits (ps : List PExpr) (h : ps.all exprOk = true) : ps.all finiteLits = true := by
  rw [List.all_eq_true] at h ⊢
  intro e he
  exact exprOk_finiteLits e (h e he)

theorem invOk_of_wellFormed (F : NumFmt) (w : WaveformInvocation) (hw : QV.C04.invocationOk w = true)
    (hn : (w.parameters.all fun kv => numTokOk F kv.2) = true) : InvOk F w := by
  simp only [QV.C04.invocationOk, Bool.and_eq_true, distinctKeys, decide_eq_true_eq] at hw
  refine ⟨hw.1.1.2, hw.1.2, ?_, fun kv hkv => List.all_eq_true.mp hn kv hkv⟩
  intro kv hkv
  have := List.all_eq_true.mp hw.2 kv hkv
  simp only [Bool.and_eq_true] at this
  exact exprOk_finiteLits _ this.2

theorem chainOk_of (a : UnresolvedCallArgument) (rest : List UnresolvedCallArgument)
    (h : callNumberThenI (a :: rest) = false) : chainOk (some a) rest = true := by
  induction rest generalizing a with
  | nil => rfl
  | cons b rest ih =>
    cases a with
    | immediate z =>
      simp only [callNumberThenI, Bool.or_eq_false_iff] at h
      simp only [chainOk, Bool.and_eq_true, Bool.not_eq_true']
      refine ⟨?_, ih b h.2⟩
      have h1 := h.1
      cases b <;> simp_all [isRealImm, namedI]
    | identifier s =>
      simp only [callNumberThenI] at h
      simp only [chainOk, Bool.and_eq_true, Bool.not_eq_true']
      exact ⟨by simp [isRealImm], ih b h⟩
    | memoryReference r =>
      simp only [callNumberThenI] at h
      simp only [chainOk, Bool.and_eq_true, Bool.not_eq_true']
      exact ⟨by simp [isRealImm], ih b h⟩

theorem chainOk_none_of (args : List UnresolvedCallArgument) (h : callNumberThenI args = false) :
    chainOk none args = true := by
  cases args with
  | nil => rfl
  | cons a rest =>
    simp only [chainOk, Bool.and_eq_true, Bool.not_eq_true']
    exact ⟨by simp [isRealImm], chainOk_of a rest h⟩

/-- the per-kind lemmas, dispatched for API-built instructions -/
theorem rt_of_apiKind (F : NumFmt) (d : Nat) (i : Instruction) (hw : wellFormed i = true)
    (hp : hasPlaceholder i = false) (hk : apiKind i = true) (hn : numTokInstr F i = true)
    (hd : (toks F i).length ≤ d) : RT F d i (normInstr i) := by
  cases i with
  | gate g =>
    simp only [wellFormed, QV.C04.gateOk, Bool.and_eq_true] at hw
    simp only [hasPlaceholder] at hp
    simp only [numTokInstr] at hn
    exact rt_gate_norm F d g (all_finiteLits _ hw.1.2) (all_noPlaceholder_of _ hw.2 hp) hn hd
  | setFrequency s =>
    obtain ⟨f, e⟩ := s
    simp only [wellFormed, Bool.and_eq_true] at hw
    simp only [hasPlaceholder] at hp
    simp only [numTokInstr] at hn
    exact rt_setFrequency_norm F d f e (frameOk_of f hw.1 hp) (exprOk_finiteLits e hw.2) hn hd
  | setPhase s =>
    obtain ⟨f, e⟩ := s
    simp only [wellFormed, Bool.and_eq_true] at hw
    simp only [hasPlaceholder] at hp
    simp only [numTokInstr] at hn
    exact rt_setPhase_norm F d f e (frameOk_of f hw.1 hp) (exprOk_finiteLits e hw.2) hn hd
  | setScale s =>
    obtain ⟨f, e⟩ := s
    simp only [wellFormed, Bool.and_eq_true] at hw
    simp only [hasPlaceholder] at hp
    simp only [numTokInstr] at hn
    exact rt_setScale_norm F d f e (frameOk_of f hw.1 hp) (exprOk_finiteLits e hw.2) hn hd
  | shiftFrequency s =>
    obtain ⟨f, e⟩ := s
    simp only [wellFormed, Bool.and_eq_true] at hw
    simp only [hasPlaceholder] at hp
    simp only [numTokInstr] at hn
    exact rt_shiftFrequency_norm F d f e (frameOk_of f hw.1 hp) (exprOk_finiteLits e hw.2) hn hd
  | shiftPhase s =>
    obtain ⟨f, e⟩ := s
    simp only [wellFormed, Bool.and_eq_true] at hw
    simp only [hasPlaceholder] at hp
    simp only [numTokInstr] at hn
    exact rt_shiftPhase_norm F d f e (frameOk_of f hw.1 hp) (exprOk_finiteLits e hw.2) hn hd
  | delay dl =>
    simp only [wellFormed, Bool.and_eq_true] at hw
    simp only [hasPlaceholder] at hp
    simp only [numTokInstr, Bool.and_eq_true] at hn
    exact rt_delay_norm F d dl (all_noPlaceholder_of _ hw.2 hp) (exprOk_finiteLits _ hw.1) hn.1 hn.2 hd
  | call c =>
    simp only [wellFormed, Bool.and_eq_true, Bool.not_eq_true'] at hw
    simp only [numTokInstr] at hn
    have hok : c.arguments.all (callArgOkP F) = true := by
      rw [List.all_eq_true] at hn ⊢
      intro a ha
      have h1 := List.all_eq_true.mp hw.1.2 a ha
      have h2 := hn a ha
      cases a with
      | immediate z =>
        simp only [QV.C04.callArgOk, Bool.and_eq_true] at h1
        simp only at h2
        simp [callArgOkP, immOk, h1.1, h1.2, h2]
      | _ => rfl
    have := rt_call F d c hok (chainOk_none_of _ hw.2)
    simpa [normInstr] using this
  | capture c =>
    simp only [wellFormed, Bool.and_eq_true] at hw
    simp only [hasPlaceholder] at hp
    simp only [numTokInstr] at hn
    exact rt_capture_norm F d c (frameOk_of _ hw.1.1 hp) (invOk_of_wellFormed F _ hw.1.2 hn) hd
  | pulse c =>
    simp only [wellFormed, Bool.and_eq_true] at hw
    simp only [hasPlaceholder] at hp
    simp only [numTokInstr] at hn
    exact rt_pulse_norm F d c (frameOk_of _ hw.1 hp) (invOk_of_wellFormed F _ hw.2 hn) hd
  | rawCapture r =>
    simp only [wellFormed, Bool.and_eq_true, bne_iff_ne, ne_eq] at hw
    simp only [hasPlaceholder] at hp
    simp only [numTokInstr] at hn
    exact rt_rawCapture_norm F d r (frameOk_of _ hw.1.1.1 hp) (exprOk_finiteLits _ hw.1.1.2) hn hw.2 hd
  | _ =>
    all_goals
      first
      | (simp [apiKind, plainKind] at hk; done)
      | (exact rt_of_lineKind F d _ (parsedInstr_of_wellFormed _ hw hp (by simpa [apiKind] using hk))
          (plainKind_provedKind (by simpa [apiKind] using hk)) hn hd)

theorem apiKind_provedKind {i : Instruction} (h : apiKind i = true) : lineKind i = true := by
  cases i <;> simp_all [apiKind, plainKind, lineKind]

theorem hasPlaceholders_false (L : List Instruction) (h : ∀ i ∈ L, hasPlaceholder i = false) :
    hasPlaceholders L = false := by
  induction L with
  | nil => rfl
  | cons i L ih =>
    simp [hasPlaceholders, h i (by simp), ih (fun j hj => h j (by simp [hj]))]

end QV.C04
