import QV.Wire
import QV.Shared.SchedWire
import QV.Shared.HandlerWire
import QV.C23.Spec
/-! Driver side of the C23 correspondence check. -/
namespace QV.C23
open QV QV.Sched QV.Sched.Wire

/-- history nodes use the block-free coding with n = 1000 (1001 = BlockEnd, never sent) -/
def histN : Nat := 1000

def decAccess : Sexp → Option Access
  | .list [n, r, k] => do
    let n ← n.asNat?
    let r ← r.asNat?
    let k ← decKind k
    pure ⟨decNode histN n, r, k⟩
  | _ => none

def depLe (a b : Nat × Nat) : Bool := a.1 < b.1 || (a.1 == b.1 && a.2 ≤ b.2)

def encDeps (ds : List Dep) : Sexp :=
  let codes := ((ds.map fun d => (kindCode d.kind, encNode histN d.node)).mergeSort depLe).eraseDups
  .list (codes.map fun c =>
    .list [.atom (match c.1 with | 0 => "r" | 1 => "w" | _ => "c"), .atom (toString c.2)])

def decDep : Sexp → Option Dep
  | .list [k, n] => do
    let k ← decKind k
    let n ← n.asNat?
    pure ⟨k, decNode histN n⟩
  | _ => none

def decDepsList : Sexp → Option (List Dep)
  | .list xs => xs.mapM decDep
  | _ => none

def natLe (a b : Nat) : Bool := a ≤ b

def modelHistory (init : Queue) (h : List Access) : Sexp :=
  let r := runHistory (QMap.empty init) h
  let keys := r.1.keys.mergeSort natLe
  .list [.list (.atom "deps" :: r.2.map encDeps),
         .list (.atom "pending" :: keys.map fun k => .list [.atom (toString k), encDeps (r.1.get k).pending])]

def conflictingPair (items : List (Node × Instr)) : Bool :=
  match items with
  | [] => false
  | p :: rest =>
    (rest.any fun q => (memAccesses p.2).any fun a => (memAccesses q.2).any fun c =>
      a.1 = c.1 && (a.2.isWrite || c.2.isWrite)) || conflictingPair rest

def blockTags (b : Block) : List String :=
  (if b.instrs.any (fun i => i.reads.any fun r => i.writes.contains r || i.captures.contains r) then ["self-rw"] else []) ++
  (if (b.term.map fun t => !(memAccesses t).isEmpty) == some true then ["term-mem"] else []) ++
  (if b.instrs.any (fun i => !i.captures.isEmpty) then ["capture"] else []) ++
  (if b.instrs.any (fun i => i.reads.any fun r => i.captures.contains r) then ["self-read-capture"] else []) ++
  (if b.instrs.any (fun i => i.role == .rf && !(memAccesses i).isEmpty) then ["rf-mem"] else [])

def edgeTags (es : List Edge) : List String :=
  (if es.any (fun e => e.label == .await .read) then ["edge-r"] else []) ++
  (if es.any (fun e => e.label == .await .write) then ["edge-w"] else []) ++
  (if es.any (fun e => e.label == .await .capture) then ["edge-c"] else [])

def handleProgram (stream : String) (p : Sexp) (out : Sexp) : CaseResult :=
  match decProg p with
  | none => .bad s!"undecodable program {p}"
  | some (externErr, blocks) =>
    let (mOut, mOk) := modelProgram externErr blocks
    let agree := agreeOut externErr blocks mOut mOk out
    -- the Bool specification evaluated on the implementation's graphs
    let (specOk, implEdges) : Bool × List Edge := match out with
      | .list (.atom "ok" :: gs) =>
        if gs.length != blocks.length then (false, []) else
        (blocks.zip gs).foldl (fun acc bg =>
          match decGraph bg.1.instrs.length bg.2 with
          | some (_, es) => (acc.1 && memSpecB bg.1 es, acc.2 ++ es)
          | none => (false, acc.2)) (true, [])
      | .list (.atom "err" :: _) => (true, [])
      | _ => (false, [])
    let nontrivial := mOk && blocks.any fun b => conflictingPair b.items
    let maxLen := blocks.foldl (fun m b => max m b.instrs.length) 0
    let errTag := match out with
      | .list (.atom "err" :: .atom v :: _) => [s!"err-{v}"]
      | _ => ["ok"]
    { agree, specOk, nontrivial,
      tags := [stream, s!"blocks{min blocks.length 4}", s!"len{min maxLen 8}"] ++ errTag ++
        (blocks.flatMap blockTags).eraseDups ++ edgeTags implEdges,
      detail := s!"model={mOut} impl={out}" }

def handle (inp out : Sexp) : CaseResult :=
  match inp with
  | .list [.atom "corpus", p] => handleProgram "corpus" p out
  | .list [.atom "table", p] => handleProgram "table" p out
  | .list [.atom "random", p] => handleProgram "random" p out
  | .list [.atom "ast", instrs, sigs, real] =>
    -- blocks and handler answers are computed from the AST by `HandlerFromAst`; `memSpecB` on those answers
    -- means the memory clause over C27's SPEC sets (theorem `C23_ast_memSpec`)
    HandlerWire.handleAst instrs sigs real out (fun _ _ b _ es => memSpecB b es)
      (fun b => conflictingPair b.items) (fun b es => blockTags b ++ edgeTags es)
  | .list (.atom "mq" :: xs) =>
    match xs.mapM decAccess with
    | none => .bad s!"undecodable history {inp}"
    | some h =>
      let mOut := modelHistory Queue.memInit h
      let specOk := match out with
        | .list [.list (.atom "deps" :: steps), _] =>
          match steps.mapM decDepsList with
          | some dss => histSpecB Queue.memInit h dss
          | none => false
        | _ => false
      let shared := (h.map (·.node)).eraseDups.length < h.length
      let conflict := h.zipIdx.any fun (a, i) => (h.drop (i + 1)).any fun c =>
        a.res = c.res && (a.kind.isWrite || c.kind.isWrite)
      { agree := mOut == out, specOk, nontrivial := conflict,
        tags := ["mq", s!"hlen{h.length}"] ++ (if shared then ["shared-node"] else []) ++
          (if h.any (·.kind == .capture) then ["capture"] else []),
        detail := s!"model={mOut} impl={out}" }
  | _ => .bad s!"undecodable input {inp}"

end QV.C23

def main : IO UInt32 := QV.runMain QV.C23.handle
