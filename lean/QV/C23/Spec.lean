import QV.Shared.Sched
/-
C23 — Memory accesses are sequentially consistent in the dependency graph.

  "Take any two instructions in a block that touch the same memory region, at least one of them writing or
   capturing to it. The later one depends (possibly transitively) on the earlier one. Every
   memory-dependency edge links such a conflicting pair, and two reads of a region with no write between
   them are never ordered by memory edges."

The specification below is written against the *block* (what each node accesses) and an arbitrary edge
list; it does not mention queues.  `memSpecB` is the executable checker evaluated on the
implementation's graph; `HistSpec`/`histSpecB` are the same statement for a bare access history driven
through the queue hook.
-/
namespace QV.C23
open QV.Sched

/-- node `x` of block `b` performs an access of kind `k` to region `r` -/
def Touches (b : Block) (x : Node) (r : Nat) (k : Kind) : Prop :=
  ∃ ins, (x, ins) ∈ b.items ∧ (r, k) ∈ memAccesses ins

/-- all (region, kind) accesses of node `x` -/
def accessesOf (b : Block) (x : Node) : List (Nat × Kind) :=
  b.items.flatMap fun p => if p.1 = x then memAccesses p.2 else []

structure MemSpec (b : Block) (es : List Edge) : Prop where
  /-- (1) of two items in block order that conflict on a region, the later is reachable from the earlier
  through `AwaitMemoryAccess` edges -/
  ordered : b.items.Pairwise fun p q => ∀ r k1 k2, (r, k1) ∈ memAccesses p.2 → (r, k2) ∈ memAccesses q.2 →
    Conflict k1 k2 → Reach es isAwait p.1 q.1
  /-- (2) every `AwaitMemoryAccess(k)` edge goes forward in the block and links a node that performs `k`
  on some region to a node that accesses the same region, one of the two accesses being a write/capture -/
  justified : ∀ e ∈ es, ∀ k, e.label = .await k →
    e.src.pos b.instrs.length < e.dst.pos b.instrs.length ∧
    ∃ r k2, Touches b e.src r k ∧ Touches b e.dst r k2 ∧ Conflict k k2

/-- the memory edges that region `r` can justify -/
def JustBy (b : Block) (r : Nat) (e : Edge) : Prop :=
  ∃ k k2, e.label = .await k ∧ Touches b e.src r k ∧ Touches b e.dst r k2 ∧ Conflict k k2

/-- paths made only of edges satisfying `P` -/
inductive ReachVia (E : List Edge) (P : Edge → Prop) : Node → Node → Prop where
  | refl (u : Node) : ReachVia E P u u
  | step {u : Node} {e : Edge} : ReachVia E P u e.src → e ∈ E → P e → ReachVia E P u e.dst

/-! Bool checker -/

def orderedB (fuel : Nat) (es : List Edge) : List (Node × Instr) → Bool
  | [] => true
  | p :: rest =>
    let reached := reachFrom es isAwait p.1
    (rest.all fun q => (memAccesses p.2).all fun a => (memAccesses q.2).all fun c =>
      !(a.1 = c.1 && (a.2.isWrite || c.2.isWrite)) || reached.contains q.1)
    && orderedB fuel es rest

def justifiedB (b : Block) (es : List Edge) : Bool :=
  es.all fun e =>
    match e.label with
    | .await k =>
      decide (e.src.pos b.instrs.length < e.dst.pos b.instrs.length) &&
      (accessesOf b e.src).any fun a => a.2 = k &&
        (accessesOf b e.dst).any fun c => c.1 = a.1 && (k.isWrite || c.2.isWrite)
    | _ => true

def memSpecB (b : Block) (es : List Edge) : Bool :=
  orderedB (b.instrs.length + 2) es b.items && justifiedB b es

/-! The same statement for an access history driven directly through the queues -/

/-- the edges that the reported dependencies induce -/
def depsEdges : List Access → List (List Dep) → List Edge
  | a :: h, ds :: dss =>
    (ds.filter fun d => d.node ≠ a.node).map (fun d => ⟨d.node, a.node, .await d.kind⟩) ++ depsEdges h dss
  | _, _ => []

/-- every reported dependency is an earlier (in `pre` or in the history so far) conflicting access to the
same resource, or the initial writer -/
def DepsJustified (init : Queue) : List Access → List Access → List (List Dep) → Prop
  | pre, a :: h, ds :: dss =>
    (∀ d ∈ ds, Conflict d.kind a.kind ∧ (init.write = some d ∨ (⟨d.node, a.res, d.kind⟩ : Access) ∈ pre))
    ∧ DepsJustified init (pre ++ [a]) h dss
  | _, [], [] => True
  | _, _, _ => False

structure HistSpec (init : Queue) (h : List Access) (dss : List (List Dep)) : Prop where
  ordered : h.Pairwise fun a c => a.res = c.res → Conflict a.kind c.kind →
    Reach (depsEdges h dss) anyLabel a.node c.node
  justified : DepsJustified init [] h dss

def histOrderedB (fuel : Nat) (es : List Edge) : List Access → Bool
  | [] => true
  | a :: rest =>
    let reached := reachFrom es anyLabel a.node
    (rest.all fun c => !(a.res = c.res && (a.kind.isWrite || c.kind.isWrite)) ||
      reached.contains c.node) && histOrderedB fuel es rest

def depsJustifiedB (init : Queue) : List Access → List Access → List (List Dep) → Bool
  | pre, a :: h, ds :: dss =>
    (ds.all fun d => (d.kind.isWrite || a.kind.isWrite) &&
      (decide (init.write = some d) || decide ((⟨d.node, a.res, d.kind⟩ : Access) ∈ pre)))
    && depsJustifiedB init (pre ++ [a]) h dss
  | _, [], [] => true
  | _, _, _ => false

def histSpecB (init : Queue) (h : List Access) (dss : List (List Dep)) : Bool :=
  histOrderedB (h.length + 1) (depsEdges h dss) h && depsJustifiedB init [] h dss

/-! ### Exact characterisation of what the queue reports (history level) -/

def NoWriteOn (r : Nat) (l : List Access) : Prop := ∀ a ∈ l, a.res = r → a.kind.isWrite = false

/-- `d` is the most recent write/capture of region `r` in the history `h` -/
def IsLastWrite (h : List Access) (r : Nat) (d : Dep) : Prop :=
  d.kind.isWrite = true ∧ ∃ pre post, h = pre ++ (⟨d.node, r, d.kind⟩ : Access) :: post ∧ NoWriteOn r post

/-- node `n` read region `r` after the most recent write of `r` in `h` -/
def ReadSince (h : List Access) (r : Nat) (n : Node) : Prop :=
  ∃ pre post, h = pre ++ (⟨n, r, .read⟩ : Access) :: post ∧ NoWriteOn r post

/-- the dependencies an access `a` must report after the history `pre`: the most recent writer of its region
(or the initial writer if the region was never written), and — if `a` is a write/capture — every read since -/
def ExactDeps (init : Queue) (pre : List Access) (a : Access) (ds : List Dep) : Prop :=
  ∀ d, d ∈ ds ↔ ((IsLastWrite pre a.res d ∨ (init.write = some d ∧ NoWriteOn a.res pre)) ∨
    (a.kind.isWrite = true ∧ d.kind = .read ∧ ReadSince pre a.res d.node))

def AllExact (init : Queue) : List Access → List Access → List (List Dep) → Prop
  | pre, a :: h, ds :: dss => ExactDeps init pre a ds ∧ AllExact init (pre ++ [a]) h dss
  | _, [], [] => True
  | _, _, _ => False

end QV.C23
