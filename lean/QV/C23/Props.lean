import QV.Shared.SchedLemmas
import QV.C23.Spec
import QV.C23.Lemmas
import QV.Shared.HandlerLemmas
/-
C23 — Memory accesses are sequentially consistent in the dependency graph.
Property theorems only.  The supporting invariant (`QInv`, `QInv.step`, `runItems_memInv`) lives in
`QV.Shared.SchedLemmas`; every statement here quantifies over *all* blocks / histories, no size bound.
-/
namespace QV.C23
open QV.Sched

/-! ### Block level: `ScheduledBasicBlock::build` -/

private theorem await_finish (b : Block) (st : St) :
    (∀ e ∈ st.edges, e ∈ finish b st) ∧
    (∀ e ∈ finish b st, isAwait e.label = true → e ∈ st.edges) := by
  constructor
  · intro e he; simp [finish, he]
  · intro e he hl
    simp only [finish, List.mem_append, List.mem_map] at he
    rcases he with (((he | ⟨_, _, rfl⟩) | ⟨_, _, rfl⟩) | ⟨_, _, rfl⟩) | he
    · exact he
    · simp [isAwait] at hl
    · simp [isAwait] at hl
    · simp [isAwait] at hl
    · split at he
      · simp only [List.mem_singleton] at he; subst he; simp [isAwait] at hl
      · simp at he

private theorem mem_memLog {P : List (Node × Instr)} {a : Access} :
    a ∈ memLog P ↔ ∃ p ∈ P, p.1 = a.node ∧ (a.res, a.kind) ∈ memAccesses p.2 := by
  simp only [memLog, List.mem_flatMap, List.mem_map]
  constructor
  · rintro ⟨p, hp, c, hc, rfl⟩
    exact ⟨p, hp, rfl, hc⟩
  · rintro ⟨p, hp, h1, h2⟩
    exact ⟨p, hp, (a.res, a.kind), h2, by cases a; simp_all⟩

/-- **C23, block level (all blocks, any length).** Whenever `build` succeeds on a block, its graph satisfies the
memory-consistency specification: conflicting accesses to a region are ordered (transitively) by
`AwaitMemoryAccess` edges, and every such edge links a conflicting pair, earlier to later. -/
theorem C23_build_memSpec (b : Block) (es : List Edge) (h : buildBlock b = .ok es) : MemSpec b es := by
  unfold buildBlock at h
  split at h
  · rename_i st hst
    cases h
    have hinit : QInv Queue.memInit St.init.mem (Reach St.init.edges isAwait) [] :=
      QInv.empty _ rfl (by simp [Queue.memInit]) _
    have hj0 : MemEdgesJustified (Node.pos b.instrs.length) St.init.edges [] := by
      intro e he; simp [St.init] at he
    obtain ⟨hq, hj⟩ := runItems_memInv (μ := Node.pos b.instrs.length) b.items St.init st [] hst hinit hj0
      (items_sorted b) (by simp)
    simp only [List.nil_append] at hq hj
    obtain ⟨hsub, hnew⟩ := await_finish b st
    constructor
    · have hpw := hq.pw
      simp only [memLog] at hpw
      rw [List.pairwise_flatMap] at hpw
      refine hpw.2.imp ?_
      intro p q hpq r k1 k2 h1 h2 hc
      have := hpq ⟨p.1, r, k1⟩ (by simp only [List.mem_map]; exact ⟨(r, k1), h1, rfl⟩)
        ⟨q.1, r, k2⟩ (by simp only [List.mem_map]; exact ⟨(r, k2), h2, rfl⟩) rfl hc
      exact this.mono hsub
    · intro e he k hk
      obtain ⟨h1, r, k2, h2, h3, h4⟩ := hj e (hnew e he (by rw [hk]; rfl)) k hk
      refine ⟨h1, r, k2, ?_, ?_, h4⟩
      · obtain ⟨p, hp, hp1, hp2⟩ := mem_memLog.1 h2
        simp only at hp1 hp2
        exact ⟨p.2, by rw [← hp1]; exact hp, hp2⟩
      · obtain ⟨p, hp, hp1, hp2⟩ := mem_memLog.1 h3
        simp only at hp1 hp2
        exact ⟨p.2, by rw [← hp1]; exact hp, hp2⟩
  · cases h

/-- index form of clause (1): instruction `i` before instruction `j`, both touching region `r`, one of them
writing or capturing — then `j` is reachable from `i` through memory edges. -/
theorem C23_instructions_ordered (b : Block) (es : List Edge) (h : buildBlock b = .ok es)
    (i j : Nat) (hij : i < j) (x y : Instr) (hx : b.instrs[i]? = some x) (hy : b.instrs[j]? = some y)
    (r : Nat) (k1 k2 : Kind) (h1 : (r, k1) ∈ memAccesses x) (h2 : (r, k2) ∈ memAccesses y)
    (hc : Conflict k1 k2) : Reach es isAwait (.instr i) (.instr j) := by
  have hspec := (C23_build_memSpec b es h).ordered
  have key : ∀ (is : List Instr) (k : Nat), (enumFrom k is).Pairwise (fun p q =>
      ∀ r k1 k2, (r, k1) ∈ memAccesses p.2 → (r, k2) ∈ memAccesses q.2 → Conflict k1 k2 →
        Reach es isAwait p.1 q.1) →
      ∀ i j, i < j → ∀ x y, is[i]? = some x → is[j]? = some y →
        ∀ r k1 k2, (r, k1) ∈ memAccesses x → (r, k2) ∈ memAccesses y → Conflict k1 k2 →
        Reach es isAwait (.instr (k + i)) (.instr (k + j)) := by
    intro is
    induction is with
    | nil => intro k _ i j _ x y hx; simp at hx
    | cons z zs ih =>
      intro k hp i j hij x y hx hy r k1 k2 h1 h2 hc
      simp only [enumFrom, List.pairwise_cons] at hp
      cases i with
      | zero =>
        simp only [List.getElem?_cons_zero, Option.some.injEq] at hx
        subst hx
        obtain ⟨j', rfl⟩ : ∃ j', j = j' + 1 := ⟨j - 1, by omega⟩
        simp only [List.getElem?_cons_succ] at hy
        have hmem : ((Node.instr (k + 1 + j'), y) : Node × Instr) ∈ enumFrom (k + 1) zs := by
          clear hp ih
          induction zs generalizing k j' with
          | nil => simp at hy
          | cons w ws ihw =>
            cases j' with
            | zero => simp at hy; subst hy; simp [enumFrom]
            | succ j'' =>
              simp only [List.getElem?_cons_succ] at hy
              simp only [enumFrom, List.mem_cons]
              right
              have := ihw (k + 1) j'' hy (by omega)
              have e : k + 1 + (j'' + 1) = k + 1 + 1 + j'' := by omega
              rw [e]; exact this
        have := hp.1 _ hmem r k1 k2 h1 h2 hc
        have e : k + (j' + 1) = k + 1 + j' := by omega
        simpa [e] using this
      | succ i' =>
        obtain ⟨j', rfl⟩ : ∃ j', j = j' + 1 := ⟨j - 1, by omega⟩
        simp only [List.getElem?_cons_succ] at hx hy
        have := ih (k + 1) hp.2 i' j' (by omega) x y hx hy r k1 k2 h1 h2 hc
        have e1 : k + (i' + 1) = k + 1 + i' := by omega
        have e2 : k + (j' + 1) = k + 1 + j' := by omega
        rw [e1, e2]; exact this
  have hpre : (enumFrom 0 b.instrs).Pairwise _ := (List.pairwise_append.1 hspec).1
  have := key b.instrs 0 hpre i j hij x y hx hy r k1 k2 h1 h2 hc
  simpa using this

/-- a block terminator that reads memory (`JUMP-WHEN`/`JUMP-UNLESS`) is ordered after every body
instruction that writes or captures the region -/
theorem C23_terminator_ordered (b : Block) (es : List Edge) (h : buildBlock b = .ok es)
    (p : Node × Instr) (hp : p ∈ enumFrom 0 b.instrs) (t : Instr) (ht : b.term = some t)
    (r : Nat) (k1 k2 : Kind) (h1 : (r, k1) ∈ memAccesses p.2) (h2 : (r, k2) ∈ memAccesses t)
    (hc : Conflict k1 k2) : Reach es isAwait p.1 .stop := by
  have hspec := (C23_build_memSpec b es h).ordered
  unfold Block.items at hspec
  rw [ht] at hspec
  exact (List.pairwise_append.1 hspec).2.2 p hp (.stop, t) (by simp) r k1 k2 h1 h2 hc

/-! ### The last clause: reads with no write between them are not ordered by the region's edges -/

private theorem ReachVia.le {E : List Edge} {P : Edge → Prop} (μ : Node → Nat)
    (hμ : ∀ e ∈ E, P e → μ e.src < μ e.dst) {u v : Node} (h : ReachVia E P u v) : u = v ∨ μ u < μ v := by
  induction h with
  | refl => exact .inl rfl
  | step _ he hp ih =>
    rcases ih with rfl | ih
    · exact .inr (hμ _ he hp)
    · exact .inr (Nat.lt_trans ih (hμ _ he hp))

private theorem ReachVia.head {E : List Edge} {P : Edge → Prop} {u v : Node} (h : ReachVia E P u v) :
    u = v ∨ ∃ e ∈ E, P e ∧ e.src = u ∧ ReachVia E P e.dst v := by
  induction h with
  | refl => exact .inl rfl
  | @step e' _ he hp ih =>
    rcases ih with rfl | ⟨e, he', hpe, hs, hr⟩
    · exact .inr ⟨e', he, hp, rfl, .refl _⟩
    · exact .inr ⟨e, he', hpe, hs, .step hr he hp⟩

/-- **C23, last clause (per region, see DESIGN.md §7).** In any graph satisfying the specification, let `u`
be a node that does not write/capture region `r`, and suppose no node positioned from `u` to `v` writes or
captures `r`.  Then no path made of memory edges that `r` justifies leads from `u` to a different node `v`:
two reads with no write between them are not ordered on account of that region. -/
theorem C23_reads_unordered (b : Block) (es : List Edge) (hs : MemSpec b es) (r : Nat) (u v : Node)
    (hne : u ≠ v)
    (hbetween : ∀ x k, Touches b x r k → u.pos b.instrs.length ≤ x.pos b.instrs.length →
      x.pos b.instrs.length ≤ v.pos b.instrs.length → k = .read) :
    ¬ ReachVia es (JustBy b r) u v := by
  intro hreach
  have hμ : ∀ e ∈ es, JustBy b r e → e.src.pos b.instrs.length < e.dst.pos b.instrs.length := by
    rintro e he ⟨k, _, hk, _⟩
    exact (hs.justified e he k hk).1
  rcases ReachVia.head hreach with h | ⟨e, he, ⟨k, k2, hk, ht1, ht2, hc⟩, hsrc, hrest⟩
  · exact hne h
  · have hlt := hμ e he ⟨k, k2, hk, ht1, ht2, hc⟩
    have hle : e.dst.pos b.instrs.length ≤ v.pos b.instrs.length := by
      rcases ReachVia.le _ hμ hrest with h | h
      · rw [h]; exact Nat.le_refl _
      · exact Nat.le_of_lt h
    rw [hsrc] at ht1 hlt
    have hk1 : k = .read := hbetween u k ht1 (Nat.le_refl _) (by omega)
    have hk2 : k2 = .read := hbetween e.dst k2 ht2 (by omega) hle
    subst hk1 hk2
    simp [Conflict, Kind.isWrite] at hc

/-! ### The Bool checker evaluated on the implementation's graph means the specification -/

private theorem orderedB_sound (fuel : Nat) (es : List Edge) : ∀ (items : List (Node × Instr)),
    orderedB fuel es items = true →
    items.Pairwise fun p q => ∀ r k1 k2, (r, k1) ∈ memAccesses p.2 → (r, k2) ∈ memAccesses q.2 →
      Conflict k1 k2 → Reach es isAwait p.1 q.1 := by
  intro items
  induction items with
  | nil => intro _; exact .nil
  | cons p rest ih =>
    intro h
    simp only [orderedB, Bool.and_eq_true, List.all_eq_true] at h
    refine List.pairwise_cons.2 ⟨?_, ih h.2⟩
    intro q hq r k1 k2 h1 h2 hc
    have := h.1 q hq (r, k1) h1 (r, k2) h2
    simp only [Bool.or_eq_true, Bool.not_eq_true', Bool.and_eq_false_iff, decide_eq_false_iff_not,
      not_true_eq_false, false_or, Bool.or_eq_false_iff] at this
    rcases this with ⟨h3, h4⟩ | h3
    · rcases hc with hc | hc <;> simp_all
    · exact reachFrom_sound (by simpa using h3)

private theorem mem_accessesOf {b : Block} {x : Node} {a : Nat × Kind} (h : a ∈ accessesOf b x) :
    Touches b x a.1 a.2 := by
  simp only [accessesOf, List.mem_flatMap] at h
  obtain ⟨p, hp, hin⟩ := h
  split at hin
  · rename_i hpx
    exact ⟨p.2, by rw [← hpx]; exact hp, hin⟩
  · simp at hin

/-- `memSpecB` is sound: when the executable checker accepts a graph, the graph satisfies `MemSpec`. -/
theorem C23_checker_sound (b : Block) (es : List Edge) (h : memSpecB b es = true) : MemSpec b es := by
  simp only [memSpecB, Bool.and_eq_true] at h
  refine ⟨orderedB_sound _ _ _ h.1, ?_⟩
  intro e he k hk
  have := h.2
  simp only [justifiedB, List.all_eq_true] at this
  have := this e he
  rw [hk] at this
  simp only [Bool.and_eq_true, decide_eq_true_eq, List.any_eq_true, Bool.or_eq_true] at this
  obtain ⟨hlt, a, ha, hak, c, hc, hca, hconf⟩ := this
  refine ⟨hlt, a.1, c.2, ?_, ?_, hconf⟩
  · have := mem_accessesOf ha; rw [hak] at this; exact this
  · have := mem_accessesOf hc; rw [hca] at this; exact this

/-! ### Queue level: any access history driven through `DependencyQueue` -/

private theorem historyEdges_eq (m : QMap) : ∀ (h : List Access),
    historyEdges m h = depsEdges h (runHistory m h).2 := by
  intro h
  induction h generalizing m with
  | nil => rfl
  | cons a rest ih => simp [historyEdges, runHistory, depsEdges, ih]

private theorem history_justified (init : Queue) : ∀ (h : List Access) (m : QMap) (pre : List Access),
    QInv init m (fun _ _ => True) pre → DepsJustified init pre h (runHistory m h).2 := by
  intro h
  induction h with
  | nil => intro m pre _; simp [runHistory, DepsJustified]
  | cons a rest ih =>
    intro m pre hq
    simp only [runHistory, DepsJustified]
    refine ⟨?_, ih _ _ ?_⟩
    · intro d hd
      have := hq.deps_justified a.res a.node a.kind d hd
      exact ⟨this.1, this.2.symm⟩
    · exact hq.step (R' := fun _ _ => True) a.res a.node a.kind (fun _ => trivial)
        (fun _ _ _ _ _ => trivial) (fun _ _ _ => trivial) (fun _ _ => trivial)

/-- **C23, queue level (all histories, any length, any assignment of actions to accesses).** Driving a fresh
map of memory queues with a history `h` reports dependencies such that (1) every two accesses of the
history to the same region of which one is a write/capture are ordered by the induced edges and (2) every
reported dependency is an earlier conflicting access to the same region. -/
theorem C23_history (h : List Access) :
    HistSpec Queue.memInit h (runHistory (QMap.empty Queue.memInit) h).2 := by
  constructor
  · have := history_inv Queue.memInit h (QMap.empty Queue.memInit) [] []
      (QInv.empty _ rfl (by simp [Queue.memInit]) _)
    simp only [List.nil_append, historyEdges_eq] at this
    exact this.pw
  · exact history_justified _ h _ [] (QInv.empty _ rfl (by simp [Queue.memInit]) _)

private theorem histOrderedB_sound (fuel : Nat) (es : List Edge) : ∀ (h : List Access),
    histOrderedB fuel es h = true →
    h.Pairwise fun a c => a.res = c.res → Conflict a.kind c.kind → Reach es anyLabel a.node c.node := by
  intro h
  induction h with
  | nil => intro _; exact .nil
  | cons a rest ih =>
    intro hb
    simp only [histOrderedB, Bool.and_eq_true, List.all_eq_true] at hb
    refine List.pairwise_cons.2 ⟨?_, ih hb.2⟩
    intro c hc hres hconf
    have := hb.1 c hc
    simp only [Bool.or_eq_true, Bool.not_eq_true', Bool.and_eq_false_iff, decide_eq_false_iff_not,
      Bool.or_eq_false_iff] at this
    rcases this with (h3 | ⟨h3, h4⟩) | h3
    · exact absurd hres h3
    · rcases hconf with hc' | hc' <;> simp_all
    · exact reachFrom_sound (by simpa using h3)

private theorem depsJustifiedB_sound (init : Queue) : ∀ (h : List Access) (pre : List Access)
    (dss : List (List Dep)), depsJustifiedB init pre h dss = true → DepsJustified init pre h dss := by
  intro h
  induction h with
  | nil => intro pre dss hb; cases dss <;> simp_all [depsJustifiedB, DepsJustified]
  | cons a rest ih =>
    intro pre dss hb
    cases dss with
    | nil => simp [depsJustifiedB] at hb
    | cons ds dss =>
      simp only [depsJustifiedB, Bool.and_eq_true, List.all_eq_true, Bool.or_eq_true,
        decide_eq_true_eq] at hb
      exact ⟨fun d hd => ⟨(hb.1 d hd).1, (hb.1 d hd).2⟩, ih _ _ hb.2⟩

/-- `histSpecB` is sound for `HistSpec`. -/
theorem C23_history_checker_sound (init : Queue) (h : List Access) (dss : List (List Dep))
    (hb : histSpecB init h dss = true) : HistSpec init h dss := by
  simp only [histSpecB, Bool.and_eq_true] at hb
  exact ⟨histOrderedB_sound _ _ _ hb.1, depsJustifiedB_sound _ _ _ _ hb.2⟩

/-- **C23, queue level, exact (all histories).** At every step of any history the memory queue reports *exactly*:
the most recent earlier write/capture of the region (nothing if there is none), plus — when the access is
itself a write or capture — every read of the region since that write. In particular reads never depend on
reads, and nothing older than the last write is ever reported. (Independent specification: `IsLastWrite`,
`ReadSince` are stated by list decomposition, not by running a queue.) -/
theorem C23_history_exact (h : List Access) :
    AllExact Queue.memInit [] h (runHistory (QMap.empty Queue.memInit) h).2 :=
  history_exact _ h _ [] (Exact.empty _ rfl)

/-! ### Composition with C27: the memory clause over the SPECIFICATION of what an instruction accesses

`HandlerFromAst.answersOf` computes the default handler's answers from the shared full AST through C27's proved
model of `memory_accesses`; `AccessesA p i r k` is C27's specification (`Reads` / `Writes` / `Captures` of the
projected instruction) for the region NAMED `r`.  Nothing about the handler is assumed here any more. -/

open QV.HandlerFromAst in
/-- the memory clause of C23 for a block of an AST program, with access sets given by C27's specification -/
structure AstMemSpec (p : AProgram) (ab : ABlock) (es : List Edge) : Prop where
  /-- of two instructions in block order that C27's specification says access one region, one of them writing or
  capturing it, the later is reachable from the earlier through `AwaitMemoryAccess` edges -/
  ordered : ab.items.Pairwise fun x y => ∀ r k1 k2, AccessesA p x.2 r k1 → AccessesA p y.2 r k2 →
    Conflict k1 k2 → Reach es isAwait x.1 y.1
  /-- every `AwaitMemoryAccess(k)` edge goes forward and joins two instructions of which the specification says:
  the source performs `k` on some region, the target accesses the same region, and the two conflict -/
  justified : ∀ e ∈ es, ∀ k, e.label = .await k →
    e.src.pos ab.instrs.length < e.dst.pos ab.instrs.length ∧
    ∃ r k2 i j, (e.src, i) ∈ ab.items ∧ (e.dst, j) ∈ ab.items ∧ AccessesA p i r k ∧ AccessesA p j r k2 ∧
      Conflict k k2

open QV.HandlerFromAst in
/-- **C23 ∘ C27 (every AST program, every block).** For any program given as the list of instructions added to it
(plus its extern signature map), any basic block C28's model of the CFG yields, and the graph `build` produces
from the default handler's answers COMPUTED from the AST: the memory clause holds with "reads / writes /
captures region r" meaning C27's specification of the instruction. -/
theorem C23_ast_memSpec (p : AProgram) (ab : ABlock) (hab : ab ∈ astBlocks p) (es : List Edge)
    (h : buildBlock (schedBlock p ab) = .ok es) : AstMemSpec p ab es := by
  have hspec := C23_build_memSpec _ es h
  have hok := build_noMemErr _ es h
  rw [schedBlock_items] at hok
  have names : ∀ x ∈ ab.items, ∃ rs ws cs, accessNames p x.2 = some (rs, ws, cs) := by
    intro x hx
    have := hok (x.1, answersOf p x.2) (List.mem_map.2 ⟨x, hx, rfl⟩)
    simp only [answersOf, answersWith, Option.isNone_eq_false_iff, Option.isSome_iff_exists] at this
    obtain ⟨t, ht⟩ := this
    exact ⟨t.1, t.2.1, t.2.2, ht⟩
  have toMem : ∀ x ∈ ab.items, ∀ r k, AccessesA p x.2 r k → (regionId p r, k) ∈ memAccesses (answersOf p x.2) := by
    intro x hx r k hacc
    obtain ⟨rs, ws, cs, hn⟩ := names x hx
    rw [mem_memAccesses_answers]
    exact ⟨rs, ws, cs, hn, r, rfl, (accessNames_some p x.2 rs ws cs hn r k).1 hacc⟩
  have hlen : (schedBlock p ab).instrs.length = ab.instrs.length := by simp [schedBlock]
  constructor
  · have ho := hspec.ordered
    rw [schedBlock_items, List.pairwise_map] at ho
    refine ho.imp_of_mem ?_
    intro x y hx hy hxy r k1 k2 h1 h2 hc
    exact hxy (regionId p r) k1 k2 (toMem x hx r k1 h1) (toMem y hy r k2 h2) hc
  · intro e he k hk
    obtain ⟨hpos, rid, k2, ⟨ins1, hi1, hm1⟩, ⟨ins2, hi2, hm2⟩, hc⟩ := hspec.justified e he k hk
    rw [hlen] at hpos
    rw [schedBlock_items] at hi1 hi2
    obtain ⟨x, hx, hxe⟩ := List.mem_map.1 hi1
    obtain ⟨y, hy, hye⟩ := List.mem_map.1 hi2
    simp only [Prod.mk.injEq] at hxe hye
    obtain ⟨hx1, rfl⟩ := hxe
    obtain ⟨hy1, rfl⟩ := hye
    obtain ⟨rs, ws, cs, hn, r, hr1, hr2⟩ := (mem_memAccesses_answers p x.2 (rid, k)).1 hm1
    obtain ⟨rs', ws', cs', hn', r', hr1', hr2'⟩ := (mem_memAccesses_answers p y.2 (rid, k2)).1 hm2
    simp only at hr1 hr2 hr1' hr2'
    have hu : r ∈ regionUniverse p := mem_universe p ab hab x.2 (mem_items_all hx) rs ws cs hn r (by
      cases k <;> simp_all)
    have hu' : r' ∈ regionUniverse p := mem_universe p ab hab y.2 (mem_items_all hy) rs' ws' cs' hn' r' (by
      cases k2 <;> simp_all)
    have hrr : r = r' := indexIn_inj _ r r' hu hu' (by
      have : regionId p r = regionId p r' := by rw [← hr1, ← hr1']
      exact this)
    subst hrr
    refine ⟨hpos, r, k2, x.2, y.2, by rw [← hx1]; exact hx, by rw [← hy1]; exact hy, ?_, ?_, hc⟩
    · exact (accessNames_some p x.2 rs ws cs hn r k).2 hr2
    · exact (accessNames_some p y.2 rs' ws' cs' hn' r k2).2 hr2'

/-! ### Non-vacuity -/

/-- read a; write a (by an instruction that also reads a); read a; capture a; read b -/
private def exBlock : Block :=
  { instrs := [
      ⟨.classical, false, false, [0], [], [], none⟩,
      ⟨.classical, false, false, [0], [0], [], none⟩,
      ⟨.classical, false, false, [0, 1], [], [], none⟩,
      ⟨.rf, true, false, [], [], [0], some ([0], [])⟩,
      ⟨.classical, false, false, [1], [], [], none⟩],
    term := some ⟨.controlFlow, false, false, [0], [], [], none⟩ }

example : ∃ es, buildBlock exBlock = .ok es ∧ memSpecB exBlock es = true ∧
    (⟨.instr 0, .instr 1, .await .read⟩ : Edge) ∈ es ∧ (⟨.instr 3, .stop, .await .capture⟩ : Edge) ∈ es :=
  ⟨_, rfl, by decide, by decide, by decide⟩

/-- the checker is not trivially true: dropping the edge 1 → 2 (write then read) is rejected -/
example : ∃ es, buildBlock exBlock = .ok es ∧
    memSpecB exBlock (es.filter fun e => e ≠ ⟨.instr 1, .instr 2, .await .write⟩) = false :=
  ⟨_, rfl, by decide⟩

/-- … and so is an extra read → read edge -/
example : ∃ es, buildBlock exBlock = .ok es ∧
    memSpecB exBlock (⟨.instr 2, .instr 4, .await .read⟩ :: es) = false :=
  ⟨_, rfl, by decide⟩

example : histSpecB Queue.memInit
    [⟨.instr 0, 0, .read⟩, ⟨.instr 1, 0, .read⟩, ⟨.instr 1, 0, .write⟩, ⟨.instr 2, 0, .read⟩]
    (runHistory (QMap.empty Queue.memInit)
      [⟨.instr 0, 0, .read⟩, ⟨.instr 1, 0, .read⟩, ⟨.instr 1, 0, .write⟩, ⟨.instr 2, 0, .read⟩]).2 = true := by
  decide

end QV.C23
