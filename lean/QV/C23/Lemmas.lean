import QV.Shared.SchedLemmas
import QV.C23.Spec
/-! Helper lemmas for C23: the queue content is exactly "last writer, reads since". -/
namespace QV.C23
open QV.Sched

theorem split_snoc {α : Type} : ∀ (pre log post : List α) (a x : α), log ++ [a] = pre ++ x :: post →
    (post = [] ∧ pre = log ∧ x = a) ∨ ∃ post', post = post' ++ [a] ∧ log = pre ++ x :: post' := by
  intro pre
  induction pre with
  | nil =>
    intro log post a x h
    cases log with
    | nil =>
      simp only [List.nil_append, List.cons.injEq] at h
      exact .inl ⟨h.2.symm, rfl, h.1.symm⟩
    | cons l0 ls =>
      simp only [List.cons_append, List.nil_append, List.cons.injEq] at h
      exact .inr ⟨ls, h.2.symm, by rw [h.1]; rfl⟩
  | cons p ps ih =>
    intro log post a x h
    cases log with
    | nil =>
      simp only [List.nil_append, List.cons_append, List.cons.injEq] at h
      have := h.2
      cases ps <;> simp at this
    | cons l0 ls =>
      simp only [List.cons_append, List.cons.injEq] at h
      rcases ih ls post a x h.2 with ⟨h1, h2, h3⟩ | ⟨post', h1, h2⟩
      · exact .inl ⟨h1, by rw [h.1, h2], h3⟩
      · exact .inr ⟨post', h1, by rw [h.1, h2]; rfl⟩

theorem noWriteOn_append {r : Nat} {l1 l2 : List Access} :
    NoWriteOn r (l1 ++ l2) ↔ NoWriteOn r l1 ∧ NoWriteOn r l2 := by
  simp only [NoWriteOn, List.mem_append]
  constructor
  · intro h; exact ⟨fun a ha => h a (.inl ha), fun a ha => h a (.inr ha)⟩
  · rintro ⟨h1, h2⟩ a (ha | ha)
    · exact h1 a ha
    · exact h2 a ha

theorem noWriteOn_single {r : Nat} {a : Access} : NoWriteOn r [a] ↔ (a.res = r → a.kind.isWrite = false) := by
  simp [NoWriteOn]

/-- the queue content relative to the log -/
structure Exact (init : Queue) (m : QMap) (log : List Access) : Prop where
  wr : ∀ r d, (m.get r).write = some d ↔ (IsLastWrite log r d ∨ (init.write = some d ∧ NoWriteOn r log))
  rd : ∀ r n, n ∈ (m.get r).reads ↔ ReadSince log r n

theorem Exact.empty (init : Queue) (hi : init.reads = []) : Exact init (QMap.empty init) [] where
  wr := by
    intro r d
    simp only [QMap.empty]
    constructor
    · intro h; exact .inr ⟨h, by simp [NoWriteOn]⟩
    · rintro (⟨_, pre, post, h, _⟩ | ⟨h, _⟩)
      · cases pre <;> simp at h
      · exact h
  rd := by
    intro r n
    simp only [QMap.empty, hi, List.not_mem_nil, false_iff]
    rintro ⟨pre, post, h, _⟩
    cases pre <;> simp at h

theorem Exact.step {init : Queue} {m : QMap} {log : List Access} (h : Exact init m log) (a : Access) :
    Exact init (m.record a.res a.node a.kind).1 (log ++ [a]) := by
  have lw_other : ∀ r d, ¬ (a.res = r ∧ a.kind.isWrite = true) →
      (IsLastWrite (log ++ [a]) r d ↔ IsLastWrite log r d) := by
    intro r d hna
    constructor
    · rintro ⟨hk, pre, post, heq, hnw⟩
      rcases split_snoc pre log post a _ heq with ⟨_, _, h3⟩ | ⟨post', h1, h2⟩
      · exfalso; apply hna; rw [← h3]; exact ⟨rfl, hk⟩
      · rw [h1, noWriteOn_append] at hnw
        exact ⟨hk, pre, post', h2, hnw.1⟩
    · rintro ⟨hk, pre, post, heq, hnw⟩
      refine ⟨hk, pre, post ++ [a], by rw [heq]; simp, ?_⟩
      rw [noWriteOn_append, noWriteOn_single]
      refine ⟨hnw, fun hr => ?_⟩
      cases hw : a.kind.isWrite
      · rfl
      · exact absurd ⟨hr, hw⟩ hna
  have nw_other : ∀ r, ¬ (a.res = r ∧ a.kind.isWrite = true) → (NoWriteOn r (log ++ [a]) ↔ NoWriteOn r log) := by
    intro r hna
    rw [noWriteOn_append, noWriteOn_single]
    constructor
    · exact fun h => h.1
    · intro h
      refine ⟨h, fun hr => ?_⟩
      cases hw : a.kind.isWrite
      · rfl
      · exact absurd ⟨hr, hw⟩ hna
  constructor
  · intro r d
    rw [QMap.record_get]
    by_cases hr : r = a.res
    · subst hr
      rw [if_pos rfl]
      by_cases hw : a.kind.isWrite = true
      · -- a write to this region: it becomes the writer
        have hq : ((m.get a.res).record a.node a.kind).1.write = some ⟨a.kind, a.node⟩ := by
          cases hk : a.kind <;> simp_all [Queue.record, Kind.isWrite]
        rw [hq]
        constructor
        · intro hd
          simp only [Option.some.injEq] at hd
          subst hd
          exact .inl ⟨hw, log, [], by simp, by simp [NoWriteOn]⟩
        · rintro (⟨hk, pre, post, heq, hnw⟩ | ⟨_, hnw⟩)
          · rcases split_snoc pre log post a _ heq with ⟨_, _, h3⟩ | ⟨post', h1, _⟩
            · rw [← h3]
            · exfalso
              rw [h1, noWriteOn_append, noWriteOn_single] at hnw
              have := hnw.2 rfl
              rw [hw] at this; cases this
          · exfalso
            rw [noWriteOn_append, noWriteOn_single] at hnw
            have := hnw.2 rfl
            rw [hw] at this; cases this
      · have hkr : a.kind = .read := by cases hk : a.kind <;> simp_all [Kind.isWrite]
        have hq : ((m.get a.res).record a.node a.kind).1.write = (m.get a.res).write := by
          rw [hkr]; rfl
        rw [hq, h.wr, lw_other a.res d (fun hh => hw hh.2), nw_other a.res (fun hh => hw hh.2)]
    · rw [if_neg hr, h.wr, lw_other r d (fun hh => hr hh.1.symm), nw_other r (fun hh => hr hh.1.symm)]
  · intro r n
    rw [QMap.record_get]
    have rs_other : ¬ (a.res = r) → (ReadSince (log ++ [a]) r n ↔ ReadSince log r n) := by
      intro hne
      constructor
      · rintro ⟨pre, post, heq, hnw⟩
        rcases split_snoc pre log post a _ heq with ⟨_, _, h3⟩ | ⟨post', h1, h2⟩
        · exfalso; apply hne; rw [← h3]
        · rw [h1, noWriteOn_append] at hnw
          exact ⟨pre, post', h2, hnw.1⟩
      · rintro ⟨pre, post, heq, hnw⟩
        refine ⟨pre, post ++ [a], by rw [heq]; simp, ?_⟩
        rw [noWriteOn_append, noWriteOn_single]
        exact ⟨hnw, fun hr => absurd hr hne⟩
    by_cases hr : r = a.res
    · subst hr
      rw [if_pos rfl]
      by_cases hw : a.kind.isWrite = true
      · -- reads are drained
        have hq : ((m.get a.res).record a.node a.kind).1.reads = [] := by
          cases hk : a.kind <;> simp_all [Queue.record, Kind.isWrite]
        rw [hq]
        simp only [List.not_mem_nil, false_iff]
        rintro ⟨pre, post, heq, hnw⟩
        rcases split_snoc pre log post a _ heq with ⟨_, _, h3⟩ | ⟨post', h1, _⟩
        · rw [← h3] at hw; simp [Kind.isWrite] at hw
        · rw [h1, noWriteOn_append, noWriteOn_single] at hnw
          have := hnw.2 rfl
          rw [hw] at this; cases this
      · have hkr : a.kind = .read := by cases hk : a.kind <;> simp_all [Kind.isWrite]
        have hq : ∀ x, x ∈ ((m.get a.res).record a.node a.kind).1.reads ↔ x ∈ (m.get a.res).reads ∨ x = a.node := by
          intro x
          rw [hkr]
          simp only [Queue.record]
          split
          · rename_i hin
            constructor
            · exact .inl
            · rintro (h1 | rfl)
              · exact h1
              · exact hin
          · simp
        rw [hq, h.rd]
        constructor
        · rintro (⟨pre, post, heq, hnw⟩ | rfl)
          · refine ⟨pre, post ++ [a], by rw [heq]; simp, ?_⟩
            rw [noWriteOn_append, noWriteOn_single]
            exact ⟨hnw, fun _ => by rw [hkr]; rfl⟩
          · refine ⟨log, [], ?_, by simp [NoWriteOn]⟩
            have : a = ⟨a.node, a.res, .read⟩ := by cases a; simp_all
            rw [← this]
        · rintro ⟨pre, post, heq, hnw⟩
          rcases split_snoc pre log post a _ heq with ⟨_, _, h3⟩ | ⟨post', h1, h2⟩
          · right; rw [← h3]
          · rw [h1, noWriteOn_append] at hnw
            exact .inl ⟨pre, post', h2, hnw.1⟩
    · rw [if_neg hr, h.rd]
      exact (rs_other (fun hh => hr hh.symm)).symm

/-- what `record` reports, in terms of the log -/
theorem Exact.deps {init : Queue} {m : QMap} {log : List Access} (h : Exact init m log) (a : Access) :
    ExactDeps init log a (m.record a.res a.node a.kind).2 := by
  intro d
  rw [QMap.record_deps, Queue.mem_record_deps, h.wr, h.rd]

theorem history_exact (init : Queue) : ∀ (h : List Access) (m : QMap) (pre : List Access),
    Exact init m pre → AllExact init pre h (runHistory m h).2 := by
  intro h
  induction h with
  | nil => intro m pre _; simp [runHistory, AllExact]
  | cons a rest ih =>
    intro m pre hq
    simp only [runHistory, AllExact]
    exact ⟨hq.deps a, ih _ _ (hq.step a)⟩

end QV.C23
