/-
C14 model — `quil-rs/src/instruction/gate.rs`: the two tables of standard gate matrices and the lifting
of a gate matrix to the n-qubit space (`lifted_gate_matrix`, `permutation_arbitrary`,
`two_swap_helper`, `qubit_adjacent_lifted_gate`), plus `Gate::to_unitary` for a gate without modifiers.
(The modifier recursion of `gate_matrix` and `Program::to_unitary` / `dagger` are in `QV/C15/Model.lean`,
which imports this file.)

Import-free.  Generic in the scalar type `K`: ring operations come from the core notation classes
(`Zero One Add Sub Mul Neg`), the rest of what `Complex64` offers to this code from `GateFns K`.
Theorems are proved for every commutative ring `K` satisfying `GateLaws` (QV/C14/Lemmas.lean); the driver
runs the same definitions on `CFloat` (pairs of IEEE doubles).

Matrices (`ndarray::Array2<Complex64>`) are `Mat K`: explicit dimensions and an array of rows.  Every
operation below produces its result through `Mat.build r c f` (tabulate `f` on `r × c`), so an operation
is characterised by its dimensions and its entries.
-/
namespace QV.C14

/-- What the Rust code can do besides returning: panic (`crash`), or loop for ever (`outOfFuel` when the
model's fuel runs out). -/
inductive Outcome (α : Type) where
  | ok : α → Outcome α
  | crash : String → Outcome α
  | outOfFuel : Outcome α
  deriving Repr

namespace Outcome
def bind {α β : Type} : Outcome α → (α → Outcome β) → Outcome β
  | ok a, f => f a
  | crash s, _ => crash s
  | outOfFuel, _ => outOfFuel
def isOk {α : Type} : Outcome α → Bool
  | ok _ => true
  | _ => false
end Outcome

/-- The operations of `Complex64` used by gate.rs beyond `+ - * neg 0 1`. -/
class GateFns (K : Type) where
  /-- `Complex64::conj` -/
  conj : K → K
  /-- `Complex64::cos` -/
  cos : K → K
  /-- `Complex64::sin` -/
  sin : K → K
  /-- `theta / 2.0` (division of a `Complex64` by the `f64` 2.0) -/
  half : K → K
  /-- `imag!(1.0)` -/
  i : K
  /-- `real!(std::f64::consts::FRAC_1_SQRT_2)` -/
  invSqrt2 : K
  /-- `Complex64::cis(std::f64::consts::FRAC_PI_4)` (gate.rs:498) -/
  cisPi4 : K
  /-- `e^{ix}`: not used by the model (the tables spell it `cos x + i sin x`), only by the specification -/
  cis : K → K
  /-- `π/4`: only used by the specification (`T = diag(1, e^{iπ/4})`) -/
  pi4 : K

/-- `ndarray::Array2`: `r` rows, `c` columns, `d` the rows. -/
structure Mat (K : Type) where
  r : Nat
  c : Nat
  d : Array (Array K)
  deriving Repr

section
variable {K : Type} [Zero K] [One K] [Add K] [Sub K] [Mul K] [Neg K] [GateFns K]

namespace Mat

/-- entry `(i, j)`; `0` outside the stored range -/
def get (A : Mat K) (i j : Nat) : K := (A.d.getD i #[]).getD j 0

/-- tabulate `f` on `r × c` -/
def build (r c : Nat) (f : Nat → Nat → K) : Mat K :=
  ⟨r, c, Array.ofFn (n := r) fun i => Array.ofFn (n := c) fun j => f i.val j.val⟩

/-- `array![[..],[..]]` -/
def ofRows (r c : Nat) (rows : List (List K)) : Mat K :=
  build r c fun i j => (rows.getD i []).getD j 0

/-- `Array2::eye(n)` -/
def eye (n : Nat) : Mat K := build n n fun i j => if i = j then 1 else 0

/-- `ndarray::linalg::kron(a, b)`: entry `(i·rb + i', j·cb + j') = a[i][j] · b[i'][j']`. -/
def kron (A B : Mat K) : Mat K :=
  build (A.r * B.r) (A.c * B.c) fun i j => A.get (i / B.r) (j / B.c) * B.get (i % B.r) (j % B.c)

/-- `acc + f k + f (k+1) + … + f (k+m-1)`, added in that order -/
def sumFrom (f : Nat → K) : Nat → Nat → K → K
  | 0, _, acc => acc
  | m + 1, k, acc => sumFrom f m (k + 1) (acc + f k)

/-- `Σ_{k<n} f k`, summed in increasing `k` starting from `0` -/
def sumTo (n : Nat) (f : Nat → K) : K := sumFrom f n 0 0

/-- `a.dot(&b)`.  (ndarray panics when `a.c ≠ b.r`; every product formed by the code below is between
square matrices of the same size `2^n`, so that panic is not modelled.) -/
def mul (A B : Mat K) : Mat K :=
  build A.r B.c fun i j => sumTo A.c fun k => A.get i k * B.get k j

/-- `m.t().mapv(|c| c.conj())` -/
def adjoint (A : Mat K) : Mat K := build A.c A.r fun i j => GateFns.conj (A.get j i)

/-- `a + b` on equal shapes -/
def add (A B : Mat K) : Mat K := build A.r A.c fun i j => A.get i j + B.get i j

/-- `m * s` (every entry multiplied by the scalar on the right) -/
def scale (A : Mat K) (s : K) : Mat K := build A.r A.c fun i j => A.get i j * s

/-- `m[[i, j]] = v` -/
def setEntry (A : Mat K) (i j : Nat) (v : K) : Mat K :=
  build A.r A.c fun a b => if a = i ∧ b = j then v else A.get a b

end Mat

open Mat GateFns

/-! ## The tables (gate.rs:462-626) -/

/-- `CONSTANT_GATE_MATRICES` (gate.rs:462): a `HashMap<String, Matrix>`; `none` = key absent. -/
def constTable (name : String) : Option (Mat K) :=
  let _0 : K := 0
  let _1 : K := 1
  let _i : K := i
  match name with
  | "I" => some (eye 2)
  | "X" => some (ofRows 2 2 [[_0, _1], [_1, _0]])
  | "Y" => some (ofRows 2 2 [[_0, -_i], [_i, _0]])
  | "Z" => some (ofRows 2 2 [[_1, _0], [_0, -_1]])
  | "H" => some (scale (ofRows 2 2 [[_1, _1], [_1, -_1]]) invSqrt2)
  | "CNOT" => some (ofRows 4 4 [
      [_1, _0, _0, _0],
      [_0, _1, _0, _0],
      [_0, _0, _0, _1],
      [_0, _0, _1, _0]])
  | "CCNOT" => some (ofRows 8 8 [
      [_1, _0, _0, _0, _0, _0, _0, _0],
      [_0, _1, _0, _0, _0, _0, _0, _0],
      [_0, _0, _1, _0, _0, _0, _0, _0],
      [_0, _0, _0, _1, _0, _0, _0, _0],
      [_0, _0, _0, _0, _1, _0, _0, _0],
      [_0, _0, _0, _0, _0, _1, _0, _0],
      [_0, _0, _0, _0, _0, _0, _0, _1],
      [_0, _0, _0, _0, _0, _0, _1, _0]])
  | "S" => some (ofRows 2 2 [[_1, _0], [_0, _i]])
  | "T" => some (ofRows 2 2 [[_1, _0], [_0, cisPi4]])
  | "CZ" => some (setEntry (eye 4) 3 3 (-_1))
  | "SWAP" => some (ofRows 4 4 [
      [_1, _0, _0, _0],
      [_0, _0, _1, _0],
      [_0, _1, _0, _0],
      [_0, _0, _0, _1]])
  | "CSWAP" => some (ofRows 8 8 [
      [_1, _0, _0, _0, _0, _0, _0, _0],
      [_0, _1, _0, _0, _0, _0, _0, _0],
      [_0, _0, _1, _0, _0, _0, _0, _0],
      [_0, _0, _0, _1, _0, _0, _0, _0],
      [_0, _0, _0, _0, _1, _0, _0, _0],
      [_0, _0, _0, _0, _0, _0, _1, _0],
      [_0, _0, _0, _0, _0, _1, _0, _0],
      [_0, _0, _0, _0, _0, _0, _0, _1]])
  | "ISWAP" => some (ofRows 4 4 [
      [_1, _0, _0, _0],
      [_0, _0, _i, _0],
      [_0, _i, _0, _0],
      [_0, _0, _0, _1]])
  | _ => none

/-- `PARAMETERIZED_GATE_MATRICES` (gate.rs:546): `HashMap<String, fn(Complex64) -> Matrix>`. -/
def paramTable (name : String) : Option (K → Mat K) :=
  let _0 : K := 0
  let _1 : K := 1
  let _i : K := i
  match name with
  | "RX" => some fun theta =>
      let t := half theta
      ofRows 2 2 [[cos t, -_i * sin t], [-_i * sin t, cos t]]
  | "RY" => some fun theta =>
      let t := half theta
      ofRows 2 2 [[cos t, -(sin t)], [sin t, cos t]]
  | "RZ" => some fun theta =>
      let t := half theta
      ofRows 2 2 [[cos t - _i * sin t, _0], [_0, cos t + _i * sin t]]
  | "PHASE" => some fun alpha => setEntry (eye 2) 1 1 (cos alpha + _i * sin alpha)
  | "CPHASE00" => some fun alpha => setEntry (eye 4) 0 0 (cos alpha + _i * sin alpha)
  | "CPHASE01" => some fun alpha => setEntry (eye 4) 1 1 (cos alpha + _i * sin alpha)
  | "CPHASE10" => some fun alpha => setEntry (eye 4) 2 2 (cos alpha + _i * sin alpha)
  | "CPHASE" => some fun alpha => setEntry (eye 4) 3 3 (cos alpha + _i * sin alpha)
  | "PSWAP" => some fun theta =>
      let _c := cos theta + _i * sin theta
      ofRows 4 4 [
        [_1, _0, _0, _0],
        [_0, _0, _c, _0],
        [_0, _c, _0, _0],
        [_0, _0, _0, _1]]
  | _ => none

/-- The `"SWAP"` entry fetched by `two_swap_helper` (gate.rs:407, `.expect("Key should exist by design.")`). -/
def swapMat : Mat K :=
  let _0 : K := 0
  let _1 : K := 1
  ofRows 4 4 [
    [_1, _0, _0, _0],
    [_0, _0, _1, _0],
    [_0, _1, _0, _0],
    [_0, _0, _0, _1]]

/-! ## Errors and parameters -/

/-- The `GateError` variants `to_unitary` can return (messages are never compared). -/
inductive GateErr where
  | undefinedGate (parameterized : Bool)
  | argLength
  | nonConstant
  | variableQubit
  | placeholder
  | forkedOdd
  deriving DecidableEq, Repr

/-- Projection of a gate parameter (`Expression`): what `into_simplified()` yields is either
`Expression::Number(z)` or something else. -/
inductive Param (K : Type) where
  | num : K → Param K
  | other : Param K
  deriving Repr

/-- Projection of `Qubit`. -/
inductive Qubit where
  | fixed : Nat → Qubit
  | variable : Qubit
  | placeholder : Qubit
  deriving DecidableEq, Repr

/-- The base case of `gate_matrix` (gate.rs:282-313): no modifiers left. -/
def baseMatrix (name : String) (params : List (Param K)) : Except GateErr (Mat K) :=
  match params with
  | [] =>
    match constTable name with
    | some m => .ok m
    | none => .error (.undefinedGate false)
  | [p] =>
    match p with
    | .num x =>
      match paramTable name with
      | some f => .ok (f x)
      | none => .error (.undefinedGate true)
    | .other => .error .nonConstant
  | _ => .error .argLength

/-! ## Lifting (gate.rs:226-455) -/

/-- `qubit_adjacent_lifted_gate(i, matrix, n_qubits)` (gate.rs:448).  `gate_size` is
`floor(log2(rows))`; `n_qubits - i - gate_size` is a `u64` subtraction (a panic in a build with overflow
checks, which is how the harness is built). -/
def qubitAdjacentLift (i : Nat) (M : Mat K) (n : Nat) : Outcome (Mat K) :=
  let bottom : Mat K := eye (2 ^ i)
  let gateSize := Nat.log2 M.r
  if n < i + gateSize then .crash "attempt to subtract with overflow"
  else
    let top : Mat K := eye (2 ^ (n - i - gateSize))
    .ok (kron top (kron M bottom))

/-- `slice.swap(a, b)` (panics when out of bounds) -/
def swapAt (arr : List Nat) (a b : Nat) : Outcome (List Nat) :=
  if a < arr.length ∧ b < arr.length then
    .ok ((arr.set a (arr.getD b 0)).set b (arr.getD a 0))
  else .crash "index out of bounds"

/-- One iteration of either `for` loop of `two_swap_helper`: swap positions `p` and `p+1`
(gate.rs:415-416 with `p = i-1`, gate.rs:422-423 with `p = i`). -/
def swapStep (n : Nat) (st : Mat K × List Nat) (p : Nat) : Outcome (Mat K × List Nat) :=
  (qubitAdjacentLift p (swapMat : Mat K) n).bind fun s =>
  (swapAt st.2 p (p + 1)).bind fun arr' =>
  .ok (mul s st.1, arr')

def swapSteps (n : Nat) : List Nat → Mat K × List Nat → Outcome (Mat K × List Nat)
  | [], st => .ok st
  | p :: ps, st => (swapStep n st p).bind (swapSteps n ps)

/-- The positions swapped by `two_swap_helper(j, k, ..)`, in order: for `j > k`,
`(k+1..=j).rev()` gives `i = j, j-1, …, k+1` and swaps `(i-1, i)`; for `j < k`, `j..k` gives `i = j, …, k-1`
and swaps `(i, i+1)`; for `j = k` nothing. -/
def swapPositions (j k : Nat) : List Nat :=
  if j = k then []
  else if j > k then (List.range' k (j - k)).reverse
  else List.range' j (k - j)

/-- `two_swap_helper(j, k, n_qubits, qubit_map)` (gate.rs:405): returns the permutation matrix and the
updated `qubit_map`. -/
def twoSwapHelper (j k n : Nat) (arr : List Nat) : Outcome (Mat K × List Nat) :=
  swapSteps n (swapPositions j k) (eye (2 ^ n), arr)

/-- insertion into a sorted list / insertion sort: `sorted_inds.sort()` -/
def insertSorted (x : Nat) : List Nat → List Nat
  | [] => [x]
  | y :: ys => if x ≤ y then x :: y :: ys else y :: insertSorted x ys
def sortNat : List Nat → List Nat
  | [] => []
  | x :: xs => insertSorted x (sortNat xs)

/-- `qubit_arr.iter().position(|&q| q == x)` -/
def position (x : Nat) : List Nat → Option Nat
  | [] => none
  | y :: ys => if y = x then some 0 else (position x ys).map (· + 1)

/-- The exit test of the sweep (gate.rs:378-382): walking `f = start+len-1, …, start` zipped with
`qubit_inds`, `all(qubit_arr[f] == q)` — short-circuiting, indexing panics when out of bounds.
`f` is passed as `fTop - (number of elements consumed)`. -/
def madeIt (arr : List Nat) : Nat → List Nat → Outcome Bool
  | _, [] => .ok true
  | f, q :: qs =>
    if f < arr.length then
      if arr.getD f 0 = q then madeIt arr (f - 1) qs else .ok false
    else .crash "index out of bounds"

/-- The `for i in array` loop (gate.rs:371-386).  Returns `(made_it, perm, qubit_arr)`. -/
def sweep (qs : List Nat) (n start : Nat) :
    List Nat → Mat K → List Nat → Outcome (Bool × Mat K × List Nat)
  | [], perm, arr => .ok (false, perm, arr)
  | i :: is, perm, arr =>
    match position (qs.getD i 0) arr with
    | none => .crash "These arrays cover the same range."
    | some j =>
      -- final_map[i] = start + len - 1 - i
      (twoSwapHelper j (start + qs.length - 1 - i) n arr).bind fun (pmod, arr') =>
      let perm' := mul pmod perm
      (madeIt arr' (start + qs.length - 1) qs).bind fun made =>
      if made then .ok (true, perm', arr') else sweep qs n start is perm' arr'

/-- The `while !made_it` loop (gate.rs:364-388); `fuel` bounds the number of sweeps. -/
def sweeps (qs : List Nat) (n start : Nat) : Nat → Bool → Mat K → List Nat → Outcome (Mat K)
  | 0, _, _, _ => .outOfFuel
  | fuel + 1, right, perm, arr =>
    let order := if right then List.range qs.length else (List.range qs.length).reverse
    (sweep qs n start order perm arr).bind fun (made, perm', arr') =>
    if made then .ok perm' else sweeps qs n start fuel (!right) perm' arr'

/-- `permutation_arbitrary(qubit_inds, n_qubits)` (gate.rs:337): `(perm, start)`. -/
def permutationArbitrary (qs : List Nat) (n fuel : Nat) : Outcome (Mat K × Nat) :=
  let perm : Mat K := eye (2 ^ n)
  let sorted := sortNat qs
  let medI := qs.length / 2
  if medI < sorted.length then
    let med := sorted.getD medI 0
    if med < medI then .crash "attempt to subtract with overflow"
    else
      let start := med - medI
      if qs.length > 1 then
        (sweeps qs n start fuel true perm (List.range n)).bind fun p => .ok (p, start)
      else .ok (perm, start)
  else .crash "index out of bounds"

/-- `lifted_gate_matrix(matrix, qubits, n_qubits)` (gate.rs:226). -/
def liftedGateMatrix (M : Mat K) (qs : List Nat) (n fuel : Nat) : Outcome (Mat K) :=
  (permutationArbitrary qs n fuel).bind fun (perm, start) =>
  (qubitAdjacentLift start M n).bind fun v =>
  .ok (mul (adjoint perm) (mul v perm))

/-- The qubit check at the top of `Gate::to_unitary` (gate.rs:201-214): first offending qubit decides. -/
def fixedQubits : List Qubit → Except GateErr (List Nat)
  | [] => .ok []
  | .fixed i :: qs => (fixedQubits qs).map (i :: ·)
  | .variable :: _ => .error .variableQubit
  | .placeholder :: _ => .error .placeholder

/-- Default fuel for the sweep loop (the theorems state that it suffices for every placement into ≤ 5 qubits). -/
def defaultFuel : Nat := 16

/-- `Gate::to_unitary` for a gate without modifiers. -/
def toUnitary0 (name : String) (params : List (Param K)) (qubits : List Qubit) (n : Nat) :
    Outcome (Except GateErr (Mat K)) :=
  match fixedQubits qubits with
  | .error e => .ok (.error e)
  | .ok qs =>
    match baseMatrix name params with
    | .error e => .ok (.error e)
    | .ok m => (liftedGateMatrix m qs n defaultFuel).bind fun u => .ok (.ok u)

end
end QV.C14
