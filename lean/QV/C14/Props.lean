import QV.C14.Lemmas
import QV.C14.Complex
import QV.C14.Lift
import QV.C14.Term
import QV.C14.TermAll
/-
C14 — Standard gate unitaries match the Quil specification.

Property theorems only.  `K` is any commutative ring with a conjugation satisfying `GateLaws K`
(QV/C14/Lemmas.lean) — in particular `ℂ` with the exact complex `cos`/`sin`/`exp` (QV/C14/Complex.lean), which is
the non-vacuity witness used in the `example`s.  IEEE rounding (what the running code does) satisfies none
of the laws: that part is covered by the correspondence run only (declared partial).
-/
namespace QV.C14
open Mat GateFns

variable {K : Type} [CommRing K] [StarRing K] [GateFns K] [GateLaws K]

/-- **(a) Table = specification, every gate, every parameter value (unbounded in θ).**  The base case of
`gate_matrix` (`CONSTANT_GATE_MATRICES` / `PARAMETERIZED_GATE_MATRICES` lookup, parameter-count checks)
succeeds exactly on the 22 standard gates with the right number of parameters and returns the Quil
specification's matrix `specMatrix` (written from the gates' action on basis states, `e^{ix}` as `cis`). -/
theorem C14_table_eq_spec (name : String) (θs : List K) :
    (baseMatrix name (θs.map Param.num)).toOption = specMatrix name θs :=
  baseMatrix_eq_spec name θs

/-- non-vacuity: over `ℂ`, `RZ(θ)` is defined by both sides and is `diag(e^{-iθ/2}, e^{iθ/2})` -/
example (θ : ℂ) : (baseMatrix "RZ" [Param.num θ]).toOption
    = some (diagGate 1 fun c => if c.testBit 0 then Complex.exp (θ / 2 * Complex.I) else Complex.exp (-(θ / 2) * Complex.I)) := by
  have := C14_table_eq_spec (K := ℂ) "RZ" [θ]
  simp only [List.map_cons, List.map_nil] at this
  rw [this]; rfl

/-! ### (b) Lifting -/

/-- The `Bool` placement test used by the driver means what it says. -/
theorem C14_validPlacement_iff (qs : List Nat) (n : Nat) :
    validPlacement qs n = true ↔ qs ≠ [] ∧ (∀ q ∈ qs, q < n) ∧ qs.Nodup := by
  have hnd : ∀ l : List Nat, nodupB l = true ↔ l.Nodup := by
    intro l
    induction l with
    | nil => simp [nodupB]
    | cons q qs ih => simp [nodupB, ih, List.nodup_cons]
  unfold validPlacement
  simp [hnd, List.isEmpty_iff]
  tauto

/-- The specification of lifting, read entry-wise as a `Prop`: entry `(r, c)` of `liftSpec U qs n` is
`U[gate bits of r][gate bits of c]` when `r` and `c` agree on every qubit `< n` that is not listed, else `0`
(the `Bool` test `agreeOutside` evaluated by the driver is exactly that condition). -/
theorem C14_liftSpec_entry (U : Mat K) (qs : List Nat) (n r c : Nat) (hr : r < 2 ^ n) (hc : c < 2 ^ n)
    [Decidable (∀ p, p < n → p ∉ qs → r.testBit p = c.testBit p)] :
    (liftSpec U qs n).get r c =
      if (∀ p, p < n → p ∉ qs → r.testBit p = c.testBit p) then U.get (gateIndex qs r) (gateIndex qs c) else 0 := by
  unfold liftSpec
  rw [get_build hr hc]
  have : agreeOutside qs n r c = true ↔ ∀ p, p < n → p ∉ qs → r.testBit p = c.testBit p := by
    unfold agreeOutside
    simp only [List.all_eq_true, List.mem_range, Bool.or_eq_true, List.contains_eq_mem, decide_eq_true_eq,
      beq_iff_eq]
    constructor
    · intro h p hp hq; rcases h p hp with h | h
      · exact absurd h hq
      · exact h
    · intro h p hp
      by_cases hq : p ∈ qs
      · exact Or.inl hq
      · exact Or.inr (h p hp hq)
  by_cases h : agreeOutside qs n r c = true
  · rw [if_pos h, if_pos (this.mp h)]
  · rw [if_neg h, if_neg (fun hh => h (this.mpr hh))]

/-- **(b) Lifting, all `n`, all matrices, all qubit lists — partial correctness.**  Whenever
`lifted_gate_matrix` (swap network with any fuel, then `Pᴴ·(I⊗M⊗I)·P`) returns on a `2^k × 2^k` matrix `M` and
`k` listed qubits, the result is `liftSpec M qs n`.  Unbounded in `n`, `k`, `M`.  What is *not* proved for
`n > 5` is that the sweep loop terminates (hence `_partial`); see `C14_lift_eq_spec` for `n ≤ 5`. -/
theorem C14_lift_eq_spec_alln_partial {M : Mat K} {qs : List Nat} {n fuel : Nat} {R : Mat K}
    (hMr : M.r = 2 ^ qs.length) (hMc : M.c = 2 ^ qs.length)
    (h : liftedGateMatrix M qs n fuel = .ok R) : R = liftSpec M qs n :=
  liftedGateMatrix_eq_liftSpec hMr hMc h

/-- **(b) Lifting on the property's quantifier**: for every `n ≤ 5`, every valid placement `qs` (distinct
qubits `< n`, any number of them) and EVERY `2^|qs| × 2^|qs|` matrix `M` (not only table entries),
`lifted_gate_matrix` returns — no panic, no endless loop — and returns `liftSpec M qs n`.
(Termination: exhaustive kernel evaluation of the matrix-free shadow over all 409 placements, a finite proof
for a finite quantifier; correctness: the unbounded theorem above.) -/
theorem C14_lift_eq_spec {M : Mat K} {qs : List Nat} {n : Nat} (hn : n ≤ 5)
    (hv : validPlacement qs n = true) (hMr : M.r = 2 ^ qs.length) (hMc : M.c = 2 ^ qs.length) :
    liftedGateMatrix M qs n defaultFuel = .ok (liftSpec M qs n) := by
  obtain ⟨R, hR⟩ := liftedGateMatrix_of_shadow (K := K) hMr (shadow_ok_of_valid hn hv)
  rw [hR, liftedGateMatrix_eq_liftSpec hMr hMc hR]

/-- **(b) Lifting, ALL `n`, total correctness.**  For every `n`, every valid placement `qs` (distinct qubits
`< n`, any number of them), every `2^|qs| × 2^|qs|` matrix `M` and any fuel of at least two sweeps,
`lifted_gate_matrix` returns — no panic, no endless loop — and returns `liftSpec M qs n`.
Termination is by a variant argument, not by enumeration: the left-to-right sweep leaves every listed qubit at
or above its slot and in the right relative order, and the following right-to-left sweep pulls them down one
by one, displacing only unlisted qubits, so the loop exits within two sweeps (`TermAll.lean`). -/
theorem C14_lift_eq_spec_alln {M : Mat K} {qs : List Nat} {n : Nat} (fuel : Nat)
    (hv : validPlacement qs n = true) (hMr : M.r = 2 ^ qs.length) (hMc : M.c = 2 ^ qs.length) :
    liftedGateMatrix M qs n (fuel + 2) = .ok (liftSpec M qs n) := by
  obtain ⟨R, hR⟩ := liftedGateMatrix_of_shadow (K := K) hMr (shadow_ok_alln hv fuel)
  rw [hR, liftedGateMatrix_eq_liftSpec hMr hMc hR]

/-- **C14 for all `n`**: as `C14_toUnitary_eq_spec` below, without the bound `n ≤ 5`. -/
theorem C14_toUnitary_eq_spec_alln (name : String) (θs : List K) (U : Mat K) (qs : List Nat) (n : Nat)
    (hspec : specMatrix name θs = some U) (harity : U.r = 2 ^ qs.length)
    (hv : validPlacement qs n = true) :
    toUnitary0 name (θs.map Param.num) (qs.map Qubit.fixed) n = .ok (.ok (liftSpec U qs n)) := by
  have hfix : ∀ l : List Nat, fixedQubits (l.map Qubit.fixed) = .ok l := by
    intro l
    induction l with
    | nil => rfl
    | cons q l ih => simp only [List.map_cons, fixedQubits, ih]; rfl
  have hbase : baseMatrix name (θs.map Param.num) = .ok U := by
    have := C14_table_eq_spec name θs
    rw [hspec] at this
    cases hb : baseMatrix name (θs.map Param.num) with
    | ok m => rw [hb] at this; simp only [Except.toOption] at this; injection this with this; rw [this]
    | error e => rw [hb] at this; simp [Except.toOption] at this
  obtain ⟨_, hsq⟩ := specMatrix_square hspec
  unfold toUnitary0
  rw [hfix, hbase]
  simp only
  have := C14_lift_eq_spec_alln (K := K) 14 hv harity (by rw [← hsq]; exact harity)
  show (liftedGateMatrix U qs n (14 + 2)).bind _ = _
  rw [this]
  rfl

/-- non-vacuity beyond the property's range: `CCNOT 9 0 4` on 10 qubits over `ℂ` -/
example : toUnitary0 (K := ℂ) "CCNOT" [] [Qubit.fixed 9, Qubit.fixed 0, Qubit.fixed 4] 10
    = .ok (.ok (liftSpec (permGate 3 fun c => 4 * bit c 2 + 2 * bit c 1 + (bit c 0 + bit c 2 * bit c 1) % 2) [9, 0, 4] 10)) :=
  C14_toUnitary_eq_spec_alln (K := ℂ) "CCNOT" [] _ [9, 0, 4] 10 rfl rfl (by decide)

/-- **Observation outside the property (inputs of this kind are never sent to the real code).**  A repeated qubit
makes the sweep loop of `permutation_arbitrary` spin for ever: for `CNOT q q` (`1 ≤ q < n`; more generally any
4×4 matrix on the list `[q, q]`) the model's `lifted_gate_matrix` runs out of EVERY fuel — no sweep panics and the
exit test can never hold, because two different slots would have to contain the same qubit of a bijective
arrangement (`sweeps_diverges` states this for any list with a repeated qubit whose window fits).  Hence
`Gate::to_unitary` on `CNOT 1 1` does not return. -/
theorem C14_repeated_qubit_diverges (M : Mat K) (q n : Nat) (h1 : 1 ≤ q) (hq : q < n) (fuel : Nat) :
    liftedGateMatrix M [q, q] n fuel = .outOfFuel :=
  liftedGateMatrix_repeated_diverges M h1 hq fuel

/-- the same through the model of `Gate::to_unitary`: `CNOT 1 1` on 2 qubits -/
example : toUnitary0 (K := ℂ) "CNOT" [] [Qubit.fixed 1, Qubit.fixed 1] 2 = .outOfFuel := by
  have h := C14_repeated_qubit_diverges (K := ℂ)
    (Mat.ofRows 4 4 [[1, 0, 0, 0], [0, 1, 0, 0], [0, 0, 0, 1], [0, 0, 1, 0]]) 1 2 (le_refl 1) (by norm_num) defaultFuel
  simp only [toUnitary0, fixedQubits, Except.map, baseMatrix, constTable]
  rw [h]; rfl

/-- **C14, assembled.**  For every standard gate `name` with parameters `θs` (any values) that the Quil
specification defines (`specMatrix name θs = some U`), applied to the right number of distinct fixed qubits
`qs`, all `< n ≤ 5`: `Gate::to_unitary` returns, without error or panic, the specification's matrix lifted
with qubit 0 as the least significant bit and the first listed qubit as the gate's most significant one. -/
theorem C14_toUnitary_eq_spec (name : String) (θs : List K) (U : Mat K) (qs : List Nat) (n : Nat)
    (hspec : specMatrix name θs = some U) (harity : U.r = 2 ^ qs.length)
    (hn : n ≤ 5) (hv : validPlacement qs n = true) :
    toUnitary0 name (θs.map Param.num) (qs.map Qubit.fixed) n = .ok (.ok (liftSpec U qs n)) := by
  have hfix : ∀ l : List Nat, fixedQubits (l.map Qubit.fixed) = .ok l := by
    intro l
    induction l with
    | nil => rfl
    | cons q l ih => simp only [List.map_cons, fixedQubits, ih]; rfl
  have hbase : baseMatrix name (θs.map Param.num) = .ok U := by
    have := C14_table_eq_spec name θs
    rw [hspec] at this
    cases hb : baseMatrix name (θs.map Param.num) with
    | ok m => rw [hb] at this; simp only [Except.toOption] at this; injection this with this; rw [this]
    | error e => rw [hb] at this; simp [Except.toOption] at this
  obtain ⟨_, hsq⟩ := specMatrix_square hspec
  unfold toUnitary0
  rw [hfix, hbase]
  simp only
  rw [C14_lift_eq_spec hn hv harity (by rw [← hsq]; exact harity)]
  rfl

/-- non-vacuity: `CNOT 2 0` on 3 qubits over `ℂ` -/
example : toUnitary0 (K := ℂ) "CNOT" [] [Qubit.fixed 2, Qubit.fixed 0] 3
    = .ok (.ok (liftSpec (permGate 2 fun c => 2 * bit c 1 + (bit c 0 + bit c 1) % 2) [2, 0] 3)) :=
  C14_toUnitary_eq_spec (K := ℂ) "CNOT" [] _ [2, 0] 3 rfl rfl (by norm_num) (by decide)

/-- non-vacuity: `RZ(θ) 1` on 2 qubits over `ℂ`, any θ -/
example (θ : ℂ) : ∃ U, specMatrix "RZ" [θ] = some U ∧
    toUnitary0 "RZ" [Param.num θ] [Qubit.fixed 1] 2 = .ok (.ok (liftSpec U [1] 2)) :=
  ⟨_, rfl, C14_toUnitary_eq_spec (K := ℂ) "RZ" [θ] _ [1] 2 rfl rfl (by norm_num) (by decide)⟩

end QV.C14
