import QV.C14.Lemmas
import QV.C14.Complex
/-
C14 — Standard gate unitaries match the Quil specification.

Property theorems only.  `K` is any commutative ring with a conjugation satisfying `GateLaws K`
(QV/C14/Lemmas.lean) — in particular `ℂ` with the exact complex `cos`/`sin`/`exp` (QV/C14/Complex.lean), which is
the non-vacuity witness used in the `example`s.  IEEE rounding (what the running code does) satisfies none
of the laws: that part is covered by the correspondence run only (declared partial).
-/
namespace QV.C14
open Mat GateFns

variable {K : Type} [CommRing K] [StarRing K] [GateFns K] [GateLaws K]

/-- **(a) Table = specification, every gate, every parameter value (unbounded in θ).**  The base case of
`gate_matrix` (`CONSTANT_GATE_MATRICES` / `PARAMETERIZED_GATE_MATRICES` lookup, parameter-count checks)
succeeds exactly on the 22 standard gates with the right number of parameters and returns the Quil
specification's matrix `specMatrix` (written from the gates' action on basis states, `e^{ix}` as `cis`). -/
theorem C14_table_eq_spec (name : String) (θs : List K) :
    (baseMatrix name (θs.map Param.num)).toOption = specMatrix name θs :=
  baseMatrix_eq_spec name θs

/-- non-vacuity: over `ℂ`, `RZ(θ)` is defined by both sides and is `diag(e^{-iθ/2}, e^{iθ/2})` -/
example (θ : ℂ) : (baseMatrix "RZ" [Param.num θ]).toOption
    = some (diagGate 1 fun c => if c.testBit 0 then Complex.exp (θ / 2 * Complex.I) else Complex.exp (-(θ / 2) * Complex.I)) := by
  have := C14_table_eq_spec (K := ℂ) "RZ" [θ]
  simp only [List.map_cons, List.map_nil] at this
  rw [this]; rfl

end QV.C14
